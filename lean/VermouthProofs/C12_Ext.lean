import VermouthProofs.C12_Ea
/-! Helper lemmas for C12, part 7 (extension round): bonds from interactions, log entries of a
merge, a molecule merged into itself, block building. -/
namespace C12

/-! ### bonds from interactions -/

theorem consecPairs_mem {κ : Type} (l : List κ) (e : κ × κ) (h : e ∈ consecPairs l) : e.1 ∈ l ∧ e.2 ∈ l := by
  induction l with
  | nil => simp [consecPairs] at h
  | cons a t ih =>
    cases t with
    | nil => simp [consecPairs] at h
    | cons b r =>
      simp only [consecPairs, List.mem_cons] at h
      rcases h with rfl | h
      · exact ⟨List.mem_cons_self, List.mem_cons_of_mem _ List.mem_cons_self⟩
      · have := ih h
        exact ⟨List.mem_cons_of_mem _ this.1, List.mem_cons_of_mem _ this.2⟩

/-- `{a, b}` is a pair of consecutive atoms of the interaction -/
def pathPair (atoms : List Int) (a b : Int) : Prop := (a, b) ∈ consecPairs atoms ∨ (b, a) ∈ consecPairs atoms

theorem addPath_spec (m : Mol) (atoms : List Int) (hat : ∀ x ∈ atoms, x ∈ m.keys) :
    (m.addPath atoms).nodes = m.nodes ∧ (m.addPath atoms).inters = m.inters ∧
    (m.addPath atoms).eattr = m.eattr ∧ (m.addPath atoms).cites = m.cites ∧
    (m.addPath atoms).nrexcl = m.nrexcl ∧
    (∀ a b, (m.addPath atoms).hasEdge a b = true ↔ m.hasEdge a b = true ∨ pathPair atoms a b) := by
  have hin : ∀ e ∈ consecPairs atoms, e.1 ∈ m.keys ∧ e.2 ∈ m.keys := fun e he =>
    ⟨hat _ (consecPairs_mem atoms e he).1, hat _ (consecPairs_mem atoms e he).2⟩
  refine ⟨(addEdges_nodes m _ hin).1, addEdges_inters m _, addEdges_eattr m _, addEdges_cites m _,
    addEdges_nrexcl m _, ?_⟩
  intro a b
  show (m.addEdges (consecPairs atoms)).hasEdge a b = true ↔ _
  rw [addEdges_hasEdge]
  apply or_congr Iff.rfl
  unfold pathPair
  constructor
  · rintro ⟨e, he, ⟨rfl, rfl⟩ | ⟨rfl, rfl⟩⟩
    · exact Or.inl he
    · exact Or.inr he
  · rintro (h | h)
    · exact ⟨_, h, Or.inl ⟨rfl, rfl⟩⟩
    · exact ⟨_, h, Or.inr ⟨rfl, rfl⟩⟩

theorem foldl_addPath_spec (l : List (String × Inter)) (m : Mol) (hat : ∀ ti ∈ l, ∀ x ∈ ti.2.atoms, x ∈ m.keys) :
    let r := l.foldl (fun acc ti => acc.addPath ti.2.atoms) m
    r.nodes = m.nodes ∧ r.inters = m.inters ∧ r.eattr = m.eattr ∧ r.cites = m.cites ∧ r.nrexcl = m.nrexcl ∧
    (∀ a b, r.hasEdge a b = true ↔ m.hasEdge a b = true ∨ ∃ ti ∈ l, pathPair ti.2.atoms a b) := by
  induction l generalizing m with
  | nil => simp
  | cons ti t ih =>
    obtain ⟨h1, h2, h3, h4, h5, h6⟩ := addPath_spec m ti.2.atoms (hat ti List.mem_cons_self)
    have hk : (m.addPath ti.2.atoms).keys = m.keys := by unfold Mol.keys; rw [h1]
    obtain ⟨g1, g2, g3, g4, g5, g6⟩ := ih (m.addPath ti.2.atoms)
      (fun tj htj x hx => by rw [hk]; exact hat tj (List.mem_cons_of_mem _ htj) x hx)
    simp only [List.foldl_cons]
    refine ⟨g1.trans h1, g2.trans h2, g3.trans h3, g4.trans h4, g5.trans h5, ?_⟩
    intro a b
    rw [g6 a b, h6 a b]
    simp only [List.mem_cons, exists_eq_or_imp]
    rw [or_assoc]

theorem makeEdgesType_spec' (m : Mol) (h : m.Wf) (ty : String) :
    (m.makeEdgesType ty).nodes = m.nodes ∧ (m.makeEdgesType ty).inters = m.inters ∧
    (m.makeEdgesType ty).eattr = m.eattr ∧ (m.makeEdgesType ty).cites = m.cites ∧
    (m.makeEdgesType ty).nrexcl = m.nrexcl ∧
    (∀ a b, (m.makeEdgesType ty).hasEdge a b = true ↔
      m.hasEdge a b = true ∨ ∃ ti ∈ m.inters, ti.1 = ty ∧ ti.2.edge = true ∧ pathPair ti.2.atoms a b) := by
  have := foldl_addPath_spec (m.inters.filter (fun ti => ti.1 == ty && ti.2.edge)) m
    (fun ti hti x hx => h.2.2 ti (List.mem_filter.mp hti).1 x hx)
  obtain ⟨g1, g2, g3, g4, g5, g6⟩ := this
  refine ⟨g1, g2, g3, g4, g5, ?_⟩
  intro a b
  refine Iff.trans (g6 a b) ?_
  apply or_congr Iff.rfl
  constructor
  · rintro ⟨ti, hti, hp⟩
    obtain ⟨h1, h2⟩ := List.mem_filter.mp hti
    simp only [Bool.and_eq_true, beq_iff_eq] at h2
    exact ⟨ti, h1, h2.1, h2.2, hp⟩
  · rintro ⟨ti, hti, e1, e2, hp⟩
    exact ⟨ti, List.mem_filter.mpr ⟨hti, by simp [e1, e2]⟩, hp⟩

/-! ### log entries of a merge -/

/-- `{name: correspondence[old] for (name, old) in fmt_arg.items()}` when every `old` is a key -/
def renameArgC (keys : List Int) (offset : Int) (fa : FmtArg) : FmtArg :=
  fa.map (fun p => (p.1, corr keys offset p.2))

/-- the log entries after the merge loop: every entry of the newcomer, its format maps renumbered
through the key correspondence and the correspondence itself appended, is added to the same
(level, entry) of the receiving molecule -/
def mergedLogs (acc : Logs) (keys : List Int) (offset : Int) (l : List (Int × String × List FmtArg)) : Logs :=
  l.foldl (fun acc le => extendLog acc le.1 le.2.1
    (le.2.2.map (renameArgC keys offset) ++ [corrArg keys offset])) acc

theorem mergeLogs_eq (acc : Logs) (keys : List Int) (offset : Int) (l : List (Int × String × List FmtArg))
    (h : ∀ le ∈ l, ∀ fa ∈ le.2.2, ∀ p ∈ fa, p.2 ∈ keys) :
    mergeLogs acc keys offset l = (mergedLogs acc keys offset l, true) := by
  induction l generalizing acc with
  | nil => rfl
  | cons le t ih =>
    obtain ⟨lv, e, args⟩ := le
    have hargs : args.mapM (renameArg keys offset) = some (args.map (renameArgC keys offset)) := by
      apply mapM_option_eq
      intro fa hfa
      unfold renameArg renameArgC
      apply mapM_option_eq
      intro p hp
      rw [corrOf_of_mem keys offset p.2 (h (lv, e, args) List.mem_cons_self fa hfa p hp)]
      rfl
    unfold mergeLogs
    rw [hargs]
    simp only [mergedLogs, List.foldl_cons]
    exact ih _ (fun le hle => h le (List.mem_cons_of_mem _ hle))

theorem corrArgFrom_getElem? (start : Int) (keys : List Int) (i : Nat) :
    (corrArgFrom start keys)[i]? = (keys[i]?).map (fun k => (toString k, start + (i : Int))) := by
  induction keys generalizing start i with
  | nil => simp [corrArgFrom]
  | cons k t ih =>
    cases i with
    | zero => simp [corrArgFrom]
    | succ j =>
      simp only [corrArgFrom, List.getElem?_cons_succ, ih]
      cases t[j]? with
      | none => rfl
      | some x => simp only [Option.map_some, Option.some.injEq, Prod.mk.injEq, true_and]; omega

theorem corrArgFrom_vals (start : Int) (keys : List Int) :
    ∀ p ∈ corrArgFrom start keys, start ≤ p.2 ∧ p.2 < start + (keys.length : Int) := by
  induction keys generalizing start with
  | nil => intro p hp; cases hp
  | cons k t ih =>
    intro p hp
    simp only [corrArgFrom, List.mem_cons] at hp
    rcases hp with rfl | hp
    · simp only [List.length_cons]; omega
    · have := ih (start + 1) p hp
      simp only [List.length_cons]; omega

/-- all format maps of all entries -/
def allArgs (lg : Logs) : List FmtArg := lg.flatMap (fun le => le.2.flatMap (fun ea => ea.2))

theorem logOk_iff (m : Mol) : m.LogOk ↔ ∀ fa ∈ allArgs m.logs, ∀ p ∈ fa, p.2 ∈ m.keys := by
  unfold Mol.LogOk allArgs flattenLogs
  simp only [List.mem_flatMap, List.mem_map]
  constructor
  · rintro h fa ⟨le, hle, ea, hea, hfa⟩ p hp
    exact h (le.1, ea.1, ea.2) ⟨le, hle, ea, hea, rfl⟩ fa hfa p hp
  · rintro h x ⟨le, hle, ea, hea, rfl⟩ fa hfa p hp
    exact h fa ⟨le, hle, ea, hea, hfa⟩ p hp

theorem mem_args_extendEntry (es : List (String × List FmtArg)) (e : String) (args : List FmtArg) (fa : FmtArg) :
    fa ∈ (extendEntry es e args).flatMap (fun ea => ea.2) ↔ fa ∈ es.flatMap (fun ea => ea.2) ∨ fa ∈ args := by
  induction es with
  | nil => simp [extendEntry]
  | cons x t ih =>
    obtain ⟨e', a⟩ := x
    unfold extendEntry
    split
    · simp only [List.flatMap_cons, List.mem_append]
      constructor
      · rintro ((h | h) | h)
        · exact Or.inl (Or.inl h)
        · exact Or.inr h
        · exact Or.inl (Or.inr h)
      · rintro ((h | h) | h)
        · exact Or.inl (Or.inl h)
        · exact Or.inr h
        · exact Or.inl (Or.inr h)
    · simp only [List.flatMap_cons, List.mem_append, ih]
      rw [or_assoc]

theorem mem_allArgs_extendLog (lg : Logs) (l : Int) (e : String) (args : List FmtArg) (fa : FmtArg) :
    fa ∈ allArgs (extendLog lg l e args) ↔ fa ∈ allArgs lg ∨ fa ∈ args := by
  unfold allArgs
  induction lg with
  | nil => simp [extendLog]
  | cons x t ih =>
    obtain ⟨l', es⟩ := x
    unfold extendLog
    split
    · simp only [List.flatMap_cons, List.mem_append, mem_args_extendEntry]
      constructor
      · rintro ((h | h) | h)
        · exact Or.inl (Or.inl h)
        · exact Or.inr h
        · exact Or.inl (Or.inr h)
      · rintro ((h | h) | h)
        · exact Or.inl (Or.inl h)
        · exact Or.inr h
        · exact Or.inl (Or.inr h)
    · simp only [List.flatMap_cons, List.mem_append, ih]
      rw [or_assoc]

theorem mem_allArgs_mergedLogs (acc : Logs) (keys : List Int) (offset : Int) (l : List (Int × String × List FmtArg))
    (fa : FmtArg) (h : fa ∈ allArgs (mergedLogs acc keys offset l)) :
    fa ∈ allArgs acc ∨ fa = corrArg keys offset ∨ ∃ le ∈ l, ∃ fb ∈ le.2.2, fa = renameArgC keys offset fb := by
  induction l generalizing acc with
  | nil => exact Or.inl h
  | cons le t ih =>
    simp only [mergedLogs, List.foldl_cons] at h
    rcases ih _ h with h' | h' | ⟨le', hle', fb, hfb, e⟩
    · rcases (mem_allArgs_extendLog _ _ _ _ _).mp h' with h'' | h''
      · exact Or.inl h''
      · rcases List.mem_append.mp h'' with h3 | h3
        · obtain ⟨fb, hfb, rfl⟩ := List.mem_map.mp h3
          exact Or.inr (Or.inr ⟨le, List.mem_cons_self, fb, hfb, rfl⟩)
        · exact Or.inr (Or.inl (List.mem_singleton.mp h3))
    · exact Or.inr (Or.inl h')
    · exact Or.inr (Or.inr ⟨le', List.mem_cons_of_mem _ hle', fb, hfb, e⟩)

theorem mergeResult_logs {self other : Mol} (hl : other.LogOk) (nrexcl : Option Int) (offset roff coff : Int) :
    (mergeResult self other nrexcl offset roff coff).logs =
      mergedLogs self.logs other.keys offset (flattenLogs other.logs) := by
  show (mergeLogsOf self other offset).1 = _
  unfold mergeLogsOf
  rw [mergeLogs_eq _ _ _ _ hl]

/-- after a merge every format map of every log entry still mentions atoms of the molecule only —
provided that was so in both operands -/
theorem mergeResult_logOk {self other : Mol} (ho : other.Wf) (hsl : self.LogOk) (hol : other.LogOk)
    (nrexcl : Option Int) (offset roff coff : Int) :
    (mergeResult self other nrexcl offset roff coff).LogOk := by
  rw [logOk_iff, mergeResult_logs hol, mergeResult_keys nrexcl offset roff coff ho]
  intro fa hfa p hp
  simp only [List.mem_append, newNodes_keys_mem]
  have hlen : other.keys.length = other.nodes.length := by simp [Mol.keys]
  rcases mem_allArgs_mergedLogs _ _ _ _ fa hfa with h | rfl | ⟨le, hle, fb, hfb, rfl⟩
  · exact Or.inl ((logOk_iff self).mp hsl fa h p hp)
  · right
    have := corrArgFrom_vals (offset + 1) other.keys p hp
    omega
  · right
    obtain ⟨q, hq, rfl⟩ := List.mem_map.mp hp
    have := corr_range other.keys offset q.2 (hol le hle fb hfb q hq)
    simp only
    omega

/-! ### a molecule merged into itself, in closed form -/

theorem selfMerge_two {m : Mol} (h : m.Inv) (first second : Int × Attrs) (rest : List (Int × Attrs))
    (hn : m.nodes = first :: second :: rest) :
    m.selfMerge =
      ({ m with nodes := m.nodes ++ [(m.offset + 1, first.2.shift m.shiftBy.1 m.shiftBy.2)], maxNode := none },
       .runtimeerror) := by
  have hfresh : m.offset + 1 ∉ m.nodes.map Prod.fst := fun hx => by
    have := offset_ge (self := m) _ hx; omega
  unfold Mol.selfMerge
  rw [hn]
  dsimp only
  rw [← hn, mergeOffs_eq h.2]
  dsimp only
  rw [upsert_fresh _ _ _ hfresh]

theorem selfMerge_one_inters {m : Mol} (h : m.Inv) (first : Int × Attrs) (ty : String) (i : Inter)
    (rest : List (String × Inter)) (hn : m.nodes = [first]) (hi : m.inters = (ty, i) :: rest) :
    m.selfMerge =
      ({ m with nodes := m.nodes ++ [(m.offset + 1, first.2.shift m.shiftBy.1 m.shiftBy.2)],
                inters := m.inters ++ (m.inters.filter (fun ti => ti.1 == ty)).map
                  (fun ti => (ti.1, { ti.2 with atoms := ti.2.atoms.map (fun _ => m.offset + 1) })),
                maxNode := some (m.offset + 1) }, .keyerror) := by
  have hfresh : m.offset + 1 ∉ m.nodes.map Prod.fst := fun hx => by
    have := offset_ge (self := m) _ hx; omega
  unfold Mol.selfMerge
  rw [hn]
  dsimp only
  rw [hi]
  dsimp only
  rw [← hn, ← hi, mergeOffs_eq h.2]
  dsimp only
  rw [upsert_fresh _ _ _ hfresh]

theorem selfMerge_normal {m : Mol} (h : m.nodes = [] ∨ (∃ first, m.nodes = [first]) ∧ m.inters = []) :
    m.selfMerge = m.merge m := by
  unfold Mol.selfMerge
  rcases h with h | ⟨⟨first, h⟩, hi⟩
  · rw [h]
  · rw [h]; dsimp only; rw [hi]

/-! ### building a block: names stay distinct -/

theorem upsertB_keys (ns : List (String × Attrs)) (k : String) (a : Attrs) :
    (upsertB ns k a).map Prod.fst =
      if k ∈ ns.map Prod.fst then ns.map Prod.fst else ns.map Prod.fst ++ [k] := by
  induction ns with
  | nil => simp [upsertB]
  | cons p t ih =>
    obtain ⟨k', a'⟩ := p
    unfold upsertB
    by_cases h : k' = k
    · subst h; simp
    · have h' : ¬ k = k' := fun e => h e.symm
      simp only [if_neg h, List.map_cons, ih, List.mem_cons, h', false_or]
      split <;> simp

theorem upsertB_nodup (ns : List (String × Attrs)) (k : String) (a : Attrs) (h : (ns.map Prod.fst).Nodup) :
    ((upsertB ns k a).map Prod.fst).Nodup := by
  rw [upsertB_keys]
  split
  · exact h
  · rename_i hk
    rw [List.nodup_append]
    refine ⟨h, by simp, ?_⟩
    intro x hx y hy
    simp only [List.mem_singleton] at hy
    subst hy
    intro e; subst e; exact hk hx

theorem Block.ensure_nodup {b : Block} (h : b.names.Nodup) (u : String) : (b.ensure u).names.Nodup := by
  unfold Block.ensure
  split
  · exact h
  · rename_i hu
    have hu' : u ∉ b.names := by simpa using hu
    show ((b.nodes ++ [(u, ({} : Attrs))]).map Prod.fst).Nodup
    rw [List.map_append, List.nodup_append]
    refine ⟨h, by simp, ?_⟩
    intro x hx y hy
    simp only [List.map_cons, List.map_nil, List.mem_singleton] at hy
    subst hy
    intro e; subst e; exact hu' hx

theorem Block.addEdge_names {b : Block} (h : b.names.Nodup) (u v : String) (a : EAttrs) :
    (b.addEdge u v a).names.Nodup := by
  have h2 := Block.ensure_nodup (Block.ensure_nodup h u) v
  unfold Block.addEdge
  dsimp only
  split <;> exact h2

theorem Block.makeEdges_names {b : Block} (h : b.names.Nodup) (ty : String) : (b.makeEdges ty).names.Nodup := by
  unfold Block.makeEdges
  generalize (b.inters.filter (fun i => i.ty == ty && i.edge)) = l
  induction l generalizing b with
  | nil => exact h
  | cons i t ih =>
    simp only [List.foldl_cons]
    apply ih
    generalize consecPairs i.atoms = ps
    induction ps generalizing b with
    | nil => exact h
    | cons e r ih2 => simp only [List.foldl_cons]; exact ih2 (Block.addEdge_names h _ _ _)

theorem Block.bstep_names {b b' : Block} (h : b.names.Nodup) (s : BStep) (hs : b.bstep s = .ok b') :
    b'.names.Nodup := by
  cases s with
  | addAtom a =>
    simp only [Block.bstep] at hs
    split at hs
    · cases hs
    · cases hs; exact upsertB_nodup _ _ _ h
  | addNode n a => simp only [Block.bstep] at hs; cases hs; exact upsertB_nodup _ _ _ h
  | addEdge u v a => simp only [Block.bstep] at hs; cases hs; exact Block.addEdge_names h u v a
  | addInter i =>
    simp only [Block.bstep] at hs
    split at hs
    · cases hs; exact h
    · cases hs
  | rawInter i => simp only [Block.bstep] at hs; cases hs; exact h
  | makeEdges ty => simp only [Block.bstep] at hs; cases hs; exact Block.makeEdges_names h ty
  | log lvl entry => simp only [Block.bstep] at hs; cases hs; exact h

theorem Block.build_names {b0 b : Block} (h : b0.names.Nodup) (steps : List BStep) (hs : b0.build steps = .ok b) :
    b.names.Nodup := by
  induction steps generalizing b0 with
  | nil => simp only [Block.build] at hs; cases hs; exact h
  | cons s t ih =>
    unfold Block.build at hs
    cases hb : b0.bstep s with
    | error e => rw [hb] at hs; cases hs
    | ok b1 => rw [hb] at hs; exact ih (Block.bstep_names h s hb) hs

/-! ### the extended invariant in the system layer -/

theorem mergeFold_ea {acc : Mol} (rest : List Mol) (hacc : acc.InvE) (hrest : ∀ o ∈ rest, o.InvE) :
    (mergeFold acc rest).1.EaOk := by
  induction rest generalizing acc with
  | nil => exact hacc.2
  | cons o t ih =>
    have ho := hrest o List.mem_cons_self
    by_cases h : (acc.merge o).2 = .ok
    · rw [mergeFold_cons_ok acc o t h]
      exact ih (merge_inve hacc ho) (fun x hx => hrest x (List.mem_cons_of_mem _ hx))
    · rw [mergeFold_cons_err acc o t h]; exact (merge_inve hacc ho).2

theorem mergeFoldS_ea {acc : Mol} (rest : List (Option Mol)) (hacc : acc.InvE)
    (hrest : ∀ o, some o ∈ rest → o.InvE) : (mergeFoldS acc rest).1.EaOk := by
  induction rest generalizing acc with
  | nil => exact hacc.2
  | cons o t ih =>
    have hstep : (mergeS acc o).1.InvE := by
      cases o with
      | none => exact ⟨selfMerge_inv hacc.1, selfMerge_ea hacc.1 hacc.2⟩
      | some x => exact merge_inve hacc (hrest x List.mem_cons_self)
    unfold mergeFoldS
    cases hm : mergeS acc o with
    | mk a e =>
      rw [hm] at hstep
      cases e <;> first
        | exact ih hstep (fun x hx => hrest x (List.mem_cons_of_mem _ hx))
        | exact hstep.2

theorem setFFs_ea {p : Pool} (h : ∀ m ∈ p, m.EaOk) (idxs : List Nat) (f : Option String) :
    ∀ m ∈ setFFs p idxs f, m.EaOk := by
  unfold setFFs
  induction idxs generalizing p with
  | nil => exact h
  | cons k t ih =>
    simp only [List.foldl_cons]
    apply ih
    split
    · rename_i x hx
      intro m hm
      rcases List.mem_or_eq_of_mem_set hm with hm | rfl
      · exact h m hm
      · exact h x (List.mem_of_getElem? hx)
    · exact h

theorem set_ea {p : Pool} (h : ∀ m ∈ p, m.EaOk) (i : Nat) (x : Mol) (hx : x.EaOk) : ∀ m ∈ p.set i x, m.EaOk := by
  intro m hm
  rcases List.mem_or_eq_of_mem_set hm with hm | rfl
  · exact h m hm
  · exact hx

/-- every system-level operation keeps the bond attribute tables inside the bonds -/
theorem sstep_ea {st : State} (h : PoolInvE st.pool) (op : SOp)
    (hb : ∀ op', op = .mol op' → op'.blockOk = true) : ∀ m ∈ (sstep st op).1.pool, m.EaOk := by
  have he : ∀ m ∈ st.pool, m.EaOk := fun m hm => (h m hm).2
  cases op with
  | mol op => exact step_ea h op (hb op rfl)
  | newSys ff => exact he
  | addMol s i =>
    simp only [sstep]
    split
    · rename_i l m hl hm
      split
      · exact he
      · dsimp only
        have h1 := set_ea he i { m with ff := takeFF (st.ffOf s) m.ff } (h m (List.mem_of_getElem? hm)).2
        split
        · exact setFFs_ea h1 _ _
        · exact h1
    · exact he
  | copySys s =>
    simp only [sstep]
    split
    · exact he
    · split
      · exact he
      · rename_i l hl ms hg
        intro m hm
        rcases List.mem_append.mp hm with hm | hm
        · exact he m hm
        · obtain ⟨m0, hm0, rfl⟩ := List.mem_map.mp hm
          exact copy_ea (h m0 (getMols_mem _ _ _ hg m0 hm0)).2
  | mergeAll s =>
    simp only [sstep]
    split
    · exact he
    · exact he
    · rename_i i0 rest hsys
      split
      · split
        · rename_i m0 ms hm hg
          exact set_ea he i0 _ (mergeFoldS_ea ms (h m0 (List.mem_of_getElem? hm))
            (fun o ho => h o (getMolsS_mem _ _ _ _ hg o ho)))
        · exact he
      · split
        · rename_i m0 ms hm hg
          exact set_ea he i0 _ (mergeFold_ea ms (h m0 (List.mem_of_getElem? hm))
            (fun o ho => h o (getMols_mem _ _ _ hg o ho)))
        · exact he
  | mergeChains s chains all =>
    simp only [sstep]
    split
    · exact he
    · split
      · exact he
      · split
        · exact he
        · rename_i l hl hc ms hg
          split
          · exact he
          · rename_i f b more hsel
            split
            · intro m hm
              rcases List.mem_append.mp hm with hm | hm
              · exact he m hm
              · rw [List.mem_singleton.mp hm]
                apply mergeFold_ea
                · exact ⟨freshMerged_inv _ _, fun x hx => by cases hx⟩
                · have hsub : ∀ x ∈ (f, b) :: more, x.1 ∈ st.pool := by
                    intro x hx
                    rw [← hsel] at hx
                    have hx' := (List.mem_filter.mp hx).1
                    exact getMols_mem _ _ _ hg x.1 (List.of_mem_zip hx').1
                  intro o ho
                  rcases List.mem_cons.mp ho with rfl | ho
                  · exact h _ (hsub (o, b) List.mem_cons_self)
                  · obtain ⟨x, hx, rfl⟩ := List.mem_map.mp ho
                    exact h _ (hsub x (List.mem_cons_of_mem _ hx))
            · exact he

end C12
