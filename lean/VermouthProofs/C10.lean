import VermouthModel.C10
/-! Helper lemmas for C10. Core Lean only. -/
namespace C10
end C10
