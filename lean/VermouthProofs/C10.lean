import VermouthModel.C10
/-! Helper lemmas for C10. Core Lean only. -/
namespace C10

/-! ### generic list facts -/

theorem idxOf_inj {α} [BEq α] [LawfulBEq α] {l : List α} {a b : α} (ha : a ∈ l) (hb : b ∈ l)
    (h : l.idxOf a = l.idxOf b) : a = b := by
  have h1 : l.idxOf a < l.length := List.idxOf_lt_length_iff.mpr ha
  have h2 : l.idxOf b < l.length := List.idxOf_lt_length_iff.mpr hb
  have e1 := List.getElem_idxOf h1
  have e2 := List.getElem_idxOf h2
  rw [← e1, ← e2]
  simp only [h]

/-- grouping a list by a key function over a duplicate-free key list that covers all keys
re-arranges the list -/
theorem flatten_groups_perm {α κ} [BEq κ] [LawfulBEq κ] (f : α → κ) :
    ∀ (ks : List κ), ks.Nodup → ∀ (l : List α), (∀ x ∈ l, f x ∈ ks) →
      (ks.map (fun k => l.filter (fun x => f x == k))).flatten.Perm l := by
  intro ks
  induction ks with
  | nil =>
    intro _ l hl
    have : l = [] := by
      apply List.eq_nil_iff_forall_not_mem.mpr
      intro a ha; have := hl a ha; simp at this
    subst this; simp
  | cons k ks ih =>
    intro hnd l hl
    rw [List.nodup_cons] at hnd
    obtain ⟨hk, hnd'⟩ := hnd
    simp only [List.map_cons, List.flatten_cons]
    have hrest : ks.map (fun k' => l.filter (fun x => f x == k'))
        = ks.map (fun k' => (l.filter (fun x => !(f x == k))).filter (fun x => f x == k')) := by
      apply List.map_congr_left
      intro k' hk'
      rw [List.filter_filter]
      apply List.filter_congr
      intro x _
      by_cases hx : f x = k'
      · subst hx
        have : ¬ (f x = k) := fun e => hk (e ▸ hk')
        simp [this]
      · simp [hx]
    rw [hrest]
    have ih' := ih hnd' (l.filter (fun x => !(f x == k))) (by
      intro x hx
      rw [List.mem_filter] at hx
      have h1 := hl x hx.1
      rw [List.mem_cons] at h1
      cases h1 with
      | inl h => simp [h] at hx
      | inr h => exact h)
    exact (List.Perm.append (List.Perm.refl _) ih').trans (List.filter_append_perm _ l)

theorem flatten_nodup_unique {α} : ∀ (L : List (List α)), L.flatten.Nodup →
    ∀ p ∈ L, ∀ q ∈ L, ∀ x, x ∈ p → x ∈ q → p = q := by
  intro L
  induction L with
  | nil => intro _ p hp; cases hp
  | cons a L ih =>
    intro hnd p hp q hq x hxp hxq
    rw [List.flatten_cons, List.nodup_append] at hnd
    obtain ⟨_, hL, hdis⟩ := hnd
    rw [List.mem_cons] at hp hq
    cases hp with
    | inl hpa =>
      cases hq with
      | inl hqa => rw [hpa, hqa]
      | inr hqL =>
        exfalso
        subst hpa
        exact hdis x hxp x (List.mem_flatten.mpr ⟨q, hqL, hxq⟩) rfl
    | inr hpL =>
      cases hq with
      | inl hqa =>
        exfalso
        subst hqa
        exact hdis x hxq x (List.mem_flatten.mpr ⟨p, hpL, hxp⟩) rfl
      | inr hqL => exact ih hL p hpL q hqL x hxp hxq

/-! ### residues -/

theorem mem_foldl_insertKey (l : List ResKey) : ∀ (acc : List ResKey) (x : ResKey),
    x ∈ l.foldl insertKey acc ↔ x ∈ acc ∨ x ∈ l := by
  induction l with
  | nil => intro acc x; simp
  | cons k l ih =>
    intro acc x
    rw [List.foldl_cons, ih]
    unfold insertKey
    by_cases h : acc.contains k = true
    · simp only [h, if_true, List.mem_cons]
      have hk : k ∈ acc := by simpa using h
      constructor
      · rintro (h1 | h1)
        · exact Or.inl h1
        · exact Or.inr (Or.inr h1)
      · rintro (h1 | h1 | h1)
        · exact Or.inl h1
        · exact Or.inl (h1 ▸ hk)
        · exact Or.inr h1
    · simp only [h, List.mem_cons]
      simp only [Bool.false_eq_true, if_false, List.mem_append, List.mem_singleton]
      constructor
      · rintro ((h1 | h1) | h1)
        · exact Or.inl h1
        · exact Or.inr (Or.inl h1)
        · exact Or.inr (Or.inr h1)
      · rintro (h1 | h1 | h1)
        · exact Or.inl (Or.inl h1)
        · exact Or.inl (Or.inr h1)
        · exact Or.inr h1

theorem foldl_insertKey_nodup (l : List ResKey) : ∀ (acc : List ResKey), acc.Nodup →
    (l.foldl insertKey acc).Nodup := by
  induction l with
  | nil => intro acc h; simpa using h
  | cons k l ih =>
    intro acc h
    rw [List.foldl_cons]
    apply ih
    unfold insertKey
    by_cases hc : acc.contains k = true
    · simp only [hc, if_true]; exact h
    · simp only [hc, Bool.false_eq_true, if_false]
      have hk : k ∉ acc := by simpa using hc
      rw [List.nodup_append]
      refine ⟨h, by simp, ?_⟩
      intro a ha b hb
      simp only [List.mem_singleton] at hb
      subst hb
      exact fun e => hk (e ▸ ha)

theorem resKeys_nodup (atoms : List Atom) : (resKeys atoms).Nodup :=
  foldl_insertKey_nodup _ [] (by simp)

theorem mem_resKeys (atoms : List Atom) (k : ResKey) :
    k ∈ resKeys atoms ↔ ∃ a ∈ atoms, a.key = k := by
  unfold resKeys
  rw [mem_foldl_insertKey]
  simp

theorem atomAt_mem {atoms : List Atom} {i : Nat} (h : i < atoms.length) : atomAt atoms i ∈ atoms := by
  unfold atomAt
  rw [List.getD_eq_getElem?_getD, List.getElem?_eq_getElem h]
  exact List.getElem_mem h

theorem keyAt_mem_resKeys {atoms : List Atom} {i : Nat} (h : i < atoms.length) :
    keyAt atoms i ∈ resKeys atoms :=
  (mem_resKeys atoms _).mpr ⟨atomAt atoms i, atomAt_mem h, rfl⟩

theorem serial_eq_iff_key {atoms : List Atom} {i j : Nat} (hi : i < atoms.length) (hj : j < atoms.length) :
    serial atoms i = serial atoms j ↔ keyAt atoms i = keyAt atoms j := by
  constructor
  · intro h
    exact idxOf_inj (keyAt_mem_resKeys hi) (keyAt_mem_resKeys hj) h
  · intro h
    unfold serial
    rw [h]

theorem mem_members {atoms : List Atom} {k : ResKey} {i : Nat} :
    i ∈ members atoms k ↔ i < atoms.length ∧ keyAt atoms i = k := by
  unfold members
  simp [List.mem_filter, List.mem_range]

/-- the residue groups re-arrange the node keys `0 .. n-1` -/
theorem groups_perm (atoms : List Atom) :
    ((resKeys atoms).map (members atoms)).flatten.Perm (List.range atoms.length) := by
  have := flatten_groups_perm (keyAt atoms) (resKeys atoms) (resKeys_nodup atoms)
    (List.range atoms.length) (by
      intro x hx
      exact keyAt_mem_resKeys (List.mem_range.mp hx))
  exact this

/-! ### split -/

theorem touches_iff {u v : Nat} {p : List Nat} : touches u v p = true ↔ u ∈ p ∨ v ∈ p := by
  unfold touches
  simp

theorem merge_eq (ps : List (List Nat)) (u v : Nat) :
    merge ps u v = if ps.filter (touches u v) = [] then ps
      else (ps.filter (touches u v)).flatten :: ps.filter (fun p => !(touches u v p)) := by
  unfold merge
  cases h : ps.filter (touches u v) with
  | nil => simp
  | cons a t => simp

theorem merge_flatten_perm (ps : List (List Nat)) (u v : Nat) :
    (merge ps u v).flatten.Perm ps.flatten := by
  rw [merge_eq]
  split
  · exact List.Perm.refl _
  · have h := (List.filter_append_perm (touches u v) ps).flatten
    simpa [List.flatten_append] using h

theorem merge_coarsens (ps : List (List Nat)) (u v : Nat) (p : List Nat) (hp : p ∈ ps) :
    ∃ p' ∈ merge ps u v, ∀ x ∈ p, x ∈ p' := by
  rw [merge_eq]
  split
  · exact ⟨p, hp, fun _ h => h⟩
  · by_cases ht : touches u v p = true
    · refine ⟨(ps.filter (touches u v)).flatten, by simp, ?_⟩
      intro x hx
      exact List.mem_flatten.mpr ⟨p, List.mem_filter.mpr ⟨hp, ht⟩, hx⟩
    · refine ⟨p, ?_, fun _ h => h⟩
      apply List.mem_cons_of_mem
      exact List.mem_filter.mpr ⟨hp, by simpa using ht⟩

theorem merge_joins (ps : List (List Nat)) (u v : Nat) (hu : u ∈ ps.flatten) (hv : v ∈ ps.flatten) :
    ∃ p' ∈ merge ps u v, u ∈ p' ∧ v ∈ p' := by
  obtain ⟨pu, hpu, hupu⟩ := List.mem_flatten.mp hu
  obtain ⟨pv, hpv, hvpv⟩ := List.mem_flatten.mp hv
  have h1 : pu ∈ ps.filter (touches u v) := List.mem_filter.mpr ⟨hpu, touches_iff.mpr (Or.inl hupu)⟩
  have h2 : pv ∈ ps.filter (touches u v) := List.mem_filter.mpr ⟨hpv, touches_iff.mpr (Or.inr hvpv)⟩
  rw [merge_eq]
  split
  · rename_i heq
    rw [heq] at h1
    cases h1
  · refine ⟨_, List.mem_cons_self, List.mem_flatten.mpr ⟨pu, h1, hupu⟩, List.mem_flatten.mpr ⟨pv, h2, hvpv⟩⟩

/-- `x` and `y` are linked by a chain of steps, each inside one residue (`same`) or along an
edge of `E` (in either direction) -/
inductive Conn (same : Nat → Nat → Prop) (E : List Edge) : Nat → Nat → Prop
  | refl (x : Nat) : Conn same E x x
  | res {x y : Nat} : same x y → Conn same E x y
  | edge {x y : Nat} : (x, y) ∈ E → Conn same E x y
  | symm {x y : Nat} : Conn same E x y → Conn same E y x
  | trans {x y z : Nat} : Conn same E x y → Conn same E y z → Conn same E x z

theorem merge_conn (R : Nat → Nat → Prop) (hs : ∀ {x y}, R x y → R y x) (ht : ∀ {x y z}, R x y → R y z → R x z)
    (ps : List (List Nat)) (u v : Nat) (huv : R u v) (hu : R u u) (hv : R v v)
    (inv : ∀ p ∈ ps, ∀ x ∈ p, ∀ y ∈ p, R x y) :
    ∀ p ∈ merge ps u v, ∀ x ∈ p, ∀ y ∈ p, R x y := by
  rw [merge_eq]
  split
  · exact inv
  · intro p hp x hx y hy
    rw [List.mem_cons] at hp
    cases hp with
    | inr h => exact inv p (List.mem_filter.mp h).1 x hx y hy
    | inl h =>
      subst h
      obtain ⟨px, hpx, hxpx⟩ := List.mem_flatten.mp hx
      obtain ⟨py, hpy, hypy⟩ := List.mem_flatten.mp hy
      obtain ⟨hpx1, hpx2⟩ := List.mem_filter.mp hpx
      obtain ⟨hpy1, hpy2⟩ := List.mem_filter.mp hpy
      -- x is linked to u, y is linked to u
      have key : ∀ (q : List Nat), q ∈ ps → touches u v q = true → ∀ z ∈ q, R z u := by
        intro q hq htq z hz
        rcases touches_iff.mp htq with h | h
        · exact inv q hq z hz u h
        · exact ht (inv q hq z hz v h) (hs huv)
      exact ht (key px hpx1 hpx2 x hxpx) (hs (key py hpy1 hpy2 y hypy))

theorem split_perm (E : List Edge) : ∀ (g : List (List Nat)), (split g E).flatten.Perm g.flatten := by
  induction E with
  | nil => intro g; exact List.Perm.refl _
  | cons e E ih =>
    intro g
    unfold split
    rw [List.foldl_cons]
    exact (ih (merge g e.1 e.2)).trans (merge_flatten_perm g e.1 e.2)

theorem split_coarsens (E : List Edge) : ∀ (g : List (List Nat)) (p : List Nat), p ∈ g →
    ∃ p' ∈ split g E, ∀ x ∈ p, x ∈ p' := by
  induction E with
  | nil => intro g p hp; exact ⟨p, hp, fun _ h => h⟩
  | cons e E ih =>
    intro g p hp
    unfold split
    rw [List.foldl_cons]
    obtain ⟨p1, hp1, hsub1⟩ := merge_coarsens g e.1 e.2 p hp
    obtain ⟨p2, hp2, hsub2⟩ := ih (merge g e.1 e.2) p1 hp1
    exact ⟨p2, hp2, fun x hx => hsub2 x (hsub1 x hx)⟩

theorem split_joins (E : List Edge) : ∀ (g : List (List Nat)) (e : Edge), e ∈ E →
    e.1 ∈ g.flatten → e.2 ∈ g.flatten → ∃ p ∈ split g E, e.1 ∈ p ∧ e.2 ∈ p := by
  induction E with
  | nil => intro g e he; cases he
  | cons e0 E ih =>
    intro g e he h1 h2
    unfold split
    rw [List.foldl_cons]
    rw [List.mem_cons] at he
    cases he with
    | inl h =>
      subst h
      obtain ⟨p1, hp1, ha, hb⟩ := merge_joins g e.1 e.2 h1 h2
      obtain ⟨p2, hp2, hsub⟩ := split_coarsens E (merge g e.1 e.2) p1 hp1
      exact ⟨p2, hp2, hsub _ ha, hsub _ hb⟩
    | inr h =>
      have m1 := (merge_flatten_perm g e0.1 e0.2).mem_iff.mpr h1
      have m2 := (merge_flatten_perm g e0.1 e0.2).mem_iff.mpr h2
      exact ih (merge g e0.1 e0.2) e h m1 m2

theorem split_conn (same : Nat → Nat → Prop) (E0 : List Edge) (E : List Edge) :
    ∀ (g : List (List Nat)), (∀ e ∈ E, e ∈ E0) →
      (∀ p ∈ g, ∀ x ∈ p, ∀ y ∈ p, Conn same E0 x y) →
      ∀ p ∈ split g E, ∀ x ∈ p, ∀ y ∈ p, Conn same E0 x y := by
  induction E with
  | nil => intro g _ inv; exact inv
  | cons e E ih =>
    intro g hE inv
    unfold split
    rw [List.foldl_cons]
    apply ih (merge g e.1 e.2) (fun e' he' => hE e' (List.mem_cons_of_mem _ he'))
    apply merge_conn (Conn same E0) Conn.symm Conn.trans g e.1 e.2
      (Conn.edge (hE e List.mem_cons_self)) (Conn.refl _) (Conn.refl _) inv

/-! ### input molecules: leftovers of earlier runs are not read -/

theorem label_erase (i : Nat) (a : InAtom) : a.erase.label i = a.label i := rfl

theorem unionFrom_erase (ms : List InMol) : ∀ (i off : Nat),
    unionFrom i off (ms.map InMol.erase) = unionFrom i off ms := by
  induction ms with
  | nil => intro i off; rfl
  | cons m ms ih =>
    intro i off
    simp only [List.map_cons, unionFrom, InMol.erase, List.length_map, List.map_map, ih]
    congr 2

/-- input-molecule number of every atom of the union, in union order -/
def molTags : Nat → List InMol → List Nat
  | _, [] => []
  | i, m :: ms => List.replicate m.atoms.length i ++ molTags (i + 1) ms

theorem unionFrom_mols (ms : List InMol) : ∀ (i off : Nat),
    (unionFrom i off ms).1.map (·.mol) = molTags i ms := by
  induction ms with
  | nil => intro i off; rfl
  | cons m ms ih =>
    intro i off
    simp only [unionFrom, molTags, List.map_append, List.map_map, ih]
    congr 1
    induction m.atoms with
    | nil => rfl
    | cons a l ihl => simp [List.replicate_succ, InAtom.label, ihl]

end C10
