import VermouthModel.C15_Cli
namespace C15

theorem digChar_fin : ∀ d : Fin 10, isDig (digChar d.val) = true ∧ digVal (digChar d.val) = d.val ∧
    digChar d.val ≠ ',' ∧ digChar d.val ≠ ':' ∧ digChar d.val ≠ '_' ∧ digChar d.val ≠ '+' ∧ digChar d.val ≠ '-' ∧
    isWs (digChar d.val) = false := by decide

theorem splitOn_ne_nil (sep : Char) (s : List Char) : splitOn sep s ≠ [] := by
  induction s with
  | nil => simp [splitOn]
  | cons c cs ih =>
    unfold splitOn
    split
    · simp
    · split <;> simp

theorem splitOn_cons_ne (sep c : Char) (cs : List Char) (h : c ≠ sep) (hd : List Char) (tl : List (List Char))
    (e : splitOn sep cs = hd :: tl) : splitOn sep (c :: cs) = (c :: hd) :: tl := by
  rw [splitOn, if_neg h, e]

theorem splitOn_of_not_mem (sep : Char) (s : List Char) (h : sep ∉ s) : splitOn sep s = [s] := by
  induction s with
  | nil => rfl
  | cons c cs ih =>
    have hc : c ≠ sep := fun e => h (by simp [e])
    have hcs : sep ∉ cs := fun e => h (by simp [e])
    exact splitOn_cons_ne sep c cs hc cs [] (ih hcs)

theorem splitOn_append_sep (sep : Char) (a b : List Char) (h : sep ∉ a) :
    splitOn sep (a ++ sep :: b) = a :: splitOn sep b := by
  induction a with
  | nil => show splitOn sep (sep :: b) = _; rw [splitOn, if_pos rfl]
  | cons c cs ih =>
    have hc : c ≠ sep := fun e => h (by simp [e])
    have hcs : sep ∉ cs := fun e => h (by simp [e])
    exact splitOn_cons_ne sep c _ hc cs _ (ih hcs)

theorem digitsLoop_digit (acc : Nat) (c : Char) (r : List Char) (hd : isDig c = true) :
    digitsLoop acc (c :: r) = digitsLoop (acc * 10 + digVal c) r := by
  have hne : c ≠ '_' := by
    intro e; rw [e] at hd; revert hd; decide
  rw [digitsLoop.eq_def]
  split
  · next h => cases h
  · next h => cases h; exact absurd rfl hne
  · next h => cases h; simp [hd]

def valOf (acc : Nat) (ds : List Char) : Nat := ds.foldl (fun a c => a * 10 + digVal c) acc

theorem digitsLoop_all (ds : List Char) (h : ∀ c ∈ ds, isDig c = true) (acc : Nat) :
    digitsLoop acc ds = some (valOf acc ds) := by
  induction ds generalizing acc with
  | nil => rfl
  | cons c r ih =>
    rw [digitsLoop_digit acc c r (h c (by simp)), ih (fun x hx => h x (by simp [hx]))]
    rfl

theorem digChar_lt (d : Nat) (h : d < 10) : isDig (digChar d) = true ∧ digVal (digChar d) = d ∧
    digChar d ≠ ',' ∧ digChar d ≠ ':' ∧ digChar d ≠ '_' ∧ digChar d ≠ '+' ∧ digChar d ≠ '-' ∧
    isWs (digChar d) = false := digChar_fin ⟨d, h⟩

theorem natDigitsAux_fuel (f g n : Nat) (hf : n < f) (hg : n < g) : natDigitsAux f n = natDigitsAux g n := by
  induction n using Nat.strongRecOn generalizing f g with
  | _ n ih =>
    cases f with
    | zero => omega
    | succ f =>
      cases g with
      | zero => omega
      | succ g =>
        simp only [natDigitsAux]
        split
        · rfl
        · rw [ih (n / 10) (by omega) f g (by omega) (by omega)]

theorem natDigits_lt (n : Nat) (h : n < 10) : natDigits n = [digChar n] := by
  simp [natDigits, natDigitsAux, h]

theorem natDigits_ge (n : Nat) (h : ¬ n < 10) : natDigits n = natDigits (n / 10) ++ [digChar (n % 10)] := by
  show natDigitsAux (n + 1) n = natDigitsAux (n / 10 + 1) (n / 10) ++ _
  rw [natDigitsAux, if_neg h, natDigitsAux_fuel n (n / 10 + 1) (n / 10) (by omega) (by omega)]

theorem natDigits_all (n : Nat) : ∀ c ∈ natDigits n, ∃ d, d < 10 ∧ c = digChar d := by
  induction n using Nat.strongRecOn with
  | _ n ih =>
    by_cases h : n < 10
    · rw [natDigits_lt n h]; intro c hc; simp at hc; exact ⟨n, h, hc⟩
    · rw [natDigits_ge n h]
      intro c hc
      rcases List.mem_append.mp hc with hc | hc
      · exact ih (n / 10) (by omega) c hc
      · simp at hc; exact ⟨n % 10, by omega, hc⟩

theorem natDigits_head (n : Nat) : ∃ d t, d < 10 ∧ natDigits n = digChar d :: t := by
  induction n using Nat.strongRecOn with
  | _ n ih =>
    by_cases h : n < 10
    · exact ⟨n, [], h, natDigits_lt n h⟩
    · obtain ⟨d, t, hd, e⟩ := ih (n / 10) (by omega)
      exact ⟨d, t ++ [digChar (n % 10)], hd, by rw [natDigits_ge n h, e]; rfl⟩

theorem natDigits_last (n : Nat) : ∃ i, natDigits n = i ++ [digChar (n % 10)] := by
  by_cases h : n < 10
  · exact ⟨[], by rw [natDigits_lt n h, Nat.mod_eq_of_lt h]; rfl⟩
  · exact ⟨_, natDigits_ge n h⟩

theorem valOf_append (acc : Nat) (a b : List Char) : valOf acc (a ++ b) = valOf (valOf acc a) b := by
  simp [valOf, List.foldl_append]

theorem valOf_natDigits (n : Nat) : valOf 0 (natDigits n) = n := by
  induction n using Nat.strongRecOn with
  | _ n ih =>
    by_cases h : n < 10
    · rw [natDigits_lt n h]; simp [valOf, (digChar_lt n h).2.1]
    · rw [natDigits_ge n h, valOf_append, ih (n / 10) (by omega)]
      simp only [valOf, List.foldl_cons, List.foldl_nil, (digChar_lt (n % 10) (by omega)).2.1]
      omega

theorem parseDigits_natDigits (n : Nat) : parseDigits (natDigits n) = some n := by
  obtain ⟨d, t, hd, e⟩ := natDigits_head n
  have hall : ∀ c ∈ natDigits n, isDig c = true := by
    intro c hc; obtain ⟨d', hd', rfl⟩ := natDigits_all n c hc; exact (digChar_lt d' hd').1
  have hv := valOf_natDigits n
  rw [e] at hall hv ⊢
  rw [parseDigits, if_pos (hall _ (by simp)), digitsLoop_all t (fun c hc => hall c (by simp [hc]))]
  congr 1
  simpa [valOf] using hv


/-! ### `int(render i) = i` -/

theorem dropWhile_head_not {p : Char → Bool} (c : Char) (t : List Char) (h : p c = false) :
    (c :: t).dropWhile p = c :: t := by
  simp [List.dropWhile, h]

theorem stripWs_id (c : Char) (m : List Char) (l : Char) (hc : isWs c = false) (hl : isWs l = false) :
    stripWs (c :: (m ++ [l])) = c :: (m ++ [l]) := by
  unfold stripWs
  rw [dropWhile_head_not c _ hc]
  have : (c :: (m ++ [l])).reverse = l :: (c :: m).reverse := by simp
  rw [this, dropWhile_head_not l _ hl, ← this, List.reverse_reverse]

theorem stripWs_single (c : Char) (hc : isWs c = false) : stripWs [c] = [c] := by
  unfold stripWs
  rw [dropWhile_head_not c _ hc]
  show (List.dropWhile isWs [c]).reverse = [c]
  rw [dropWhile_head_not c _ hc]; rfl

/-- a list that starts and ends with a character that is not white space is not changed by stripping -/
theorem stripWs_of_ends (s : List Char) (c : Char) (t : List Char) (i : List Char) (l : Char)
    (e1 : s = c :: t) (e2 : s = i ++ [l]) (hc : isWs c = false) (hl : isWs l = false) : stripWs s = s := by
  subst e1
  cases i with
  | nil =>
    simp only [List.nil_append, List.cons.injEq] at e2
    obtain ⟨rfl, rfl⟩ := e2
    exact stripWs_single c hc
  | cons x xs =>
    simp only [List.cons_append, List.cons.injEq] at e2
    obtain ⟨rfl, rfl⟩ := e2
    exact stripWs_id c xs l hc hl

theorem stripWs_natDigits (n : Nat) : stripWs (natDigits n) = natDigits n := by
  obtain ⟨d, t, hd, e1⟩ := natDigits_head n
  obtain ⟨i, e2⟩ := natDigits_last n
  exact stripWs_of_ends _ _ t i _ e1 e2 (digChar_lt d hd).2.2.2.2.2.2.2 (digChar_lt (n % 10) (by omega)).2.2.2.2.2.2.2

theorem stripWs_minus_natDigits (n : Nat) : stripWs ('-' :: natDigits n) = '-' :: natDigits n := by
  obtain ⟨i, e2⟩ := natDigits_last n
  exact stripWs_of_ends _ '-' (natDigits n) ('-' :: i) _ rfl (by rw [e2]; rfl) (by decide)
    (digChar_lt (n % 10) (by omega)).2.2.2.2.2.2.2

theorem pyInt_natDigits (n : Nat) : pyInt (natDigits n) = some (Int.ofNat n) := by
  unfold pyInt
  rw [stripWs_natDigits]
  obtain ⟨d, t, hd, e⟩ := natDigits_head n
  have hp := parseDigits_natDigits n
  rw [e] at hp ⊢
  have h1 : digChar d ≠ '+' := (digChar_lt d hd).2.2.2.2.2.1
  have h2 : digChar d ≠ '-' := (digChar_lt d hd).2.2.2.2.2.2.1
  split
  · next r h => exact absurd (List.cons.inj h).1 h1
  · next r h => exact absurd (List.cons.inj h).1 h2
  · rw [hp]; rfl

theorem pyInt_minus_natDigits (n : Nat) : pyInt ('-' :: natDigits n) = some (- Int.ofNat n) := by
  unfold pyInt
  rw [stripWs_minus_natDigits]
  split
  · next r h => exact absurd (List.cons.inj h).1 (by decide)
  · next r h => rw [← (List.cons.inj h).2, parseDigits_natDigits]; rfl
  · next h1 h2 => exact absurd rfl (h2 _)

theorem pyInt_renderInt (i : Int) : pyInt (renderInt i) = some i := by
  unfold renderInt
  split
  · next h =>
    rw [pyInt_minus_natDigits]
    simp only [Int.ofNat_eq_natCast, Option.some.injEq]
    omega
  · next h =>
    rw [pyInt_natDigits]
    simp only [Int.ofNat_eq_natCast, Option.some.injEq]
    omega

/-! ### separators do not occur in rendered numbers -/

theorem not_mem_natDigits (n : Nat) (c : Char) (h : ∀ d, d < 10 → digChar d ≠ c) : c ∉ natDigits n := by
  intro hc
  obtain ⟨d, hd, e⟩ := natDigits_all n c hc
  exact h d hd e.symm

theorem colon_not_mem_renderInt (i : Int) : ':' ∉ renderInt i := by
  have h := not_mem_natDigits i.natAbs ':' (fun d hd => (digChar_lt d hd).2.2.2.1)
  unfold renderInt; split
  · intro hm; rcases List.mem_cons.mp hm with e | e
    · revert e; decide
    · exact h e
  · exact h

theorem comma_not_mem_renderInt (i : Int) : ',' ∉ renderInt i := by
  have h := not_mem_natDigits i.natAbs ',' (fun d hd => (digChar_lt d hd).2.2.1)
  unfold renderInt; split
  · intro hm; rcases List.mem_cons.mp hm with e | e
    · revert e; decide
    · exact h e
  · exact h

theorem comma_not_mem_renderRegion (r : Int × Int) : ',' ∉ renderRegion r := by
  unfold renderRegion
  intro h
  rcases List.mem_append.mp h with h | h
  · exact comma_not_mem_renderInt _ h
  · rcases List.mem_cons.mp h with e | e
    · revert e; decide
    · exact comma_not_mem_renderInt _ e

theorem split_renderRegion (r : Int × Int) :
    (splitOn ':' (renderRegion r)).map pyInt = [some r.1, some r.2] := by
  unfold renderRegion
  rw [splitOn_append_sep _ _ _ (colon_not_mem_renderInt _), splitOn_of_not_mem _ _ (colon_not_mem_renderInt _)]
  simp [pyInt_renderInt]

theorem split_renderRegions (rs : List (Int × Int)) (h : rs ≠ []) :
    splitOn ',' (renderRegions rs) = rs.map renderRegion := by
  induction rs with
  | nil => exact absurd rfl h
  | cons r t ih =>
    cases t with
    | nil => exact splitOn_of_not_mem _ _ (comma_not_mem_renderRegion r)
    | cons r' t' =>
      show splitOn ',' (renderRegion r ++ ',' :: renderRegions (r' :: t')) = _
      rw [splitOn_append_sep _ _ _ (comma_not_mem_renderRegion r), ih (by simp)]
      rfl

/-- the rendering of a non-empty region list starts with a digit or a minus sign -/
theorem renderRegions_head (rs : List (Int × Int)) (h : rs ≠ []) :
    ∃ c t, renderRegions rs = c :: t ∧ (c = '-' ∨ isDig c = true) := by
  have hint : ∀ i : Int, ∃ c t, renderInt i = c :: t ∧ (c = '-' ∨ isDig c = true) := by
    intro i
    unfold renderInt; split
    · exact ⟨'-', _, rfl, Or.inl rfl⟩
    · obtain ⟨d, t, hd, e⟩ := natDigits_head i.natAbs
      exact ⟨_, t, e, Or.inr (digChar_lt d hd).1⟩
  cases rs with
  | nil => exact absurd rfl h
  | cons r t =>
    obtain ⟨c, u, e, hc⟩ := hint r.1
    cases t with
    | nil => exact ⟨c, u ++ ':' :: renderInt r.2, by show renderInt r.1 ++ _ = _; rw [e]; rfl, hc⟩
    | cons r' t' =>
      exact ⟨c, u ++ ':' :: renderInt r.2 ++ ',' :: renderRegions (r' :: t'),
        by show (renderInt r.1 ++ _) ++ _ = _; rw [e]; simp, hc⟩

/-! ### vocabulary and unfolding lemmas for the property theorems -/

def isKeyword (s : List Char) : Prop := s = "molecule".toList ∨ s = "all".toList ∨ s = "chain".toList

instance (s : List Char) : Decidable (isKeyword s) := by unfold isKeyword; infer_instance

/-- the fields of a unit specification: `[int(i) for i in apair.split(":")] for apair in s.split(",")` -/
def unitFields (s : List Char) : List (List (Option Int)) :=
  (splitOn ',' s).map fun apair => (splitOn ':' apair).map pyInt

theorem parseUnit_of_not_keyword (s : List Char) (h : ¬ isKeyword s) :
    parseUnit s =
      if (unitFields s).any (fun p => p.any Option.isNone) then .errInt
      else if (unitFields s).any (fun p => p.length != 2) then .errFaulty
      else .regions ((unitFields s).filterMap pairOfList) := by
  unfold isKeyword at h
  unfold parseUnit unitFields
  rw [if_neg (fun e => h (Or.inl e)), if_neg (fun e => h (Or.inr (Or.inl e))), if_neg (fun e => h (Or.inr (Or.inr e)))]

theorem filterMap_pairOfList (rs : List (Int × Int)) :
    (rs.map fun r => [some r.1, some r.2]).filterMap pairOfList = rs := by
  induction rs with
  | nil => rfl
  | cons r t ih => simp only [List.map_cons, List.filterMap_cons, pairOfList, ih]

theorem unitFields_render (rs : List (Int × Int)) (h : rs ≠ []) :
    unitFields (renderRegions rs) = rs.map fun r => [some r.1, some r.2] := by
  unfold unitFields
  rw [split_renderRegions rs h, List.map_map]
  apply List.map_congr_left
  intro r _
  exact split_renderRegion r

theorem render_not_keyword (rs : List (Int × Int)) (h : rs ≠ []) : ¬ isKeyword (renderRegions rs) := by
  obtain ⟨c, t, e, hc⟩ := renderRegions_head rs h
  rw [e]
  unfold isKeyword
  rintro (h' | h' | h') <;>
  · have := (List.cons.inj h').1
    subst this
    rcases hc with hc | hc <;> revert hc <;> decide

/-- every field an int and every piece of two fields: the shape of an accepted specification -/
theorem fields_of_shape (F : List (List (Option Int)))
    (h1 : F.any (fun p => p.any Option.isNone) = false) (h2 : F.any (fun p => p.length != 2) = false) :
    F = (F.filterMap pairOfList).map fun r => [some r.1, some r.2] := by
  induction F with
  | nil => rfl
  | cons p t ih =>
    simp only [List.any_cons, Bool.or_eq_false_iff] at h1 h2
    have hp : ∃ a b, p = [some a, some b] := by
      match p, h1.1, h2.1 with
      | [some a, some b], _, _ => exact ⟨a, b, rfl⟩
      | [], _, h => simp at h
      | [_], _, h => simp at h
      | _ :: _ :: _ :: _, _, h => simp at h
      | [none, _], h, _ => simp at h
      | [some _, none], h, _ => simp at h
    obtain ⟨a, b, rfl⟩ := hp
    simp only [List.filterMap_cons, pairOfList, List.map_cons]
    rw [← ih h1.2 h2.2]

/-- `-ermd` as argparse converts it (`type=int`): not given, rejected, or the integer -/
def ermdOf (a : CliArgs) : Option (Option Int) :=
  match a.ermd with
  | none => some none
  | some s => (pyInt s).map some

theorem cliBuild_eq (a : CliArgs) :
    cliBuild a =
      match ermdOf a with
      | none => .usageError
      | some rmd =>
        if a.elastic && a.go then .usageError
        else if !elasticOn a then .noElastic
        else match unitDomain (parseUnit (a.eunit.getD dfltEunit)) with
          | none => .valueError (parseUnit (a.eunit.getD dfltEunit) = .errFaulty)
          | some dom => .processor (unitMerges (parseUnit (a.eunit.getD dfltEunit))) a.eb.isNone (cliProc a rmd dom) := by
  unfold cliBuild ermdOf
  rfl

end C15
