import VermouthModel.C02_Hist
/-! The writer has no memory: what a session writes depends on the current molecule only. -/
namespace C02

theorem applyEdits_append (m : Mol) (a b : List Edit) :
    applyEdits m (a ++ b) = applyEdits (applyEdits m a) b := by
  simp [applyEdits, List.foldl_append]

theorem session_length (m : Mol) (rounds : List (List Edit)) : (session m rounds).length = rounds.length := by
  induction rounds generalizing m with
  | nil => rfl
  | cons r t ih => simp [session, ih]

theorem session_get (m : Mol) (rounds : List (List Edit)) (k : Nat) (hk : k < rounds.length) :
    (session m rounds)[k]? = some (write (applyEdits m (rounds.take (k + 1)).flatten)) := by
  induction rounds generalizing m k with
  | nil => simp at hk
  | cons r t ih =>
    cases k with
    | zero => simp [session]
    | succ j =>
      have hj : j < t.length := by simpa using hk
      simp only [session, List.getElem?_cons_succ, List.take_succ_cons, List.flatten_cons]
      rw [ih (applyEdits m r) j hj, applyEdits_append]

end C02
