import VermouthProofs.C06_Ismags
/-! Lemmas about the transcription of `_largest_common_subgraph` / `_remove_node`. Core Lean only. -/
namespace C06I
open Iso

/-! ### `_remove_node`, the set of sets -/

theorem removeNode_spec (C : Constraints) (nodes : List Int) (fuel : Nat) (node : Int) (h : node ∈ nodes) :
    ∃ y ∈ nodes, removeNode C nodes fuel node = nodes.filter (· != y) := by
  induction fuel generalizing node with
  | zero => exact ⟨node, h, rfl⟩
  | succ fuel ih =>
    unfold removeNode
    split
    · rename_i lh heq
      have := List.find?_some heq
      simp only [Bool.and_eq_true, beq_iff_eq, List.contains_iff_mem] at this
      exact ih lh.2 this.2
    · exact ⟨node, h, rfl⟩

theorem removeNode_nil (nodes : List Int) (fuel : Nat) (node : Int) :
    removeNode [] nodes fuel node = nodes.filter (· != node) := by
  cases fuel <;> simp [removeNode]

theorem mem_dedup (a : List Int) (l : List (List Int)) : a ∈ dedup l ↔ a ∈ l := by
  induction l with
  | nil => simp [dedup]
  | cons b l ih =>
    unfold dedup
    split
    · rename_i h
      have hb : b ∈ l := by simpa using h
      rw [ih]
      constructor
      · exact List.mem_cons_of_mem _
      · rintro h'
        rcases List.mem_cons.1 h' with rfl | h'
        · exact hb
        · exact h'
    · simp [ih]

theorem dedup_nodup (l : List (List Int)) : (dedup l).Nodup := by
  induction l with
  | nil => simp [dedup]
  | cons b l ih =>
    unfold dedup
    split
    · exact ih
    · rename_i h
      have hb : b ∉ l := by simpa using h
      exact List.nodup_cons.2 ⟨fun h' => hb ((mem_dedup b l).1 h'), ih⟩

theorem filter_ne_self {l : List Int} {x : Int} (h : x ∉ l) : l.filter (· != x) = l := by
  rw [List.filter_eq_self]
  intro a ha
  have : a ≠ x := fun e => h (e ▸ ha)
  simpa using this

theorem length_filter_ne {l : List Int} (hn : l.Nodup) {x : Int} (hx : x ∈ l) :
    (l.filter (· != x)).length + 1 = l.length := by
  induction l with
  | nil => simp at hx
  | cons a l ih =>
    rw [List.nodup_cons] at hn
    by_cases e : a = x
    · subst e
      simp [filter_ne_self hn.1]
    · have hx' : x ∈ l := by
        rcases List.mem_cons.1 hx with h | h
        · exact absurd h.symm e
        · exact h
      have : (a != x) = true := by simpa using e
      simp only [List.filter_cons, this, if_true, List.length_cons]
      have := ih hn.2 hx'
      omega

/-- a sublist can be extended by any further element of the list -/
theorem sublist_insert {K S : List Int} (hS : S.Sublist K) {x : Int} (hxK : x ∈ K) (hxS : x ∉ S) :
    ∃ S' : List Int, S'.Sublist K ∧ S'.length = S.length + 1 ∧ x ∈ S' ∧ S'.filter (· != x) = S := by
  induction hS with
  | slnil => simp at hxK
  | cons a h ih =>
    by_cases e : x = a
    · subst e
      exact ⟨x :: _, h.cons_cons x, rfl, by simp, by simp [filter_ne_self hxS]⟩
    · rcases List.mem_cons.1 hxK with h' | h'
      · exact absurd h' e
      · obtain ⟨S', h1, h2, h3, h4⟩ := ih h' hxS
        exact ⟨S', h1.cons a, h2, h3, h4⟩
  | cons_cons a h ih =>
    simp only [List.mem_cons, not_or] at hxS
    rcases List.mem_cons.1 hxK with h' | h'
    · exact absurd h' hxS.1
    · obtain ⟨S', h1, h2, h3, h4⟩ := ih h' hxS.2
      refine ⟨a :: S', h1.cons_cons a, by simp [h2], by simp [h3], ?_⟩
      have hne' : a ≠ x := fun e => hxS.1 e.symm
      have hne : (a != x) = true := by simpa using hne'
      simp [List.filter_cons, hne, h4]

theorem exists_not_mem_of_sublist {K S : List Int} (hK : K.Nodup) (hS : S.Sublist K) (hl : S.length < K.length) :
    ∃ x ∈ K, x ∉ S := by
  apply Classical.byContradiction
  intro hno
  have hsub : K ⊆ S := by
    intro x hx
    apply Classical.byContradiction
    intro hxs
    exact hno ⟨x, hx, hxs⟩
  have := hK.length_le_of_subset hsub
  omega

/-- weak level invariant (any constraints): every set is a sublist of the pattern nodes of size `k` -/
def LvlW (sg : Graph) (k : Nat) (tbm : List (List Int)) : Prop := ∀ S ∈ tbm, S.Sublist sg.keys ∧ S.length = k

/-- strong level invariant (no constraints): exactly the sublists of size `k`, each once -/
def Lvl (sg : Graph) (k : Nat) (tbm : List (List Int)) : Prop :=
  tbm.Nodup ∧ ∀ S, S ∈ tbm ↔ S.Sublist sg.keys ∧ S.length = k

theorem mem_lcsShrink (C : Constraints) (tbm : List (List Int)) (S : List Int) :
    S ∈ lcsShrink C tbm ↔ ∃ nodes ∈ tbm, ∃ x ∈ nodes, S = removeNode C nodes nodes.length x := by
  unfold lcsShrink
  rw [mem_dedup, List.mem_flatMap]
  constructor
  · rintro ⟨nodes, hn, hs⟩
    obtain ⟨x, hx, rfl⟩ := List.mem_map.1 hs
    exact ⟨nodes, hn, x, hx, rfl⟩
  · rintro ⟨nodes, hn, x, hx, rfl⟩
    exact ⟨nodes, hn, List.mem_map.2 ⟨x, hx, rfl⟩⟩

theorem lvlW_shrink {sg : Graph} (hs : sg.keys.Nodup) (C : Constraints) {k : Nat} {tbm : List (List Int)}
    (h : LvlW sg (k + 1) tbm) : LvlW sg k (lcsShrink C tbm) := by
  intro S hS
  obtain ⟨nodes, hn, x, hx, rfl⟩ := (mem_lcsShrink C tbm S).1 hS
  obtain ⟨y, hy, e⟩ := removeNode_spec C nodes nodes.length x hx
  rw [e]
  obtain ⟨h1, h2⟩ := h nodes hn
  refine ⟨(List.filter_sublist).trans h1, ?_⟩
  have := length_filter_ne (h1.nodup hs) hy
  omega

theorem lvl_shrink {sg : Graph} (hs : sg.keys.Nodup) {k : Nat} {tbm : List (List Int)}
    (h : Lvl sg (k + 1) tbm) (hk : k + 1 ≤ sg.keys.length) : Lvl sg k (lcsShrink [] tbm) := by
  refine ⟨dedup_nodup _, ?_⟩
  intro S
  constructor
  · exact lvlW_shrink hs [] (fun S hS => (h.2 S).1 hS) S
  · rintro ⟨h1, h2⟩
    obtain ⟨x, hxK, hxS⟩ := exists_not_mem_of_sublist hs h1 (by omega)
    obtain ⟨S', h3, h4, h5, h6⟩ := sublist_insert h1 hxK hxS
    rw [mem_lcsShrink]
    exact ⟨S', (h.2 S').2 ⟨h3, by omega⟩, x, h5, by rw [removeNode_nil, h6]⟩

theorem lvl_top {sg : Graph} : Lvl sg sg.keys.length [sg.keys] := by
  refine ⟨by simp, ?_⟩
  intro S
  simp only [List.mem_singleton]
  constructor
  · rintro rfl; exact ⟨List.Sublist.refl _, rfl⟩
  · rintro ⟨h1, h2⟩; exact h1.eq_of_length h2

/-! ### soundness and equal size, any constraints -/

theorem mem_lcsFound (pick : Map → Cands → List Int → Int) (g sg : Graph) (cands : Cands) (C : Constraints)
    (tbm : List (List Int)) (m : Map) :
    m ∈ lcsFound pick g sg cands C tbm ↔
      ∃ nodes ∈ tbm, m ∈ mapNodes pick g sg C nodes.length (pick [] cands nodes) cands [] nodes := by
  unfold lcsFound
  rw [List.mem_flatMap]
  constructor
  · rintro ⟨nodes, hn, hm⟩; exact ⟨nodes, (sortBy_perm _ tbm).mem_iff.1 hn, hm⟩
  · rintro ⟨nodes, hn, hm⟩; exact ⟨nodes, (sortBy_perm _ tbm).mem_iff.2 hn, hm⟩

theorem lcs_call_sound {pick : Map → Cands → List Int → Int} (hpick : PickOK pick) (g sg : Graph) (C : Constraints)
    {nodes : List Int} (hsub : ∀ u ∈ nodes, u ∈ sg.keys) (m : Map)
    (hm : m ∈ mapNodes pick g sg C nodes.length (pick [] (findNodecolorCandidates g sg) nodes)
      (findNodecolorCandidates g sg) [] nodes) :
    MapOK g sg C m ∧ (m.map Prod.fst).Nodup ∧ ∀ u, u ∈ nodes ↔ u ∈ m.map Prod.fst := by
  obtain ⟨h1, h2, _, h4⟩ := mapNodes_sound hpick g sg C nodes _ _ _ [] (sInv_nodecolor g sg C nodes hsub)
    (mapOK_nil g sg C) (by simp) (by simp) m hm
  exact ⟨h1, h2, h4⟩

/-- what is proved of every yielded mapping of the common-subgraph search -/
def LcsGood (g sg : Graph) (C : Constraints) (m : Map) : Prop :=
  MapOK g sg C m ∧ (m.map Prod.fst).Nodup ∧ ∃ nodes : List Int, nodes.Sublist sg.keys ∧ ∀ u, u ∈ nodes ↔ u ∈ m.map Prod.fst

theorem length_of_same_mem {a b : List Int} (ha : a.Nodup) (hb : b.Nodup) (h : ∀ u, u ∈ a ↔ u ∈ b) :
    a.length = b.length := ((List.perm_ext_iff_of_nodup ha hb).2 h).length_eq

theorem lcsFound_good {pick : Map → Cands → List Int → Int} (hpick : PickOK pick) (g sg : Graph) (hs : sg.keys.Nodup)
    (C : Constraints) {k : Nat} {tbm : List (List Int)} (h : LvlW sg k tbm) (m : Map)
    (hm : m ∈ lcsFound pick g sg (findNodecolorCandidates g sg) C tbm) : LcsGood g sg C m ∧ m.length = k := by
  obtain ⟨nodes, hn, hm⟩ := (mem_lcsFound _ _ _ _ _ _ _).1 hm
  obtain ⟨h1, h2⟩ := h nodes hn
  obtain ⟨h3, h4, h5⟩ := lcs_call_sound hpick g sg C (fun u hu => h1.subset hu) m hm
  refine ⟨⟨h3, h4, nodes, h1, h5⟩, ?_⟩
  have := length_of_same_mem (h1.nodup hs) h4 h5
  rw [← h2, this]; simp

theorem lcsWith_good {pick : Map → Cands → List Int → Int} (hpick : PickOK pick) (g sg : Graph) (hs : sg.keys.Nodup)
    (C : Constraints) (level : Nat) (tbm : List (List Int)) (h : LvlW sg level tbm) :
    ∃ j, ∀ m ∈ lcsWith pick g sg (findNodecolorCandidates g sg) C level tbm, LcsGood g sg C m ∧ m.length = j := by
  induction level generalizing tbm with
  | zero => exact ⟨0, by simp [lcsWith]⟩
  | succ level ih =>
    unfold lcsWith
    dsimp only
    generalize hf : (if (tbm.head?.getD []).length ≤ g.keys.length
      then lcsFound pick g sg (findNodecolorCandidates g sg) C tbm else []) = found
    have hfound : ∀ m ∈ found, m ∈ lcsFound pick g sg (findNodecolorCandidates g sg) C tbm := by
      intro m hm
      rw [← hf] at hm
      split at hm
      · exact hm
      · simp at hm
    split
    · exact ⟨level + 1, fun m hm => lcsFound_good hpick g sg hs C h m (hfound m hm)⟩
    · exact ih _ (lvlW_shrink hs C h)

/-! ### no constraints: exactly the maximum common induced subgraphs -/

/-- a yielded mapping listed along the pattern nodes -/
def canonP (sg : Graph) (m : Map) : Map := ofFun sg.keys (fun u => m.lookup u)

theorem filter_mem_of_sublist {K S : List Int} (hK : K.Nodup) (hS : S.Sublist K) :
    K.filter (fun u => decide (u ∈ S)) = S := by
  induction hS with
  | slnil => rfl
  | cons a h ih =>
    rw [List.nodup_cons] at hK
    have : a ∉ _ := fun ha => hK.1 (h.subset ha)
    simp only [List.filter_cons, this, decide_false, Bool.false_eq_true, if_false]
    exact ih hK.2
  | cons_cons a h ih =>
    rename_i S0 l
    rw [List.nodup_cons] at hK
    simp only [List.filter_cons, List.mem_cons, true_or, decide_true, if_true]
    congr 1
    conv => rhs; rw [← ih hK.2]
    apply List.filter_congr
    intro u hu
    have : u ≠ a := fun e => hK.1 (e ▸ hu)
    simp [this]

theorem keys_ofFun (K : List Int) (φ : Int → Option Int) :
    (ofFun K φ).map Prod.fst = K.filter fun u => (φ u).isSome := by
  induction K with
  | nil => rfl
  | cons k K ih =>
    cases hφ : φ k with
    | none => rw [ofFun_cons_none hφ, ih]; simp [List.filter_cons, hφ]
    | some t => rw [ofFun_cons_some hφ]; simp [List.filter_cons, hφ, ih]

theorem lookup_of_keys {m : Map} (hn : (m.map Prod.fst).Nodup) {u : Int} (hu : u ∈ m.map Prod.fst) :
    m.lookup u = some (Map.toFun m u) := lookup_of_mem hn (mem_toFun hn hu)

theorem lookup_isSome_iff {m : Map} (hn : (m.map Prod.fst).Nodup) (u : Int) :
    (m.lookup u).isSome = true ↔ u ∈ m.map Prod.fst := by
  constructor
  · intro h
    apply Classical.byContradiction
    intro hu
    rw [lookup_eq_none_of_not_mem hu] at h; simp at h
  · intro hu; rw [lookup_of_keys hn hu]; rfl

theorem canonP_keys {sg : Graph} (hs : sg.keys.Nodup) {m : Map} (hn : (m.map Prod.fst).Nodup) {nodes : List Int}
    (hsub : nodes.Sublist sg.keys) (hmem : ∀ u, u ∈ nodes ↔ u ∈ m.map Prod.fst) :
    (canonP sg m).map Prod.fst = nodes := by
  unfold canonP
  rw [keys_ofFun]
  conv => rhs; rw [← filter_mem_of_sublist hs hsub]
  apply List.filter_congr
  intro u _
  by_cases hu : u ∈ nodes
  · simp [hu, (lookup_isSome_iff hn u).2 ((hmem u).1 hu)]
  · have : ¬ (m.lookup u).isSome = true := fun h => hu ((hmem u).2 ((lookup_isSome_iff hn u).1 h))
    simp [hu, this]

theorem canonP_toFun (sg : Graph) (m : Map) {u : Int} (hu : u ∈ sg.keys) :
    Map.toFun (canonP sg m) u = Map.toFun m u := by
  unfold Map.toFun canonP
  rw [lookup_ofFun]; simp [hu]

theorem map_ext_of_keys {m1 m2 : Map} (hk : m1.map Prod.fst = m2.map Prod.fst) (hn : (m1.map Prod.fst).Nodup)
    (h : ∀ u ∈ m1.map Prod.fst, Map.toFun m1 u = Map.toFun m2 u) : m1 = m2 := by
  rw [← map_toFun_eq hn, ← map_toFun_eq (m := m2) (by rw [← hk]; exact hn), ← hk]
  apply List.map_congr_left
  intro u hu; rw [h u hu]

theorem isCommon_iff (g sg : Graph) (hs : sg.keys.Nodup) (m' : Map) :
    IsCommon (graphProblem g sg (colourPred g sg)) m' ↔
      (m'.map Prod.fst).Sublist sg.keys ∧ IsIndIsoOn g sg (colourPred g sg) (m'.map Prod.fst) (Map.toFun m') := by
  unfold IsCommon
  constructor
  · rintro ⟨h1, h2⟩
    have hn : (m'.map Prod.fst).Nodup := h1.nodup hs
    exact ⟨h1, ((mem_isosOn_iff g sg _ hn m').1 ((mem_extend_iff _ _ _).2 h2)).2⟩
  · rintro ⟨h1, h2⟩
    have hn : (m'.map Prod.fst).Nodup := h1.nodup hs
    exact ⟨h1, (mem_extend_iff _ _ _).1 ((mem_isosOn_iff g sg _ hn m').2 ⟨rfl, h2⟩)⟩

theorem cOK_nil (a ga b gb : Int) : cOK [] a ga b gb = true := by simp [cOK]

/-- the yields of one level (no constraints), listed along the pattern nodes, are exactly the common
induced subgraphs on `k` nodes, each once -/
theorem lcsFound_exact {pick : Map → Cands → List Int → Int} (hpick : PickOK pick) (g sg : Graph) (hs : sg.keys.Nodup)
    (hg : g.keys.Nodup) {k : Nat} (hk : 1 ≤ k) {tbm : List (List Int)} (h : Lvl sg k tbm) :
    (∀ m', m' ∈ (lcsFound pick g sg (findNodecolorCandidates g sg) [] tbm).map (canonP sg)
        ↔ IsCommon (graphProblem g sg (colourPred g sg)) m' ∧ m'.length = k)
    ∧ ((lcsFound pick g sg (findNodecolorCandidates g sg) [] tbm).map (canonP sg)).Nodup := by
  have hW : LvlW sg k tbm := fun S hS => (h.2 S).1 hS
  constructor
  · intro m'
    rw [isCommon_iff g sg hs]
    constructor
    · intro hm'
      obtain ⟨m, hm, rfl⟩ := List.mem_map.1 hm'
      obtain ⟨nodes, hn, hm⟩ := (mem_lcsFound _ _ _ _ _ _ _).1 hm
      obtain ⟨h1, h2⟩ := hW nodes hn
      obtain ⟨h3, h4, h5⟩ := lcs_call_sound hpick g sg [] (fun u hu => h1.subset hu) m hm
      have hkeys := canonP_keys hs h4 h1 h5
      rw [hkeys]
      refine ⟨⟨h1, ?_⟩, ?_⟩
      · apply indIsoOn_congr_fun (f := Map.toFun m)
        · intro u hu; exact canonP_toFun sg m (h1.subset hu)
        · exact indIsoOn_congr_mem h5 (mapOK_indIso h4 h3)
      · have : (canonP sg m).length = ((canonP sg m).map Prod.fst).length := by simp
        rw [this, hkeys, h2]
    · rintro ⟨⟨h1, h2⟩, h3⟩
      have hl : (m'.map Prod.fst).length = k := by simpa using h3
      have hin : m'.map Prod.fst ∈ tbm := (h.2 _).2 ⟨h1, hl⟩
      have hne : m'.map Prod.fst ≠ [] := by
        intro e; rw [e] at hl; simp at hl; omega
      have hnS : (m'.map Prod.fst).Nodup := h1.nodup hs
      have hp := hpick [] (findNodecolorCandidates g sg) _ hne
      obtain ⟨m, hm, hagree⟩ := mapNodes_complete hpick g sg [] (m'.map Prod.fst) (Map.toFun m')
        ⟨h2, fun _ _ _ _ _ => cOK_nil _ _ _ _⟩ (m'.map Prod.fst).length _ (findNodecolorCandidates g sg) []
        (by simp) (by simp) (cInv_nodecolor (fun u hu => h1.subset hu) h2) hp (by simp) (by simp) (by simp)
      refine List.mem_map.2 ⟨m, (mem_lcsFound _ _ _ _ _ _ _).2 ⟨_, hin, hm⟩, ?_⟩
      obtain ⟨_, h4, h5⟩ := lcs_call_sound hpick g sg [] (fun u hu => h1.subset hu) m hm
      have hkeys := canonP_keys hs h4 h1 h5
      apply map_ext_of_keys hkeys (by rw [hkeys]; exact hnS)
      intro u hu
      rw [hkeys] at hu
      rw [canonP_toFun sg m (h1.subset hu), hagree u hu]
  · refine List.Pairwise.map _ (fun a b (hab : canonP sg a ≠ canonP sg b) => hab) ?_
    unfold lcsFound
    rw [List.pairwise_flatMap]
    have hperm := sortBy_perm (fun a b => lexLe (sortInts a) (sortInts b)) tbm
    constructor
    · intro nodes hn
      have hn' := hperm.mem_iff.1 hn
      obtain ⟨h1, h2⟩ := hW nodes hn'
      have hd := mapNodes_distinct hpick g sg hg [] nodes nodes.length
        (pick [] (findNodecolorCandidates g sg) nodes) (findNodecolorCandidates g sg) []
        (nInv_nodecolor hg) (by simp) (by simp)
      refine hd.imp ?_
      rintro a b ⟨u, hu, hne⟩ e
      apply hne
      rw [← canonP_toFun sg a (h1.subset hu), ← canonP_toFun sg b (h1.subset hu), e]
    · have hnd : (sortBy (fun a b => lexLe (sortInts a) (sortInts b)) tbm).Nodup := hperm.nodup_iff.2 h.1
      refine List.Pairwise.imp_of_mem ?_ hnd
      intro n n' hn hn' hne x hx y hy e
      apply hne
      have h1 := hW n (hperm.mem_iff.1 hn)
      have h1' := hW n' (hperm.mem_iff.1 hn')
      obtain ⟨_, h4, h5⟩ := lcs_call_sound hpick g sg [] (fun u hu => h1.1.subset hu) x hx
      obtain ⟨_, h4', h5'⟩ := lcs_call_sound hpick g sg [] (fun u hu => h1'.1.subset hu) y hy
      rw [← canonP_keys hs h4 h1.1 h5, ← canonP_keys hs h4' h1'.1 h5', e]

theorem hasCommon_le (P : Problem) {j : Nat} (h : hasCommon P j = true) : j ≤ P.tnodes.length := by
  obtain ⟨S, m, _, h2, hm⟩ := (hasCommon_iff P j).1 h
  have hnd : (m.map Prod.snd).Nodup := by
    rw [List.nodup_iff_pairwise_ne, List.pairwise_map]; exact hm.pair.imp (fun h => h.1)
  have hsub : m.map Prod.snd ⊆ P.tnodes := by
    intro x hx
    obtain ⟨y, hy, rfl⟩ := List.mem_map.1 hx
    exact (hm.node y hy).1
  have h3 := hnd.length_le_of_subset hsub
  have h4 := isMatch_length hm
  simp only [List.length_map] at h3
  omega

theorem hasCommon_iff_isCommon (P : Problem) (k : Nat) :
    hasCommon P k = true ↔ ∃ m', IsCommon P m' ∧ m'.length = k := by
  rw [hasCommon_iff]
  constructor
  · rintro ⟨S, m, h1, h2, hm⟩
    have hd := hm.dom
    subst hd
    exact ⟨m, ⟨h1, hm⟩, by simpa using h2⟩
  · rintro ⟨m, ⟨h1, h2⟩, h3⟩
    exact ⟨_, m, h1, by simpa using h3, h2⟩

theorem searchDown_eq_zero (f : Nat → Bool) (n : Nat) (h : ∀ j, 1 ≤ j → f j = false) : searchDown f n = 0 := by
  induction n with
  | zero => rfl
  | succ n ih => simp [searchDown, h (n + 1) (by omega), ih]

/-- **`_largest_common_subgraph` without constraints**, level by level against `searchDown (hasCommon P)`
(the definition of `mcisSize`). -/
theorem lcsWith_exact {pick : Map → Cands → List Int → Int} (hpick : PickOK pick) (g sg : Graph) (hs : sg.keys.Nodup)
    (hg : g.keys.Nodup) (level : Nat) (tbm : List (List Int)) (h : Lvl sg level tbm) (hle : level ≤ sg.keys.length) :
    (searchDown (hasCommon (graphProblem g sg (colourPred g sg))) level = 0 →
        lcsWith pick g sg (findNodecolorCandidates g sg) [] level tbm = [])
    ∧ (1 ≤ searchDown (hasCommon (graphProblem g sg (colourPred g sg))) level →
        (∀ m', m' ∈ (lcsWith pick g sg (findNodecolorCandidates g sg) [] level tbm).map (canonP sg)
          ↔ IsCommon (graphProblem g sg (colourPred g sg)) m'
            ∧ m'.length = searchDown (hasCommon (graphProblem g sg (colourPred g sg))) level)
        ∧ ((lcsWith pick g sg (findNodecolorCandidates g sg) [] level tbm).map (canonP sg)).Nodup) := by
  induction level generalizing tbm with
  | zero => simp [lcsWith, searchDown]
  | succ level ih =>
    have hcur : (tbm.head?.getD []).length = level + 1 := by
      have hin : sg.keys.take (level + 1) ∈ tbm :=
        (h.2 _).2 ⟨List.take_sublist _ _, by rw [List.length_take]; omega⟩
      cases tbm with
      | nil => simp at hin
      | cons S0 rest => exact ((h.2 S0).1 (by simp)).2
    obtain ⟨hex, hnd⟩ := lcsFound_exact hpick g sg hs hg (k := level + 1) (by omega) h
    unfold lcsWith
    dsimp only
    rw [hcur]
    generalize hf : (if level + 1 ≤ g.keys.length
      then lcsFound pick g sg (findNodecolorCandidates g sg) [] tbm else []) = found
    have hkey : (found = [] ∧ hasCommon (graphProblem g sg (colourPred g sg)) (level + 1) = false)
        ∨ (found ≠ [] ∧ hasCommon (graphProblem g sg (colourPred g sg)) (level + 1) = true
            ∧ found = lcsFound pick g sg (findNodecolorCandidates g sg) [] tbm) := by
      by_cases hguard : level + 1 ≤ g.keys.length
      · rw [if_pos hguard] at hf
        subst hf
        by_cases he : lcsFound pick g sg (findNodecolorCandidates g sg) [] tbm = []
        · left
          refine ⟨he, ?_⟩
          cases hc : hasCommon (graphProblem g sg (colourPred g sg)) (level + 1) with
          | false => rfl
          | true =>
            obtain ⟨m', hm'⟩ := (hasCommon_iff_isCommon _ _).1 hc
            have := (hex m').2 hm'
            rw [he] at this; simp at this
        · right
          refine ⟨he, ?_, rfl⟩
          obtain ⟨m, hm⟩ := List.exists_mem_of_ne_nil _ he
          exact (hasCommon_iff_isCommon _ _).2 ⟨_, (hex _).1 (List.mem_map.2 ⟨m, hm, rfl⟩)⟩
      · rw [if_neg hguard] at hf
        left
        refine ⟨hf.symm, ?_⟩
        cases hc : hasCommon (graphProblem g sg (colourPred g sg)) (level + 1) with
        | false => rfl
        | true => exact absurd (hasCommon_le _ hc) hguard
    rcases hkey with ⟨he, hc⟩ | ⟨he, hc, hfl⟩
    · subst he
      simp only [searchDown, hc, Bool.false_eq_true, if_false]
      by_cases h0 : level = 0
      · subst h0
        simp [searchDown]
      · have hcond : (!([] : List Map).isEmpty || level + 1 == 1) = false := by
          simp [h0]
        rw [if_neg (by rw [hcond]; simp)]
        exact ih _ (lvl_shrink hs h hle) (by omega)
    · have hcond : (!found.isEmpty || level + 1 == 1) = true := by
        have : found.isEmpty = false := by
          cases found with
          | nil => exact absurd rfl he
          | cons _ _ => rfl
        simp [this]
      rw [if_pos hcond]
      simp only [searchDown, hc, if_true]
      subst hfl
      exact ⟨by omega, fun _ => ⟨hex, hnd⟩⟩

end C06I
