import VermouthProofs.C02_Lines
import VermouthProofs.C02_Whole
/-! Character level, whole text: `parse (render ls) = parseTokens (ls.map lineTokens)`. -/
namespace C02

def NoNl (l : Line) : Prop := ∀ c ∈ renderLineChars l, c ≠ '\n'

theorem splitLinesGo_line (l : List Char) (h : ∀ c ∈ l, c ≠ '\n') (rest cur : List Char) :
    splitLinesGo (l ++ '\n' :: rest) cur = (cur.reverse ++ l) :: splitLinesGo rest [] := by
  induction l generalizing cur with
  | nil => simp [splitLinesGo]
  | cons a t ih =>
    have ha : a ≠ '\n' := h a (by simp)
    simp only [List.cons_append, splitLinesGo, ha, if_false]
    rw [ih (fun c hc => h c (by simp [hc]))]
    simp

theorem splitLines_render (ls : List Line) (h : ∀ l ∈ ls, NoNl l) :
    splitLines (renderChars ls) = ls.map renderLineChars ++ [[]] := by
  unfold splitLines renderChars
  induction ls with
  | nil => rfl
  | cons l t ih =>
    simp only [List.flatMap_cons, List.append_assoc, List.cons_append, List.nil_append, List.map_cons]
    rw [splitLinesGo_line _ (h l (by simp))]
    rw [ih (fun x hx => h x (by simp [hx]))]
    simp

theorem parseTokens_append_nil (tbl : List (String × Arity)) (xs : List (List String)) :
    parseTokens tbl (xs ++ [[]]) = parseTokens tbl xs := by
  unfold parseTokens
  rw [List.foldlM_append]
  cases h : List.foldlM (step tbl) PState.init xs with
  | error e => rfl
  | ok st =>
    show (match (List.foldlM (step tbl) st [[]]) with
      | .ok st => finish st
      | .error e => .error e) = _
    simp [List.foldlM_cons, step_nil]

/-- **Character level, whole text**: reading the rendered text is reading the tokens of the lines. -/
theorem parse_render (tbl : List (String × Arity)) (ls : List Line)
    (h : ∀ l ∈ ls, LineOk l ∧ NoNl l) :
    parse tbl (render ls) = parseTokens tbl (ls.map lineTokens) := by
  unfold parse render
  rw [String.toList_ofList, splitLines_render ls (fun l hl => (h l hl).2)]
  rw [List.map_append, List.map_map]
  have e : List.map (tokenizeChars ∘ renderLineChars) ls = ls.map lineTokens := by
    apply List.map_congr_left
    intro l hl
    exact tokenize_renderLine l (h l hl).1
  rw [e]
  exact parseTokens_append_nil tbl _

end C02
