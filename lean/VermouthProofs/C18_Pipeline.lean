import VermouthProofs.C18
import VermouthProofs.C18_Residues
/-! Helper lemmas for C18, part 6: structure of `residuesOf`, and the composed pipeline. -/
namespace C18

abbrev Key3 := String × Int × String
def Residue.key3 (r : Residue) : Key3 := (r.chain, r.resid, r.resname)
def Atom.key3 (a : Atom) : Key3 := (a.chain, a.resid, a.resname)

theorem has_iff (r : Residue) (a : Atom) : r.has a = true ↔ r.key3 = a.key3 := by
  simp [Residue.has, Residue.key3, Atom.key3, Prod.ext_iff, and_assoc]

/-- every member carries the residue's (chain, resid, resname); these keys are pairwise distinct -/
structure ResInv (rs : List Residue) : Prop where
  members_has : ∀ r ∈ rs, ∀ a ∈ r.members, r.key3 = a.key3
  keys_nodup : (rs.map Residue.key3).Nodup

theorem insertAtom_cons_pos (r : Residue) (rest : List Residue) (a : Atom) (h : r.has a = true) :
    insertAtom (r :: rest) a = { r with members := r.members ++ [a] } :: rest := by
  simp [insertAtom, h]

theorem insertAtom_cons_neg (r : Residue) (rest : List Residue) (a : Atom) (h : ¬ r.has a = true) :
    insertAtom (r :: rest) a = r :: insertAtom rest a := by
  simp [insertAtom, h]

theorem insertAtom_keys (rs : List Residue) (a : Atom) :
    (insertAtom rs a).map Residue.key3 =
      if a.key3 ∈ rs.map Residue.key3 then rs.map Residue.key3 else rs.map Residue.key3 ++ [a.key3] := by
  induction rs with
  | nil => simp [insertAtom, Residue.key3, Atom.key3]
  | cons r rest ih =>
    by_cases h : r.has a = true
    · have hk := (has_iff r a).mp h
      rw [insertAtom_cons_pos r rest a h]
      have hm : a.key3 ∈ (r :: rest).map Residue.key3 := by simp [hk]
      rw [if_pos hm]
      simp [Residue.key3]
    · have hk : ¬ r.key3 = a.key3 := fun e => h ((has_iff r a).mpr e)
      have hk' : ¬ a.key3 = r.key3 := fun e => hk e.symm
      rw [insertAtom_cons_neg r rest a h, List.map_cons, ih]
      by_cases hm : a.key3 ∈ rest.map Residue.key3
      · have hm' : a.key3 ∈ (r :: rest).map Residue.key3 := by
          rw [List.map_cons]; exact List.mem_cons_of_mem _ hm
        rw [if_pos hm, if_pos hm', List.map_cons]
      · have hm' : ¬ a.key3 ∈ (r :: rest).map Residue.key3 := by
          rw [List.map_cons, List.mem_cons]
          rintro (e | e)
          · exact hk' e
          · exact hm e
        rw [if_neg hm, if_neg hm', List.map_cons, List.cons_append]

theorem mem_insertAtom (rs : List Residue) (a : Atom) (r' : Residue) (h : r' ∈ insertAtom rs a) :
    (r' ∈ rs) ∨ (r'.key3 = a.key3 ∧ ∀ b ∈ r'.members, b = a ∨ ∃ r ∈ rs, r.key3 = r'.key3 ∧ b ∈ r.members) := by
  induction rs with
  | nil =>
    simp only [insertAtom, List.mem_singleton] at h
    subst h
    right
    exact ⟨rfl, by simp⟩
  | cons r rest ih =>
    by_cases hh : r.has a = true
    · rw [insertAtom_cons_pos r rest a hh] at h
      rcases List.mem_cons.mp h with h | h
      · subst h
        right
        refine ⟨(has_iff r a).mp hh, ?_⟩
        intro b hb
        simp only [List.mem_append, List.mem_singleton] at hb
        rcases hb with hb | hb
        · exact Or.inr ⟨r, by simp, rfl, hb⟩
        · exact Or.inl hb
      · exact Or.inl (List.mem_cons_of_mem _ h)
    · rw [insertAtom_cons_neg r rest a hh] at h
      rcases List.mem_cons.mp h with h | h
      · subst h; exact Or.inl (by simp)
      · rcases ih h with h1 | ⟨h1, h2⟩
        · exact Or.inl (List.mem_cons_of_mem _ h1)
        · right
          refine ⟨h1, ?_⟩
          intro b hb
          rcases h2 b hb with h3 | ⟨r0, hr0, hk, hm⟩
          · exact Or.inl h3
          · exact Or.inr ⟨r0, List.mem_cons_of_mem _ hr0, hk, hm⟩

theorem insertAtom_inv (rs : List Residue) (a : Atom) (h : ResInv rs) : ResInv (insertAtom rs a) := by
  constructor
  · intro r' hr' b hb
    rcases mem_insertAtom rs a r' hr' with h1 | ⟨h1, h2⟩
    · exact h.members_has r' h1 b hb
    · rcases h2 b hb with h3 | ⟨r0, hr0, hk, hm⟩
      · subst h3; exact h1
      · rw [← hk]; exact h.members_has r0 hr0 b hm
  · rw [insertAtom_keys]
    split
    · exact h.keys_nodup
    · rename_i hm
      rw [List.nodup_append]
      refine ⟨h.keys_nodup, by simp, ?_⟩
      intro x hx y hy
      simp only [List.mem_singleton] at hy
      subst hy
      intro e; subst e; exact hm hx

theorem exists_mem_cons' {p : Residue → Prop} (x : Residue) (l : List Residue) :
    (∃ r ∈ x :: l, p r) ↔ p x ∨ ∃ r ∈ l, p r := by
  constructor
  · rintro ⟨r, hr, hp⟩
    rcases List.mem_cons.mp hr with e | e
    · subst e; exact Or.inl hp
    · exact Or.inr ⟨r, e, hp⟩
  · rintro (h | ⟨r, hr, hp⟩)
    · exact ⟨x, by simp, h⟩
    · exact ⟨r, List.mem_cons_of_mem _ hr, hp⟩

/-- atoms found in the residues after inserting `a` -/
theorem members_insertAtom (rs : List Residue) (a b : Atom) :
    (∃ r ∈ insertAtom rs a, b ∈ r.members) ↔ (∃ r ∈ rs, b ∈ r.members) ∨ b = a := by
  induction rs with
  | nil => simp [insertAtom]
  | cons r rest ih =>
    by_cases hh : r.has a = true
    · rw [insertAtom_cons_pos r rest a hh, exists_mem_cons', exists_mem_cons']
      simp only [List.mem_append, List.mem_singleton]
      constructor
      · rintro ((h | h) | h)
        · exact Or.inl (Or.inl h)
        · exact Or.inr h
        · exact Or.inl (Or.inr h)
      · rintro ((h | h) | h)
        · exact Or.inl (Or.inl h)
        · exact Or.inr h
        · exact Or.inl (Or.inr h)
    · rw [insertAtom_cons_neg r rest a hh, exists_mem_cons', exists_mem_cons', ih]
      constructor
      · rintro (h | h | h)
        · exact Or.inl (Or.inl h)
        · exact Or.inl (Or.inr h)
        · exact Or.inr h
      · rintro ((h | h) | h)
        · exact Or.inl h
        · exact Or.inr (Or.inl h)
        · exact Or.inr (Or.inr h)

theorem foldl_insertAtom_inv (atoms : List Atom) (rs : List Residue) (h : ResInv rs) :
    ResInv (atoms.foldl insertAtom rs) := by
  induction atoms generalizing rs with
  | nil => exact h
  | cons a rest ih => exact ih _ (insertAtom_inv rs a h)

theorem members_foldl_insertAtom (atoms : List Atom) (rs : List Residue) (b : Atom) :
    (∃ r ∈ atoms.foldl insertAtom rs, b ∈ r.members) ↔ (∃ r ∈ rs, b ∈ r.members) ∨ b ∈ atoms := by
  induction atoms generalizing rs with
  | nil => simp
  | cons a rest ih =>
    simp only [List.foldl_cons, ih, members_insertAtom, List.mem_cons]
    constructor
    · rintro ((h | h) | h)
      · exact Or.inl h
      · exact Or.inr (Or.inl h)
      · exact Or.inr (Or.inr h)
    · rintro (h | h | h)
      · exact Or.inl (Or.inl h)
      · exact Or.inl (Or.inr h)
      · exact Or.inr h

theorem insertSorted_perm (r : Residue) (l : List Residue) : (insertSorted r l).Perm (r :: l) := by
  induction l with
  | nil => exact List.Perm.refl _
  | cons s rest ih =>
    unfold insertSorted
    split
    · exact List.Perm.refl _
    · exact (List.Perm.cons s ih).trans (List.Perm.swap r s rest)

theorem sortResidues_perm (l : List Residue) : (sortResidues l).Perm l := by
  induction l with
  | nil => exact List.Perm.refl _
  | cons r rest ih =>
    exact (insertSorted_perm r _).trans (List.Perm.cons r ih)

theorem residuesOf_inv (atoms : List Atom) : ResInv (residuesOf atoms) := by
  have h := foldl_insertAtom_inv atoms [] ⟨by simp, by simp⟩
  have p := sortResidues_perm (collectResidues atoms)
  constructor
  · intro r hr
    exact h.members_has r (p.mem_iff.mp hr)
  · exact (List.Perm.nodup_iff (p.map Residue.key3)).mpr h.keys_nodup

/-- the residues partition the node table -/
theorem mem_residuesOf (atoms : List Atom) (b : Atom) :
    (∃ r ∈ residuesOf atoms, b ∈ r.members) ↔ b ∈ atoms := by
  have p := sortResidues_perm (collectResidues atoms)
  have := members_foldl_insertAtom atoms [] b
  simp only [List.not_mem_nil, false_and, exists_false, false_or] at this
  rw [← this]
  unfold residuesOf collectResidues
  constructor
  · rintro ⟨r, hr, hb⟩; exact ⟨r, p.mem_iff.mp hr, hb⟩
  · rintro ⟨r, hr, hb⟩; exact ⟨r, p.mem_iff.mpr hr, hb⟩

/-- an atom lies in one residue only -/
theorem residue_index_unique {rs : List Residue} (h : ResInv rs) {i j : Nat} {ri rj : Residue}
    (hi : rs[i]? = some ri) (hj : rs[j]? = some rj) {a : Atom} (hai : a ∈ ri.members) (haj : a ∈ rj.members) :
    i = j := by
  have k1 := h.members_has ri (List.mem_of_getElem? hi) a hai
  have k2 := h.members_has rj (List.mem_of_getElem? hj) a haj
  have hlt : i < (rs.map Residue.key3).length := by
    have := (List.getElem?_eq_some_iff.mp hi).1
    simpa using this
  apply (List.getElem?_inj hlt h.keys_nodup).mp
  simp only [List.getElem?_map, hi, hj, Option.map_some]
  rw [k1, k2]

/-! ### the composed pipeline -/

theorem toAtom_atype (v : VSite) : v.toAtom.atype = v.atype := rfl

/-- distinct backbone residue numbers: sites with equal type names are the same site -/
theorem vs_eq_of_type (pre bb vsn : String) (atoms : List Atom)
    (h1 : ((atoms.filter (fun a => a.atomname = bb)).map (·.resid)).Nodup) (v w : VSite)
    (hv : v ∈ addVirtualSites pre bb vsn atoms) (hw : w ∈ addVirtualSites pre bb vsn atoms)
    (ht : v.atype = w.atype) : v = w := by
  unfold addVirtualSites at hv hw
  rw [vsLoop_eq_sites] at hv hw
  obtain ⟨i, a, hi, rfl⟩ := mem_sites _ _ _ _ _ _ hv
  obtain ⟨j, b, hj, rfl⟩ := mem_sites _ _ _ _ _ _ hw
  simp only [mkVS] at ht
  have hr := goType_inj pre _ _ ht
  have hlt : i < ((atoms.filter (fun a => a.atomname = bb)).map (·.resid)).length := by
    have := (List.getElem?_eq_some_iff.mp hi).1
    simpa using this
  have hij : i = j := by
    apply (List.getElem?_inj hlt h1).mp
    simp only [List.getElem?_map, hi, hj, Option.map_some, hr]
  subst hij
  rw [hi] at hj
  have : a = b := Option.some.inj hj
  subst this
  rfl

/-- **Type names separate residues in the molecule produced by `addVirtualSites`**, provided the
backbone particles have distinct residue numbers and no ordinary bead type starts with the prefix. -/
theorem pipeline_types_separate (pre bb vsn : String) (atoms : List Atom)
    (h1 : ((atoms.filter (fun a => a.atomname = bb)).map (·.resid)).Nodup)
    (h2 : ∀ a ∈ atoms, startsWith a.atype pre = false) :
    TypesSeparate pre (residuesOf (withSites atoms (addVirtualSites pre bb vsn atoms))) := by
  intro i j ri rj hri hrj a ha b hb hpre hab
  have hinv := residuesOf_inv (withSites atoms (addVirtualSites pre bb vsn atoms))
  have ha' : a ∈ withSites atoms (addVirtualSites pre bb vsn atoms) :=
    (mem_residuesOf _ a).mp ⟨ri, List.mem_of_getElem? hri, ha⟩
  have hb' : b ∈ withSites atoms (addVirtualSites pre bb vsn atoms) :=
    (mem_residuesOf _ b).mp ⟨rj, List.mem_of_getElem? hrj, hb⟩
  have hpreb : startsWith b.atype pre = true := by rw [← hab]; exact hpre
  unfold withSites at ha' hb'
  rcases List.mem_append.mp ha' with ha1 | ha1
  · rw [h2 a ha1] at hpre; cases hpre
  rcases List.mem_append.mp hb' with hb1 | hb1
  · rw [h2 b hb1] at hpreb; cases hpreb
  obtain ⟨v, hv, rfl⟩ := List.mem_map.mp ha1
  obtain ⟨w, hw, rfl⟩ := List.mem_map.mp hb1
  have := vs_eq_of_type pre bb vsn atoms h1 v w hv hw (by simpa [toAtom_atype] using hab)
  subst this
  exact residue_index_unique hinv hri hrj ha hb

end C18
