import VermouthModel.C01_Attr
import VermouthProofs.C01_ModProofs
/-! C01 — the extended run against the base run; `out_to_mol` stays a dictionary. -/
namespace C01
open C12

theorem dom_dset2' (d : Dict2) (a b : Int) (w : Rat) :
    dom (dset2 d a b w) = if a ∈ dom d then dom d else dom d ++ [a] := by
  unfold dom
  induction d with
  | nil => simp [dset2]
  | cons x r ih =>
    obtain ⟨a0, inner⟩ := x
    unfold dset2
    by_cases h0 : a0 = a
    · subst h0; simp
    · simp only [h0, if_false, List.map_cons, ih, List.mem_cons]
      have : ¬ a = a0 := fun h => h0 h.symm
      by_cases hm : a ∈ r.map Prod.fst
      · simp [hm]
      · simp [hm, this]

theorem nodup_dom_dset2 (d : Dict2) (a b : Int) (w : Rat) (h : (dom d).Nodup) : (dom (dset2 d a b w)).Nodup := by
  rw [dom_dset2']
  split
  · exact h
  · rename_i hk
    exact List.nodup_append.2 ⟨h, by simp, by
      intro x hx y hy
      simp only [List.mem_singleton] at hy
      subst hy
      exact fun hxy => hk (hxy ▸ hx)⟩

theorem nodup_addEntriesRev (d : Dict2) (es : List (Int × Int × Rat)) (h : (dom d).Nodup) :
    (dom (addEntriesRev d es)).Nodup := by
  unfold addEntriesRev
  induction es generalizing d with
  | nil => exact h
  | cons e r ih => exact ih _ (nodup_dom_dset2 d _ _ _ h)

theorem applyBlock_otm_nodup (st : St) (p : Placement) (h : (dom st.outToMol).Nodup) :
    (dom (applyBlock st p).outToMol).Nodup := by
  unfold applyBlock
  split
  · exact h
  · simp only
    split
    · split
      · exact nodup_addEntriesRev _ _ h
      · exact h
    · exact h

theorem applyMod_otm_nodup (st : St) (p : ModPlacement) (h : (dom st.outToMol).Nodup) :
    (dom (applyMod st p).outToMol).Nodup := by
  unfold applyMod
  split
  · exact h
  · split
    · exact h
    · split
      · exact nodup_addEntriesRev _ _ h
      · exact h

theorem applyBlockX_st (sx : StX) (p : PlacementX) (hff : p.block.ffOk = true) :
    (applyBlockX sx p).st = applyBlock sx.st p.base := by
  unfold applyBlockX
  cases he : sx.st.err with
  | some e => simp [applyBlock_err sx.st p.base e he]
  | none =>
    simp only [Option.isSome_none, Bool.false_eq_true, if_false, hff, Bool.not_true]
    split
    · rfl
    · split <;> rfl

theorem applyModX_st (sx : StX) (q : ModPlacementX) : (applyModX sx q).st = applyMod sx.st q.base := by
  unfold applyModX
  cases he : sx.st.err with
  | some e => simp [applyMod_err sx.st q.base e he]
  | none =>
    simp only [Option.isSome_none, Bool.false_eq_true, if_false]
    split
    · rfl
    · split <;> rfl

theorem applyBlockX_otm (sx : StX) (p : PlacementX) (h : (dom sx.st.outToMol).Nodup) :
    (dom (applyBlockX sx p).st.outToMol).Nodup := by
  cases hff : p.block.ffOk with
  | true =>
    rw [applyBlockX_st sx p hff]
    exact applyBlock_otm_nodup sx.st p.base h
  | false =>
    unfold applyBlockX
    simp only [hff, Bool.not_false, if_true]
    split <;> exact h

theorem applyModX_otm (sx : StX) (q : ModPlacementX) (h : (dom sx.st.outToMol).Nodup) :
    (dom (applyModX sx q).st.outToMol).Nodup := by
  rw [applyModX_st]
  exact applyMod_otm_nodup sx.st q.base h

theorem runAllX_otm_nodup (n : Nat) (ps : List PlacementX) (qs : List ModPlacementX) (sx : StX)
    (h : (dom sx.st.outToMol).Nodup) : (dom (runAllX n ps qs sx).st.outToMol).Nodup := by
  induction n generalizing ps qs sx with
  | zero => exact h
  | succ n ih =>
    cases ps with
    | nil =>
      cases qs with
      | nil => exact h
      | cons q qs => exact ih _ _ _ (applyModX_otm sx q h)
    | cons p ps =>
      cases qs with
      | nil => exact ih _ _ _ (applyBlockX_otm sx p h)
      | cons q qs =>
        simp only [runAllX]
        split
        · exact ih _ _ _ (applyModX_otm sx q h)
        · exact ih _ _ _ (applyBlockX_otm sx p h)

theorem runAllX_st (n : Nat) (ps : List PlacementX) (qs : List ModPlacementX) (sx : StX)
    (hff : ∀ p ∈ ps, p.block.ffOk = true) :
    (runAllX n ps qs sx).st = runAll n (ps.map PlacementX.base) (qs.map ModPlacementX.base) sx.st := by
  induction n generalizing ps qs sx with
  | zero => rfl
  | succ n ih =>
    cases ps with
    | nil =>
      cases qs with
      | nil => rfl
      | cons q qs =>
        simp only [runAllX, List.map_nil, List.map_cons, runAll]
        rw [ih [] qs _ (by simp), applyModX_st]
        rfl
    | cons p ps =>
      have hp := hff p List.mem_cons_self
      have hps : ∀ x ∈ ps, x.block.ffOk = true := fun x hx => hff x (List.mem_cons_of_mem _ hx)
      cases qs with
      | nil =>
        simp only [runAllX, List.map_nil, List.map_cons, runAll]
        rw [ih ps [] _ hps, applyBlockX_st _ _ hp]
        rfl
      | cons q qs =>
        simp only [runAllX, List.map_cons, runAll]
        split
        · rw [ih (p :: ps) qs _ hff, applyModX_st]
          rfl
        · rw [ih ps (q :: qs) _ hps, applyBlockX_st _ _ hp]
          rfl

end C01
