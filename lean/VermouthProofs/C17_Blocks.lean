import VermouthProofs.C17
/-!
C17 helper lemmas, part 2: a wildcard string as the list of its dot-free blocks.
-/
namespace C17

/-- the maximal dot-free segments of a string (Python `s.split('.')`) -/
def splitDot : List Char → List (List Char)
  | [] => [[]]
  | c :: cs =>
    if c = '.' then [] :: splitDot cs
    else ((c :: (splitDot cs).headD [])) :: (splitDot cs).tail

/-- Python `'.'.join(blocks)` -/
def joinDot : List (List Char) → List Char
  | [] => []
  | [b] => b
  | b :: b' :: bs => b ++ '.' :: joinDot (b' :: bs)

def DotFree (b : List Char) : Prop := '.' ∉ b

instance (b : List Char) : Decidable (DotFree b) := inferInstanceAs (Decidable ('.' ∉ b))

theorem splitDot_ne_nil (s : List Char) : splitDot s ≠ [] := by
  cases s with
  | nil => simp [splitDot]
  | cons c cs => simp only [splitDot]; split <;> simp

theorem joinDot_cons (b : List Char) (bs : List (List Char)) (h : bs ≠ []) :
    joinDot (b :: bs) = b ++ '.' :: joinDot bs := by
  cases bs with
  | nil => exact absurd rfl h
  | cons b' bs => rfl

theorem joinDot_append (A B : List (List Char)) (hA : A ≠ []) (hB : B ≠ []) :
    joinDot (A ++ B) = joinDot A ++ '.' :: joinDot B := by
  induction A with
  | nil => exact absurd rfl hA
  | cons a A ih =>
    cases A with
    | nil => simp [joinDot_cons _ _ hB, joinDot]
    | cons a' A =>
      have e : (a :: a' :: A) ++ B = a :: ((a' :: A) ++ B) := rfl
      rw [e, joinDot_cons _ _ (by simp), ih (by simp)]
      show _ = (a ++ '.' :: joinDot (a' :: A)) ++ _
      simp

theorem headD_tail_eq (l : List (List Char)) (h : l ≠ []) : l.headD [] :: l.tail = l := by
  cases l with
  | nil => exact absurd rfl h
  | cons a l => rfl

theorem joinDot_splitDot (s : List Char) : joinDot (splitDot s) = s := by
  induction s with
  | nil => rfl
  | cons c cs ih =>
    simp only [splitDot]
    split
    · rename_i hc
      rw [joinDot_cons _ _ (splitDot_ne_nil cs), ih, hc]; rfl
    · have hne := splitDot_ne_nil cs
      generalize hl : splitDot cs = l at *
      cases l with
      | nil => exact absurd rfl hne
      | cons a l =>
        simp only [List.headD_cons, List.tail_cons]
        cases l with
        | nil => simp [joinDot] at *; exact ih
        | cons a' l =>
          rw [joinDot_cons _ _ (by simp)] at *
          rw [← ih]; rfl

theorem splitDot_dotFree (b : List Char) (h : DotFree b) : splitDot b = [b] := by
  induction b with
  | nil => rfl
  | cons c cs ih =>
    have hc : c ≠ '.' := by intro e; apply h; simp [e]
    have hcs : DotFree cs := by intro e; apply h; simp [e]
    simp [splitDot, hc, ih hcs]

theorem splitDot_block_dot (b y : List Char) (h : DotFree b) :
    splitDot (b ++ '.' :: y) = b :: splitDot y := by
  induction b with
  | nil => simp [splitDot]
  | cons c cs ih =>
    have hc : c ≠ '.' := by intro e; apply h; simp [e]
    have hcs : DotFree cs := by intro e; apply h; simp [e]
    simp [splitDot, hc, ih hcs]

/-- splitting is the inverse of joining dot-free blocks -/
theorem splitDot_joinDot (bs : List (List Char)) (hne : bs ≠ []) (hdf : ∀ b ∈ bs, DotFree b) :
    splitDot (joinDot bs) = bs := by
  induction bs with
  | nil => exact absurd rfl hne
  | cons b bs ih =>
    cases bs with
    | nil => simpa [joinDot] using splitDot_dotFree b (hdf b (by simp))
    | cons b' bs =>
      rw [joinDot_cons _ _ (by simp), splitDot_block_dot _ _ (hdf b (by simp)),
        ih (by simp) (fun x hx => hdf x (by simp [hx]))]

theorem splitDot_blocks_dotFree (s : List Char) : ∀ b ∈ splitDot s, DotFree b := by
  induction s with
  | nil => intro b hb; simp [splitDot] at hb; subst hb; simp [DotFree]
  | cons c cs ih =>
    intro b hb
    simp only [splitDot] at hb
    split at hb
    · simp only [List.mem_cons] at hb
      rcases hb with rfl | hb
      · simp [DotFree]
      · exact ih b hb
    · rename_i hc
      have hne := splitDot_ne_nil cs
      generalize hl : splitDot cs = l at *
      cases l with
      | nil => exact absurd rfl hne
      | cons a l =>
        simp only [List.headD_cons, List.tail_cons, List.mem_cons] at hb
        rcases hb with rfl | hb
        · have := ih a (by simp)
          intro e
          simp only [List.mem_cons] at e
          rcases e with e | e
          · exact hc e.symm
          · exact this e
        · exact ih b (by simp [hb])

/-- apply `f` to every block -/
def mapBlocks (f : List Char → List Char) (s : List Char) : List Char :=
  joinDot ((splitDot s).map f)

/-- two strings whose block lists differ in one block that `f` identifies have the same image -/
theorem mapBlocks_congr_block (f : List Char → List Char) (A B : List (List Char)) (m m' : List Char)
    (hA : ∀ b ∈ A, DotFree b) (hB : ∀ b ∈ B, DotFree b) (hm : DotFree m) (hm' : DotFree m')
    (hf : f m = f m') :
    mapBlocks f (joinDot (A ++ m :: B)) = mapBlocks f (joinDot (A ++ m' :: B)) := by
  unfold mapBlocks
  rw [splitDot_joinDot _ (by simp), splitDot_joinDot _ (by simp)]
  · simp [hf]
  · intro b hb
    simp only [List.mem_append, List.mem_cons] at hb
    rcases hb with hb | rfl | hb
    · exact hA b hb
    · exact hm'
    · exact hB b hb
  · intro b hb
    simp only [List.mem_append, List.mem_cons] at hb
    rcases hb with hb | rfl | hb
    · exact hA b hb
    · exact hm
    · exact hB b hb

theorem mapBlocks_fixed (f : List Char → List Char) (s : List Char) (h : ∀ b ∈ splitDot s, f b = b) :
    mapBlocks f s = s := by
  unfold mapBlocks
  rw [List.map_congr_left h]
  simp [joinDot_splitDot]

/-- `joinDot (b :: B)` starts with `b` -/
theorem joinDot_cons_prefix (b : List Char) (B : List (List Char)) : ∃ y, joinDot (b :: B) = b ++ y := by
  cases B with
  | nil => exact ⟨[], by simp [joinDot]⟩
  | cons b' B => exact ⟨'.' :: joinDot (b' :: B), rfl⟩

/-- `joinDot (A ++ [b])` ends with `b` -/
theorem joinDot_concat_suffix (A : List (List Char)) (b : List Char) : ∃ x, joinDot (A ++ [b]) = x ++ b := by
  cases A with
  | nil => exact ⟨[], by simp [joinDot]⟩
  | cons a A => exact ⟨joinDot (a :: A) ++ ['.'], by rw [joinDot_append _ _ (by simp) (by simp)]; simp [joinDot]⟩

/-- appending dot-free text to a string appends it to the last block -/
theorem joinDot_concat_append (A : List (List Char)) (b m : List Char) :
    joinDot (A ++ [b]) ++ m = joinDot (A ++ [b ++ m]) := by
  cases A with
  | nil => simp [joinDot]
  | cons a A =>
    rw [joinDot_append _ _ (by simp) (by simp), joinDot_append _ _ (by simp) (by simp)]
    simp [joinDot]

/-- prepending dot-free text to a string prepends it to the first block -/
theorem joinDot_cons_prepend (b m : List Char) (B : List (List Char)) :
    m ++ joinDot (b :: B) = joinDot ((m ++ b) :: B) := by
  cases B with
  | nil => simp [joinDot]
  | cons b' B => simp [joinDot]

end C17
