import VermouthModel.C18_MapWrite
import VermouthProofs.C18_Render
/-! Helper lemmas for C18, part 13: the columns of a contact-map line written by `_write_contacts`. -/
namespace C18

def toksOf (ps : List Piece) : List (List Char) := ps.filterMap Piece.tok?

/-- no two tokens touch: `pending` = a token has been started and no blank has followed yet -/
def wellSep : Bool → List Piece → Bool
  | _, [] => true
  | pending, .ws n :: r => wellSep (pending && n == 0) r
  | pending, .tok _ :: r => !pending && wellSep true r

theorem splitWsAux_pieces : ∀ (ps : List Piece) (cur : List Char),
    wellSep (!cur.isEmpty) ps = true → (∀ t ∈ toksOf ps, WsFree t) →
    splitWsAux (Piece.flat ps) cur = (if cur.isEmpty then [] else [cur.reverse]) ++ toksOf ps := by
  intro ps
  induction ps with
  | nil =>
    intro cur _ _
    simp [Piece.flat, splitWsAux, toksOf]
  | cons p r ih =>
    intro cur hsep htok
    cases p with
    | ws n =>
      have htok' : ∀ t ∈ toksOf r, WsFree t := by simpa [toksOf, Piece.tok?] using htok
      have e : Piece.flat (Piece.ws n :: r) = List.replicate n ' ' ++ Piece.flat r := by
        simp [Piece.flat, Piece.text]
      have et : toksOf (Piece.ws n :: r) = toksOf r := rfl
      rw [e, et]
      simp only [wellSep] at hsep
      cases n with
      | zero =>
        simp only [List.replicate_zero, List.nil_append]
        apply ih cur _ htok'
        simpa using hsep
      | succ m =>
        have hsep' : wellSep false r = true := by simpa using hsep
        have hnil := ih [] (by simpa using hsep') htok'
        simp only [List.isEmpty_nil, if_true, List.nil_append] at hnil
        have hall : AllWs (List.replicate m ' ') := by
          intro c hc; rw [(List.mem_replicate.mp hc).2]; rfl
        cases hcur : cur.isEmpty with
        | true =>
          have : cur = [] := List.isEmpty_iff.mp hcur
          subst this
          have hall' : AllWs (List.replicate (m + 1) ' ') := by
            intro c hc; rw [(List.mem_replicate.mp hc).2]; rfl
          rw [splitWsAux_ws_nil _ _ hall', hnil]
          simp
        | false =>
          have hne : cur ≠ [] := by intro e; subst e; simp at hcur
          rw [List.replicate_succ, List.cons_append, splitWsAux_sep ' ' _ cur (by decide) hne,
            splitWsAux_ws_nil _ _ hall, hnil]
          simp
    | tok t =>
      simp only [wellSep, Bool.and_eq_true, Bool.not_eq_true', Bool.not_eq_eq_eq_not, Bool.not_true] at hsep
      have hcur : cur = [] := List.isEmpty_iff.mp hsep.1
      subst hcur
      have hwt : WsFree t := htok t (by simp [toksOf, Piece.tok?])
      have htok' : ∀ x ∈ toksOf r, WsFree x := fun x hx => htok x (by simp [toksOf, Piece.tok?] at hx ⊢; exact Or.inr hx)
      have e : Piece.flat (Piece.tok t :: r) = t ++ Piece.flat r := by simp [Piece.flat, Piece.text]
      rw [e, splitWsAux_token t _ [] hwt.2]
      have hne : (t.reverse ++ ([] : List Char)).isEmpty = false := by
        cases t with
        | nil => exact absurd rfl hwt.1
        | cons c t' => simp
      rw [ih (t.reverse ++ []) (by rw [hne]; exact hsep.2) htok', hne]
      have et : toksOf (Piece.tok t :: r) = t :: toksOf r := rfl
      rw [et]
      simp

/-- `str.split()` of a line given by its pieces returns its tokens -/
theorem splitWs_pieces (ps : List Piece) (hsep : wellSep false ps = true) (htok : ∀ t ∈ toksOf ps, WsFree t) :
    splitWs (Piece.flat ps) = toksOf ps := by
  unfold splitWs
  have := splitWsAux_pieces ps [] (by simpa using hsep) htok
  simpa using this

/-- characters of a line: blanks and token characters -/
theorem mem_flat (ps : List Piece) (c : Char) (h : c ∈ Piece.flat ps) : c = ' ' ∨ ∃ t ∈ toksOf ps, c ∈ t := by
  induction ps with
  | nil => simp [Piece.flat] at h
  | cons p r ih =>
    simp only [Piece.flat, List.flatMap_cons, List.mem_append] at h
    rcases h with h | h
    · cases p with
      | ws n => exact Or.inl (List.mem_replicate.mp h).2
      | tok t => exact Or.inr ⟨t, by simp [toksOf, Piece.tok?], h⟩
    · rcases ih h with e | ⟨t, ht, hc⟩
      · exact Or.inl e
      · refine Or.inr ⟨t, ?_, hc⟩
        cases p <;> simp [toksOf, Piece.tok?] at ht ⊢
        · exact ht
        · exact Or.inr ht

/-! ### the columns of one line -/

/-- the columns of the line written for one entry of `all_contacts` -/
def rowTokens (extra : List (List Char)) (count : Nat) (r : MapRow) : List (List Char) :=
  [['R'], decInt count, decInt r.i1, r.resnameA.toList, r.chainA.toList, decInt r.residA,
   decInt r.i2, r.resnameB.toList, r.chainB.toList, decInt r.residB, fmtFixed 4 r.dca,
   decInt r.over, flag (r.cont != 0), flag (r.stab != 0), flag r.rcsu,
   decInt (if r.rcsu then 1 else 0), decInt r.cont] ++ extra

theorem toksOf_append (a b : List Piece) : toksOf (a ++ b) = toksOf a ++ toksOf b := by
  simp [toksOf, List.filterMap_append]

theorem toksOf_fmtDsp (w : Nat) (i : Int) : toksOf (fmtDsp w i) = [decInt i] := by
  unfold fmtDsp; split <;> rfl

theorem toksOf_extra (extra : List (List Char)) : toksOf (extra.flatMap fun t => [Piece.ws 4, Piece.tok t]) = extra := by
  induction extra with
  | nil => rfl
  | cons t r ih => simp only [List.flatMap_cons, toksOf_append, ih]; rfl

theorem toksOf_ws (n : Nat) (r : List Piece) : toksOf (Piece.ws n :: r) = toksOf r := rfl
theorem toksOf_tok (t : List Char) (r : List Piece) : toksOf (Piece.tok t :: r) = t :: toksOf r := rfl
theorem toksOf_nil : toksOf [] = [] := rfl
theorem toksOf_fmtD (w : Nat) (i : Int) : toksOf (fmtD w i) = [decInt i] := rfl
theorem toksOf_fmtS (w : Nat) (s : String) : toksOf (fmtS w s) = [s.toList] := rfl
theorem toksOf_fmtF4 (w : Nat) (x : Q) : toksOf (fmtF4 w x) = [fmtFixed 4 x] := rfl

theorem rowPieces_toks (extra : List (List Char)) (n : Nat) (r : MapRow) :
    toksOf (rowPieces extra n r) = rowTokens extra n r := by
  unfold rowPieces rowTokens
  simp only [toksOf_append, toksOf_fmtDsp, toksOf_extra, toksOf_ws, toksOf_tok, toksOf_nil, toksOf_fmtD, toksOf_fmtS,
    toksOf_fmtF4, List.cons_append, List.nil_append, List.append_assoc]

theorem wellSep_extra (extra : List (List Char)) (b : Bool) :
    wellSep b (extra.flatMap fun t => [Piece.ws 4, Piece.tok t]) = true := by
  induction extra generalizing b with
  | nil => rfl
  | cons t r ih => simp [List.flatMap_cons, wellSep, ih]

theorem sep_tok (t : List Char) (n : Nat) (rest : List Piece) (hn : n ≠ 0) :
    wellSep false (Piece.tok t :: Piece.ws n :: rest) = wellSep false rest := by
  have : (n == 0) = false := by simpa using hn
  simp [wellSep, this]

theorem sep_fmtD (w : Nat) (i : Int) (n : Nat) (rest : List Piece) (hn : n ≠ 0) :
    wellSep false (fmtD w i ++ Piece.ws n :: rest) = wellSep false rest := by
  have : (n == 0) = false := by simpa using hn
  simp [fmtD, wellSep, this]

theorem sep_fmtF4 (w : Nat) (x : Q) (n : Nat) (rest : List Piece) (hn : n ≠ 0) :
    wellSep false (fmtF4 w x ++ Piece.ws n :: rest) = wellSep false rest := by
  have : (n == 0) = false := by simpa using hn
  simp [fmtF4, wellSep, this]

theorem sep_fmtS (w : Nat) (s : String) (n : Nat) (rest : List Piece) (hn : n ≠ 0) :
    wellSep false (fmtS w s ++ Piece.ws n :: rest) = wellSep false rest := by
  have : (n == 0) = false := by simpa using hn
  simp [fmtS, wellSep, this]

/-- the flag of column 15 is directly followed by `{: 6d}` of 0 or 1: five blanks and the digit -/
theorem sep_flag_dsp (t : List Char) (b : Bool) (n : Nat) (rest : List Piece) (hn : n ≠ 0) :
    wellSep false (Piece.tok t :: (fmtDsp 6 (if b = true then 1 else 0) ++ Piece.ws n :: rest)) = wellSep false rest := by
  have : (n == 0) = false := by simpa using hn
  cases b <;> simp [fmtDsp, wellSep, this, decInt, decNat, decAux]

theorem sep_last (w : Nat) (i : Int) (extra : List (List Char)) :
    wellSep false (fmtDsp w i ++ extra.flatMap fun t => [Piece.ws 4, Piece.tok t]) = true := by
  unfold fmtDsp
  split <;> simp [fmtD, wellSep, wellSep_extra]

theorem rowPieces_wellSep (extra : List (List Char)) (n : Nat) (r : MapRow) :
    wellSep false (rowPieces extra n r) = true := by
  unfold rowPieces
  simp (disch := decide) only [List.append_assoc, List.cons_append, List.nil_append, sep_tok, sep_fmtD, sep_fmtS,
    sep_fmtF4, sep_flag_dsp, sep_last]

end C18
