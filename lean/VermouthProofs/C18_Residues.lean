import VermouthModel.C18
/-! Helper lemmas for C18, part 5: residue lookup (`_chain_id_to_resnode`). -/
namespace C18

def Residue.matches (r : Residue) (chain : String) (resid : Int) : Bool :=
  r.chain == chain && r.old == some resid

/-- the fold of `findRes`, with explicit start index and accumulator -/
def lastIdx (p : Residue → Bool) (l : List Residue) (n : Nat) (acc : Option Nat) : Option Nat :=
  (l.zipIdx n).foldl (fun acc ri => if p ri.1 then some ri.2 else acc) acc

theorem findRes_eq_lastIdx (rs : List Residue) (chain : String) (resid : Int) :
    findRes rs chain resid = lastIdx (fun r => r.matches chain resid) rs 0 none := rfl

theorem lastIdx_cons (p : Residue → Bool) (a : Residue) (l : List Residue) (n : Nat) (acc : Option Nat) :
    lastIdx p (a :: l) n acc = lastIdx p l (n + 1) (if p a then some n else acc) := by
  simp [lastIdx, List.zipIdx_cons]

theorem lastIdx_sound (p : Residue → Bool) (l : List Residue) (n : Nat) (acc : Option Nat) (i : Nat)
    (h : lastIdx p l n acc = some i) :
    acc = some i ∨ (n ≤ i ∧ ∃ r, l[i - n]? = some r ∧ p r = true) := by
  induction l generalizing n acc with
  | nil => left; simpa [lastIdx] using h
  | cons a rest ih =>
    rw [lastIdx_cons] at h
    rcases ih (n + 1) _ h with h1 | ⟨hle, r, hr, hp⟩
    · by_cases hpa : p a = true
      · simp only [hpa, if_true, Option.some.injEq] at h1
        subst h1
        right
        exact ⟨Nat.le_refl _, a, by simp, hpa⟩
      · simp only [hpa] at h1
        left; simpa using h1
    · right
      refine ⟨by omega, r, ?_, hp⟩
      have : i - n = (i - (n + 1)) + 1 := by omega
      rw [this, List.getElem?_cons_succ]
      exact hr

/-- the last matching index wins: nothing after the result matches -/
theorem lastIdx_last (p : Residue → Bool) (l : List Residue) (n : Nat) (acc : Option Nat) (i : Nat)
    (h : lastIdx p l n acc = some i) (hacc : ∀ k, acc = some k → k < n) :
    ∀ j r, l[j]? = some r → p r = true → n + j ≤ i := by
  induction l generalizing n acc with
  | nil => intro j r hj; simp at hj
  | cons a rest ih =>
    rw [lastIdx_cons] at h
    intro j r hj hp
    have hacc' : ∀ k, (if p a = true then some n else acc) = some k → k < n + 1 := by
      intro k hk
      by_cases hpa : p a = true
      · simp only [hpa, if_true, Option.some.injEq] at hk; omega
      · simp only [hpa] at hk
        have := hacc k (by simpa using hk); omega
    cases j with
    | zero =>
      simp only [List.getElem?_cons_zero, Option.some.injEq] at hj
      subst hj
      rcases lastIdx_sound p rest (n + 1) _ i h with h1 | ⟨hle, _⟩
      · simp only [hp, if_true, Option.some.injEq] at h1
        omega
      · omega
    | succ j' =>
      simp only [List.getElem?_cons_succ] at hj
      have := ih (n + 1) _ h hacc' j' r hj hp
      omega

theorem lastIdx_complete (p : Residue → Bool) (l : List Residue) (n : Nat) (acc : Option Nat)
    (j : Nat) (r : Residue) (hj : l[j]? = some r) (hp : p r = true) : ∃ i, lastIdx p l n acc = some i := by
  induction l generalizing n acc j with
  | nil => simp at hj
  | cons a rest ih =>
    rw [lastIdx_cons]
    cases j with
    | zero =>
      simp only [List.getElem?_cons_zero, Option.some.injEq] at hj
      subst hj
      simp only [hp, if_true]
      -- accumulator is `some n`; the fold never returns to `none`
      clear ih
      have : ∀ (l : List Residue) (m : Nat) (k : Nat), ∃ i, lastIdx p l m (some k) = some i := by
        intro l
        induction l with
        | nil => intro m k; exact ⟨k, by simp [lastIdx]⟩
        | cons b t iht =>
          intro m k
          rw [lastIdx_cons]
          by_cases hb : p b = true
          · simp only [hb, if_true]; exact iht _ _
          · simp only [hb]; exact iht _ _
      exact this rest _ n
    | succ j' =>
      simp only [List.getElem?_cons_succ] at hj
      exact ih _ _ j' hj

theorem findRes_sound (rs : List Residue) (chain : String) (resid : Int) (i : Nat)
    (h : findRes rs chain resid = some i) :
    ∃ r, rs[i]? = some r ∧ r.chain = chain ∧ r.old = some resid := by
  rw [findRes_eq_lastIdx] at h
  rcases lastIdx_sound _ rs 0 none i h with h1 | ⟨_, r, hr, hp⟩
  · cases h1
  · refine ⟨r, by simpa using hr, ?_⟩
    simpa [Residue.matches] using hp

theorem findRes_last (rs : List Residue) (chain : String) (resid : Int) (i : Nat)
    (h : findRes rs chain resid = some i) (j : Nat) (r : Residue) (hj : rs[j]? = some r)
    (hc : r.chain = chain) (ho : r.old = some resid) : j ≤ i := by
  rw [findRes_eq_lastIdx] at h
  have := lastIdx_last _ rs 0 none i h (by intro k hk; cases hk) j r hj (by simp [Residue.matches, hc, ho])
  omega

theorem findRes_complete (rs : List Residue) (chain : String) (resid : Int) (j : Nat) (r : Residue)
    (hj : rs[j]? = some r) (hc : r.chain = chain) (ho : r.old = some resid) :
    ∃ i, findRes rs chain resid = some i := by
  rw [findRes_eq_lastIdx]
  exact lastIdx_complete _ rs 0 none j r hj (by simp [Residue.matches, hc, ho])

/-- residues are identified unambiguously by (chain, input resid) -/
def KeysDistinct (rs : List Residue) : Prop :=
  ∀ (i j : Nat) (ri rj : Residue), rs[i]? = some ri → rs[j]? = some rj → ri.chain = rj.chain → ri.old = rj.old → ri.old ≠ none → i = j

/-- with unambiguous keys the lookup finds exactly the residue carrying the key -/
theorem findRes_iff (rs : List Residue) (hk : KeysDistinct rs) (chain : String) (resid : Int) (i : Nat) :
    findRes rs chain resid = some i ↔ ∃ r, rs[i]? = some r ∧ r.chain = chain ∧ r.old = some resid := by
  constructor
  · exact findRes_sound rs chain resid i
  · rintro ⟨r, hr, hc, ho⟩
    obtain ⟨k, hk'⟩ := findRes_complete rs chain resid i r hr hc ho
    obtain ⟨r', hr', hc', ho'⟩ := findRes_sound rs chain resid k hk'
    have := hk i k r r' hr hr' (by rw [hc, hc']) (by rw [ho, ho']) (by rw [ho]; simp)
    rw [this]; exact hk'

/-- members of different residues never carry the same prefix-matching type name -/
def TypesSeparate (pre : String) (rs : List Residue) : Prop :=
  ∀ (i j : Nat) (ri rj : Residue), rs[i]? = some ri → rs[j]? = some rj →
    ∀ a ∈ ri.members, ∀ b ∈ rj.members, startsWith a.atype pre = true → a.atype = b.atype → i = j

end C18
