import VermouthProofs.C02_Whole
/-! Exactly when the writer raises. -/
namespace C02

def interWritable (keys : List Int) (vsn : Bool) (i : Inter) : Bool :=
  i.atoms.all (fun k => keys.contains k) && !(vsn && i.atoms.isEmpty)

def sectionWritable (keys : List Int) (p : String × List Inter) : Bool :=
  !p.2.any hasBoth && p.2.all (interWritable keys (retag p.1 == "virtual_sitesn"))

/-- the molecules the writer accepts: at least one atom, no atom with a mass but no charge, no
interaction with both `ifdef` and `ifndef`, every interaction atom is a node, no `virtual_sitesn`
without atoms -/
def writable (m : Mol) : Bool :=
  !m.atoms.isEmpty && m.atoms.all atomOk && m.inters.all (sectionWritable (m.atoms.map (·.key)))

def IsOk {ε α} (e : Except ε α) : Prop := ∃ a, e = .ok a

theorem mapM_except_isOk_iff {α β ε} (f : α → Except ε β) (l : List α) :
    IsOk (l.mapM f) ↔ ∀ x ∈ l, IsOk (f x) := by
  induction l with
  | nil =>
    simp only [List.mapM_nil, List.not_mem_nil, false_imp_iff, implies_true, iff_true]
    exact ⟨[], rfl⟩
  | cons a t ih =>
    rw [List.mapM_cons]
    constructor
    · rintro ⟨r, hr⟩
      cases hfa : f a with
      | error e => rw [hfa] at hr; cases hr
      | ok b =>
        rw [hfa] at hr
        cases ht : t.mapM f with
        | error e => rw [ht] at hr; cases hr
        | ok bs =>
          intro x hx
          simp only [List.mem_cons] at hx
          rcases hx with rfl | hx
          · exact ⟨b, hfa⟩
          · exact ih.mp ⟨bs, ht⟩ x hx
    · intro h
      obtain ⟨b, hb⟩ := h a (by simp)
      obtain ⟨bs, hbs⟩ := ih.mpr (fun x hx => h x (by simp [hx]))
      exact ⟨b :: bs, by rw [hb, hbs]; rfl⟩

theorem mapM_option_some_imp {α β} (f : α → Option β) (l : List α) (r : List β) (h : l.mapM f = some r) :
    (∀ x ∈ l, (f x).isSome = true) := by
  induction l generalizing r with
  | nil => intro x hx; cases hx
  | cons a t ih =>
    rw [List.mapM_cons] at h
    cases hfa : f a with
    | none => rw [hfa] at h; cases h
    | some b =>
      rw [hfa] at h
      cases ht : t.mapM f with
      | none => rw [ht] at h; cases h
      | some bs =>
        intro x hx
        simp only [List.mem_cons] at hx
        rcases hx with rfl | hx
        · simp [hfa]
        · exact ih bs ht x hx

theorem writeInter_isOk_iff (c : List (Int × Nat)) (w : Nat) (vsn : Bool) (i : Inter) :
    IsOk (writeInter c w vsn i) ↔
      (∀ k ∈ i.atoms, (lookupIdx c k).isSome = true) ∧ ¬ (vsn = true ∧ i.atoms = []) := by
  unfold writeInter
  constructor
  · rintro ⟨l, hl⟩
    cases hm : i.atoms.mapM (lookupIdx c) with
    | none => rw [hm] at hl; cases hl
    | some idxs =>
      rw [hm] at hl
      have hall := mapM_option_some_imp _ _ _ hm
      refine ⟨hall, ?_⟩
      rintro ⟨hv, he⟩
      rw [he] at hm
      cases hm
      simp [hv] at hl
  · rintro ⟨hall, hne⟩
    rw [(mapM_eq_filterMap _ _ hall).1]
    by_cases hv : vsn = true
    · have hne' : i.atoms ≠ [] := fun e => hne ⟨hv, e⟩
      have hlen := (mapM_eq_filterMap _ _ hall).2
      have : (i.atoms.filterMap (lookupIdx c)).isEmpty = false := by
        cases hf : i.atoms.filterMap (lookupIdx c) with
        | nil => rw [hf] at hlen; exact absurd (List.eq_nil_of_length_eq_zero hlen.symm) hne'
        | cons _ _ => rfl
      simp only [this, Bool.and_false, Bool.false_eq_true, if_false]
      exact ⟨_, rfl⟩
    · have hv' : vsn = false := by simpa using hv
      simp only [hv', Bool.false_and, Bool.false_eq_true, if_false]
      exact ⟨_, rfl⟩

theorem writeBlock_isOk_iff (c : List (Int × Nat)) (w : Nat) (name : String) (post : List Line)
    (blk : Key × List Inter) :
    IsOk (writeBlock c w name post blk) ↔ ∀ i ∈ blk.2, IsOk (writeInter c w (name == "virtual_sitesn") i) := by
  rw [← mapM_except_isOk_iff]
  unfold writeBlock
  constructor
  · rintro ⟨ls, hls⟩
    cases hm : blk.2.mapM (writeInter c w (name == "virtual_sitesn")) with
    | error e => rw [hm] at hls; cases hls
    | ok r => exact ⟨r, rfl⟩
  · rintro ⟨r, hr⟩
    rw [hr]
    exact ⟨_, rfl⟩

theorem writeSection_isOk_iff (m : Mol) (c : List (Int × Nat)) (w : Nat) (s : Nat × String × List Inter) :
    IsOk (writeSection m c w s) ↔
      s.2.2.any hasBoth = false ∧
      ∀ i ∈ s.2.2, IsOk (writeInter c w (retag s.2.1 == "virtual_sitesn") i) := by
  have hblocks : IsOk ((groupRuns (sortInters s.2.2)).mapM
        (writeBlock c w (retag s.2.1) (linesOf m.post (retag s.2.1))))
      ↔ ∀ i ∈ s.2.2, IsOk (writeInter c w (retag s.2.1 == "virtual_sitesn") i) := by
    rw [mapM_except_isOk_iff]
    constructor
    · intro h i hi
      have hi' : i ∈ sortInters s.2.2 := (sortInters_perm s.2.2).mem_iff.mpr hi
      rw [← groupRuns_flatten (sortInters s.2.2)] at hi'
      obtain ⟨blk, hblk, hib⟩ := List.mem_flatMap.mp hi'
      exact (writeBlock_isOk_iff c w _ _ blk).mp (h blk hblk) i hib
    · intro h blk hblk
      rw [writeBlock_isOk_iff]
      intro i hi
      exact h i ((sortInters_perm s.2.2).mem_iff.mp (groupRuns_mem _ blk hblk i hi))
  unfold writeSection
  by_cases hb : s.2.2.any hasBoth = true
  · simp only [hb, if_true]
    constructor
    · rintro ⟨_, h⟩; cases h
    · rintro ⟨h, _⟩; cases h
  · have hb' : s.2.2.any hasBoth = false := by simpa using hb
    simp only [hb', Bool.false_eq_true, if_false, true_and]
    rw [← hblocks]
    constructor
    · rintro ⟨ls, hls⟩
      cases hm : (groupRuns (sortInters s.2.2)).mapM
          (writeBlock c w (retag s.2.1) (linesOf m.post (retag s.2.1))) with
      | error e => rw [hm] at hls; cases hls
      | ok r => exact ⟨r, rfl⟩
    · rintro ⟨r, hr⟩
      rw [hr]
      exact ⟨_, rfl⟩

theorem lookup_isSome_iff (m : Mol) (k : Int) :
    (lookupIdx (correspondence m) k).isSome = true ↔ (m.atoms.map (·.key)).contains k = true := by
  rw [List.contains_iff_mem]
  constructor
  · intro h
    by_cases hk : k ∈ m.atoms.map (·.key)
    · exact hk
    · have hk' : k ∉ (sortedNodes m).map (·.key) := fun e => hk (((sortedNodes_perm m).map _).mem_iff.mp e)
      have := lookup_corrOf_none (sortedNodes m) 1 k hk'
      unfold correspondence at h
      rw [this] at h
      cases h
  · exact correspondence_isSome m k

theorem writeBody_isOk_iff (m : Mol) :
    IsOk (writeBody m) ↔ m.inters.all (sectionWritable (m.atoms.map (·.key))) = true := by
  have hsec : ∀ (n : Nat) (p : String × List Inter),
      IsOk (writeSection m (correspondence m) (widthsOf m).idx (n, p.1, p.2))
        ↔ sectionWritable (m.atoms.map (·.key)) p = true := by
    intro n p
    rw [writeSection_isOk_iff]
    simp only [sectionWritable, Bool.and_eq_true, Bool.not_eq_true', List.all_eq_true]
    constructor
    · rintro ⟨h1, h2⟩
      refine ⟨h1, fun i hi => ?_⟩
      obtain ⟨ha, hv⟩ := (writeInter_isOk_iff _ _ _ i).mp (h2 i hi)
      simp only [interWritable, Bool.and_eq_true, List.all_eq_true, Bool.not_eq_true',
        Bool.and_eq_false_iff]
      refine ⟨fun k hk => (lookup_isSome_iff m k).mp (ha k hk), ?_⟩
      by_cases hvs : (retag p.1 == "virtual_sitesn") = true
      · right
        cases he : i.atoms with
        | nil => exact absurd ⟨hvs, he⟩ hv
        | cons _ _ => rfl
      · left; simpa using hvs
    · rintro ⟨h1, h2⟩
      refine ⟨h1, fun i hi => ?_⟩
      have := h2 i hi
      simp only [interWritable, Bool.and_eq_true, List.all_eq_true, Bool.not_eq_true',
        Bool.and_eq_false_iff] at this
      rw [writeInter_isOk_iff]
      refine ⟨fun k hk => (lookup_isSome_iff m k).mpr (this.1 k hk), ?_⟩
      rintro ⟨hv, he⟩
      rcases this.2 with h | h
      · rw [hv] at h; cases h
      · rw [he] at h; cases h
  have hbody : IsOk (writeBody m) ↔
      IsOk ((sortInteractions m).mapM (writeSection m (correspondence m) (widthsOf m).idx)) := by
    unfold writeBody
    constructor
    · rintro ⟨ls, hls⟩
      cases hm : (sortInteractions m).mapM (writeSection m (correspondence m) (widthsOf m).idx) with
      | error e => rw [hm] at hls; cases hls
      | ok r => exact ⟨r, rfl⟩
    · rintro ⟨r, hr⟩
      rw [hr]
      exact ⟨_, rfl⟩
  rw [hbody, mapM_except_isOk_iff, List.all_eq_true]
  constructor
  · intro h p hp
    cases hp2 : p.2 with
    | nil => simp [sectionWritable, hp2]
    | cons i t =>
      have hmem : (i.atoms.length, p.1, p.2) ∈ sortInteractions m := by
        apply (List.mergeSort_perm _ _).mem_iff.mpr
        simp only [sectKeys, List.mem_filterMap]
        exact ⟨p, hp, by rw [hp2]⟩
      exact (hsec _ p).mp (h _ hmem)
  · intro h s hs
    obtain ⟨hm, _⟩ := mem_sortInteractions m s hs
    exact (hsec s.1 (s.2.1, s.2.2)).mpr (h _ hm)

/-- **The writer raises exactly on the unwritable molecules.** -/
theorem write_isOk_iff (m : Mol) : IsOk (write m) ↔ writable m = true := by
  unfold write writable
  by_cases he : m.atoms.isEmpty = true
  · simp only [he, if_true, Bool.not_true, Bool.false_and]
    constructor
    · rintro ⟨_, h⟩; cases h
    · intro h; cases h
  · have he' : m.atoms.isEmpty = false := by simpa using he
    simp only [he', Bool.false_eq_true, if_false, Bool.not_false, Bool.true_and]
    by_cases ha : m.atoms.all atomOk = true
    · simp only [ha, Bool.not_true, Bool.false_eq_true, if_false, Bool.true_and]
      exact writeBody_isOk_iff m
    · have ha' : m.atoms.all atomOk = false := by simpa using ha
      simp only [ha', Bool.not_false, if_true, Bool.false_and]
      constructor
      · rintro ⟨_, h⟩; cases h
      · intro h; cases h

end C02
