import VermouthModel.C05
/-!
# C05 — the interaction table as a finite map, overriding, removals, and "nothing unjustified"

Properties of the model of `add_or_replace_interaction`, `remove_matching_interaction` and of the
fold `DoLinks.run_molecule` performs over links and placements.
-/
namespace C05
open Iso

abbrev Key := String × List Int × Val

/-- the finite map a table represents: first entry with that identity -/
def tableGet (t : Table) (k : Key) : Option Inter := (t.find? (fun e => keyOf e == k)).map (·.2)

/-- the identities in table order -/
def tableKeys (t : Table) : List Key := t.map keyOf

/-- fold of add-or-replace over a list of additions -/
def addAll (t : Table) (adds : List (String × Inter)) : Table := adds.foldl addOrReplace t

/-! ## A. the table is a finite map keyed by identity, in first-insertion order -/

theorem tableGet_nil (k : Key) : tableGet [] k = none := rfl

theorem tableGet_cons (e : String × Inter) (t : Table) (k : Key) :
    tableGet (e :: t) k = if keyOf e = k then some e.2 else tableGet t k := by
  unfold tableGet
  by_cases h : keyOf e = k <;> simp [h]

theorem tableKeys_cons (e : String × Inter) (t : Table) :
    tableKeys (e :: t) = keyOf e :: tableKeys t := rfl

theorem addOrReplace_get (t : Table) (x : String × Inter) (k : Key) :
    tableGet (addOrReplace t x) k = if k = keyOf x then some x.2 else tableGet t k := by
  induction t with
  | nil =>
    simp only [addOrReplace, tableGet_cons, tableGet_nil]
    by_cases h : k = keyOf x
    · simp [h]
    · have : ¬ keyOf x = k := fun h' => h h'.symm
      simp [h, this]
  | cons e rest ih =>
    simp only [addOrReplace]
    split
    · next hb =>
      have he : keyOf e = keyOf x := by simpa using hb
      simp only [he, tableGet_cons]
      by_cases h : k = keyOf x
      · simp [h]
      · have : ¬ keyOf x = k := fun h' => h h'.symm
        simp [h, this]
    · next hb =>
      have he : ¬ keyOf e = keyOf x := by simpa using hb
      simp only [tableGet_cons, ih]
      by_cases h : k = keyOf x
      · simp [h, he]
      · simp [h]

theorem addOrReplace_keys (t : Table) (x : String × Inter) :
    tableKeys (addOrReplace t x) =
      if keyOf x ∈ tableKeys t then tableKeys t else tableKeys t ++ [keyOf x] := by
  induction t with
  | nil => simp [addOrReplace, tableKeys]
  | cons e rest ih =>
    simp only [addOrReplace]
    split
    · next hb =>
      have he : keyOf e = keyOf x := by simpa using hb
      simp [he, tableKeys]
    · next hb =>
      have he : ¬ keyOf e = keyOf x := by simpa using hb
      have hne : ¬ keyOf x = keyOf e := fun h => he h.symm
      simp only [tableKeys_cons, ih, List.mem_cons, hne, false_or]
      split <;> simp

theorem addOrReplace_nodup (t : Table) (x : String × Inter) (h : (tableKeys t).Nodup) :
    (tableKeys (addOrReplace t x)).Nodup := by
  rw [addOrReplace_keys]
  split
  · exact h
  · next hn =>
    rw [List.nodup_append]
    refine ⟨h, by simp, ?_⟩
    intro a ha b hb
    simp at hb
    subst hb
    intro hab
    exact hn (hab ▸ ha)

theorem addOrReplace_length (t : Table) (x : String × Inter) :
    (addOrReplace t x).length = if keyOf x ∈ tableKeys t then t.length else t.length + 1 := by
  have h := congrArg List.length (addOrReplace_keys t x)
  by_cases hc : keyOf x ∈ tableKeys t
  · rw [if_pos hc] at h
    rw [if_pos hc]
    simpa [tableKeys] using h
  · rw [if_neg hc] at h
    rw [if_neg hc]
    simpa [tableKeys] using h

theorem addOrReplace_refines_map (t : Table) (x : String × Inter) (h : (tableKeys t).Nodup) :
    (tableKeys (addOrReplace t x)).Nodup ∧
    (∀ k, tableGet (addOrReplace t x) k = if k = keyOf x then some x.2 else tableGet t k) ∧
    tableKeys (addOrReplace t x) =
      (if keyOf x ∈ tableKeys t then tableKeys t else tableKeys t ++ [keyOf x]) :=
  ⟨addOrReplace_nodup t x h, addOrReplace_get t x, addOrReplace_keys t x⟩

theorem addOrReplace_mem (t : Table) (x e : String × Inter) (h : e ∈ addOrReplace t x) :
    e = x ∨ e ∈ t := by
  induction t with
  | nil => simp [addOrReplace] at h; exact Or.inl h
  | cons e1 rest ih =>
    simp only [addOrReplace] at h
    split at h
    · rcases List.mem_cons.1 h with h | h
      · exact Or.inl h
      · exact Or.inr (List.mem_cons_of_mem _ h)
    · rcases List.mem_cons.1 h with h | h
      · exact Or.inr (h ▸ List.mem_cons_self)
      · rcases ih h with h | h
        · exact Or.inl h
        · exact Or.inr (List.mem_cons_of_mem _ h)

theorem addOrReplace_mem_self (t : Table) (x : String × Inter) : x ∈ addOrReplace t x := by
  induction t with
  | nil => simp [addOrReplace]
  | cons e rest ih =>
    simp only [addOrReplace]
    split
    · exact List.mem_cons_self
    · exact List.mem_cons_of_mem _ ih

/-- the identity just added is present -/
theorem addOrReplace_key_self (t : Table) (x : String × Inter) :
    keyOf x ∈ tableKeys (addOrReplace t x) :=
  List.mem_map_of_mem (addOrReplace_mem_self t x)

/-- add-or-replace never removes an identity -/
theorem addOrReplace_key_mono (t : Table) (x : String × Inter) (k : Key) (h : k ∈ tableKeys t) :
    k ∈ tableKeys (addOrReplace t x) := by
  rw [addOrReplace_keys]
  split
  · exact h
  · exact List.mem_append_left _ h

/-! ## B. later additions override earlier ones -/

theorem addAll_nil (t : Table) : addAll t [] = t := rfl
theorem addAll_cons (t : Table) (x : String × Inter) (xs : List (String × Inter)) :
    addAll t (x :: xs) = addAll (addOrReplace t x) xs := rfl

theorem later_overrides (t : Table) (adds : List (String × Inter)) (k : Key) :
    tableGet (addAll t adds) k =
      match adds.reverse.find? (fun x => keyOf x == k) with
      | some x => some x.2
      | none => tableGet t k := by
  induction adds generalizing t with
  | nil => simp [addAll_nil]
  | cons x xs ih =>
    rw [addAll_cons, ih, List.reverse_cons, List.find?_append]
    cases hx : xs.reverse.find? (fun x => keyOf x == k) with
    | some y => simp
    | none =>
      simp only [Option.none_or, addOrReplace_get, List.find?_cons]
      by_cases h : k = keyOf x
      · simp [h]
      · have : (keyOf x == k) = false := by simpa using fun h' => h h'.symm
        simp [h, this]

theorem later_overrides_two (t : Table) (x y : String × Inter) (h : keyOf x = keyOf y) :
    tableGet (addOrReplace (addOrReplace t x) y) (keyOf x) = some y.2 ∧
    tableKeys (addOrReplace (addOrReplace t x) y) = tableKeys (addOrReplace t x) := by
  constructor
  · rw [addOrReplace_get]; simp [h]
  · rw [addOrReplace_keys (addOrReplace t x) y]
    have : keyOf y ∈ tableKeys (addOrReplace t x) := h ▸ addOrReplace_key_self t x
    simp [this]

/-- the identities after a batch of additions: the old ones in place, then the new ones in order of
first appearance -/
theorem addAll_key_mono (t : Table) (adds : List (String × Inter)) (k : Key)
    (h : k ∈ tableKeys t) : k ∈ tableKeys (addAll t adds) := by
  induction adds generalizing t with
  | nil => exact h
  | cons x xs ih => rw [addAll_cons]; exact ih _ (addOrReplace_key_mono t x k h)

theorem addAll_nodup (t : Table) (adds : List (String × Inter)) (h : (tableKeys t).Nodup) :
    (tableKeys (addAll t adds)).Nodup := by
  induction adds generalizing t with
  | nil => exact h
  | cons x xs ih => rw [addAll_cons]; exact ih _ (addOrReplace_nodup t x h)

/-! ## C. removals -/

theorem removeMatching_sublist (na : Int → Attrs) (t : Table) (ty : String) (d : LDel) :
    (removeMatching na t ty d).Sublist t := by
  induction t with
  | nil => simp [removeMatching]
  | cons e rest ih =>
    simp only [removeMatching]
    split
    · exact List.sublist_cons_self e rest
    · exact ih.cons_cons e

theorem removeMatching_none (na : Int → Attrs) (t : Table) (ty : String) (d : LDel)
    (h : ∀ e ∈ t, ¬ (e.1 = ty ∧ interMatch na e.2 d = true)) : removeMatching na t ty d = t := by
  induction t with
  | nil => simp [removeMatching]
  | cons e rest ih =>
    simp only [removeMatching]
    have he := h e List.mem_cons_self
    have : (e.1 == ty && interMatch na e.2 d) = false := by
      cases hb : (e.1 == ty && interMatch na e.2 d) with
      | false => rfl
      | true =>
        simp only [Bool.and_eq_true, beq_iff_eq] at hb
        exact absurd hb he
    simp only [this]
    rw [ih (fun e' he' => h e' (List.mem_cons_of_mem _ he'))]
    simp

/-- distinct identities imply distinct entries -/
theorem nodup_of_keys_nodup (t : Table) (h : (tableKeys t).Nodup) : t.Nodup := by
  unfold tableKeys List.Nodup at h
  rw [List.pairwise_map] at h
  exact h.imp (fun hab heq => hab (congrArg keyOf heq))

theorem removed_gone (na : Int → Attrs) (t : Table) (ty : String) (d : LDel)
    (hn : (tableKeys t).Nodup) (e : String × Inter) (he : e ∈ t)
    (hm : e.1 = ty ∧ interMatch na e.2 d = true) :
    ∃ e0 ∈ t, e0.1 = ty ∧ interMatch na e0.2 d = true ∧ e0 ∉ removeMatching na t ty d ∧
      (removeMatching na t ty d).length + 1 = t.length ∧
      (∀ e' ∈ t, e' ≠ e0 → e' ∈ removeMatching na t ty d) := by
  have hnd := nodup_of_keys_nodup t hn
  clear hn
  induction t with
  | nil => cases he
  | cons e1 rest ih =>
    rw [List.nodup_cons] at hnd
    simp only [removeMatching]
    by_cases h1 : e1.1 = ty ∧ interMatch na e1.2 d = true
    · have hb : (e1.1 == ty && interMatch na e1.2 d) = true := by simp [h1.1, h1.2]
      simp only [hb, if_true]
      refine ⟨e1, List.mem_cons_self, h1.1, h1.2, hnd.1, by simp, ?_⟩
      intro e' he' hne
      rcases List.mem_cons.1 he' with h | h
      · exact absurd h hne
      · exact h
    · have hb : (e1.1 == ty && interMatch na e1.2 d) = false := by
        cases hb : (e1.1 == ty && interMatch na e1.2 d) with
        | false => rfl
        | true =>
          simp only [Bool.and_eq_true, beq_iff_eq] at hb
          exact absurd hb h1
      simp only [hb]
      have he' : e ∈ rest := by
        rcases List.mem_cons.1 he with h | h
        · exact absurd (h ▸ hm) h1
        · exact h
      obtain ⟨e0, h0, h0t, h0m, h0n, hlen, hall⟩ := ih he' hnd.2
      refine ⟨e0, List.mem_cons_of_mem _ h0, h0t, h0m, ?_, by simp [hlen], ?_⟩
      · intro hc
        rcases List.mem_cons.1 hc with h | h
        · exact h1 (h ▸ ⟨h0t, h0m⟩)
        · exact h0n h
      · intro e' he'' hne
        rcases List.mem_cons.1 he'' with h | h
        · exact h ▸ List.mem_cons_self
        · exact List.mem_cons_of_mem _ (hall e' h hne)

theorem removed_gone_unique (na : Int → Attrs) (t : Table) (ty : String) (d : LDel)
    (hn : (tableKeys t).Nodup) (e : String × Inter) (he : e ∈ t)
    (hm : e.1 = ty ∧ interMatch na e.2 d = true)
    (hu : ∀ e' ∈ t, e'.1 = ty ∧ interMatch na e'.2 d = true → e' = e) :
    removeMatching na t ty d = t.erase e ∧ e ∉ removeMatching na t ty d := by
  have hnd := nodup_of_keys_nodup t hn
  have heq : removeMatching na t ty d = t.erase e := by
    clear hn hnd
    induction t with
    | nil => cases he
    | cons e1 rest ih =>
      simp only [removeMatching, List.erase_cons]
      by_cases h1 : e1.1 = ty ∧ interMatch na e1.2 d = true
      · have hb : (e1.1 == ty && interMatch na e1.2 d) = true := by simp [h1.1, h1.2]
        have := hu e1 List.mem_cons_self h1
        subst this
        simp [hb]
      · have hb : (e1.1 == ty && interMatch na e1.2 d) = false := by
          cases hb : (e1.1 == ty && interMatch na e1.2 d) with
          | false => rfl
          | true =>
            simp only [Bool.and_eq_true, beq_iff_eq] at hb
            exact absurd hb h1
        have hne : e1 ≠ e := fun h => h1 (h ▸ hm)
        have he' : e ∈ rest := by
          rcases List.mem_cons.1 he with h | h
          · exact absurd h.symm hne
          · exact h
        have hbe : (e1 == e) = false := by simpa using hne
        simp only [hb, hbe]
        rw [ih he' (fun e' h' => hu e' (List.mem_cons_of_mem _ h'))]
  exact ⟨heq, heq ▸ hnd.not_mem_erase⟩

/-! ## D. nothing unjustified -/

theorem setAttrs_inters (m : Mol) (k : Int) (new : Attrs) : (m.setAttrs k new).inters = m.inters := rfl

theorem applyReplace_inters (mp : Map) (ns : List LNode) (s : Mol × List Int) :
    (applyReplace mp ns s).1.inters = s.1.inters := by
  induction ns generalizing s with
  | nil => rfl
  | cons n rest ih =>
    obtain ⟨m, rm⟩ := s
    simp only [applyReplace]
    split
    · exact ih _
    · split
      · exact ih _
      · rw [ih]; rfl

theorem applyRemoved_inters (mp : Map) (m : Mol) (dels : List (String × LDel))
    (e : String × Inter) (h : e ∈ (applyRemoved mp m dels).inters) : e ∈ m.inters := by
  induction dels generalizing m with
  | nil => exact h
  | cons d rest ih =>
    simp only [applyRemoved, List.foldl_cons] at h
    have := ih _ h
    exact (removeMatching_sublist _ _ _ _).subset this

theorem applyAdded_inters (mp : Map) (cites : List String) (m : Mol) (adds : List (String × Inter))
    (e : String × Inter) (h : e ∈ (applyAdded mp cites m adds).inters) :
    e ∈ m.inters ∨ ∃ a ∈ adds, e = (a.1, buildInter mp a.2) := by
  induction adds generalizing m with
  | nil => exact Or.inl h
  | cons a rest ih =>
    simp only [applyAdded, List.foldl_cons] at h
    rcases ih _ h with h | ⟨b, hb, hbe⟩
    · rcases addOrReplace_mem _ _ _ h with h | h
      · exact Or.inr ⟨a, List.mem_cons_self, h⟩
      · exact Or.inl h
    · exact Or.inr ⟨b, List.mem_cons_of_mem _ hb, hbe⟩

theorem applyPlacement_inters (l : Link) (s : Mol × List Int) (mp : Map) (e : String × Inter)
    (h : e ∈ (applyPlacement l s mp).1.inters) :
    e ∈ s.1.inters ∨ ∃ a ∈ l.inters, e = (a.1, buildInter mp a.2) := by
  simp only [applyPlacement] at h
  rcases applyAdded_inters _ _ _ _ _ h with h | h
  · have := applyRemoved_inters _ _ _ _ h
    rw [applyReplace_inters] at this
    exact Or.inl this
  · exact Or.inr h

theorem orderAs_subset (given own : List Map) (p : Map) (h : p ∈ orderAs given own) : p ∈ own := by
  simp only [orderAs, List.mem_append, List.mem_eraseDups, List.mem_filter] at h
  rcases h with ⟨_, h⟩ | ⟨h, _⟩
  · simpa using h
  · exact h

theorem orderAs_complete (given own : List Map) (p : Map) (h : p ∈ own) : p ∈ orderAs given own := by
  simp only [orderAs, List.mem_append, List.mem_eraseDups, List.mem_filter]
  by_cases hg : p ∈ given
  · exact Or.inl ⟨hg, by simpa using h⟩
  · exact Or.inr ⟨h, by simpa using hg⟩

theorem foldPlacement_inters (l : Link) (s : Mol × List Int) (ps : List Map) (e : String × Inter)
    (h : e ∈ (ps.foldl (applyPlacement l) s).1.inters) :
    e ∈ s.1.inters ∨ ∃ mp ∈ ps, ∃ a ∈ l.inters, e = (a.1, buildInter mp a.2) := by
  induction ps generalizing s with
  | nil => exact Or.inl h
  | cons mp rest ih =>
    rw [List.foldl_cons] at h
    rcases ih _ h with h | ⟨mp', hmp', hr⟩
    · rcases applyPlacement_inters _ _ _ _ h with h | h
      · exact Or.inl h
      · exact Or.inr ⟨mp, List.mem_cons_self, h⟩
    · exact Or.inr ⟨mp', List.mem_cons_of_mem _ hmp', hr⟩

theorem dropNodes_inters (m : Mol) (ks : List Int) (e : String × Inter)
    (h : e ∈ (m.dropNodes ks).inters) : e ∈ m.inters := by
  simp only [Mol.dropNodes] at h
  exact (List.mem_filter.1 h).1

theorem applyLinkWith_inters (l : Link) (s : Mol × List Int) (ps : List Map) (e : String × Inter)
    (h : e ∈ (applyLinkWith l s ps).1.inters) :
    e ∈ s.1.inters ∨ ∃ mp ∈ ps, ∃ a ∈ l.inters, e = (a.1, buildInter mp a.2) := by
  simp only [applyLinkWith] at h
  exact foldPlacement_inters _ _ _ _ (dropNodes_inters _ _ _ h)

/-- `e` is justified by some link of the list: it is the image of one of its interactions under a
placement that `matchLink` yields on the molecule as it is when that link is applied -/
def JustifiedFrom : Mol × List Int → List Link → List (List Map) → (String × Inter) → Prop
  | _, [], _, _ => False
  | s, l :: ls, gs, e =>
    (∃ mp ∈ matchLink s.1 l, ∃ a ∈ l.inters, e = (a.1, buildInter mp a.2)) ∨
    JustifiedFrom (applyLinkWith l s (orderAs (gs.headD []) (matchLink s.1 l))) ls gs.tail e

theorem applyLinksFrom_inters (s : Mol × List Int) (links : List Link) (gs : List (List Map))
    (e : String × Inter) (h : e ∈ (applyLinksFrom s links gs).1.inters) :
    e ∈ s.1.inters ∨ JustifiedFrom s links gs e := by
  induction links generalizing s gs with
  | nil => exact Or.inl h
  | cons l ls ih =>
    simp only [applyLinksFrom] at h
    rcases ih _ _ h with h | h
    · rcases applyLinkWith_inters _ _ _ _ h with h | ⟨mp, hmp, hr⟩
      · exact Or.inl h
      · exact Or.inr (Or.inl ⟨mp, orderAs_subset _ _ _ hmp, hr⟩)
    · exact Or.inr (Or.inr h)

theorem nothing_unjustified (m : Mol) (links : List Link) (given : List (List Map))
    (e : String × Inter) (h : e ∈ (applyLinks m links given).inters) :
    e ∈ m.inters ∨ JustifiedFrom (m, []) links given e :=
  applyLinksFrom_inters (m, []) links given e h

/-! ### the exception-aware variant agrees with the plain one whenever it returns -/

theorem matchLinkE_eq (m : Mol) (l : Link) (ps : List Map) (h : matchLinkE m l = some ps) :
    ps = matchLink m l := by
  unfold matchLinkE at h
  unfold matchLink
  split at h
  · next hc =>
    simp only [hc, if_true]
    dsimp only at h
    split at h
    · cases h
    · exact (Option.some.inj h).symm
  · next hc =>
    simp only [hc]
    exact (Option.some.inj h).symm

theorem applyLinksFromE_eq (s : Mol × List Int) (links : List Link) (gs : List (List Map))
    (r : Mol × List Int) (h : applyLinksFromE s links gs = some r) :
    r = applyLinksFrom s links gs := by
  induction links generalizing s gs with
  | nil => simp only [applyLinksFromE] at h; exact (Option.some.inj h).symm
  | cons l ls ih =>
    simp only [applyLinksFromE] at h
    split at h
    · cases h
    · next ps hps =>
      rw [matchLinkE_eq _ _ _ hps] at h
      simp only [applyLinksFrom]
      exact ih _ _ h

theorem applyLinksE_eq (m : Mol) (links : List Link) (given : List (List Map)) (r : Mol)
    (h : applyLinksE m links given = some r) : r = applyLinks m links given := by
  unfold applyLinksE at h
  unfold applyLinks
  cases hs : applyLinksFromE (m, []) links given with
  | none => simp [hs] at h
  | some s =>
    simp only [hs, Option.map_some, Option.some.injEq] at h
    rw [← applyLinksFromE_eq _ _ _ _ hs]
    exact h.symm

/-! ### every interaction of the link is present right after its placement -/

theorem applyAdded_inters_eq (mp : Map) (cites : List String) (m : Mol) (adds : List (String × Inter)) :
    (applyAdded mp cites m adds).inters =
      addAll m.inters (adds.map fun a => (a.1, buildInter mp a.2)) := by
  induction adds generalizing m with
  | nil => rfl
  | cons a rest ih =>
    simp only [applyAdded, List.foldl_cons, List.map_cons, addAll_cons]
    exact ih _

theorem addAll_present (t : Table) (adds : List (String × Inter)) (x : String × Inter)
    (h : x ∈ adds) : keyOf x ∈ tableKeys (addAll t adds) := by
  induction adds generalizing t with
  | nil => cases h
  | cons y ys ih =>
    rw [addAll_cons]
    rcases List.mem_cons.1 h with h | h
    · subst h; exact addAll_key_mono _ _ _ (addOrReplace_key_self t x)
    · exact ih _ h

theorem applyPlacement_present (l : Link) (s : Mol × List Int) (mp : Map) (a : String × Inter)
    (ha : a ∈ l.inters) :
    keyOf (a.1, buildInter mp a.2) ∈ tableKeys (applyPlacement l s mp).1.inters := by
  simp only [applyPlacement, applyAdded_inters_eq]
  exact addAll_present _ _ _ (List.mem_map_of_mem (f := fun a => (a.1, buildInter mp a.2)) ha)

/-- the value stored for a link interaction after its placement is the one built from the LAST
interaction of the link with that identity -/
theorem applyPlacement_get (l : Link) (s : Mol × List Int) (mp : Map) (k : Key) :
    tableGet (applyPlacement l s mp).1.inters k =
      match (l.inters.map fun a => (a.1, buildInter mp a.2)).reverse.find? (fun x => keyOf x == k) with
      | some x => some x.2
      | none => tableGet (applyRemoved mp (applyReplace mp l.nodes s).1 l.removed).inters k := by
  simp only [applyPlacement, applyAdded_inters_eq]
  exact later_overrides _ _ _

/-- distinct identities are an invariant of a placement -/
theorem applyPlacement_nodup (l : Link) (s : Mol × List Int) (mp : Map)
    (h : (tableKeys s.1.inters).Nodup) : (tableKeys (applyPlacement l s mp).1.inters).Nodup := by
  simp only [applyPlacement, applyAdded_inters_eq]
  apply addAll_nodup
  have hsub : ∀ (m : Mol) (dels : List (String × LDel)),
      (applyRemoved mp m dels).inters.Sublist m.inters := by
    intro m dels
    induction dels generalizing m with
    | nil => exact List.Sublist.refl _
    | cons d rest ih =>
      simp only [applyRemoved, List.foldl_cons]
      exact (ih _).trans (removeMatching_sublist _ _ _ _)
  have := (hsub (applyReplace mp l.nodes s).1 l.removed).map keyOf
  rw [applyReplace_inters] at this
  exact h.sublist this

/-! ## concrete instances -/

private def i1 : Inter := { atoms := [1, 2], params := [.lit "a"], md := [] }
private def i1' : Inter := { atoms := [1, 2], params := [.lit "b"], md := [] }
private def i1v : Inter := { atoms := [1, 2], params := [.lit "c"], md := [("version", .int 1)] }
private def i2 : Inter := { atoms := [2, 3], params := [.lit "d"], md := [] }

/-- replacing the first of two entries keeps the order -/
example : addOrReplace [("bonds", i1), ("bonds", i2)] ("bonds", i1') = [("bonds", i1'), ("bonds", i2)] := by
  decide

/-- a different version is a different identity: two entries -/
example : addOrReplace [("bonds", i1), ("bonds", i2)] ("bonds", i1v) =
    [("bonds", i1), ("bonds", i2), ("bonds", i1v)] := by decide

/-- the same atoms under another type are a different identity; the last addition wins -/
example : addAll [("bonds", i1)] [("angles", i1), ("bonds", i1'), ("bonds", i1)] =
    [("bonds", i1), ("angles", i1)] := by decide

/-- removal deletes the first match of that type only -/
example : removeMatching (fun _ => []) [("angles", i1), ("bonds", i1), ("bonds", i2), ("bonds", i1v)] "bonds"
    { atoms := [1, 2], params := [], atomAttrs := none, md := [] } =
    [("angles", i1), ("bonds", i2), ("bonds", i1v)] := by decide

end C05
