import VermouthModel.C01_Mod
/-! C01 — `cover`: the chosen options lie inside the group and together cover it. -/
namespace C01

theorem mem_removeEach_sub (o tc : List String) (x : String) (h : x ∈ removeEach tc o) : x ∈ tc := by
  unfold removeEach at h
  induction o generalizing tc with
  | nil => exact h
  | cons y o ih =>
    simp only [List.foldl_cons] at h
    exact List.mem_of_mem_erase (ih _ h)

theorem mem_or_removeEach (o tc : List String) (x : String) (h : x ∈ tc) : x ∈ o ∨ x ∈ removeEach tc o := by
  unfold removeEach
  induction o generalizing tc with
  | nil => exact Or.inr h
  | cons y o ih =>
    by_cases hxy : x = y
    · exact Or.inl (by rw [hxy]; exact List.mem_cons_self)
    · have : x ∈ tc.erase y := (List.mem_erase_of_ne hxy).2 h
      rcases ih _ this with h' | h'
      · exact Or.inl (List.mem_cons_of_mem _ h')
      · exact Or.inr (by simpa using h')

/-- the options chosen are options, each lies inside the group, and every name of the group is in
a chosen option -/
def Covers (tc : List String) (opts l : List (List String)) : Prop :=
  (∀ o ∈ l, o ∈ opts ∧ ∀ x ∈ o, x ∈ tc) ∧ (∀ x ∈ tc, ∃ o ∈ l, x ∈ o)

theorem coverGo_covers (rec : List String → List (List String) → Option (List (List String)))
    (hrec : ∀ tc' opts' l', rec tc' opts' = some l' → Covers tc' opts' l')
    (tc : List String) (sfx : List (List String)) (l : List (List String))
    (h : coverGo rec tc sfx = some l) : Covers tc sfx l := by
  induction sfx with
  | nil => cases h
  | cons o rest ih =>
    unfold coverGo at h
    have weaken : Covers tc rest l → Covers tc (o :: rest) l := fun hc =>
      ⟨fun o' ho' => ⟨List.mem_cons_of_mem _ (hc.1 o' ho').1, (hc.1 o' ho').2⟩, hc.2⟩
    by_cases hall : (o.all fun x => tc.contains x) = true
    · rw [if_pos hall] at h
      cases hr : rec (removeEach tc o) (o :: rest) with
      | none => rw [hr] at h; exact weaken (ih h)
      | some found =>
        rw [hr] at h
        simp only [Option.some.injEq] at h
        subst h
        obtain ⟨c1, c2⟩ := hrec _ _ _ hr
        constructor
        · intro o' ho'
          rcases List.mem_cons.1 ho' with rfl | ho'
          · refine ⟨List.mem_cons_self, ?_⟩
            intro x hx
            have := List.all_eq_true.1 hall x hx
            simpa using this
          · exact ⟨(c1 o' ho').1, fun x hx => mem_removeEach_sub o tc x ((c1 o' ho').2 x hx)⟩
        · intro x hx
          rcases mem_or_removeEach o tc x hx with h' | h'
          · exact ⟨o, List.mem_cons_self, h'⟩
          · obtain ⟨o', ho', hxo'⟩ := c2 x h'
            exact ⟨o', List.mem_cons_of_mem _ ho', hxo'⟩
    · rw [if_neg hall] at h
      exact weaken (ih h)

theorem cover_covers (n : Nat) (tc : List String) (opts l : List (List String))
    (h : cover n tc opts = some l) : Covers tc opts l := by
  induction n generalizing tc opts l with
  | zero =>
    unfold cover at h
    split at h
    · rename_i he
      cases h
      have : tc = [] := by simpa using he
      subst this
      exact ⟨by simp, by simp⟩
    · cases h
  | succ n ih =>
    unfold cover at h
    split at h
    · rename_i he
      cases h
      have : tc = [] := by simpa using he
      subst this
      exact ⟨by simp, by simp⟩
    · exact coverGo_covers (cover n) ih tc opts l h

end C01
