import VermouthModel.C03_Sort
import VermouthProofs.C03
/-! Helper lemmas for `SortMoleculeAtoms`: the insertion sort, the order on sort keys. -/
namespace C03

/-! ### generic stable insertion sort -/

theorem insBy_perm {α} (le : α → α → Bool) (x : α) (l : List α) : (insBy le x l).Perm (x :: l) := by
  induction l with
  | nil => exact List.Perm.refl _
  | cons y ys ih =>
    simp only [insBy]
    split
    · exact List.Perm.refl _
    · exact (List.Perm.cons y ih).trans (List.Perm.swap x y ys)

theorem insSortBy_perm {α} (le : α → α → Bool) (l : List α) : (insSortBy le l).Perm l := by
  induction l with
  | nil => exact List.Perm.refl _
  | cons x xs ih => exact (insBy_perm le x _).trans (List.Perm.cons x ih)

theorem mem_insSortBy {α} (le : α → α → Bool) (l : List α) (a : α) : a ∈ insSortBy le l ↔ a ∈ l :=
  (insSortBy_perm le l).mem_iff

theorem insBy_sorted {α} (le : α → α → Bool)
    (htrans : ∀ a b c, le a b = true → le b c = true → le a c = true)
    (htotal : ∀ a b, le a b = false → le b a = true) (x : α) (l : List α)
    (h : l.Pairwise (fun a b => le a b = true)) : (insBy le x l).Pairwise (fun a b => le a b = true) := by
  induction l with
  | nil => simp [insBy]
  | cons y ys ih =>
    rw [List.pairwise_cons] at h
    simp only [insBy]
    split
    · rename_i hle
      rw [List.pairwise_cons]
      refine ⟨?_, List.pairwise_cons.mpr h⟩
      intro z hz
      rcases List.mem_cons.mp hz with rfl | hz
      · exact hle
      · exact htrans _ _ _ hle (h.1 z hz)
    · rename_i hnle
      rw [List.pairwise_cons]
      refine ⟨?_, ih h.2⟩
      intro z hz
      rcases List.mem_cons.mp ((insBy_perm le x ys).mem_iff.mp hz) with rfl | hz
      · exact htotal _ _ (by simpa using hnle)
      · exact h.1 z hz

theorem insSortBy_sorted {α} (le : α → α → Bool)
    (htrans : ∀ a b c, le a b = true → le b c = true → le a c = true)
    (htotal : ∀ a b, le a b = false → le b a = true) (l : List α) :
    (insSortBy le l).Pairwise (fun a b => le a b = true) := by
  induction l with
  | nil => exact List.Pairwise.nil
  | cons x xs ih => exact insBy_sorted le htrans htotal x _ ih

/-- stability: elements that the order does not separate keep their relative order -/
theorem insBy_filter {α} (le : α → α → Bool) (p : α → Bool) (x : α) (l : List α)
    (hx : p x = true → ∀ y ∈ l, p y = true → le x y = true) :
    (insBy le x l).filter p = (x :: l).filter p := by
  induction l with
  | nil => rfl
  | cons y ys ih =>
    simp only [insBy]
    split
    · rfl
    · rename_i hnle
      have ih' := ih (fun hp z hz hpz => hx hp z (by simp [hz]) hpz)
      by_cases hpx : p x = true
      · by_cases hpy : p y = true
        · exact absurd (hx hpx y (by simp) hpy) hnle
        · simp only [List.filter_cons, hpy, hpx, if_true] at ih' ⊢
          simpa using ih'
      · simp only [List.filter_cons, hpx] at ih' ⊢
        simp only [Bool.false_eq_true, if_false] at ih' ⊢
        rw [ih']

theorem insBy_map {α β} (le : α → α → Bool) (le' : β → β → Bool) (f : α → β) (x : α) (l : List α)
    (h : ∀ y ∈ l, le x y = le' (f x) (f y)) :
    (insBy le x l).map f = insBy le' (f x) (l.map f) := by
  induction l with
  | nil => rfl
  | cons y ys ih =>
    simp only [insBy, List.map_cons, ← h y (by simp)]
    split
    · rfl
    · simp only [List.map_cons, ih (fun z hz => h z (by simp [hz]))]

/-- sorting commutes with a map that respects the order on the elements of the list -/
theorem insSortBy_map {α β} (le : α → α → Bool) (le' : β → β → Bool) (f : α → β) (l : List α)
    (h : ∀ x ∈ l, ∀ y ∈ l, le x y = le' (f x) (f y)) :
    (insSortBy le l).map f = insSortBy le' (l.map f) := by
  induction l with
  | nil => rfl
  | cons x xs ih =>
    simp only [insSortBy, List.map_cons]
    rw [insBy_map le le' f x _ (fun y hy => h x (by simp) y (by
      have := (mem_insSortBy le xs y).mp hy
      simp [this]))]
    rw [ih (fun a ha b hb => h a (by simp [ha]) b (by simp [hb]))]

/-! ### the order on sort keys is a strict total order -/

theorem natsLt_irrefl (a : List Nat) : natsLt a a = false := by
  induction a with
  | nil => rfl
  | cons x xs ih => simp [natsLt, ih]

theorem natsLt_trans : ∀ (a b c : List Nat), natsLt a b = true → natsLt b c = true → natsLt a c = true
  | [], [], _, h, _ => by simp [natsLt] at h
  | [], _ :: _, [], _, h => by simp [natsLt] at h
  | [], _ :: _, _ :: _, _, _ => by simp [natsLt]
  | _ :: _, [], _, h, _ => by simp [natsLt] at h
  | _ :: _, _ :: _, [], _, h => by simp [natsLt] at h
  | x :: xs, y :: ys, z :: zs, h1, h2 => by
      simp only [natsLt, Bool.or_eq_true, decide_eq_true_eq, Bool.and_eq_true, beq_iff_eq] at h1 h2 ⊢
      rcases h1 with h1 | ⟨e1, h1⟩ <;> rcases h2 with h2 | ⟨e2, h2⟩
      · left; omega
      · left; omega
      · left; omega
      · right; exact ⟨by omega, natsLt_trans xs ys zs h1 h2⟩

theorem natsLt_tri : ∀ (a b : List Nat), natsLt a b = true ∨ a = b ∨ natsLt b a = true
  | [], [] => Or.inr (Or.inl rfl)
  | [], _ :: _ => Or.inl rfl
  | _ :: _, [] => Or.inr (Or.inr rfl)
  | x :: xs, y :: ys => by
      simp only [natsLt, Bool.or_eq_true, decide_eq_true_eq, Bool.and_eq_true, beq_iff_eq, List.cons.injEq]
      rcases Nat.lt_trichotomy x y with h | h | h
      · left; left; exact h
      · rcases natsLt_tri xs ys with t | t | t
        · left; right; exact ⟨h, t⟩
        · right; left; exact ⟨h, t⟩
        · right; right; right; exact ⟨h.symm, t⟩
      · right; right; left; exact h

theorem sLt_irrefl (a : SKey) : sLt a a = false := by
  cases a <;> simp [sLt, SKey.rank, natsLt_irrefl]

theorem sLt_trans (a b c : SKey) (h1 : sLt a b = true) (h2 : sLt b c = true) : sLt a c = true := by
  cases a <;> cases b <;> cases c <;> simp_all [sLt, SKey.rank]
  · omega
  · exact natsLt_trans _ _ _ h1 h2

theorem sLt_tri (a b : SKey) : sLt a b = true ∨ a = b ∨ sLt b a = true := by
  cases a <;> cases b <;> simp [sLt, SKey.rank]
  · omega
  · rename_i x y
    rcases natsLt_tri x y with h | h | h
    · exact Or.inl h
    · exact Or.inr (Or.inl h)
    · exact Or.inr (Or.inr h)

theorem lexLt_irrefl (a : List SKey) : lexLt a a = false := by
  induction a with
  | nil => rfl
  | cons x xs ih => simp [lexLt, ih, sLt_irrefl]

theorem lexLt_trans : ∀ (a b c : List SKey), lexLt a b = true → lexLt b c = true → lexLt a c = true
  | [], [], _, h, _ => by simp [lexLt] at h
  | [], _ :: _, [], _, h => by simp [lexLt] at h
  | [], _ :: _, _ :: _, _, _ => by simp [lexLt]
  | _ :: _, [], _, h, _ => by simp [lexLt] at h
  | _ :: _, _ :: _, [], _, h => by simp [lexLt] at h
  | x :: xs, y :: ys, z :: zs, h1, h2 => by
      simp only [lexLt, Bool.or_eq_true, Bool.and_eq_true, beq_iff_eq] at h1 h2 ⊢
      rcases h1 with h1 | ⟨e1, h1⟩ <;> rcases h2 with h2 | ⟨e2, h2⟩
      · left; exact sLt_trans _ _ _ h1 h2
      · left; rw [← e2]; exact h1
      · left; rw [e1]; exact h2
      · right; exact ⟨e1.trans e2, lexLt_trans xs ys zs h1 h2⟩

theorem lexLt_tri : ∀ (a b : List SKey), lexLt a b = true ∨ a = b ∨ lexLt b a = true
  | [], [] => Or.inr (Or.inl rfl)
  | [], _ :: _ => Or.inl rfl
  | _ :: _, [] => Or.inr (Or.inr rfl)
  | x :: xs, y :: ys => by
      simp only [lexLt, Bool.or_eq_true, Bool.and_eq_true, beq_iff_eq, List.cons.injEq]
      rcases sLt_tri x y with h | h | h
      · left; left; exact h
      · rcases lexLt_tri xs ys with t | t | t
        · left; right; exact ⟨h, t⟩
        · right; left; exact ⟨h, t⟩
        · right; right; right; exact ⟨h.symm, t⟩
      · right; right; left; exact h

theorem lexLt_asymm (a b : List SKey) (h : lexLt a b = true) : lexLt b a = false := by
  cases hb : lexLt b a with
  | false => rfl
  | true =>
    have := lexLt_trans a b a h hb
    rw [lexLt_irrefl] at this
    cases this

theorem sortLe_trans (attrs : List String) (a b c : Atom) (h1 : sortLe attrs a b = true)
    (h2 : sortLe attrs b c = true) : sortLe attrs a c = true := by
  unfold sortLe at *
  simp only [Bool.not_eq_true'] at *
  -- ¬ kb < ka, ¬ kc < kb ⊢ ¬ kc < ka
  cases hca : lexLt (sortKey attrs c) (sortKey attrs a) with
  | false => rfl
  | true =>
    rcases lexLt_tri (sortKey attrs b) (sortKey attrs a) with t | t | t
    · rw [t] at h1; cases h1
    · rw [t] at h2; rw [hca] at h2; cases h2
    · have := lexLt_trans _ _ _ hca t
      rw [this] at h2; cases h2

theorem sortLe_total (attrs : List String) (a b : Atom) (h : sortLe attrs a b = false) : sortLe attrs b a = true := by
  unfold sortLe at *
  simp only [Bool.not_eq_false', Bool.not_eq_true'] at *
  exact lexLt_asymm _ _ h

/-! ### classes of a prefix of the key are intervals of the order -/

theorem lexLt_take_convex : ∀ (n : Nat) (a b c : List SKey), lexLt b a = false → lexLt c b = false →
    a.take n = c.take n → b.take n = a.take n
  | 0, _, _, _, _, _, _ => by simp
  | n + 1, [], b, c, h1, h2, h3 => by
      cases c with
      | cons z zs => simp at h3
      | nil =>
        cases b with
        | nil => rfl
        | cons y ys => simp [lexLt] at h2
  | n + 1, x :: xs, b, c, h1, h2, h3 => by
      cases c with
      | nil => simp at h3
      | cons z zs =>
        simp only [List.take_succ_cons, List.cons.injEq] at h3
        obtain ⟨hxz, htl⟩ := h3
        subst hxz
        cases b with
        | nil => simp [lexLt] at h1
        | cons y ys =>
          simp only [lexLt, Bool.or_eq_false_iff, Bool.and_eq_false_imp, beq_iff_eq] at h1 h2
          have hyx : y = x := by
            rcases sLt_tri y x with t | t | t
            · rw [t] at h1; cases h1.1
            · exact t
            · rw [t] at h2; cases h2.1
          subst hyx
          simp only [List.take_succ_cons, List.cons.injEq, true_and]
          exact lexLt_take_convex n xs ys zs (h1.2 rfl) (h2.2 rfl) htl

theorem sortKey_take (n : Nat) (attrs : List String) (a : Atom) :
    (sortKey attrs a).take n = sortKey (attrs.take n) a := by
  unfold sortKey
  rw [List.map_take]

/-- three positions i < j < k of a sorted list: entries -/
theorem pairwise_get {α} (R : α → α → Prop) (l : List α) (h : l.Pairwise R) (i j : Nat) (a b : α)
    (hij : i < j) (ha : l[i]? = some a) (hb : l[j]? = some b) : R a b := by
  rw [List.pairwise_iff_getElem] at h
  obtain ⟨hi, rfl⟩ := List.getElem?_eq_some_iff.mp ha
  obtain ⟨hj, rfl⟩ := List.getElem?_eq_some_iff.mp hb
  exact h i j hi hj hij

/-! ### renumbering -/

theorem renumber_length (k : String) (s : Nat) (l : List Atom) : (renumber k s l).length = l.length := by
  induction l generalizing s with
  | nil => rfl
  | cons a r ih => simp [renumber, ih]

theorem renumber_keys (k : String) (s : Nat) (l : List Atom) : (renumber k s l).map (·.key) = l.map (·.key) := by
  induction l generalizing s with
  | nil => rfl
  | cons a r ih => simp [renumber, ih]

theorem find_setAttr_same (k : String) (v : Val) (l : List (String × Val)) :
    (setAttr k v l).find? (fun p => p.1 == k) = some (k, v) := by
  induction l with
  | nil => simp [setAttr]
  | cons p r ih =>
    obtain ⟨k', v'⟩ := p
    simp only [setAttr]
    split
    · simp
    · rename_i hne
      split
      · simp
      · have : (k' == k) = false := by simpa using hne
        simp [List.find?_cons, this, ih]

theorem find_setAttr_other (k k₂ : String) (v : Val) (l : List (String × Val)) (h : k₂ ≠ k) :
    (setAttr k v l).find? (fun p => p.1 == k₂) = l.find? (fun p => p.1 == k₂) := by
  have hk : (k == k₂) = false := by simpa using h.symm
  induction l with
  | nil => simp [setAttr, List.find?_cons, hk]
  | cons p r ih =>
    obtain ⟨k', v'⟩ := p
    simp only [setAttr]
    split
    · rename_i he
      subst he
      simp [List.find?_cons, hk]
    · split
      · simp [List.find?_cons, hk]
      · simp only [List.find?_cons, ih]

theorem getAttr_setAttr_same (a : Atom) (k : String) (v : Val) :
    getAttr { a with attrs := setAttr k v a.attrs } k = v := by
  simp [getAttr, find_setAttr_same]

theorem getAttr_setAttr_other (a : Atom) (k k₂ : String) (v : Val) (h : k₂ ≠ k) :
    getAttr { a with attrs := setAttr k v a.attrs } k₂ = getAttr a k₂ := by
  simp [getAttr, find_setAttr_other k k₂ v a.attrs h]

/-- after renumbering, the atom ids are `start, start+1, ...` in node order -/
theorem renumber_atomids (s : Nat) (l : List Atom) :
    (renumber "atomid" s l).map atomidOf = (List.range' s l.length).map fun (i : Nat) => (some (Int.ofNat i) : Option Int) := by
  induction l generalizing s with
  | nil => rfl
  | cons a r ih =>
    simp only [renumber, List.map_cons, List.length_cons, List.range'_succ, ih]
    simp [atomidOf, getAttr_setAttr_same]

/-- a list whose atom ids increase is its own `sorted_nodes` -/
theorem sortedNodes_of_sorted (l : List Atom) (h : l.Pairwise (fun a b => keyLe (atomidOf a) (atomidOf b) = true)) :
    sortedNodes l = l := by
  induction l with
  | nil => rfl
  | cons x xs ih =>
    rw [List.pairwise_cons] at h
    simp only [sortedNodes, ih h.2]
    cases xs with
    | nil => rfl
    | cons y ys => simp [insertAtom, h.1 y (by simp)]

theorem pairwise_of_map_range (l : List Atom) (s : Nat)
    (h : l.map atomidOf = (List.range' s l.length).map fun (i : Nat) => (some (Int.ofNat i) : Option Int)) :
    l.Pairwise (fun a b => keyLe (atomidOf a) (atomidOf b) = true) := by
  induction l generalizing s with
  | nil => exact List.Pairwise.nil
  | cons a r ih =>
    simp only [List.map_cons, List.length_cons, List.range'_succ, List.cons.injEq] at h
    rw [List.pairwise_cons]
    refine ⟨?_, ih (s + 1) h.2⟩
    intro b hb
    have hb' : atomidOf b ∈ r.map atomidOf := List.mem_map.mpr ⟨b, hb, rfl⟩
    rw [h.2] at hb'
    obtain ⟨i, hi, hib⟩ := List.mem_map.mp hb'
    rw [List.mem_range'_1] at hi
    rw [h.1, ← hib]
    simp only [keyLe, decide_eq_true_eq, Int.ofNat_eq_natCast]
    omega

end C03
