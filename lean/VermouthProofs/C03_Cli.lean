import VermouthModel.C03_Cli
/-! Helper lemmas for the step model of martinize2. -/
namespace C03

def editMols (f : Nat → Mol → Mol) : Nat → List Mol → List Mol
  | _, [] => []
  | i, m :: rest => f i m :: editMols f (i + 1) rest

theorem editAll_zip (f : Nat → Mol → Mol) : ∀ (i : Nat) (mols : List Mol) (ns : List (Option Nat)),
    editAll f i (mols.zip ns) = (editMols f i mols).zip ns
  | _, [], _ => rfl
  | _, _ :: _, [] => rfl
  | i, m :: ms, n :: ns => by simp [editAll, editMols, editAll_zip f (i + 1) ms ns]

theorem editMols_length (f : Nat → Mol → Mol) : ∀ (i : Nat) (mols : List Mol), (editMols f i mols).length = mols.length
  | _, [] => rfl
  | i, _ :: ms => by simp [editMols, editMols_length f (i + 1) ms]

theorem editMols_get (f : Nat → Mol → Mol) : ∀ (i : Nat) (mols : List Mol) (p : Nat),
    (editMols f i mols)[p]? = (mols[p]?).map (f (i + p))
  | _, [], _ => rfl
  | i, m :: ms, 0 => by simp [editMols]
  | i, m :: ms, p + 1 => by
      simp only [editMols, List.getElem?_cons_succ, editMols_get f (i + 1) ms p]
      congr 2; omega

theorem runSteps_append (shares : Mol → Mol → Bool) (st : CliState) (a b : List Step) :
    runSteps shares st (a ++ b) = runSteps shares (runSteps shares st a) b := by
  simp [runSteps, List.foldl_append]

end C03
