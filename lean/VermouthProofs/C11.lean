import VermouthModel.C11
/-!
Helper lemmas for C11: the order combinators are total orders, sorting with a total order is a
canonical form of the multiset, `find?` of a uniquely satisfied predicate is permutation invariant.
Core Lean only.
-/
namespace C11

/-- `le` is a total order (reflexivity follows from totality) -/
structure Good {α : Type} (le : α → α → Bool) : Prop where
  total : ∀ a b, (le a b || le b a) = true
  trans : ∀ a b c, le a b = true → le b c = true → le a c = true
  antisymm : ∀ a b, le a b = true → le b a = true → a = b

theorem good_natLe : Good natLe where
  total a b := by simp [natLe]; omega
  trans a b c := by simp [natLe]; omega
  antisymm a b := by simp [natLe]; omega

theorem good_intLe : Good intLe where
  total a b := by simp [intLe]; omega
  trans a b c := by simp [intLe]; omega
  antisymm a b := by simp [intLe]; omega

section lex
variable {α : Type} [DecidableEq α] {le : α → α → Bool}

theorem lexLe_cons_cons (a b : α) (as bs : List α) :
    lexLe le (a :: as) (b :: bs) = if a = b then lexLe le as bs else le a b := rfl

theorem lexLe_total (h : Good le) : ∀ l1 l2 : List α, (lexLe le l1 l2 || lexLe le l2 l1) = true
  | [], _ => by simp [lexLe]
  | _ :: _, [] => by simp [lexLe]
  | a :: as, b :: bs => by
    rw [lexLe_cons_cons, lexLe_cons_cons]
    by_cases hab : a = b
    · subst hab
      simpa using lexLe_total h as bs
    · have hba : ¬ b = a := fun e => hab e.symm
      rw [if_neg hab, if_neg hba]
      exact h.total a b

theorem lexLe_trans (h : Good le) : ∀ l1 l2 l3 : List α,
    lexLe le l1 l2 = true → lexLe le l2 l3 = true → lexLe le l1 l3 = true
  | [], _, _ => by intros; simp [lexLe]
  | _ :: _, [], _ => by intro h1; simp [lexLe] at h1
  | _ :: _, _ :: _, [] => by intro _ h2; simp [lexLe] at h2
  | a :: as, b :: bs, c :: cs => by
    rw [lexLe_cons_cons, lexLe_cons_cons, lexLe_cons_cons]
    intro h1 h2
    by_cases hab : a = b
    · subst hab
      rw [if_pos rfl] at h1
      by_cases hac : a = c
      · subst hac
        rw [if_pos rfl] at h2 ⊢
        exact lexLe_trans h as bs cs h1 h2
      · rw [if_neg hac] at h2 ⊢
        exact h2
    · rw [if_neg hab] at h1
      by_cases hbc : b = c
      · subst hbc
        rw [if_neg hab]
        exact h1
      · rw [if_neg hbc] at h2
        by_cases hac : a = c
        · subst hac
          exact absurd (h.antisymm a b h1 h2) hab
        · rw [if_neg hac]
          exact h.trans a b c h1 h2

theorem lexLe_antisymm (h : Good le) : ∀ l1 l2 : List α,
    lexLe le l1 l2 = true → lexLe le l2 l1 = true → l1 = l2
  | [], [] => by intros; rfl
  | [], _ :: _ => by intro _ h2; simp [lexLe] at h2
  | _ :: _, [] => by intro h1; simp [lexLe] at h1
  | a :: as, b :: bs => by
    rw [lexLe_cons_cons, lexLe_cons_cons]
    intro h1 h2
    by_cases hab : a = b
    · subst hab
      rw [if_pos rfl] at h1 h2
      rw [lexLe_antisymm h as bs h1 h2]
    · have hba : ¬ b = a := fun e => hab e.symm
      rw [if_neg hab] at h1
      rw [if_neg hba] at h2
      exact absurd (h.antisymm a b h1 h2) hab

theorem good_lexLe (h : Good le) : Good (lexLe le) :=
  ⟨lexLe_total h, lexLe_trans h, lexLe_antisymm h⟩

end lex

section prod
variable {α β : Type} [DecidableEq α] {le1 : α → α → Bool} {le2 : β → β → Bool}

theorem good_prodLe (h1 : Good le1) (h2 : Good le2) : Good (prodLe le1 le2) where
  total p q := by
    unfold prodLe
    by_cases e : p.1 = q.1
    · rw [if_pos e, if_pos e.symm]; exact h2.total _ _
    · rw [if_neg e, if_neg (fun x => e x.symm)]; exact h1.total _ _
  trans p q r := by
    unfold prodLe
    intro a b
    by_cases e1 : p.1 = q.1
    · rw [if_pos e1] at a
      by_cases e2 : q.1 = r.1
      · rw [if_pos e2] at b
        rw [if_pos (e1.trans e2)]
        exact h2.trans _ _ _ a b
      · rw [if_neg e2] at b
        rw [if_neg (fun x => e2 (e1 ▸ x)), e1]
        exact b
    · rw [if_neg e1] at a
      by_cases e2 : q.1 = r.1
      · rw [if_pos e2] at b
        rw [if_neg (fun x => e1 (x.trans e2.symm)), ← e2]
        exact a
      · rw [if_neg e2] at b
        by_cases e3 : p.1 = r.1
        · rw [← e3] at b
          exact absurd (h1.antisymm _ _ a b) e1
        · rw [if_neg e3]
          exact h1.trans _ _ _ a b
  antisymm p q := by
    unfold prodLe
    intro a b
    by_cases e : p.1 = q.1
    · rw [if_pos e] at a
      rw [if_pos e.symm] at b
      exact Prod.ext e (h2.antisymm _ _ a b)
    · rw [if_neg e] at a
      rw [if_neg (fun x => e x.symm)] at b
      exact absurd (h1.antisymm _ _ a b) e

end prod

theorem good_tokLe : Good tokLe := good_lexLe good_natLe
theorem good_identLe : Good identLe := good_prodLe good_intLe good_tokLe
theorem good_aRecLe : Good aRecLe := good_prodLe good_identLe (good_lexLe good_tokLe)
theorem good_idsLe : Good idsLe := good_lexLe (good_lexLe good_identLe)
theorem good_iRecLe : Good iRecLe :=
  good_prodLe good_tokLe (good_prodLe good_idsLe (good_lexLe good_tokLe))

/-! ## sorting with a total order is a canonical form of the multiset -/

theorem sort_eq_of_perm {α : Type} {le : α → α → Bool} (h : Good le) {l1 l2 : List α}
    (hp : l1.Perm l2) : l1.mergeSort le = l2.mergeSort le := by
  apply List.Perm.eq_of_pairwise (le := fun a b => le a b = true)
  · intro a b _ _ hab hba
    exact h.antisymm a b hab hba
  · exact List.pairwise_mergeSort (fun a b c => h.trans a b c) (fun a b => h.total a b) l1
  · exact List.pairwise_mergeSort (fun a b c => h.trans a b c) (fun a b => h.total a b) l2
  · exact (List.mergeSort_perm l1 le).trans (hp.trans (List.mergeSort_perm l2 le).symm)

theorem perm_of_sort_eq {α : Type} {le : α → α → Bool} {l1 l2 : List α}
    (h : l1.mergeSort le = l2.mergeSort le) : l1.Perm l2 :=
  (List.mergeSort_perm l1 le).symm.trans (h ▸ List.mergeSort_perm l2 le)

/-! ## `find?` and permutations -/

theorem find?_perm {α : Type} (p : α → Bool) {l1 l2 : List α} (hp : l1.Perm l2)
    (h : (l1.filter p).length ≤ 1) : l1.find? p = l2.find? p := by
  induction hp with
  | nil => rfl
  | cons x _ ih =>
    rw [List.find?_cons, List.find?_cons]
    cases hx : p x with
    | true => rfl
    | false =>
      simp only []
      apply ih
      simpa [List.filter_cons, hx] using h
  | swap x y l =>
    rw [List.find?_cons, List.find?_cons, List.find?_cons, List.find?_cons]
    cases hx : p x <;> cases hy : p y <;> simp only []
    simp [hx, hy] at h
  | trans h1 _ ih1 ih2 =>
    rw [ih1 h]
    apply ih2
    rw [← (h1.filter p).length_eq]
    exact h

theorem filter_key_le_one (l : List Atom) (hk : (l.map (·.key)).Nodup) (k : Int) :
    (l.filter (fun a => a.key == k)).length ≤ 1 := by
  induction l with
  | nil => simp
  | cons a l ih =>
    rw [List.map_cons, List.nodup_cons] at hk
    rw [List.filter_cons]
    cases ha : (a.key == k) with
    | false => simpa using ih hk.2
    | true =>
      have hak : a.key = k := by simpa using ha
      have : l.filter (fun a => a.key == k) = [] := by
        rw [List.filter_eq_nil_iff]
        intro b hb hbk
        have hbk' : b.key = k := by simpa using hbk
        apply hk.1
        rw [hak, ← hbk']
        exact List.mem_map_of_mem hb
      simp [this]

theorem ident_perm {l1 l2 : List Atom} (hp : l1.Perm l2) (hk : (l1.map (·.key)).Nodup) (k : Int) :
    ident l1 k = ident l2 k := by
  unfold ident
  rw [find?_perm _ hp (filter_key_le_one l1 hk k)]

theorem ident_rekey (ρ : Int → Int) (k : Int) (l : List Atom)
    (hinj : ∀ a ∈ l, ρ a.key = ρ k → a.key = k) :
    ident (l.map (Atom.rekey ρ)) (ρ k) = ident l k := by
  induction l with
  | nil => rfl
  | cons a l ih =>
    have ih' := ih (fun b hb => hinj b (List.mem_cons_of_mem _ hb))
    unfold ident at ih' ⊢
    rw [List.map_cons, List.find?_cons, List.find?_cons]
    by_cases hak : a.key = k
    · have h1 : ((Atom.rekey ρ a).key == ρ k) = true := by simp [Atom.rekey, hak]
      have h2 : (a.key == k) = true := by simp [hak]
      rw [h1, h2]
      rfl
    · have h1 : ((Atom.rekey ρ a).key == ρ k) = false := by
        have : ¬ ρ a.key = ρ k := fun e => hak (hinj a List.mem_cons_self e)
        simpa [Atom.rekey] using this
      have h2 : (a.key == k) = false := by simpa using hak
      rw [h1, h2]
      exact ih'

/-! ## orientation -/

theorem orient_reverse (ids : List (List Ident)) : orient true ids.reverse = orient true ids := by
  unfold orient
  simp only [if_true, List.reverse_reverse]
  cases h1 : idsLe ids ids.reverse <;> cases h2 : idsLe ids.reverse ids <;> simp only [if_true, if_false, Bool.false_eq_true]
  · have := good_idsLe.total ids ids.reverse
    simp [h1, h2] at this
  · exact (good_idsLe.antisymm _ _ h1 h2).symm

theorem orient_cases (s : Bool) (ids : List (List Ident)) :
    orient s ids = ids ∨ (s = true ∧ orient s ids = ids.reverse) := by
  unfold orient
  cases s
  · left; rfl
  · cases h : idsLe ids ids.reverse
    · right; refine ⟨rfl, ?_⟩; simp
    · left; simp

/-- two lists related element by element (core Lean has no `Forall2`) -/
inductive Forall2 {α β : Type} (R : α → β → Prop) : List α → List β → Prop
  | nil : Forall2 R [] []
  | cons {a : α} {b : β} {as : List α} {bs : List β} : R a b → Forall2 R as bs → Forall2 R (a :: as) (b :: bs)

/-! ## matching the elements of two lists whose images are permutations of each other -/

theorem exists_perm_forall₂ {α β γ : Type} (f : α → γ) (g : β → γ) :
    ∀ (l1 : List α) (l2 : List β), (l1.map f).Perm (l2.map g) →
      ∃ l, l2.Perm l ∧ Forall2 (fun a b => f a = g b) l1 l
  | [], l2, h => by
    have : l2 = [] := by
      have := h.length_eq
      simpa using this.symm
    subst this
    exact ⟨[], List.Perm.refl _, Forall2.nil⟩
  | a :: l1, l2, h => by
    have hmem : f a ∈ l2.map g := h.subset (by simp)
    obtain ⟨b, hb, hgb⟩ := List.mem_map.mp hmem
    obtain ⟨s, t, rfl⟩ := List.append_of_mem hb
    have hperm : (s ++ b :: t).Perm (b :: (s ++ t)) := List.perm_middle
    have h' : (l1.map f).Perm ((s ++ t).map g) := by
      have h2 : (f a :: l1.map f).Perm (g b :: (s ++ t).map g) := by
        have := h.trans (hperm.map g)
        simpa using this
      rw [hgb] at h2
      exact h2.cons_inv
    obtain ⟨l, hl, hf⟩ := exists_perm_forall₂ f g l1 (s ++ t) h'
    exact ⟨b :: l, hperm.trans (hl.cons b), Forall2.cons hgb.symm hf⟩


theorem find?_of_nodup_map {α β : Type} [BEq β] [LawfulBEq β] (f : α → β) :
    ∀ (l : List α) (a : α), (l.map f).Nodup → a ∈ l → l.find? (fun x => f x == f a) = some a
  | [], _, _, h => by simp at h
  | x :: l, a, hn, h => by
    rw [List.map_cons, List.nodup_cons] at hn
    rw [List.find?_cons]
    by_cases hx : f x = f a
    · have : (f x == f a) = true := by simp [hx]
      rw [this]
      rcases List.mem_cons.mp h with rfl | hm
      · rfl
      · exact absurd (hx ▸ List.mem_map_of_mem hm) hn.1
    · have : (f x == f a) = false := by simp [hx]
      rw [this]
      rcases List.mem_cons.mp h with rfl | hm
      · exact absurd rfl hx
      · exact find?_of_nodup_map f l a hn.2 hm

def Atom.id (a : Atom) : Ident := (a.resid, a.name)

/-- index of the atom line with a given identity (first such line), 0 if there is none -/
def keyOf (as : List Atom) (i : Ident) : Int :=
  match as.find? (fun a => a.id == i) with
  | some a => a.key
  | none => 0

/-- the renumbering that carries the indices of `as` to those of `as'` through the identities -/
def transport (as as' : List Atom) (k : Int) : Int :=
  match ident as k with
  | [i] => keyOf as' i
  | _ => 0

theorem ident_of_mem {l : List Atom} (hk : (l.map (·.key)).Nodup) {a : Atom} (ha : a ∈ l) :
    ident l a.key = [a.id] := by
  unfold ident
  rw [find?_of_nodup_map (fun a => a.key) l a hk ha]
  rfl

theorem keyOf_of_mem {l : List Atom} (hid : (l.map Atom.id).Nodup) {a : Atom} (ha : a ∈ l) :
    keyOf l a.id = a.key := by
  unfold keyOf
  rw [find?_of_nodup_map Atom.id l a hid ha]

theorem transport_of_mem {as as' : List Atom} (hk : (as.map (·.key)).Nodup) (hid' : (as'.map Atom.id).Nodup)
    {a b : Atom} (ha : a ∈ as) (hb : b ∈ as') (e : a.id = b.id) : transport as as' a.key = b.key := by
  unfold transport
  rw [ident_of_mem hk ha]
  simp only []
  rw [e, keyOf_of_mem hid' hb]


theorem ids_transport {as as' : List Atom} (hk : (as.map (·.key)).Nodup) (hk' : (as'.map (·.key)).Nodup)
    (hid' : (as'.map Atom.id).Nodup) :
    ∀ (ks ks' : List Int), (∀ k ∈ ks, k ∈ as.map (·.key)) → (∀ k ∈ ks', k ∈ as'.map (·.key)) →
      ks.map (ident as) = ks'.map (ident as') → ks' = ks.map (transport as as')
  | [], [], _, _, _ => rfl
  | [], _ :: _, _, _, h => by simp at h
  | _ :: _, [], _, _, h => by simp at h
  | k :: ks, k' :: ks', hm, hm', h => by
    simp only [List.map_cons, List.cons.injEq] at h ⊢
    obtain ⟨a, ha, rfl⟩ := List.mem_map.mp (hm _ List.mem_cons_self)
    obtain ⟨b, hb, rfl⟩ := List.mem_map.mp (hm' _ List.mem_cons_self)
    rw [ident_of_mem hk ha, ident_of_mem hk' hb] at h
    have e : a.id = b.id := by simpa using h.1
    exact ⟨(transport_of_mem hk hid' ha hb e).symm,
      ids_transport hk hk' hid' ks ks' (fun k hk => hm k (List.mem_cons_of_mem _ hk))
        (fun k hk => hm' k (List.mem_cons_of_mem _ hk)) h.2⟩

theorem Forall2.imp_mem {α β : Type} {R S : α → β → Prop} {l1 : List α} {l2 : List β}
    (h : Forall2 R l1 l2) (himp : ∀ a ∈ l1, ∀ b ∈ l2, R a b → S a b) : Forall2 S l1 l2 := by
  induction h with
  | nil => exact Forall2.nil
  | cons hab _ ih =>
    exact Forall2.cons (himp _ List.mem_cons_self _ List.mem_cons_self hab)
      (ih (fun a ha b hb => himp a (List.mem_cons_of_mem _ ha) b (List.mem_cons_of_mem _ hb)))

end C11
