import VermouthModel.C01_Mod
import VermouthProofs.C01_Finish
/-! C01 — modification placements: what `apply_mod_mapping` records and what it leaves alone. -/
namespace C01
open C12

/-! ### without modification matches the merged loop is the block loop -/

theorem runAll_no_mods (n : Nat) (ps : List Placement) (st : St) (hn : ps.length ≤ n) :
    runAll n ps [] st = ps.foldl applyBlock st := by
  induction n generalizing ps st with
  | zero =>
    cases ps with
    | nil => rfl
    | cons p ps => simp at hn
  | succ n ih =>
    cases ps with
    | nil => rfl
    | cons p ps =>
      simp only [runAll, List.foldl_cons]
      exact ih ps _ (by simpa using hn)

/-! ### existing particles are left alone -/

theorem maxKey_ge (l : List Int) (M : Int) (h : maxKey l = some M) : ∀ x ∈ l, x ≤ M := by
  cases l with
  | nil => cases h
  | cons k rest =>
    simp only [maxKey, Option.some.injEq] at h
    subst h
    have key : ∀ (r : List Int) (acc : Int), acc ≤ r.foldl max acc ∧ ∀ x ∈ r, x ≤ r.foldl max acc := by
      intro r
      induction r with
      | nil => intro acc; exact ⟨Int.le_refl _, by simp⟩
      | cons y r ih =>
        intro acc
        obtain ⟨h1, h2⟩ := ih (max acc y)
        simp only [List.foldl_cons]
        refine ⟨by omega, ?_⟩
        intro x hx
        rcases List.mem_cons.1 hx with rfl | hx
        · omega
        · exact h2 x hx
    intro x hx
    rcases List.mem_cons.1 hx with rfl | hx
    · exact (key rest x).1
    · exact (key rest k).2 x hx

theorem addNode_fresh_nodes (m : Mol) (a : Attrs) :
    (m.addNode (if m.nodes.isEmpty then 0 else (maxKey m.keys).getD 0 + 1) a).nodes
      = m.nodes ++ [((if m.nodes.isEmpty then 0 else (maxKey m.keys).getD 0 + 1), a)] := by
  unfold Mol.addNode
  simp only
  apply upsert_fresh
  intro p hp
  have hne : m.nodes.isEmpty = false := by
    cases hm : m.nodes with
    | nil => rw [hm] at hp; cases hp
    | cons _ _ => rfl
  rw [hne]
  simp only [Bool.false_eq_true, if_false]
  have hk : p.1 ∈ m.keys := List.mem_map.2 ⟨p, hp, rfl⟩
  cases hM : maxKey m.keys with
  | none =>
    unfold Mol.keys at hM hk
    cases hl : m.nodes.map Prod.fst with
    | nil => rw [hl] at hk; cases hk
    | cons _ _ => rw [hl] at hM; simp [maxKey] at hM
  | some M =>
    have := maxKey_ge _ _ hM _ hk
    simp only [Option.getD_some]
    omega

theorem repl_apply_empty (a : Attrs) : ({} : Repl).apply a = a := by
  cases a; rfl

theorem updNode_eq_map (nodes : List (Int × Attrs)) (k : Int) (g : Attrs → Attrs) :
    updNode nodes k g = nodes.map (fun p => if p.1 = k then (p.1, g p.2) else p) := rfl

/-- the first loop of `apply_mod_mapping` on the particle table: existing particles keep their key
and position (their attributes change only through `replace` dictionaries: not at all when no node
of the modification has one), new particles are appended; edges and interactions untouched -/
theorem placeModNodes_prefix (st : St) (p : ModPlacement) (ns : List ModNode) (out out' : Mol)
    (m2o m2o' : List (Int × Int)) (h : placeModNodes st p ns out m2o = some (out', m2o')) :
    ∃ (f : Int × Attrs → Int × Attrs) (extra : List (Int × Attrs)),
      (∀ q, (f q).1 = q.1) ∧ out'.nodes = out.nodes.map f ++ extra
      ∧ ((∀ n ∈ ns, n.repl = {}) → ∀ q, f q = q)
      ∧ out'.edges = out.edges ∧ out'.inters = out.inters := by
  induction ns generalizing out m2o with
  | nil =>
    simp only [placeModNodes, Option.some.injEq, Prod.mk.injEq] at h
    obtain ⟨rfl, _⟩ := h
    exact ⟨id, [], fun _ => rfl, by simp, fun _ _ => rfl, rfl, rfl⟩
  | cons n ns ih =>
    unfold placeModNodes at h
    by_cases hn : n.isNew = true
    · rw [if_pos hn] at h
      obtain ⟨f, extra, hk, h1, hid, h2, h3⟩ := ih _ _ h
      rw [addNode_fresh_nodes] at h1
      refine ⟨f, f ((if out.nodes.isEmpty then 0 else (maxKey out.keys).getD 0 + 1), n.attrs) :: extra, hk, ?_,
        fun hr => hid (fun x hx => hr x (List.mem_cons_of_mem _ hx)), by rw [h2]; rfl, by rw [h3]; rfl⟩
      rw [h1, List.map_append, List.append_assoc]; rfl
    · rw [if_neg hn] at h
      split at h
      · cases h
      · split at h
        · cases h
        · rename_i k _
          obtain ⟨f, extra, hk, h1, hid, h2, h3⟩ := ih _ _ h
          refine ⟨fun q => f (if q.1 = k then (q.1, n.repl.apply q.2) else q), extra, ?_, ?_, ?_, h2, h3⟩
          · intro q
            rw [hk]
            split <;> rfl
          · rw [h1]
            simp only [updNode_eq_map, List.map_map]
            rfl
          · intro hr q
            show f (if q.1 = k then (q.1, n.repl.apply q.2) else q) = q
            rw [hid (fun x hx => hr x (List.mem_cons_of_mem _ hx))]
            rw [hr n List.mem_cons_self, repl_apply_empty]
            split <;> rfl

def ensureNode (m : Mol) (u : Int) : Mol :=
  if m.hasNode u then m else { m with nodes := m.nodes ++ [(u, ({} : Attrs))], maxNode := none }

theorem ensureNode_prefix (m : Mol) (u : Int) :
    (∃ extra, (ensureNode m u).nodes = m.nodes ++ extra) ∧ (ensureNode m u).inters = m.inters := by
  unfold ensureNode
  split
  · exact ⟨⟨[], by simp⟩, rfl⟩
  · exact ⟨⟨[(u, {})], rfl⟩, rfl⟩

theorem addEdge_eq (m : Mol) (u v : Int) :
    m.addEdge u v =
      (if (ensureNode (ensureNode m u) v).hasEdge u v then ensureNode (ensureNode m u) v
       else { ensureNode (ensureNode m u) v with edges := (ensureNode (ensureNode m u) v).edges ++ [(u, v)] }) := rfl

theorem addEdge_nodes_prefix (m : Mol) (u v : Int) :
    (∃ extra, (m.addEdge u v).nodes = m.nodes ++ extra) ∧ (m.addEdge u v).inters = m.inters := by
  rw [addEdge_eq]
  obtain ⟨⟨x1, h1⟩, i1⟩ := ensureNode_prefix m u
  obtain ⟨⟨x2, h2⟩, i2⟩ := ensureNode_prefix (ensureNode m u) v
  split
  · exact ⟨⟨x1 ++ x2, by rw [h2, h1]; simp⟩, by rw [i2, i1]⟩
  · exact ⟨⟨x1 ++ x2, by show (ensureNode (ensureNode m u) v).nodes = _; rw [h2, h1]; simp⟩,
      by show (ensureNode (ensureNode m u) v).inters = _; rw [i2, i1]⟩

theorem foldl_addEdge_prefix (es : List (Int × Int)) (m : Mol) :
    (∃ extra, (es.foldl (fun o e => o.addEdge e.1 e.2) m).nodes = m.nodes ++ extra)
    ∧ (es.foldl (fun o e => o.addEdge e.1 e.2) m).inters = m.inters := by
  induction es generalizing m with
  | nil => exact ⟨⟨[], by simp⟩, rfl⟩
  | cons e es ih =>
    obtain ⟨⟨x1, h1⟩, h2⟩ := addEdge_nodes_prefix m e.1 e.2
    obtain ⟨⟨x2, h3⟩, h4⟩ := ih (m.addEdge e.1 e.2)
    simp only [List.foldl_cons]
    exact ⟨⟨x1 ++ x2, by rw [h3, h1]; simp⟩, by rw [h4, h2]⟩

theorem addInter_nodes (m : Mol) (ty : String) (atoms : List Int) (pr : String) (v : Option Int) :
    (m.addInter ty atoms pr v).1.nodes = m.nodes := by
  unfold Mol.addInter
  split <;> rfl

theorem addOrReplace_nodes (m : Mol) (ty : String) (atoms : List Int) (pr : String) (v : Option Int) (c : List String) :
    (m.addOrReplace ty atoms pr v c).1.nodes = m.nodes := by
  unfold Mol.addOrReplace
  simp only
  split
  · rfl
  · have hn := addInter_nodes m ty atoms pr v
    generalize m.addInter ty atoms pr v = r at hn ⊢
    obtain ⟨m', e⟩ := r
    cases e <;> exact hn

theorem foldl_addOrReplace_nodes (is : List (String × Inter)) (m : Mol) :
    (is.foldl (fun o ti => (o.addOrReplace ti.1 ti.2.atoms ti.2.params ti.2.version []).1) m).nodes = m.nodes := by
  induction is generalizing m with
  | nil => rfl
  | cons i is ih => simp only [List.foldl_cons, ih, addOrReplace_nodes]

/-- what a successful `apply_mod_mapping` does -/
theorem applyMod_spec (st : St) (p : ModPlacement) (he : st.err = none) (hok : (applyMod st p).err = none) :
    ∃ out1 m2o es,
      placeModNodes st p p.nodes st.out [] = some (out1, m2o)
      ∧ modEntries m2o p.molToMod = some es
      ∧ (applyMod st p).molToOut = addEntries st.molToOut es
      ∧ (applyMod st p).outToMol = addEntriesRev st.outToMol es
      ∧ (applyMod st p).placed = st.placed ++ [p.atoms]
      ∧ (applyMod st p).overlap = st.overlap ∧ (applyMod st p).spawned = st.spawned
      ∧ ∃ (f : Int × Attrs → Int × Attrs) (extra : List (Int × Attrs)),
          (∀ q, (f q).1 = q.1) ∧ (applyMod st p).out.nodes = st.out.nodes.map f ++ extra
          ∧ ((∀ n ∈ p.nodes, n.repl = {}) → ∀ q, f q = q) := by
  unfold applyMod at hok ⊢
  simp only [he, Option.isSome_none, Bool.false_eq_true, if_false] at hok ⊢
  generalize hpm : placeModNodes st p p.nodes st.out [] = r at hok ⊢
  cases r with
  | none => simp at hok
  | some om =>
    obtain ⟨out1, m2o⟩ := om
    simp only at hok ⊢
    generalize h1 : modEntries m2o p.molToMod = r1 at hok ⊢
    generalize h2 : p.edges.mapM (fun e => do pure ((← m2o.lookup e.1), (← m2o.lookup e.2))) = r2 at hok ⊢
    generalize h3 : p.inters.mapM (fun ti => do pure (ti.1, { ti.2 with atoms := (← ti.2.atoms.mapM (fun a => m2o.lookup a)) })) = r3 at hok ⊢
    generalize h4 : p.refs.mapM (fun r => (m2o.lookup r.1).map (fun o => (o, r.2))) = r4 at hok ⊢
    cases r1 with
    | none => simp at hok
    | some es =>
      cases r2 with
      | none => simp at hok
      | some edges =>
        cases r3 with
        | none => simp at hok
        | some inters =>
          cases r4 with
          | none => simp at hok
          | some nr =>
            simp only
            refine ⟨out1, m2o, es, rfl, h1, by first | rfl | trivial, by first | rfl | trivial, by first | rfl | trivial, by first | rfl | trivial, by first | rfl | trivial, ?_⟩
            obtain ⟨f, x1, hk, hx1, hid, _, _⟩ := placeModNodes_prefix st p p.nodes st.out out1 [] m2o hpm
            obtain ⟨⟨x2, hx2⟩, _⟩ := foldl_addEdge_prefix edges out1
            rw [foldl_addOrReplace_nodes]
            exact ⟨f, x1 ++ x2, hk, by rw [hx2, hx1]; simp, hid⟩

theorem applyMod_err (st : St) (p : ModPlacement) (e : Outcome) (h : st.err = some e) : applyMod st p = st := by
  unfold applyMod; simp [h]

/-- the weight entries of a modification match are recorded as declared: every `(atom ↦ mod node ↦ w)`
of the match ends up as `mol_to_out[atom][particle] = w` and `out_to_mol[particle][atom] = w`, the
particle being the one the modification node was created as or laid over -/
theorem applyMod_records (st : St) (p : ModPlacement) (he : st.err = none) (hok : (applyMod st p).err = none)
    (a b : Int) (ws : List (Int × Rat)) (w : Rat) (ha : (a, ws) ∈ p.molToMod) (hb : (b, w) ∈ ws) :
    ∃ out1 m2o es o, placeModNodes st p p.nodes st.out [] = some (out1, m2o)
      ∧ modEntries m2o p.molToMod = some es ∧ m2o.lookup b = some o ∧ (a, o, w) ∈ es
      ∧ (applyMod st p).molToOut = addEntries st.molToOut es
      ∧ (Functional es → get2 (applyMod st p).molToOut a o = some w ∧ get2 (applyMod st p).outToMol o a = some w) := by
  obtain ⟨out1, m2o, es, h1, h2, h3, h4, _⟩ := applyMod_spec st p he hok
  have h2' := h2
  unfold modEntries at h2'
  obtain ⟨y, hy, hfy⟩ := (mapM_some_mem _ _ _ h2').2 (a, b, w) (by
    simp only [List.mem_flatMap, List.mem_map]
    exact ⟨(a, ws), ha, (b, w), hb, rfl⟩)
  cases ho : m2o.lookup b with
  | none => simp [ho] at hfy
  | some o =>
    simp only [ho, Option.map_some, Option.some.injEq] at hfy
    subst hfy
    refine ⟨out1, m2o, es, o, h1, h2, ho, hy, h3, ?_⟩
    intro hf
    constructor
    · rw [h3, get2_addEntries]
      exact lastW_of_mem a o w es _ hf hy
    · rw [h4, addEntriesRev_eq, get2_addEntries]
      apply lastW_of_mem o a w _ _ (functional_swap es hf)
      exact List.mem_map.2 ⟨(a, o, w), hy, rfl⟩

/-! ### nothing leaves `mol_to_out` -/

theorem applyBlock_dom_mono (st : St) (p : Placement) (x : Int) (hx : x ∈ dom st.molToOut) :
    x ∈ dom (applyBlock st p).molToOut := by
  unfold applyBlock
  split
  · exact hx
  · simp only
    split
    · split
      · simp only [mem_dom_addEntries]; exact Or.inl hx
      · exact hx
    · exact hx

theorem applyMod_dom_mono (st : St) (p : ModPlacement) (x : Int) (hx : x ∈ dom st.molToOut) :
    x ∈ dom (applyMod st p).molToOut := by
  unfold applyMod
  split
  · exact hx
  · split
    · exact hx
    · split
      · simp only [mem_dom_addEntries]; exact Or.inl hx
      · exact hx

theorem runAll_err (n : Nat) (ps : List Placement) (qs : List ModPlacement) (st : St) (e : Outcome)
    (h : st.err = some e) : runAll n ps qs st = st := by
  induction n generalizing ps qs st with
  | zero => rfl
  | succ n ih =>
    cases ps with
    | nil =>
      cases qs with
      | nil => rfl
      | cons q qs => simp only [runAll, applyMod_err st q e h]; exact ih _ _ _ h
    | cons p ps =>
      cases qs with
      | nil => simp only [runAll, applyBlock_err st p e h]; exact ih _ _ _ h
      | cons q qs =>
        simp only [runAll]
        split
        · rw [applyMod_err st q e h]; exact ih _ _ _ h
        · rw [applyBlock_err st p e h]; exact ih _ _ _ h

/-- every atom of a modification match that has a weight entry is in `mol_to_out` at the end
(so it is not among the uncovered atoms) -/
theorem runAll_dom (n : Nat) (ps : List Placement) (qs : List ModPlacement) (st : St)
    (hn : ps.length + qs.length ≤ n) (hok : (runAll n ps qs st).err = none) (a : Int)
    (h : a ∈ dom st.molToOut ∨ ∃ q ∈ qs, ∃ ws, (a, ws) ∈ q.molToMod ∧ ws ≠ []) :
    a ∈ dom (runAll n ps qs st).molToOut := by
  induction n generalizing ps qs st with
  | zero =>
    have hp : ps = [] := List.length_eq_zero_iff.1 (by omega)
    have hq : qs = [] := List.length_eq_zero_iff.1 (by omega)
    subst hp; subst hq
    rcases h with h | ⟨q, hq, _⟩
    · exact h
    · cases hq
  | succ n ih =>
    have herr : st.err = none := by
      cases he : st.err with
      | none => rfl
      | some e => rw [runAll_err _ _ _ _ e he, he] at hok; cases hok
    -- one modification step
    have modStep : ∀ (q : ModPlacement) (qs' : List ModPlacement) (ps' : List Placement),
        (runAll n ps' qs' (applyMod st q)).err = none →
        (a ∈ dom st.molToOut ∨ ∃ q' ∈ q :: qs', ∃ ws, (a, ws) ∈ q'.molToMod ∧ ws ≠ []) →
        a ∈ dom (applyMod st q).molToOut ∨ ∃ q' ∈ qs', ∃ ws, (a, ws) ∈ q'.molToMod ∧ ws ≠ [] := by
      intro q qs' ps' hok' h'
      rcases h' with h' | ⟨q', hq', ws, hws, hne⟩
      · exact Or.inl (applyMod_dom_mono st q a h')
      · rcases List.mem_cons.1 hq' with rfl | hq'
        · left
          have hq'ok : (applyMod st q').err = none := by
            cases he : (applyMod st q').err with
            | none => rfl
            | some e => rw [runAll_err _ _ _ _ e he, he] at hok'; cases hok'
          obtain ⟨bw, hbw⟩ := List.exists_mem_of_ne_nil _ hne
          obtain ⟨_, _, es, o, _, _, _, hmem, hmto, _⟩ := applyMod_records st q' herr hq'ok a bw.1 ws bw.2 hws hbw
          rw [hmto, mem_dom_addEntries]
          exact Or.inr ⟨(a, o, bw.2), hmem, rfl⟩
        · exact Or.inr ⟨q', hq', ws, hws, hne⟩
    cases ps with
    | nil =>
      cases qs with
      | nil =>
        rcases h with h | ⟨q, hq, _⟩
        · exact h
        · cases hq
      | cons q qs =>
        simp only [runAll] at hok ⊢
        exact ih [] qs _ (by simp at hn ⊢; omega) hok (modStep q qs [] hok h)
    | cons p ps =>
      cases qs with
      | nil =>
        simp only [runAll] at hok ⊢
        refine ih ps [] _ (by simp at hn ⊢; omega) hok ?_
        rcases h with h | ⟨q, hq, _⟩
        · exact Or.inl (applyBlock_dom_mono st p a h)
        · cases hq
      | cons q qs =>
        simp only [runAll] at hok ⊢
        split at hok
        · rename_i hlt
          rw [if_pos hlt]
          exact ih (p :: ps) qs _ (by simp at hn ⊢; omega) hok (modStep q qs (p :: ps) hok h)
        · rename_i hlt
          rw [if_neg hlt]
          refine ih ps (q :: qs) _ (by simp at hn ⊢; omega) hok ?_
          rcases h with h | h
          · exact Or.inl (applyBlock_dom_mono st p a h)
          · exact Or.inr h

end C01
