import VermouthProofs.C02_C13Chars
import VermouthProofs.C02_C13Tok
/-!
C02 ∘ C13 — an `[ atoms ]` row or an interaction line written by the writer model is, up to its
comment, a sequence of cells joined by single spaces; if the tokens contain no `$ { }` the repo's
brace-counting `_tokenize` returns exactly `C02.lineTokens` of the line, and the stripped line
starts with the first character of the first token.  Core Lean only.
-/
namespace C02.Repo
open C02

theorem mem_joinSp (L : List (List Char)) (c : Char) (h : c ∈ joinSp L) : c = ' ' ∨ ∃ l ∈ L, c ∈ l := by
  induction L with
  | nil => simp [joinSp] at h
  | cons a rest ih =>
    cases rest with
    | nil => exact Or.inr ⟨a, by simp, by simpa [joinSp] using h⟩
    | cons b r =>
      rw [joinSp_cons_cons] at h
      simp only [List.mem_append, List.mem_cons] at h
      rcases h with h | rfl | h
      · exact Or.inr ⟨a, by simp, h⟩
      · exact Or.inl rfl
      · rcases ih h with h | ⟨l, hl, hc⟩
        · exact Or.inl h
        · exact Or.inr ⟨l, by simp [hl], hc⟩

theorem mem_spaces (n : Nat) (c : Char) (h : c ∈ spaces n) : c = ' ' := by
  simp only [spaces, List.mem_replicate] at h
  exact h.2

/-- every character of a line made of cells is a space or belongs to a token of the line -/
theorem cells_charPlain (cells : List Cell) (hok : ∀ c ∈ cells, c.ok)
    (hp : ∀ t ∈ cells.flatMap (fun c => (c.tok.map String.ofList).toList), plainTok t = true) :
    ∀ c ∈ joinSp (cells.map Cell.chars), CharPlain c := by
  intro c hc
  rcases mem_joinSp _ c hc with rfl | ⟨l, hl, hcl⟩
  · exact charPlain_space
  · simp only [List.mem_map] at hl
    obtain ⟨cell, hcell, rfl⟩ := hl
    simp only [Cell.chars, List.mem_append] at hcl
    rcases hcl with (h | h) | h
    · rw [mem_spaces _ _ h]; exact charPlain_space
    · cases ht : cell.tok with
      | none => rw [ht] at h; simp at h
      | some t =>
        rw [ht] at h
        simp only [Option.getD_some] at h
        have htok := hok cell hcell t ht
        have hplain := hp (String.ofList t) (by
          simp only [List.mem_flatMap]
          exact ⟨cell, hcell, by simp [ht]⟩)
        simp only [plainTok, String.toList_ofList, List.all_eq_true, Bool.and_eq_true, bne_iff_ne, ne_eq] at hplain
        have := hplain c h
        exact charPlain_of_notWs c this.1.1 this.1.2 this.2 (htok.2 c h).1
    · rw [mem_spaces _ _ h]; exact charPlain_space

/-- the part of an atom row / interaction line before its comment, as cells -/
theorem cell_form (l : Line) (h : LineOk l)
    (hk : (∃ w i a, l = .atom w i a) ∨ (∃ w v as ps c, l = .inter w v as ps c)) :
    ∃ cells : List Cell, (∀ c ∈ cells, c.ok) ∧
      C02.stripComment (renderLineChars l) = joinSp (cells.map Cell.chars) ∧
      cells.flatMap (fun c => (c.tok.map String.ofList).toList) = lineTokens l := by
  rcases hk with ⟨w, i, a, rfl⟩ | ⟨w, vsn, atoms, params, comment, rfl⟩
  · obtain ⟨h1, h2, h3, h4, h5, h6, h7⟩ := h
    refine ⟨[padLCell w.idx (toString i), padRCell w.atype a.atype, padLCell w.resid a.resid,
       padRCell w.resname a.resname, padRCell w.atomname a.atomname, padLCell w.cgnr a.cgnr,
       padLCell w.charge a.charge, padLCell w.mass a.mass], ?_, ?_, ?_⟩
    · intro c hc
      simp only [List.mem_cons, List.not_mem_nil, or_false] at hc
      rcases hc with rfl | rfl | rfl | rfl | rfl | rfl | rfl | rfl
      · exact padLCell_ok _ _ (Or.inr (tokS_toString i))
      · exact padRCell_ok _ _ h1
      · exact padLCell_ok _ _ (Or.inr h2)
      · exact padRCell_ok _ _ h3
      · exact padRCell_ok _ _ h4
      · exact padLCell_ok _ _ (Or.inr h5)
      · exact padLCell_ok _ _ h6
      · exact padLCell_ok _ _ h7
    · have hcells : renderLineChars (.atom w i a) = joinSp
          ([padLCell w.idx (toString i), padRCell w.atype a.atype, padLCell w.resid a.resid,
            padRCell w.resname a.resname, padRCell w.atomname a.atomname, padLCell w.cgnr a.cgnr,
            padLCell w.charge a.charge, padLCell w.mass a.mass].map Cell.chars) := by
        simp only [renderLineChars, List.map_cons, List.map_nil, padLCell_chars, padRCell_chars]
      rw [hcells]
      apply stripComment_noSemi
      apply joinSp_noSemi
      intro l hl
      simp only [List.mem_map] at hl
      obtain ⟨c, hc, rfl⟩ := hl
      apply cell_noSemi
      simp only [List.mem_cons, List.not_mem_nil, or_false] at hc
      rcases hc with rfl | rfl | rfl | rfl | rfl | rfl | rfl | rfl
      · exact padLCell_ok _ _ (Or.inr (tokS_toString i))
      · exact padRCell_ok _ _ h1
      · exact padLCell_ok _ _ (Or.inr h2)
      · exact padRCell_ok _ _ h3
      · exact padRCell_ok _ _ h4
      · exact padLCell_ok _ _ (Or.inr h5)
      · exact padLCell_ok _ _ h6
      · exact padLCell_ok _ _ h7
    · simp only [List.flatMap_cons, List.flatMap_nil, padRCell_tok, padLCell_tok_ne _ _ (tokS_toString i),
        padLCell_tok_ne _ _ h2, padLCell_tok_ne _ _ h5, padLCell_tok, List.append_nil, List.cons_append,
        List.nil_append, lineTokens]
  · have hok := interCells_ok w vsn atoms params h.1
    have htok := interCells_tok w vsn atoms params
    have hsemi : ∀ (cs : List Cell), (∀ c ∈ cs, c.ok) → ∀ x ∈ joinSp (cs.map Cell.chars), x ≠ ';' := by
      intro cs hcs
      apply joinSp_noSemi
      intro l hl
      simp only [List.mem_map] at hl
      obtain ⟨c, hc, rfl⟩ := hl
      exact cell_noSemi c (hcs c hc)
    cases comment with
    | none =>
      refine ⟨interCells w vsn atoms params, hok, ?_, htok⟩
      rw [renderLine_inter_eq]
      exact stripComment_noSemi _ (hsemi _ hok)
    | some cm =>
      have hok' : ∀ c ∈ interCells w vsn atoms params ++ [(⟨0, none, 0⟩ : Cell)], c.ok := by
        intro c hc
        simp only [List.mem_append, List.mem_singleton] at hc
        rcases hc with hc | rfl
        · exact hok c hc
        · intro t ht; cases ht
      refine ⟨interCells w vsn atoms params ++ [(⟨0, none, 0⟩ : Cell)], hok', ?_, ?_⟩
      · rw [renderLine_inter_comment, renderLine_inter_eq]
        have e : joinSp ((interCells w vsn atoms params).map Cell.chars) ++ ' ' :: ';' :: ' ' :: cm.toList
            = (joinSp ((interCells w vsn atoms params).map Cell.chars) ++ [' ']) ++ ';' :: ' ' :: cm.toList := by
          simp
        have hne' : (interCells w vsn atoms params).map Cell.chars ≠ [] := by
          simpa using interCells_ne w vsn atoms params
        rw [e, joinSp_append_space _ hne']
        have e2 : (interCells w vsn atoms params).map Cell.chars ++ [[]]
            = (interCells w vsn atoms params ++ [(⟨0, none, 0⟩ : Cell)]).map Cell.chars := by
          simp [Cell.chars, spaces]
        rw [e2]
        exact stripComment_semi _ _ (hsemi _ hok')
      · rw [List.flatMap_append, htok]
        simp
        rfl

/-- **The repo's tokenizer on a written row / interaction line** -/
theorem written_tokens (l : Line) (h : LineOk l)
    (hk : (∃ w i a, l = .atom w i a) ∨ (∃ w v as ps c, l = .inter w v as ps c))
    (hp : ∀ t ∈ lineTokens l, plainTok t = true) (t0 : String) (rest : List String)
    (ht : lineTokens l = t0 :: rest) :
    ∃ c r, C13.stripComment (renderLineChars l) = c :: r ∧ t0.toList.head? = some c ∧
      C13.tokenizeS (String.ofList (c :: r)) = some (lineTokens l) ∧ ∀ x ∈ c :: r, x ≠ '$' := by
  obtain ⟨cells, hok, hform, htoks⟩ := cell_form l h hk
  have hsplit : splitWs (C02.stripComment (renderLineChars l)) = lineTokens l :=
    C02.tokenize_renderLine l h
  rw [stripComment_eq]
  obtain ⟨c, r, hcr, hhead⟩ := (strip_of_tokens (C02.stripComment (renderLineChars l))).2 t0 rest
    (by rw [hsplit, ht])
  have hplainAll : ∀ x ∈ C13.stripChars C02.isWs (C02.stripComment (renderLineChars l)), CharPlain x := by
    intro x hx
    have hx' := mem_stripChars _ _ _ hx
    rw [hform] at hx'
    exact cells_charPlain cells hok (by rw [htoks]; exact hp) x hx'
  refine ⟨c, r, hcr, hhead, ?_, ?_⟩
  · rw [← hcr, tokenizeS_plain _ hplainAll, splitWs_strip, hsplit]
  · intro x hx
    rw [← hcr] at hx
    exact (hplainAll x hx).1

end C02.Repo
