import VermouthProofs.C02_Good
/-! `charOk m` makes every line of the written file `lineGood`. -/
namespace C02

theorem mem_lookup {β} (tbl : List (String × β)) (name : String) (v : β) (h : tbl.lookup name = some v) :
    (name, v) ∈ tbl := by
  induction tbl with
  | nil => simp at h
  | cons p t ih =>
    obtain ⟨pn, pv⟩ := p
    simp only [List.lookup_cons] at h
    by_cases hp : name == pn
    · rw [hp] at h
      simp only [Option.some.injEq] at h
      have : name = pn := by simpa using hp
      simp [this, ← h]
    · have hp' : (name == pn) = false := by simpa using hp
      rw [hp'] at h
      exact List.mem_cons_of_mem _ (ih h)

theorem linesOf_good (tbl : List (String × List String)) (h : ∀ p ∈ tbl, ∀ s ∈ p.2, textOk s = true)
    (name : String) : ∀ l ∈ linesOf tbl name, lineGood l = true := by
  intro l hl
  simp only [linesOf, List.mem_map] at hl
  obtain ⟨s, hs, rfl⟩ := hl
  cases hlk : tbl.lookup name with
  | none => rw [hlk] at hs; simp at hs
  | some ls =>
    rw [hlk] at hs
    exact h _ (mem_lookup tbl name ls hlk) s hs

theorem mem_atomLines (w : Widths) (l : List Atom) (s : Nat) :
    ∀ x ∈ atomLines w l s, ∃ i a, a ∈ l ∧ x = .atom w i a := by
  induction l generalizing s with
  | nil => intro x hx; simp [atomLines] at hx
  | cons a t ih =>
    intro x hx
    simp only [atomLines, List.mem_cons] at hx
    rcases hx with rfl | hx
    · exact ⟨s, a, by simp, rfl⟩
    · obtain ⟨i, b, hb, rfl⟩ := ih (s + 1) x hx
      exact ⟨i, b, by simp [hb], rfl⟩

theorem groupRuns_nonempty (l : List Inter) : ∀ blk ∈ groupRuns l, blk.2 ≠ [] := by
  induction l with
  | nil => intro blk h; simp [groupRuns] at h
  | cons a t ih =>
    intro blk hblk
    simp only [groupRuns] at hblk
    cases hg : groupRuns t with
    | nil =>
      rw [hg] at hblk
      simp only [List.mem_singleton] at hblk
      subst hblk; simp
    | cons b gs =>
      obtain ⟨k, is⟩ := b
      rw [hg] at hblk ih
      simp only [] at hblk
      by_cases hk : keyOf a = k
      · rw [if_pos hk] at hblk
        simp only [List.mem_cons] at hblk
        rcases hblk with rfl | hblk
        · simp
        · exact ih blk (by simp [hblk])
      · rw [if_neg hk] at hblk
        simp only [List.mem_cons] at hblk
        rcases hblk with rfl | rfl | hblk
        · simp
        · exact ih (k, is) (by simp)
        · exact ih blk (by simp [hblk])

theorem tokOk_ifdef : tokOk "#ifdef" = true := by decide
theorem tokOk_ifndef : tokOk "#ifndef" = true := by decide
theorem tokOk_endif : tokOk "#endif" = true := by decide
theorem tokOk_define : tokOk "#define" = true := by decide
theorem tokOk_moleculetype : tokOk "moleculetype" = true := by decide
theorem tokOk_atoms : tokOk "atoms" = true := by decide

/-- character conditions on one in-memory interaction -/
def interChars (i : Inter) : Bool :=
  i.params.all tokOk && (i.ifdef.all tokOk) && (i.ifndef.all tokOk)
    && (i.group.all textOk) && (i.comment.all textOk)

theorem blockLines_good (c : List (Int × Nat)) (N : Nat) (ar : Arity) (w : Nat) (name : String)
    (post : List Line) (blk : Key × List Inter)
    (hne : blk.2 ≠ []) (hk : ∀ i ∈ blk.2, keyOf i = blk.1)
    (hi : ∀ i ∈ blk.2, interChars i = true ∧ InterReady c N ar i)
    (hpost : ∀ l ∈ post, lineGood l = true) :
    ∀ l ∈ blockLines c w name post blk, lineGood l = true := by
  obtain ⟨k, is⟩ := blk
  cases is with
  | nil => exact absurd rfl hne
  | cons i0 rest =>
    have hk0 : keyOf i0 = k := hk i0 (by simp)
    have hc0 := (hi i0 (by simp)).1
    simp only [interChars, Bool.and_eq_true] at hc0
    obtain ⟨⟨⟨⟨_, hd⟩, hnd⟩, hg⟩, _⟩ := hc0
    intro l hl
    simp only [blockLines, List.mem_append, List.mem_cons, List.not_mem_nil, or_false] at hl
    rcases hl with ((((hl | hl) | hl) | hl) | hl) | rfl
    · -- guard open
      unfold guardOpen at hl
      rw [← hk0] at hl
      simp only [keyOf, condOf] at hl
      cases hdef : i0.ifdef with
      | some d =>
        rw [hdef] at hl hd
        simp only [List.mem_singleton] at hl
        subst hl
        simp only [Option.all_some] at hd
        simp only [lineGood, if_true, List.all_cons, List.all_nil, hd, tokOk_ifdef, Bool.and_self]
      | none =>
        rw [hdef] at hl
        cases hndef : i0.ifndef with
        | some d =>
          rw [hndef] at hl hnd
          simp only [List.mem_singleton] at hl
          subst hl
          simp only [Option.all_some] at hnd
          simp only [lineGood, Bool.false_eq_true, if_false, List.all_cons, List.all_nil, hnd, tokOk_ifndef, Bool.and_self]
        | none => rw [hndef] at hl; simp at hl
    · -- group comment
      unfold groupLine at hl
      split at hl
      · simp at hl
      · next hgne =>
        simp only [List.mem_singleton] at hl
        subst hl
        rw [← hk0] at hgne ⊢
        simp only [keyOf] at hgne ⊢
        cases hgr : i0.group with
        | none => rw [hgr] at hgne; simp at hgne
        | some g =>
          rw [hgr] at hg
          simpa [lineGood] using hg
    · -- interaction lines
      simp only [List.mem_map] at hl
      obtain ⟨i, him, rfl⟩ := hl
      obtain ⟨hci, hri⟩ := hi i him
      simp only [interChars, Bool.and_eq_true] at hci
      obtain ⟨⟨⟨⟨hp, _⟩, _⟩, _⟩, hcm⟩ := hci
      have hne' : (idxsOf c i).isEmpty = false := by
        have hl := idxsOf_length hri
        have hn := hri.nonempty
        cases hf : idxsOf c i with
        | nil =>
          rw [hf] at hl
          exact absurd (List.eq_nil_of_length_eq_zero hl.symm) hn
        | cons _ _ => rfl
      simp [interLine, lineGood, hp, hcm, hne']
    · -- guard close
      unfold guardClose at hl
      split at hl
      · simp only [List.mem_singleton] at hl
        subst hl
        simp only [lineGood, tokOk_endif, List.all_nil, Bool.and_self]
      · simp at hl
    · exact hpost l hl
    · rfl

end C02

namespace C02

structure CharFacts (m : Mol) : Prop where
  moltype : tokOk m.moltype = true
  nrexcl : tokOk m.nrexcl = true
  header : ∀ h ∈ m.header, textOk h = true
  defines : ∀ d ∈ m.defines, tokOk d.1 = true ∧ tokOk d.2 = true
  atoms : ∀ a ∈ m.atoms, lineGood (.atom (widthsOf m) 0 a) = true
  inters : ∀ p ∈ m.inters, tokOk (retag p.1) = true ∧ ∀ i ∈ p.2, interChars i = true
  pre : ∀ p ∈ m.pre, tokOk p.1 = true ∧ ∀ s ∈ p.2, textOk s = true
  post : ∀ p ∈ m.post, tokOk p.1 = true ∧ ∀ s ∈ p.2, textOk s = true

theorem charFacts_of (m : Mol) (h : charOk m = true) : CharFacts m := by
  simp only [charOk, Bool.and_eq_true, List.all_eq_true] at h
  obtain ⟨⟨⟨⟨⟨⟨⟨h1, h2⟩, h3⟩, h4⟩, h5⟩, h6⟩, h7⟩, h8⟩ := h
  exact { moltype := h1, nrexcl := h2, header := h3, defines := h4
          atoms := fun a ha => by
            have := h5 a ha
            simp only [lineGood, Bool.and_eq_true]
            exact this
          inters := fun p hp => by
            have := h6 p hp
            refine ⟨this.1, fun i hi => ?_⟩
            have := this.2 i hi
            simp only [interChars, Bool.and_eq_true, List.all_eq_true]
            exact this
          pre := h7, post := h8 }

theorem sectionLines_good (tbl : List (String × Arity)) (m : Mol) (hc : CharFacts m) (N w : Nat)
    (s : Nat × String × List Inter) (hm : (s.2.1, s.2.2) ∈ m.inters)
    (hr : SectReady tbl (correspondence m) N s) :
    ∀ l ∈ sectionLines m (correspondence m) w s, lineGood l = true := by
  obtain ⟨_, _, ar, _, _, hall⟩ := hr
  obtain ⟨hname, hints⟩ := hc.inters _ hm
  intro l hl
  simp only [sectionLines, List.mem_append, List.mem_cons, List.not_mem_nil, or_false,
    List.mem_flatten, List.mem_map] at hl
  rcases hl with (rfl | hl) | ⟨bl, ⟨blk, hblk, rfl⟩, hl⟩
  · exact hname
  · exact linesOf_good m.pre (fun p hp => (hc.pre p hp).2) _ l hl
  · have hmem : ∀ i ∈ blk.2, i ∈ s.2.2 := fun i hi =>
      (sortInters_perm s.2.2).mem_iff.mp (groupRuns_mem _ blk hblk i hi)
    exact blockLines_good (correspondence m) N ar w _ _ blk (groupRuns_nonempty _ blk hblk)
      (groupRuns_keys _ blk hblk)
      (fun i hi => ⟨hints i (hmem i hi), (hall i (hmem i hi)).2⟩)
      (linesOf_good m.post (fun p hp => (hc.post p hp).2) _) l hl

theorem fileLinesOrd_good (tbl : List (String × Arity)) (m : Mol) (hw : WfFacts tbl m) (hc : CharFacts m)
    (names : List String) (hsub : ∀ n ∈ names, n ∈ remainingNames m) :
    ∀ l ∈ fileLinesOrd m names, lineGood l = true := by
  intro l hl
  simp only [fileLinesOrd, List.mem_append] at hl
  rcases hl with ((hl | hl) | hl) | hl
  · -- prelude
    simp only [prelude, List.mem_append, List.mem_map, List.mem_flatMap, List.mem_cons,
      List.not_mem_nil, or_false] at hl
    rcases hl with ((⟨t, ht, rfl⟩ | hl) | ⟨d, hd, hl⟩) | hl
    · exact hc.header t ht
    · split at hl <;> simp at hl
      subst hl; rfl
    · obtain ⟨d1, d2⟩ := hc.defines d hd
      rcases hl with rfl | rfl | rfl | rfl
      · simp only [lineGood, tokOk_ifndef, List.all_cons, List.all_nil, d1, Bool.and_self]
      · simp only [lineGood, tokOk_define, List.all_cons, List.all_nil, d1, d2, Bool.and_self]
      · simp only [lineGood, tokOk_endif, List.all_nil, Bool.and_self]
      · rfl
    · rcases hl with rfl | rfl | rfl
      · exact tokOk_moleculetype
      · simp only [lineGood, hc.moltype, hc.nrexcl, Bool.and_self]
      · rfl
  · -- atoms
    simp only [atomsPart, List.mem_append, List.mem_cons, List.not_mem_nil, or_false] at hl
    rcases hl with (((rfl | hl) | hl) | hl) | rfl
    · exact tokOk_atoms
    · exact linesOf_good m.pre (fun p hp => (hc.pre p hp).2) _ l hl
    · obtain ⟨i, a, ha, rfl⟩ := mem_atomLines _ _ _ l hl
      exact hc.atoms a ((sortedNodes_perm m).mem_iff.mp ha)
    · exact linesOf_good m.post (fun p hp => (hc.post p hp).2) _ l hl
    · rfl
  · -- sections
    simp only [List.mem_flatten, List.mem_map] at hl
    obtain ⟨sl, ⟨s, hs, rfl⟩, hl⟩ := hl
    exact sectionLines_good tbl m hc _ _ s (mem_sortInteractions m s hs).1 (hw.sections s hs) l hl
  · -- left-over sections
    simp only [remainingPartOf, List.mem_flatMap, List.mem_append, List.mem_cons, List.not_mem_nil,
      or_false] at hl
    obtain ⟨n, hn, hl⟩ := hl
    rcases hl with ((rfl | hl) | hl) | rfl
    · have hn := hsub n hn
      simp only [remainingNames, List.mem_filter] at hn
      have hn' := hn.1
      rw [List.mem_eraseDups] at hn'
      simp only [List.mem_append, List.mem_map] at hn'
      rcases hn' with ⟨p, hp, rfl⟩ | ⟨p, hp, rfl⟩
      · exact (hc.pre p hp).1
      · exact (hc.post p hp).1
    · exact linesOf_good m.pre (fun p hp => (hc.pre p hp).2) _ l hl
    · exact linesOf_good m.post (fun p hp => (hc.post p hp).2) _ l hl
    · rfl

theorem fileLines_good (tbl : List (String × Arity)) (m : Mol) (hw : WfFacts tbl m) (hc : CharFacts m) :
    ∀ l ∈ fileLines m, lineGood l = true :=
  fileLinesOrd_good tbl m hw hc (remainingNames m) (fun _ h => h)

end C02
