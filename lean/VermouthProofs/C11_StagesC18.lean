import VermouthProps.C18
import VermouthProps.C11
/-!
# C11 / C18 — the Go-model contact selection does not depend on the presentation of the molecule

Two presentation changes of the molecule handed to `C18.selectContacts` / `C18.goPipeline`:

(A) an isometry applied to every position (`moveAtom18 f`, in particular `f := C11.move A t` with `A.IsOrtho`);
(B) a renumbering `ρ` of the node keys (`rekey18 ρ`, edges renumbered with the same `ρ`).

Both are instances of ONE theorem, `S18.select_pres`: if `g : Atom → Atom` keeps every identity field
(atomname, resid, `_old_resid`, resname, chain, atype), sends keys through `ρ`, keeps all squared distances, and `ρ`
is strictly increasing on the keys that occur (node keys and edge end points), then

    selectContacts P (atoms.map g) (edges renumbered) contacts = Outcome.rekey ρ (selectContacts P atoms edges contacts)

(the same Go pairs with the same types and squared distances in the same order, the same error outcome, backbone
keys sent through `ρ`).  (A) is `ρ = id`, (B) is `g = rekey18 ρ`.

Where the result DOES depend on the presentation (see the end of the file):
* `c18_rekey_nonmonotone_witness`: an injective renumbering that is not order preserving changes the OUTCOME (not
  only the names): the residue order is the order of the smallest node key, and `findRes` lets the last residue
  with a given (chain, `_old_resid`) win.
* `c18_pipeline_rekey_site_keys_witness`: `addVirtualSites` numbers the new nodes `max key + 1, ...`, which does
  not commute with a strictly increasing renumbering; `c18_pipeline_rekey_equivariant` states what holds (the
  renumbering has to be extended to the new keys by `extendKey`).
-/
namespace C11

/-! ## definitions -/

/-- (A) the atom with its position moved by `f`, everything else untouched -/
def moveAtom18 (f : C18.Pos → C18.Pos) (a : C18.Atom) : C18.Atom := { a with pos := f a.pos }

/-- the virtual site with its position moved by `f` -/
def moveSite18 (f : C18.Pos → C18.Pos) (v : C18.VSite) : C18.VSite := { v with pos := f v.pos }

/-- (B) the atom with its node key renumbered by `ρ` -/
def rekey18 (ρ : Int → Int) (a : C18.Atom) : C18.Atom := { a with key := ρ a.key }

def rekeyEdges18 (ρ : Int → Int) (edges : List (Int × Int)) : List (Int × Int) :=
  edges.map (fun e => (ρ e.1, ρ e.2))

def Cand.rekey (ρ : Int → Int) (c : C18.Cand) : C18.Cand := { c with bbA := ρ c.bbA, bbB := ρ c.bbB }

/-- the outcome with the backbone keys of every emitted pair renumbered; types, squared distances, order and the
error outcomes are untouched -/
def Outcome.rekey (ρ : Int → Int) : C18.Outcome → C18.Outcome
  | .ok out => .ok (out.map (Cand.rekey ρ))
  | .exit => .exit
  | .keyerror => .keyerror

/-- the keys a molecule mentions: node keys, then both end points of every edge -/
def keys18 (atoms : List C18.Atom) (edges : List (Int × Int)) : List Int :=
  atoms.map (·.key) ++ edges.flatMap (fun e => [e.1, e.2])

/-- `ρ` is strictly increasing on the keys in `K` -/
def MonoOn (ρ : Int → Int) (K : List Int) : Prop := ∀ x ∈ K, ∀ y ∈ K, x < y → ρ x < ρ y

instance (ρ : Int → Int) (K : List Int) : Decidable (MonoOn ρ K) :=
  inferInstanceAs (Decidable (∀ x ∈ K, ∀ y ∈ K, x < y → ρ x < ρ y))

/-- a renumbering of the keys `≤ M` extended to the keys above `M` the way `add_virtual_sites` numbers new nodes:
`M + j ↦ ρ M + j` -/
def extendKey (ρ : Int → Int) (M : Int) (k : Int) : Int := if k ≤ M then ρ k else ρ M + (k - M)

/-- the virtual site with its own key renumbered by `ρ'` and the key of its backbone node by `ρ` -/
def rekeySite18 (ρ ρ' : Int → Int) (v : C18.VSite) : C18.VSite := { v with key := ρ' v.key, bb := ρ v.bb }

namespace S18
open C18

/-! ## helper lemmas -/

theorem MonoOn.le_iff {ρ : Int → Int} {K : List Int} (h : MonoOn ρ K) {x y : Int} (hx : x ∈ K) (hy : y ∈ K) :
    ρ x ≤ ρ y ↔ x ≤ y := by
  constructor
  · intro hle
    by_cases hxy : x ≤ y
    · exact hxy
    · have := h y hy x hx (by omega)
      omega
  · intro hle
    by_cases e : x = y
    · subst e; exact Int.le_refl _
    · have := h x hx y hy (by omega)
      omega

theorem MonoOn.inj {ρ : Int → Int} {K : List Int} (h : MonoOn ρ K) {x y : Int} (hx : x ∈ K) (hy : y ∈ K) :
    ρ x = ρ y ↔ x = y := by
  constructor
  · intro e
    have h1 := (MonoOn.le_iff h hx hy).mp (by omega)
    have h2 := (MonoOn.le_iff h hy hx).mp (by omega)
    omega
  · intro e; rw [e]

theorem MonoOn.sub {ρ : Int → Int} {K K' : List Int} (h : MonoOn ρ K) (hs : ∀ x ∈ K', x ∈ K) : MonoOn ρ K' :=
  fun x hx y hy => h x (hs x hx) y (hs y hy)

/-- what a presentation change `g` of the atoms has to satisfy: identity fields kept, key sent through `ρ`,
squared distances kept -/
structure Pres (ρ : Int → Int) (g : C18.Atom → C18.Atom) : Prop where
  key : ∀ a, (g a).key = ρ a.key
  atomname : ∀ a, (g a).atomname = a.atomname
  resid : ∀ a, (g a).resid = a.resid
  oldResid : ∀ a, (g a).oldResid = a.oldResid
  resname : ∀ a, (g a).resname = a.resname
  chain : ∀ a, (g a).chain = a.chain
  atype : ∀ a, (g a).atype = a.atype
  dist : ∀ a b, dist2 (g a).pos (g b).pos = dist2 a.pos b.pos

/-- the residue with `g` applied to every member -/
def mapRes (g : C18.Atom → C18.Atom) (r : Residue) : Residue := { r with members := r.members.map g }

variable {ρ : Int → Int} {g : C18.Atom → C18.Atom}

theorem has_map (h : Pres ρ g) (r : Residue) (a : C18.Atom) : (mapRes g r).has (g a) = r.has a := by
  simp only [Residue.has, mapRes, h.chain, h.resid, h.resname]

theorem insertAtom_map (h : Pres ρ g) (rs : List Residue) (a : C18.Atom) :
    insertAtom (rs.map (mapRes g)) (g a) = (insertAtom rs a).map (mapRes g) := by
  induction rs with
  | nil => simp [insertAtom, mapRes, h.chain, h.resid, h.resname]
  | cons r rest ih =>
    by_cases hh : r.has a = true
    · have hh' : (mapRes g r).has (g a) = true := by rw [has_map h]; exact hh
      rw [List.map_cons, insertAtom_cons_pos _ _ _ hh', insertAtom_cons_pos _ _ _ hh]
      simp [mapRes]
    · have hh' : ¬ (mapRes g r).has (g a) = true := by rw [has_map h]; exact hh
      rw [List.map_cons, insertAtom_cons_neg _ _ _ hh', insertAtom_cons_neg _ _ _ hh, ih, List.map_cons]

theorem foldl_insertAtom_map (h : Pres ρ g) (atoms : List C18.Atom) (rs : List Residue) :
    (atoms.map g).foldl insertAtom (rs.map (mapRes g)) = (atoms.foldl insertAtom rs).map (mapRes g) := by
  induction atoms generalizing rs with
  | nil => rfl
  | cons a rest ih =>
    simp only [List.map_cons, List.foldl_cons]
    rw [insertAtom_map h]
    exact ih _

theorem collectResidues_map (h : Pres ρ g) (atoms : List C18.Atom) :
    collectResidues (atoms.map g) = (collectResidues atoms).map (mapRes g) := by
  have := foldl_insertAtom_map h atoms []
  simpa [collectResidues] using this

theorem insertSorted_map (r : Residue) (l : List Residue)
    (hc : ∀ s ∈ l, ((mapRes g r).minKey ≤ (mapRes g s).minKey ↔ r.minKey ≤ s.minKey)) :
    insertSorted (mapRes g r) (l.map (mapRes g)) = (insertSorted r l).map (mapRes g) := by
  induction l with
  | nil => rfl
  | cons s rest ih =>
    have hs := hc s List.mem_cons_self
    simp only [List.map_cons, insertSorted]
    by_cases hle : r.minKey ≤ s.minKey
    · rw [if_pos hle, if_pos (hs.mpr hle)]; rfl
    · rw [if_neg hle, if_neg (fun e => hle (hs.mp e)), ih (fun t ht => hc t (List.mem_cons_of_mem _ ht))]
      rfl

theorem sortResidues_map (l : List Residue)
    (hc : ∀ r ∈ l, ∀ s ∈ l, ((mapRes g r).minKey ≤ (mapRes g s).minKey ↔ r.minKey ≤ s.minKey)) :
    sortResidues (l.map (mapRes g)) = (sortResidues l).map (mapRes g) := by
  induction l with
  | nil => rfl
  | cons r rest ih =>
    simp only [List.map_cons, sortResidues]
    rw [ih (fun a ha b hb => hc a (List.mem_cons_of_mem _ ha) b (List.mem_cons_of_mem _ hb))]
    apply insertSorted_map
    intro s hs
    exact hc r List.mem_cons_self s (List.mem_cons_of_mem _ ((sortResidues_perm rest).mem_iff.mp hs))

/-! ### minima -/

theorem minInts_cons2 (a b : Int) (rest : List Int) :
    minInts (a :: b :: rest) = min a (minInts (b :: rest)) := rfl

theorem minInts_mem : ∀ (l : List Int), l ≠ [] → minInts l ∈ l
  | [], h => absurd rfl h
  | [a], _ => by simp [minInts]
  | a :: b :: rest, _ => by
    have ih := minInts_mem (b :: rest) (by simp)
    rw [minInts_cons2]
    by_cases hle : a ≤ minInts (b :: rest)
    · have : min a (minInts (b :: rest)) = a := by omega
      rw [this]; exact List.mem_cons_self
    · have : min a (minInts (b :: rest)) = minInts (b :: rest) := by omega
      rw [this]; exact List.mem_cons_of_mem _ ih

theorem minInts_map (ρ : Int → Int) : ∀ (l : List Int), l ≠ [] → MonoOn ρ l →
    minInts (l.map ρ) = ρ (minInts l)
  | [], h, _ => absurd rfl h
  | [a], _, _ => rfl
  | a :: b :: rest, _, hm => by
    have hm' : MonoOn ρ (b :: rest) := MonoOn.sub hm (fun x hx => List.mem_cons_of_mem _ hx)
    have ih := minInts_map ρ (b :: rest) (by simp) hm'
    have hmem : minInts (b :: rest) ∈ a :: b :: rest := List.mem_cons_of_mem _ (minInts_mem (b :: rest) (by simp))
    have hle := MonoOn.le_iff hm (List.mem_cons_self (a := a)) hmem
    have hle' := MonoOn.le_iff hm hmem (List.mem_cons_self (a := a))
    simp only [List.map_cons] at ih ⊢
    rw [minInts_cons2, minInts_cons2, ih]
    by_cases hc : a ≤ minInts (b :: rest)
    · have h1 := hle.mpr hc
      have e1 : min a (minInts (b :: rest)) = a := by omega
      rw [e1]
      omega
    · have h1 := hle'.mpr (by omega)
      have e1 : min a (minInts (b :: rest)) = minInts (b :: rest) := by omega
      rw [e1]
      omega

theorem minKey_map (h : Pres ρ g) (r : Residue) :
    (mapRes g r).minKey = minInts ((r.members.map (·.key)).map ρ) := by
  simp only [Residue.minKey, mapRes, List.map_map]
  congr 1
  apply List.map_congr_left
  intro a _
  exact h.key a

theorem insertAtom_nonempty (rs : List Residue) (a : C18.Atom) (h : ∀ r ∈ rs, r.members ≠ []) :
    ∀ r ∈ insertAtom rs a, r.members ≠ [] := by
  induction rs with
  | nil => intro r hr; simp only [insertAtom, List.mem_singleton] at hr; subst hr; simp
  | cons s rest ih =>
    intro r hr
    by_cases hh : s.has a = true
    · rw [insertAtom_cons_pos _ _ _ hh] at hr
      rcases List.mem_cons.mp hr with e | e
      · subst e; simp
      · exact h r (List.mem_cons_of_mem _ e)
    · rw [insertAtom_cons_neg _ _ _ hh] at hr
      rcases List.mem_cons.mp hr with e | e
      · subst e; exact h _ List.mem_cons_self
      · exact ih (fun t ht => h t (List.mem_cons_of_mem _ ht)) r e

theorem foldl_insertAtom_nonempty (atoms : List C18.Atom) (rs : List Residue) (h : ∀ r ∈ rs, r.members ≠ []) :
    ∀ r ∈ atoms.foldl insertAtom rs, r.members ≠ [] := by
  induction atoms generalizing rs with
  | nil => exact h
  | cons a rest ih => exact ih _ (insertAtom_nonempty rs a h)

theorem collectResidues_members (atoms : List C18.Atom) (r : Residue) (hr : r ∈ collectResidues atoms) :
    r.members ≠ [] ∧ ∀ b ∈ r.members, b ∈ atoms := by
  constructor
  · exact foldl_insertAtom_nonempty atoms [] (by simp) r hr
  · intro b hb
    have := (members_foldl_insertAtom atoms [] b).mp ⟨r, hr, hb⟩
    simpa using this

/-- **the residue graph nodes of the re-presented molecule are the re-presented residues, in the same order** -/
theorem residuesOf_map (h : Pres ρ g) (atoms : List C18.Atom) (hm : MonoOn ρ (atoms.map (·.key))) :
    residuesOf (atoms.map g) = (residuesOf atoms).map (mapRes g) := by
  unfold residuesOf
  rw [collectResidues_map h]
  apply sortResidues_map
  intro r hr s hs
  obtain ⟨hrn, hrm⟩ := collectResidues_members atoms r hr
  obtain ⟨hsn, hsm⟩ := collectResidues_members atoms s hs
  have hrK : ∀ x ∈ r.members.map (·.key), x ∈ atoms.map (·.key) := by
    intro x hx
    obtain ⟨b, hb, rfl⟩ := List.mem_map.mp hx
    exact List.mem_map_of_mem (hrm b hb)
  have hsK : ∀ x ∈ s.members.map (·.key), x ∈ atoms.map (·.key) := by
    intro x hx
    obtain ⟨b, hb, rfl⟩ := List.mem_map.mp hx
    exact List.mem_map_of_mem (hsm b hb)
  have hrn' : r.members.map (·.key) ≠ [] := by simpa using hrn
  have hsn' : s.members.map (·.key) ≠ [] := by simpa using hsn
  rw [minKey_map h, minKey_map h, minInts_map ρ _ hrn' (MonoOn.sub hm hrK),
    minInts_map ρ _ hsn' (MonoOn.sub hm hsK)]
  exact MonoOn.le_iff hm (hrK _ (minInts_mem _ hrn')) (hsK _ (minInts_mem _ hsn'))

/-! ### lookups -/

theorem old_map (h : Pres ρ g) (r : Residue) : (mapRes g r).old = r.old := by
  obtain ⟨c, i, n, m⟩ := r
  cases m with
  | nil => rfl
  | cons a rest =>
    simp only [Residue.old, mapRes, List.map_cons, List.all_map, Function.comp_def, h.oldResid]

theorem lastIdx_map (p : Residue → Bool) (f : Residue → Residue) (l : List Residue) (n : Nat) (acc : Option Nat) :
    lastIdx p (l.map f) n acc = lastIdx (fun r => p (f r)) l n acc := by
  induction l generalizing n acc with
  | nil => rfl
  | cons a rest ih => rw [List.map_cons, lastIdx_cons, lastIdx_cons, ih]

theorem findRes_map (h : Pres ρ g) (rs : List Residue) (chain : String) (resid : Int) :
    findRes (rs.map (mapRes g)) chain resid = findRes rs chain resid := by
  rw [findRes_eq_lastIdx, findRes_eq_lastIdx, lastIdx_map]
  congr 1
  funext r
  simp only [Residue.matches, old_map h]
  rfl

theorem findIdx?_map_congr {α β : Type} (f : α → β) (p : β → Bool) (q : α → Bool) (l : List α)
    (h : ∀ x ∈ l, p (f x) = q x) : (l.map f).findIdx? p = l.findIdx? q := by
  induction l with
  | nil => rfl
  | cons a rest ih =>
    rw [List.map_cons, List.findIdx?_cons, List.findIdx?_cons, h a List.mem_cons_self,
      ih (fun x hx => h x (List.mem_cons_of_mem _ hx))]

theorem any_key_map (h : Pres ρ g) (m : List C18.Atom) (k : Int) (hk : ∀ a ∈ m, (ρ a.key = ρ k ↔ a.key = k)) :
    (m.map g).any (fun a => a.key == ρ k) = m.any (fun a => a.key == k) := by
  induction m with
  | nil => rfl
  | cons a rest ih =>
    simp only [List.map_cons, List.any_cons, h.key]
    rw [ih (fun b hb => hk b (List.mem_cons_of_mem _ hb))]
    have : (ρ a.key == ρ k) = (a.key == k) := by
      rw [Bool.eq_iff_iff]
      simp only [beq_iff_eq]
      exact hk a List.mem_cons_self
    rw [this]

theorem resIndexOf_map (h : Pres ρ g) (rs : List Residue) (k : Int)
    (hk : ∀ r ∈ rs, ∀ a ∈ r.members, (ρ a.key = ρ k ↔ a.key = k)) :
    resIndexOf (rs.map (mapRes g)) (ρ k) = resIndexOf rs k := by
  unfold resIndexOf
  apply findIdx?_map_congr
  intro r hr
  exact any_key_map h r.members k (hk r hr)

theorem resEdges_map (h : Pres ρ g) (rs : List Residue) (edges : List (Int × Int))
    (hk : ∀ e ∈ edges, ∀ r ∈ rs, ∀ a ∈ r.members,
      (ρ a.key = ρ e.1 ↔ a.key = e.1) ∧ (ρ a.key = ρ e.2 ↔ a.key = e.2)) :
    resEdges (rs.map (mapRes g)) (rekeyEdges18 ρ edges) = resEdges rs edges := by
  unfold resEdges rekeyEdges18
  rw [List.filterMap_map]
  apply List.filterMap_congr
  intro e he
  simp only [Function.comp]
  rw [resIndexOf_map h rs e.1 (fun r hr a ha => (hk e he r hr a ha).1),
    resIndexOf_map h rs e.2 (fun r hr a ha => (hk e he r hr a ha).2)]

theorem firstBB_map (h : Pres ρ g) (r : Residue) (bb : String) :
    firstBB (mapRes g r) bb = (firstBB r bb).map g := by
  simp only [firstBB, mapRes, List.find?_map, Function.comp_def, h.atomname]

theorem firstType_map (h : Pres ρ g) (r : Residue) (pre chain : String) (resid : Int) :
    firstType (mapRes g r) pre chain resid = firstType r pre chain resid := by
  simp only [firstType, mapRes, List.find?_map, Function.comp_def, h.atype, h.oldResid, h.chain, Option.map_map]

/-! ### the loop -/

def rekeyVerdict (ρ : Int → Int) : Verdict → Verdict
  | .cand c => .cand (Cand.rekey ρ c)
  | v => v

def rekeyState (ρ : Int → Int) (s : LoopState) : LoopState := { s with out := s.out.map (Cand.rekey ρ) }

theorem classify_map (h : Pres ρ g) (P : Params) (rs : List Residue) (E : List (Nat × Nat)) (c : Contact) :
    classify P (rs.map (mapRes g)) E c = rekeyVerdict ρ (classify P rs E c) := by
  unfold classify
  rw [findRes_map h, findRes_map h]
  cases findRes rs c.chainA c.residA with
  | none => rfl
  | some ia =>
    cases findRes rs c.chainB c.residB with
    | none => rfl
    | some ib =>
      simp only
      by_cases hb : (ball E ia P.sep.toNat).contains ib = true
      · rw [if_pos hb, if_pos hb]; rfl
      · rw [if_neg hb, if_neg hb, List.getElem?_map, List.getElem?_map]
        cases rs[ia]? with
        | none => rfl
        | some ra =>
          cases rs[ib]? with
          | none => rfl
          | some rb =>
            simp only [Option.map_some, firstBB_map h, firstType_map h]
            cases firstBB ra P.backbone with
            | none => rfl
            | some a =>
              cases firstBB rb P.backbone with
              | none => rfl
              | some b =>
                simp only [Option.map_some, h.dist, h.key]
                split
                · cases firstType ra P.pre c.chainA c.residA with
                  | none => rfl
                  | some ta =>
                    cases firstType rb P.pre c.chainB c.residB with
                    | none => rfl
                    | some tb => rfl
                · rfl

theorem step_rekey (ρ : Int → Int) (s : LoopState) (c : Cand) :
    step (rekeyState ρ s) (Cand.rekey ρ c) = rekeyState ρ (step s c) := by
  unfold step
  have e1 : (Cand.rekey ρ c).swapped = c.swapped := rfl
  have e2 : (Cand.rekey ρ c).triple = c.triple := rfl
  have e3 : (rekeyState ρ s).cm = s.cm := rfl
  rw [e1, e2, e3]
  split
  · simp [rekeyState]
  · simp [rekeyState]

theorem runLoop_rekey (ρ : Int → Int) (vs : List Verdict) (s : LoopState) :
    runLoop (vs.map (rekeyVerdict ρ)) (rekeyState ρ s) = Outcome.rekey ρ (runLoop vs s) := by
  induction vs generalizing s with
  | nil => rfl
  | cons v rest ih =>
    cases v with
    | skip => exact ih s
    | exit => rfl
    | keyerror => rfl
    | cand c =>
      simp only [List.map_cons, rekeyVerdict, runLoop]
      rw [step_rekey]
      exact ih _

/-- **the general statement**: every presentation change `g` of the node table (keys through `ρ`, identity fields
and squared distances kept) with `ρ` strictly increasing on the keys that occur leaves the outcome of the contact
selection unchanged up to sending the backbone keys through `ρ`. -/
theorem select_pres (h : Pres ρ g) (P : Params) (atoms : List C18.Atom) (edges : List (Int × Int))
    (contacts : List Contact) (hm : MonoOn ρ (keys18 atoms edges)) :
    selectContacts P (atoms.map g) (rekeyEdges18 ρ edges) contacts
      = Outcome.rekey ρ (selectContacts P atoms edges contacts) := by
  have hmA : MonoOn ρ (atoms.map (·.key)) := MonoOn.sub hm (fun x hx => List.mem_append_left _ hx)
  rw [selectContacts_eq, selectContacts_eq, residuesOf_map h atoms hmA]
  have hE : resEdges ((residuesOf atoms).map (mapRes g)) (rekeyEdges18 ρ edges)
      = resEdges (residuesOf atoms) edges := by
    apply resEdges_map h
    intro e he r hr a ha
    have haK : a.key ∈ keys18 atoms edges :=
      List.mem_append_left _ (List.mem_map_of_mem ((mem_residuesOf atoms a).mp ⟨r, hr, ha⟩))
    have h1 : e.1 ∈ keys18 atoms edges :=
      List.mem_append_right _ (List.mem_flatMap.mpr ⟨e, he, by simp⟩)
    have h2 : e.2 ∈ keys18 atoms edges :=
      List.mem_append_right _ (List.mem_flatMap.mpr ⟨e, he, by simp⟩)
    exact ⟨MonoOn.inj hm haK h1, MonoOn.inj hm haK h2⟩
  rw [hE]
  have hv : contacts.map (classify P ((residuesOf atoms).map (mapRes g)) (resEdges (residuesOf atoms) edges))
      = (contacts.map (classify P (residuesOf atoms) (resEdges (residuesOf atoms) edges))).map (rekeyVerdict ρ) := by
    rw [List.map_map]
    apply List.map_congr_left
    intro c _
    exact classify_map h P _ _ c
  rw [hv]
  exact runLoop_rekey ρ _ { cm := [], out := [] }

theorem Cand.rekey_id (c : Cand) : Cand.rekey id c = c := rfl

theorem Outcome.rekey_id (o : Outcome) : Outcome.rekey id o = o := by
  cases o with
  | ok out =>
    simp only [Outcome.rekey]
    congr 1
    rw [List.map_congr_left (fun c _ => Cand.rekey_id c), List.map_id']
  | exit => rfl
  | keyerror => rfl

theorem rekeyEdges_id (edges : List (Int × Int)) : rekeyEdges18 id edges = edges := by
  unfold rekeyEdges18
  exact List.map_id' edges

theorem monoOn_id (K : List Int) : MonoOn id K := fun _ _ _ _ h => h

theorem pres_move (f : Pos → Pos) (hf : ∀ p q, dist2 (f p) (f q) = dist2 p q) : Pres id (moveAtom18 f) where
  key _ := rfl
  atomname _ := rfl
  resid _ := rfl
  oldResid _ := rfl
  resname _ := rfl
  chain _ := rfl
  atype _ := rfl
  dist a b := hf a.pos b.pos

theorem pres_rekey (ρ : Int → Int) : Pres ρ (rekey18 ρ) where
  key _ := rfl
  atomname _ := rfl
  resid _ := rfl
  oldResid _ := rfl
  resname _ := rfl
  chain _ := rfl
  atype _ := rfl
  dist _ _ := rfl

/-! ### virtual sites under a motion -/

theorem vsLoop_move (f : Pos → Pos) (pre bb vsn : String) (atoms : List C18.Atom) (k c : Int) :
    vsLoop pre bb vsn (atoms.map (moveAtom18 f)) k c = (vsLoop pre bb vsn atoms k c).map (moveSite18 f) := by
  induction atoms generalizing k c with
  | nil => rfl
  | cons a rest ih =>
    simp only [List.map_cons, vsLoop]
    have e : (moveAtom18 f a).atomname = a.atomname := rfl
    rw [e]
    split
    · rw [ih, List.map_cons]; rfl
    · exact ih _ _

theorem addVirtualSites_move (f : Pos → Pos) (pre bb vsn : String) (atoms : List C18.Atom) :
    addVirtualSites pre bb vsn (atoms.map (moveAtom18 f)) = (addVirtualSites pre bb vsn atoms).map (moveSite18 f) := by
  unfold addVirtualSites
  have e1 : (atoms.map (moveAtom18 f)).map (·.key) = atoms.map (·.key) := by
    rw [List.map_map]; rfl
  have e2 : startCg (atoms.map (moveAtom18 f)) = startCg atoms := by
    unfold startCg
    rw [List.filterMap_map]; rfl
  rw [e1, e2, vsLoop_move]

theorem withSites_move (f : Pos → Pos) (atoms : List C18.Atom) (vs : List VSite) :
    withSites (atoms.map (moveAtom18 f)) (vs.map (moveSite18 f)) = (withSites atoms vs).map (moveAtom18 f) := by
  unfold withSites
  rw [List.map_append, List.map_map, List.map_map]
  rfl

/-! ### virtual sites under a renumbering -/

theorem maxInts_cons2 (a b : Int) (rest : List Int) :
    maxInts (a :: b :: rest) = max a (maxInts (b :: rest)) := rfl

theorem maxInts_mem : ∀ (l : List Int), l ≠ [] → maxInts l ∈ l
  | [], h => absurd rfl h
  | [a], _ => by simp [maxInts]
  | a :: b :: rest, _ => by
    have ih := maxInts_mem (b :: rest) (by simp)
    rw [maxInts_cons2]
    by_cases hle : maxInts (b :: rest) ≤ a
    · have : max a (maxInts (b :: rest)) = a := by omega
      rw [this]; exact List.mem_cons_self
    · have : max a (maxInts (b :: rest)) = maxInts (b :: rest) := by omega
      rw [this]; exact List.mem_cons_of_mem _ ih

theorem maxInts_map (ρ : Int → Int) : ∀ (l : List Int), l ≠ [] → MonoOn ρ l →
    maxInts (l.map ρ) = ρ (maxInts l)
  | [], h, _ => absurd rfl h
  | [a], _, _ => rfl
  | a :: b :: rest, _, hm => by
    have hm' : MonoOn ρ (b :: rest) := MonoOn.sub hm (fun x hx => List.mem_cons_of_mem _ hx)
    have ih := maxInts_map ρ (b :: rest) (by simp) hm'
    have hmem : maxInts (b :: rest) ∈ a :: b :: rest := List.mem_cons_of_mem _ (maxInts_mem (b :: rest) (by simp))
    have hle := MonoOn.le_iff hm (List.mem_cons_self (a := a)) hmem
    have hle' := MonoOn.le_iff hm hmem (List.mem_cons_self (a := a))
    simp only [List.map_cons] at ih ⊢
    rw [maxInts_cons2, maxInts_cons2, ih]
    by_cases hc : maxInts (b :: rest) ≤ a
    · have h1 := hle'.mpr hc
      have e1 : max a (maxInts (b :: rest)) = a := by omega
      rw [e1]
      omega
    · have h1 := hle.mpr (by omega)
      have e1 : max a (maxInts (b :: rest)) = maxInts (b :: rest) := by omega
      rw [e1]
      omega

theorem extendKey_le {ρ : Int → Int} {M k : Int} (h : k ≤ M) : extendKey ρ M k = ρ k := by
  simp only [extendKey, if_pos h]

theorem extendKey_gt {ρ : Int → Int} {M k : Int} (h : M < k) : extendKey ρ M k = ρ M + (k - M) := by
  simp only [extendKey, if_neg (show ¬ k ≤ M by omega)]

theorem vsLoop_key_gt (pre bb vsn : String) (atoms : List C18.Atom) (k c : Int) :
    ∀ v ∈ vsLoop pre bb vsn atoms k c, k < v.key := by
  induction atoms generalizing k c with
  | nil => intro v hv; simp [vsLoop] at hv
  | cons a rest ih =>
    intro v hv
    simp only [vsLoop] at hv
    split at hv
    · rcases List.mem_cons.mp hv with e | e
      · subst e; simp only [mkVS]; omega
      · have := ih _ _ v e; omega
    · exact ih _ _ v hv

theorem vsLoop_rekey (ρ : Int → Int) (M : Int) (pre bb vsn : String) (atoms : List C18.Atom) (k c : Int)
    (hk : M ≤ k) :
    vsLoop pre bb vsn (atoms.map (rekey18 ρ)) (ρ M + (k - M)) c
      = (vsLoop pre bb vsn atoms k c).map (rekeySite18 ρ (extendKey ρ M)) := by
  induction atoms generalizing k c with
  | nil => rfl
  | cons a rest ih =>
    simp only [List.map_cons, vsLoop]
    have e : (rekey18 ρ a).atomname = a.atomname := rfl
    rw [e]
    split
    · have e2 : ρ M + (k - M) + 1 = ρ M + (k + 1 - M) := by omega
      rw [e2, ih (k + 1) (c + 1) (by omega), List.map_cons]
      congr 1
      simp only [mkVS, rekeySite18, rekey18, extendKey_gt (show M < k + 1 by omega)]
    · exact ih k c hk

theorem addVirtualSites_rekey (ρ : Int → Int) (pre bb vsn : String) (atoms : List C18.Atom) (hne : atoms ≠ [])
    (hρ : MonoOn ρ (atoms.map (·.key))) :
    addVirtualSites pre bb vsn (atoms.map (rekey18 ρ))
      = (addVirtualSites pre bb vsn atoms).map (rekeySite18 ρ (extendKey ρ (maxInts (atoms.map (·.key))))) := by
  unfold addVirtualSites
  have e1 : (atoms.map (rekey18 ρ)).map (·.key) = (atoms.map (·.key)).map ρ := by
    rw [List.map_map, List.map_map]; rfl
  have e2 : startCg (atoms.map (rekey18 ρ)) = startCg atoms := by
    unfold startCg
    rw [List.filterMap_map]; rfl
  have hne' : atoms.map (·.key) ≠ [] := by simpa using hne
  rw [e1, e2, maxInts_map ρ _ hne' hρ]
  have := vsLoop_rekey ρ (maxInts (atoms.map (·.key))) pre bb vsn atoms (maxInts (atoms.map (·.key)))
    (startCg atoms) (Int.le_refl _)
  rw [Int.sub_self, Int.add_zero] at this
  exact this

theorem withSites_rekey (ρ ρ' : Int → Int) (atoms : List C18.Atom) (vs : List VSite)
    (h : ∀ a ∈ atoms, ρ' a.key = ρ a.key) :
    withSites (atoms.map (rekey18 ρ)) (vs.map (rekeySite18 ρ ρ')) = (withSites atoms vs).map (rekey18 ρ') := by
  unfold withSites
  rw [List.map_append, List.map_map, List.map_map]
  congr 1
  apply List.map_congr_left
  intro a ha
  simp only [rekey18, h a ha]

/-- strict monotonicity of the extended renumbering on everything the enlarged molecule mentions -/
theorem monoOn_extend (ρ : Int → Int) (pre bb vsn : String) (atoms : List C18.Atom) (edges : List (Int × Int))
    (hne : atoms ≠ []) (hρ : MonoOn ρ (atoms.map (·.key)))
    (hE : ∀ e ∈ edges, e.1 ∈ atoms.map (·.key) ∧ e.2 ∈ atoms.map (·.key)) :
    MonoOn (extendKey ρ (maxInts (atoms.map (·.key))))
      (keys18 (withSites atoms (addVirtualSites pre bb vsn atoms)) edges) := by
  have hne' : atoms.map (·.key) ≠ [] := by simpa using hne
  have hM := maxInts_mem _ hne'
  generalize hMdef : maxInts (atoms.map (·.key)) = M at hM
  have hle : ∀ x ∈ atoms.map (·.key), x ≤ M := fun x hx => hMdef ▸ le_maxInts _ x hx
  have hcl : ∀ x ∈ keys18 (withSites atoms (addVirtualSites pre bb vsn atoms)) edges,
      x ∈ atoms.map (·.key) ∨ M < x := by
    intro x hx
    unfold keys18 withSites at hx
    rw [List.map_append, List.append_assoc] at hx
    rcases List.mem_append.mp hx with h1 | h1
    · exact Or.inl h1
    rcases List.mem_append.mp h1 with h2 | h2
    · right
      rw [List.map_map] at h2
      obtain ⟨v, hv, rfl⟩ := List.mem_map.mp h2
      unfold addVirtualSites at hv
      have := vsLoop_key_gt _ _ _ _ _ _ v hv
      rw [hMdef] at this
      exact this
    · left
      obtain ⟨e, he, hxe⟩ := List.mem_flatMap.mp h2
      simp only [List.mem_cons, List.not_mem_nil, or_false] at hxe
      rcases hxe with rfl | rfl
      · exact (hE e he).1
      · exact (hE e he).2
  intro x hx y hy hxy
  rcases hcl x hx with h1 | h1 <;> rcases hcl y hy with h2 | h2
  · rw [extendKey_le (hle x h1), extendKey_le (hle y h2)]
    exact hρ x h1 y h2 hxy
  · rw [extendKey_le (hle x h1), extendKey_gt h2]
    have := (MonoOn.le_iff hρ h1 hM).mpr (hle x h1)
    omega
  · have := hle y h2
    omega
  · rw [extendKey_gt h1, extendKey_gt h2]
    omega

end S18

open S18

/-! ## concrete data for the non-vacuity examples -/
namespace Ex18

/-- the worked molecule of `VermouthProps/C18.lean` after virtual-site creation (10 nodes, keys 2..13) -/
def atoms : List C18.Atom :=
  C18.withSites C18.Example.atoms (C18.addVirtualSites "mol_0" "BB" "CA" C18.Example.atoms)
def edges : List (Int × Int) := C18.Example.edges
def contacts : List C18.Contact := C18.Example.contacts
def P : C18.Params := C18.Example.P

/-- rotation by 90 degrees about z -/
def rotZ : Mat3 := ⟨(0, -1, 0), (1, 0, 0), (0, 0, 1)⟩
def t : V3 := (5, -7, 11)

/-- strictly increasing on the keys 2..13 that occur, NOT strictly increasing on all integers -/
def ρ (k : Int) : Int := if k ≤ 13 then 3 * k - 20 else 0

/-- globally strictly increasing -/
def dbl (k : Int) : Int := 2 * k

/-- three one-bead residues of chain A; the first two carry the same `_old_resid` 1 -/
def mkBB (key resid old : Int) (ty : String) (p : C18.Pos) : C18.Atom :=
  { key := key, atomname := "BB", resid := resid, oldResid := old, resname := "ALA", chain := "A", atype := ty,
    cg := none, pos := p, ss := none }
def dupAtoms : List C18.Atom :=
  [mkBB 1 1 1 "g_1" (0, 0, 0), mkBB 2 2 1 "g_2" (10, 0, 0), mkBB 3 3 3 "g_3" (0, 3, 0)]
def dupContacts : List C18.Contact := [⟨1, "A", 3, "A"⟩, ⟨3, "A", 1, "A"⟩]
def Pd : C18.Params := { pre := "g", backbone := "BB", low := ⟨1, 1⟩, up := ⟨5, 1⟩, sep := 0 }
/-- injective, not order preserving -/
def swap12 (k : Int) : Int := if k = 1 then 2 else if k = 2 then 1 else k

end Ex18

/-! ## (A) rigid motion -/

/-- **the contact selection is invariant under every isometry of the positions**: the same Go pairs with the same
types, the same squared distances and the same backbone keys in the same order, or the same error outcome. -/
theorem c18_select_isometry_invariant (f : C18.Pos → C18.Pos)
    (hf : ∀ p q, C18.dist2 (f p) (f q) = C18.dist2 p q)
    (P : C18.Params) (atoms : List C18.Atom) (edges : List (Int × Int)) (contacts : List C18.Contact) :
    C18.selectContacts P (atoms.map (moveAtom18 f)) edges contacts = C18.selectContacts P atoms edges contacts := by
  have := select_pres (pres_move f hf) P atoms edges contacts (monoOn_id _)
  rwa [rekeyEdges_id, Outcome.rekey_id] at this

/-- the hypothesis holds for a translation (and for every `move A t`, `A.IsOrtho`, see below) -/
example : ∀ p q : C18.Pos, C18.dist2 (V3.add p Ex18.t) (V3.add q Ex18.t) = C18.dist2 p q := by
  intro p q
  rw [c18_dist2_eq, c18_dist2_eq, sqdist_translate]

/-- **`GoPipeline` commutes with every isometry**: the virtual sites of the moved molecule are the moved virtual
sites (same keys, types, charge groups, ...), and the outcome of the contact selection is the same. -/
theorem c18_pipeline_isometry_equivariant (f : C18.Pos → C18.Pos)
    (hf : ∀ p q, C18.dist2 (f p) (f q) = C18.dist2 p q)
    (P : C18.Params) (vsn : String) (atoms : List C18.Atom) (edges : List (Int × Int))
    (contacts : List C18.Contact) :
    C18.goPipeline P vsn (atoms.map (moveAtom18 f)) edges contacts
      = (((C18.goPipeline P vsn atoms edges contacts).1.map (fun v => { v with pos := f v.pos })),
         (C18.goPipeline P vsn atoms edges contacts).2) := by
  unfold C18.goPipeline
  simp only
  rw [addVirtualSites_move, withSites_move, c18_select_isometry_invariant f hf]
  rfl

/-- instance: the exact rigid motions `p ↦ A p + t`, `AᵀA = I` -/
theorem c18_select_rigid_invariant (A : Mat3) (hA : A.IsOrtho) (t : V3)
    (P : C18.Params) (atoms : List C18.Atom) (edges : List (Int × Int)) (contacts : List C18.Contact) :
    C18.selectContacts P (atoms.map (moveAtom18 (move A t))) edges contacts
      = C18.selectContacts P atoms edges contacts :=
  c18_select_isometry_invariant (move A t) (go_distance_rigid_invariant A hA t) P atoms edges contacts

example : Ex18.rotZ.IsOrtho := by decide
/-- the concrete instance, computed on both sides: one Go pair, emitted at the second occurrence of the contact -/
example : C18.selectContacts Ex18.P Ex18.atoms Ex18.edges Ex18.contacts
    = .ok [{ ta := "mol_0_4", tb := "mol_0_1", d2 := 25, bbA := 9, bbB := 2 }] := by decide
example : C18.selectContacts Ex18.P (Ex18.atoms.map (moveAtom18 (move Ex18.rotZ Ex18.t))) Ex18.edges Ex18.contacts
    = .ok [{ ta := "mol_0_4", tb := "mol_0_1", d2 := 25, bbA := 9, bbB := 2 }] := by decide

theorem c18_pipeline_rigid_equivariant (A : Mat3) (hA : A.IsOrtho) (t : V3)
    (P : C18.Params) (vsn : String) (atoms : List C18.Atom) (edges : List (Int × Int))
    (contacts : List C18.Contact) :
    C18.goPipeline P vsn (atoms.map (moveAtom18 (move A t))) edges contacts
      = (((C18.goPipeline P vsn atoms edges contacts).1.map (fun v => { v with pos := move A t v.pos })),
         (C18.goPipeline P vsn atoms edges contacts).2) :=
  c18_pipeline_isometry_equivariant (move A t) (go_distance_rigid_invariant A hA t) P vsn atoms edges contacts

example : ((C18.goPipeline Ex18.P "CA" (C18.Example.atoms.map (moveAtom18 (move Ex18.rotZ Ex18.t)))
      Ex18.edges Ex18.contacts).1.map (fun v => (v.key, v.pos)))
    = [(10, (5, -7, 11)), (11, (5, -6, 11)), (12, (1, -7, 11)), (13, (1, -4, 11))] := by decide

/-- the exclusions and the `nonbond_params` pairs written for the moved molecule are those of the original -/
theorem c18_exclusions_rigid_invariant (A : Mat3) (hA : A.IsOrtho) (t : V3)
    (P : C18.Params) (atoms : List C18.Atom) (edges : List (Int × Int)) (contacts : List C18.Contact)
    (out : List C18.Cand) (hok : C18.selectContacts P atoms edges contacts = .ok out) :
    ∃ out', C18.selectContacts P (atoms.map (moveAtom18 (move A t))) edges contacts = .ok out'
      ∧ C18.exclusionsOf out' = C18.exclusionsOf out ∧ C18.nonbondOf out' = C18.nonbondOf out :=
  ⟨out, by rw [c18_select_rigid_invariant A hA t, hok], rfl, rfl⟩

example : ∃ out, C18.selectContacts Ex18.P Ex18.atoms Ex18.edges Ex18.contacts = .ok out ∧ out ≠ [] :=
  ⟨[{ ta := "mol_0_4", tb := "mol_0_1", d2 := 25, bbA := 9, bbB := 2 }], by decide, by decide⟩

/-! ## (B) renumbering of the node keys

What is needed of `ρ`: STRICTLY INCREASING ON THE KEYS THE MOLECULE MENTIONS (`keys18`: node keys and both end
points of every edge, dangling ones included).  Order preservation on the node keys is what keeps the residue order
(`sorted(partitions, key=min)`), hence the residue indices, hence which residue wins in `_chain_id_to_resnode`;
injectivity on node keys + edge end points is what keeps `partition_graph` (an end point that is not a node key must
not be sent onto a node key).  Nothing is required outside these keys.  Member order inside a residue is node order
and is not affected. -/

/-- **the contact selection commutes with every renumbering of the node keys that is strictly increasing on the
keys the molecule mentions**: same pairs, types, squared distances, order and error outcome; the backbone keys
are the renumbered ones. -/
theorem c18_select_rekey_equivariant (ρ : Int → Int)
    (P : C18.Params) (atoms : List C18.Atom) (edges : List (Int × Int)) (contacts : List C18.Contact)
    (hρ : ∀ x ∈ keys18 atoms edges, ∀ y ∈ keys18 atoms edges, x < y → ρ x < ρ y) :
    C18.selectContacts P (atoms.map (rekey18 ρ)) (edges.map (fun e => (ρ e.1, ρ e.2))) contacts
      = Outcome.rekey ρ (C18.selectContacts P atoms edges contacts) :=
  select_pres (pres_rekey ρ) P atoms edges contacts hρ

example : ∀ x ∈ keys18 Ex18.atoms Ex18.edges, ∀ y ∈ keys18 Ex18.atoms Ex18.edges, x < y → Ex18.ρ x < Ex18.ρ y := by
  decide
/-- ... although `Ex18.ρ` is not increasing outside the keys that occur -/
example : ¬ (∀ x y : Int, x < y → Ex18.ρ x < Ex18.ρ y) := fun h => absurd (h 13 14 (by decide)) (by decide)
/-- the renumbered molecule, computed: the same pair, backbone keys `ρ 9 = 7`, `ρ 2 = -14` -/
example : C18.selectContacts Ex18.P (Ex18.atoms.map (rekey18 Ex18.ρ))
      (Ex18.edges.map (fun e => (Ex18.ρ e.1, Ex18.ρ e.2))) Ex18.contacts
    = .ok [{ ta := "mol_0_4", tb := "mol_0_1", d2 := 25, bbA := 7, bbB := -14 }] := by decide

/-- exclusions of the renumbered molecule are the renumbered exclusions, the `nonbond_params` pairs are the same -/
theorem c18_exclusions_rekey_equivariant (ρ : Int → Int)
    (P : C18.Params) (atoms : List C18.Atom) (edges : List (Int × Int)) (contacts : List C18.Contact)
    (hρ : ∀ x ∈ keys18 atoms edges, ∀ y ∈ keys18 atoms edges, x < y → ρ x < ρ y)
    (out : List C18.Cand) (hok : C18.selectContacts P atoms edges contacts = .ok out) :
    ∃ out', C18.selectContacts P (atoms.map (rekey18 ρ)) (edges.map (fun e => (ρ e.1, ρ e.2))) contacts = .ok out'
      ∧ C18.exclusionsOf out' = (C18.exclusionsOf out).map (fun e => (ρ e.1, ρ e.2))
      ∧ C18.nonbondOf out' = C18.nonbondOf out := by
  refine ⟨out.map (Cand.rekey ρ), ?_, ?_, ?_⟩
  · rw [c18_select_rekey_equivariant ρ P atoms edges contacts hρ, hok]; rfl
  · simp only [C18.exclusionsOf, List.map_map]; rfl
  · simp only [C18.nonbondOf, List.map_map]; rfl

/-- **an injective renumbering that does not preserve the order changes the outcome, not only the names.**
Residues 1 and 2 of chain A carry the same `_old_resid` 1 (so `KeysDistinct` fails); the contact map lists A1-A3 in
both directions.  With the keys 1, 2, 3 the residue order is (1, 2, 3), `_chain_id_to_resnode` resolves (A, 1) to
residue 2 (the later one wins), which is too far from residue 3: nothing is emitted.  After exchanging the keys 1
and 2 the residue order is (2, 1, 3), (A, 1) resolves to residue 1, which is at distance 3: a Go pair is emitted. -/
theorem c18_rekey_nonmonotone_witness :
    (∀ x ∈ keys18 Ex18.dupAtoms [], ∀ y ∈ keys18 Ex18.dupAtoms [], Ex18.swap12 x = Ex18.swap12 y → x = y)
    ∧ (Ex18.dupAtoms.map (·.key)).Nodup
    ∧ C18.selectContacts Ex18.Pd Ex18.dupAtoms [] Ex18.dupContacts = .ok []
    ∧ C18.selectContacts Ex18.Pd (Ex18.dupAtoms.map (rekey18 Ex18.swap12)) [] Ex18.dupContacts
        = .ok [{ ta := "g_3", tb := "g_1", d2 := 9, bbA := 3, bbB := 2 }]
    ∧ C18.selectContacts Ex18.Pd (Ex18.dupAtoms.map (rekey18 Ex18.swap12)) [] Ex18.dupContacts
        ≠ Outcome.rekey Ex18.swap12 (C18.selectContacts Ex18.Pd Ex18.dupAtoms [] Ex18.dupContacts) := by
  decide

/-- in the witness two residues share (chain, `_old_resid`): the decidable criterion for `KeysDistinct` fails -/
example : ¬ ((C18.residuesOf Ex18.dupAtoms).map (fun r => (r.chain, r.old))).Nodup := by decide

/-! NOT PROVED (believed true, no counterexample found): if the node keys are pairwise distinct and
`C18.KeysDistinct (C18.residuesOf atoms)` holds, then `c18_select_rekey_equivariant` holds for every `ρ` that is
merely INJECTIVE on `keys18 atoms edges`.  Reason: the residue list of the renumbered molecule is then a
permutation `σ` of the renumbered residue list, `findRes` and `resIndexOf` are determined by content (unique
(chain, `_old_resid`), unique node key) so all residue indices and the residue-graph edges are transported by `σ`,
and `ball` is invariant under graph isomorphism.  The proof needs the transport of `Within` along `σ` and is not
done here.  The order of the residues matters only through the "last one wins" rule of `findRes` (witness above)
and through ties of `sortResidues` / first hits of `resIndexOf`, which need repeated node keys.  A supporting
instance: the order-REVERSING renumbering `k ↦ 20 - k` of the worked molecule (which satisfies `KeysDistinct`)
gives the renamed outcome. -/
example : ((C18.residuesOf Ex18.atoms).map (fun r => (r.chain, r.old))).Nodup ∧ (Ex18.atoms.map (·.key)).Nodup := by
  decide
example : C18.selectContacts Ex18.P (Ex18.atoms.map (rekey18 (fun k => 20 - k)))
      (Ex18.edges.map (fun e => (20 - e.1, 20 - e.2))) Ex18.contacts
    = Outcome.rekey (fun k => 20 - k) (C18.selectContacts Ex18.P Ex18.atoms Ex18.edges Ex18.contacts) := by decide

/-! ### `GoPipeline` under renumbering

`add_virtual_sites` numbers the new nodes `max key + 1, max key + 2, ...`.  A strictly increasing `ρ` commutes
neither with `max ... + 1` nor with `+ 1`, so the site keys of the renumbered molecule are NOT the renumbered site
keys (`c18_pipeline_rekey_site_keys_witness`).  What holds: the site keys of the renumbered molecule are
`ρ (max key) + 1, ...`, i.e. the images under `extendKey ρ (max key)`; every other attribute of the sites is the
same, `bb` is renumbered by `ρ`, and the outcome of the contact selection is renumbered by the extended map - which
is `ρ` itself on the emitted backbone keys as soon as the sites are not named like the backbone bead. -/

theorem c18_pipeline_rekey_site_keys_witness :
    (∀ x y : Int, x < y → Ex18.dbl x < Ex18.dbl y)
    ∧ (C18.goPipeline Ex18.P "CA" (C18.Example.atoms.map (rekey18 Ex18.dbl))
          (Ex18.edges.map (fun e => (Ex18.dbl e.1, Ex18.dbl e.2))) Ex18.contacts).1.map (·.key) = [19, 20, 21, 22]
    ∧ (C18.goPipeline Ex18.P "CA" C18.Example.atoms Ex18.edges Ex18.contacts).1.map (fun v => Ex18.dbl v.key)
        = [20, 22, 24, 26] := by
  refine ⟨fun x y h => by unfold Ex18.dbl; omega, by decide, by decide⟩

/-- **`GoPipeline` commutes with a renumbering that is strictly increasing on the node keys, the renumbering being
extended to the new site keys by `extendKey`** (non-empty molecule, every edge end point is a node key). -/
theorem c18_pipeline_rekey_equivariant (ρ : Int → Int)
    (P : C18.Params) (vsn : String) (atoms : List C18.Atom) (edges : List (Int × Int))
    (contacts : List C18.Contact) (hne : atoms ≠ [])
    (hρ : ∀ x ∈ atoms.map (·.key), ∀ y ∈ atoms.map (·.key), x < y → ρ x < ρ y)
    (hE : ∀ e ∈ edges, e.1 ∈ atoms.map (·.key) ∧ e.2 ∈ atoms.map (·.key)) :
    C18.goPipeline P vsn (atoms.map (rekey18 ρ)) (edges.map (fun e => (ρ e.1, ρ e.2))) contacts
      = ((C18.goPipeline P vsn atoms edges contacts).1.map
            (rekeySite18 ρ (extendKey ρ (C18.maxInts (atoms.map (·.key))))),
         Outcome.rekey (extendKey ρ (C18.maxInts (atoms.map (·.key))))
            (C18.goPipeline P vsn atoms edges contacts).2) := by
  have hle : ∀ x ∈ atoms.map (·.key), extendKey ρ (C18.maxInts (atoms.map (·.key))) x = ρ x :=
    fun x hx => extendKey_le (C18.le_maxInts _ x hx)
  have hEd : edges.map (fun e => (ρ e.1, ρ e.2))
      = rekeyEdges18 (extendKey ρ (C18.maxInts (atoms.map (·.key)))) edges := by
    unfold rekeyEdges18
    apply List.map_congr_left
    intro e he
    rw [hle _ (hE e he).1, hle _ (hE e he).2]
  unfold C18.goPipeline
  simp only
  rw [addVirtualSites_rekey ρ _ _ _ atoms hne hρ,
    withSites_rekey ρ _ atoms _ (fun a ha => hle _ (List.mem_map_of_mem ha)), hEd,
    select_pres (pres_rekey _) P _ edges contacts (monoOn_extend ρ _ _ _ atoms edges hne hρ hE)]

example : C18.Example.atoms ≠ [] := by decide
example : ∀ x ∈ C18.Example.atoms.map (·.key), ∀ y ∈ C18.Example.atoms.map (·.key), x < y → Ex18.ρ x < Ex18.ρ y := by
  decide
example : ∀ e ∈ Ex18.edges, e.1 ∈ C18.Example.atoms.map (·.key) ∧ e.2 ∈ C18.Example.atoms.map (·.key) := by decide
/-- computed: the new site keys continue after `ρ 9 = 7`, the emitted backbone keys are `ρ 9`, `ρ 2` -/
example : (C18.goPipeline Ex18.P "CA" (C18.Example.atoms.map (rekey18 Ex18.ρ))
      (Ex18.edges.map (fun e => (Ex18.ρ e.1, Ex18.ρ e.2))) Ex18.contacts)
    = ((C18.goPipeline Ex18.P "CA" C18.Example.atoms Ex18.edges Ex18.contacts).1.map
          (rekeySite18 Ex18.ρ (fun k => k - 2)),
       .ok [{ ta := "mol_0_4", tb := "mol_0_1", d2 := 25, bbA := 7, bbB := -14 }]) := by decide

/-- every emitted backbone key is the key of a node of the INPUT molecule when the sites are not named like the
backbone bead -/
theorem c18_pipeline_bb_old (P : C18.Params) (vsn : String) (atoms : List C18.Atom) (edges : List (Int × Int))
    (contacts : List C18.Contact) (hvs : vsn ≠ P.backbone) (out : List C18.Cand)
    (hok : (C18.goPipeline P vsn atoms edges contacts).2 = .ok out) (y : C18.Cand) (hy : y ∈ out) :
    y.bbA ∈ atoms.map (·.key) ∧ y.bbB ∈ atoms.map (·.key) := by
  obtain ⟨⟨c, _, hel⟩, _⟩ := C18.go_pair_sound P _ _ contacts out hok y hy
  obtain ⟨ia, ib, ra, rb, a, b, _, _, _, hra, hrb, ha, hb, _, _, _, _, _, hA, hB⟩ := hel
  have key : ∀ (i : Nat) (r : C18.Residue) (a : C18.Atom),
      (C18.residuesOf (C18.withSites atoms (C18.addVirtualSites P.pre P.backbone vsn atoms)))[i]? = some r →
      C18.firstBB r P.backbone = some a → a.key ∈ atoms.map (·.key) := by
    intro i r a hr hf
    obtain ⟨hm, hn⟩ := C18.firstBB_some hf
    have hmem := (C18.mem_residuesOf _ a).mp ⟨r, List.mem_of_getElem? hr, hm⟩
    unfold C18.withSites at hmem
    rcases List.mem_append.mp hmem with h1 | h1
    · exact List.mem_map_of_mem h1
    · obtain ⟨v, hv, rfl⟩ := List.mem_map.mp h1
      obtain ⟨a0, _, _, _, _, _, _, _, _, _, _, _, hname, _⟩ := C18.vs_attributes _ _ _ _ v hv
      exact absurd (hname.symm.trans hn) hvs
  rw [hA, hB]
  exact ⟨key ia ra a hra ha, key ib rb b hrb hb⟩

/-- **the outcome of `GoPipeline` on the renumbered molecule is the renumbered outcome** (sites not named like the
backbone bead; non-empty molecule; `ρ` strictly increasing on the node keys; every edge end point is a node key) -/
theorem c18_pipeline_rekey_outcome (ρ : Int → Int)
    (P : C18.Params) (vsn : String) (atoms : List C18.Atom) (edges : List (Int × Int))
    (contacts : List C18.Contact) (hne : atoms ≠ []) (hvs : vsn ≠ P.backbone)
    (hρ : ∀ x ∈ atoms.map (·.key), ∀ y ∈ atoms.map (·.key), x < y → ρ x < ρ y)
    (hE : ∀ e ∈ edges, e.1 ∈ atoms.map (·.key) ∧ e.2 ∈ atoms.map (·.key)) :
    (C18.goPipeline P vsn (atoms.map (rekey18 ρ)) (edges.map (fun e => (ρ e.1, ρ e.2))) contacts).2
      = Outcome.rekey ρ (C18.goPipeline P vsn atoms edges contacts).2 := by
  rw [c18_pipeline_rekey_equivariant ρ P vsn atoms edges contacts hne hρ hE]
  simp only
  cases hout : (C18.goPipeline P vsn atoms edges contacts).2 with
  | exit => rfl
  | keyerror => rfl
  | ok out =>
    simp only [Outcome.rekey]
    congr 1
    apply List.map_congr_left
    intro y hy
    obtain ⟨h1, h2⟩ := c18_pipeline_bb_old P vsn atoms edges contacts hvs out hout y hy
    simp only [Cand.rekey, extendKey_le (C18.le_maxInts _ _ h1), extendKey_le (C18.le_maxInts _ _ h2)]

example : ("CA" : String) ≠ Ex18.P.backbone := by decide

end C11
