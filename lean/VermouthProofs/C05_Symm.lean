import VermouthModel.C05
namespace C05

theorem matchOrderCore_symm (t1 : OType) (v1 r1 : Int) (t2 : OType) (v2 r2 : Int) :
    matchOrderCore t1 v1 r1 t2 v2 r2 = matchOrderCore t2 v2 r2 t1 v1 r1 := by
  cases t1 <;> cases t2 <;> simp [matchOrderCore, sgn] <;> (repeat' split) <;> first | rfl | omega | grind

/-- `match_order` does not depend on which residue is on the left -/
theorem matchOrder_symm (o1 : Order) (r1 : Int) (o2 : Order) (r2 : Int) :
    matchOrder o1 r1 o2 r2 = matchOrder o2 r2 o1 r1 := by
  unfold matchOrder
  cases h1 : interpretOrder o1 <;> cases h2 : interpretOrder o2 <;> simp
  exact matchOrderCore_symm ..

end C05
