import VermouthModel.C17_Select
import VermouthProofs.C17_Cli
/-!
C17 (follow-up round) — helper lemmas for `VermouthProps/C17_Select.lean`.
-/
namespace C17

/-! ## `is_protein` -/

theorem protName_iff (tbl : List String) (v : PyVal) :
    protName tbl v = true ↔ ∃ s, v = .str s ∧ s ∈ tbl := by
  cases v with
  | none => simp [protName]
  | int i => simp [protName]
  | str s => simp [protName]

theorem isProtein_iff (tbl : List String) (ns : NMol) :
    isProtein tbl ns = true ↔ ∀ n ∈ ns, ∃ s, n.resname = .str s ∧ s ∈ tbl := by
  unfold isProtein
  rw [List.all_eq_true]
  exact forall_congr' fun n => imp_congr_right fun _ => protName_iff tbl n.resname

theorem isProtein_false_iff (tbl : List String) (ns : NMol) :
    isProtein tbl ns = false ↔ ∃ n ∈ ns, ∀ s, n.resname = .str s → s ∉ tbl := by
  unfold isProtein
  rw [List.all_eq_false]
  constructor
  · rintro ⟨n, hn, hx⟩
    refine ⟨n, hn, fun s hs hm => hx ((protName_iff tbl n.resname).mpr ⟨s, hs, hm⟩)⟩
  · rintro ⟨n, hn, hx⟩
    refine ⟨n, hn, fun hp => ?_⟩
    obtain ⟨s, hs, hm⟩ := (protName_iff tbl n.resname).mp hp
    exact hx s hs hm

/-! ## the residue code -/

theorem resCode_eq_iff (ns : NMol) (a b : Node) (ha : a ∈ ns) :
    resCode ns a = resCode ns b ↔ a.ident = b.ident := by
  constructor
  · intro h
    unfold resCode at h
    have hm : a.ident ∈ ns.map Node.ident := List.mem_map.mpr ⟨a, ha, rfl⟩
    have hlt : List.idxOf a.ident (ns.map Node.ident) < (ns.map Node.ident).length :=
      List.idxOf_lt_length_iff.mpr hm
    have hlt' : List.idxOf b.ident (ns.map Node.ident) < (ns.map Node.ident).length := h ▸ hlt
    have e1 := List.getElem_idxOf hlt
    have e2 := List.getElem_idxOf hlt'
    rw [← e1, ← e2]
    congr 1
  · intro h
    unfold resCode
    rw [h]

/-! ## the partition depends on keys and residue codes only -/

theorem collectResidues_congr (m m' : Mol)
    (h : m.map (fun a => (a.res, a.key)) = m'.map (fun a => (a.res, a.key))) :
    collectResidues m = collectResidues m' := by
  have e : ∀ (x : Mol), collectResidues x
      = (x.map fun a => (a.res, a.key)).foldl (fun d p => dictAdd d p.1 p.2) [] := by
    intro x
    unfold collectResidues
    rw [List.foldl_map]
  rw [e m, e m', h]

theorem iterResidues_congr (m m' : Mol)
    (h : m.map (fun a => (a.res, a.key)) = m'.map (fun a => (a.res, a.key))) :
    iterResidues m = iterResidues m' ∧ iterResiduesExact m = iterResiduesExact m' := by
  unfold iterResidues iterResiduesExact
  rw [collectResidues_congr m m' h]
  exact ⟨rfl, rfl⟩

theorem toSrc_codes (ns : NMol) :
    (toSrc ns).map (fun a => (a.res, a.key))
      = ns.map (fun n => ((ns.map Node.ident).idxOf n.ident, n.key)) := by
  simp [toSrc, toMol2, srcMol, resCode, List.map_map, Function.comp_def]

theorem toDst_codes (ns : NMol) :
    (toDst ns).map (fun a => (a.res, a.key))
      = ns.map (fun n => ((ns.map Node.ident).idxOf n.ident, n.key)) := by
  simp [toDst, toMol2, dstMol, resCode, List.map_map, Function.comp_def]

theorem codes_congr (ns ns' : NMol)
    (h : ns.map (fun n => (n.key, n.ident)) = ns'.map (fun n => (n.key, n.ident))) :
    ns.map (fun n => ((ns.map Node.ident).idxOf n.ident, n.key))
      = ns'.map (fun n => ((ns'.map Node.ident).idxOf n.ident, n.key)) := by
  have hid : ns.map Node.ident = ns'.map Node.ident := by
    have := congrArg (List.map Prod.snd) h
    simpa [List.map_map, Function.comp_def] using this
  have e : ∀ (x : NMol) (L : List Ident), x.map (fun n => (L.idxOf n.ident, n.key))
      = (x.map fun n => (n.key, n.ident)).map (fun p => (L.idxOf p.2, p.1)) := by
    intro x L
    simp [List.map_map, Function.comp_def]
  rw [e ns, e ns', h, hid]

/-! ## the conversion only writes the target attribute -/

theorem annotateMolCode_length (m d : Mol) (seq : List Nat) (h : annotateMolCode m seq = .ok d) :
    d.length = m.length := by
  unfold annotateMolCode at h
  simp only at h
  split at h
  · injection h with h; subst h; rw [assignCode_eq_map, List.length_map]
  · split at h
    · cases h
    · injection h with h; subst h; rw [assignCode_eq_map, List.length_map]

theorem srcMol_withDst (m : Mol2) (d : Mol) (h : d.length = m.length) :
    srcMol (withDst m d) = srcMol m := by
  induction m generalizing d with
  | nil => cases d <;> rfl
  | cons a m ih =>
    cases d with
    | nil => simp at h
    | cons b d =>
      have : srcMol (withDst (a :: m) (b :: d)) = ⟨a.key, a.res, a.src⟩ :: srcMol (withDst m d) := rfl
      rw [this, ih d (by simpa using h)]
      rfl

theorem convertAnnotationCode_src (tbl : List (Char × Char)) (pats : List (List Char × List Char))
    (m y : Mol2) (h : convertAnnotationCode tbl pats m = .ok y) : srcMol y = srcMol m := by
  unfold convertAnnotationCode at h
  simp only at h
  split at h
  · split at h
    · cases h
    · split at h
      · cases h
      · rename_i d hd
        injection h with h
        subst h
        apply srcMol_withDst
        rw [annotateMolCode_length _ _ _ hd]
        simp [dstMol]
  · split at h
    · injection h with h; subst h; rfl
    · cases h

/-! ## histories -/

theorem mutate_read (T : Tables) (st : EState) (op : EOp) (h : op.isRead = true) : mutate T st op = st := by
  cases op <;> simp_all [EOp.isRead, mutate]

theorem runEdits_append (T : Tables) (st : EState) (ops1 ops2 : List EOp) :
    runEdits T st (ops1 ++ ops2) = runEdits T st ops1 ++ runEdits T (finalState T st ops1) ops2 := by
  induction ops1 generalizing st with
  | nil => rfl
  | cons op ops ih =>
    simp only [List.cons_append, runEdits, finalState, eStep]
    rw [ih]

theorem runEdits_length (T : Tables) (st : EState) (ops : List EOp) : (runEdits T st ops).length = ops.length := by
  induction ops generalizing st with
  | nil => rfl
  | cons op ops ih => simp [runEdits, ih]

theorem runEdits_getElem? (T : Tables) (st : EState) (ops : List EOp) (k : Nat) (op : EOp)
    (h : ops[k]? = some op) :
    (runEdits T st ops)[k]? = some (eStep T (finalState T st (ops.take k)) op) := by
  induction ops generalizing st k with
  | nil => simp at h
  | cons o ops ih =>
    cases k with
    | zero =>
      simp only [List.getElem?_cons_zero, Option.some.injEq] at h
      subst h
      simp [runEdits, finalState]
    | succ k =>
      simp only [List.getElem?_cons_succ] at h
      simp only [runEdits, List.getElem?_cons_succ, List.take_succ_cons, finalState, eStep]
      exact ih _ k h

theorem runEdits_drop_reads (T : Tables) (st : EState) (ops : List EOp) :
    ((ops.zip (runEdits T st ops)).filter (fun p => !p.1.isRead)).map (·.2)
      = runEdits T st (ops.filter fun o => !o.isRead) := by
  induction ops generalizing st with
  | nil => rfl
  | cons op ops ih =>
    simp only [runEdits, List.zip_cons_cons, List.filter_cons]
    by_cases hr : op.isRead = true
    · simp only [hr, Bool.not_true, Bool.false_eq_true, if_false]
      have : (eStep T st op).2 = st := mutate_read T st op hr
      rw [this]
      exact ih st
    · have hr' : op.isRead = false := by simpa using hr
      simp only [hr', Bool.not_false, if_true, List.map_cons, runEdits]
      rw [ih]

end C17
