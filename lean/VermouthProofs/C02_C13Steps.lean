import VermouthProofs.C02_C13Fuse
import VermouthProofs.C02_C13Chars
import VermouthProofs.C02_C13Tok
import VermouthProofs.C02_Walk
/-!
C02 ∘ C13 — what the repo reader does with each kind of line the writer model produces:
classification of the rendered line, and the effect of one step of the fused walk.
Core Lean only.
-/
namespace C02.Repo
open C13

/-! ### classification of written lines -/

def contentOf (l : C02.Line) : List C13.Line :=
  let cs := C13.stripComment (renderLineChars l)
  if cs.isEmpty then [] else [.content (String.ofList cs)]

/-- what `classify` makes of a written line -/
def cls : C02.Line → List C13.Line
  | .sect n => [.header (hdrName n)]
  | l => contentOf l

def ClsOk : C02.Line → Prop
  | .sect n => C02.tokS n
  | l => (C13.stripComment (renderLineChars l)).head? ≠ some '['

theorem classify_cons_content (cs : List Char) (rest : List String)
    (h : (C13.stripComment cs).head? ≠ some '[') :
    classify (String.ofList cs :: rest)
      = (classify rest).map ((let s := C13.stripComment cs
          if s.isEmpty then [] else [C13.Line.content (String.ofList s)]) ++ ·) := by
  simp only [classify, String.toList_ofList]
  by_cases he : (C13.stripComment cs).isEmpty = true
  · simp [he]
  · simp only [he, Bool.false_eq_true, if_false]
    have : ¬ ((C13.stripComment cs).head? = some '[') := h
    simp only [this, if_false]
    cases classify rest <;> simp

theorem render_sect (n : String) :
    renderLineChars (.sect n) = '[' :: ' ' :: (n.toList ++ [' ', ']']) := by
  simp [renderLineChars, joinSp]

theorem getLast_sect (n : String) : ('[' :: ' ' :: (n.toList ++ [' ', ']'])).getLast? = some ']' := by
  have : ('[' :: ' ' :: (n.toList ++ [' ', ']'])) = ('[' :: ' ' :: (n.toList ++ [' '])) ++ [']'] := by simp
  rw [this, List.getLast?_concat]

theorem stripComment_sect (n : String) (h : C02.tokS n) :
    C13.stripComment (renderLineChars (.sect n)) = '[' :: ' ' :: (n.toList ++ [' ', ']']) := by
  rw [stripComment_eq, render_sect]
  rw [C02.stripComment_noSemi _ (by
    intro c hc
    simp only [List.mem_cons, List.mem_append, List.not_mem_nil, or_false] at hc
    rcases hc with rfl | rfl | hc | rfl | rfl
    · decide
    · decide
    · exact ((h.2 c hc).2)
    · decide
    · decide)]
  exact stripChars_id _ _ '[' ']' rfl (by decide) (getLast_sect n) (by decide)

theorem classify_cons_sect (n : String) (rest : List String) (h : C02.tokS n) :
    classify (String.ofList (renderLineChars (.sect n)) :: rest)
      = (classify rest).map (C13.Line.header (hdrName n) :: ·) := by
  simp only [classify, String.toList_ofList, stripComment_sect n h]
  simp only [List.isEmpty_cons, Bool.false_eq_true, if_false, List.head?_cons, if_true]
  have hl := getLast_sect n
  rw [hl]
  simp only [if_true]
  rfl

theorem cls_eq_contentOf (l : C02.Line) (h : ∀ n, l ≠ .sect n) : cls l = contentOf l := by
  cases l <;> first | rfl | exact absurd rfl (h _)

theorem classify_lines (ls : List C02.Line) (h : ∀ l ∈ ls, ClsOk l) :
    classify (ls.map (fun l => String.ofList (renderLineChars l)) ++ [String.ofList []])
      = some (ls.flatMap cls) := by
  induction ls with
  | nil => simp [classify, C13.stripComment, C13.stripChars]
  | cons l t ih =>
    have iht := ih (fun x hx => h x (by simp [hx]))
    have hl := h l (by simp)
    simp only [List.map_cons, List.cons_append, List.flatMap_cons]
    cases l with
    | sect n => rw [classify_cons_sect n _ hl, iht]; rfl
    | blank => rw [classify_cons_content _ _ hl, iht]; rfl
    | comment _ => rw [classify_cons_content _ _ hl, iht]; rfl
    | directive _ _ => rw [classify_cons_content _ _ hl, iht]; rfl
    | free _ => rw [classify_cons_content _ _ hl, iht]; rfl
    | moltype _ _ => rw [classify_cons_content _ _ hl, iht]; rfl
    | atom _ _ _ => rw [classify_cons_content _ _ hl, iht]; rfl
    | inter _ _ _ _ _ => rw [classify_cons_content _ _ hl, iht]; rfl

theorem textLines_render (ls : List C02.Line) (h : ∀ l ∈ ls, C02.NoNl l) :
    textLines (C02.render ls)
      = ls.map (fun l => String.ofList (renderLineChars l)) ++ [String.ofList []] := by
  unfold textLines C02.render
  rw [String.toList_ofList, C02.splitLines_render ls h]
  simp

/-! ### the walk over written lines -/

def walkLs (P : IParams RCtx) (x : XS) (ls : List C02.Line) : Option XS := walkX P x (ls.flatMap cls)

theorem walkLs_nil (P : IParams RCtx) (x : XS) : walkLs P x [] = some x := rfl

theorem walkLs_append (P : IParams RCtx) (x : XS) (a b : List C02.Line) :
    walkLs P x (a ++ b) = (walkLs P x a).bind fun x' => walkLs P x' b := by
  unfold walkLs
  rw [List.flatMap_append, walkX_append]

theorem walkLs_append_ok (P : IParams RCtx) (x x' : XS) (a b : List C02.Line) (h : walkLs P x a = some x') :
    walkLs P x (a ++ b) = walkLs P x' b := by
  rw [walkLs_append, h]; rfl

theorem walkLs_cons (P : IParams RCtx) (x : XS) (l : C02.Line) (ls : List C02.Line) :
    walkLs P x (l :: ls) = (walkX P x (cls l)).bind fun x' => walkLs P x' ls := by
  unfold walkLs
  rw [List.flatMap_cons, walkX_append]

theorem walkLs_cons_ok (P : IParams RCtx) (x x' : XS) (l : C02.Line) (ls : List C02.Line)
    (h : walkX P x (cls l) = some x') : walkLs P x (l :: ls) = walkLs P x' ls := by
  rw [walkLs_cons, h]; rfl

theorem walkX_one (P : IParams RCtx) (x : XS) (l : C13.Line) : walkX P x [l] = stepX P x l := by
  simp only [walkX]
  cases stepX P x l <;> rfl

/-! ### lines that leave the state alone -/

theorem cls_blank : cls .blank = [] := by
  simp [cls, contentOf, renderLineChars, C13.stripComment, C13.stripChars]

theorem cls_comment (t : String) : cls (.comment t) = [] := by
  simp [cls, contentOf, renderLineChars, C13.stripComment, C13.stripChars]

theorem startsWith_hash (t : String) : startsWithS t "#" = (t.toList.head? == some '#') := by
  have e : "#".toList = ['#'] := by decide
  unfold startsWithS
  rw [e]
  cases t.toList with
  | nil => rfl
  | cons c r =>
    simp only [List.isPrefixOf, List.head?_cons, Bool.and_true]
    by_cases h : c = '#'
    · subst h; rfl
    · have h1 : ('#' == c) = false := by simp; exact fun e => h e.symm
      have h2 : (some c == some '#') = false := by simp [h]
      rw [h1, h2]

/-- a free pre/post line accepted by `freeLineOk` (comment, blank, `#define`) changes nothing -/
theorem walk_free (P : IParams RCtx) (x : XS) (t : String) (h : freeLineOk t = true) :
    walkX P x (cls (.free t)) = some x := by
  simp only [cls, contentOf, renderLineChars]
  simp only [freeLineOk, Bool.or_eq_true] at h
  by_cases he : (C13.stripComment t.toList).isEmpty = true
  · simp [he, walkX]
  · simp only [he, Bool.false_eq_true, if_false]
    rcases h with h | h
    · exact absurd h he
    · obtain ⟨h1, h2⟩ := startsWith_define _ h x.pm
      rw [walkX_one]
      simp [stepX, h1, h2]

theorem walk_frees (P : IParams RCtx) (x : XS) (ls : List C02.Line)
    (h : ∀ l ∈ ls, ∃ t, l = .free t ∧ freeLineOk t = true) : walkLs P x ls = some x := by
  induction ls with
  | nil => rfl
  | cons l r ih =>
    obtain ⟨t, rfl, ht⟩ := h l (by simp)
    rw [walkLs_cons_ok P x x _ _ (walk_free P x t ht)]
    exact ih (fun y hy => h y (by simp [hy]))

theorem linesOf_free (tbl : List (String × List String)) (h : tbl.all (fun p => p.2.all freeLineOk) = true)
    (name : String) : ∀ l ∈ C02.linesOf tbl name, ∃ t, l = .free t ∧ freeLineOk t = true := by
  intro l hl
  simp only [C02.linesOf, List.mem_map] at hl
  obtain ⟨s, hs, rfl⟩ := hl
  refine ⟨s, rfl, ?_⟩
  cases hlk : tbl.lookup name with
  | none => rw [hlk] at hs; simp at hs
  | some ls =>
    rw [hlk] at hs
    simp only [List.all_eq_true] at h
    exact h _ (C02.mem_lookup tbl name ls hlk) s hs

end C02.Repo
