import VermouthModel.C13_Mapping
import VermouthProofs.C13_DirProofs
/-!
C13 — proofs about what the new-style `.mapping` model carries along with the mapped atoms:
interactions (renumbered, then filtered to the mapped atoms), edge attributes, the `!` no-fetch marker
and the implicit residue numbers of shorthand block lists.
-/
namespace C13.Mapping
open C13

/-! ### `!identifier`: nothing is fetched -/

theorem register_mol (d : Dir) (mtype : String) (c : MCtx) (spec : String × Attrs) :
    (register d mtype c spec).mol d = c.mol d := by
  cases d <;> rfl

theorem blockStep_nofetch (lib : Lib) (d : Dir) (mtype : String) (c : MCtx) (spec : String × Attrs)
    (h : (stripBang spec.1).2 = true) :
    blockStep lib d mtype c spec = some (register d mtype c spec) := by
  simp [blockStep, fetchName, h]

theorem blockStep_fetch (lib : Lib) (d : Dir) (mtype : String) (c : MCtx) (spec : String × Attrs) (rn : String)
    (h : (stripBang spec.1).2 = false) (hr : spec.2.get "resname" = some (.str rn)) :
    blockStep lib d mtype c spec =
      (fetchMol lib d mtype c (.str rn)).map fun m => register d mtype (c.setMol d m) spec := by
  simp only [blockStep, fetchName, h, hr, Bool.false_eq_true, if_false]
  cases fetchMol lib d mtype c (.str rn) <;> rfl

/-! ### shorthand block lists: implicit residue numbers -/

def shortAttrs (t : String) (resid : Int) : Attrs :=
  [("resname", JVal.str (stripBang t).1), ("resid", JVal.int resid)]

theorem shorthandTok_plain (tok : String) (h : tok.toList.contains '#' = false) :
    shorthandTok tok = some (tok, none) := by
  unfold shorthandTok
  rw [h]
  rfl

theorem shorthand_plain (toks : List String) :
    ∀ (r : Int) (n : Nat), (∀ t ∈ toks, t.toList.contains '#' = false) →
      shorthand r toks = some ((toks.zipIdx n).map fun p => (p.1, shortAttrs p.1 (r + 1 + ((p.2 : Int) - n)))) := by
  induction toks with
  | nil => intro r n _; rfl
  | cons t rest ih =>
    intro r n h
    have ht := shorthandTok_plain t (h t (List.mem_cons_self ..))
    have hrest := ih (r + 1) (n + 1) (fun x hx => h x (List.mem_cons_of_mem _ hx))
    simp only [shorthand, ht, Option.bind_eq_bind, Option.bind_some, hrest, Option.pure_def,
      List.zipIdx_cons, List.map_cons]
    congr 2
    · simp [shortAttrs]
    · apply List.map_congr_left
      intro p _
      congr 2
      push_cast
      omega

/-! ### interactions -/

/-- the interactions of one type, in order -/
def intersOf (d : List (String × List MInter)) (sect : String) : List MInter := (dictGet d sect).getD []

theorem intersOf_addInter (d : List (String × List MInter)) (sect s2 : String) (it : MInter) :
    intersOf (addInter d sect it) s2 = if s2 = sect then intersOf d sect ++ [it] else intersOf d s2 := by
  unfold intersOf addInter
  by_cases h : s2 = sect
  · subst h
    rw [dictGet_set_same]
    simp [dictGet]
  · rw [dictGet_set_other d sect s2 _ (fun x => h x.symm)]
    simp [h]

/-- `name_to_idx[atom]` / `correspondence[atom]` for every atom of an interaction -/
def renumber? (corr : List (String × Nat)) (it : LInter) : Option MInter :=
  (it.atoms.mapM (dget corr)).map fun atoms => { atoms := atoms, payload := it.payload }

theorem mapInters_spec (corr : List (String × Nat)) (its : List LInter) :
    ∀ (d d' : List (String × List MInter)), mapInters corr d its = some d' →
      ∀ sect, ∃ new, (its.filter fun it => it.sect = sect).mapM (renumber? corr) = some new ∧
        intersOf d' sect = intersOf d sect ++ new := by
  induction its with
  | nil =>
    intro d d' h sect
    simp only [mapInters, List.foldlM_nil, Option.pure_def, Option.some.injEq] at h
    subst h
    exact ⟨[], rfl, by simp⟩
  | cons it rest ih =>
    intro d d' h sect
    simp only [mapInters, List.foldlM_cons, Option.bind_eq_bind, Option.pure_def] at h
    cases ha : it.atoms.mapM (dget corr) with
    | none => rw [ha] at h; cases h
    | some atoms =>
      rw [ha] at h
      simp only [Option.bind_some] at h
      obtain ⟨new, hnew, hd'⟩ := ih _ d' h sect
      have hre : renumber? corr it = some { atoms := atoms, payload := it.payload } := by
        simp [renumber?, ha]
      by_cases hs : it.sect = sect
      · refine ⟨{ atoms := atoms, payload := it.payload } :: new, ?_, ?_⟩
        · simp [hs, hre, hnew]
        · rw [hd', intersOf_addInter]
          simp [hs]
      · refine ⟨new, ?_, ?_⟩
        · simp [hs, hnew]
        · rw [hd', intersOf_addInter]
          have : sect ≠ it.sect := fun x => hs x.symm
          simp [this]

/-- `Mapping.__init__`: an interaction survives iff all its atoms are kept; no empty type is left -/
theorem keepInters_sound (keys : List Nat) (d : List (String × List MInter)) (t : String) (l : List MInter)
    (h : (t, l) ∈ keepInters keys d) :
    l ≠ [] ∧ (∀ it ∈ l, ∀ a ∈ it.atoms, a ∈ keys) ∧ ∃ l0, (t, l0) ∈ d ∧ ∀ it ∈ l, it ∈ l0 := by
  unfold keepInters at h
  rw [List.mem_filterMap] at h
  obtain ⟨⟨t0, l0⟩, hmem, hsome⟩ := h
  simp only at hsome
  split at hsome
  · cases hsome
  next hne =>
    simp only [Option.some.injEq, Prod.mk.injEq] at hsome
    obtain ⟨rfl, rfl⟩ := hsome
    refine ⟨?_, ?_, l0, hmem, ?_⟩
    · intro h0; rw [h0] at hne; simp at hne
    · intro it hit a ha
      have := (List.mem_filter.mp hit).2
      simp only [List.all_eq_true] at this
      simpa using this a ha
    · intro it hit; exact (List.mem_filter.mp hit).1

theorem keepInters_complete (keys : List Nat) (d : List (String × List MInter)) (t : String)
    (l0 : List MInter) (it : MInter) (hd : (t, l0) ∈ d) (hit : it ∈ l0) (hk : ∀ a ∈ it.atoms, a ∈ keys) :
    ∃ l, (t, l) ∈ keepInters keys d ∧ it ∈ l := by
  have hmem : it ∈ l0.filter (fun it => it.atoms.all keys.contains) := by
    rw [List.mem_filter]
    refine ⟨hit, ?_⟩
    simp only [List.all_eq_true]
    intro a ha
    simpa using hk a ha
  refine ⟨l0.filter (fun it => it.atoms.all keys.contains), ?_, hmem⟩
  unfold keepInters
  rw [List.mem_filterMap]
  refine ⟨(t, l0), hd, ?_⟩
  simp only
  split
  next hemp =>
    have : l0.filter (fun it => it.atoms.all keys.contains) = [] := by simpa using hemp
    rw [this] at hmem; cases hmem
  · rfl

/-! ### edges -/

def isEdge (a b : Nat) (e : (Nat × Nat) × Attrs) : Bool := e.1 = (a, b) || e.1 = (b, a)

theorem addEdge_new (es : List ((Nat × Nat) × Attrs)) (a b : Nat) (attrs : Attrs)
    (h : es.any (isEdge a b) = false) : addEdge es a b attrs = es ++ [((a, b), attrs)] := by
  unfold addEdge
  have : es.any (fun e => e.1 = (a, b) || e.1 = (b, a)) = false := h
  rw [this]; rfl

theorem addEdge_existing (es : List ((Nat × Nat) × Attrs)) (a b : Nat) (attrs : Attrs)
    (h : es.any (isEdge a b) = true) :
    addEdge es a b attrs = es.map (fun e => if isEdge a b e then (e.1, updAttrs e.2 attrs) else e) ∧
    (addEdge es a b attrs).map (·.1) = es.map (·.1) := by
  have h' : es.any (fun e => e.1 = (a, b) || e.1 = (b, a)) = true := h
  have h1 : addEdge es a b attrs = es.map (fun e => if isEdge a b e then (e.1, updAttrs e.2 attrs) else e) := by
    unfold addEdge; rw [h']; rfl
  refine ⟨h1, ?_⟩
  rw [h1, List.map_map]
  apply List.map_congr_left
  intro e _
  simp only [Function.comp]
  split <;> rfl

theorem attrs_get_eq (a : Attrs) (k : String) : Attrs.get a k = dictGet a k := by
  induction a with
  | nil => rfl
  | cons e r ih =>
    obtain ⟨k', v⟩ := e
    by_cases h : k' = k
    · simp [Attrs.get, dictGet, h]
    · simp only [Attrs.get, h, if_false, ih]
      simp [dictGet, h]

theorem updAttrs_last_wins (old pre post : Attrs) (k : String) (v : JVal) (hpost : ∀ e ∈ post, e.1 ≠ k) :
    (updAttrs old (pre ++ (k, v) :: post)).get k = some v := by
  rw [attrs_get_eq]
  unfold updAttrs Attrs.set
  rw [List.foldl_append, List.foldl_cons, dictGet_foldl_other post k hpost]
  exact dictGet_set_same _ k v

theorem updAttrs_untouched (old new : Attrs) (k : String) (hnew : ∀ e ∈ new, e.1 ≠ k) :
    (updAttrs old new).get k = old.get k := by
  rw [attrs_get_eq, attrs_get_eq]
  unfold updAttrs Attrs.set
  exact dictGet_foldl_other new k hnew old

end C13.Mapping

/-! ### the digit part of an `int()` literal -/
namespace C13

theorem intBodyRest_step (x : Char) (r : List Char) (hx : x ≠ '_') :
    intBodyRest (x :: r) = (isDigit x && intBodyRest r) := by
  rw [intBodyRest.eq_def]
  split
  · rename_i h; cases h
  · rename_i h; injection h with h1 _; exact absurd h1 hx
  · rename_i h; injection h with h1 _; exact absurd h1 hx
  · rename_i c r' _ _ h; injection h with h1 h2; subst h1; subst h2; rfl

theorem intBodyRest_chars : ∀ (n : Nat) (l : List Char), l.length ≤ n → intBodyRest l = true →
    ∀ c ∈ l, isDigit c = true ∨ c = '_' := by
  intro n
  induction n with
  | zero =>
    intro l hl _ c hc
    have : l = [] := List.eq_nil_of_length_eq_zero (by omega)
    subst this; cases hc
  | succ n ih =>
    intro l hl h c hc
    cases l with
    | nil => cases hc
    | cons x r =>
      by_cases hx : x = '_'
      · subst hx
        cases r with
        | nil => simp [intBodyRest] at h
        | cons d r' =>
          simp only [intBodyRest, Bool.and_eq_true] at h
          rcases List.mem_cons.mp hc with rfl | hc
          · exact Or.inr rfl
          · rcases List.mem_cons.mp hc with rfl | hc
            · exact Or.inl h.1
            · exact ih r' (by simp at hl; omega) h.2 c hc
      · rw [intBodyRest_step x r hx] at h
        simp only [Bool.and_eq_true] at h
        rcases List.mem_cons.mp hc with rfl | hc
        · exact Or.inl h.1
        · exact ih r (by simp at hl; omega) h.2 c hc

end C13
