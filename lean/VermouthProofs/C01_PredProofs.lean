import VermouthModel.C01_Pred
import VermouthProofs.C01_Events
/-! C01 — helper lemmas for `VermouthProps/C01_Pred.lean`: lookups through the copies `_old_atomname_match`
makes, the list of matches recorded by the merged loop (`placed`), edges added by a fold of `addEdge`. -/
namespace C01
open C12

namespace Pred

theorem lookup_filter_ne {β} (l : List (String × β)) (p : String × β → Bool) (k : String)
    (hp : ∀ kv ∈ l, kv.1 = k → p kv = true) : (l.filter p).lookup k = l.lookup k := by
  induction l with
  | nil => rfl
  | cons x xs ih =>
    obtain ⟨xk, xv⟩ := x
    have ihx := ih (fun kv hkv => hp kv (List.mem_cons_of_mem _ hkv))
    by_cases hx : p (xk, xv) = true
    · rw [List.filter_cons_of_pos hx]
      simp only [List.lookup_cons]
      rw [ihx]
    · have hne : ¬ xk = k := fun e => hx (hp (xk, xv) List.mem_cons_self e)
      rw [List.filter_cons_of_neg hx, ihx]
      simp only [List.lookup_cons]
      have : (k == xk) = false := by
        rw [beq_eq_false_iff_ne]; exact fun e => hne e.symm
      rw [this]

/-- the copy `_old_atomname_match` makes of the atom answers every key but `atomname` / `_name` as the atom -/
theorem viewA_lookup (a : AAttrs) (k : String) (h1 : k ≠ "_name") (h2 : k ≠ "atomname") :
    (viewA a).lookup k = a.lookup k := by
  unfold viewA
  simp only [List.lookup_cons]
  have : (k == "_name") = false := by rw [beq_eq_false_iff_ne]; exact h1
  rw [this]
  apply lookup_filter_ne
  intro kv _ hk
  simp only [Bool.and_eq_true, bne_iff_ne, ne_eq]
  exact ⟨by rw [hk]; exact h2, by rw [hk]; exact h1⟩

theorem holds_congr (a b : AAttrs) (k : String) (h : a.lookup k = b.lookup k) (v : TVal) :
    v.holds a k = v.holds b k := by
  cases v <;> simp [TVal.holds, getA, h]

theorem toGraphP_keys (block : Bool) (rs : List (Int × Option Int)) (es : List (Int × Int)) :
    (toGraphP block rs es).keys = rs.map Prod.fst := by
  simp [toGraphP, Iso.Graph.keys]

end Pred

def Ev.atoms : Ev → List Int
  | .blk p => p.atoms
  | .mod q => q.atoms

theorem applyBlock_placed (st : St) (p : Placement) (he : st.err = none) (hok : (applyBlock st p).err = none) :
    (applyBlock st p).placed = st.placed ++ [p.atoms] := by
  unfold applyBlock at hok ⊢
  simp only [he, Option.isSome_none, Bool.false_eq_true, ↓reduceIte] at hok ⊢
  split at hok
  · rename_i out1 h1
    split at hok
    · rfl
    · simp at hok
  · simp at hok

theorem run_placed (es : List Ev) (st : St) (hok : (es.foldl applyEv st).err = none) :
    (es.foldl applyEv st).placed = st.placed ++ es.map Ev.atoms := by
  induction es generalizing st with
  | nil => simp
  | cons e es ih =>
    simp only [List.foldl_cons] at hok ⊢
    have he : st.err = none := by
      cases h : st.err with
      | none => rfl
      | some x =>
        rw [applyEv_err st e x h, foldl_applyEv_err es st x h, h] at hok
        cases hok
    have he1 : (applyEv st e).err = none := by
      cases h : (applyEv st e).err with
      | none => rfl
      | some x =>
        rw [foldl_applyEv_err es _ x h, h] at hok
        cases hok
    rw [ih _ hok]
    have : (applyEv st e).placed = st.placed ++ [e.atoms] := by
      cases e with
      | blk p => exact applyBlock_placed st p he he1
      | mod q =>
        obtain ⟨_, _, _, _, _, _, _, h, _⟩ := applyMod_spec st q he he1
        exact h
    rw [this]
    simp [List.append_assoc]

theorem foldl_addEdge_hasEdge (es : List (Int × Int)) (g : Mol) (x y : Int) :
    (es.foldl (fun o e => o.addEdge e.1 e.2) g).hasEdge x y = true ↔
      g.hasEdge x y = true ∨ (x, y) ∈ es ∨ (y, x) ∈ es := by
  induction es generalizing g with
  | nil => simp
  | cons e es ih =>
    simp only [List.foldl_cons]
    rw [ih, C01.addEdge_hasEdge]
    obtain ⟨e1, e2⟩ := e
    simp only [List.mem_cons, Prod.mk.injEq]
    constructor
    · rintro ((h | h | h) | h | h)
      · exact Or.inl h
      · exact Or.inr (Or.inl (Or.inl h))
      · exact Or.inr (Or.inr (Or.inl ⟨h.2, h.1⟩))
      · exact Or.inr (Or.inl (Or.inr h))
      · exact Or.inr (Or.inr (Or.inr h))
    · rintro (h | (h | h) | (h | h))
      · exact Or.inl (Or.inl h)
      · exact Or.inl (Or.inr (Or.inl h))
      · exact Or.inr (Or.inl h)
      · exact Or.inl (Or.inr (Or.inr ⟨h.2, h.1⟩))
      · exact Or.inr (Or.inr h)

/-- the edge step of `do_mapping` on ANY state -/
theorem withInterEdges_hasEdge (m : MolIn) (st : St) (x y : Int) :
    (withInterEdges m st).hasEdge x y = true ↔
      st.out.hasEdge x y = true ∨ (x, y) ∈ interEdges m st ∨ (y, x) ∈ interEdges m st := by
  unfold withInterEdges
  exact foldl_addEdge_hasEdge _ _ _ _

end C01
