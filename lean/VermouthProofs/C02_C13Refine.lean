import VermouthModel.C02_Repo
/-!
C02 ∘ C13 — the recording reader `C02.Repo.readITPx` refines `C13.readITP`: on EVERY input,
forgetting the recorded atom rows / nrexcl token gives exactly what C13's model returns (and the
recording reader fails exactly when C13's model fails).  Core Lean only.
-/
namespace C02.Repo
open C13

variable {C D : Type}

def mapISt (f : C → D) (s : ISt C) : ISt D :=
  { sec := s.sec, blk := s.blk.map (fun b => (b.1, f b.2)),
    blocks := s.blocks.map (fun b => (b.1, (b.2.1, f b.2.2))) }

theorem dictSet_map {K V W : Type} [DecidableEq K] (g : V → W) (d : List (K × V)) (k : K) (v : V) :
    dictSet (d.map (fun b => (b.1, g b.2))) k (g v) = (dictSet d k v).map (fun b => (b.1, g b.2)) := by
  induction d with
  | nil => rfl
  | cons a t ih =>
    obtain ⟨k', v'⟩ := a
    simp only [List.map_cons, dictSet]
    by_cases hk : k' = k
    · simp [hk]
    · simp [hk, ih]

/-- a homomorphism of ITP handler families -/
structure Sim (P : IParams C) (Q : IParams D) (f : C → D) : Prop where
  hT : Q.T = P.T
  hh : ∀ p t c, Q.handle p t (f c) = (P.handle p t c).map f
  ha : ∀ c, Q.atomsEnded (f c) = f (P.atomsEnded c)
  hf : Q.fresh = f P.fresh
  hn : ∀ c, Q.nameOf (f c) = P.nameOf c

theorem itpFinalize_sim {P : IParams C} {Q : IParams D} {f : C → D} (h : Sim P Q f) (s : ISt C)
    (ended : List String) :
    itpFinalize Q (mapISt f s) ended = mapISt f (itpFinalize P s ended) := by
  unfold itpFinalize mapISt
  cases hb : s.blk with
  | none => simp
  | some b =>
    obtain ⟨i, c⟩ := b
    by_cases he : ended.contains "atoms" = true
    · simp only [he, if_true, Option.map_some, h.ha, h.hn]
      have := dictSet_map (K := Option String) (fun (b : Nat × C) => (b.1, f b.2)) s.blocks
        (P.nameOf (P.atomsEnded c)) (i, P.atomsEnded c)
      simp only at this
      simp [this]
    · simp only [he, Option.map_some, h.hn]
      have := dictSet_map (K := Option String) (fun (b : Nat × C) => (b.1, f b.2)) s.blocks
        (P.nameOf c) (i, c)
      simp only at this
      simp [this, h.hn]

theorem itpHeader_sim {P : IParams C} {Q : IParams D} {f : C → D} (h : Sim P Q f) (s : ISt C)
    (i : Nat) (n : String) :
    itpHeader Q (mapISt f s) i n = mapISt f (itpHeader P s i n) := by
  unfold itpHeader
  have hsec : (mapISt f s).sec = s.sec := rfl
  simp only [hsec, h.hT]
  by_cases hs : s.sec = []
  · simp only [hs, if_true]
    by_cases hm : nextSec P.T [] n = ["moleculetype"]
    · simp [hm, mapISt, h.hf]
    · simp [hm, mapISt]
  · simp only [hs, if_false, itpFinalize_sim h]
    by_cases hm : nextSec P.T s.sec n = ["moleculetype"]
    · simp [hm, mapISt, h.hf]
    · simp [hm, mapISt]

theorem itpContent_sim {P : IParams C} {Q : IParams D} {f : C → D} (h : Sim P Q f) (s : ISt C)
    (t : String) :
    itpContent Q (mapISt f s) t = (itpContent P s t).map (mapISt f) := by
  unfold itpContent
  have hsec : (mapISt f s).sec = s.sec := rfl
  simp only [hsec, h.hT]
  by_cases hc : P.T.contains s.sec = true
  · simp only [hc, Bool.not_true, Bool.false_eq_true, if_false]
    cases hb : s.blk with
    | none => simp [mapISt, hb]
    | some b =>
      obtain ⟨i, c⟩ := b
      simp only [mapISt, hb, Option.map_some, h.hh]
      cases P.handle s.sec t c <;> simp [mapISt]
  · have hc' : s.sec ∉ P.T := by simpa using hc
    simp [hc']

theorem itpRunFrom_sim {P : IParams C} {Q : IParams D} {f : C → D} (h : Sim P Q f)
    (lines : List C13.Line) : ∀ (s : ISt C) (i : Nat),
    itpRunFrom Q (mapISt f s) i lines = (itpRunFrom P s i lines).map (mapISt f) := by
  induction lines with
  | nil =>
    intro s i
    simp only [itpRunFrom, Option.map_some]
    have hsec : (mapISt f s).sec = s.sec := rfl
    rw [hsec, itpFinalize_sim h]
  | cons l r ih =>
    intro s i
    cases l with
    | header n => simp only [itpRunFrom, itpHeader_sim h, ih]
    | content t =>
      simp only [itpRunFrom, itpContent_sim h]
      cases itpContent P s t with
      | none => rfl
      | some s' => simp only [Option.map_some, ih]

theorem sim_base (idxTab : List (String × List Idx)) (tab : List Entry) :
    Sim (paramsX idxTab tab) (itpParams idxTab tab) RCtx.base where
  hT := rfl
  hh := by
    intro p t c
    show itpHandle idxTab tab p t c.base = (handleX idxTab tab p t c).map RCtx.base
    unfold handleX
    cases itpHandle idxTab tab p t c.base with
    | none => rfl
    | some b =>
      simp only
      cases findEntry tab p with
      | none => rfl
      | some e =>
        simp only
        split
        · rfl
        · split <;> rfl
  ha := fun _ => rfl
  hf := rfl
  hn := fun _ => rfl

/-- **Refinement**: on every input, `readITPx` with the record forgotten IS `C13.readITP`. -/
theorem readITPx_refines (idxTab : List (String × List Idx)) (tab : List Entry) (raw : List String) :
    (readITPx idxTab tab raw).map eraseBlocks = readITP idxTab tab raw := by
  unfold readITPx readITP
  cases classify raw with
  | none => rfl
  | some lines =>
    simp only [Option.bind_eq_bind, Option.bind_some, Option.pure_def]
    cases pragmaPass none lines with
    | none => rfl
    | some tagged =>
      simp only [Option.bind_some]
      cases expandMacros (List.map (fun x => x.path) tab) [] [] (List.map (fun x => x.1) tagged) with
      | none => rfl
      | some lines' =>
        simp only [Option.bind_some]
        unfold itpRun
        generalize (List.map _ (lines'.zip (List.map (fun x => x.2) tagged))) = L
        have := itpRunFrom_sim (sim_base idxTab tab) L {} 0
        have h0 : mapISt RCtx.base ({} : ISt RCtx) = ({} : ISt Ctx) := rfl
        rw [h0] at this
        rw [this]
        cases itpRunFrom (paramsX idxTab tab) {} 0 L with
        | none => rfl
        | some s => simp [eraseBlocks, mapISt]

end C02.Repo
