import VermouthModel.C01
/-! C01 — the nested dictionaries `mol_to_out` / `out_to_mol` as association lists: reading after a
sequence of assignments. -/
namespace C01

theorem lookup_dset (d : List (Int × Rat)) (k k' : Int) (w : Rat) :
    (dset d k w).lookup k' = if k' = k then some w else d.lookup k' := by
  induction d with
  | nil =>
    by_cases h : k' = k
    · subst h; simp [dset, List.lookup]
    · have : (k' == k) = false := by simpa using h
      simp [dset, List.lookup, this, h]
  | cons p r ih =>
    obtain ⟨k0, w0⟩ := p
    unfold dset
    by_cases h0 : k0 = k
    · subst h0
      by_cases h : k' = k0
      · subst h; simp [List.lookup]
      · have : (k' == k0) = false := by simpa using h
        simp [List.lookup, this, h]
    · simp only [h0, if_false]
      by_cases h1 : k' = k0
      · subst h1
        simp [List.lookup, h0]
      · have : (k' == k0) = false := by simpa using h1
        simp only [List.lookup, this, ih]

theorem get2_dset2 (d : Dict2) (a b a' b' : Int) (w : Rat) :
    get2 (dset2 d a b w) a' b' = if a' = a ∧ b' = b then some w else get2 d a' b' := by
  induction d with
  | nil =>
    by_cases h : a' = a
    · subst h
      by_cases hb : b' = b
      · subst hb; simp [dset2, get2, List.lookup]
      · have : (b' == b) = false := by simpa using hb
        simp [dset2, get2, List.lookup, this, hb]
    · have : (a' == a) = false := by simpa using h
      simp [dset2, get2, List.lookup, this, h]
  | cons p r ih =>
    obtain ⟨a0, inner⟩ := p
    unfold dset2
    by_cases h0 : a0 = a
    · subst h0
      by_cases h : a' = a0
      · subst h
        simp only [if_true, get2, List.lookup, beq_self_eq_true, Option.bind, lookup_dset, true_and]
      · have : (a' == a0) = false := by simpa using h
        simp [get2, List.lookup, this, h]
    · simp only [h0, if_false]
      by_cases h1 : a' = a0
      · subst h1
        have : ¬ (a' = a ∧ b' = b) := fun hh => h0 hh.1
        simp [get2, List.lookup, this]
      · have h2 : (a' == a0) = false := by simpa using h1
        have := ih
        simp only [get2, List.lookup, h2] at this ⊢
        exact this

theorem mem_dom_dset2 (d : Dict2) (a b x : Int) (w : Rat) :
    x ∈ dom (dset2 d a b w) ↔ x ∈ dom d ∨ x = a := by
  induction d with
  | nil => simp [dset2, dom]
  | cons p r ih =>
    obtain ⟨a0, inner⟩ := p
    unfold dset2
    by_cases h0 : a0 = a
    · subst h0
      simp only [if_true, dom, List.map_cons, List.mem_cons]
      constructor
      · rintro (h | h)
        · exact Or.inr h
        · exact Or.inl (Or.inr h)
      · rintro ((h | h) | h)
        · exact Or.inl h
        · exact Or.inr h
        · exact Or.inl h
    · simp only [h0, if_false]
      simp only [dom, List.map_cons, List.mem_cons] at ih ⊢
      rw [ih]
      constructor
      · rintro (h | h | h)
        · exact Or.inl (Or.inl h)
        · exact Or.inl (Or.inr h)
        · exact Or.inr h
      · rintro ((h | h) | h)
        · exact Or.inl h
        · exact Or.inr (Or.inl h)
        · exact Or.inr (Or.inr h)

/-- the value read at `(a, b)` after the assignments `es`, `acc` being the value before -/
def lastW (a b : Int) : List (Int × Int × Rat) → Option Rat → Option Rat
  | [], acc => acc
  | e :: es, acc => lastW a b es (if a = e.1 ∧ b = e.2.1 then some e.2.2 else acc)

theorem get2_addEntries (d : Dict2) (es : List (Int × Int × Rat)) (a b : Int) :
    get2 (addEntries d es) a b = lastW a b es (get2 d a b) := by
  induction es generalizing d with
  | nil => rfl
  | cons e es ih =>
    show get2 (addEntries (dset2 d e.1 e.2.1 e.2.2) es) a b = _
    rw [ih, get2_dset2]
    rfl

theorem mem_dom_addEntries (d : Dict2) (es : List (Int × Int × Rat)) (x : Int) :
    x ∈ dom (addEntries d es) ↔ x ∈ dom d ∨ ∃ e ∈ es, e.1 = x := by
  induction es generalizing d with
  | nil => simp [addEntries]
  | cons e es ih =>
    show x ∈ dom (addEntries (dset2 d e.1 e.2.1 e.2.2) es) ↔ _
    rw [ih, mem_dom_dset2]
    constructor
    · rintro ((h | h) | ⟨e', he', h⟩)
      · exact Or.inl h
      · exact Or.inr ⟨e, List.mem_cons_self, h.symm⟩
      · exact Or.inr ⟨e', List.mem_cons_of_mem _ he', h⟩
    · rintro (h | ⟨e', he', h⟩)
      · exact Or.inl (Or.inl h)
      · rcases List.mem_cons.1 he' with rfl | he'
        · exact Or.inl (Or.inr h.symm)
        · exact Or.inr ⟨e', he', h⟩

theorem lastW_some (a b : Int) (es : List (Int × Int × Rat)) (acc : Option Rat) (w : Rat)
    (h : lastW a b es acc = some w) : (a, b, w) ∈ es ∨ acc = some w := by
  induction es generalizing acc with
  | nil => exact Or.inr h
  | cons e es ih =>
    rcases ih _ h with h1 | h1
    · exact Or.inl (List.mem_cons_of_mem _ h1)
    · by_cases hc : a = e.1 ∧ b = e.2.1
      · rw [if_pos hc] at h1
        left
        obtain ⟨e1, e2, e3⟩ := e
        simp only at hc h1
        obtain ⟨rfl, rfl⟩ := hc
        cases h1
        exact List.mem_cons_self
      · rw [if_neg hc] at h1
        exact Or.inr h1

theorem lastW_none (a b : Int) (es : List (Int × Int × Rat)) (acc : Option Rat)
    (h : lastW a b es acc = none) : acc = none ∧ ∀ e ∈ es, ¬ (e.1 = a ∧ e.2.1 = b) := by
  induction es generalizing acc with
  | nil => exact ⟨h, by simp⟩
  | cons e es ih =>
    have := ih _ h
    by_cases hc : a = e.1 ∧ b = e.2.1
    · rw [if_pos hc] at this; exact absurd this.1 (by simp)
    · rw [if_neg hc] at this
      refine ⟨this.1, ?_⟩
      intro e' he'
      rcases List.mem_cons.1 he' with rfl | he'
      · exact fun hh => hc ⟨hh.1.symm, hh.2.symm⟩
      · exact this.2 e' he'

/-- no two assignments to the same `(a, b)` carry different weights -/
def Functional (es : List (Int × Int × Rat)) : Prop :=
  ∀ e ∈ es, ∀ e' ∈ es, e.1 = e'.1 → e.2.1 = e'.2.1 → e.2.2 = e'.2.2

theorem lastW_const (a b : Int) (w : Rat) (es : List (Int × Int × Rat))
    (h : ∀ e ∈ es, e.1 = a → e.2.1 = b → e.2.2 = w) : lastW a b es (some w) = some w := by
  induction es with
  | nil => rfl
  | cons e es ih =>
    unfold lastW
    by_cases hc : a = e.1 ∧ b = e.2.1
    · rw [if_pos hc, h e List.mem_cons_self hc.1.symm hc.2.symm]
      exact ih (fun e' he' => h e' (List.mem_cons_of_mem _ he'))
    · rw [if_neg hc]
      exact ih (fun e' he' => h e' (List.mem_cons_of_mem _ he'))

theorem lastW_of_mem (a b : Int) (w : Rat) (es : List (Int × Int × Rat)) (acc : Option Rat)
    (hf : Functional es) (hm : (a, b, w) ∈ es) : lastW a b es acc = some w := by
  induction es generalizing acc with
  | nil => cases hm
  | cons e es ih =>
    have hf' : Functional es := fun x hx y hy => hf x (List.mem_cons_of_mem _ hx) y (List.mem_cons_of_mem _ hy)
    by_cases hin : (a, b, w) ∈ es
    · exact ih _ hf' hin
    · rcases List.mem_cons.1 hm with rfl | h
      · unfold lastW
        simp only [and_self, if_true]
        apply lastW_const
        intro e' he' h1 h2
        exact hf e' (List.mem_cons_of_mem _ he') (a, b, w) List.mem_cons_self h1 h2
      · exact absurd h hin

/-- reading after functional assignments starting from the empty dictionary: exactly the
assignments made -/
theorem get2_addEntries_iff (es : List (Int × Int × Rat)) (hf : Functional es) (a b : Int) (w : Rat) :
    get2 (addEntries [] es) a b = some w ↔ (a, b, w) ∈ es := by
  rw [get2_addEntries]
  constructor
  · intro h
    rcases lastW_some a b es _ w h with h | h
    · exact h
    · simp [get2, List.lookup] at h
  · exact lastW_of_mem a b w es _ hf

theorem addEntriesRev_eq (d : Dict2) (es : List (Int × Int × Rat)) :
    addEntriesRev d es = addEntries d (es.map (fun e => (e.2.1, e.1, e.2.2))) := by
  unfold addEntriesRev addEntries
  rw [List.foldl_map]

theorem functional_swap (es : List (Int × Int × Rat)) (hf : Functional es) :
    Functional (es.map (fun e => (e.2.1, e.1, e.2.2))) := by
  intro e he e' he' h1 h2
  obtain ⟨x, hx, rfl⟩ := List.mem_map.1 he
  obtain ⟨y, hy, rfl⟩ := List.mem_map.1 he'
  exact hf x hx y hy h2 h1

theorem get2_addEntriesRev_iff (es : List (Int × Int × Rat)) (hf : Functional es) (a b : Int) (w : Rat) :
    get2 (addEntriesRev [] es) b a = some w ↔ (a, b, w) ∈ es := by
  rw [addEntriesRev_eq, get2_addEntries_iff _ (functional_swap es hf)]
  constructor
  · intro h
    obtain ⟨x, hx, hxe⟩ := List.mem_map.1 h
    obtain ⟨x1, x2, x3⟩ := x
    simp only [Prod.mk.injEq] at hxe
    obtain ⟨rfl, rfl, rfl⟩ := hxe
    exact hx
  · intro h
    exact List.mem_map.2 ⟨(a, b, w), h, rfl⟩

theorem addEntries_append (d : Dict2) (es es' : List (Int × Int × Rat)) :
    addEntries d (es ++ es') = addEntries (addEntries d es) es' := by
  unfold addEntries; rw [List.foldl_append]

theorem addEntriesRev_append (d : Dict2) (es es' : List (Int × Int × Rat)) :
    addEntriesRev d (es ++ es') = addEntriesRev (addEntriesRev d es) es' := by
  unfold addEntriesRev; rw [List.foldl_append]

end C01
