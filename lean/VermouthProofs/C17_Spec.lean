import VermouthProofs.C17_Convert
/-!
C17 helper lemmas, part 6: properties of the run-based specification `convertSpec`.
-/
namespace C17

theorem mapM_eq_some_iff (f : Char → Option Char) (s cg : List Char) :
    s.mapM f = some cg ↔ s.map f = cg.map some := by
  induction s generalizing cg with
  | nil =>
    simp only [List.mapM_nil, List.map_nil]
    constructor
    · intro h; cases h; rfl
    · intro h
      cases cg with
      | nil => rfl
      | cons a l => simp at h
  | cons c s ih =>
    rw [List.mapM_cons]
    cases hf : f c with
    | none =>
      simp only [List.map_cons, hf]
      constructor
      · intro h; simp at h
      · intro h
        cases cg with
        | nil => simp at h
        | cons a l => simp at h
    | some g =>
      cases hs : s.mapM f with
      | none =>
        simp only [List.map_cons, hf]
        constructor
        · intro h; simp at h
        · intro h
          cases cg with
          | nil => simp at h
          | cons a l =>
            simp only [List.map_cons, List.cons.injEq] at h
            have := (ih l).mpr h.2
            rw [hs] at this; cases this
      | some l0 =>
        have h0 := (ih l0).mp hs
        simp only [List.map_cons, hf]
        constructor
        · intro h
          simp at h
          subst h
          simp [h0]
        · intro h
          cases cg with
          | nil => simp at h
          | cons a l =>
            simp only [List.map_cons, List.cons.injEq, Option.some.injEq] at h
            have := (ih l).mpr h.2
            rw [hs] at this
            cases this
            simp [h.1]

theorem rewriteRuns_length (cg : List Char) : ∀ n, (rewriteRuns n cg).length = n + cg.length := by
  induction cg with
  | nil => intro n; simp [rewriteRuns, specRun_length]
  | cons c cs ih =>
    intro n
    simp only [rewriteRuns]
    split
    · rw [ih]; simp; omega
    · simp [specRun_length, ih]

/-- positions of the class string that are not helix keep their class -/
theorem rewriteRuns_nonhelix (cg : List Char) : ∀ (n i : Nat) (g : Char), cg[i]? = some g → g ≠ 'H' →
    (rewriteRuns n cg)[n + i]? = some g := by
  induction cg with
  | nil => intro n i g h; simp at h
  | cons c cs ih =>
    intro n i g h hg
    simp only [rewriteRuns]
    split
    · rename_i hc
      cases i with
      | zero => simp at h; exact absurd (h ▸ hc) hg
      | succ j =>
        simp only [List.getElem?_cons_succ] at h
        have := ih (n + 1) j g h hg
        rw [show n + (j + 1) = n + 1 + j by omega]
        exact this
    · rw [List.getElem?_append_right (by simp [specRun_length])]
      simp only [specRun_length, Nat.add_sub_cancel_left]
      cases i with
      | zero => simpa using h
      | succ j =>
        simp only [List.getElem?_cons_succ] at h ⊢
        have := ih 0 j g h hg
        simpa using this

theorem rewriteRuns_hRun (L : Nat) (rest : List Char) : ∀ n, rewriteRuns n (hRun L ++ rest) = rewriteRuns (n + L) rest := by
  induction L with
  | zero => intro n; simp [hRun]
  | succ L ih =>
    intro n
    have : hRun (L + 1) ++ rest = 'H' :: (hRun L ++ rest) := by simp [hRun, List.replicate_succ]
    rw [this]
    simp only [rewriteRuns, if_true]
    rw [ih]
    congr 1; omega

theorem specRun_zero : specRun 0 = [] := by decide

theorem rewriteRuns_split (p : List Char) (c : Char) (hc : c ≠ 'H') (rest : List Char) :
    ∀ n, rewriteRuns n (p ++ c :: rest) = rewriteRuns n (p ++ [c]) ++ rewriteRuns 0 rest := by
  induction p with
  | nil => intro n; simp [rewriteRuns, hc, specRun_zero]
  | cons d p ih =>
    intro n
    simp only [List.cons_append, rewriteRuns]
    split
    · exact ih _
    · rw [ih]; simp

theorem rewriteRuns_pending (L : Nat) (post : List Char) (h : post.head? ≠ some 'H') :
    rewriteRuns L post = specRun L ++ rewriteRuns 0 post := by
  cases post with
  | nil => simp [rewriteRuns, specRun_zero]
  | cons c cs =>
    have hc : c ≠ 'H' := by intro e; apply h; simp [e]
    simp [rewriteRuns, hc, specRun_zero]

/-- a maximal run of `L` helix positions becomes `specRun L`; what is before and after is
rewritten independently -/
theorem rewriteRuns_run (pre post : List Char) (L : Nat) (hpre : pre.getLast? ≠ some 'H')
    (hpost : post.head? ≠ some 'H') :
    rewriteRuns 0 (pre ++ hRun L ++ post) = rewriteRuns 0 pre ++ specRun L ++ rewriteRuns 0 post := by
  rcases List.eq_nil_or_concat pre with rfl | ⟨p, c, rfl⟩
  · simp only [List.nil_append, rewriteRuns, specRun_zero]
    rw [rewriteRuns_hRun, Nat.zero_add, rewriteRuns_pending L post hpost]
  · simp only [List.concat_eq_append] at hpre ⊢
    have hc : c ≠ 'H' := by
      intro e; apply hpre; simp [e]
    have e1 : p ++ [c] ++ hRun L ++ post = p ++ c :: (hRun L ++ post) := by simp
    rw [e1, rewriteRuns_split p c hc, rewriteRuns_hRun, Nat.zero_add, rewriteRuns_pending L post hpost]
    simp

end C17
