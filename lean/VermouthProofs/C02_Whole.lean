import VermouthProofs.C02_Run
/-! From the well-formedness predicate to the facts the run lemmas need; the whole file. -/
namespace C02

theorem guardList_keyOf (i : Inter) : guardList (keyOf i) = guardOf i := rfl

theorem flatMap_map_congr {β} (blks : List (Key × List Inter)) (f : Key → Inter → β) (g : Inter → β)
    (h : ∀ blk ∈ blks, ∀ i ∈ blk.2, f blk.1 i = g i) :
    blks.flatMap (fun blk => blk.2.map (f blk.1)) = (blks.flatMap (·.2)).map g := by
  induction blks with
  | nil => rfl
  | cons b t ih =>
    simp only [List.flatMap_cons, List.map_append]
    rw [ih (fun blk hb => h blk (by simp [hb]))]
    congr 1
    apply List.map_congr_left
    intro i hi
    exact h b (by simp) i hi

theorem sortInters_perm (is : List Inter) : (sortInters is).Perm is := List.mergeSort_perm _ _

theorem run_section (tbl : List (String × Arity)) (m : Mol) (c : List (Int × Nat)) (w : Nat)
    (s : Nat × String × List Inter) (ar : Arity) (st : PState)
    (hg : st.guard = []) (h1 : retag s.2.1 ≠ "moleculetype") (h2 : retag s.2.1 ≠ "atoms")
    (ht : tbl.lookup (retag s.2.1) = some ar) (hv : (ar = .firstSkip) ↔ (retag s.2.1 = "virtual_sitesn"))
    (hr : ∀ i ∈ s.2.2, InterReady c st.out.atoms.length ar i)
    (hpre : freeOk m.pre = true) (hpost : freeOk m.post = true) :
    run tbl st (sectionLines m c w s)
      = .ok { st with sect := some (retag s.2.1),
                      out := { st.out with
                        inters := st.out.inters ++ (sortInters s.2.2).map (toPInter c s.2.1) } } := by
  unfold sectionLines
  rw [List.append_assoc]
  rw [run_append_ok tbl st { st with sect := some (retag s.2.1) } _ _
    (by rw [run_cons_ok tbl st _ _ _ (by simpa [lineTokens] using step_sect tbl st (retag s.2.1))]; rfl)]
  rw [run_append_ok tbl _ _ _ _ (run_skip tbl _ _ (freeOk_lines m.pre hpre _))]
  rw [run_blocks tbl c w (retag s.2.1) ar _ _ { st with sect := some (retag s.2.1) } rfl hg h1 h2 ht hv
    (fun blk hb i hi => hr i ((sortInters_perm s.2.2).mem_iff.mp (groupRuns_mem _ blk hb i hi)))
    (freeOk_lines m.post hpost _)]
  have := flatMap_map_congr (groupRuns (sortInters s.2.2))
    (fun k => pinterOf c (retag s.2.1) (guardList k)) (toPInter c s.2.1)
    (by
      intro blk hb i hi
      have hk := groupRuns_keys _ blk hb i hi
      simp only [pinterOf, toPInter, ← hk, guardList_keyOf, idxsOf])
  rw [this, groupRuns_flatten]

/-- what well-formedness gives for one written section -/
def SectReady (tbl : List (String × Arity)) (c : List (Int × Nat)) (N : Nat)
    (s : Nat × String × List Inter) : Prop :=
  retag s.2.1 ≠ "moleculetype" ∧ retag s.2.1 ≠ "atoms" ∧
    ∃ ar, tbl.lookup (retag s.2.1) = some ar ∧ ((ar = .firstSkip) ↔ (retag s.2.1 = "virtual_sitesn")) ∧
      ∀ i ∈ s.2.2, hasBoth i = false ∧ InterReady c N ar i

theorem run_sections (tbl : List (String × Arity)) (m : Mol) (c : List (Int × Nat)) (w : Nat)
    (secs : List (Nat × String × List Inter)) (st : PState) (hg : st.guard = [])
    (hr : ∀ s ∈ secs, SectReady tbl c st.out.atoms.length s)
    (hpre : freeOk m.pre = true) (hpost : freeOk m.post = true) :
    ∃ sct, run tbl st ((secs.map (sectionLines m c w)).flatten)
      = .ok { st with sect := sct,
                      out := { st.out with
                        inters := st.out.inters
                          ++ secs.flatMap (fun s => (sortInters s.2.2).map (toPInter c s.2.1)) } } := by
  induction secs generalizing st with
  | nil => exact ⟨st.sect, by simp [run]⟩
  | cons s t ih =>
    obtain ⟨h1, h2, ar, ht, hv, hi⟩ := hr s (by simp)
    simp only [List.map_cons, List.flatten_cons, List.flatMap_cons]
    rw [run_append_ok tbl st _ _ _ (run_section tbl m c w s ar st hg h1 h2 ht hv
      (fun i hm => (hi i hm).2) hpre hpost)]
    obtain ⟨sct, hrun⟩ := ih ⟨some (retag s.2.1), st.guard,
        ⟨st.out.moltype, st.out.atoms, st.out.inters ++ (sortInters s.2.2).map (toPInter c s.2.1)⟩⟩
      hg (fun s' hs' => hr s' (by simp [hs']))
    refine ⟨sct, ?_⟩
    rw [hrun]
    simp

theorem run_remaining (tbl : List (String × Arity)) (m : Mol) (names : List String) (st : PState)
    (hpre : freeOk m.pre = true) (hpost : freeOk m.post = true) :
    ∃ sct, run tbl st (names.flatMap (fun n =>
        [Line.sect n] ++ linesOf m.pre n ++ linesOf m.post n ++ [Line.blank]))
      = .ok { st with sect := sct } := by
  induction names generalizing st with
  | nil => exact ⟨st.sect, by simp [run]⟩
  | cons n t ih =>
    obtain ⟨sct, hrun⟩ := ih { st with sect := some n }
    refine ⟨sct, ?_⟩
    rw [List.flatMap_cons]
    rw [run_append_ok tbl st { st with sect := some n } _ _ (by
      simp only [List.append_assoc, List.cons_append, List.nil_append]
      rw [run_cons_ok tbl st _ _ _ (by simpa [lineTokens] using step_sect tbl st n)]
      rw [run_append_ok tbl _ _ _ _ (run_skip tbl _ _ (freeOk_lines m.pre hpre _))]
      rw [run_append_ok tbl _ _ _ _ (run_skip tbl _ _ (freeOk_lines m.post hpost _))]
      rw [run_cons_ok tbl _ _ _ _ (step_nil tbl _)]
      rfl)]
    exact hrun

/-! ### from `wellFormed` to the facts above -/

theorem correspondence_isSome (m : Mol) (k : Int) (h : k ∈ m.atoms.map (·.key)) :
    (lookupIdx (correspondence m) k).isSome = true := by
  apply lookup_corrOf_isSome
  exact ((sortedNodes_perm m).map _).mem_iff.mpr h

theorem correspondence_range (m : Mol) (k : Int) (n : Nat) (h : lookupIdx (correspondence m) k = some n) :
    1 ≤ n ∧ n ≤ m.atoms.length := by
  obtain ⟨h1, h2, _⟩ := lookup_corrOf_some _ _ _ _ h
  rw [sortedNodes_length] at h2
  omega

theorem interReady_of_ok (m : Mol) (ar : Arity) (i : Inter)
    (h : interOk (m.atoms.map (·.key)) ar i = true) :
    InterReady (correspondence m) m.atoms.length ar i := by
  simp only [interOk, Bool.and_eq_true, List.all_eq_true, List.contains_iff_mem] at h
  obtain ⟨⟨_, hfit⟩, hmem⟩ := h
  have hne : i.atoms ≠ [] ∧ arityFits ar i.atoms.length i.params := by
    cases ar with
    | fixed k =>
      simp only [Bool.and_eq_true, beq_iff_eq, decide_eq_true_eq] at hfit
      refine ⟨?_, hfit.1, hfit.2⟩
      intro e; rw [e] at hfit; simp at hfit; omega
    | all =>
      simp only [Bool.and_eq_true, List.isEmpty_iff, Bool.not_eq_true', List.isEmpty_eq_false_iff] at hfit
      refine ⟨hfit.2, hfit.1, ?_⟩
      intro e; exact hfit.2 (List.eq_nil_of_length_eq_zero e)
    | firstSkip =>
      simp only [Bool.and_eq_true, beq_iff_eq, Bool.not_eq_true', List.isEmpty_eq_false_iff] at hfit
      refine ⟨hfit.2, hfit.1, ?_⟩
      intro e; exact hfit.2 (List.eq_nil_of_length_eq_zero e)
  exact { lookups := fun k hk => correspondence_isSome m k (hmem k hk)
          range := fun k _ n hn => correspondence_range m k n hn
          fits := hne.2
          nonempty := hne.1 }

theorem mem_sectKeys (inters : List (String × List Inter)) (s : Nat × String × List Inter)
    (h : s ∈ sectKeys inters) : (s.2.1, s.2.2) ∈ inters ∧ s.2.2 ≠ [] := by
  simp only [sectKeys, List.mem_filterMap] at h
  obtain ⟨p, hp, hs⟩ := h
  obtain ⟨pn, pl⟩ := p
  cases pl with
  | nil => simp at hs
  | cons i t =>
    simp only [Option.some.injEq] at hs
    subst hs
    exact ⟨hp, by simp⟩

theorem mem_sortInteractions (m : Mol) (s : Nat × String × List Inter) (h : s ∈ sortInteractions m) :
    (s.2.1, s.2.2) ∈ m.inters ∧ s.2.2 ≠ [] :=
  mem_sectKeys _ _ ((List.mergeSort_perm _ _).mem_iff.mp h)

theorem sectReady_of_ok (tbl : List (String × Arity)) (m : Mol) (p : String × List Inter) (hne : p.2 ≠ [])
    (h : sectionOk tbl (m.atoms.map (·.key)) p = true) (n : Nat) :
    SectReady tbl (correspondence m) m.atoms.length (n, p.1, p.2) := by
  simp only [sectionOk, Bool.or_eq_true, List.isEmpty_iff, Bool.and_eq_true, bne_iff_ne, ne_eq] at h
  rcases h with h | ⟨⟨h1, h2⟩, h3⟩
  · exact absurd h hne
  · refine ⟨h1, h2, ?_⟩
    cases hl : tbl.lookup (retag p.1) with
    | none => rw [hl] at h3; cases h3
    | some ar =>
      rw [hl] at h3
      simp only [Bool.and_eq_true, List.all_eq_true] at h3
      obtain ⟨hv, hall⟩ := h3
      refine ⟨ar, rfl, ?_, ?_⟩
      · have := hv
        simp only [beq_iff_eq] at this
        constructor
        · intro e
          have e1 : (ar == Arity.firstSkip) = true := by simpa using e
          rw [e1] at this
          simpa using this.symm
        · intro e
          have e1 : (retag p.1 == "virtual_sitesn") = true := by simpa using e
          rw [e1] at this
          simpa using this
      · intro i hi
        have hok := hall i hi
        refine ⟨?_, interReady_of_ok m ar i hok⟩
        simp only [interOk, Bool.and_eq_true, Bool.not_eq_true'] at hok
        exact hok.1.1

structure WfFacts (tbl : List (String × Arity)) (m : Mol) : Prop where
  nonempty : m.atoms.isEmpty = false
  nodup : (m.atoms.map (·.key)).Nodup
  atomsOk : ∀ a ∈ m.atoms, atomOk a = true
  moltype : keywords.contains m.moltype = false
  sections : ∀ s ∈ sortInteractions m, SectReady tbl (correspondence m) m.atoms.length s
  pre : freeOk m.pre = true
  post : freeOk m.post = true

theorem wfFacts_of (tbl : List (String × Arity)) (m : Mol) (h : wellFormed tbl m = true) : WfFacts tbl m := by
  simp only [wellFormed, Bool.and_eq_true, Bool.not_eq_true', List.all_eq_true] at h
  obtain ⟨⟨⟨⟨⟨⟨h1, h2⟩, h3⟩, h4⟩, h5⟩, h6⟩, h7⟩ := h
  exact { nonempty := h1
          nodup := (nodupKeys_iff _).mp h2
          atomsOk := h3
          moltype := h4
          sections := fun s hs => by
            obtain ⟨hm, hne⟩ := mem_sortInteractions m s hs
            exact sectReady_of_ok tbl m (s.2.1, s.2.2) hne (h5 _ hm) s.1
          pre := h6
          post := h7 }

/-! ### the writer succeeds on well-formed molecules, with an explicit result -/

def fileLinesOrd (m : Mol) (names : List String) : List Line :=
  prelude m ++ atomsPart m
    ++ ((sortInteractions m).map (sectionLines m (correspondence m) (widthsOf m).idx)).flatten
    ++ remainingPartOf m names

def fileLines (m : Mol) : List Line :=
  prelude m ++ atomsPart m
    ++ ((sortInteractions m).map (sectionLines m (correspondence m) (widthsOf m).idx)).flatten
    ++ remainingPart m

theorem fileLinesOrd_default (m : Mol) : fileLinesOrd m (remainingNames m) = fileLines m := rfl

theorem writeSection_ok (tbl) (m : Mol) (c : List (Int × Nat)) (N w : Nat) (s : Nat × String × List Inter)
    (h : SectReady tbl c N s) : writeSection m c w s = .ok (sectionLines m c w s) := by
  obtain ⟨_, _, ar, _, _, hi⟩ := h
  unfold writeSection
  have hany : s.2.2.any hasBoth = false := by
    rw [List.any_eq_false]; intro i hm; simp [(hi i hm).1]
  simp only [hany, Bool.false_eq_true, if_false]
  rw [mapM_except_ok_of_forall _ (blockLines c w (retag s.2.1) (linesOf m.post (retag s.2.1))) _
    (fun blk hb => writeBlock_ok (N := N) (ar := ar) w _ _ blk
      (fun i hm => (hi i ((sortInters_perm s.2.2).mem_iff.mp (groupRuns_mem _ blk hb i hm))).2))]
  rfl

theorem write_ok (tbl : List (String × Arity)) (m : Mol) (h : WfFacts tbl m) : write m = .ok (fileLines m) := by
  have hall : m.atoms.all atomOk = true := List.all_eq_true.mpr h.atomsOk
  unfold write writeBody
  simp only [h.nonempty, hall, Bool.not_true, Bool.false_eq_true, if_false]
  rw [mapM_except_ok_of_forall _ (sectionLines m (correspondence m) (widthsOf m).idx) _
    (fun s hs => writeSection_ok tbl m _ _ _ s (h.sections s hs))]
  rfl

theorem writeOrd_ok (tbl : List (String × Arity)) (m : Mol) (h : WfFacts tbl m) (names : List String) :
    writeOrd m names = .ok (fileLinesOrd m names) := by
  have hall : m.atoms.all atomOk = true := List.all_eq_true.mpr h.atomsOk
  unfold writeOrd writeBodyOrd
  simp only [h.nonempty, hall, Bool.not_true, Bool.false_eq_true, if_false]
  rw [mapM_except_ok_of_forall _ (sectionLines m (correspondence m) (widthsOf m).idx) _
    (fun s hs => writeSection_ok tbl m _ _ _ s (h.sections s hs))]
  rfl

end C02

namespace C02

theorem run_fileLinesOrd (tbl : List (String × Arity)) (m : Mol) (h : WfFacts tbl m) (names : List String) :
    ∃ sct, run tbl PState.init (fileLinesOrd m names) = .ok ⟨sct, [], canon m⟩ := by
  let A := (sortedNodes m).map toPAtom
  let I := (sortInteractions m).flatMap (fun s => (sortInters s.2.2).map (toPInter (correspondence m) s.2.1))
  let st1 : PState := ⟨some "moleculetype", [], ⟨some (m.moltype, m.nrexcl), [], []⟩⟩
  let st2 : PState := ⟨some "atoms", [], ⟨some (m.moltype, m.nrexcl), A, []⟩⟩
  obtain ⟨sct1, h1⟩ := run_sections tbl m (correspondence m) (widthsOf m).idx (sortInteractions m)
    st2 rfl
    (by
      intro s hs
      have := h.sections s hs
      simpa [st2, A, sortedNodes_length] using this)
    h.pre h.post
  let st3 : PState := ⟨sct1, [], ⟨some (m.moltype, m.nrexcl), A, [] ++ I⟩⟩
  obtain ⟨sct2, h2⟩ := run_remaining tbl m names st3 h.pre h.post
  refine ⟨sct2, ?_⟩
  have e1 : run tbl PState.init (prelude m ++ (atomsPart m ++
      (((sortInteractions m).map (sectionLines m (correspondence m) (widthsOf m).idx)).flatten
        ++ remainingPartOf m names)))
      = run tbl st1 (atomsPart m ++
      (((sortInteractions m).map (sectionLines m (correspondence m) (widthsOf m).idx)).flatten
        ++ remainingPartOf m names)) :=
    run_append_ok tbl _ st1 _ _ (run_prelude tbl m h.moltype)
  have e2 : run tbl st1 (atomsPart m ++
      (((sortInteractions m).map (sectionLines m (correspondence m) (widthsOf m).idx)).flatten
        ++ remainingPartOf m names))
      = run tbl st2 (((sortInteractions m).map (sectionLines m (correspondence m) (widthsOf m).idx)).flatten
        ++ remainingPartOf m names) :=
    run_append_ok tbl st1 st2 _ _ (run_atomsPart tbl m st1 rfl h.pre h.post h.atomsOk)
  have e3 : run tbl st2 (((sortInteractions m).map (sectionLines m (correspondence m) (widthsOf m).idx)).flatten
        ++ remainingPartOf m names) = run tbl st3 (remainingPartOf m names) :=
    run_append_ok tbl st2 st3 _ _ h1
  unfold fileLinesOrd
  rw [List.append_assoc, List.append_assoc, e1, e2, e3]
  unfold remainingPartOf
  rw [h2]
  simp [st3, canon, A, I]

theorem run_fileLines (tbl : List (String × Arity)) (m : Mol) (h : WfFacts tbl m) :
    ∃ sct, run tbl PState.init (fileLines m) = .ok ⟨sct, [], canon m⟩ :=
  run_fileLinesOrd tbl m h (remainingNames m)

end C02
