import VermouthModel.C09_Pipeline
import VermouthProofs.C09
import VermouthProofs.C01_Events
import VermouthProofs.C01_Functional
/-!
C09 — helper lemmas for the composition `do_mapping` ∘ `do_average_bead`
(`VermouthProps/C09_Pipeline.lean`).

Vocabulary:
* a *log* is the list of assignments `(atom, particle, weight)` in the order the code executes
  `mol_to_out[atom][particle] = weight; out_to_mol[particle][atom] = weight`;
* `blkEntries st p` / `evEntries st e`: the assignments one block / modification match makes when it is
  applied in state `st`; `logFrom st es`: those of a whole schedule, threading the state;
* `declaredWeight log a k`: the weight of atom `a` in particle `k` = the LAST assignment to that pair
  (`C01.lastW`), `none` when there is none;
* `declaredTerms`, `declaredPos`: weighted positions / weighted mean computed from a log and the
  input coordinates alone.
-/
namespace C09
open C01 (St Dict2 Placement ModPlacement Ev applyEv lastW addEntries addEntriesRev get2 dset dset2)

/-! ### dictionaries -/

theorem assoc_eq_lookup {β : Type} (l : List (Int × β)) (k : Int) : assoc l k = l.lookup k := by
  induction l with
  | nil => rfl
  | cons e r ih =>
    obtain ⟨k', v⟩ := e
    unfold assoc
    by_cases h : k' = k
    · subst h; simp [List.lookup]
    · have : (k == k') = false := by simpa using fun hh => h hh.symm
      simp [h, List.lookup, this, ih]

theorem lastW_swap (a b : Int) (es : List (Int × Int × Rat)) (acc : Option Rat) :
    lastW b a (es.map (fun e => (e.2.1, e.1, e.2.2))) acc = lastW a b es acc := by
  induction es generalizing acc with
  | nil => rfl
  | cons e es ih =>
    simp only [List.map_cons, lastW]
    rw [ih]
    congr 1
    by_cases h : a = e.1 ∧ b = e.2.1
    · rw [if_pos h, if_pos ⟨h.2, h.1⟩]
    · rw [if_neg h, if_neg (fun hh => h ⟨hh.2, hh.1⟩)]

/-- reading `out_to_mol[k][a]` after the assignments of a log: the last one wins -/
theorem get2_rev_log (log : List (Int × Int × Rat)) (k a : Int) :
    get2 (addEntriesRev [] log) k a = lastW a k log none := by
  rw [C01.addEntriesRev_eq, C01.get2_addEntries, lastW_swap]
  rfl

theorem lookup_none_iff_not_dom (d : Dict2) (k : Int) : d.lookup k = none ↔ k ∉ C01.dom d := by
  induction d with
  | nil => simp [C01.dom]
  | cons e r ih =>
    obtain ⟨k', v⟩ := e
    by_cases h : k = k'
    · subst h; simp [List.lookup, C01.dom]
    · have : (k == k') = false := by simpa using h
      simp only [List.lookup, this, C01.dom, List.map_cons, List.mem_cons, h, false_or]
      exact ih

/-- particle `k` has an entry in `out_to_mol` iff some assignment names it -/
theorem lookup_rev_log_isSome (log : List (Int × Int × Rat)) (k : Int) :
    ((addEntriesRev [] log).lookup k).isSome = log.any (fun e => e.2.1 == k) := by
  rw [Bool.eq_iff_iff, Option.isSome_iff_ne_none, Ne, lookup_none_iff_not_dom, not_not,
    C01.addEntriesRev_eq, C01.mem_dom_addEntries]
  simp [C01.dom]

/-! ### the inner dictionaries have distinct keys and are never empty -/

theorem dset_keys (d : List (Int × Rat)) (k : Int) (w : Rat) :
    (dset d k w).map Prod.fst = if k ∈ d.map Prod.fst then d.map Prod.fst else d.map Prod.fst ++ [k] := by
  induction d with
  | nil => simp [dset]
  | cons e r ih =>
    obtain ⟨k', w'⟩ := e
    unfold dset
    by_cases h : k' = k
    · subst h; simp
    · simp only [h, if_false, List.map_cons, ih, List.mem_cons]
      have : ¬ k = k' := fun hh => h hh.symm
      simp only [this, false_or]
      split <;> simp

theorem dset_nodup (d : List (Int × Rat)) (k : Int) (w : Rat) (h : (d.map Prod.fst).Nodup) :
    ((dset d k w).map Prod.fst).Nodup := by
  rw [dset_keys]
  split
  · exact h
  · rename_i hk
    rw [List.nodup_append]
    exact ⟨h, by simp, by intro a ha b hb; simp at hb; subst hb; exact fun hab => hk (hab ▸ ha)⟩

/-- every inner dictionary has distinct keys and at least one entry -/
def InnerOK (d : Dict2) : Prop := ∀ e ∈ d, (e.2.map Prod.fst).Nodup ∧ e.2 ≠ []

theorem dset_ne_nil (d : List (Int × Rat)) (k : Int) (w : Rat) : dset d k w ≠ [] := by
  cases d with
  | nil => simp [dset]
  | cons e r => obtain ⟨k', w'⟩ := e; unfold dset; split <;> simp

theorem dset2_innerOK (d : Dict2) (a b : Int) (w : Rat) (h : InnerOK d) : InnerOK (dset2 d a b w) := by
  induction d with
  | nil =>
    intro e he
    simp only [dset2, List.mem_singleton] at he
    subst he
    simp
  | cons x r ih =>
    obtain ⟨a', inner⟩ := x
    unfold dset2
    have hr : InnerOK r := fun e he => h e (List.mem_cons_of_mem _ he)
    have hx := h (a', inner) List.mem_cons_self
    split
    · intro e he
      rcases List.mem_cons.1 he with rfl | he
      · exact ⟨dset_nodup _ _ _ hx.1, dset_ne_nil _ _ _⟩
      · exact hr e he
    · intro e he
      rcases List.mem_cons.1 he with rfl | he
      · exact hx
      · exact ih hr e he

theorem addEntries_innerOK (d : Dict2) (es : List (Int × Int × Rat)) (h : InnerOK d) :
    InnerOK (addEntries d es) := by
  induction es generalizing d with
  | nil => exact h
  | cons e es ih => exact ih _ (dset2_innerOK d _ _ _ h)

theorem rev_log_innerOK (log : List (Int × Int × Rat)) : InnerOK (addEntriesRev [] log) := by
  rw [C01.addEntriesRev_eq]
  exact addEntries_innerOK [] _ (fun e he => by cases he)

theorem lookup_mem {β : Type} (l : List (Int × β)) (k : Int) (v : β) (h : l.lookup k = some v) : (k, v) ∈ l := by
  induction l with
  | nil => cases h
  | cons e r ih =>
    obtain ⟨k', v'⟩ := e
    by_cases hk : k = k'
    · subst hk
      simp [List.lookup] at h
      subst h
      exact List.mem_cons_self
    · have : (k == k') = false := by simpa using hk
      simp only [List.lookup, this] at h
      exact List.mem_cons_of_mem _ (ih h)

theorem mem_keys_iff_lookup (l : List (Int × Rat)) (k : Int) :
    k ∈ l.map Prod.fst ↔ (l.lookup k).isSome = true := by
  induction l with
  | nil => simp
  | cons e r ih =>
    obtain ⟨k', v'⟩ := e
    by_cases hk : k = k'
    · subst hk; simp [List.lookup]
    · have : (k == k') = false := by simpa using hk
      simp only [List.map_cons, List.mem_cons, hk, false_or, List.lookup, this]
      exact ih

/-! ### `molecule.subgraph` keeps the atoms with the wanted keys: a permutation of the filter -/

theorem filter_key_eq_find (geom : List (Atom Rat)) (hg : (geom.map (·.key)).Nodup) (k : Int) :
    geom.filter (fun a => a.key == k) = (geom.find? (fun a => a.key == k)).toList := by
  induction geom with
  | nil => rfl
  | cons a r ih =>
    simp only [List.map_cons, List.nodup_cons] at hg
    by_cases h : a.key = k
    · have hr : r.filter (fun b => b.key == k) = [] := by
        rw [List.filter_eq_nil_iff]
        intro b hb hbk
        exact hg.1 (List.mem_map.2 ⟨b, hb, by rw [h]; simpa using hbk⟩)
      simp [h, hr]
    · simp [h, ih hg.2]

theorem subgraphOf_perm (geom : List (Atom Rat)) (hg : (geom.map (·.key)).Nodup) (keys : List Int)
    (hk : keys.Nodup) : (subgraphOf geom keys).Perm (geom.filter (fun a => keys.contains a.key)) := by
  induction keys with
  | nil => simp [subgraphOf]
  | cons k ks ih =>
    simp only [List.nodup_cons] at hk
    have h1 : subgraphOf geom (k :: ks) = (geom.find? (fun a => a.key == k)).toList ++ subgraphOf geom ks := by
      unfold subgraphOf
      cases hf : geom.find? (fun a => a.key == k) <;> simp [hf]
    rw [h1, ← filter_key_eq_find geom hg k]
    have h2 := List.filter_append_perm (fun a : Atom Rat => a.key == k) (geom.filter (fun a => (k :: ks).contains a.key))
    refine List.Perm.trans ?_ h2
    rw [List.filter_filter, List.filter_filter]
    have e1 : geom.filter (fun a => (a.key == k) && (k :: ks).contains a.key) = geom.filter (fun a => a.key == k) := by
      apply List.filter_congr
      intro a _
      by_cases h : a.key = k <;> simp [h]
    have e2 : geom.filter (fun a => (!(a.key == k)) && (k :: ks).contains a.key) = geom.filter (fun a => ks.contains a.key) := by
      apply List.filter_congr
      intro a _
      by_cases h : a.key = k
      · subst h; simp [hk.1]
      · simp [h]
    rw [e1, e2]
    exact List.Perm.append_left _ (ih hk.2)

/-! ### the log of a run -/

/-- the key `merge_molecule` numbers the next block from: the highest particle key so far (0 for the
empty graph); setting `nrexcl` does not change it -/
def blkOffset (st : St) : Int := C01.mergeOffset st.out

theorem mergeOffset_nrexcl (m : C12.Mol) (x : Option Int) : C01.mergeOffset { m with nrexcl := x } = C01.mergeOffset m := rfl

theorem blkOffset_eq (st : St) (p : Placement) :
    C01.mergeOffset (if st.out.nrexcl.isNone then { st.out with nrexcl := p.block.nrexcl } else st.out) = blkOffset st := by
  unfold blkOffset
  split
  · exact mergeOffset_nrexcl _ _
  · rfl

/-- the assignments block match `p` makes when it is applied in state `st`: the weights of its
mapping under the key shift of `merge_molecule`, then weight 0 from each of its atoms to each particle
nothing maps to -/
def blkEntries (st : St) (p : Placement) : List (Int × Int × Rat) :=
  ((C01.weightEntries p.block.keys (blkOffset st) p.molToBlock).getD [])
    ++ C01.zeroEntries p.atoms (C01.spawnedOut p.block.keys (blkOffset st) p.molToBlock)

/-- the assignments a modification match makes: its declared weights, each modification node replaced
by the particle it was created as / laid over (`mod_to_out`) -/
def modEntriesOf (st : St) (q : ModPlacement) : List (Int × Int × Rat) :=
  match C01.placeModNodes st q q.nodes st.out [] with
  | some (_, m2o) => (C01.modEntries m2o q.molToMod).getD []
  | none => []

def evEntries (st : St) : Ev → List (Int × Int × Rat)
  | .blk p => blkEntries st p
  | .mod q => modEntriesOf st q

/-- all assignments of a schedule, in execution order -/
def logFrom (st : St) : List Ev → List (Int × Int × Rat)
  | [] => []
  | e :: es => evEntries st e ++ logFrom (applyEv st e) es

theorem applyBlock_tables (st : St) (p : Placement) (he : st.err = none) (hok : (C01.applyBlock st p).err = none) :
    (C01.applyBlock st p).molToOut = addEntries st.molToOut (blkEntries st p)
    ∧ (C01.applyBlock st p).outToMol = addEntriesRev st.outToMol (blkEntries st p)
    ∧ (C01.weightEntries p.block.keys (blkOffset st) p.molToBlock).isSome = true := by
  unfold C01.applyBlock at hok ⊢
  unfold blkEntries
  rw [← blkOffset_eq st p]
  simp only [he, Option.isSome_none, Bool.false_eq_true, if_false] at hok ⊢
  generalize (if st.out.nrexcl.isNone = true then { st.out with nrexcl := p.block.nrexcl } else st.out) = out0 at hok ⊢
  generalize hm : out0.merge p.block = r at hok ⊢
  obtain ⟨out1, e⟩ := r
  cases e with
  | ok =>
    simp only at hok ⊢
    generalize hw : C01.weightEntries p.block.keys (C01.mergeOffset out0) p.molToBlock = w at hok ⊢
    generalize hr : p.refs.mapM (fun r => (C12.corrOf p.block.keys (C01.mergeOffset out0) r.1).map (fun o => (o, r.2))) = rr at hok ⊢
    cases w with
    | none => simp at hok
    | some wes =>
      cases rr with
      | none => simp at hok
      | some nr => simp
  | keyerror => simp at hok
  | valueerror => simp at hok
  | nxerror => simp at hok
  | badindex => simp at hok

theorem applyMod_tables (st : St) (q : ModPlacement) (he : st.err = none) (hok : (C01.applyMod st q).err = none) :
    (C01.applyMod st q).molToOut = addEntries st.molToOut (modEntriesOf st q)
    ∧ (C01.applyMod st q).outToMol = addEntriesRev st.outToMol (modEntriesOf st q) := by
  obtain ⟨out1, m2o, es, h1, h2, h3, h4, _⟩ := C01.applyMod_spec st q he hok
  unfold modEntriesOf
  rw [h1]
  simp only [h2, Option.getD_some]
  exact ⟨h3, h4⟩

theorem applyEv_tables (st : St) (e : Ev) (he : st.err = none) (hok : (applyEv st e).err = none) :
    (applyEv st e).molToOut = addEntries st.molToOut (evEntries st e)
    ∧ (applyEv st e).outToMol = addEntriesRev st.outToMol (evEntries st e) := by
  cases e with
  | blk p => exact ⟨(applyBlock_tables st p he hok).1, (applyBlock_tables st p he hok).2.1⟩
  | mod q => exact applyMod_tables st q he hok

theorem foldEv_err_none (es : List Ev) (st : St) (hok : (es.foldl applyEv st).err = none) : st.err = none := by
  cases h : st.err with
  | none => rfl
  | some x => rw [C01.foldl_applyEv_err es st x h, h] at hok; cases hok

/-- the two tables after a successful run are exactly the log, applied in order -/
theorem foldEv_tables (es : List Ev) (st : St) (hok : (es.foldl applyEv st).err = none) :
    (es.foldl applyEv st).molToOut = addEntries st.molToOut (logFrom st es)
    ∧ (es.foldl applyEv st).outToMol = addEntriesRev st.outToMol (logFrom st es) := by
  induction es generalizing st with
  | nil => exact ⟨rfl, rfl⟩
  | cons e es ih =>
    simp only [List.foldl_cons] at hok ⊢
    have hok1 := foldEv_err_none es _ hok
    have he : st.err = none := by
      cases h : st.err with
      | none => rfl
      | some x => rw [C01.applyEv_err st e x h] at hok1; rw [h] at hok1; cases hok1
    obtain ⟨s1, s2⟩ := applyEv_tables st e he hok1
    obtain ⟨t1, t2⟩ := ih _ hok
    exact ⟨by rw [t1, s1, logFrom, C01.addEntries_append], by rw [t2, s2, logFrom, C01.addEntriesRev_append]⟩

theorem mem_logFrom (st : St) (es : List Ev) (x : Int × Int × Rat) :
    x ∈ logFrom st es ↔ ∃ pre e post, es = pre ++ e :: post ∧ x ∈ evEntries (pre.foldl applyEv st) e := by
  induction es generalizing st with
  | nil => simp [logFrom]
  | cons e es ih =>
    simp only [logFrom, List.mem_append, ih]
    constructor
    · rintro (h | ⟨pre, e', post, hs, hx⟩)
      · exact ⟨[], e, es, rfl, h⟩
      · exact ⟨e :: pre, e', post, by rw [hs]; rfl, hx⟩
    · rintro ⟨pre, e', post, hs, hx⟩
      cases pre with
      | nil =>
        simp only [List.nil_append, List.cons.injEq] at hs
        obtain ⟨rfl, rfl⟩ := hs
        exact Or.inl hx
      | cons y pre =>
        simp only [List.cons_append, List.cons.injEq] at hs
        obtain ⟨rfl, rfl⟩ := hs
        exact Or.inr ⟨pre, e', post, rfl, hx⟩

/-! ### where an assignment comes from -/

/-- `mem_stepEntries` of C01 for an arbitrary key offset -/
theorem mem_blkEntries (st : St) (p : Placement) (a k : Int) (w : Rat)
    (hs : (C01.weightEntries p.block.keys (blkOffset st) p.molToBlock).isSome = true) :
    (a, k, w) ∈ blkEntries st p ↔
      (∃ ws blk, (a, ws) ∈ p.molToBlock ∧ (blk, w) ∈ ws
        ∧ C12.corrOf p.block.keys (blkOffset st) blk = some k)
      ∨ (k ∈ C01.spawnedOut p.block.keys (blkOffset st) p.molToBlock ∧ a ∈ p.atoms ∧ w = 0) := by
  unfold blkEntries
  generalize blkOffset st = off at hs ⊢
  cases hw : C01.weightEntries p.block.keys off p.molToBlock with
  | none => rw [hw] at hs; cases hs
  | some wes =>
    simp only [Option.getD_some, List.mem_append]
    unfold C01.weightEntries at hw
    obtain ⟨h1, h2⟩ := C01.mapM_some_mem _ _ _ hw
    apply or_congr
    · constructor
      · intro h
        obtain ⟨x, hx, hfx⟩ := h1 _ h
        simp only [List.mem_flatMap, List.mem_map] at hx
        obtain ⟨aw, haw, bw, hbw, rfl⟩ := hx
        cases hc : C12.corrOf p.block.keys off bw.1 with
        | none => simp [hc] at hfx
        | some k' =>
          simp only [hc, Option.map_some, Option.some.injEq, Prod.mk.injEq] at hfx
          obtain ⟨rfl, rfl, rfl⟩ := hfx
          exact ⟨aw.2, bw.1, haw, hbw, hc⟩
      · rintro ⟨ws, blk, h3, h4, h5⟩
        obtain ⟨y, hy, hfy⟩ := h2 (a, blk, w) (by
          simp only [List.mem_flatMap, List.mem_map]
          exact ⟨(a, ws), h3, (blk, w), h4, rfl⟩)
        simp only [h5, Option.map_some, Option.some.injEq] at hfy
        subst hfy
        exact hy
    · unfold C01.zeroEntries
      simp only [List.mem_flatMap, List.mem_map, Prod.mk.injEq]
      constructor
      · rintro ⟨s, hs', a', ha', rfl, rfl, rfl⟩
        exact ⟨hs', ha', rfl⟩
      · rintro ⟨h3, h4, rfl⟩
        exact ⟨k, h3, a, h4, rfl, rfl, rfl⟩

/-- an assignment of a modification match is a declared weight of its mapping -/
theorem mem_modEntriesOf (st : St) (q : ModPlacement) (he : st.err = none) (hok : (C01.applyMod st q).err = none)
    (a k : Int) (w : Rat) :
    (a, k, w) ∈ modEntriesOf st q ↔
      ∃ out1 m2o, C01.placeModNodes st q q.nodes st.out [] = some (out1, m2o)
        ∧ ∃ ws b, (a, ws) ∈ q.molToMod ∧ (b, w) ∈ ws ∧ m2o.lookup b = some k := by
  obtain ⟨out1, m2o, es, h1, h2, _⟩ := C01.applyMod_spec st q he hok
  unfold modEntriesOf
  rw [h1]
  simp only [h2, Option.getD_some, Option.some.injEq, Prod.mk.injEq]
  unfold C01.modEntries at h2
  obtain ⟨i1, i2⟩ := C01.mapM_some_mem _ _ _ h2
  constructor
  · intro h
    obtain ⟨x, hx, hfx⟩ := i1 _ h
    simp only [List.mem_flatMap, List.mem_map] at hx
    obtain ⟨aw, haw, bw, hbw, rfl⟩ := hx
    cases hc : m2o.lookup bw.1 with
    | none => simp [hc] at hfx
    | some k' =>
      simp only [hc, Option.map_some, Option.some.injEq, Prod.mk.injEq] at hfx
      obtain ⟨rfl, rfl, rfl⟩ := hfx
      exact ⟨out1, m2o, ⟨rfl, rfl⟩, aw.2, bw.1, haw, hbw, hc⟩
  · rintro ⟨_, _, ⟨rfl, rfl⟩, ws, b, h3, h4, h5⟩
    obtain ⟨y, hy, hfy⟩ := i2 (a, b, w) (by
      simp only [List.mem_flatMap, List.mem_map]
      exact ⟨(a, ws), h3, (b, w), h4, rfl⟩)
    simp only [h5, Option.map_some, Option.some.injEq] at hfy
    subst hfy
    exact hy

/-- `Mapping._graph_map`: the weight table a match gives atom `a` is the table the mapping definition
declares for the `block_from` node `a` is matched with -/
theorem mem_graphMap (M : C01.MapSpec) (mt : List (Int × Int)) (p : Placement) (h : C01.graphMap M mt = some p)
    (a : Int) (ws : List (Int × Rat)) :
    (a, ws) ∈ p.molToBlock ↔ ∃ f, (a, f) ∈ mt ∧ M.weights.lookup f = some ws := by
  unfold C01.graphMap at h
  cases h1 : mt.mapM (fun gf => (M.weights.lookup gf.2).map (fun ws => (gf.1, ws))) with
  | none => simp [h1] at h
  | some mtb =>
    cases h2 : M.refs.mapM (fun orf => (mt.find? (fun gf => gf.2 == orf.2)).map (fun gf => (orf.1, gf.1))) with
    | none => simp [h1, h2] at h
    | some refs =>
      simp [h1, h2] at h
      subst h
      obtain ⟨i1, i2⟩ := C01.mapM_some_mem _ _ _ h1
      simp only
      constructor
      · intro hm
        obtain ⟨x, hx, hfx⟩ := i1 _ hm
        cases hl : M.weights.lookup x.2 with
        | none => simp [hl] at hfx
        | some ws' =>
          simp only [hl, Option.map_some, Option.some.injEq, Prod.mk.injEq] at hfx
          obtain ⟨rfl, rfl⟩ := hfx
          exact ⟨x.2, hx, hl⟩
      · rintro ⟨f, hf, hl⟩
        obtain ⟨y, hy, hfy⟩ := i2 (a, f) hf
        simp only [hl, Option.map_some, Option.some.injEq] at hfy
        subst hfy
        exact hy

theorem mem_graphMapMod (M : C01.ModSpec) (mt : List (Int × Int)) (q : ModPlacement) (h : C01.graphMapMod M mt = some q)
    (a : Int) (ws : List (Int × Rat)) :
    (a, ws) ∈ q.molToMod ↔ ∃ f, (a, f) ∈ mt ∧ M.weights.lookup f = some ws := by
  unfold C01.graphMapMod at h
  cases h1 : mt.mapM (fun gf => (M.weights.lookup gf.2).map (fun ws => (gf.1, ws))) with
  | none => simp [h1] at h
  | some mtb =>
    cases h2 : M.refs.mapM (fun orf => (mt.find? (fun gf => gf.2 == orf.2)).map (fun gf => (orf.1, gf.1))) with
    | none => simp [h1, h2] at h
    | some refs =>
      simp [h1, h2] at h
      subst h
      obtain ⟨i1, i2⟩ := C01.mapM_some_mem _ _ _ h1
      simp only
      constructor
      · intro hm
        obtain ⟨x, hx, hfx⟩ := i1 _ hm
        cases hl : M.weights.lookup x.2 with
        | none => simp [hl] at hfx
        | some ws' =>
          simp only [hl, Option.map_some, Option.some.injEq, Prod.mk.injEq] at hfx
          obtain ⟨rfl, rfl⟩ := hfx
          exact ⟨x.2, hx, hl⟩
      · rintro ⟨f, hf, hl⟩
        obtain ⟨y, hy, hfy⟩ := i2 (a, f) hf
        simp only [hl, Option.map_some, Option.some.injEq] at hfy
        subst hfy
        exact hy

/-! ### positions from a log -/

/-- the weight of atom `a` in particle `k` according to the assignments: the last one, if any -/
def declaredWeight (log : List (Int × Int × Rat)) (a k : Int) : Option Rat := lastW a k log none

/-- (weight × centre weight, position) of the atoms of the input molecule that are assigned to particle
`k` and have coordinates, in the node order of the input molecule -/
def declaredTerms (geom : List (Atom Rat)) (cw : Option String) (log : List (Int × Int × Rat)) (k : Int) :
    List (Rat × V3 Rat) :=
  geom.filterMap (fun a =>
    match declaredWeight log a.key k, a.pos with
    | some w, some p => some (w * centerFactor cw a, p)
    | _, _ => none)

/-- the weighted mean of the declared constituents (`some none` = NaN); `none` when no assignment
names the particle (it then has no 'graph' and is left alone) -/
def declaredPos (geom : List (Atom Rat)) (cw : Option String) (log : List (Int × Int × Rat)) (k : Int) :
    Option (Option (V3 Rat)) :=
  if log.any (fun e => e.2.1 == k) then some (mean epsQ (declaredTerms geom cw log k)) else none

theorem declaredWeight_isSome_iff (log : List (Int × Int × Rat)) (a k : Int) :
    (declaredWeight log a k).isSome = true ↔ ∃ e ∈ log, e.1 = a ∧ e.2.1 = k := by
  unfold declaredWeight
  constructor
  · intro h
    obtain ⟨w, hw⟩ := Option.isSome_iff_exists.1 h
    rcases C01.lastW_some a k log none w hw with h1 | h1
    · exact ⟨(a, k, w), h1, rfl, rfl⟩
    · cases h1
  · rintro ⟨e, he, h1, h2⟩
    cases hl : lastW a k log none with
    | some w => rfl
    | none => exact absurd ⟨h1, h2⟩ ((C01.lastW_none a k log none hl).2 e he)

/-- the terms `do_average_bead` sums for a particle whose table is `ws`, over the filter form of the
subgraph -/
theorem terms_filter_eq (geom : List (Atom Rat)) (cw : Option String) (ws : List (Int × Rat)) :
    terms cw ws (geom.filter (fun a => (ws.map Prod.fst).contains a.key))
      = geom.filterMap (fun a =>
          match ws.lookup a.key, a.pos with
          | some w, some p => some (w * centerFactor cw a, p)
          | _, _ => none) := by
  induction geom with
  | nil => rfl
  | cons a r ih =>
    by_cases hk : a.key ∈ ws.map Prod.fst
    · have hc : (ws.map Prod.fst).contains a.key = true := by simpa using hk
      rw [List.filter_cons_of_pos (by simpa using hc)]
      obtain ⟨w, hw⟩ := Option.isSome_iff_exists.1 ((mem_keys_iff_lookup ws a.key).1 hk)
      cases hp : a.pos with
      | none =>
        rw [terms_cons_none _ _ _ _ hp, ih, List.filterMap_cons]
        simp [hw, hp]
      | some p =>
        rw [terms_cons_some _ _ _ _ p hp, ih, List.filterMap_cons]
        simp only [hw, hp, atomWeight, assoc_eq_lookup, Option.getD_some]
    · have hc : ¬ ((ws.map Prod.fst).contains a.key = true) := by simpa using hk
      rw [List.filter_cons_of_neg (by simpa using hc), ih, List.filterMap_cons]
      have hn : ws.lookup a.key = none := by
        cases hl : ws.lookup a.key with
        | none => rfl
        | some w => exact absurd ((mem_keys_iff_lookup ws a.key).2 (by simp [hl])) hk
      simp [hn]

theorem wsum_zero_of_weights (l : List (Rat × V3 Rat)) (h : ∀ t ∈ l, t.1 = 0) : wsum l = 0 := by
  induction l with
  | nil => rfl
  | cons t r ih =>
    unfold wsum
    rw [h t List.mem_cons_self, ih (fun t' ht' => h t' (List.mem_cons_of_mem _ ht'))]
    exact Rat.add_zero 0

theorem lastW_filter (a k : Int) (log : List (Int × Int × Rat)) (acc : Option Rat) :
    lastW a k (log.filter (fun e => e.2.1 == k)) acc = lastW a k log acc := by
  induction log generalizing acc with
  | nil => rfl
  | cons e es ih =>
    by_cases hk : e.2.1 = k
    · rw [List.filter_cons_of_pos (by simpa using hk)]
      simp only [lastW]
      exact ih _
    · rw [List.filter_cons_of_neg (by simpa using hk)]
      simp only [lastW]
      rw [if_neg (fun hh => hk hh.2.symm)]
      exact ih _

end C09
