import VermouthModel.C14
import VermouthProofs.C14_Fix
import VermouthProofs.C14_Groups
/-!
Helper lemmas for C14: the traversal of `find_ptm_atoms` runs to completion with the fuel the model
gives it (`traverseFuel = 2 |E| + 2`), so the atoms of a group are closed under "extra neighbour",
and no anchor of any group is an extra atom.
-/
namespace C14

/-! ### adjacency -/

theorem mem_adjOf {E : List (Int × Int)} {k x : Int} :
    x ∈ adjOf E k ↔ x ≠ k ∧ ∃ e ∈ E, (e.1 = k ∧ e.2 = x) ∨ (e.2 = k ∧ e.1 = x) := by
  unfold adjOf
  simp only [List.mem_filterMap]
  constructor
  · rintro ⟨e, he, h⟩
    split at h
    · next hc =>
      simp only [Bool.and_eq_true, beq_iff_eq, bne_iff_ne, ne_eq] at hc
      cases h
      exact ⟨hc.2, e, he, Or.inl ⟨hc.1, rfl⟩⟩
    · split at h
      · next hc =>
        simp only [Bool.and_eq_true, beq_iff_eq, bne_iff_ne, ne_eq] at hc
        cases h
        exact ⟨hc.2, e, he, Or.inr ⟨hc.1, rfl⟩⟩
      · cases h
  · rintro ⟨hne, e, he, h⟩
    refine ⟨e, he, ?_⟩
    rcases h with ⟨h1, h2⟩ | ⟨h1, h2⟩
    · have : (e.1 == k && e.2 != k) = true := by
        simp only [Bool.and_eq_true, beq_iff_eq, bne_iff_ne, ne_eq]
        exact ⟨h1, by rw [h2]; exact hne⟩
      rw [if_pos this, h2]
    · by_cases hc : (e.1 == k && e.2 != k) = true
      · simp only [Bool.and_eq_true, beq_iff_eq, bne_iff_ne, ne_eq] at hc
        exfalso
        exact hne (h2.symm.trans hc.1)
      · rw [if_neg hc]
        have : (e.2 == k && e.1 != k) = true := by
          simp only [Bool.and_eq_true, beq_iff_eq, bne_iff_ne, ne_eq]
          exact ⟨h1, by rw [h2]; exact hne⟩
        rw [if_pos this, h2]

theorem adjOf_symm {E : List (Int × Int)} {k x : Int} (h : x ∈ adjOf E k) : k ∈ adjOf E x := by
  rw [mem_adjOf] at h ⊢
  obtain ⟨hne, e, he, h⟩ := h
  refine ⟨fun h' => hne h'.symm, e, he, ?_⟩
  rcases h with ⟨h1, h2⟩ | ⟨h1, h2⟩
  · exact Or.inr ⟨h2, h1⟩
  · exact Or.inl ⟨h2, h1⟩

/-! ### the potential that bounds the number of rounds -/

def adjSum (adj : Int → List Int) (l : List Int) : Nat := (l.map fun x => (adj x).length).sum

theorem addNew_length (l xs : List Int) : (addNew l xs).length ≤ l.length + xs.length := by
  unfold addNew
  induction xs generalizing l with
  | nil => simp
  | cons x xs ih =>
    simp only [List.foldl_cons, List.length_cons]
    refine Nat.le_trans (ih _) ?_
    split
    · omega
    · simp only [List.length_append, List.length_singleton]; omega

theorem adjSum_filter_le (adj : Int → List Int) (l : List Int) (q : Int → Bool) :
    adjSum adj (l.filter q) ≤ adjSum adj l := by
  unfold adjSum
  induction l with
  | nil => simp
  | cons x l ih =>
    rw [List.filter_cons]
    split
    · simp only [List.map_cons, List.sum_cons]; omega
    · simp only [List.map_cons, List.sum_cons]; omega

theorem adjSum_remove (adj : Int → List Int) (extra atoms : List Int) (orig : Int)
    (hnd : extra.Nodup) (hin : orig ∈ extra) (hna : orig ∉ atoms) :
    adjSum adj (extra.filter fun x => !(orig :: atoms).contains x) + (adj orig).length
      = adjSum adj (extra.filter fun x => !atoms.contains x) := by
  unfold adjSum
  induction extra with
  | nil => simp at hin
  | cons x xs ih =>
    rw [List.nodup_cons] at hnd
    by_cases hx : x = orig
    · subst hx
      have h1 : (!(x :: atoms).contains x) = false := by simp
      have h2 : (!atoms.contains x) = true := by simpa using hna
      rw [List.filter_cons, List.filter_cons, h1, h2]
      simp only [Bool.false_eq_true, if_false, if_true, List.map_cons, List.sum_cons]
      have hsame : xs.filter (fun y => !(x :: atoms).contains y) = xs.filter (fun y => !atoms.contains y) := by
        apply List.filter_congr
        intro y hy
        have : y ≠ x := fun h => hnd.1 (h ▸ hy)
        simp [List.contains_cons, this]
      rw [hsame]; omega
    · have hin' : orig ∈ xs := by
        rcases List.mem_cons.1 hin with h | h
        · exact absurd h.symm hx
        · exact h
      have IH := ih hnd.2 hin'
      have hc : (!(orig :: atoms).contains x) = (!atoms.contains x) := by
        simp [List.contains_cons, hx]
      rw [List.filter_cons, List.filter_cons, hc]
      split
      · simp only [List.map_cons, List.sum_cons]; omega
      · exact IH

/-! ### one round of the inner loop -/

def processStep (adj : Int → List Int) (extra : List Int) (orig : Int) (toSee atoms anchors : List Int) :
    List Int × List Int × List Int :=
  if extra.contains orig && !atoms.contains orig then
    (addNew toSee (adj orig), orig :: atoms, anchors)
  else if !extra.contains orig then
    (toSee, atoms, if anchors.contains orig then anchors else orig :: anchors)
  else (toSee, atoms, anchors)

theorem traverse_succ (adj : Int → List Int) (extra : List Int) (n : Nat) (orig : Int)
    (toSee atoms anchors : List Int) :
    traverse adj extra (n + 1) orig toSee atoms anchors =
      match (processStep adj extra orig toSee atoms anchors).1 with
      | [] => ((processStep adj extra orig toSee atoms anchors).2.1, (processStep adj extra orig toSee atoms anchors).2.2)
      | o :: rest => traverse adj extra n o rest (processStep adj extra orig toSee atoms anchors).2.1
          (processStep adj extra orig toSee atoms anchors).2.2 := rfl

/-- invariant of the inner loop; `orig = none` after the current node has been looked at -/
structure TInv (adj : Int → List Int) (extra : List Int) (orig : Option Int) (toSee atoms anchors : List Int) :
    Prop where
  sub : ∀ a ∈ atoms, a ∈ extra
  j : ∀ y ∈ atoms, ∀ x ∈ adj y, x ∈ extra → x ∈ atoms ∨ x ∈ toSee ∨ some x = orig
  k1 : ∀ x ∈ toSee, ∃ y ∈ atoms, x ∈ adj y
  k2 : ∀ x ∈ anchors, x ∉ extra ∧ ∃ y ∈ atoms, x ∈ adj y

def phi (adj : Int → List Int) (extra toSee atoms : List Int) : Nat :=
  toSee.length + adjSum adj (extra.filter fun x => !atoms.contains x)

theorem process_inv (adj : Int → List Int) (extra : List Int) (hnd : extra.Nodup) (orig : Int)
    (toSee atoms anchors : List Int) (h : TInv adj extra (some orig) toSee atoms anchors)
    (k3 : orig ∈ extra ∨ ∃ y ∈ atoms, orig ∈ adj y) :
    TInv adj extra none (processStep adj extra orig toSee atoms anchors).1
        (processStep adj extra orig toSee atoms anchors).2.1 (processStep adj extra orig toSee atoms anchors).2.2
      ∧ phi adj extra (processStep adj extra orig toSee atoms anchors).1
          (processStep adj extra orig toSee atoms anchors).2.1 ≤ phi adj extra toSee atoms := by
  unfold processStep
  by_cases h1 : (extra.contains orig && !atoms.contains orig) = true
  · rw [if_pos h1]
    have hoe : orig ∈ extra := by
      simp only [Bool.and_eq_true, List.contains_iff_mem] at h1; exact h1.1
    have hoa : orig ∉ atoms := by
      simp only [Bool.and_eq_true] at h1
      simpa using h1.2
    refine ⟨⟨?_, ?_, ?_, ?_⟩, ?_⟩
    · intro a ha
      rcases List.mem_cons.1 ha with rfl | ha
      · exact hoe
      · exact h.sub a ha
    · intro y hy x hx hxe
      rcases List.mem_cons.1 hy with rfl | hy
      · exact Or.inr (Or.inl (mem_addNew.2 (Or.inr hx)))
      · rcases h.j y hy x hx hxe with h2 | h2 | h2
        · exact Or.inl (List.mem_cons_of_mem _ h2)
        · exact Or.inr (Or.inl (mem_addNew.2 (Or.inl h2)))
        · simp only [Option.some.injEq] at h2
          exact Or.inl (by simp [h2])
    · intro x hx
      rcases mem_addNew.1 hx with h2 | h2
      · obtain ⟨y, hy, hxy⟩ := h.k1 x h2
        exact ⟨y, List.mem_cons_of_mem _ hy, hxy⟩
      · exact ⟨orig, by simp, h2⟩
    · intro x hx
      obtain ⟨h2, y, hy, hxy⟩ := h.k2 x hx
      exact ⟨h2, y, List.mem_cons_of_mem _ hy, hxy⟩
    · unfold phi
      have := adjSum_remove adj extra atoms orig hnd hoe hoa
      have := addNew_length toSee (adj orig)
      simp only []
      omega
  · rw [if_neg h1]
    by_cases h2 : (!extra.contains orig) = true
    · rw [if_pos h2]
      have hne : orig ∉ extra := by simpa using h2
      refine ⟨⟨h.sub, ?_, h.k1, ?_⟩, Nat.le_refl _⟩
      · intro y hy x hx hxe
        rcases h.j y hy x hx hxe with h3 | h3 | h3
        · exact Or.inl h3
        · exact Or.inr (Or.inl h3)
        · simp only [Option.some.injEq] at h3
          exact absurd (h3 ▸ hxe) hne
      · intro x hx
        have hx' : x = orig ∨ x ∈ anchors := by
          split at hx
          · exact Or.inr hx
          · exact List.mem_cons.1 hx
        rcases hx' with rfl | hx'
        · refine ⟨hne, ?_⟩
          rcases k3 with h3 | h3
          · exact absurd h3 hne
          · exact h3
        · exact h.k2 x hx'
    · rw [if_neg h2]
      have hoe : orig ∈ extra := by simpa using h2
      have hoa : orig ∈ atoms := by
        apply Classical.byContradiction
        intro hna
        apply h1
        simp only [Bool.and_eq_true, List.contains_iff_mem]
        exact ⟨hoe, by simpa using hna⟩
      refine ⟨⟨h.sub, ?_, h.k1, h.k2⟩, Nat.le_refl _⟩
      intro y hy x hx hxe
      rcases h.j y hy x hx hxe with h3 | h3 | h3
      · exact Or.inl h3
      · exact Or.inr (Or.inl h3)
      · simp only [Option.some.injEq] at h3
        exact Or.inl (h3 ▸ hoa)

/-! ### the inner loop runs to completion -/

/-- what a finished traversal guarantees -/
structure GroupOK (adj : Int → List Int) (extra : List Int) (g : List Int × List Int) : Prop where
  closed : ∀ y ∈ g.1, ∀ x ∈ adj y, x ∈ extra → x ∈ g.1
  anchors : ∀ x ∈ g.2, x ∉ extra ∧ ∃ y ∈ g.1, x ∈ adj y

theorem traverse_closed (adj : Int → List Int) (extra : List Int) (hnd : extra.Nodup) :
    ∀ (n : Nat) (orig : Int) (toSee atoms anchors : List Int),
      TInv adj extra (some orig) toSee atoms anchors → (orig ∈ extra ∨ ∃ y ∈ atoms, orig ∈ adj y) →
      phi adj extra toSee atoms + 1 ≤ n →
      GroupOK adj extra (traverse adj extra n orig toSee atoms anchors) := by
  intro n
  induction n with
  | zero => intro orig toSee atoms anchors _ _ h; omega
  | succ n ih =>
    intro orig toSee atoms anchors hinv k3 hfuel
    obtain ⟨hi, hphi⟩ := process_inv adj extra hnd orig toSee atoms anchors hinv k3
    rw [traverse_succ]
    generalize processStep adj extra orig toSee atoms anchors = st at hi hphi
    obtain ⟨ts, at', an⟩ := st
    simp only [] at hi hphi ⊢
    cases ts with
    | nil =>
      simp only []
      refine ⟨?_, hi.k2⟩
      intro y hy x hx hxe
      rcases hi.j y hy x hx hxe with h | h | h
      · exact h
      · simp at h
      · cases h
    | cons o rest =>
      simp only []
      apply ih
      · refine ⟨hi.sub, ?_, fun x hx => hi.k1 x (List.mem_cons_of_mem _ hx), hi.k2⟩
        intro y hy x hx hxe
        rcases hi.j y hy x hx hxe with h | h | h
        · exact Or.inl h
        · rcases List.mem_cons.1 h with rfl | h
          · exact Or.inr (Or.inr rfl)
          · exact Or.inr (Or.inl h)
        · cases h
      · exact Or.inr (hi.k1 o (by simp))
      · unfold phi at hphi hfuel ⊢
        simp only [List.length_cons] at hphi
        omega

/-! ### the outer loop: no anchor of any group is an extra atom -/

theorem findGroups_ok (adj : Int → List Int) (hsymm : ∀ x y, x ∈ adj y → y ∈ adj x) (fuelT : Nat) :
    ∀ (n : Nat) (extra : List Int), extra.Nodup → adjSum adj extra + 1 ≤ fuelT →
      ∀ g ∈ findGroups adj fuelT n extra, (∀ a ∈ g.1, a ∈ extra) ∧ GroupOK adj extra g := by
  intro n
  induction n with
  | zero => intro extra _ _ g hg; simp [findGroups] at hg
  | succ n ih =>
    intro extra hnd hfuel g hg
    cases extra with
    | nil => simp [findGroups] at hg
    | cons o rest =>
      simp only [findGroups, List.mem_cons] at hg
      have hfirst : GroupOK adj (o :: rest) (traverse adj (o :: rest) fuelT o [] [] []) := by
        apply traverse_closed adj (o :: rest) hnd
        · exact ⟨by simp, by simp, by simp, by simp⟩
        · exact Or.inl (by simp)
        · unfold phi
          have := adjSum_filter_le adj (o :: rest) (fun x => !([] : List Int).contains x)
          simp only [List.length_nil]
          omega
      obtain ⟨i1, _, _, _⟩ := traverse_inv adj (o :: rest) fuelT o [] [] [] (by simp) List.nodup_nil
      generalize traverse adj (o :: rest) fuelT o [] [] [] = g0 at hg hfirst i1
      rcases hg with rfl | hg
      · exact ⟨i1, hfirst⟩
      · have hnd' : ((o :: rest).filter fun x => !g0.1.contains x).Nodup := hnd.filter _
        have hfuel' : adjSum adj ((o :: rest).filter fun x => !g0.1.contains x) + 1 ≤ fuelT := by
          have := adjSum_filter_le adj (o :: rest) (fun x => !g0.1.contains x)
          omega
        obtain ⟨hsub, hok⟩ := ih _ hnd' hfuel' g hg
        have hsub' : ∀ a ∈ g.1, a ∈ o :: rest ∧ a ∉ g0.1 := by
          intro a ha
          have := List.mem_filter.1 (hsub a ha)
          exact ⟨this.1, by simpa using this.2⟩
        refine ⟨fun a ha => (hsub' a ha).1, ?_, ?_⟩
        · intro y hy x hx hxe
          apply hok.closed y hy x hx
          refine List.mem_filter.2 ⟨hxe, ?_⟩
          -- x cannot be an atom of the earlier group: that group is closed and would contain y
          have : x ∉ g0.1 := by
            intro hx0
            have := hfirst.closed x hx0 y (hsymm _ _ hx) (hsub' y hy).1
            exact (hsub' y hy).2 this
          simpa using this
        · intro x hx
          obtain ⟨hne, y, hy, hxy⟩ := hok.anchors x hx
          refine ⟨?_, y, hy, hxy⟩
          intro hxe
          apply hne
          refine List.mem_filter.2 ⟨hxe, ?_⟩
          have : x ∉ g0.1 := by
            intro hx0
            have := hfirst.closed x hx0 y (hsymm _ _ hxy) (hsub' y hy).1
            exact (hsub' y hy).2 this
          simpa using this

/-! ### the fuel of the model is enough -/

theorem countP_or_le {α} (l : List α) (p q : α → Bool) :
    l.countP (fun x => p x || q x) ≤ l.countP p + l.countP q := by
  induction l with
  | nil => simp
  | cons x l ih =>
    simp only [List.countP_cons]
    cases p x <;> cases q x <;> simp <;> omega

theorem adjOf_cons_length (e : Int × Int) (E : List (Int × Int)) (x : Int) :
    (adjOf (e :: E) x).length ≤ (if (e.1 == x || e.2 == x) then 1 else 0) + (adjOf E x).length := by
  unfold adjOf
  rw [List.filterMap_cons]
  by_cases c1 : (e.1 == x && e.2 != x) = true
  · have h1 : (e.1 == x || e.2 == x) = true := by
      simp only [Bool.and_eq_true] at c1; simp [c1.1]
    rw [if_pos c1, if_pos h1]
    simp only [List.length_cons]
    omega
  · rw [if_neg c1]
    by_cases c2 : (e.2 == x && e.1 != x) = true
    · have h2 : (e.1 == x || e.2 == x) = true := by
        simp only [Bool.and_eq_true] at c2; simp [c2.1]
      rw [if_pos c2, if_pos h2]
      simp only [List.length_cons]
      omega
    · rw [if_neg c2]
      exact Nat.le_add_left _ _

theorem adjSum_adjOf_le (E : List (Int × Int)) (l : List Int) (hnd : l.Nodup) :
    adjSum (adjOf E) l ≤ 2 * E.length := by
  induction E with
  | nil =>
    unfold adjSum adjOf
    simp only [List.filterMap_nil, List.length_nil, List.length_nil, Nat.mul_zero, Nat.le_zero_eq]
    clear hnd
    induction l with
    | nil => rfl
    | cons x l ihl => simp only [List.map_cons, List.sum_cons, ihl]
  | cons e E ih =>
    have hstep : adjSum (adjOf (e :: E)) l ≤ l.countP (fun x => e.1 == x || e.2 == x) + adjSum (adjOf E) l := by
      unfold adjSum
      clear ih hnd
      induction l with
      | nil => simp
      | cons x l ihl =>
        simp only [List.map_cons, List.sum_cons, List.countP_cons]
        have := adjOf_cons_length e E x
        split at this <;> rename_i hc <;> simp only [hc] <;> simp <;> omega
    have hc : l.countP (fun x => e.1 == x || e.2 == x) ≤ 2 := by
      have hor : l.countP (fun x => e.1 == x || e.2 == x)
          ≤ l.countP (fun x => e.1 == x) + l.countP (fun x => e.2 == x) := countP_or_le l _ _
      refine Nat.le_trans hor ?_
      have h1 : l.countP (fun x => e.1 == x) ≤ 1 := by
        have : l.countP (fun x => e.1 == x) = l.count e.1 := by
          unfold List.count
          congr 1
          funext x
          exact Bool.eq_iff_iff.2 ⟨fun h => by simpa using (by simpa using h : e.1 = x).symm,
            fun h => by simpa using (by simpa using h : x = e.1).symm⟩
        rw [this]; exact List.nodup_iff_count.1 hnd _
      have h2 : l.countP (fun x => e.2 == x) ≤ 1 := by
        have : l.countP (fun x => e.2 == x) = l.count e.2 := by
          unfold List.count
          congr 1
          funext x
          exact Bool.eq_iff_iff.2 ⟨fun h => by simpa using (by simpa using h : e.2 = x).symm,
            fun h => by simpa using (by simpa using h : x = e.2).symm⟩
        rw [this]; exact List.nodup_iff_count.1 hnd _
      exact Nat.add_le_add h1 h2
    simp only [List.length_cons]
    omega

end C14
