import VermouthModel.C14
/-!
Helper lemmas for C14: `find_ptm_atoms` (every extra atom lands in exactly one group).
-/
namespace C14

theorem traverse_inv (adj : Int → List Int) (extra : List Int) :
    ∀ (n : Nat) (orig : Int) (toSee atoms anchors : List Int),
      (∀ a ∈ atoms, a ∈ extra) → atoms.Nodup →
      (∀ a ∈ (traverse adj extra n orig toSee atoms anchors).1, a ∈ extra)
      ∧ (traverse adj extra n orig toSee atoms anchors).1.Nodup
      ∧ (∀ a ∈ atoms, a ∈ (traverse adj extra n orig toSee atoms anchors).1)
      ∧ (0 < n → orig ∈ extra → orig ∈ (traverse adj extra n orig toSee atoms anchors).1) := by
  intro n
  induction n with
  | zero =>
    intro orig toSee atoms anchors hsub hnd
    simp only [traverse]
    exact ⟨hsub, hnd, fun a h => h, fun h => absurd h (by omega)⟩
  | succ n ih =>
    intro orig toSee atoms anchors hsub hnd
    by_cases h1 : (extra.contains orig && !atoms.contains orig) = true
    · have hoe : orig ∈ extra := by
        simp only [Bool.and_eq_true, List.contains_iff_mem] at h1; exact h1.1
      have hoa : orig ∉ atoms := by
        simp only [Bool.and_eq_true] at h1
        simpa using h1.2
      have hsub' : ∀ a ∈ orig :: atoms, a ∈ extra := by
        intro a ha
        rcases List.mem_cons.1 ha with rfl | ha
        · exact hoe
        · exact hsub a ha
      have hnd' : (orig :: atoms).Nodup := List.nodup_cons.2 ⟨hoa, hnd⟩
      simp only [traverse, h1, if_true]
      cases hts : addNew toSee (adj orig) with
      | nil =>
        simp only []
        exact ⟨hsub', hnd', fun a ha => by simp [ha], fun _ _ => by simp⟩
      | cons o rest =>
        simp only []
        obtain ⟨i1, i2, i3, _⟩ := ih o rest (orig :: atoms) anchors hsub' hnd'
        exact ⟨i1, i2, fun a ha => i3 a (by simp [ha]), fun _ _ => i3 orig (by simp)⟩
    · have h1' : (extra.contains orig && !atoms.contains orig) = false := by
        simpa using h1
      have hmem : orig ∈ extra → orig ∈ atoms := by
        intro he
        simp only [Bool.and_eq_false_iff, Bool.not_eq_false', List.contains_iff_mem] at h1'
        rcases h1' with h | h
        · simp [he] at h
        · exact h
      by_cases h2 : (!extra.contains orig) = true
      · simp only [traverse, h1', h2, if_true, Bool.false_eq_true, if_false]
        have hne : orig ∉ extra := by simpa using h2
        cases hts : toSee with
        | nil =>
          simp only []
          exact ⟨hsub, hnd, fun a h => h, fun _ he => absurd he hne⟩
        | cons o rest =>
          simp only []
          obtain ⟨i1, i2, i3, _⟩ := ih o rest atoms (if anchors.contains orig then anchors else orig :: anchors) hsub hnd
          exact ⟨i1, i2, i3, fun _ he => absurd he hne⟩
      · simp only [traverse, h1', h2, Bool.false_eq_true, if_false]
        cases hts : toSee with
        | nil =>
          simp only []
          exact ⟨hsub, hnd, fun a h => h, fun _ he => hmem he⟩
        | cons o rest =>
          simp only []
          obtain ⟨i1, i2, i3, _⟩ := ih o rest atoms anchors hsub hnd
          exact ⟨i1, i2, i3, fun _ he => i3 orig (hmem he)⟩

/-- the atoms of the groups, concatenated, are a rearrangement of the extra atoms -/
theorem findGroups_perm (adj : Int → List Int) (fuelT : Nat) (hf : 0 < fuelT) :
    ∀ (n : Nat) (extra : List Int), extra.Nodup → extra.length ≤ n →
      ((findGroups adj fuelT n extra).flatMap (·.1)).Perm extra := by
  intro n
  induction n with
  | zero =>
    intro extra _ hl
    have : extra = [] := List.eq_nil_of_length_eq_zero (by omega)
    subst this
    simp [findGroups]
  | succ n ih =>
    intro extra hnd hl
    cases extra with
    | nil => simp [findGroups]
    | cons o rest =>
      simp only [findGroups, List.flatMap_cons]
      obtain ⟨i1, i2, _, i4⟩ := traverse_inv adj (o :: rest) fuelT o [] [] [] (by simp) List.nodup_nil
      have ho := i4 hf (by simp)
      generalize hg : traverse adj (o :: rest) fuelT o [] [] [] = g at i1 i2 ho
      have hrest_nd : ((o :: rest).filter fun x => !g.1.contains x).Nodup := hnd.filter _
      have hrest_len : ((o :: rest).filter fun x => !g.1.contains x).length ≤ n := by
        have : ((o :: rest).filter fun x => !g.1.contains x).length < (o :: rest).length := by
          rw [List.length_filter_lt_length_iff_exists]
          exact ⟨o, by simp, by simpa using ho⟩
        simp only [List.length_cons] at this hl
        omega
      have IH := ih _ hrest_nd hrest_len
      have h1 : g.1.Perm ((o :: rest).filter fun x => g.1.contains x) := by
        rw [List.perm_ext_iff_of_nodup i2 (hnd.filter _)]
        intro a
        simp only [List.mem_filter, List.contains_iff_mem]
        exact ⟨fun h => ⟨i1 a h, h⟩, fun h => h.2⟩
      refine (List.Perm.append h1 IH).trans ?_
      exact List.filter_append_perm (fun x => g.1.contains x) (o :: rest)

theorem extra_nodup (m : Mol) (h : m.keys.Nodup) : m.extra.Nodup := by
  unfold Mol.extra
  unfold Mol.keys at h
  exact (List.Sublist.map _ List.filter_sublist).nodup h

end C14
