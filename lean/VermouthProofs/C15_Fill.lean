import VermouthModel.C15
import Mathlib.Data.List.Nodup
/-! Helper lemmas for C15: matrices filled by sequences of single-cell assignments. -/
namespace C15

/-- `M` is an n × n matrix -/
def Sq {α} (n : Nat) (M : List (List α)) : Prop := M.length = n ∧ ∀ row ∈ M, row.length = n

theorem sq_tabulate {α} (n : Nat) (f : Nat → Nat → α) : Sq n (tabulate n f) := by
  unfold Sq tabulate
  refine ⟨by simp, ?_⟩
  intro row h
  simp only [List.mem_map, List.mem_range] at h
  obtain ⟨i, _, rfl⟩ := h
  simp

theorem getD_mem_or_nil {α} (M : List (List α)) (i : Nat) : M.getD i [] ∈ M ∨ M.getD i [] = [] := by
  by_cases h : i < M.length
  · left; simp [List.getD_eq_getElem?_getD, h]
  · right
    rw [List.getD_eq_getElem?_getD, List.getElem?_eq_none (Nat.le_of_not_lt h)]; rfl

theorem sq_mset {α} {n : Nat} {M : List (List α)} (h : Sq n M) (i j : Nat) (v : α) (hi : i < n) :
    Sq n (mset M i j v) := by
  unfold Sq mset at *
  refine ⟨by simp [h.1], ?_⟩
  intro row hrow
  rcases List.mem_or_eq_of_mem_set hrow with h1 | rfl
  · exact h.2 row h1
  · rw [List.length_set]
    have : M.getD i [] ∈ M := by
      simp [List.getD_eq_getElem?_getD, h.1, hi]
    exact h.2 _ this

theorem mget_mset {α} {n : Nat} {M : List (List α)} (h : Sq n M) (i j : Nat) (v : α) (hi : i < n) (hj : j < n)
    (i' j' : Nat) (d : α) :
    mget (mset M i j v) i' j' d = if i' = i ∧ j' = j then v else mget M i' j' d := by
  unfold mget mset
  have hrow : (M.getD i []).length = n := by
    apply h.2; simp [List.getD_eq_getElem?_getD, h.1, hi]
  by_cases e1 : i' = i
  · subst e1
    have : (M.set i' ((M.getD i' []).set j v)).getD i' [] = (M.getD i' []).set j v := by
      simp [List.getD_eq_getElem?_getD, h.1, hi]
    rw [this]
    by_cases e2 : j' = j
    · subst e2
      have hlt : j' < ((M.getD i' []).set j' v).length := by rw [List.length_set, hrow]; exact hj
      rw [if_pos ⟨rfl, rfl⟩, List.getD_eq_getElem?_getD, List.getElem?_eq_getElem hlt]
      simp
    · have e2' : j ≠ j' := fun e => e2 e.symm
      simp [List.getD_eq_getElem?_getD, e2, List.getElem?_set_ne e2']
  · have e1' : i ≠ i' := fun e => e1 e.symm
    simp [List.getD_eq_getElem?_getD, e1, List.getElem?_set_ne e1']

/-- A sequence of in-range assignments whose values are a function `g` of the cell: afterwards a cell holds
`g` if it was assigned at all and its initial value otherwise. -/
theorem mget_fill {α} (n : Nat) (g : Nat → Nat → α) (W : List ((Nat × Nat) × α))
    (hW : ∀ w ∈ W, w.1.1 < n ∧ w.1.2 < n ∧ w.2 = g w.1.1 w.1.2)
    (M : List (List α)) (hM : Sq n M) :
    Sq n (fill M W) ∧ ∀ i j d, mget (fill M W) i j d = if (i, j) ∈ W.map (·.1) then g i j else mget M i j d := by
  induction W generalizing M with
  | nil => exact ⟨hM, fun i j d => by simp [fill]⟩
  | cons w t ih =>
    obtain ⟨h1, h2, h3⟩ := hW w (List.mem_cons_self ..)
    have hM' : Sq n (mset M w.1.1 w.1.2 w.2) := sq_mset hM _ _ _ h1
    obtain ⟨hs, hg⟩ := ih (fun w' hw' => hW w' (List.mem_cons_of_mem _ hw')) _ hM'
    refine ⟨hs, ?_⟩
    intro i j d
    show mget (fill (mset M w.1.1 w.1.2 w.2) t) i j d = _
    rw [hg i j d, mget_mset hM _ _ _ h1 h2]
    by_cases ht : (i, j) ∈ t.map (·.1)
    · simp [ht]
    · by_cases hw : i = w.1.1 ∧ j = w.1.2
      · obtain ⟨rfl, rfl⟩ := hw
        simp [h3]
      · have : ¬ (i, j) = w.1 := by
          intro e; apply hw; rw [← e]; exact ⟨rfl, rfl⟩
        simp [ht, hw, this]

theorem mget_zeros (n i j : Nat) : mget (zeros n) i j false = false := by
  unfold zeros
  by_cases hi : i < n
  · by_cases hj : j < n
    · unfold mget tabulate
      simp [List.getD_eq_getElem?_getD, hi, hj]
    · unfold mget tabulate
      simp [List.getD_eq_getElem?_getD, hi, hj]
  · unfold mget tabulate
    simp [List.getD_eq_getElem?_getD, hi]

/-! ### pairs of a sorted list -/

theorem mem_combos2 (l : List Nat) (h : l.Pairwise (· < ·)) (x y : Nat) :
    (x, y) ∈ combos2 l ↔ x ∈ l ∧ y ∈ l ∧ x < y := by
  induction l with
  | nil => simp [combos2]
  | cons a t ih =>
    rw [List.pairwise_cons] at h
    simp only [combos2, List.mem_append, List.mem_map, Prod.mk.injEq, ih h.2, List.mem_cons]
    constructor
    · rintro (⟨b, hb, rfl, rfl⟩ | ⟨hx, hy, hxy⟩)
      · exact ⟨Or.inl rfl, Or.inr hb, h.1 _ hb⟩
      · exact ⟨Or.inr hx, Or.inr hy, hxy⟩
    · rintro ⟨hx | hx, hy | hy, hxy⟩
      · omega
      · exact Or.inl ⟨y, hy, hx.symm, rfl⟩
      · subst hy; have := h.1 _ hx; omega
      · exact Or.inr ⟨hx, hy, hxy⟩

end C15
