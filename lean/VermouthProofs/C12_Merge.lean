import VermouthProofs.C12
/-! Helper lemmas for C12, part 2: `merge_molecule` in closed form under the invariant. -/
namespace C12

/-! ### enumFrom -/

theorem enumFrom_length (s : Int) (l : List (Int × Attrs)) : (enumFrom s l).length = l.length := by
  induction l generalizing s with
  | nil => rfl
  | cons p t ih => obtain ⟨k, a⟩ := p; simp [enumFrom, ih]

theorem enumFrom_keys_mem (s : Int) (l : List (Int × Attrs)) (x : Int) :
    x ∈ (enumFrom s l).map Prod.fst ↔ s ≤ x ∧ x < s + (l.length : Int) := by
  induction l generalizing s with
  | nil => simp [enumFrom]
  | cons p t ih =>
    obtain ⟨k, a⟩ := p
    simp only [enumFrom, List.map_cons, List.mem_cons, ih, List.length_cons]
    omega

theorem enumFrom_nodup (s : Int) (l : List (Int × Attrs)) : ((enumFrom s l).map Prod.fst).Nodup := by
  induction l generalizing s with
  | nil => simp [enumFrom]
  | cons p t ih =>
    obtain ⟨k, a⟩ := p
    simp only [enumFrom, List.map_cons, List.nodup_cons, enumFrom_keys_mem]
    exact ⟨by omega, ih _⟩

theorem enumFrom_getElem? (s : Int) (l : List (Int × Attrs)) (i : Nat) :
    (enumFrom s l)[i]? = (l[i]?).map (fun p => (s + (i : Int), p.2)) := by
  induction l generalizing s i with
  | nil => simp [enumFrom]
  | cons p t ih =>
    obtain ⟨k, a⟩ := p
    cases i with
    | zero => simp [enumFrom]
    | succ j =>
      simp only [enumFrom, List.getElem?_cons_succ, ih]
      cases t[j]? with
      | none => rfl
      | some q => simp only [Option.map_some, Option.some.injEq, Prod.mk.injEq, and_true]; omega

/-! ### the key correspondence -/

/-- new key of the newcomer's node `k`: offset + 1 + its position in the newcomer's node order -/
def corr (keys : List Int) (offset : Int) (k : Int) : Int := offset + 1 + (keys.idxOf k : Int)

theorem corrOf_of_mem (keys : List Int) (offset k : Int) (h : k ∈ keys) :
    corrOf keys offset k = some (corr keys offset k) := by
  unfold corrOf corr
  induction keys with
  | nil => cases h
  | cons x t ih =>
    simp only [List.findIdx?_cons, List.idxOf_cons]
    by_cases e : x = k
    · simp [e]
    · have hk : k ∈ t := by
        rcases List.mem_cons.mp h with h | h
        · exact absurd h.symm e
        · exact h
      have eb : (x == k) = false := by simp [e]
      have := ih hk
      simp only [eb, Bool.false_eq_true, ↓reduceIte, cond_false]
      cases hf : List.findIdx? (fun y => y == k) t with
      | none => rw [hf] at this; cases this
      | some i =>
        rw [hf] at this
        simp only [Option.some.injEq] at this
        simp only [Option.map_some, Option.some.injEq]
        omega

theorem corrOf_isSome (keys : List Int) (offset k : Int) (h : (corrOf keys offset k).isSome) : k ∈ keys := by
  unfold corrOf at h
  cases hf : List.findIdx? (fun y => y == k) keys with
  | none => rw [hf] at h; cases h
  | some i =>
    have := List.findIdx?_eq_some_iff_getElem.mp hf
    obtain ⟨hi, hp, _⟩ := this
    simp only [beq_iff_eq] at hp
    rw [← hp]; exact List.getElem_mem hi

theorem idxOf_lt (keys : List Int) (k : Int) (h : k ∈ keys) : keys.idxOf k < keys.length :=
  List.idxOf_lt_length_of_mem h

theorem getElem_idxOf' (keys : List Int) (k : Int) (h : k ∈ keys) :
    keys[keys.idxOf k]? = some k := by
  induction keys with
  | nil => cases h
  | cons x t ih =>
    simp only [List.idxOf_cons]
    by_cases e : x = k
    · simp [e]
    · have hk : k ∈ t := by
        rcases List.mem_cons.mp h with h | h
        · exact absurd h.symm e
        · exact h
      have eb : (x == k) = false := by simp [e]
      simp only [eb, cond_false, List.getElem?_cons_succ]
      exact ih hk

theorem corr_inj (keys : List Int) (offset u v : Int) (hu : u ∈ keys) (hv : v ∈ keys)
    (h : corr keys offset u = corr keys offset v) : u = v := by
  unfold corr at h
  have e : keys.idxOf u = keys.idxOf v := by omega
  have h1 := getElem_idxOf' keys u hu
  have h2 := getElem_idxOf' keys v hv
  rw [e, h2] at h1
  exact (Option.some.inj h1).symm

theorem corr_range (keys : List Int) (offset k : Int) (h : k ∈ keys) :
    offset + 1 ≤ corr keys offset k ∧ corr keys offset k < offset + 1 + (keys.length : Int) := by
  have := idxOf_lt keys k h
  unfold corr; omega

theorem idxOf_getElem_nodup (keys : List Int) (hnd : keys.Nodup) (i : Nat) (hi : i < keys.length) :
    keys.idxOf keys[i] = i := by
  induction keys generalizing i with
  | nil => cases hi
  | cons x t ih =>
    rw [List.nodup_cons] at hnd
    cases i with
    | zero => simp
    | succ j =>
      simp only [List.length_cons, Nat.add_lt_add_iff_right] at hi
      simp only [List.getElem_cons_succ, List.idxOf_cons]
      have : ¬ x = t[j] := by intro e; apply hnd.1; rw [e]; exact List.getElem_mem hi
      have eb : (x == t[j]) = false := by simp [this]
      simp only [eb, cond_false, ih hnd.2 j hi]

theorem corr_getElem (keys : List Int) (offset : Int) (hnd : keys.Nodup) (i : Nat) (hi : i < keys.length) :
    corr keys offset keys[i] = offset + 1 + (i : Int) := by
  unfold corr; rw [idxOf_getElem_nodup keys hnd i hi]

/-! ### renaming interactions and edges -/

theorem mapM_option_eq {α β : Type} (f : α → Option β) (g : α → β) (l : List α)
    (h : ∀ a ∈ l, f a = some (g a)) : l.mapM f = some (l.map g) := by
  induction l with
  | nil => rfl
  | cons a t ih =>
    rw [List.mapM_cons, h a List.mem_cons_self, ih (fun b hb => h b (List.mem_cons_of_mem _ hb))]
    rfl

theorem mapM_option_some {α β : Type} (f : α → Option β) (l : List α) (r : List β)
    (h : l.mapM f = some r) : r.length = l.length ∧ ∀ i (hi : i < l.length), f l[i] = r[i]? := by
  induction l generalizing r with
  | nil =>
    simp only [List.mapM_nil] at h
    cases h
    exact ⟨rfl, fun i hi => by cases hi⟩
  | cons a t ih =>
    rw [List.mapM_cons] at h
    cases ha : f a with
    | none => rw [ha] at h; cases h
    | some b =>
      cases ht : t.mapM f with
      | none => rw [ha, ht] at h; cases h
      | some r' =>
        rw [ha, ht] at h
        cases h
        obtain ⟨h1, h2⟩ := ih r' ht
        refine ⟨by simp [h1], ?_⟩
        intro i hi
        cases i with
        | zero => simpa using ha
        | succ j =>
          simp only [List.getElem_cons_succ, List.getElem?_cons_succ]
          exact h2 j (by simpa using hi)

theorem mapAtoms_eq (keys : List Int) (offset : Int) (atoms : List Int) (h : ∀ a ∈ atoms, a ∈ keys) :
    mapAtoms keys offset atoms = some (atoms.map (corr keys offset)) :=
  mapM_option_eq _ _ _ (fun a ha => corrOf_of_mem keys offset a (h a ha))

/-- the interaction with its atoms renamed through the correspondence -/
def renameInter (keys : List Int) (offset : Int) (ti : String × Inter) : String × Inter :=
  (ti.1, { ti.2 with atoms := ti.2.atoms.map (corr keys offset) })

theorem renameInters_eq (keys : List Int) (offset : Int) (l : List (String × Inter))
    (h : ∀ ti ∈ l, ∀ a ∈ ti.2.atoms, a ∈ keys) :
    renameInters keys offset l = some (l.map (renameInter keys offset)) := by
  induction l with
  | nil => rfl
  | cons p t ih =>
    obtain ⟨ty, i⟩ := p
    unfold renameInters
    rw [mapAtoms_eq keys offset i.atoms (h (ty, i) List.mem_cons_self),
      ih (fun ti hti => h ti (List.mem_cons_of_mem _ hti))]
    rfl

/-- the renamed edges of the newcomer, self loops dropped -/
def renamedEdges (keys : List Int) (offset : Int) (es : List (Int × Int)) : List (Int × Int) :=
  es.filterMap (fun e => if corr keys offset e.1 = corr keys offset e.2 then none
                         else some (corr keys offset e.1, corr keys offset e.2))

theorem renameEdges_eq (keys : List Int) (offset : Int) (es : List (Int × Int))
    (h : ∀ e ∈ es, e.1 ∈ keys ∧ e.2 ∈ keys) :
    renameEdges keys offset es = some (renamedEdges keys offset es) := by
  induction es with
  | nil => rfl
  | cons p t ih =>
    obtain ⟨u, v⟩ := p
    have hp := h (u, v) List.mem_cons_self
    unfold renameEdges
    rw [corrOf_of_mem keys offset u hp.1, corrOf_of_mem keys offset v hp.2,
      ih (fun e he => h e (List.mem_cons_of_mem _ he))]
    unfold renamedEdges
    simp only [List.filterMap_cons]
    by_cases e : corr keys offset u = corr keys offset v
    · simp [e]
    · simp [e]

theorem mem_renamedEdges (keys : List Int) (offset : Int) (es : List (Int × Int)) (e' : Int × Int) :
    e' ∈ renamedEdges keys offset es ↔
      ∃ e ∈ es, corr keys offset e.1 ≠ corr keys offset e.2 ∧
        e' = (corr keys offset e.1, corr keys offset e.2) := by
  unfold renamedEdges
  simp only [List.mem_filterMap]
  constructor
  · rintro ⟨e, he, h⟩
    split at h
    · cases h
    · rename_i hne
      cases h
      exact ⟨e, he, hne, rfl⟩
  · rintro ⟨e, he, hne, rfl⟩
    exact ⟨e, he, by rw [if_neg hne]⟩

/-! ### offsets -/

/-- key offset of a merge: the highest key of the receiving molecule, 0 if it is empty -/
def Mol.offset (self : Mol) : Int := if self.nodes = [] then 0 else (maxKey self.keys).getD 0

/-- resid / charge-group offsets: those of the highest-key node (default 1), 0 if empty -/
def Mol.shiftBy (self : Mol) : Int × Int :=
  if self.nodes = [] then (0, 0)
  else match lookupAttrs self.nodes self.offset with
    | some a => (a.resid.getD 1, a.cg.getD 1)
    | none => (1, 1)

theorem keys_ne_nil {m : Mol} (h : m.nodes ≠ []) : m.keys ≠ [] := by
  unfold Mol.keys; intro e; exact h (List.map_eq_nil_iff.mp e)

theorem offset_spec {self : Mol} (h : self.nodes ≠ []) : maxKey self.keys = some self.offset := by
  obtain ⟨k, hk⟩ := maxKey_isSome self.keys (keys_ne_nil h)
  unfold Mol.offset; rw [if_neg h, hk]; rfl

theorem offset_ge {self : Mol} (x : Int) (hx : x ∈ self.keys) : x ≤ self.offset := by
  have hne : self.nodes ≠ [] := by
    intro e; unfold Mol.keys at hx; rw [e] at hx; cases hx
  exact ((maxKey_eq_some_iff _ _).mp (offset_spec hne)).2 x hx

theorem lastKey_eq {self : Mol} (hc : self.CacheOk) (h : self.nodes ≠ []) :
    self.lastKey = some self.offset := by
  unfold Mol.lastKey
  cases hm : self.maxNode with
  | none => exact offset_spec h
  | some k => simp only []; rw [← hc h k hm]; exact offset_spec h

theorem mergeOffs_eq {self : Mol} (hc : self.CacheOk) :
    self.mergeOffs = some (self.offset, self.shiftBy.1, self.shiftBy.2) := by
  unfold Mol.mergeOffs
  by_cases h : self.nodes = []
  · simp [h, Mol.offset, Mol.shiftBy]
  · have h' : ¬ self.nodes.isEmpty = true := by simpa using h
    rw [if_neg h', lastKey_eq hc h]
    have hmem : self.offset ∈ self.keys := ((maxKey_eq_some_iff _ _).mp (offset_spec h)).1
    obtain ⟨a, ha⟩ := Option.isSome_iff_exists.mp ((lookupAttrs_isSome self.nodes self.offset).mpr hmem)
    simp only [ha, Mol.shiftBy, if_neg h]

/-! ### the body of merge in closed form -/

def newNodes (other : Mol) (offset roff coff : Int) : List (Int × Attrs) :=
  enumFrom (offset + 1) (other.nodes.map (fun p => (p.1, p.2.shift roff coff)))

/-- molecule after the nodes and interactions were added, before the edges -/
def mergeMid (self other : Mol) (nrexcl : Option Int) (offset roff coff : Int) : Mol :=
  { self with nrexcl := nrexcl, nodes := self.nodes ++ newNodes other offset roff coff,
              inters := self.inters ++ other.inters.map (renameInter other.keys offset) }

/-- the log-entry loop of the merge: the resulting entries and whether it ran to the end -/
def mergeLogsOf (self other : Mol) (offset : Int) : Logs × Bool :=
  mergeLogs self.logs other.keys offset (flattenLogs other.logs)

/-- outcome of a merge whose force fields and nrexcl agree: KeyError iff the log-entry loop fails -/
def mergeOut (self other : Mol) (offset : Int) : Outcome :=
  if (mergeLogsOf self other offset).2 then .ok else .keyerror

def mergeResult (self other : Mol) (nrexcl : Option Int) (offset roff coff : Int) : Mol :=
  { (mergeMid self other nrexcl offset roff coff).addEdges (renamedEdges other.keys offset other.edges) with
    cites := unionSet self.cites other.cites,
    maxNode := some (offset + (other.nodes.length : Int)),
    eattr := self.eattr ++ renameEAttr other.keys offset other.eattr,
    logs := (mergeLogsOf self other offset).1 }

/-- every format map of every log entry mentions only atoms of the molecule.  NOT part of the
invariant: `remove_node` leaves the log entries alone (finding F-C12-6). -/
def Mol.LogOk (m : Mol) : Prop := ∀ le ∈ flattenLogs m.logs, ∀ fa ∈ le.2.2, ∀ p ∈ fa, p.2 ∈ m.keys

instance (m : Mol) : Decidable m.LogOk := by unfold Mol.LogOk; exact inferInstance

theorem newNodes_keys_mem (other : Mol) (offset roff coff x : Int) :
    x ∈ (newNodes other offset roff coff).map Prod.fst ↔
      offset + 1 ≤ x ∧ x < offset + 1 + (other.nodes.length : Int) := by
  unfold newNodes; rw [enumFrom_keys_mem]; simp

theorem mergeCore_eq {self other : Mol} (ho : other.Wf) (nrexcl : Option Int) (offset roff coff : Int)
    (hfr : ∀ x ∈ self.keys, x ≤ offset) :
    self.mergeCore other nrexcl offset roff coff =
      (mergeResult self other nrexcl offset roff coff, mergeOut self other offset) := by
  unfold Mol.mergeCore
  dsimp only
  rw [renameInters_eq other.keys offset other.inters ho.2.2, renameEdges_eq other.keys offset other.edges ho.2.1]
  dsimp only
  rw [foldl_upsert_fresh]
  · rfl
  · exact enumFrom_nodup _ _
  · intro x hx hx'
    have h1 := (newNodes_keys_mem other offset roff coff x).mp hx
    have h2 := hfr x hx'
    omega

theorem merge_eq {self other : Mol} (hs : self.Inv) (ho : other.Inv)
    (hf : self.ff = other.ff) (hn : mergeNrexcl self other = other.nrexcl) :
    self.merge other =
      (mergeResult self other other.nrexcl self.offset self.shiftBy.1 self.shiftBy.2,
       mergeOut self other self.offset) := by
  unfold Mol.merge
  dsimp only
  rw [if_neg (by simpa using hf), if_neg (by simpa using hn), mergeOffs_eq hs.2]
  dsimp only
  rw [hn]
  exact mergeCore_eq ho.1 _ _ _ _ (fun x hx => offset_ge x hx)

theorem merge_err {self other : Mol} (hn : self.ff ≠ other.ff ∨ mergeNrexcl self other ≠ other.nrexcl) :
    self.merge other = (self, .valueerror) := by
  unfold Mol.merge
  dsimp only
  by_cases hf : self.ff ≠ other.ff
  · rw [if_pos hf]
  · rw [if_neg hf]
    rcases hn with hn | hn
    · exact absurd hn hf
    · rw [if_pos hn]

/-- the log-entry loop runs to the end when every format map mentions only keys of `keys` -/
theorem mergeLogs_ok (acc : Logs) (keys : List Int) (offset : Int) (l : List (Int × String × List FmtArg))
    (h : ∀ le ∈ l, ∀ fa ∈ le.2.2, ∀ p ∈ fa, p.2 ∈ keys) : (mergeLogs acc keys offset l).2 = true := by
  induction l generalizing acc with
  | nil => rfl
  | cons le t ih =>
    obtain ⟨lv, e, args⟩ := le
    have hargs : args.mapM (renameArg keys offset) =
        some (args.map (fun fa => fa.map (fun p => (p.1, corr keys offset p.2)))) := by
      apply mapM_option_eq
      intro fa hfa
      unfold renameArg
      apply mapM_option_eq
      intro p hp
      rw [corrOf_of_mem keys offset p.2 (h (lv, e, args) List.mem_cons_self fa hfa p hp)]
      rfl
    unfold mergeLogs
    rw [hargs]
    exact ih _ (fun le hle => h le (List.mem_cons_of_mem _ hle))

theorem mergeOut_ok {self other : Mol} (hl : other.LogOk) (offset : Int) : mergeOut self other offset = .ok := by
  unfold mergeOut mergeLogsOf
  rw [mergeLogs_ok _ _ _ _ hl]; rfl

/-! ### properties of the merge result -/

section
variable {self other : Mol} (nrexcl : Option Int) (offset roff coff : Int)

theorem mergeMid_keys_mem (x : Int) :
    x ∈ (mergeMid self other nrexcl offset roff coff).keys ↔
      x ∈ self.keys ∨ (offset + 1 ≤ x ∧ x < offset + 1 + (other.nodes.length : Int)) := by
  unfold mergeMid Mol.keys
  simp only [List.map_append, List.mem_append, newNodes_keys_mem]

theorem corr_mem_mid (k : Int) (hk : k ∈ other.keys) :
    corr other.keys offset k ∈ (mergeMid self other nrexcl offset roff coff).keys := by
  rw [mergeMid_keys_mem]
  have := corr_range other.keys offset k hk
  have hl : other.keys.length = other.nodes.length := by simp [Mol.keys]
  right; omega

theorem renamedEdges_in_mid (ho : other.Wf) :
    ∀ e ∈ renamedEdges other.keys offset other.edges,
      e.1 ∈ (mergeMid self other nrexcl offset roff coff).keys ∧
      e.2 ∈ (mergeMid self other nrexcl offset roff coff).keys := by
  intro e' he'
  obtain ⟨e, he, _, rfl⟩ := (mem_renamedEdges _ _ _ _).mp he'
  exact ⟨corr_mem_mid nrexcl offset roff coff e.1 (ho.2.1 e he).1,
         corr_mem_mid nrexcl offset roff coff e.2 (ho.2.1 e he).2⟩

theorem mergeMid_wf (hs : self.Wf) (ho : other.Wf) (hfr : ∀ x ∈ self.keys, x ≤ offset) :
    (mergeMid self other nrexcl offset roff coff).Wf := by
  refine ⟨?_, ?_, ?_⟩
  · show ((self.nodes ++ newNodes other offset roff coff).map Prod.fst).Nodup
    rw [List.map_append, List.nodup_append]
    refine ⟨hs.1, enumFrom_nodup _ _, ?_⟩
    intro a ha b hb e
    have h1 := (newNodes_keys_mem other offset roff coff b).mp hb
    have h2 := hfr a ha
    omega
  · intro e he
    have := hs.2.1 e he
    exact ⟨(mergeMid_keys_mem nrexcl offset roff coff _).mpr (Or.inl this.1),
           (mergeMid_keys_mem nrexcl offset roff coff _).mpr (Or.inl this.2)⟩
  · intro ti hti a ha
    have hti' : ti ∈ self.inters ++ other.inters.map (renameInter other.keys offset) := hti
    rcases List.mem_append.mp hti' with h | h
    · exact (mergeMid_keys_mem nrexcl offset roff coff _).mpr (Or.inl (hs.2.2 ti h a ha))
    · obtain ⟨tj, htj, rfl⟩ := List.mem_map.mp h
      simp only [renameInter, List.mem_map] at ha
      obtain ⟨a0, ha0, rfl⟩ := ha
      exact corr_mem_mid nrexcl offset roff coff a0 (ho.2.2 tj htj a0 ha0)

theorem mergeResult_nodes (ho : other.Wf) :
    (mergeResult self other nrexcl offset roff coff).nodes =
      self.nodes ++ newNodes other offset roff coff :=
  (addEdges_nodes _ _ (renamedEdges_in_mid nrexcl offset roff coff ho)).1

theorem mergeResult_inters :
    (mergeResult self other nrexcl offset roff coff).inters =
      self.inters ++ other.inters.map (renameInter other.keys offset) :=
  addEdges_inters _ _

theorem mergeResult_nrexcl : (mergeResult self other nrexcl offset roff coff).nrexcl = nrexcl :=
  addEdges_nrexcl _ _

theorem mergeResult_cites :
    (mergeResult self other nrexcl offset roff coff).cites = unionSet self.cites other.cites := rfl

theorem mergeResult_maxNode :
    (mergeResult self other nrexcl offset roff coff).maxNode =
      some (offset + (other.nodes.length : Int)) := rfl

theorem mergeResult_hasEdge (a b : Int) :
    (mergeResult self other nrexcl offset roff coff).hasEdge a b = true ↔
      self.hasEdge a b = true ∨
        ∃ e ∈ renamedEdges other.keys offset other.edges, (a = e.1 ∧ b = e.2) ∨ (a = e.2 ∧ b = e.1) :=
  addEdges_hasEdge _ _ a b

theorem mergeResult_wf (hs : self.Wf) (ho : other.Wf) (hfr : ∀ x ∈ self.keys, x ≤ offset) :
    (mergeResult self other nrexcl offset roff coff).Wf :=
  addEdges_wf (mergeMid_wf nrexcl offset roff coff hs ho hfr) _

end

theorem mergeResult_keys {self other : Mol} (nrexcl : Option Int) (offset roff coff : Int) (ho : other.Wf) :
    (mergeResult self other nrexcl offset roff coff).keys =
      self.keys ++ (newNodes other offset roff coff).map Prod.fst := by
  unfold Mol.keys; rw [mergeResult_nodes nrexcl offset roff coff ho, List.map_append]

/-- the F-C12-1 repair: the cache written by merge is the true highest key -/
theorem mergeResult_maxKey {self other : Mol} (nrexcl : Option Int) (roff coff : Int) (ho : other.Wf)
    (hne : (mergeResult self other nrexcl self.offset roff coff).nodes ≠ []) :
    maxKey (mergeResult self other nrexcl self.offset roff coff).keys =
      some (self.offset + (other.nodes.length : Int)) := by
  rw [maxKey_eq_some_iff, mergeResult_keys nrexcl self.offset roff coff ho]
  rw [mergeResult_nodes nrexcl self.offset roff coff ho] at hne
  simp only [List.mem_append, newNodes_keys_mem]
  constructor
  · by_cases hn : other.nodes = []
    · have hs : self.nodes ≠ [] := by
        intro e; apply hne; rw [e]; simp [newNodes, hn, enumFrom]
      left
      rw [hn]; simp only [List.length_nil, Int.natCast_zero, Int.add_zero]
      exact ((maxKey_eq_some_iff _ _).mp (offset_spec hs)).1
    · right
      have : 0 < other.nodes.length := List.length_pos_iff.mpr hn
      omega
  · intro x hx
    rcases hx with hx | hx
    · have := offset_ge x hx; omega
    · omega

theorem mergeResult_inv {self other : Mol} (hs : self.Inv) (ho : other.Inv) (nrexcl : Option Int)
    (roff coff : Int) : (mergeResult self other nrexcl self.offset roff coff).Inv := by
  refine ⟨mergeResult_wf nrexcl self.offset roff coff hs.1 ho.1 (fun x hx => offset_ge x hx), ?_⟩
  intro hne k hk
  rw [mergeResult_maxNode] at hk
  cases hk
  exact mergeResult_maxKey nrexcl roff coff ho.1 hne

theorem merge_inv {self other : Mol} (hs : self.Inv) (ho : other.Inv) : (self.merge other).1.Inv := by
  by_cases hf : self.ff = other.ff
  · by_cases hn : mergeNrexcl self other = other.nrexcl
    · rw [merge_eq hs ho hf hn]; exact mergeResult_inv hs ho _ _ _
    · rw [merge_err (Or.inr hn)]; exact hs
  · rw [merge_err (Or.inl hf)]; exact hs

theorem merge_ok_eq {self other : Mol} (hs : self.Inv) (ho : other.Inv)
    (hok : (self.merge other).2 = .ok) :
    (self.merge other).1 = mergeResult self other other.nrexcl self.offset self.shiftBy.1 self.shiftBy.2 := by
  by_cases hf : self.ff = other.ff
  · by_cases hn : mergeNrexcl self other = other.nrexcl
    · rw [merge_eq hs ho hf hn]
    · rw [merge_err (Or.inr hn)] at hok; cases hok
  · rw [merge_err (Or.inl hf)] at hok; cases hok

/-! ### a molecule merged into itself -/

theorem upsert_wf {m : Mol} (h : m.Wf) (k : Int) (a : Attrs) (mx : Option Int) :
    ({ m with nodes := upsert m.nodes k a, maxNode := mx } : Mol).Wf :=
  Mol.wf_grow h _ _ (upsert_nodup _ _ _ h.1) (fun x hx => (upsert_mem_keys _ _ _ _).mpr (Or.inl hx))

theorem selfMerge_inv {m : Mol} (h : m.Inv) : m.selfMerge.1.Inv := by
  unfold Mol.selfMerge
  split
  · exact merge_inv h h
  · rename_i first hn
    split
    · exact merge_inv h h
    · rename_i ty i rest hi
      rw [mergeOffs_eq h.2]
      dsimp only
      have hne : m.nodes ≠ [] := by rw [hn]; simp
      refine ⟨⟨upsert_nodup _ _ _ h.1.1, ?_, ?_⟩, ?_⟩
      · intro e he
        exact ⟨(upsert_mem_keys _ _ _ _).mpr (Or.inl (h.1.2.1 e he).1),
               (upsert_mem_keys _ _ _ _).mpr (Or.inl (h.1.2.1 e he).2)⟩
      · intro ti hti a ha
        have hti' : ti ∈ m.inters ++ (m.inters.filter (fun ti => ti.1 == ty)).map
            (fun ti => (ti.1, { ti.2 with atoms := ti.2.atoms.map (fun _ => m.offset + 1) })) := hti
        rcases List.mem_append.mp hti' with h' | h'
        · exact (upsert_mem_keys _ _ _ _).mpr (Or.inl (h.1.2.2 ti h' a ha))
        · obtain ⟨tj, _, rfl⟩ := List.mem_map.mp h'
          simp only [List.mem_map] at ha
          obtain ⟨_, _, rfl⟩ := ha
          exact (upsert_mem_keys _ _ _ _).mpr (Or.inr rfl)
      · intro _ k hk
        have hk' : some (m.offset + 1) = some k := hk
        cases hk'
        rw [maxKey_eq_some_iff]
        refine ⟨(upsert_mem_keys _ _ _ _).mpr (Or.inr rfl), ?_⟩
        intro x hx
        rcases (upsert_mem_keys _ _ _ _).mp hx with hx | rfl
        · have := offset_ge x hx; omega
        · exact Int.le_refl _
  · rw [mergeOffs_eq h.2]
    dsimp only
    exact Mol.inv_of_wf_none (upsert_wf h.1 _ _ _) rfl

end C12
