import VermouthProofs.C16
/-! CONECT records: chunking and reading back one record. -/
namespace C16

theorem chunks_nil_of (n : Nat) (l : List Nat) (h : l = [] ∨ n = 0) : chunks n l = [] := by
  rw [chunks]; simp [h]

theorem chunks_cons_of (n : Nat) (l : List Nat) (h : ¬ (l = [] ∨ n = 0)) :
    chunks n l = l.take n :: chunks n (l.drop n) := by
  rw [chunks]; simp [h]

theorem chunks_flatten (n : Nat) (l : List Nat) (hn : n ≠ 0) : (chunks n l).flatten = l := by
  induction hl : l.length using Nat.strongRecOn generalizing l with
  | _ k ih =>
    by_cases h : l = [] ∨ n = 0
    · rw [chunks_nil_of n l h]
      rcases h with h | h
      · rw [h]; rfl
      · exact absurd h hn
    · rw [chunks_cons_of n l h, List.flatten_cons]
      have hne : l.length ≠ 0 := by
        intro h0; exact h (Or.inl (List.eq_nil_of_length_eq_zero h0))
      rw [ih (l.drop n).length (by simp only [List.length_drop]; omega) (l.drop n) rfl]
      exact List.take_append_drop n l

theorem chunks_bounds (n : Nat) (l : List Nat) : ∀ c ∈ chunks n l, c ≠ [] ∧ c.length ≤ n := by
  induction hl : l.length using Nat.strongRecOn generalizing l with
  | _ k ih =>
    by_cases h : l = [] ∨ n = 0
    · rw [chunks_nil_of n l h]; intro c hc; cases hc
    · rw [chunks_cons_of n l h]
      have hne : l.length ≠ 0 := by
        intro h0; exact h (Or.inl (List.eq_nil_of_length_eq_zero h0))
      have hn : n ≠ 0 := fun h0 => h (Or.inr h0)
      intro c hc
      rcases List.mem_cons.mp hc with hc | hc
      · subst hc
        refine ⟨?_, by simp; omega⟩
        intro h0
        have hlen : (List.take n l).length = 0 := by rw [h0]; rfl
        rw [List.length_take] at hlen
        omega
      · exact ih (l.drop n).length (by simp only [List.length_drop]; omega) (l.drop n) rfl c hc

/-- reading a line made of a prefix and equally wide, individually readable fields -/
theorem conectGo_spec (w : Nat) (hw : 1 ≤ w) (f : Nat → List Char) (n : Nat) :
    ∀ (ids : List Nat) (A : List Char) (fuel : Nat),
      (∀ i ∈ ids, (f i).length = w ∧ parseInt (strip (f i)) = some (i : Int)) →
      ids.length ≤ fuel → n = A.length + w * ids.length →
      conectGo w (A ++ ids.flatMap f) n fuel A.length = .ok (ids.map Int.ofNat)
  | [], A, fuel, _, _, hn => by
      cases fuel with
      | zero => rfl
      | succ fuel =>
        simp only [conectGo]
        have : ¬ A.length < n := by simp at hn; omega
        simp [this]
  | i :: rest, A, fuel, hf, hfuel, hn => by
      cases fuel with
      | zero => simp at hfuel
      | succ fuel =>
        obtain ⟨hlen, hparse⟩ := hf i (by simp)
        have hlt : A.length < n := by
          simp only [List.length_cons] at hn
          have : w * (rest.length + 1) = w * rest.length + w := by rw [Nat.mul_succ]
          omega
        have hslice : slice (A ++ (i :: rest).flatMap f) A.length (A.length + w) = f i := by
          unfold slice
          rw [List.drop_append, List.drop_of_length_le (Nat.le_refl _)]
          simp only [Nat.sub_self, List.drop_zero, List.nil_append, List.flatMap_cons]
          have : A.length + w - A.length = w := by omega
          rw [this, List.take_append, List.take_of_length_le (by omega), hlen]
          simp
        have hline : A ++ (i :: rest).flatMap f = (A ++ f i) ++ rest.flatMap f := by
          simp [List.flatMap_cons]
        have ih := conectGo_spec w hw f n rest (A ++ f i) fuel (fun j hj => hf j (by simp [hj]))
          (by simp at hfuel; omega)
          (by simp only [List.length_cons] at hn; simp only [List.length_append, hlen];
              have : w * (rest.length + 1) = w * rest.length + w := by rw [Nat.mul_succ]
              omega)
        simp only [conectGo, hlt, if_true, hslice, hparse]
        rw [hline]
        have hpos : (A ++ f i).length = A.length + w := by simp [hlen]
        rw [hpos] at ih
        rw [ih]
        rfl

theorem natDigits_snoc (n : Nat) : ∃ init c, natDigits n = init ++ [c] ∧ isWs c = false := by
  rw [natDigits]
  split
  · rename_i h; exact ⟨[], _, rfl, (digitChar_props n h).2.2⟩
  · exact ⟨_, _, rfl, (digitChar_props (n % 10) (by omega)).2.2⟩

theorem stripR_snoc (X : List Char) (c : Char) (h : isWs c = false) : stripR (X ++ [c]) = X ++ [c] := by
  unfold stripR
  rw [List.reverse_append]
  simp [h]

theorem intRepr_nat (n : Nat) : intRepr (n : Int) = natDigits n := by
  unfold intRepr
  have : ¬ ((n : Int) < 0) := by omega
  simp only [this, if_false, Int.natAbs_natCast]

theorem nat_fits' (w n : Nat) (hw : 1 ≤ w) (hn : n < 10 ^ w) : (intRepr (n : Int)).length ≤ w := by
  rw [intRepr_nat]; exact natDigits_length_le w n hn hw

theorem conectIds_conectLine (L : PdbLayout) (ids : List Nat) (hne : ids ≠ [])
    (hstart : L.conectPrefix.length = L.conectStart) (hwidth : L.conectNum.width = L.conectWidth)
    (hw : 1 ≤ L.conectWidth) (hty : L.conectNum.ty = .d) (hfill : L.conectNum.fill = ' ')
    (htr : L.conectNum.trunc = true) (halign : L.conectNum.leftAligned = false)
    (hfit : ∀ i ∈ ids, i < 10 ^ L.conectWidth) :
    conectIds L (conectLine L ids) = .ok (ids.map Int.ofNat) := by
  let f : Nat → List Char := fun i => renderField L.conectNum (.int (i : Int))
  have hbody : ∀ i : Nat, fieldBody L.conectNum (.int (i : Int)) = natDigits i := by
    intro i; unfold fieldBody; rw [hty]; exact intRepr_nat i
  have hfits : ∀ i ∈ ids, (fieldBody L.conectNum (.int (i : Int))).length ≤ L.conectNum.width := by
    intro i hi; rw [hbody, hwidth]; exact natDigits_length_le _ i (hfit i hi) hw
  have hf : ∀ i ∈ ids, (f i).length = L.conectWidth ∧ parseInt (strip (f i)) = some (i : Int) := by
    intro i hi
    refine ⟨?_, ?_⟩
    · show (renderField L.conectNum (.int (i : Int))).length = L.conectWidth
      rw [length_renderField _ _ htr (by omega), hwidth]
    · show parseInt (strip (renderField L.conectNum (.int (i : Int)))) = some (i : Int)
      rw [renderField_of_fits _ _ (hfits i hi), hbody, strip_padded _ _ hfill,
        strip_of_no_ws _ (natDigits_no_ws i), parseInt_natDigits]
  have hline : conectLine L ids = L.conectPrefix ++ ids.flatMap f := rfl
  -- total length and the fact that the line does not end in white space
  have hlen : ∀ l : List Nat, (∀ i ∈ l, (f i).length = L.conectWidth) →
      (l.flatMap f).length = L.conectWidth * l.length := by
    intro l hl
    induction l with
    | nil => simp
    | cons a l ih =>
      rw [List.flatMap_cons, List.length_append, hl a (by simp), ih (fun i hi => hl i (by simp [hi]))]
      simp only [List.length_cons, Nat.mul_succ]; omega
  have hstrip : stripR (conectLine L ids) = conectLine L ids := by
    obtain ⟨init, last, hil⟩ : ∃ init last, ids = init ++ [last] :=
      ⟨ids.dropLast, ids.getLast hne, (List.dropLast_concat_getLast hne).symm⟩
    have hlast : last ∈ ids := by rw [hil]; simp
    obtain ⟨di, c, hdc, hc⟩ := natDigits_snoc last
    have hfl : f last = (List.replicate (L.conectNum.width - (natDigits last).length) ' ' ++ di) ++ [c] := by
      show renderField L.conectNum (.int (last : Int)) = _
      rw [renderField_of_fits _ _ (hfits last hlast), hbody]
      unfold padded
      rw [halign, hfill, hdc]
      simp
    rw [hline, hil, List.flatMap_append, List.flatMap_cons, List.flatMap_nil, List.append_nil, hfl,
      ← List.append_assoc, ← List.append_assoc]
    exact stripR_snoc _ c hc
  unfold conectIds
  have hw0 : ¬ L.conectWidth = 0 := by omega
  simp only [hw0, if_false, hstrip]
  rw [hline]
  have hn : (L.conectPrefix ++ ids.flatMap f).length = L.conectPrefix.length + L.conectWidth * ids.length := by
    rw [List.length_append, hlen ids (fun i hi => (hf i hi).1)]
  rw [← hstart]
  apply conectGo_spec L.conectWidth hw f _ ids L.conectPrefix _ hf
  · rw [hn]
    have : ids.length ≤ L.conectWidth * ids.length := Nat.le_mul_of_pos_left _ (by omega)
    omega
  · exact hn

end C16
