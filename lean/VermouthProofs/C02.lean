import VermouthModel.C02
import Std.Data.String.ToNat
/-! Helper lemmas for C02 (core Lean + Std only). -/
namespace C02

/-! ### generic: `mapM` in `Except` / `Option` -/

inductive Forall₂ {α β} (R : α → β → Prop) : List α → List β → Prop where
  | nil : Forall₂ R [] []
  | cons {a b l r} : R a b → Forall₂ R l r → Forall₂ R (a :: l) (b :: r)

theorem mapM_except_ok_iff {α β ε} (f : α → Except ε β) (l : List α) (r : List β) :
    l.mapM f = .ok r ↔ Forall₂ (fun x y => f x = .ok y) l r := by
  induction l generalizing r with
  | nil =>
    simp only [List.mapM_nil]
    constructor
    · intro h; cases h; exact .nil
    · intro h; cases h; rfl
  | cons a t ih =>
    rw [List.mapM_cons]
    cases hfa : f a with
    | error e =>
      constructor
      · intro h; cases h
      · intro h; cases h with
        | cons h1 _ => rw [hfa] at h1; cases h1
    | ok b =>
      cases ht : t.mapM f with
      | error e =>
        constructor
        · intro h; cases h
        · intro h
          cases h with
          | cons h1 h2 =>
            have := (ih _).mpr h2
            rw [ht] at this; cases this
      | ok bs =>
        constructor
        · intro h
          cases h
          exact .cons hfa ((ih _).mp ht)
        · intro h
          cases h with
          | cons h1 h2 =>
            rw [hfa] at h1; cases h1
            have := (ih _).mpr h2
            rw [ht] at this; cases this
            rfl

theorem mapM_except_ok_of_forall {α β ε} (f : α → Except ε β) (g : α → β) (l : List α)
    (h : ∀ x ∈ l, f x = .ok (g x)) : l.mapM f = .ok (l.map g) := by
  rw [mapM_except_ok_iff]
  induction l with
  | nil => exact .nil
  | cons a t ih =>
    exact .cons (h a (by simp)) (ih (fun x hx => h x (by simp [hx])))

theorem mapM_option_some_of_forall {α β} (f : α → Option β) (g : α → β) (l : List α)
    (h : ∀ x ∈ l, f x = some (g x)) : l.mapM f = some (l.map g) := by
  induction l with
  | nil => rfl
  | cons a t ih =>
    rw [List.mapM_cons, h a (by simp), ih (fun x hx => h x (by simp [hx]))]
    rfl

theorem forall₂_mem_right {α β} {R : α → β → Prop} {l : List α} {r : List β}
    (h : Forall₂ R l r) : ∀ y ∈ r, ∃ x ∈ l, R x y := by
  induction h with
  | nil => intro y hy; cases hy
  | cons h1 _ ih =>
    intro y hy
    cases hy with
    | head => exact ⟨_, by simp, h1⟩
    | tail _ hy' =>
      obtain ⟨x, hx, hr⟩ := ih y hy'
      exact ⟨x, by simp [hx], hr⟩

/-! ### atom order and the renumbering table -/

theorem sortedNodes_perm (m : Mol) : (sortedNodes m).Perm m.atoms :=
  List.mergeSort_perm _ _

theorem sortedNodes_length (m : Mol) : (sortedNodes m).length = m.atoms.length :=
  (sortedNodes_perm m).length_eq

theorem atomidLe_total (a b : Option Int) : atomidLe a b = true ∨ atomidLe b a = true := by
  cases a <;> cases b <;> simp [atomidLe]
  omega

theorem atomidLe_trans (a b c : Option Int) (h1 : atomidLe a b = true) (h2 : atomidLe b c = true) :
    atomidLe a c = true := by
  cases a <;> cases b <;> cases c <;> simp_all [atomidLe]
  omega

/-- the written atom order is sorted by atom id (absent ids last) -/
theorem sortedNodes_pairwise (m : Mol) :
    (sortedNodes m).Pairwise (fun a b => atomidLe a.atomid b.atomid = true) := by
  unfold sortedNodes
  apply List.pairwise_mergeSort
  · intro a b c h1 h2; exact atomidLe_trans _ _ _ h1 h2
  · intro a b
    have := atomidLe_total a.atomid b.atomid
    simpa [Bool.or_eq_true] using this

theorem lookup_corrOf_some (l : List Atom) (s : Nat) (k : Int) (n : Nat)
    (h : lookupIdx (corrOf l s) k = some n) :
    s ≤ n ∧ n < s + l.length ∧ (l[n - s]?).map (·.key) = some k := by
  induction l generalizing s with
  | nil => simp [lookupIdx, corrOf] at h
  | cons a t ih =>
    simp only [lookupIdx, corrOf, List.lookup_cons] at h
    by_cases hk : k = a.key
    · subst hk
      simp at h
      subst h
      simp
    · have : (k == a.key) = false := by simpa using hk
      rw [this] at h
      obtain ⟨h1, h2, h3⟩ := ih (s + 1) h
      refine ⟨by omega, by simp only [List.length_cons]; omega, ?_⟩
      have : n - s = (n - (s + 1)) + 1 := by omega
      rw [this, List.getElem?_cons_succ]
      exact h3

theorem lookup_corrOf_isSome (l : List Atom) (s : Nat) (k : Int) (h : k ∈ l.map (·.key)) :
    (lookupIdx (corrOf l s) k).isSome = true := by
  induction l generalizing s with
  | nil => simp at h
  | cons a t ih =>
    simp only [lookupIdx, corrOf, List.lookup_cons]
    by_cases hk : k = a.key
    · subst hk; simp
    · have : (k == a.key) = false := by simpa using hk
      rw [this]
      simp only [List.map_cons, List.mem_cons] at h
      rcases h with h | h
      · exact absurd h hk
      · exact ih (s + 1) h

theorem lookup_corrOf_none (l : List Atom) (s : Nat) (k : Int) (h : k ∉ l.map (·.key)) :
    lookupIdx (corrOf l s) k = none := by
  induction l generalizing s with
  | nil => simp [lookupIdx, corrOf]
  | cons a t ih =>
    simp only [List.map_cons, List.mem_cons, not_or] at h
    simp only [lookupIdx, corrOf, List.lookup_cons]
    have : (k == a.key) = false := by simpa using h.1
    rw [this]
    exact ih (s + 1) h.2

theorem nodupKeys_iff (l : List Int) : nodupKeys l = true ↔ l.Nodup := by
  induction l with
  | nil => simp [nodupKeys]
  | cons a t ih =>
    simp only [nodupKeys, Bool.and_eq_true, Bool.not_eq_true', List.nodup_cons, ih]
    constructor
    · rintro ⟨h1, h2⟩
      exact ⟨by simpa using h1, h2⟩
    · rintro ⟨h1, h2⟩
      exact ⟨by simpa using h1, h2⟩

/-- with distinct keys the i-th written atom gets number `s + i` -/
theorem lookup_corrOf_get (l : List Atom) (s : Nat) (hnd : (l.map (·.key)).Nodup) (i : Nat) (hi : i < l.length) :
    lookupIdx (corrOf l s) l[i].key = some (s + i) := by
  induction l generalizing s i with
  | nil => simp at hi
  | cons a t ih =>
    simp only [List.map_cons, List.nodup_cons] at hnd
    simp only [lookupIdx, corrOf, List.lookup_cons]
    cases i with
    | zero => simp
    | succ j =>
      simp only [List.getElem_cons_succ]
      have hj : j < t.length := by simpa using hi
      have hne : t[j].key ≠ a.key := by
        intro e
        apply hnd.1
        rw [← e]
        exact List.mem_map.mpr ⟨t[j], List.getElem_mem hj, rfl⟩
      have : (t[j].key == a.key) = false := by simpa using hne
      rw [this]
      have := ih (s + 1) hnd.2 j hj
      simp only [lookupIdx] at this
      rw [this]
      have e : s + 1 + j = s + (j + 1) := by omega
      rw [e]

end C02
