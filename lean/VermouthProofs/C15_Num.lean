import VermouthProofs.C15_Order
import VermouthProofs.C15_Inv
import Mathlib.Data.Nat.Sqrt
import Mathlib.Analysis.SpecialFunctions.Exp
import Mathlib.Analysis.SpecialFunctions.Sqrt
/-! Helper lemmas for C15: admissible lengths, the decay at and below the lower bound, thresholds. -/
namespace C15

/-! ### the interval of admissible rendered lengths -/

theorem roundBounds_spec (num den d2 n : Nat) (hden : 0 < den) :
    roundAdmissible num den d2 n = true ↔
      (roundBounds num den d2).1 ≤ n ∧ n ≤ (roundBounds num den d2).2 := by
  unfold roundAdmissible roundBounds
  simp only [Bool.and_eq_true, decide_eq_true_eq]
  generalize 4 * d2 * (num * num) = x
  have hD : 0 < den * den := Nat.mul_pos hden hden
  generalize den * den = D at *
  have h3 : x / D * D ≤ x := Nat.div_mul_le_self x D
  have h4 : x < (x / D + 1) * D := (Nat.div_lt_iff_lt_mul hD).mp (Nat.lt_succ_self _)
  -- lower part: (2n-1)² D ≤ x ↔ 2n-1 ≤ r
  have lowIff : ∀ b : Nat, b * b * D ≤ x ↔ b ≤ Nat.sqrt (x / D) := by
    intro b
    rw [Nat.le_sqrt, Nat.le_div_iff_mul_le hD]
  -- upper part: x ≤ a² D ↔ r < a ∨ (r = a ∧ r² D = x)
  have upIff : ∀ a : Nat, x ≤ a * a * D ↔
      Nat.sqrt (x / D) < a ∨ (Nat.sqrt (x / D) = a ∧ Nat.sqrt (x / D) * Nat.sqrt (x / D) * D = x) := by
    intro a
    constructor
    · intro h
      by_cases hlt : Nat.sqrt (x / D) < a
      · exact Or.inl hlt
      · right
        have hge : a ≤ Nat.sqrt (x / D) := Nat.le_of_not_lt hlt
        have h1 : a * a * D ≤ x := (lowIff a).mpr hge
        have hx : x = a * a * D := Nat.le_antisymm h h1
        have hy : x / D = a * a := by rw [hx]; exact Nat.mul_div_cancel _ hD
        have hs : Nat.sqrt (x / D) = a := by rw [hy]; exact Nat.sqrt_eq a
        exact ⟨hs, by rw [hs]; exact hx.symm⟩
    · rintro (h | ⟨h1, h2⟩)
      · have : x / D < a * a := Nat.sqrt_lt.mp h
        calc x ≤ (x / D + 1) * D := Nat.le_of_lt h4
          _ ≤ a * a * D := Nat.mul_le_mul_right _ this
      · rw [← h1, h2]
  rw [lowIff, upIff]
  generalize Nat.sqrt (x / D) = r
  by_cases ht : r * r * D = x
  · by_cases hodd : r % 2 = 1
    · rw [if_pos ⟨hodd, ht⟩]
      simp only [ht, and_true]
      omega
    · rw [if_neg (fun h => hodd h.1)]
      simp only [ht, and_true]
      omega
  · rw [if_neg (fun h => ht h.2)]
    simp only [ht, and_false, or_false]
    omega

theorem roundSqrtScaled_admissible (num den d2 : Nat) (hden : 0 < den) :
    roundAdmissible num den d2 (roundSqrtScaled num den d2) = true := by
  unfold roundAdmissible
  simp only [Bool.and_eq_true, decide_eq_true_eq]
  exact roundSqrtScaled_spec num den d2 hden

theorem roundBounds_width (num den d2 : Nat) :
    (roundBounds num den d2).1 ≤ (roundBounds num den d2).2 ∧
    (roundBounds num den d2).2 ≤ (roundBounds num den d2).1 + 1 := by
  unfold roundBounds
  simp only []
  split <;> simp <;> omega

/-! ### compute_force_constants with the decayed constant as a parameter -/

/-- `compute_force_constants`, one entry, for a decayed constant `k` -/
def forceConstK (p : Params) (diag : Bool) (d2 : Nat) (k : Rat) : Rat :=
  let c1 := if diag then 0 else k
  let c2 := if c1 < p.minForce then 0 else c1
  let c3 := if c2 > p.base then p.base else c2
  if d2 > p.upper2 then 0 else c3

theorem forceConst_eq_K (p : Params) (diag : Bool) (d2 : Nat) :
    forceConst p diag d2 = forceConstK p diag d2 (kOf p d2) := rfl

/-- the emission test `if force_constant > minimum_force` -/
def emitVal (p : Params) (c : Rat) : Option Rat := if c > p.minForce then some c else none

theorem capped_of_ge_base' (p : Params) (diag : Bool) (d2 : Nat) (k : Rat) (hb : 0 ≤ p.base) (hk : p.base ≤ k) :
    emitVal p (forceConstK p diag d2 k) = emitVal p (forceConstK p diag d2 p.base) := by
  unfold emitVal forceConstK
  cases diag <;> simp only [Bool.false_eq_true, if_false, if_true, gt_iff_lt]
  · split_ifs <;> first | rfl | (exfalso; linarith) | (congr 1; linarith)

theorem kOf_noDecayAt (p : Params) (d2 : Nat) (h : noDecayAt p d2 = true) : kOf p d2 = p.base := by
  unfold kOf; rw [if_pos h]

/-! ### sign of `d - lower` from squares -/

theorem sqrt_lt_of_belowLower (lower : Rat) (d2 : Nat) (h : belowLower lower d2 = true) :
    Real.sqrt (d2 : ℝ) / 256 - (lower : ℝ) < 0 := by
  unfold belowLower at h
  simp only [Bool.and_eq_true, decide_eq_true_eq] at h
  obtain ⟨h0, hlt⟩ := h
  have hlt' : ((d2 : ℚ) : ℝ) < (((lower * 256) * (lower * 256) : ℚ) : ℝ) := Rat.cast_lt.mpr hlt
  push_cast at hlt'
  have h0' : (0 : ℝ) ≤ (lower : ℝ) := by exact_mod_cast h0
  have hpos : (0 : ℝ) < (lower : ℝ) * 256 := by
    rcases h0'.lt_or_eq with h | h
    · linarith
    · exfalso
      rw [← h] at hlt'
      have : (0 : ℝ) ≤ (d2 : ℝ) := Nat.cast_nonneg d2
      linarith
  have : Real.sqrt (d2 : ℝ) < (lower : ℝ) * 256 := by
    rw [Real.sqrt_lt' hpos]
    nlinarith
  linarith

theorem sqrt_eq_of_onLower (lower : Rat) (d2 : Nat) (h : onLower lower d2 = true) :
    Real.sqrt (d2 : ℝ) / 256 - (lower : ℝ) = 0 := by
  unfold onLower at h
  simp only [Bool.and_eq_true, decide_eq_true_eq] at h
  obtain ⟨h0, he⟩ := h
  have he' : ((d2 : ℚ) : ℝ) = (((lower * 256) * (lower * 256) : ℚ) : ℝ) := by rw [he]
  push_cast at he'
  have h0' : (0 : ℝ) ≤ (lower : ℝ) * 256 := by
    have : (0 : ℝ) ≤ (lower : ℝ) := by exact_mod_cast h0
    linarith
  have : Real.sqrt (d2 : ℝ) = (lower : ℝ) * 256 := by
    rw [he', Real.sqrt_mul_self h0']
  rw [this]; ring

/-- in the cases of `noDecay` the argument `a (d - lower)^p` of the decay is ≤ 0 -/
theorem decay_arg_nonpos (dec : Decay) (d2 : Nat) (h : noDecay dec d2 = true) :
    (dec.a : ℝ) * (Real.sqrt (d2 : ℝ) / 256 - (dec.lower : ℝ)) ^ dec.p ≤ 0 := by
  unfold noDecay at h
  simp only [Bool.or_eq_true, Bool.and_eq_true, beq_iff_eq, bne_iff_ne, ne_eq, decide_eq_true_eq] at h
  rcases h with (ha | ⟨hp, hon⟩) | ⟨⟨ha, hodd⟩, hbelow⟩
  · rw [ha]; simp
  · rw [sqrt_eq_of_onLower _ _ hon, zero_pow hp]; simp
  · have hx := sqrt_lt_of_belowLower _ _ hbelow
    have hoddp : Odd dec.p := Nat.odd_iff.mpr hodd
    have hpow : (Real.sqrt (d2 : ℝ) / 256 - (dec.lower : ℝ)) ^ dec.p < 0 := hoddp.pow_neg hx
    have ha' : (0 : ℝ) < (dec.a : ℝ) := by exact_mod_cast ha
    exact le_of_lt (mul_neg_of_pos_of_neg ha' hpow)

end C15
