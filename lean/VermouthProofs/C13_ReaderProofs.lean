import VermouthModel.C13_Reader
import VermouthProofs.C13_Disp
import Generated.C13Tables
/-!
# C13 — the concrete force-field reader satisfies the hypotheses of the dispatcher theorems

* per-handler lemmas: every line handler of `C13_Reader.lean` except `_block` (`nameLine2`) and
  `_modification` keeps the `name` of the context (`NP`);
* `NameStableR`: the route-relative form of `NameStable` (the form the dispatcher proofs use; the
  unrelativised `NameStable` is false for the concrete handlers, see `name_stable_unrelativised_fails`);
* `guardP`: bridge that transports `ff_blocks_spec` / `ff_mods_spec` to `NameStableR`
  (`ff_blocks_spec_R`, `ff_mods_spec_R`);
* instantiation at the generated dispatch table and the statement about `readFF`.
-/
namespace C13

theorem setNode_name (c : Ctx) (k : String) (a : Attrs) : (c.setNode k a).name = c.name := rfl

theorem linkAtoms_name : ∀ (atoms : List (String × Attrs)) (c c' : Ctx) (ks : List String),
    linkAtoms c atoms = some (c', ks) → c'.name = c.name := by
  intro atoms
  induction atoms with
  | nil => intro c c' ks h; simp [linkAtoms] at h; rw [← h.1]
  | cons a rest ih =>
    intro c c' ks h
    obtain ⟨ref, attrs⟩ := a
    simp only [linkAtoms, Option.bind_eq_bind, Option.bind_eq_some_iff, Option.pure_def] at h
    obtain ⟨⟨key, attrs2⟩, _, h⟩ := h
    have fin : ∀ c1 : Ctx, c1.name = c.name →
        ((some c1).bind fun c' => (linkAtoms c' rest).bind fun x => some (x.fst, String.ofList key :: x.snd))
          = some (c', ks) → c'.name = c.name := by
      intro c1 h1 h
      simp only [Option.bind_some, Option.bind_eq_some_iff, Option.some.injEq, Prod.mk.injEq] at h
      obtain ⟨⟨c2, ks2⟩, hrec, heq⟩ := h
      rw [← heq.1, ih c1 c2 ks2 hrec, h1]
    split at h
    · split at h
      · simp at h
      · exact fin (c.setNode _ _) rfl h
    · exact fin (c.setNode _ _) rfl h


theorem linkAtoms_name' {atoms : List (String × Attrs)} {c : Ctx} {x : Ctx × List String}
    (h : linkAtoms c atoms = some x) : x.fst.name = c.name :=
  linkAtoms_name atoms c x.1 x.2 h

theorem ite_some_none {p : Prop} [Decidable p] {c a : Ctx}
    (h : (if p then some c else none) = some a) : a.name = c.name := by
  split at h
  · cases h; rfl
  · cases h

/-- every successful result has the name of `c` -/
def NP (c : Ctx) (o : Option Ctx) : Prop := ∀ c', o = some c' → c'.name = c.name

theorem NP_none (c : Ctx) : NP c none := by intro c' h; cases h
theorem NP_some (c c1 : Ctx) (h : c1.name = c.name) : NP c (some c1) := by
  intro c' h'; cases h'; exact h
theorem NP_bind {α : Type} (c : Ctx) (x : Option α) (f : α → Option Ctx)
    (h : ∀ a, x = some a → NP c (f a)) : NP c (x.bind f) := by
  intro c' h'
  cases x with
  | none => cases h'
  | some a => exact h a rfl c' h'
theorem NP_map {α : Type} (c : Ctx) (x : Option α) (f : α → Ctx)
    (h : ∀ a, x = some a → (f a).name = c.name) : NP c (x.map f) := by
  intro c' h'
  cases x with
  | none => cases h'
  | some a => cases h'; exact h a rfl

theorem NP_bind_guard (c : Ctx) (p : Prop) [Decidable p] (f : Ctx → Option Ctx)
    (h : NP c (f c)) : NP c ((if p then some c else none).bind f) := by
  split
  · exact h
  · exact NP_none c

syntax "np_step" : tactic
macro_rules
  | `(tactic| np_step) => `(tactic| first
      | apply NP_none
      | (apply NP_some; first | rfl | (apply linkAtoms_name'; assumption))
      | apply NP_bind_guard
      | (apply NP_map; intro _ _; rfl)
      | (apply NP_bind; intro _ _)
      | split)

theorem interactionCore_NP (nt : List (String × Nat)) (kind : Kind) (sectRaw line : String)
    (c : Ctx) : NP c (interactionCore nt kind sectRaw line c) := by
  unfold interactionCore
  dsimp only [Option.pure_def, Option.bind_eq_bind, Option.bind_some, Option.bind_none]
  repeat' np_step

theorem interactionLine_NP (nt : List (String × Nat)) (kind : Kind) (dih : Bool) (sectRaw line : String)
    (c : Ctx) : NP c (interactionLine nt kind dih sectRaw line c) := by
  intro c' h
  unfold interactionLine at h
  cases hc : interactionCore nt kind sectRaw line c with
  | none => rw [hc] at h; cases h
  | some c1 =>
    rw [hc] at h
    have h1 := interactionCore_NP nt kind sectRaw line c c1 hc
    cases h
    split
    · exact h1
    · exact h1


theorem linkAtomLine_NP (defaults : Attrs) (line : String) (c : Ctx) :
    NP c (linkAtomLine defaults line c) := by
  unfold linkAtomLine
  dsimp only [Option.pure_def, Option.bind_eq_bind, Option.bind_some, Option.bind_none]
  repeat' np_step

theorem edgeLine_NP (kind : Kind) (negate : Bool) (line : String) (c : Ctx) :
    NP c (edgeLine kind negate line c) := by
  unfold edgeLine
  dsimp only [Option.pure_def, Option.bind_eq_bind, Option.bind_some, Option.bind_none]
  repeat' np_step

theorem blockAtomLine_NP (line : String) (c : Ctx) : NP c (blockAtomLine line c) := by
  unfold blockAtomLine
  dsimp only [Option.pure_def, Option.bind_eq_bind, Option.bind_some, Option.bind_none]
  repeat' np_step

theorem linkAttrLine_NP (molmeta : Bool) (line : String) (c : Ctx) :
    NP c (linkAttrLine molmeta line c) := by
  unfold linkAttrLine
  dsimp only [Option.pure_def, Option.bind_eq_bind, Option.bind_some, Option.bind_none]
  repeat' np_step


/-- a handler other than `_block` / `_modification` keeps the name of the context -/
theorem ffHandle_NP (nt : List (String × Nat)) (tab : List Entry) (kind : Kind) (p : Path)
    (line : String) (c : Ctx)
    (hb : ∀ e, findEntry tab p = some e → e.method ≠ "_block" ∧ e.method ≠ "_modification") :
    NP c (ffHandle nt tab kind p line c) := by
  unfold ffHandle
  cases hf : findEntry tab p with
  | none => exact NP_none c
  | some e =>
    obtain ⟨h1, h2⟩ := hb e hf
    dsimp only [Option.pure_def, Option.bind_eq_bind, Option.bind_some, Option.bind_none]
    rw [if_neg h1]
    by_cases m : e.method = "_block_atoms"
    · rw [if_pos m]
      exact blockAtomLine_NP _ _
    rw [if_neg m]
    clear m
    by_cases m : e.method = "_interactions"
    · rw [if_pos m]
      exact interactionLine_NP _ _ _ _ _ _
    rw [if_neg m]
    clear m
    by_cases m : e.method = "_dih_interactions"
    · rw [if_pos m]
      exact interactionLine_NP _ _ _ _ _ _
    rw [if_neg m]
    clear m
    by_cases m : e.method = "_edges"
    · rw [if_pos m]
      exact edgeLine_NP _ _ _ _
    rw [if_neg m]
    clear m
    by_cases m : e.method = "_link"
    · rw [if_pos m]
      exact linkAttrLine_NP _ _ _
    rw [if_neg m]
    clear m
    by_cases m : e.method = "_link_atoms"
    · rw [if_pos m]
      exact linkAtomLine_NP _ _ _
    rw [if_neg m]
    clear m
    by_cases m : e.method = "_modification_atoms"
    · rw [if_pos m]
      exact linkAtomLine_NP _ _ _
    rw [if_neg m]
    clear m
    by_cases m : e.method = "_modification"
    · rw [if_pos m]
      exact absurd m h2
    rw [if_neg m]
    clear m
    by_cases m : e.method = "_invalid_out_of_link"
    · rw [if_pos m]
      exact NP_none c
    rw [if_neg m]
    clear m
    by_cases m : e.method = "_link_patterns"
    · rw [if_pos m]
      by_cases hk : (kind != Kind.link) = true
      · rw [if_pos hk]; exact NP_none c
      · rw [if_neg hk]; repeat' np_step
    rw [if_neg m]
    clear m
    by_cases m : e.method = "_link_features"
    · rw [if_pos m]
      by_cases hk : (kind != Kind.link) = true
      · rw [if_pos hk]; exact NP_none c
      · rw [if_neg hk]; exact NP_map c _ _ (fun _ _ => rfl)
    rw [if_neg m]
    clear m
    exact NP_some c c rfl

theorem findEntry_mem {tab : List Entry} {p : Path} {e : Entry} (h : findEntry tab p = some e) :
    e ∈ tab ∧ e.path = p := by
  unfold findEntry at h
  exact ⟨List.mem_of_find?_eq_some h, by simpa using List.find?_some h⟩

/-- route-relative name stability: all that the dispatcher proofs use -/
def NameStableR {C G : Type} (P : Params C G) (k : Kind) (top : String) : Prop :=
  ∀ sec t c c', sec ≠ [top] → P.route sec = k → P.handle k sec t c = some c' → P.nameOf c' = P.nameOf c

/-- the table hypothesis: `_block` is registered only for `[ moleculetype ]`, `_modification` only
for `[ modification ]`, and these two sections are routed to their own kind of context -/
def TabOk (tab : List Entry) : Prop :=
  (∀ e ∈ tab, (e.method = "_block" → e.path = ["moleculetype"]) ∧
    (e.method = "_modification" → e.path = ["modification"])) ∧
  routeOf tab ["moleculetype"] = .block ∧ routeOf tab ["modification"] = .modification

theorem name_stable_ff_block (nt : List (String × Nat)) (tab : List Entry) (hTab : TabOk tab) :
    NameStableR (ffParams nt tab) .block "moleculetype" := by
  intro sec t c c' hsec hroute h
  refine ffHandle_NP nt tab .block sec t c ?_ c' h
  intro e he
  obtain ⟨hmem, hpath⟩ := findEntry_mem he
  obtain ⟨hb, hm⟩ := hTab.1 e hmem
  refine ⟨fun hx => hsec ?_, fun hx => ?_⟩
  · rw [← hpath]; exact hb hx
  · have : sec = ["modification"] := by rw [← hpath]; exact hm hx
    rw [this] at hroute
    have h2 := hTab.2.2
    change routeOf tab ["modification"] = Kind.block at hroute
    rw [h2] at hroute
    cases hroute

theorem name_stable_ff_mod (nt : List (String × Nat)) (tab : List Entry) (hTab : TabOk tab) :
    NameStableR (ffParams nt tab) .modification "modification" := by
  intro sec t c c' hsec hroute h
  refine ffHandle_NP nt tab .modification sec t c ?_ c' h
  intro e he
  obtain ⟨hmem, hpath⟩ := findEntry_mem he
  obtain ⟨hb, hm⟩ := hTab.1 e hmem
  refine ⟨fun hx => ?_, fun hx => hsec ?_⟩
  · have : sec = ["moleculetype"] := by rw [← hpath]; exact hb hx
    rw [this] at hroute
    have h2 := hTab.2.1
    change routeOf tab ["moleculetype"] = Kind.modification at hroute
    rw [h2] at hroute
    cases hroute
  · rw [← hpath]; exact hm hx


/-! ### bridge to the dispatcher theorems -/
section Bridge
variable {C G : Type}

/-- `P` with handlers that refuse a line whose section is not routed to the kind they are called
with; the dispatcher never makes such a call -/
def guardP (P : Params C G) : Params C G :=
  { P with handle := fun k sec t c => if P.route sec = k then P.handle k sec t c else none }

theorem guardP_handle (P : Params C G) (k : Kind) (sec : Path) (t : String) (c : C)
    (h : P.route sec = k) : (guardP P).handle k sec t c = P.handle k sec t c := by
  simp [guardP, h]

theorem ffContent_guard (P : Params C G) (s : St C G) (t : String) :
    ffContent (guardP P) s t = ffContent P s t := by
  unfold ffContent
  have hT : (guardP P).T = P.T := rfl
  have hR : (guardP P).route = P.route := rfl
  have hG : (guardP P).handleG = P.handleG := rfl
  rw [hT, hR, hG]
  cases h : P.route s.sec <;> simp only [guardP_handle P _ s.sec t _ h]

theorem ffStep_guard (P : Params C G) (s : St C G) (i : Nat) (l : Line) :
    ffStepWith ffFinalize (guardP P) s i l = ffStepWith ffFinalize P s i l := by
  cases l with
  | header n => rfl
  | content t => exact ffContent_guard P s t

theorem ffRunFrom_guard (P : Params C G) (lines : List Line) :
    ∀ (s : St C G) (i : Nat),
      ffRunFromWith ffFinalize (guardP P) s i lines = ffRunFromWith ffFinalize P s i lines := by
  induction lines with
  | nil => intro s i; rfl
  | cons l r ih =>
    intro s i
    simp only [ffRunFromWith, ffStep_guard]
    cases ffStepWith ffFinalize P s i l with
    | none => rfl
    | some s' => exact ih s' (i + 1)

theorem ffRun_guard (P : Params C G) (g0 : G) (lines : List Line) :
    ffRun (guardP P) g0 lines = ffRun P g0 lines := ffRunFrom_guard P lines _ _

theorem applyH_guard (P : Params C G) (k : Kind) (sec : Path) (t : String) (c : C)
    (h : P.route sec = k) : applyH (guardP P) k sec t c = applyH P k sec t c := by
  unfold applyH; rw [guardP_handle P k sec t c h]

theorem linkSpec_guard (P : Params C G) (lines : List Line) :
    ∀ (sec : Path) (cur : Option (Nat × C)) (i : Nat),
      linkSpec (guardP P) sec cur i lines = linkSpec P sec cur i lines := by
  induction lines with
  | nil => intro sec cur i; rfl
  | cons l r ih =>
    intro sec cur i
    cases l with
    | header n =>
      simp only [linkSpec, ih]
      rfl
    | content t =>
      simp only [linkSpec, ih]
      have hR : (guardP P).route = P.route := rfl
      rw [hR]
      by_cases h : P.route sec = .link
      · simp only [h, if_true, applyH_guard P .link sec t _ h]
      · simp only [h, if_false]

theorem blockSpec_guard (P : Params C G) (lines : List Line) :
    ∀ (sec : Path) (cur : Option (Nat × C)) (i : Nat),
      blockSpec (guardP P) sec cur i lines = blockSpec P sec cur i lines := by
  induction lines with
  | nil => intro sec cur i; rfl
  | cons l r ih =>
    intro sec cur i
    cases l with
    | header n =>
      simp only [blockSpec, ih]
      rfl
    | content t =>
      simp only [blockSpec, ih]
      have hR : (guardP P).route = P.route := rfl
      rw [hR]
      by_cases h : P.route sec = .block
      · simp only [h, if_true, applyH_guard P .block sec t _ h]
      · simp only [h, if_false]

theorem modSpec_guard (P : Params C G) (lines : List Line) :
    ∀ (sec : Path) (cur : Option (Nat × C)) (i : Nat),
      modSpec (guardP P) sec cur i lines = modSpec P sec cur i lines := by
  induction lines with
  | nil => intro sec cur i; rfl
  | cons l r ih =>
    intro sec cur i
    cases l with
    | header n =>
      simp only [modSpec, ih]
      rfl
    | content t =>
      simp only [modSpec, ih]
      have hR : (guardP P).route = P.route := rfl
      rw [hR]
      by_cases h : P.route sec = .modification
      · simp only [h, if_true, applyH_guard P .modification sec t _ h]
      · simp only [h, if_false]

theorem nameStable_guard (P : Params C G) (k : Kind) (top : String) (h : NameStableR P k top) :
    NameStable (guardP P) k top := by
  intro sec t c c' hsec hh
  by_cases hr : P.route sec = k
  · rw [guardP_handle P k sec t c hr] at hh
    exact h sec t c c' hsec hr hh
  · simp [guardP, hr] at hh

/-- `ff_blocks_spec` under the route-relative hypothesis -/
theorem ff_blocks_spec_R (P : Params C G) (g0 : G) (lines : List Line) (s : St C G)
    (hT : TopOk P.T) (hS : NameStableR P .block "moleculetype") (h : ffRun P g0 lines = some s) :
    s.blocks = dictOfList ((blockSpec P [] none 0 lines).map (fun b => (P.nameOf b.2, b))) := by
  have := ff_blocks_spec (guardP P) g0 lines s hT (nameStable_guard P _ _ hS)
    (by rw [ffRun_guard]; exact h)
  rw [blockSpec_guard] at this
  exact this

/-- `ff_mods_spec` under the route-relative hypothesis -/
theorem ff_mods_spec_R (P : Params C G) (g0 : G) (lines : List Line) (s : St C G)
    (hT : TopOk P.T) (hS : NameStableR P .modification "modification")
    (h : ffRun P g0 lines = some s) :
    s.mods = dictOfList ((modSpec P [] none 0 lines).map (fun b => (P.nameOf b.2, b))) := by
  have := ff_mods_spec (guardP P) g0 lines s hT (nameStable_guard P _ _ hS)
    (by rw [ffRun_guard]; exact h)
  rw [modSpec_guard] at this
  exact this

end Bridge


/-! ### the generated dispatch table -/

/-- `FFDirector.METH_DICT` as extracted from the sources -/
def ffTab : List Entry := C13.Gen.ffKeys.map fun (p, m, c) => { path := p, method := m, ctype := c }

/-- Bool formulation of `TabOk` -/
def tabOkB (tab : List Entry) : Bool :=
  (tab.all fun e => (decide (e.method = "_block" → e.path = ["moleculetype"])) &&
    decide (e.method = "_modification" → e.path = ["modification"])) &&
  decide (routeOf tab ["moleculetype"] = .block) && decide (routeOf tab ["modification"] = .modification)

theorem tabOk_of_B {tab : List Entry} (h : tabOkB tab = true) : TabOk tab := by
  simp only [tabOkB, Bool.and_eq_true, List.all_eq_true, decide_eq_true_eq] at h
  exact ⟨fun e he => h.1.1 e he, h.1.2, h.2⟩

theorem ffTab_ok : TabOk ffTab := tabOk_of_B (by decide +kernel)

theorem ffTab_topOk : TopOk (ffTab.map (·.path)) := by
  unfold TopOk; decide +kernel

theorem name_stable_generated_block :
    NameStableR (ffParams C13.Gen.natoms ffTab) .block "moleculetype" :=
  name_stable_ff_block _ _ ffTab_ok

theorem name_stable_generated_mod :
    NameStableR (ffParams C13.Gen.natoms ffTab) .modification "modification" :=
  name_stable_ff_mod _ _ ffTab_ok

/-- the hypothesis `NameStable` of `C13_Disp` (which quantifies over all sections for a fixed kind,
routed or not) does NOT hold for the concrete handlers: `_modification` renames whatever context it
is called with.  The dispatcher never makes this call; hence `NameStableR` and the bridge above. -/
theorem name_stable_unrelativised_fails :
    ¬ NameStable (ffParams C13.Gen.natoms ffTab) .block "moleculetype" := by
  intro h
  have hev : (ffHandle C13.Gen.natoms ffTab .block ["modification"] "X" {}).map (·.name)
      = some (some "X") := by decide +kernel
  cases hc : ffHandle C13.Gen.natoms ffTab .block ["modification"] "X" {} with
  | none => rw [hc] at hev; cases hev
  | some c' =>
    rw [hc] at hev
    have h1 : c'.name = some "X" := by simpa using hev
    have h2 : c'.name = none := h ["modification"] "X" {} c' (by decide) hc
    rw [h1] at h2
    cases h2

/-- the concrete reader: links are emitted once each, in file order, with exactly the content of
their own section; blocks and modifications are registered per name, last declaration wins -/
theorem readFF_declared_once_in_order (raw : List String) (d : Dump)
    (h : readFF C13.Gen.natoms ffTab raw = some d) :
    ∃ lines lines', classify raw = some lines ∧
      expandMacros (ffTab.map (·.path)) [] [] lines = some lines' ∧
      d.links.map (·.1) = hdrIdxs "link" 0 lines' ∧
      d.links = linkSpec (ffParams C13.Gen.natoms ffTab) [] none 0 lines' ∧
      d.blocks = dictOfList ((blockSpec (ffParams C13.Gen.natoms ffTab) [] none 0 lines').map
        (fun b => (b.2.name, b))) ∧
      d.mods = dictOfList ((modSpec (ffParams C13.Gen.natoms ffTab) [] none 0 lines').map
        (fun b => (b.2.name, b))) := by
  unfold readFF at h
  simp only [Option.bind_eq_bind, Option.bind_eq_some_iff, Option.pure_def, Option.some.injEq] at h
  obtain ⟨lines, h1, lines', h2, s, h3, rfl⟩ := h
  have hT : TopOk (ffParams C13.Gen.natoms ffTab).T := ffTab_topOk
  exact ⟨lines, lines', h1, h2,
    decl_links_once_in_order _ () lines' s hT h3,
    ff_links_spec _ () lines' s hT h3,
    ff_blocks_spec_R _ () lines' s hT name_stable_generated_block h3,
    ff_mods_spec_R _ () lines' s hT name_stable_generated_mod h3⟩

end C13
