import VermouthProofs.C12_Pool
/-! Helper lemmas for C12, part 5: folds of `merge_molecule` (MergeAllMolecules, MergeChains) and
the system layer of the state machine. -/
namespace C12

/-! ### mergeFold -/

theorem mergeFold_cons_ok (acc o : Mol) (t : List Mol) (h : (acc.merge o).2 = .ok) :
    mergeFold acc (o :: t) = mergeFold (acc.merge o).1 t := by
  cases hm : acc.merge o with
  | mk a e =>
    rw [hm] at h
    simp only at h
    subst h
    simp only [mergeFold, hm]

theorem mergeFold_cons_err (acc o : Mol) (t : List Mol) (h : (acc.merge o).2 ≠ .ok) :
    mergeFold acc (o :: t) = acc.merge o := by
  cases hm : acc.merge o with
  | mk a e =>
    rw [hm] at h
    simp only at h
    cases e <;> first | exact absurd rfl h | simp only [mergeFold, hm]

theorem mergeFold_head_ok (acc o : Mol) (t : List Mol) (h : (mergeFold acc (o :: t)).2 = .ok) :
    (acc.merge o).2 = .ok := by
  apply Classical.byContradiction
  intro hne
  rw [mergeFold_cons_err acc o t hne] at h
  exact hne h

theorem mergeFold_inv {acc : Mol} (rest : List Mol) (hacc : acc.Inv) (hrest : ∀ o ∈ rest, o.Inv) :
    (mergeFold acc rest).1.Inv := by
  induction rest generalizing acc with
  | nil => exact hacc
  | cons o t ih =>
    have ho := hrest o List.mem_cons_self
    by_cases h : (acc.merge o).2 = .ok
    · rw [mergeFold_cons_ok acc o t h]
      exact ih (merge_inv hacc ho) (fun x hx => hrest x (List.mem_cons_of_mem _ hx))
    · rw [mergeFold_cons_err acc o t h]; exact merge_inv hacc ho

theorem merge_outcome' {self other : Mol} (hs : self.Inv) (ho : other.Inv) (hl : other.LogOk) :
    (self.merge other).2 = .ok ∨ (self.merge other).2 = .valueerror := by
  by_cases hf : self.ff = other.ff
  · by_cases hn : mergeNrexcl self other = other.nrexcl
    · rw [merge_eq hs ho hf hn, mergeOut_ok hl]; exact Or.inl rfl
    · rw [merge_err (Or.inr hn)]; exact Or.inr rfl
  · rw [merge_err (Or.inl hf)]; exact Or.inr rfl

theorem mergeFold_outcome {acc : Mol} (rest : List Mol) (hacc : acc.Inv) (hrest : ∀ o ∈ rest, o.Inv)
    (hlog : ∀ o ∈ rest, o.LogOk) :
    (mergeFold acc rest).2 = .ok ∨ (mergeFold acc rest).2 = .valueerror := by
  induction rest generalizing acc with
  | nil => exact Or.inl rfl
  | cons o t ih =>
    have ho := hrest o List.mem_cons_self
    by_cases h : (acc.merge o).2 = .ok
    · rw [mergeFold_cons_ok acc o t h]
      exact ih (merge_inv hacc ho) (fun x hx => hrest x (List.mem_cons_of_mem _ hx))
        (fun x hx => hlog x (List.mem_cons_of_mem _ hx))
    · rw [mergeFold_cons_err acc o t h]
      rcases merge_outcome' hacc ho (hlog o List.mem_cons_self) with h' | h'
      · exact absurd h' h
      · exact Or.inr h'

/-- the accumulator as it is just before each operand is merged -/
def runningList (acc : Mol) : List Mol → List Mol
  | [] => []
  | o :: t => acc :: runningList (acc.merge o).1 t

theorem runningList_length (acc : Mol) (rest : List Mol) : (runningList acc rest).length = rest.length := by
  induction rest generalizing acc with
  | nil => rfl
  | cons o t ih => simp [runningList, ih]

/-- entry `k` is the result of merging the first `k` operands -/
theorem runningList_get (acc : Mol) (rest : List Mol) (k : Nat) (hk : k < rest.length)
    (hok : (mergeFold acc rest).2 = .ok) :
    (runningList acc rest)[k]? = some (mergeFold acc (rest.take k)).1 := by
  induction rest generalizing acc k with
  | nil => cases hk
  | cons o t ih =>
    have h1 := mergeFold_head_ok acc o t hok
    cases k with
    | zero => rfl
    | succ j =>
      simp only [runningList, List.getElem?_cons_succ, List.take_succ_cons]
      rw [mergeFold_cons_ok acc o _ h1]
      rw [mergeFold_cons_ok acc o t h1] at hok
      exact ih _ j (by simpa using hk) hok

/-- the nodes operand `o` contributes when merged into accumulator `a` -/
def segNodes (x : Mol × Mol) : List (Int × Attrs) :=
  newNodes x.1 x.2.offset x.2.shiftBy.1 x.2.shiftBy.2

def segInters (x : Mol × Mol) : List (String × Inter) :=
  x.1.inters.map (renameInter x.1.keys x.2.offset)

theorem newNodes_getElem? (o : Mol) (off ro co : Int) (i : Nat) :
    (newNodes o off ro co)[i]? = (o.nodes[i]?).map (fun p => (off + 1 + (i : Int), p.2.shift ro co)) := by
  unfold newNodes
  rw [enumFrom_getElem?, List.getElem?_map]
  cases o.nodes[i]? <;> rfl

theorem newNodes_length (o : Mol) (off ro co : Int) : (newNodes o off ro co).length = o.nodes.length := by
  simp [newNodes, enumFrom_length]

theorem mergeFold_nodes {acc : Mol} (rest : List Mol) (hacc : acc.Inv) (hrest : ∀ o ∈ rest, o.Inv)
    (hok : (mergeFold acc rest).2 = .ok) :
    (mergeFold acc rest).1.nodes =
      acc.nodes ++ ((rest.zip (runningList acc rest)).map segNodes).flatten := by
  induction rest generalizing acc with
  | nil => simp [mergeFold, runningList]
  | cons o t ih =>
    have ho := hrest o List.mem_cons_self
    have h1 := mergeFold_head_ok acc o t hok
    rw [mergeFold_cons_ok acc o t h1] at hok ⊢
    rw [ih (merge_inv hacc ho) (fun x hx => hrest x (List.mem_cons_of_mem _ hx)) hok]
    rw [merge_ok_eq hacc ho h1, mergeResult_nodes _ _ _ _ ho.1]
    simp only [runningList, List.zip_cons_cons, List.map_cons, List.flatten_cons, List.append_assoc]
    rw [← merge_ok_eq hacc ho h1]
    rfl

theorem mergeFold_inters {acc : Mol} (rest : List Mol) (hacc : acc.Inv) (hrest : ∀ o ∈ rest, o.Inv)
    (hok : (mergeFold acc rest).2 = .ok) :
    (mergeFold acc rest).1.inters =
      acc.inters ++ ((rest.zip (runningList acc rest)).map segInters).flatten := by
  induction rest generalizing acc with
  | nil => simp [mergeFold, runningList]
  | cons o t ih =>
    have ho := hrest o List.mem_cons_self
    have h1 := mergeFold_head_ok acc o t hok
    rw [mergeFold_cons_ok acc o t h1] at hok ⊢
    rw [ih (merge_inv hacc ho) (fun x hx => hrest x (List.mem_cons_of_mem _ hx)) hok]
    rw [merge_ok_eq hacc ho h1, mergeResult_inters]
    simp only [runningList, List.zip_cons_cons, List.map_cons, List.flatten_cons, List.append_assoc]
    rw [← merge_ok_eq hacc ho h1]
    rfl

/-- `{a, b}` is the renamed bond `e` of operand `x.1` merged into accumulator `x.2` -/
def segEdge (x : Mol × Mol) (e : Int × Int) (a b : Int) : Prop :=
  e.1 ≠ e.2 ∧
    ((a = corr x.1.keys x.2.offset e.1 ∧ b = corr x.1.keys x.2.offset e.2) ∨
     (a = corr x.1.keys x.2.offset e.2 ∧ b = corr x.1.keys x.2.offset e.1))

theorem merge_hasEdge {self other : Mol} (hs : self.Inv) (ho : other.Inv)
    (hok : (self.merge other).2 = .ok) (a b : Int) :
    (self.merge other).1.hasEdge a b = true ↔
      self.hasEdge a b = true ∨ ∃ e ∈ other.edges, segEdge (other, self) e a b := by
  rw [merge_ok_eq hs ho hok, mergeResult_hasEdge]
  apply or_congr Iff.rfl
  constructor
  · rintro ⟨e', he', h⟩
    obtain ⟨e, he, hne, rfl⟩ := (mem_renamedEdges _ _ _ _).mp he'
    exact ⟨e, he, fun eq => hne (by rw [eq]), h⟩
  · rintro ⟨e, he, hne, h⟩
    refine ⟨(corr other.keys self.offset e.1, corr other.keys self.offset e.2), ?_, h⟩
    apply (mem_renamedEdges _ _ _ _).mpr
    exact ⟨e, he, fun eq => hne (corr_inj _ _ _ _ (ho.1.2.1 e he).1 (ho.1.2.1 e he).2 eq), rfl⟩

theorem mergeFold_hasEdge {acc : Mol} (rest : List Mol) (hacc : acc.Inv) (hrest : ∀ o ∈ rest, o.Inv)
    (hok : (mergeFold acc rest).2 = .ok) (a b : Int) :
    (mergeFold acc rest).1.hasEdge a b = true ↔
      acc.hasEdge a b = true ∨
      ∃ x ∈ rest.zip (runningList acc rest), ∃ e ∈ x.1.edges, segEdge x e a b := by
  induction rest generalizing acc with
  | nil => simp [mergeFold, runningList]
  | cons o t ih =>
    have ho := hrest o List.mem_cons_self
    have h1 := mergeFold_head_ok acc o t hok
    rw [mergeFold_cons_ok acc o t h1] at hok ⊢
    rw [ih (merge_inv hacc ho) (fun x hx => hrest x (List.mem_cons_of_mem _ hx)) hok]
    rw [merge_hasEdge hacc ho h1]
    simp only [runningList, List.zip_cons_cons, List.mem_cons, exists_eq_or_imp]
    rw [or_assoc]

theorem mergeFold_nrexcl_cites {acc : Mol} (rest : List Mol) (hacc : acc.Inv) (hrest : ∀ o ∈ rest, o.Inv)
    (hok : (mergeFold acc rest).2 = .ok) :
    (∀ c, c ∈ (mergeFold acc rest).1.cites ↔ c ∈ acc.cites ∨ ∃ o ∈ rest, c ∈ o.cites) ∧
    (∀ o ∈ rest.getLast?, (mergeFold acc rest).1.nrexcl = o.nrexcl) := by
  induction rest generalizing acc with
  | nil => simp [mergeFold]
  | cons o t ih =>
    have ho := hrest o List.mem_cons_self
    have h1 := mergeFold_head_ok acc o t hok
    rw [mergeFold_cons_ok acc o t h1] at hok ⊢
    obtain ⟨i1, i2⟩ := ih (merge_inv hacc ho) (fun x hx => hrest x (List.mem_cons_of_mem _ hx)) hok
    have e := merge_ok_eq hacc ho h1
    constructor
    · intro c
      rw [i1 c]
      have : c ∈ (acc.merge o).1.cites ↔ c ∈ acc.cites ∨ c ∈ o.cites := by
        rw [e, mergeResult_cites]
        simp only [unionSet, List.mem_append, List.mem_filter, Bool.not_eq_true', List.contains_eq_mem,
          decide_eq_false_iff_not]
        by_cases h : c ∈ acc.cites <;> simp [h]
      rw [this]
      simp only [List.mem_cons, exists_eq_or_imp]
      rw [or_assoc]
    · intro x hx
      cases t with
      | nil =>
        simp only [List.getLast?_singleton, Option.mem_def, Option.some.injEq] at hx
        subst hx
        simp only [mergeFold]
        rw [e, mergeResult_nrexcl]
      | cons y t' =>
        apply i2
        simpa [List.getLast?_cons_cons] using hx

/-! ### the system layer -/

/-- every pool member satisfies the invariant and every reference of every system is valid -/
def SInv (st : State) : Prop :=
  PoolInv st.pool ∧ ∀ l ∈ st.systems, ∀ i ∈ l, i < st.pool.length

instance (st : State) : Decidable (SInv st) := by unfold SInv; exact inferInstance

theorem getMols_mem (p : Pool) (idxs : List Nat) (ms : List Mol) (h : getMols p idxs = some ms) :
    ∀ m ∈ ms, m ∈ p := by
  intro m hm
  obtain ⟨i, _, hi⟩ := mapM_option_mem _ _ _ h m hm
  exact List.mem_of_getElem? hi

theorem getMols_spec (p : Pool) (idxs : List Nat) (ms : List Mol) (h : getMols p idxs = some ms) :
    ms.length = idxs.length ∧ ∀ k (hk : k < idxs.length), p[idxs[k]]? = ms[k]? :=
  mapM_option_some _ _ _ h

theorem getMols_isSome (p : Pool) (idxs : List Nat) (h : ∀ i ∈ idxs, i < p.length) :
    ∃ ms, getMols p idxs = some ms := by
  refine ⟨idxs.map (fun i => p[i]?.getD default), ?_⟩
  apply mapM_option_eq
  intro i hi
  have := h i hi
  simp [List.getElem?_eq_getElem this]

theorem getMolsS_mem (p : Pool) (i0 : Nat) (idxs : List Nat) (ms : List (Option Mol))
    (h : getMolsS p i0 idxs = some ms) : ∀ m, some m ∈ ms → m ∈ p := by
  intro m hm
  obtain ⟨i, _, hi⟩ := mapM_option_mem _ _ _ h (some m) hm
  split at hi
  · cases hi
  · cases hp : p[i]? with
    | none => rw [hp] at hi; cases hi
    | some x =>
      rw [hp] at hi
      simp only [Option.map_some, Option.some.injEq] at hi
      subst hi
      exact List.mem_of_getElem? hp

theorem step_length_le (p : Pool) (op : Op) : p.length ≤ (step p op).1.length := by
  cases ht : op.target with
  | some i => rw [(step_frame_target p op i ht).1]; exact Nat.le_refl _
  | none =>
    rcases step_frame_append p op ht with h | ⟨m, h⟩
    · rw [h]; exact Nat.le_refl _
    · rw [h]; simp

theorem replaceSelected_mem (n : Nat) (l : List (Nat × Bool)) (d : Bool) (x : Nat)
    (h : x ∈ replaceSelected n l d) : x = n ∨ ∃ q ∈ l, q.1 = x := by
  induction l generalizing d with
  | nil => cases h
  | cons q t ih =>
    obtain ⟨i, sel⟩ := q
    unfold replaceSelected at h
    split at h
    · split at h
      · rcases ih _ h with h' | ⟨q, hq, e⟩
        · exact Or.inl h'
        · exact Or.inr ⟨q, List.mem_cons_of_mem _ hq, e⟩
      · rcases List.mem_cons.mp h with h' | h'
        · exact Or.inl h'
        · rcases ih _ h' with h'' | ⟨q, hq, e⟩
          · exact Or.inl h''
          · exact Or.inr ⟨q, List.mem_cons_of_mem _ hq, e⟩
    · rcases List.mem_cons.mp h with h' | h'
      · exact Or.inr ⟨(i, sel), List.mem_cons_self, h'.symm⟩
      · rcases ih _ h' with h'' | ⟨q, hq, e⟩
        · exact Or.inl h''
        · exact Or.inr ⟨q, List.mem_cons_of_mem _ hq, e⟩

theorem freshMerged_inv (n : Option Int) (ff : Option String) : (freshMerged n ff).Inv := by
  apply Mol.inv_of_wf_none _ rfl
  refine ⟨List.nodup_nil, ?_, ?_⟩
  · intro e he; cases he
  · intro ti hti; cases hti

theorem systems_set_valid {systems : List (List Nat)} {n : Nat}
    (h : ∀ l ∈ systems, ∀ i ∈ l, i < n) (s : Nat) (l' : List Nat) (hl' : ∀ i ∈ l', i < n) :
    ∀ l ∈ systems.set s l', ∀ i ∈ l, i < n := by
  intro l hl i hi
  rcases List.mem_or_eq_of_mem_set hl with hl | rfl
  · exact h l hl i hi
  · exact hl' i hi

/-! #### force fields: `molecule._force_field = value` touches nothing but the force field -/

/-- a molecule without its force field -/
def Mol.noFF (m : Mol) : Mol := { m with ff := none }

theorem setFF_inv {m : Mol} (h : m.Inv) (f : Option String) : ({ m with ff := f } : Mol).Inv := h

theorem setFFs_length (p : Pool) (idxs : List Nat) (f : Option String) : (setFFs p idxs f).length = p.length := by
  unfold setFFs
  induction idxs generalizing p with
  | nil => rfl
  | cons k t ih =>
    simp only [List.foldl_cons]
    rw [ih]
    split
    · simp
    · rfl

theorem setFFs_inv {p : Pool} (h : PoolInv p) (idxs : List Nat) (f : Option String) : PoolInv (setFFs p idxs f) := by
  unfold setFFs
  induction idxs generalizing p with
  | nil => exact h
  | cons k t ih =>
    simp only [List.foldl_cons]
    apply ih
    split
    · rename_i x hx; exact poolInv_set h k _ (setFF_inv (poolInv_get h k x hx) f)
    · exact h

theorem setFFs_get_of_not_mem (p : Pool) (idxs : List Nat) (f : Option String) (j : Nat) (hj : j ∉ idxs) :
    (setFFs p idxs f)[j]? = p[j]? := by
  unfold setFFs
  induction idxs generalizing p with
  | nil => rfl
  | cons k t ih =>
    simp only [List.foldl_cons]
    rw [ih _ (fun h => hj (List.mem_cons_of_mem _ h))]
    split
    · exact List.getElem?_set_ne (fun e => hj (by rw [← e]; exact List.mem_cons_self))
    · rfl

theorem setFFs_noFF (p : Pool) (idxs : List Nat) (f : Option String) (j : Nat) :
    ((setFFs p idxs f)[j]?).map Mol.noFF = (p[j]?).map Mol.noFF := by
  unfold setFFs
  induction idxs generalizing p with
  | nil => rfl
  | cons k t ih =>
    simp only [List.foldl_cons]
    rw [ih]
    split
    · rename_i x hx
      by_cases e : k = j
      · subst e
        have hlt : k < p.length := by
          apply Classical.byContradiction; intro hlt
          rw [List.getElem?_eq_none (by omega)] at hx; cases hx
        rw [List.getElem?_set_self hlt, hx]; rfl
      · rw [List.getElem?_set_ne e]
    · rfl

theorem mergeFoldS_inv {acc : Mol} (rest : List (Option Mol)) (hacc : acc.Inv)
    (hrest : ∀ o, some o ∈ rest → o.Inv) : (mergeFoldS acc rest).1.Inv := by
  induction rest generalizing acc with
  | nil => exact hacc
  | cons o t ih =>
    have hstep : (mergeS acc o).1.Inv := by
      cases o with
      | none => exact selfMerge_inv hacc
      | some x => exact merge_inv hacc (hrest x List.mem_cons_self)
    unfold mergeFoldS
    cases hm : mergeS acc o with
    | mk a e =>
      rw [hm] at hstep
      cases e <;> first
        | exact ih hstep (fun x hx => hrest x (List.mem_cons_of_mem _ hx))
        | exact hstep

theorem lt_of_getElem?_some {α : Type} {l : List α} {i : Nat} {x : α} (h : l[i]? = some x) : i < l.length := by
  apply Classical.byContradiction; intro hlt
  rw [List.getElem?_eq_none (by omega)] at h; cases h

theorem sstep_inv {st : State} (h : SInv st) (op : SOp)
    (hsafe : ∀ op', op = .mol op' → op'.safe st.pool = true) : SInv (sstep st op).1 := by
  obtain ⟨hp, hs⟩ := h
  cases op with
  | mol op =>
    refine ⟨step_inv hp op (hsafe op rfl), ?_⟩
    intro l hl i hi
    exact Nat.lt_of_lt_of_le (hs l hl i hi) (step_length_le st.pool op)
  | newSys ff =>
    refine ⟨hp, ?_⟩
    intro l hl i hi
    rcases List.mem_append.mp hl with hl | hl
    · exact hs l hl i hi
    · rw [List.mem_singleton.mp hl] at hi; cases hi
  | addMol s i =>
    simp only [sstep]
    cases hsys : st.systems[s]? with
    | none => exact ⟨hp, hs⟩
    | some l =>
      cases hm : st.pool[i]? with
      | none => exact ⟨hp, hs⟩
      | some m =>
        dsimp only
        split
        · exact ⟨hp, hs⟩
        · have hp1 : PoolInv (st.pool.set i { m with ff := takeFF (st.ffOf s) m.ff }) :=
            poolInv_set hp i _ (setFF_inv (poolInv_get hp i m hm) _)
          have hi : i < st.pool.length := lt_of_getElem?_some hm
          refine ⟨?_, ?_⟩
          · dsimp only
            split
            · exact setFFs_inv hp1 _ _
            · exact hp1
          · dsimp only
            have hlen : ∀ q : Pool, q.length = st.pool.length →
                ∀ l' ∈ st.systems.set s (l ++ [i]), ∀ j ∈ l', j < q.length := by
              intro q hq
              rw [hq]
              apply systems_set_valid hs
              intro j hj
              rcases List.mem_append.mp hj with hj | hj
              · exact hs l (List.mem_of_getElem? hsys) j hj
              · rw [List.mem_singleton.mp hj]; exact hi
            split
            · exact hlen _ (by rw [setFFs_length]; simp)
            · exact hlen _ (by simp)
  | copySys s =>
    simp only [sstep]
    cases hsys : st.systems[s]? with
    | none => exact ⟨hp, hs⟩
    | some l =>
      dsimp only
      cases hg : getMols st.pool l with
      | none => exact ⟨hp, hs⟩
      | some ms =>
        refine ⟨?_, ?_⟩
        · intro m hm
          rcases List.mem_append.mp hm with hm | hm
          · exact hp m hm
          · obtain ⟨m0, hm0, rfl⟩ := List.mem_map.mp hm
            exact setFF_inv (copy_inv (hp m0 (getMols_mem _ _ _ hg m0 hm0))) _
        · intro l' hl' i hi
          simp only [List.length_append, List.length_map]
          rcases List.mem_append.mp hl' with hl' | hl'
          · have := hs l' hl' i hi; omega
          · rw [List.mem_singleton.mp hl'] at hi
            have := List.mem_range'_1.mp hi; omega
  | mergeAll s =>
    simp only [sstep]
    cases hsys : st.systems[s]? with
    | none => exact ⟨hp, hs⟩
    | some l =>
      cases l with
      | nil => exact ⟨hp, hs⟩
      | cons i0 rest =>
        dsimp only
        have hfin : ∀ (r : Mol × Outcome), r.1.Inv → st.pool[i0]?.isSome →
            SInv { st with pool := st.pool.set i0 r.1,
                           systems := if r.2 = .ok then st.systems.set s [i0] else st.systems } := by
          intro r hr hm
          refine ⟨poolInv_set hp i0 _ hr, ?_⟩
          simp only [List.length_set]
          split
          · apply systems_set_valid hs
            intro j hj
            rw [List.mem_singleton.mp hj]
            obtain ⟨x, hx⟩ := Option.isSome_iff_exists.mp hm
            exact lt_of_getElem?_some hx
          · exact hs
        split
        · cases hm : st.pool[i0]? with
          | none => exact ⟨hp, hs⟩
          | some m0 =>
            cases hg : getMolsS st.pool i0 rest with
            | none => exact ⟨hp, hs⟩
            | some ms =>
              dsimp only
              exact hfin _ (mergeFoldS_inv ms (poolInv_get hp i0 m0 hm)
                (fun o ho => hp o (getMolsS_mem _ _ _ _ hg o ho))) (by rw [hm]; rfl)
        · cases hm : st.pool[i0]? with
          | none => exact ⟨hp, hs⟩
          | some m0 =>
            cases hg : getMols st.pool rest with
            | none => exact ⟨hp, hs⟩
            | some ms =>
              dsimp only
              exact hfin _ (mergeFold_inv ms (poolInv_get hp i0 m0 hm)
                (fun o ho => hp o (getMols_mem _ _ _ hg o ho))) (by rw [hm]; rfl)
  | mergeChains s chains all =>
    simp only [sstep]
    cases hsys : st.systems[s]? with
    | none => exact ⟨hp, hs⟩
    | some l =>
      dsimp only
      split
      · exact ⟨hp, hs⟩
      · cases hg : getMols st.pool l with
        | none => exact ⟨hp, hs⟩
        | some ms =>
          dsimp only
          split
          · exact ⟨hp, hs⟩
          · rename_i f b more hsel
            split
            · refine ⟨?_, ?_⟩
              · apply poolInv_append hp
                apply mergeFold_inv _ (freshMerged_inv _ _)
                have hsub : ∀ x ∈ (f, b) :: more, x.1 ∈ st.pool := by
                  intro x hx
                  rw [← hsel] at hx
                  have hx' := (List.mem_filter.mp hx).1
                  exact getMols_mem _ _ _ hg x.1 (List.of_mem_zip hx').1
                intro o ho
                rcases List.mem_cons.mp ho with rfl | ho
                · exact hp _ (hsub (o, b) List.mem_cons_self)
                · obtain ⟨x, hx, rfl⟩ := List.mem_map.mp ho
                  exact hp _ (hsub x (List.mem_cons_of_mem _ hx))
              · simp only [List.length_append, List.length_singleton]
                apply systems_set_valid (fun l' hl' i hi => Nat.lt_succ_of_lt (hs l' hl' i hi))
                intro i hi
                rcases replaceSelected_mem _ _ _ _ hi with rfl | ⟨q, hq, rfl⟩
                · omega
                · have := hs l (List.mem_of_getElem? hsys) q.1 (List.of_mem_zip hq).1
                  omega
            · exact ⟨hp, hs⟩

/-- a system-level history in which every molecule operation is safe where it is applied -/
def SSafeRun (st : State) : List SOp → Bool
  | [] => true
  | o :: t => (match o with
               | .mol op => op.safe st.pool
               | _ => true) && SSafeRun (sstep st o).1 t

theorem srun_inv {st : State} (h : SInv st) (ops : List SOp) (hs : SSafeRun st ops = true) : SInv (srun st ops) := by
  induction ops generalizing st with
  | nil => exact h
  | cons o t ih =>
    simp only [SSafeRun, Bool.and_eq_true] at hs
    apply ih (sstep_inv h o _) hs.2
    intro op' e
    subst e
    exact hs.1

/-! ### frame and errors of the system layer -/

/-- the pool members a system-level operation edits in place: the target of a molecule operation,
the first molecule of the system for MergeAllMolecules; `add_molecule` sets the force field of the
added molecule and — when the system had none — of every molecule already in the system (and
nothing else of them, see `add_molecule_only_ff`) -/
def SOp.targets (st : State) : SOp → List Nat
  | .mol op => op.target.toList
  | .mergeAll s => ((st.systems[s]?).bind List.head?).toList
  | .addMol s i => i :: (if (st.ffOf s).isNone then (st.systems[s]?).getD [] else [])
  | _ => []

theorem sstep_frame (st : State) (op : SOp) (j : Nat) (hj : j < st.pool.length)
    (ht : j ∉ SOp.targets st op) :
    (sstep st op).1.pool[j]? = st.pool[j]? ∧ st.pool.length ≤ (sstep st op).1.pool.length := by
  cases op with
  | mol op =>
    apply step_frame_other st.pool op j _ hj
    intro e
    apply ht
    simp only [SOp.targets, e, Option.toList_some, List.mem_singleton]
  | newSys ff => exact ⟨rfl, Nat.le_refl _⟩
  | addMol s i =>
    simp only [SOp.targets, List.mem_cons, not_or] at ht
    simp only [sstep]
    split
    · rename_i l m hl hm
      split
      · exact ⟨rfl, Nat.le_refl _⟩
      · dsimp only
        split
        · rename_i hnone
          rw [if_pos hnone, hl] at ht
          simp only [Option.getD_some] at ht
          rw [setFFs_get_of_not_mem _ _ _ _ ht.2, setFFs_length]
          exact ⟨List.getElem?_set_ne (fun e => ht.1 e.symm), by simp⟩
        · exact ⟨List.getElem?_set_ne (fun e => ht.1 e.symm), by simp⟩
    · exact ⟨rfl, Nat.le_refl _⟩
  | copySys s =>
    simp only [sstep]
    split
    · exact ⟨rfl, Nat.le_refl _⟩
    · split
      · exact ⟨rfl, Nat.le_refl _⟩
      · exact ⟨List.getElem?_append_left hj, by simp⟩
  | mergeAll s =>
    simp only [SOp.targets] at ht
    simp only [sstep]
    split
    · exact ⟨rfl, Nat.le_refl _⟩
    · exact ⟨rfl, Nat.le_refl _⟩
    · rename_i i0 rest hsys
      rw [hsys] at ht
      simp only [Option.bind_some, List.head?_cons, Option.toList_some, List.mem_singleton] at ht
      have hne : ¬ i0 = j := fun e => ht e.symm
      split
      · split
        · exact ⟨List.getElem?_set_ne hne, by simp⟩
        · exact ⟨rfl, Nat.le_refl _⟩
      · split
        · exact ⟨List.getElem?_set_ne hne, by simp⟩
        · exact ⟨rfl, Nat.le_refl _⟩
  | mergeChains s chains all =>
    simp only [sstep]
    split
    · exact ⟨rfl, Nat.le_refl _⟩
    · split
      · exact ⟨rfl, Nat.le_refl _⟩
      · split
        · exact ⟨rfl, Nat.le_refl _⟩
        · split
          · exact ⟨rfl, Nat.le_refl _⟩
          · split
            · exact ⟨List.getElem?_append_left hj, by simp⟩
            · exact ⟨rfl, Nat.le_refl _⟩

theorem srun_frame (st : State) (ops : List SOp) (j : Nat) (hj : j < st.pool.length)
    (ht : ∀ st' op, op ∈ ops → j ∉ SOp.targets st' op) :
    (srun st ops).pool[j]? = st.pool[j]? := by
  induction ops generalizing st with
  | nil => rfl
  | cons o t ih =>
    obtain ⟨h1, h2⟩ := sstep_frame st o j hj (ht st o List.mem_cons_self)
    show (srun (sstep st o).1 t).pool[j]? = st.pool[j]?
    rw [ih (sstep st o).1 (by omega) (fun st' op hop => ht st' op (List.mem_cons_of_mem _ hop)), h1]

/-- `System.add_molecule` changes nothing of any molecule but its force field -/
theorem addMol_noFF (st : State) (s i j : Nat) :
    ((sstep st (.addMol s i)).1.pool[j]?).map Mol.noFF = (st.pool[j]?).map Mol.noFF := by
  simp only [sstep]
  split
  · rename_i l m hl hm
    split
    · rfl
    · dsimp only
      have h1 : ((st.pool.set i { m with ff := takeFF (st.ffOf s) m.ff })[j]?).map Mol.noFF =
          (st.pool[j]?).map Mol.noFF := by
        by_cases e : i = j
        · subst e
          rw [List.getElem?_set_self (lt_of_getElem?_some hm), hm]; rfl
        · rw [List.getElem?_set_ne e]
      split
      · rw [setFFs_noFF, h1]
      · exact h1
  · rfl

/-- a failing system-level operation changes nothing, except `MergeAllMolecules`, which leaves
the system list alone but has already merged the operands before the offending one into the
first molecule, and the two molecule-level exceptions of `Op.failSafe` -/
theorem sstep_err (st : State) (op : SOp) (hfs : ∀ op', op = .mol op' → op'.failSafe st.pool = true)
    (h : (sstep st op).2 ≠ .ok) :
    (sstep st op).1.systems = st.systems ∧ ((∀ s, op ≠ .mergeAll s) → (sstep st op).1 = st) := by
  cases op with
  | mol op =>
    have := step_err st.pool op (hfs op rfl) h
    refine ⟨rfl, fun _ => ?_⟩
    show ({ st with pool := (step st.pool op).1 } : State) = st
    rw [this]
  | newSys ff => exact absurd rfl h
  | addMol s i =>
    simp only [sstep] at h ⊢
    split
    · rename_i l m hl hm
      rw [hl, hm] at h
      dsimp only at h ⊢
      split
      · exact ⟨rfl, fun _ => rfl⟩
      · rename_i hc; rw [if_neg hc] at h; exact absurd rfl h
    · exact ⟨rfl, fun _ => rfl⟩
  | copySys s =>
    simp only [sstep] at h ⊢
    split
    · exact ⟨rfl, fun _ => rfl⟩
    · rename_i l hl
      rw [hl] at h
      dsimp only at h
      split
      · exact ⟨rfl, fun _ => rfl⟩
      · rename_i ms hms; rw [hms] at h; exact absurd rfl h
  | mergeAll s =>
    refine ⟨?_, fun hne => absurd rfl (hne s)⟩
    simp only [sstep] at h ⊢
    split
    · rfl
    · rfl
    · rename_i i0 rest hsys
      rw [hsys] at h
      dsimp only at h
      split
      · rename_i hc
        rw [if_pos hc] at h
        split
        · rename_i m0 ms hm hg
          rw [hm, hg] at h
          dsimp only at h ⊢
          rw [if_neg h]
        · rfl
      · rename_i hc
        rw [if_neg hc] at h
        split
        · rename_i m0 ms hm hg
          rw [hm, hg] at h
          dsimp only at h ⊢
          rw [if_neg h]
        · rfl
  | mergeChains s chains all =>
    simp only [sstep] at h ⊢
    split
    · exact ⟨rfl, fun _ => rfl⟩
    · rename_i l hl
      rw [hl] at h
      dsimp only at h
      split
      · exact ⟨rfl, fun _ => rfl⟩
      · rename_i hc
        rw [if_neg hc] at h
        split
        · exact ⟨rfl, fun _ => rfl⟩
        · rename_i ms hg
          rw [hg] at h
          dsimp only at h
          split
          · rename_i hsel; rw [hsel] at h; exact absurd rfl h
          · rename_i f b more hsel
            rw [hsel] at h
            dsimp only at h
            split
            · rename_i hok; rw [if_pos hok] at h; exact absurd rfl h
            · exact ⟨rfl, fun _ => rfl⟩

/-! ### replaceSelected in closed form -/

theorem replaceSelected_done (n : Nat) (lz : List (Nat × Bool)) :
    replaceSelected n lz true = (lz.filter (fun q => !q.2)).map Prod.fst := by
  induction lz with
  | nil => rfl
  | cons q t ih =>
    obtain ⟨i, sel⟩ := q
    cases sel <;> simp [replaceSelected, ih]

theorem replaceSelected_eq (n : Nat) (lz : List (Nat × Bool)) :
    replaceSelected n lz false =
      (lz.takeWhile (fun q => !q.2)).map Prod.fst ++
        (match lz.dropWhile (fun q => !q.2) with
         | [] => []
         | _ :: rest => n :: (rest.filter (fun q => !q.2)).map Prod.fst) := by
  induction lz with
  | nil => rfl
  | cons q t ih =>
    obtain ⟨i, sel⟩ := q
    cases sel
    · simp [replaceSelected, ih]
    · simp [replaceSelected, replaceSelected_done]

theorem zip_fst_sum (f : Mol → Nat) (rest runs : List Mol) (hl : runs.length = rest.length) :
    ((rest.zip runs).map (fun x => f x.1)).sum = (rest.map f).sum := by
  induction rest generalizing runs with
  | nil => simp
  | cons o t ih =>
    cases runs with
    | nil => simp at hl
    | cons r rs =>
      simp only [List.zip_cons_cons, List.map_cons, List.sum_cons]
      rw [ih rs (by simpa using hl)]

theorem segNodes_total_length (rest runs : List Mol) (hl : runs.length = rest.length) :
    ((rest.zip runs).map (fun x => (segNodes x).length)).sum = (rest.map (fun o => o.nodes.length)).sum := by
  simp only [segNodes, newNodes_length]
  exact zip_fst_sum (fun o => o.nodes.length) rest runs hl

end C12
