import VermouthProofs.C12_Pool
/-! Helper lemmas for C12, part 5: folds of `merge_molecule` (MergeAllMolecules, MergeChains) and
the system layer of the state machine. -/
namespace C12

/-! ### mergeFold -/

theorem mergeFold_cons_ok (acc o : Mol) (t : List Mol) (h : (acc.merge o).2 = .ok) :
    mergeFold acc (o :: t) = mergeFold (acc.merge o).1 t := by
  cases hm : acc.merge o with
  | mk a e =>
    rw [hm] at h
    simp only at h
    subst h
    simp only [mergeFold, hm]

theorem mergeFold_cons_err (acc o : Mol) (t : List Mol) (h : (acc.merge o).2 ≠ .ok) :
    mergeFold acc (o :: t) = acc.merge o := by
  cases hm : acc.merge o with
  | mk a e =>
    rw [hm] at h
    simp only at h
    cases e <;> first | exact absurd rfl h | simp only [mergeFold, hm]

theorem mergeFold_head_ok (acc o : Mol) (t : List Mol) (h : (mergeFold acc (o :: t)).2 = .ok) :
    (acc.merge o).2 = .ok := by
  apply Classical.byContradiction
  intro hne
  rw [mergeFold_cons_err acc o t hne] at h
  exact hne h

theorem mergeFold_inv {acc : Mol} (rest : List Mol) (hacc : acc.Inv) (hrest : ∀ o ∈ rest, o.Inv) :
    (mergeFold acc rest).1.Inv := by
  induction rest generalizing acc with
  | nil => exact hacc
  | cons o t ih =>
    have ho := hrest o List.mem_cons_self
    by_cases h : (acc.merge o).2 = .ok
    · rw [mergeFold_cons_ok acc o t h]
      exact ih (merge_inv hacc ho) (fun x hx => hrest x (List.mem_cons_of_mem _ hx))
    · rw [mergeFold_cons_err acc o t h]; exact merge_inv hacc ho

theorem merge_outcome' {self other : Mol} (hs : self.Inv) (ho : other.Inv) :
    (self.merge other).2 = .ok ∨ (self.merge other).2 = .valueerror := by
  by_cases hn : mergeNrexcl self other = other.nrexcl
  · rw [merge_eq hs ho hn]; exact Or.inl rfl
  · rw [merge_err hn]; exact Or.inr rfl

theorem mergeFold_outcome {acc : Mol} (rest : List Mol) (hacc : acc.Inv) (hrest : ∀ o ∈ rest, o.Inv) :
    (mergeFold acc rest).2 = .ok ∨ (mergeFold acc rest).2 = .valueerror := by
  induction rest generalizing acc with
  | nil => exact Or.inl rfl
  | cons o t ih =>
    have ho := hrest o List.mem_cons_self
    by_cases h : (acc.merge o).2 = .ok
    · rw [mergeFold_cons_ok acc o t h]
      exact ih (merge_inv hacc ho) (fun x hx => hrest x (List.mem_cons_of_mem _ hx))
    · rw [mergeFold_cons_err acc o t h]
      rcases merge_outcome' hacc ho with h' | h'
      · exact absurd h' h
      · exact Or.inr h'

/-- the accumulator as it is just before each operand is merged -/
def runningList (acc : Mol) : List Mol → List Mol
  | [] => []
  | o :: t => acc :: runningList (acc.merge o).1 t

theorem runningList_length (acc : Mol) (rest : List Mol) : (runningList acc rest).length = rest.length := by
  induction rest generalizing acc with
  | nil => rfl
  | cons o t ih => simp [runningList, ih]

/-- entry `k` is the result of merging the first `k` operands -/
theorem runningList_get (acc : Mol) (rest : List Mol) (k : Nat) (hk : k < rest.length)
    (hok : (mergeFold acc rest).2 = .ok) :
    (runningList acc rest)[k]? = some (mergeFold acc (rest.take k)).1 := by
  induction rest generalizing acc k with
  | nil => cases hk
  | cons o t ih =>
    have h1 := mergeFold_head_ok acc o t hok
    cases k with
    | zero => rfl
    | succ j =>
      simp only [runningList, List.getElem?_cons_succ, List.take_succ_cons]
      rw [mergeFold_cons_ok acc o _ h1]
      rw [mergeFold_cons_ok acc o t h1] at hok
      exact ih _ j (by simpa using hk) hok

/-- the nodes operand `o` contributes when merged into accumulator `a` -/
def segNodes (x : Mol × Mol) : List (Int × Attrs) :=
  newNodes x.1 x.2.offset x.2.shiftBy.1 x.2.shiftBy.2

def segInters (x : Mol × Mol) : List (String × Inter) :=
  x.1.inters.map (renameInter x.1.keys x.2.offset)

theorem newNodes_getElem? (o : Mol) (off ro co : Int) (i : Nat) :
    (newNodes o off ro co)[i]? = (o.nodes[i]?).map (fun p => (off + 1 + (i : Int), p.2.shift ro co)) := by
  unfold newNodes
  rw [enumFrom_getElem?, List.getElem?_map]
  cases o.nodes[i]? <;> rfl

theorem newNodes_length (o : Mol) (off ro co : Int) : (newNodes o off ro co).length = o.nodes.length := by
  simp [newNodes, enumFrom_length]

theorem mergeFold_nodes {acc : Mol} (rest : List Mol) (hacc : acc.Inv) (hrest : ∀ o ∈ rest, o.Inv)
    (hok : (mergeFold acc rest).2 = .ok) :
    (mergeFold acc rest).1.nodes =
      acc.nodes ++ ((rest.zip (runningList acc rest)).map segNodes).flatten := by
  induction rest generalizing acc with
  | nil => simp [mergeFold, runningList]
  | cons o t ih =>
    have ho := hrest o List.mem_cons_self
    have h1 := mergeFold_head_ok acc o t hok
    rw [mergeFold_cons_ok acc o t h1] at hok ⊢
    rw [ih (merge_inv hacc ho) (fun x hx => hrest x (List.mem_cons_of_mem _ hx)) hok]
    rw [merge_ok_eq hacc ho h1, mergeResult_nodes _ _ _ _ ho.1]
    simp only [runningList, List.zip_cons_cons, List.map_cons, List.flatten_cons, List.append_assoc]
    rw [← merge_ok_eq hacc ho h1]
    rfl

theorem mergeFold_inters {acc : Mol} (rest : List Mol) (hacc : acc.Inv) (hrest : ∀ o ∈ rest, o.Inv)
    (hok : (mergeFold acc rest).2 = .ok) :
    (mergeFold acc rest).1.inters =
      acc.inters ++ ((rest.zip (runningList acc rest)).map segInters).flatten := by
  induction rest generalizing acc with
  | nil => simp [mergeFold, runningList]
  | cons o t ih =>
    have ho := hrest o List.mem_cons_self
    have h1 := mergeFold_head_ok acc o t hok
    rw [mergeFold_cons_ok acc o t h1] at hok ⊢
    rw [ih (merge_inv hacc ho) (fun x hx => hrest x (List.mem_cons_of_mem _ hx)) hok]
    rw [merge_ok_eq hacc ho h1, mergeResult_inters]
    simp only [runningList, List.zip_cons_cons, List.map_cons, List.flatten_cons, List.append_assoc]
    rw [← merge_ok_eq hacc ho h1]
    rfl

/-- `{a, b}` is the renamed bond `e` of operand `x.1` merged into accumulator `x.2` -/
def segEdge (x : Mol × Mol) (e : Int × Int) (a b : Int) : Prop :=
  e.1 ≠ e.2 ∧
    ((a = corr x.1.keys x.2.offset e.1 ∧ b = corr x.1.keys x.2.offset e.2) ∨
     (a = corr x.1.keys x.2.offset e.2 ∧ b = corr x.1.keys x.2.offset e.1))

theorem merge_hasEdge {self other : Mol} (hs : self.Inv) (ho : other.Inv)
    (hok : (self.merge other).2 = .ok) (a b : Int) :
    (self.merge other).1.hasEdge a b = true ↔
      self.hasEdge a b = true ∨ ∃ e ∈ other.edges, segEdge (other, self) e a b := by
  rw [merge_ok_eq hs ho hok, mergeResult_hasEdge]
  apply or_congr Iff.rfl
  constructor
  · rintro ⟨e', he', h⟩
    obtain ⟨e, he, hne, rfl⟩ := (mem_renamedEdges _ _ _ _).mp he'
    exact ⟨e, he, fun eq => hne (by rw [eq]), h⟩
  · rintro ⟨e, he, hne, h⟩
    refine ⟨(corr other.keys self.offset e.1, corr other.keys self.offset e.2), ?_, h⟩
    apply (mem_renamedEdges _ _ _ _).mpr
    exact ⟨e, he, fun eq => hne (corr_inj _ _ _ _ (ho.1.2.1 e he).1 (ho.1.2.1 e he).2 eq), rfl⟩

theorem mergeFold_hasEdge {acc : Mol} (rest : List Mol) (hacc : acc.Inv) (hrest : ∀ o ∈ rest, o.Inv)
    (hok : (mergeFold acc rest).2 = .ok) (a b : Int) :
    (mergeFold acc rest).1.hasEdge a b = true ↔
      acc.hasEdge a b = true ∨
      ∃ x ∈ rest.zip (runningList acc rest), ∃ e ∈ x.1.edges, segEdge x e a b := by
  induction rest generalizing acc with
  | nil => simp [mergeFold, runningList]
  | cons o t ih =>
    have ho := hrest o List.mem_cons_self
    have h1 := mergeFold_head_ok acc o t hok
    rw [mergeFold_cons_ok acc o t h1] at hok ⊢
    rw [ih (merge_inv hacc ho) (fun x hx => hrest x (List.mem_cons_of_mem _ hx)) hok]
    rw [merge_hasEdge hacc ho h1]
    simp only [runningList, List.zip_cons_cons, List.mem_cons, exists_eq_or_imp]
    rw [or_assoc]

theorem mergeFold_nrexcl_cites {acc : Mol} (rest : List Mol) (hacc : acc.Inv) (hrest : ∀ o ∈ rest, o.Inv)
    (hok : (mergeFold acc rest).2 = .ok) :
    (∀ c, c ∈ (mergeFold acc rest).1.cites ↔ c ∈ acc.cites ∨ ∃ o ∈ rest, c ∈ o.cites) ∧
    (∀ o ∈ rest.getLast?, (mergeFold acc rest).1.nrexcl = o.nrexcl) := by
  induction rest generalizing acc with
  | nil => simp [mergeFold]
  | cons o t ih =>
    have ho := hrest o List.mem_cons_self
    have h1 := mergeFold_head_ok acc o t hok
    rw [mergeFold_cons_ok acc o t h1] at hok ⊢
    obtain ⟨i1, i2⟩ := ih (merge_inv hacc ho) (fun x hx => hrest x (List.mem_cons_of_mem _ hx)) hok
    have e := merge_ok_eq hacc ho h1
    constructor
    · intro c
      rw [i1 c]
      have : c ∈ (acc.merge o).1.cites ↔ c ∈ acc.cites ∨ c ∈ o.cites := by
        rw [e, mergeResult_cites]
        simp only [unionSet, List.mem_append, List.mem_filter, Bool.not_eq_true', List.contains_eq_mem,
          decide_eq_false_iff_not]
        by_cases h : c ∈ acc.cites <;> simp [h]
      rw [this]
      simp only [List.mem_cons, exists_eq_or_imp]
      rw [or_assoc]
    · intro x hx
      cases t with
      | nil =>
        simp only [List.getLast?_singleton, Option.mem_def, Option.some.injEq] at hx
        subst hx
        simp only [mergeFold]
        rw [e, mergeResult_nrexcl]
      | cons y t' =>
        apply i2
        simpa [List.getLast?_cons_cons] using hx

/-! ### the system layer -/

/-- every pool member satisfies the invariant and every reference of every system is valid -/
def SInv (st : State) : Prop :=
  PoolInv st.pool ∧ ∀ l ∈ st.systems, ∀ i ∈ l, i < st.pool.length

instance (st : State) : Decidable (SInv st) := by unfold SInv; exact inferInstance

theorem getMols_mem (p : Pool) (idxs : List Nat) (ms : List Mol) (h : getMols p idxs = some ms) :
    ∀ m ∈ ms, m ∈ p := by
  intro m hm
  obtain ⟨i, _, hi⟩ := mapM_option_mem _ _ _ h m hm
  exact List.mem_of_getElem? hi

theorem getMols_spec (p : Pool) (idxs : List Nat) (ms : List Mol) (h : getMols p idxs = some ms) :
    ms.length = idxs.length ∧ ∀ k (hk : k < idxs.length), p[idxs[k]]? = ms[k]? :=
  mapM_option_some _ _ _ h

theorem getMols_isSome (p : Pool) (idxs : List Nat) (h : ∀ i ∈ idxs, i < p.length) :
    ∃ ms, getMols p idxs = some ms := by
  refine ⟨idxs.map (fun i => p[i]?.getD default), ?_⟩
  apply mapM_option_eq
  intro i hi
  have := h i hi
  simp [List.getElem?_eq_getElem this]

theorem step_length_le (p : Pool) (op : Op) : p.length ≤ (step p op).1.length := by
  cases ht : op.target with
  | some i => rw [(step_frame_target p op i ht).1]; exact Nat.le_refl _
  | none =>
    rcases step_frame_append p op ht with h | ⟨m, h⟩
    · rw [h]; exact Nat.le_refl _
    · rw [h]; simp

theorem replaceSelected_mem (n : Nat) (l : List (Nat × Bool)) (d : Bool) (x : Nat)
    (h : x ∈ replaceSelected n l d) : x = n ∨ ∃ q ∈ l, q.1 = x := by
  induction l generalizing d with
  | nil => cases h
  | cons q t ih =>
    obtain ⟨i, sel⟩ := q
    unfold replaceSelected at h
    split at h
    · split at h
      · rcases ih _ h with h' | ⟨q, hq, e⟩
        · exact Or.inl h'
        · exact Or.inr ⟨q, List.mem_cons_of_mem _ hq, e⟩
      · rcases List.mem_cons.mp h with h' | h'
        · exact Or.inl h'
        · rcases ih _ h' with h'' | ⟨q, hq, e⟩
          · exact Or.inl h''
          · exact Or.inr ⟨q, List.mem_cons_of_mem _ hq, e⟩
    · rcases List.mem_cons.mp h with h' | h'
      · exact Or.inr ⟨(i, sel), List.mem_cons_self, h'.symm⟩
      · rcases ih _ h' with h'' | ⟨q, hq, e⟩
        · exact Or.inl h''
        · exact Or.inr ⟨q, List.mem_cons_of_mem _ hq, e⟩

theorem freshMerged_inv (n : Option Int) : (freshMerged n).Inv := by
  apply Mol.inv_of_wf_none _ rfl
  refine ⟨List.nodup_nil, ?_, ?_⟩
  · intro e he; cases he
  · intro ti hti; cases hti

theorem systems_set_valid {systems : List (List Nat)} {n : Nat}
    (h : ∀ l ∈ systems, ∀ i ∈ l, i < n) (s : Nat) (l' : List Nat) (hl' : ∀ i ∈ l', i < n) :
    ∀ l ∈ systems.set s l', ∀ i ∈ l, i < n := by
  intro l hl i hi
  rcases List.mem_or_eq_of_mem_set hl with hl | rfl
  · exact h l hl i hi
  · exact hl' i hi

theorem sstep_inv {st : State} (h : SInv st) (op : SOp) : SInv (sstep st op).1 := by
  obtain ⟨hp, hs⟩ := h
  cases op with
  | mol op =>
    refine ⟨step_inv hp op, ?_⟩
    intro l hl i hi
    exact Nat.lt_of_lt_of_le (hs l hl i hi) (step_length_le st.pool op)
  | newSys =>
    refine ⟨hp, ?_⟩
    intro l hl i hi
    rcases List.mem_append.mp hl with hl | hl
    · exact hs l hl i hi
    · rw [List.mem_singleton.mp hl] at hi; cases hi
  | addMol s i =>
    simp only [sstep]
    cases hsys : st.systems[s]? with
    | none => exact ⟨hp, hs⟩
    | some l =>
      cases hm : st.pool[i]? with
      | none => exact ⟨hp, hs⟩
      | some m =>
        refine ⟨hp, systems_set_valid hs s _ ?_⟩
        intro j hj
        rcases List.mem_append.mp hj with hj | hj
        · exact hs l (List.mem_of_getElem? hsys) j hj
        · rw [List.mem_singleton.mp hj]
          apply Classical.byContradiction; intro hlt
          rw [List.getElem?_eq_none (by omega)] at hm; cases hm
  | copySys s =>
    simp only [sstep]
    cases hsys : st.systems[s]? with
    | none => exact ⟨hp, hs⟩
    | some l =>
      dsimp only
      cases hg : getMols st.pool l with
      | none => exact ⟨hp, hs⟩
      | some ms =>
        refine ⟨?_, ?_⟩
        · intro m hm
          rcases List.mem_append.mp hm with hm | hm
          · exact hp m hm
          · obtain ⟨m0, hm0, rfl⟩ := List.mem_map.mp hm
            exact copy_inv (hp m0 (getMols_mem _ _ _ hg m0 hm0))
        · intro l' hl' i hi
          simp only [List.length_append, List.length_map]
          rcases List.mem_append.mp hl' with hl' | hl'
          · have := hs l' hl' i hi; omega
          · rw [List.mem_singleton.mp hl'] at hi
            have := List.mem_range'_1.mp hi; omega
  | mergeAll s =>
    simp only [sstep]
    cases hsys : st.systems[s]? with
    | none => exact ⟨hp, hs⟩
    | some l =>
      cases l with
      | nil => exact ⟨hp, hs⟩
      | cons i0 rest =>
        dsimp only
        split
        · exact ⟨hp, hs⟩
        · cases hm : st.pool[i0]? with
          | none => exact ⟨hp, hs⟩
          | some m0 =>
            cases hg : getMols st.pool rest with
            | none => exact ⟨hp, hs⟩
            | some ms =>
              dsimp only
              have hinv := mergeFold_inv ms (poolInv_get hp i0 m0 hm)
                (fun o ho => hp o (getMols_mem _ _ _ hg o ho))
              refine ⟨poolInv_set hp i0 _ hinv, ?_⟩
              simp only [List.length_set]
              split
              · apply systems_set_valid hs
                intro j hj
                rw [List.mem_singleton.mp hj]
                apply Classical.byContradiction; intro hlt
                rw [List.getElem?_eq_none (by omega)] at hm; cases hm
              · exact hs
  | mergeChains s chains all =>
    simp only [sstep]
    cases hsys : st.systems[s]? with
    | none => exact ⟨hp, hs⟩
    | some l =>
      dsimp only
      split
      · exact ⟨hp, hs⟩
      · cases hg : getMols st.pool l with
        | none => exact ⟨hp, hs⟩
        | some ms =>
          dsimp only
          split
          · exact ⟨hp, hs⟩
          · rename_i f b more hsel
            split
            · refine ⟨?_, ?_⟩
              · apply poolInv_append hp
                apply mergeFold_inv _ (freshMerged_inv _)
                have hsub : ∀ x ∈ (f, b) :: more, x.1 ∈ st.pool := by
                  intro x hx
                  rw [← hsel] at hx
                  have hx' := (List.mem_filter.mp hx).1
                  exact getMols_mem _ _ _ hg x.1 (List.of_mem_zip hx').1
                intro o ho
                rcases List.mem_cons.mp ho with rfl | ho
                · exact hp _ (hsub (o, b) List.mem_cons_self)
                · obtain ⟨x, hx, rfl⟩ := List.mem_map.mp ho
                  exact hp _ (hsub x (List.mem_cons_of_mem _ hx))
              · simp only [List.length_append, List.length_singleton]
                apply systems_set_valid (fun l' hl' i hi => Nat.lt_succ_of_lt (hs l' hl' i hi))
                intro i hi
                rcases replaceSelected_mem _ _ _ _ hi with rfl | ⟨q, hq, rfl⟩
                · omega
                · have := hs l (List.mem_of_getElem? hsys) q.1 (List.of_mem_zip hq).1
                  omega
            · exact ⟨hp, hs⟩

theorem srun_inv {st : State} (h : SInv st) (ops : List SOp) : SInv (srun st ops) := by
  induction ops generalizing st with
  | nil => exact h
  | cons o t ih => exact ih (sstep_inv h o)

/-! ### frame and errors of the system layer -/

/-- the pool member a system-level operation edits in place -/
def SOp.target (st : State) : SOp → Option Nat
  | .mol op => op.target
  | .mergeAll s => (st.systems[s]?).bind List.head?
  | _ => none

theorem sstep_frame (st : State) (op : SOp) (j : Nat) (hj : j < st.pool.length)
    (ht : SOp.target st op ≠ some j) :
    (sstep st op).1.pool[j]? = st.pool[j]? ∧ st.pool.length ≤ (sstep st op).1.pool.length := by
  cases op with
  | mol op => exact step_frame_other st.pool op j ht hj
  | newSys => exact ⟨rfl, Nat.le_refl _⟩
  | addMol s i =>
    simp only [sstep]
    split <;> exact ⟨rfl, Nat.le_refl _⟩
  | copySys s =>
    simp only [sstep]
    split
    · exact ⟨rfl, Nat.le_refl _⟩
    · split
      · exact ⟨rfl, Nat.le_refl _⟩
      · exact ⟨List.getElem?_append_left hj, by simp⟩
  | mergeAll s =>
    simp only [SOp.target] at ht
    simp only [sstep]
    split
    · exact ⟨rfl, Nat.le_refl _⟩
    · exact ⟨rfl, Nat.le_refl _⟩
    · rename_i i0 rest hsys
      rw [hsys] at ht
      simp only [Option.bind_some, List.head?_cons, ne_eq, Option.some.injEq] at ht
      split
      · exact ⟨rfl, Nat.le_refl _⟩
      · split
        · exact ⟨List.getElem?_set_ne ht, by simp⟩
        · exact ⟨rfl, Nat.le_refl _⟩
  | mergeChains s chains all =>
    simp only [sstep]
    split
    · exact ⟨rfl, Nat.le_refl _⟩
    · split
      · exact ⟨rfl, Nat.le_refl _⟩
      · split
        · exact ⟨rfl, Nat.le_refl _⟩
        · split
          · exact ⟨rfl, Nat.le_refl _⟩
          · split
            · exact ⟨List.getElem?_append_left hj, by simp⟩
            · exact ⟨rfl, Nat.le_refl _⟩

theorem srun_frame (st : State) (ops : List SOp) (j : Nat) (hj : j < st.pool.length)
    (ht : ∀ st' op, op ∈ ops → SOp.target st' op ≠ some j) :
    (srun st ops).pool[j]? = st.pool[j]? := by
  induction ops generalizing st with
  | nil => rfl
  | cons o t ih =>
    obtain ⟨h1, h2⟩ := sstep_frame st o j hj (ht st o List.mem_cons_self)
    show (srun (sstep st o).1 t).pool[j]? = st.pool[j]?
    rw [ih (sstep st o).1 (by omega) (fun st' op hop => ht st' op (List.mem_cons_of_mem _ hop)), h1]

/-- a failing system-level operation changes nothing, except `MergeAllMolecules`, which leaves
the system list alone but has already merged the operands before the offending one into the
first molecule -/
theorem sstep_err (st : State) (op : SOp) (h : (sstep st op).2 ≠ .ok) :
    (sstep st op).1.systems = st.systems ∧ ((∀ s, op ≠ .mergeAll s) → (sstep st op).1 = st) := by
  cases op with
  | mol op =>
    have := step_err st.pool op h
    refine ⟨rfl, fun _ => ?_⟩
    show ({ st with pool := (step st.pool op).1 } : State) = st
    rw [this]
  | newSys => exact absurd rfl h
  | addMol s i =>
    simp only [sstep] at h ⊢
    split
    · rename_i l m hl hm; rw [hl, hm] at h; exact absurd rfl h
    · exact ⟨rfl, fun _ => rfl⟩
  | copySys s =>
    simp only [sstep] at h ⊢
    split
    · exact ⟨rfl, fun _ => rfl⟩
    · rename_i l hl
      rw [hl] at h
      dsimp only at h
      split
      · exact ⟨rfl, fun _ => rfl⟩
      · rename_i ms hms; rw [hms] at h; exact absurd rfl h
  | mergeAll s =>
    refine ⟨?_, fun hne => absurd rfl (hne s)⟩
    simp only [sstep] at h ⊢
    split
    · rfl
    · rfl
    · rename_i i0 rest hsys
      rw [hsys] at h
      dsimp only at h
      split
      · rfl
      · rename_i hc
        rw [if_neg hc] at h
        split
        · rename_i m0 ms hm hg
          rw [hm, hg] at h
          dsimp only at h ⊢
          rw [if_neg h]
        · rfl
  | mergeChains s chains all =>
    simp only [sstep] at h ⊢
    split
    · exact ⟨rfl, fun _ => rfl⟩
    · rename_i l hl
      rw [hl] at h
      dsimp only at h
      split
      · exact ⟨rfl, fun _ => rfl⟩
      · rename_i hc
        rw [if_neg hc] at h
        split
        · exact ⟨rfl, fun _ => rfl⟩
        · rename_i ms hg
          rw [hg] at h
          dsimp only at h
          split
          · rename_i hsel; rw [hsel] at h; exact absurd rfl h
          · rename_i f b more hsel
            rw [hsel] at h
            dsimp only at h
            split
            · rename_i hok; rw [if_pos hok] at h; exact absurd rfl h
            · exact ⟨rfl, fun _ => rfl⟩

/-! ### replaceSelected in closed form -/

theorem replaceSelected_done (n : Nat) (lz : List (Nat × Bool)) :
    replaceSelected n lz true = (lz.filter (fun q => !q.2)).map Prod.fst := by
  induction lz with
  | nil => rfl
  | cons q t ih =>
    obtain ⟨i, sel⟩ := q
    cases sel <;> simp [replaceSelected, ih]

theorem replaceSelected_eq (n : Nat) (lz : List (Nat × Bool)) :
    replaceSelected n lz false =
      (lz.takeWhile (fun q => !q.2)).map Prod.fst ++
        (match lz.dropWhile (fun q => !q.2) with
         | [] => []
         | _ :: rest => n :: (rest.filter (fun q => !q.2)).map Prod.fst) := by
  induction lz with
  | nil => rfl
  | cons q t ih =>
    obtain ⟨i, sel⟩ := q
    cases sel
    · simp [replaceSelected, ih]
    · simp [replaceSelected, replaceSelected_done]

theorem zip_fst_sum (f : Mol → Nat) (rest runs : List Mol) (hl : runs.length = rest.length) :
    ((rest.zip runs).map (fun x => f x.1)).sum = (rest.map f).sum := by
  induction rest generalizing runs with
  | nil => simp
  | cons o t ih =>
    cases runs with
    | nil => simp at hl
    | cons r rs =>
      simp only [List.zip_cons_cons, List.map_cons, List.sum_cons]
      rw [ih rs (by simpa using hl)]

theorem segNodes_total_length (rest runs : List Mol) (hl : runs.length = rest.length) :
    ((rest.zip runs).map (fun x => (segNodes x).length)).sum = (rest.map (fun o => o.nodes.length)).sum := by
  simp only [segNodes, newNodes_length]
  exact zip_fst_sum (fun o => o.nodes.length) rest runs hl

end C12
