import VermouthModel.C01
/-! C01 — the processing order of the placements: a permutation of the matches, sorted by lowest
atom key, ties in reversed order of discovery. -/
namespace C01

theorem insertDesc_perm (x : Placement) (l : List Placement) : (insertDesc x l).Perm (x :: l) := by
  induction l with
  | nil => exact List.Perm.refl _
  | cons y ys ih =>
    unfold insertDesc
    split
    · exact List.Perm.refl _
    · exact (List.Perm.cons y ih).trans (List.Perm.swap x y ys)

theorem sortDesc_perm (l : List Placement) : (sortDesc l).Perm l := by
  induction l with
  | nil => exact List.Perm.refl _
  | cons x xs ih =>
    unfold sortDesc
    exact (insertDesc_perm x _).trans (List.Perm.cons x ih)

theorem order_perm' (ps : List Placement) : (order ps).Perm ps :=
  (List.reverse_perm _).trans (sortDesc_perm ps)

/-- descending -/
def Desc (l : List Placement) : Prop := l.Pairwise (fun a b => minKey b ≤ minKey a)

theorem insertDesc_desc (x : Placement) (l : List Placement) (h : Desc l) : Desc (insertDesc x l) := by
  induction l with
  | nil => simp [insertDesc, Desc]
  | cons y ys ih =>
    unfold insertDesc
    have hy := List.pairwise_cons.1 h
    split
    · rename_i hle
      refine List.pairwise_cons.2 ⟨?_, h⟩
      intro z hz
      rcases List.mem_cons.1 hz with rfl | hz
      · exact hle
      · exact Int.le_trans (hy.1 z hz) hle
    · rename_i hnle
      refine List.pairwise_cons.2 ⟨?_, ih hy.2⟩
      intro z hz
      rcases List.mem_cons.1 ((insertDesc_perm x ys).subset hz) with rfl | hz
      · omega
      · exact hy.1 z hz

theorem sortDesc_desc (l : List Placement) : Desc (sortDesc l) := by
  induction l with
  | nil => simp [sortDesc, Desc]
  | cons x xs ih => unfold sortDesc; exact insertDesc_desc x _ ih

theorem order_sorted' (ps : List Placement) :
    (order ps).Pairwise (fun a b => minKey a ≤ minKey b) := by
  unfold order
  rw [List.pairwise_reverse]
  exact sortDesc_desc ps

/-- stability: the placements with a given lowest key keep their order of discovery in the sorted
list … -/
theorem insertDesc_filter (x : Placement) (l : List Placement) (h : Desc l) (k : Int) :
    (insertDesc x l).filter (fun p => minKey p == k) = (x :: l).filter (fun p => minKey p == k) := by
  induction l with
  | nil => simp [insertDesc]
  | cons y ys ih =>
    unfold insertDesc
    have hy := List.pairwise_cons.1 h
    split
    · rfl
    · rename_i hnle
      by_cases hx : minKey x = k
      · -- y has a strictly larger key than x, so y is filtered out
        have hyk : (minKey y == k) = false := by
          simp only [beq_eq_false_iff_ne, ne_eq]; omega
        simp only [List.filter_cons, hyk, ih hy.2]
        simp
      · have hxk : (minKey x == k) = false := by simpa using hx
        simp only [List.filter_cons, ih hy.2, hxk]
        simp

theorem sortDesc_filter (l : List Placement) (k : Int) :
    (sortDesc l).filter (fun p => minKey p == k) = l.filter (fun p => minKey p == k) := by
  induction l with
  | nil => simp [sortDesc]
  | cons x xs ih =>
    unfold sortDesc
    rw [insertDesc_filter x _ (sortDesc_desc xs) k]
    simp only [List.filter_cons, ih]

/-- … and are therefore processed in reversed order of discovery. -/
theorem order_ties' (ps : List Placement) (k : Int) :
    (order ps).filter (fun p => minKey p == k) = (ps.filter (fun p => minKey p == k)).reverse := by
  unfold order
  rw [List.filter_reverse, sortDesc_filter]

end C01
