import VermouthModel.C01_Attr
/-! C01 — the attribute loop: dictionaries, `writeAttr`, the grouped value lists. -/
namespace C01

/-! ### `"_old_" + attr` -/

theorem stashKey_inj {a b : String} (h : stashKey a = stashKey b) : a = b := by
  have := congrArg String.toList h
  simp only [stashKey, String.toList_append] at this
  exact String.toList_inj.1 (List.append_cancel_left this)

theorem stashKey_ne (a : String) : stashKey a ≠ a := by
  intro h
  have := congrArg String.length h
  simp [stashKey, String.length_append] at this

/-! ### dictionaries -/

theorem dget_dsetA_same (d : AttrD) (k : String) (v : Val) : dget (dsetA d k v) k = some v := by
  induction d with
  | nil => simp [dsetA, dget]
  | cons x r ih =>
    obtain ⟨k', v'⟩ := x
    unfold dsetA
    by_cases h : k' = k
    · simp [h, dget]
    · simp [h, dget, ih]

theorem dget_dsetA_ne (d : AttrD) (k k' : String) (v : Val) (h : k' ≠ k) : dget (dsetA d k v) k' = dget d k' := by
  induction d with
  | nil => simp [dsetA, dget, Ne.symm h]
  | cons x r ih =>
    obtain ⟨k0, v0⟩ := x
    unfold dsetA
    by_cases h0 : k0 = k
    · subst h0
      simp only [if_true, dget, Ne.symm h, if_false]
    · simp only [h0, if_false, dget, ih]

theorem keys_dsetA (d : AttrD) (k : String) (v : Val) :
    (dsetA d k v).map Prod.fst = if k ∈ d.map Prod.fst then d.map Prod.fst else d.map Prod.fst ++ [k] := by
  induction d with
  | nil => simp [dsetA]
  | cons x r ih =>
    obtain ⟨k0, v0⟩ := x
    unfold dsetA
    by_cases h0 : k0 = k
    · subst h0; simp
    · simp only [h0, if_false, List.map_cons, ih, List.mem_cons]
      have : ¬ k = k0 := fun h => h0 h.symm
      by_cases hm : k ∈ r.map Prod.fst
      · simp [hm]
      · simp [hm, this]

theorem nodup_dsetA (d : AttrD) (k : String) (v : Val) (h : (d.map Prod.fst).Nodup) :
    ((dsetA d k v).map Prod.fst).Nodup := by
  rw [keys_dsetA]
  split
  · exact h
  · rename_i hk
    exact List.nodup_append.2 ⟨h, (by simp), by
      intro a ha b hb
      simp only [List.mem_singleton] at hb
      subst hb
      exact fun hab => hk (hab ▸ ha)⟩

theorem nodup_dupdate (d new : AttrD) (h : (d.map Prod.fst).Nodup) : ((dupdate d new).map Prod.fst).Nodup := by
  unfold dupdate
  induction new generalizing d with
  | nil => exact h
  | cons x r ih => exact ih _ (nodup_dsetA d x.1 x.2 h)

/-- the input dictionary really is one -/
def AtomWF (a : AtomX) : Prop := (a.attrs.map Prod.fst).Nodup

instance (a : AtomX) : Decidable (AtomWF a) := by unfold AtomWF; infer_instance

theorem nodup_attrsFromNode (c : Cfg) (a : AtomX) (h : AtomWF a) : ((attrsFromNode c a).map Prod.fst).Nodup := by
  unfold attrsFromNode
  have key : ∀ d : AttrD, (d.map Prod.fst).Nodup → ((d.filter (fun kv => c.all.contains kv.1)).map Prod.fst).Nodup := by
    intro d hd
    exact (List.Sublist.map Prod.fst List.filter_sublist).nodup hd
  cases a.replace with
  | none => exact key _ h
  | some r => exact key _ (nodup_dupdate _ _ h)

theorem mem_of_dget (d : AttrD) (k : String) (v : Val) (h : dget d k = some v) : (k, v) ∈ d := by
  induction d with
  | nil => cases h
  | cons x r ih =>
    obtain ⟨k0, v0⟩ := x
    unfold dget at h
    by_cases h0 : k0 = k
    · simp only [h0, if_true, Option.some.injEq] at h
      subst h0; subst h
      exact List.mem_cons_self
    · simp only [h0, if_false] at h
      exact List.mem_cons_of_mem _ (ih h)

theorem dget_of_mem (d : AttrD) (k : String) (v : Val) (hnd : (d.map Prod.fst).Nodup) (h : (k, v) ∈ d) :
    dget d k = some v := by
  induction d with
  | nil => cases h
  | cons x r ih =>
    obtain ⟨k0, v0⟩ := x
    simp only [List.map_cons, List.nodup_cons] at hnd
    unfold dget
    rcases List.mem_cons.1 h with h | h
    · cases h; simp
    · have : k0 ≠ k := by
        rintro rfl
        exact hnd.1 (List.mem_map.2 ⟨(k0, v), h, rfl⟩)
      simp only [this, if_false]
      exact ih hnd.2 h

theorem dget_none_iff (d : AttrD) (k : String) : dget d k = none ↔ k ∉ d.map Prod.fst := by
  induction d with
  | nil => simp [dget]
  | cons x r ih =>
    obtain ⟨k0, v0⟩ := x
    unfold dget
    by_cases h0 : k0 = k
    · simp [h0]
    · simp only [h0, if_false, ih, List.map_cons, List.mem_cons]
      constructor
      · rintro h (h' | h')
        · exact h0 h'.symm
        · exact h h'
      · intro h h'
        exact h (Or.inr h')

/-! ### `writeAttr` -/

theorem dget_writeAttr_other (c : Cfg) (node : AttrD) (k A : String) (v : Val) (h1 : A ≠ k)
    (h2 : c.stash.contains k = true → stashKey k ≠ A) : dget (writeAttr c node k v) A = dget node A := by
  unfold writeAttr
  simp only
  have hfirst : dget (if (c.keep.contains k || !hasKey node k) = true then dsetA node k v else node) A = dget node A := by
    split
    · exact dget_dsetA_ne _ _ _ _ h1
    · rfl
  split
  · rename_i hs
    rw [dget_dsetA_ne _ _ _ _ (Ne.symm (h2 hs)), hfirst]
  · exact hfirst

theorem dget_writeAttr_same (c : Cfg) (node : AttrD) (k : String) (v : Val) :
    dget (writeAttr c node k v) k = if (c.keep.contains k || !(hasKey node k)) = true then some v else dget node k := by
  unfold writeAttr
  simp only
  have hfirst : dget (if (c.keep.contains k || !hasKey node k) = true then dsetA node k v else node) k
      = if (c.keep.contains k || !(hasKey node k)) = true then some v else dget node k := by
    split
    · exact dget_dsetA_same _ _ _
    · rfl
  split
  · rw [dget_dsetA_ne _ _ _ _ (Ne.symm (stashKey_ne k)), hfirst]
  · exact hfirst

theorem dget_writeAttr_stash (c : Cfg) (node : AttrD) (k : String) (v : Val) (h : c.stash.contains k = true) :
    dget (writeAttr c node k v) (stashKey k) = some v := by
  unfold writeAttr
  simp only [h, if_true]
  exact dget_dsetA_same _ _ _

/-! ### a whole pass (`refLoop`; `consLoop` is the same pass over the heads of the groups) -/

theorem refLoop_absent (c : Cfg) (node : AttrD) (L : AttrD) (A : String) (hA : A ∉ L.map Prod.fst)
    (hc : ∀ kv ∈ L, c.stash.contains kv.1 = true → stashKey kv.1 ≠ A) : dget (refLoop c node L) A = dget node A := by
  unfold refLoop
  induction L generalizing node with
  | nil => rfl
  | cons x r ih =>
    simp only [List.foldl_cons]
    rw [ih _ (fun h => hA (by simp only [List.map_cons]; exact List.mem_cons_of_mem _ h))
      (fun kv hkv => hc kv (List.mem_cons_of_mem _ hkv))]
    apply dget_writeAttr_other
    · intro h
      exact hA (by simp [h])
    · exact hc x List.mem_cons_self

theorem refLoop_present (c : Cfg) (node : AttrD) (L : AttrD) (A : String) (v : Val)
    (hnd : (L.map Prod.fst).Nodup) (hmem : (A, v) ∈ L)
    (hc : ∀ kv ∈ L, c.stash.contains kv.1 = true → stashKey kv.1 ≠ A) :
    dget (refLoop c node L) A = if (c.keep.contains A || !(hasKey node A)) = true then some v else dget node A := by
  induction L generalizing node with
  | nil => cases hmem
  | cons x r ih =>
    simp only [List.map_cons, List.nodup_cons] at hnd
    unfold refLoop
    simp only [List.foldl_cons]
    rcases List.mem_cons.1 hmem with h | h
    · subst h
      have := refLoop_absent c (writeAttr c node A v) r A hnd.1 (fun kv hkv => hc kv (List.mem_cons_of_mem _ hkv))
      unfold refLoop at this
      rw [this]
      exact dget_writeAttr_same c node A v
    · have hne : A ≠ x.1 := by
        rintro rfl
        exact hnd.1 (List.mem_map.2 ⟨(x.1, v), h, rfl⟩)
      have hstep : dget (writeAttr c node x.1 x.2) A = dget node A :=
        dget_writeAttr_other c node x.1 A x.2 hne (hc x List.mem_cons_self)
      have := ih (writeAttr c node x.1 x.2) hnd.2 h (fun kv hkv => hc kv (List.mem_cons_of_mem _ hkv))
      unfold refLoop at this
      rw [this, hstep]
      have hk : hasKey (writeAttr c node x.1 x.2) A = hasKey node A := by simp only [hasKey, hstep]
      rw [hk]

theorem refLoop_stash (c : Cfg) (node : AttrD) (L : AttrD) (s : String) (v : Val)
    (hnd : (L.map Prod.fst).Nodup) (hmem : (s, v) ∈ L) (hs : c.stash.contains s = true)
    (hfree : stashKey s ∉ L.map Prod.fst) : dget (refLoop c node L) (stashKey s) = some v := by
  induction L generalizing node with
  | nil => cases hmem
  | cons x r ih =>
    simp only [List.map_cons, List.nodup_cons] at hnd
    have hfree' : stashKey s ∉ r.map Prod.fst := fun h => hfree (by simp only [List.map_cons]; exact List.mem_cons_of_mem _ h)
    unfold refLoop
    simp only [List.foldl_cons]
    rcases List.mem_cons.1 hmem with h | h
    · subst h
      have := refLoop_absent c (writeAttr c node s v) r (stashKey s) hfree' (by
        intro kv hkv _ heq
        have : kv.1 = s := stashKey_inj heq
        exact hnd.1 (this ▸ List.mem_map.2 ⟨kv, hkv, rfl⟩))
      unfold refLoop at this
      rw [this]
      exact dget_writeAttr_stash c node s v hs
    · have := ih (writeAttr c node x.1 x.2) hnd.2 h hfree'
      unfold refLoop at this
      exact this

/-! ### the grouped values -/

/-- the value list of attribute `A` (`[]` when there is none) -/
def gget (g : List (String × List Val)) (A : String) : List Val :=
  match g with
  | [] => []
  | (k, vs) :: r => if k = A then vs else gget r A

theorem gget_groupAdd (g : List (String × List Val)) (k A : String) (v : Val) :
    gget (groupAdd g k v) A = if k = A then gget g A ++ [v] else gget g A := by
  induction g with
  | nil =>
    unfold groupAdd
    by_cases h : k = A <;> simp [gget, h]
  | cons x r ih =>
    obtain ⟨k0, vs⟩ := x
    unfold groupAdd
    by_cases h0 : k0 = k
    · subst h0
      by_cases h : k0 = A <;> simp [gget, h]
    · simp only [h0, if_false, gget, ih]
      by_cases h1 : k0 = A
      · have : ¬ k = A := fun h => h0 (h1.trans h.symm)
        simp [h1, this]
      · simp [h1]

theorem gkeys_groupAdd (g : List (String × List Val)) (k : String) (v : Val) :
    (groupAdd g k v).map Prod.fst = if k ∈ g.map Prod.fst then g.map Prod.fst else g.map Prod.fst ++ [k] := by
  induction g with
  | nil => simp [groupAdd]
  | cons x r ih =>
    obtain ⟨k0, vs⟩ := x
    unfold groupAdd
    by_cases h0 : k0 = k
    · subst h0; simp
    · simp only [h0, if_false, List.map_cons, ih, List.mem_cons]
      have : ¬ k = k0 := fun h => h0 h.symm
      by_cases hm : k ∈ r.map Prod.fst
      · simp [hm]
      · simp [hm, this]

/-- keys distinct, no empty group -/
def GroupsOK (g : List (String × List Val)) : Prop := (g.map Prod.fst).Nodup ∧ ∀ kv ∈ g, kv.2 ≠ []

theorem groupsOK_groupAdd (g : List (String × List Val)) (k : String) (v : Val) (h : GroupsOK g) :
    GroupsOK (groupAdd g k v) := by
  constructor
  · rw [gkeys_groupAdd]
    split
    · exact h.1
    · rename_i hk
      exact List.nodup_append.2 ⟨h.1, (by simp), by
        intro a ha b hb
        simp only [List.mem_singleton] at hb
        subst hb
        exact fun hab => hk (hab ▸ ha)⟩
  · have h2 := h.2
    clear h
    induction g with
    | nil =>
      intro kv hkv
      simp only [groupAdd, List.mem_singleton] at hkv
      subst hkv; simp
    | cons x r ih =>
      obtain ⟨k0, vs⟩ := x
      intro kv hkv
      unfold groupAdd at hkv
      by_cases h0 : k0 = k
      · simp only [h0, if_true, List.mem_cons] at hkv
        rcases hkv with rfl | hkv
        · simp
        · exact h2 kv (List.mem_cons_of_mem _ hkv)
      · simp only [h0, if_false, List.mem_cons] at hkv
        rcases hkv with rfl | hkv
        · exact h2 _ List.mem_cons_self
        · exact ih (fun kv hkv => h2 kv (List.mem_cons_of_mem _ hkv)) kv hkv

theorem foldl_groupAdd (d : AttrD) (g : List (String × List Val)) (A : String) (hg : GroupsOK g) :
    gget (d.foldl (fun g kv => groupAdd g kv.1 kv.2) g) A = gget g A ++ (d.filter (fun kv => kv.1 = A)).map Prod.snd
    ∧ GroupsOK (d.foldl (fun g kv => groupAdd g kv.1 kv.2) g) := by
  induction d generalizing g with
  | nil => simp [hg]
  | cons x r ih =>
    simp only [List.foldl_cons]
    obtain ⟨h1, h2⟩ := ih (groupAdd g x.1 x.2) (groupsOK_groupAdd g x.1 x.2 hg)
    refine ⟨?_, h2⟩
    rw [h1, gget_groupAdd]
    by_cases hx : x.1 = A
    · simp [hx]
    · simp [hx]

theorem filter_key_of_nodup (d : AttrD) (A : String) (hnd : (d.map Prod.fst).Nodup) :
    (d.filter (fun kv => kv.1 = A)).map Prod.snd = (dget d A).toList := by
  induction d with
  | nil => rfl
  | cons x r ih =>
    obtain ⟨k0, v0⟩ := x
    simp only [List.map_cons, List.nodup_cons] at hnd
    unfold dget
    by_cases h0 : k0 = A
    · subst h0
      have : r.filter (fun kv => kv.1 = k0) = [] := by
        rw [List.filter_eq_nil_iff]
        intro kv hkv
        simp only [decide_eq_true_eq]
        intro h
        exact hnd.1 (h ▸ List.mem_map.2 ⟨kv, hkv, rfl⟩)
      simp [List.filter_cons, this]
    · simp only [List.filter_cons, h0, decide_false, Bool.false_eq_true, if_false]
      exact ih hnd.2

/-- the values of attribute `A` the atoms carry (after their `replace`), in order -/
def srcVals (c : Cfg) (srcs : List AtomX) (A : String) : List Val :=
  srcs.flatMap (fun a => (dget (attrsFromNode c a) A).toList)

theorem collect_spec (c : Cfg) (atoms : List AtomX) (hwf : ∀ a ∈ atoms, AtomWF a) (g0 : List (String × List Val))
    (hg : GroupsOK g0) (A : String) :
    gget (atoms.foldl (fun g a => (attrsFromNode c a).foldl (fun g kv => groupAdd g kv.1 kv.2) g) g0) A
      = gget g0 A ++ srcVals c atoms A
    ∧ GroupsOK (atoms.foldl (fun g a => (attrsFromNode c a).foldl (fun g kv => groupAdd g kv.1 kv.2) g) g0) := by
  induction atoms generalizing g0 with
  | nil => simp [srcVals, hg]
  | cons a r ih =>
    simp only [List.foldl_cons]
    obtain ⟨f1, f2⟩ := foldl_groupAdd (attrsFromNode c a) g0 A hg
    obtain ⟨h1, h2⟩ := ih (fun x hx => hwf x (List.mem_cons_of_mem _ hx)) _ f2
    refine ⟨?_, h2⟩
    rw [h1, f1, filter_key_of_nodup _ _ (nodup_attrsFromNode c a (hwf a List.mem_cons_self))]
    simp [srcVals, List.append_assoc]

theorem groupsOK_nil : GroupsOK [] := ⟨List.nodup_nil, fun _ h => by cases h⟩

theorem collect_gget (c : Cfg) (atoms : List AtomX) (hwf : ∀ a ∈ atoms, AtomWF a) (A : String) :
    gget (collect c atoms) A = srcVals c atoms A ∧ GroupsOK (collect c atoms) := by
  obtain ⟨h1, h2⟩ := collect_spec c atoms hwf [] groupsOK_nil A
  exact ⟨by simpa [gget, collect] using h1, by simpa [collect] using h2⟩

theorem gget_mem (g : List (String × List Val)) (A : String) (hg : (g.map Prod.fst).Nodup) (vs : List Val)
    (h : (A, vs) ∈ g) : gget g A = vs := by
  induction g with
  | nil => cases h
  | cons x r ih =>
    obtain ⟨k0, v0⟩ := x
    simp only [List.map_cons, List.nodup_cons] at hg
    unfold gget
    rcases List.mem_cons.1 h with h | h
    · cases h; simp
    · have : k0 ≠ A := by
        rintro rfl
        exact hg.1 (List.mem_map.2 ⟨(k0, vs), h, rfl⟩)
      simp only [this, if_false]
      exact ih hg.2 h

theorem gget_nil_of_not_mem (g : List (String × List Val)) (A : String) (h : A ∉ g.map Prod.fst) : gget g A = [] := by
  induction g with
  | nil => rfl
  | cons x r ih =>
    obtain ⟨k0, v0⟩ := x
    unfold gget
    have : k0 ≠ A := by
      rintro rfl
      exact h (by simp)
    simp only [this, if_false]
    exact ih (fun hm => h (by simp only [List.map_cons]; exact List.mem_cons_of_mem _ hm))

theorem mem_of_gget_ne (g : List (String × List Val)) (A : String) (h : gget g A ≠ []) : (A, gget g A) ∈ g := by
  induction g with
  | nil => exact absurd rfl h
  | cons x r ih =>
    obtain ⟨k0, v0⟩ := x
    unfold gget at h ⊢
    by_cases h0 : k0 = A
    · subst h0; simp
    · simp only [h0, if_false] at h ⊢
      exact List.mem_cons_of_mem _ (ih h)

theorem consLoop_eq (c : Cfg) (node : AttrD) (g : List (String × List Val)) :
    consLoop c node g = refLoop c node (g.map (fun kv => (kv.1, headVal kv.2))) := by
  unfold consLoop refLoop
  rw [List.foldl_map]

/-! ### `are_all_equal` -/

theorem allEq_false_iff (l : List Val) : allEq l = false ↔ ∃ v1 ∈ l, ∃ v2 ∈ l, v1 ≠ v2 := by
  cases l with
  | nil => simp [allEq]
  | cons x xs =>
    simp only [allEq]
    constructor
    · intro h
      have hex : ∃ y ∈ xs, (y == x) = false := by
        induction xs with
        | nil => simp at h
        | cons y ys ih =>
          simp only [List.all_cons, Bool.and_eq_false_iff] at h
          rcases h with h | h
          · exact ⟨y, List.mem_cons_self, h⟩
          · obtain ⟨z, hz, hne⟩ := ih h
            exact ⟨z, List.mem_cons_of_mem _ hz, hne⟩
      obtain ⟨y, hy, hne⟩ := hex
      exact ⟨y, List.mem_cons_of_mem _ hy, x, List.mem_cons_self, by simpa using hne⟩
    · rintro ⟨v1, h1, v2, h2, hne⟩
      cases hall : xs.all (fun y => y == x) with
      | false => rfl
      | true =>
        exfalso
        simp only [List.all_eq_true, beq_iff_eq] at hall
        have e1 : v1 = x := by
          rcases List.mem_cons.1 h1 with h | h
          · exact h
          · exact hall v1 h
        have e2 : v2 = x := by
          rcases List.mem_cons.1 h2 with h | h
          · exact h
          · exact hall v2 h
        exact hne (e1.trans e2.symm)

theorem mem_notSane (g : List (String × List Val)) (hg : (g.map Prod.fst).Nodup) (A : String) :
    A ∈ notSane g ↔ allEq (gget g A) = false ∧ A ∈ g.map Prod.fst := by
  unfold notSane
  simp only [List.mem_map, List.mem_filter, Bool.not_eq_true']
  constructor
  · rintro ⟨kv, ⟨hkv, hne⟩, rfl⟩
    rw [gget_mem g kv.1 hg kv.2 hkv]
    exact ⟨hne, kv, hkv, rfl⟩
  · rintro ⟨hne, kv, hkv, rfl⟩
    refine ⟨kv, ⟨hkv, ?_⟩, rfl⟩
    rw [gget_mem g kv.1 hg kv.2 hkv] at hne
    exact hne

/-! ### the loop over `out_to_mol` -/

theorem xget_xset_same (x : XT) (k : Int) (d : AttrD) : xget (xset x k d) k = some d := by
  induction x with
  | nil => simp [xset, xget]
  | cons y r ih =>
    obtain ⟨k0, d0⟩ := y
    unfold xset
    by_cases h : k0 = k
    · simp [h, xget]
    · simp [h, xget, ih]

theorem xget_xset_ne (x : XT) (k k' : Int) (d : AttrD) (h : k' ≠ k) : xget (xset x k d) k' = xget x k' := by
  induction x with
  | nil => simp [xset, xget, Ne.symm h]
  | cons y r ih =>
    obtain ⟨k0, d0⟩ := y
    unfold xset
    by_cases h0 : k0 = k
    · subst h0
      simp only [if_true, xget, Ne.symm h, if_false]
    · simp only [h0, if_false, xget, ih]

theorem filterMap_congr' {α β} (l : List α) (f g : α → Option β) (h : ∀ a ∈ l, f a = g a) :
    l.filterMap f = l.filterMap g := by
  induction l with
  | nil => rfl
  | cons a r ih =>
    simp only [List.filterMap_cons, h a List.mem_cons_self]
    rw [ih (fun b hb => h b (List.mem_cons_of_mem _ hb))]

theorem filter_congr' {α} (l : List α) (f g : α → Bool) (h : ∀ a ∈ l, f a = g a) : l.filter f = l.filter g := by
  induction l with
  | nil => rfl
  | cons a r ih =>
    simp only [List.filter_cons, h a List.mem_cons_self]
    rw [ih (fun b hb => h b (List.mem_cons_of_mem _ hb))]

/-- one iteration, on the dictionary the particle has in table `x` -/
def oneOf (c : Cfg) (m : MolX) (refs : List (Int × Int)) (x : XT) (kw : Int × List (Int × Rat)) : AttrD × List String :=
  attrLoopOne c m refs kw.1 kw.2 ((xget x kw.1).getD [])

/-- what the pass over `out_to_mol` yields, entry by entry: every particle with an entry gets the
result of `attrLoopOne` on ITS OWN dictionary as it was before the loop, the others keep theirs; one
warning per particle whose attribute list is not empty, in order; `to_remove` = the particles with
an entry whose atomname is None afterwards -/
theorem attrLoop_spec (c : Cfg) (m : MolX) (refs : List (Int × Int)) (otm : Dict2) (acc : LoopAcc)
    (hnd : (otm.map Prod.fst).Nodup) :
    (∀ kw ∈ otm, xget (otm.foldl (attrLoopStep c m refs) acc).x kw.1 = some (oneOf c m refs acc.x kw).1)
    ∧ (∀ k, k ∉ otm.map Prod.fst → xget (otm.foldl (attrLoopStep c m refs) acc).x k = xget acc.x k)
    ∧ (otm.foldl (attrLoopStep c m refs) acc).warns
        = acc.warns ++ otm.filterMap (fun kw => if (oneOf c m refs acc.x kw).2.isEmpty then none
                                                 else some (kw.1, (oneOf c m refs acc.x kw).2))
    ∧ (otm.foldl (attrLoopStep c m refs) acc).toRemove
        = acc.toRemove ++ (otm.filter (fun kw => nameIsNone (oneOf c m refs acc.x kw).1)).map Prod.fst := by
  induction otm generalizing acc with
  | nil => simp
  | cons kw r ih =>
    simp only [List.map_cons, List.nodup_cons] at hnd
    simp only [List.foldl_cons]
    obtain ⟨i1, i2, i3, i4⟩ := ih (attrLoopStep c m refs acc kw) hnd.2
    have hx : ∀ k, k ≠ kw.1 → xget (attrLoopStep c m refs acc kw).x k = xget acc.x k := by
      intro k hk
      unfold attrLoopStep
      exact xget_xset_ne _ _ _ _ hk
    have hsame : xget (attrLoopStep c m refs acc kw).x kw.1 = some (oneOf c m refs acc.x kw).1 := by
      unfold attrLoopStep oneOf
      exact xget_xset_same _ _ _
    have hone : ∀ kw' ∈ r, oneOf c m refs (attrLoopStep c m refs acc kw).x kw' = oneOf c m refs acc.x kw' := by
      intro kw' hkw'
      unfold oneOf
      rw [hx]
      rintro h
      exact hnd.1 (h ▸ List.mem_map.2 ⟨kw', hkw', rfl⟩)
    have hstepW : (attrLoopStep c m refs acc kw).warns
        = acc.warns ++ (if (oneOf c m refs acc.x kw).2.isEmpty then [] else [(kw.1, (oneOf c m refs acc.x kw).2)]) := by
      unfold attrLoopStep oneOf
      simp only
      split <;> simp
    have hstepR : (attrLoopStep c m refs acc kw).toRemove
        = acc.toRemove ++ (if nameIsNone (oneOf c m refs acc.x kw).1 then [kw.1] else []) := by
      unfold attrLoopStep oneOf
      simp only
      split <;> simp
    refine ⟨?_, ?_, ?_, ?_⟩
    · intro kw' hkw'
      rcases List.mem_cons.1 hkw' with rfl | hkw'
      · rw [i2 _ hnd.1, hsame]
      · rw [i1 kw' hkw', hone kw' hkw']
    · intro k hk
      simp only [List.map_cons, List.mem_cons, not_or] at hk
      rw [i2 k hk.2, hx k hk.1]
    · rw [i3, hstepW, filterMap_congr' r _ _ (fun kw' hkw' => by rw [hone kw' hkw'])]
      simp only [List.filterMap_cons, List.append_assoc]
      split <;> simp
    · rw [i4, hstepR, filter_congr' r _ _ (fun kw' hkw' => by rw [hone kw' hkw'])]
      simp only [List.filter_cons, List.append_assoc]
      split <;> simp

end C01
