import VermouthModel.C18
/-! Helper lemmas for C18, part 3: residue-graph distance (bounded BFS) and geometry. -/
namespace C18

/-- adjacency in the (undirected) residue graph -/
def Adj (E : List (Nat × Nat)) (a b : Nat) : Prop := (a, b) ∈ E ∨ (b, a) ∈ E

theorem Adj.symm {E : List (Nat × Nat)} {a b : Nat} (h : Adj E a b) : Adj E b a := Or.symm h

/-- `Within E k a b`: `b` can be reached from `a` along at most `k` edges -/
inductive Within (E : List (Nat × Nat)) : Nat → Nat → Nat → Prop where
  | refl (k a : Nat) : Within E k a a
  | step {k a b c : Nat} : Within E k a b → Adj E b c → Within E (k + 1) a c

theorem Within.mono {E : List (Nat × Nat)} {k a b : Nat} (h : Within E k a b) : Within E (k + 1) a b := by
  induction h with
  | refl k a => exact Within.refl _ _
  | step _ hadj ih => exact Within.step ih hadj

theorem Within.prepend {E : List (Nat × Nat)} {k a b c : Nat} (hadj : Adj E a b) (h : Within E k b c) :
    Within E (k + 1) a c := by
  induction h with
  | refl k b => exact Within.step (Within.refl k a) hadj
  | step _ hadj' ih => exact Within.step (ih hadj) hadj'

theorem Within.symm {E : List (Nat × Nat)} {k a b : Nat} (h : Within E k a b) : Within E k b a := by
  induction h with
  | refl k a => exact Within.refl _ _
  | step _ hadj ih => exact Within.prepend hadj.symm ih

theorem within_zero {E : List (Nat × Nat)} {a b : Nat} : Within E 0 a b ↔ a = b := by
  constructor
  · intro h; cases h; rfl
  · intro h; subst h; exact Within.refl _ _

theorem within_succ {E : List (Nat × Nat)} {k a c : Nat} :
    Within E (k + 1) a c ↔ Within E k a c ∨ ∃ b, Within E k a b ∧ Adj E b c := by
  constructor
  · intro h
    cases h with
    | refl => exact Or.inl (Within.refl _ _)
    | step h1 hadj => exact Or.inr ⟨_, h1, hadj⟩
  · rintro (h | ⟨b, h1, hadj⟩)
    · exact h.mono
    · exact Within.step h1 hadj

theorem mem_nbrs (E : List (Nat × Nat)) (i x : Nat) : x ∈ nbrs E i ↔ Adj E i x := by
  unfold nbrs Adj
  rw [List.mem_filterMap]
  constructor
  · rintro ⟨⟨e1, e2⟩, he, h⟩
    by_cases h1 : e1 = i
    · simp only [h1, if_true, Option.some.injEq] at h
      subst h1; subst h
      exact Or.inl he
    · simp only [h1, if_false] at h
      by_cases h2 : e2 = i
      · simp only [h2, if_true, Option.some.injEq] at h
        subst h2; subst h
        exact Or.inr he
      · simp [h2] at h
  · rintro (h | h)
    · exact ⟨(i, x), h, by simp⟩
    · by_cases hx : x = i
      · subst hx
        exact ⟨(x, x), h, by simp⟩
      · exact ⟨(x, i), h, by simp [hx]⟩

theorem mem_ball (E : List (Nat × Nat)) (s : Nat) (k x : Nat) : x ∈ ball E s k ↔ Within E k s x := by
  induction k generalizing x with
  | zero => simp [ball, within_zero, eq_comm]
  | succ k ih =>
    rw [within_succ]
    simp only [ball, List.mem_append, List.mem_eraseDups, List.mem_filter, List.mem_flatMap, mem_nbrs,
      Bool.not_eq_eq_eq_not, Bool.not_true, List.contains_eq_mem, decide_eq_false_iff_not]
    constructor
    · rintro (h | ⟨⟨y, hy, hadj⟩, _⟩)
      · exact Or.inl ((ih x).mp h)
      · exact Or.inr ⟨y, (ih y).mp hy, hadj⟩
    · rintro (h | ⟨y, hy, hadj⟩)
      · exact Or.inl ((ih x).mpr h)
      · by_cases hx : x ∈ ball E s k
        · exact Or.inl hx
        · exact Or.inr ⟨⟨y, (ih y).mpr hy, hadj⟩, hx⟩

theorem ball_symm (E : List (Nat × Nat)) (a b k : Nat) :
    (ball E a k).contains b = (ball E b k).contains a := by
  rw [Bool.eq_iff_iff]
  simp only [List.contains_eq_mem, decide_eq_true_eq, mem_ball]
  exact ⟨Within.symm, Within.symm⟩

/-! ### geometry -/

theorem sq_sub_comm (a b : Int) : sq (a - b) = sq (b - a) := by
  unfold sq
  have : b - a = -(a - b) := by omega
  rw [this, Int.neg_mul_neg]

theorem dist2_comm (p q : Pos) : dist2 p q = dist2 q p := by
  unfold dist2
  rw [sq_sub_comm p.1 q.1, sq_sub_comm p.2.1 q.2.1, sq_sub_comm p.2.2 q.2.2]

theorem sq_nonneg (a : Int) : 0 ≤ sq a := by
  unfold sq
  rcases Int.le_total 0 a with h | h
  · exact Int.mul_nonneg h h
  · have := Int.mul_nonneg (Int.neg_nonneg_of_nonpos h) (Int.neg_nonneg_of_nonpos h)
    rwa [Int.neg_mul_neg] at this

theorem dist2_cast (p q : Pos) :
    ((dist2 p q : Nat) : Int) = sq (p.1 - q.1) + sq (p.2.1 - q.2.1) + sq (p.2.2 - q.2.2) := by
  unfold dist2
  have h1 := sq_nonneg (p.1 - q.1)
  have h2 := sq_nonneg (p.2.1 - q.2.1)
  have h3 := sq_nonneg (p.2.2 - q.2.2)
  omega

theorem dist2_eq_zero (p q : Pos) : dist2 p q = 0 ↔ p = q := by
  constructor
  · intro h
    have hc := dist2_cast p q
    rw [h] at hc
    have h1 := sq_nonneg (p.1 - q.1)
    have h2 := sq_nonneg (p.2.1 - q.2.1)
    have h3 := sq_nonneg (p.2.2 - q.2.2)
    have z1 : sq (p.1 - q.1) = 0 := by omega
    have z2 : sq (p.2.1 - q.2.1) = 0 := by omega
    have z3 : sq (p.2.2 - q.2.2) = 0 := by omega
    unfold sq at z1 z2 z3
    have e1 : p.1 - q.1 = 0 := by rcases Int.mul_eq_zero.mp z1 with h | h <;> exact h
    have e2 : p.2.1 - q.2.1 = 0 := by rcases Int.mul_eq_zero.mp z2 with h | h <;> exact h
    have e3 : p.2.2 - q.2.2 = 0 := by rcases Int.mul_eq_zero.mp z3 with h | h <;> exact h
    obtain ⟨p1, p2, p3⟩ := p
    obtain ⟨q1, q2, q3⟩ := q
    simp only at e1 e2 e3
    have : p1 = q1 := by omega
    have : p2 = q2 := by omega
    have : p3 = q3 := by omega
    subst_vars
    rfl
  · intro h
    subst h
    simp [dist2, sq]

end C18
