import VermouthProofs.C01_Fold
import VermouthProofs.C01_Order
/-! C01 — reading the closed forms: which entries, particles and edges a placement contributes. -/
namespace C01
open C12

theorem mapM_some_mem {α β} (f : α → Option β) (l : List α) (l' : List β) (h : l.mapM f = some l') :
    (∀ y ∈ l', ∃ x ∈ l, f x = some y) ∧ (∀ x ∈ l, ∃ y ∈ l', f x = some y) := by
  induction l generalizing l' with
  | nil => simp at h; subst h; simp
  | cons a r ih =>
    rw [List.mapM_cons] at h
    cases hfa : f a with
    | none => simp [hfa] at h
    | some b =>
      cases hr : r.mapM f with
      | none => simp [hfa, hr] at h
      | some bs =>
        simp [hfa, hr] at h
        subst h
        obtain ⟨i1, i2⟩ := ih bs hr
        constructor
        · intro y hy
          rcases List.mem_cons.1 hy with rfl | hy
          · exact ⟨a, List.mem_cons_self, hfa⟩
          · obtain ⟨x, hx, hfx⟩ := i1 y hy
            exact ⟨x, List.mem_cons_of_mem _ hx, hfx⟩
        · intro x hx
          rcases List.mem_cons.1 hx with rfl | hx
          · exact ⟨b, List.mem_cons_self, hfa⟩
          · obtain ⟨y, hy, hfx⟩ := i2 x hx
            exact ⟨y, List.mem_cons_of_mem _ hy, hfx⟩

/-- the entries of one placement: weight entries of the mapping under the key shift, and weight 0
from every atom of the placement to every particle nothing maps to -/
theorem mem_stepEntries (o : Off) (p : Placement) (a k : Int) (w : Rat)
    (hs : (weightEntries p.block.keys (o.n : Int) p.molToBlock).isSome = true) :
    (a, k, w) ∈ stepEntries o p ↔
      (∃ ws blk, (a, ws) ∈ p.molToBlock ∧ (blk, w) ∈ ws ∧ corrOf p.block.keys (o.n : Int) blk = some k)
      ∨ (k ∈ stepSpawned o p ∧ a ∈ p.atoms ∧ w = 0) := by
  unfold stepEntries
  cases hw : weightEntries p.block.keys (o.n : Int) p.molToBlock with
  | none => rw [hw] at hs; cases hs
  | some wes =>
    simp only [Option.getD_some, List.mem_append]
    unfold weightEntries at hw
    obtain ⟨h1, h2⟩ := mapM_some_mem _ _ _ hw
    apply or_congr
    · constructor
      · intro h
        obtain ⟨x, hx, hfx⟩ := h1 _ h
        simp only [List.mem_flatMap, List.mem_map] at hx
        obtain ⟨aw, haw, bw, hbw, rfl⟩ := hx
        cases hc : corrOf p.block.keys (o.n : Int) bw.1 with
        | none => simp [hc] at hfx
        | some k' =>
          simp only [hc, Option.map_some, Option.some.injEq, Prod.mk.injEq] at hfx
          obtain ⟨rfl, rfl, rfl⟩ := hfx
          exact ⟨aw.2, bw.1, haw, hbw, hc⟩
      · rintro ⟨ws, blk, h3, h4, h5⟩
        obtain ⟨y, hy, hfy⟩ := h2 (a, blk, w) (by
          simp only [List.mem_flatMap, List.mem_map]
          exact ⟨(a, ws), h3, (blk, w), h4, rfl⟩)
        simp only [h5, Option.map_some, Option.some.injEq] at hfy
        subst hfy
        exact hy
    · unfold zeroEntries stepSpawned
      simp only [List.mem_flatMap, List.mem_map, Prod.mk.injEq]
      constructor
      · rintro ⟨s, hs', a', ha', rfl, rfl, rfl⟩
        exact ⟨hs', ha', rfl⟩
      · rintro ⟨h3, h4, rfl⟩
        exact ⟨k, h3, a, h4, rfl, rfl, rfl⟩

theorem stepEntries_bead_mem (o : Off) (p : Placement) (e : Int × Int × Rat) (he : e ∈ stepEntries o p) :
    e.2.1 ∈ (shiftNodes o p.block).map Prod.fst ∧ e.1 ∈ p.atoms := by
  have hblen : p.block.keys.length = p.block.nodes.length := by simp [Mol.keys]
  have hin : ∀ x k, corrOf p.block.keys (o.n : Int) k = some x → x ∈ (shiftNodes o p.block).map Prod.fst := by
    intro x k hk
    obtain ⟨i, hi, hx, _⟩ := corrOf_range _ _ _ _ hk
    rw [mem_shiftNodes_keys]
    exact ⟨i, by omega, hx⟩
  unfold stepEntries at he
  rcases List.mem_append.1 he with he | he
  · cases hw : weightEntries p.block.keys (o.n : Int) p.molToBlock with
    | none => rw [hw] at he; cases he
    | some wes =>
      rw [hw] at he
      unfold weightEntries at hw
      obtain ⟨x, hx, hfx⟩ := (mapM_some_mem _ _ _ hw).1 e he
      simp only [List.mem_flatMap, List.mem_map] at hx
      obtain ⟨aw, haw, bw, hbw, rfl⟩ := hx
      cases hc : corrOf p.block.keys (o.n : Int) bw.1 with
      | none => simp [hc] at hfx
      | some k' =>
        simp only [hc, Option.map_some, Option.some.injEq] at hfx
        subst hfx
        exact ⟨hin _ _ hc, List.mem_map.2 ⟨aw, haw, rfl⟩⟩
  · unfold zeroEntries spawnedOut at he
    simp only [List.mem_flatMap, List.mem_map, List.mem_filterMap] at he
    obtain ⟨s, ⟨blk, _, hblk⟩, a, ha, rfl⟩ := he
    exact ⟨hin _ _ hblk, ha⟩

/-! ### splitting the closed forms at a placement -/

theorem after_append (o : Off) (pre post : List Placement) :
    o.after (pre ++ post) = (o.after pre).after post := by
  induction pre generalizing o with
  | nil => rfl
  | cons p pre ih => simp only [List.cons_append, Off.after, ih]

theorem nodesSpec_append (o : Off) (pre post : List Placement) :
    nodesSpec o (pre ++ post) = nodesSpec o pre ++ nodesSpec (o.after pre) post := by
  induction pre generalizing o with
  | nil => rfl
  | cons p pre ih => simp only [List.cons_append, nodesSpec, Off.after, ih, List.append_assoc]

theorem logSpec_append (o : Off) (pre post : List Placement) :
    logSpec o (pre ++ post) = logSpec o pre ++ logSpec (o.after pre) post := by
  induction pre generalizing o with
  | nil => rfl
  | cons p pre ih => simp only [List.cons_append, logSpec, Off.after, ih, List.append_assoc]

theorem intersSpec_append (o : Off) (pre post : List Placement) :
    intersSpec o (pre ++ post) = intersSpec o pre ++ intersSpec (o.after pre) post := by
  induction pre generalizing o with
  | nil => rfl
  | cons p pre ih => simp only [List.cons_append, intersSpec, Off.after, ih, List.append_assoc]

theorem edgesSpec_append (o : Off) (pre post : List Placement) :
    edgesSpec o (pre ++ post) = edgesSpec o pre ++ edgesSpec (o.after pre) post := by
  induction pre generalizing o with
  | nil => rfl
  | cons p pre ih => simp only [List.cons_append, edgesSpec, Off.after, ih, List.append_assoc]

theorem spawnedSpec_append (o : Off) (pre post : List Placement) :
    spawnedSpec o (pre ++ post) = spawnedSpec o pre ++ spawnedSpec (o.after pre) post := by
  induction pre generalizing o with
  | nil => rfl
  | cons p pre ih => simp only [List.cons_append, spawnedSpec, Off.after, ih, List.append_assoc]

/-- membership in a closed form = membership in the contribution of one placement, at its offsets -/
theorem mem_logSpec (o : Off) (ps : List Placement) (e : Int × Int × Rat) :
    e ∈ logSpec o ps ↔ ∃ pre p post, ps = pre ++ p :: post ∧ e ∈ stepEntries (o.after pre) p := by
  induction ps generalizing o with
  | nil => simp [logSpec]
  | cons q qs ih =>
    simp only [logSpec, List.mem_append, ih]
    constructor
    · rintro (h | ⟨pre, p, post, rfl, h⟩)
      · exact ⟨[], q, qs, rfl, h⟩
      · exact ⟨q :: pre, p, post, rfl, h⟩
    · rintro ⟨pre, p, post, hps, h⟩
      cases pre with
      | nil =>
        simp only [List.nil_append, List.cons.injEq] at hps
        obtain ⟨rfl, rfl⟩ := hps
        exact Or.inl h
      | cons q' pre' =>
        simp only [List.cons_append, List.cons.injEq] at hps
        obtain ⟨rfl, rfl⟩ := hps
        exact Or.inr ⟨pre', p, post, rfl, h⟩

theorem mem_edgesSpec (o : Off) (ps : List Placement) (e : Int × Int) :
    e ∈ edgesSpec o ps ↔ ∃ pre p post, ps = pre ++ p :: post ∧ e ∈ stepEdges (o.after pre) p := by
  induction ps generalizing o with
  | nil => simp [edgesSpec]
  | cons q qs ih =>
    simp only [edgesSpec, List.mem_append, ih]
    constructor
    · rintro (h | ⟨pre, p, post, rfl, h⟩)
      · exact ⟨[], q, qs, rfl, h⟩
      · exact ⟨q :: pre, p, post, rfl, h⟩
    · rintro ⟨pre, p, post, hps, h⟩
      cases pre with
      | nil =>
        simp only [List.nil_append, List.cons.injEq] at hps
        obtain ⟨rfl, rfl⟩ := hps
        exact Or.inl h
      | cons q' pre' =>
        simp only [List.cons_append, List.cons.injEq] at hps
        obtain ⟨rfl, rfl⟩ := hps
        exact Or.inr ⟨pre', p, post, rfl, h⟩

theorem mem_spawnedSpec (o : Off) (ps : List Placement) (k : Int) :
    k ∈ spawnedSpec o ps ↔ ∃ pre p post, ps = pre ++ p :: post ∧ k ∈ stepSpawned (o.after pre) p := by
  induction ps generalizing o with
  | nil => simp [spawnedSpec]
  | cons q qs ih =>
    simp only [spawnedSpec, List.mem_append, ih]
    constructor
    · rintro (h | ⟨pre, p, post, rfl, h⟩)
      · exact ⟨[], q, qs, rfl, h⟩
      · exact ⟨q :: pre, p, post, rfl, h⟩
    · rintro ⟨pre, p, post, hps, h⟩
      cases pre with
      | nil =>
        simp only [List.nil_append, List.cons.injEq] at hps
        obtain ⟨rfl, rfl⟩ := hps
        exact Or.inl h
      | cons q' pre' =>
        simp only [List.cons_append, List.cons.injEq] at hps
        obtain ⟨rfl, rfl⟩ := hps
        exact Or.inr ⟨pre', p, post, rfl, h⟩

theorem logSpec_bead_mem (o : Off) (ps : List Placement) (e : Int × Int × Rat) (he : e ∈ logSpec o ps) :
    e.2.1 ∈ (nodesSpec o ps).map Prod.fst := by
  obtain ⟨pre, p, post, rfl, h⟩ := (mem_logSpec o _ e).1 he
  rw [nodesSpec_append, nodesSpec, List.map_append, List.map_append]
  exact List.mem_append_right _ (List.mem_append_left _ (stepEntries_bead_mem _ p e h).1)

/-! ### offsets -/

theorem after_n (o : Off) (ps : List Placement) : (o.after ps).n = o.n + (nodesSpec o ps).length := by
  induction ps generalizing o with
  | nil => simp [Off.after, nodesSpec]
  | cons p ps ih =>
    simp only [Off.after, nodesSpec, ih, next_n, List.length_append]
    unfold shiftNodes
    rw [enumFrom_length, List.length_map]
    omega

theorem lastA_append (l r : List (Int × Attrs)) (hr : r ≠ []) : lastA (l ++ r) = lastA r := by
  induction l with
  | nil => rfl
  | cons x l ih =>
    cases hl : l ++ r with
    | nil =>
      have := congrArg List.length hl
      simp only [List.length_append, List.length_nil] at this
      exact absurd (List.length_eq_zero_iff.1 (by omega : r.length = 0)) hr
    | cons y t =>
      rw [List.cons_append, hl]
      show lastA (y :: t) = _
      rw [← hl]; exact ih

theorem lastA_append_nil (l r : List (Int × Attrs)) (hr : r = []) : lastA (l ++ r) = lastA l := by
  subst hr; simp

/-- the offsets after a prefix: resid and charge group of the last particle so far (0 at the start) -/
theorem after_offsets (o : Off) (ps : List Placement) :
    (o.after ps).roff = (match lastA (nodesSpec o ps) with | none => o.roff | some a => a.resid.getD 1)
    ∧ (o.after ps).coff = (match lastA (nodesSpec o ps) with | none => o.coff | some a => a.cg.getD 1) := by
  induction ps generalizing o with
  | nil => simp [Off.after, nodesSpec, lastA]
  | cons p ps ih =>
    simp only [Off.after, nodesSpec]
    obtain ⟨i1, i2⟩ := ih (o.next p.block)
    rw [i1, i2]
    by_cases hn : nodesSpec (o.next p.block) ps = []
    · rw [lastA_append_nil _ _ hn, hn]
      simp only [lastA]
      unfold shiftNodes
      rw [lastA_enumFrom, lastA_map_shift]
      unfold Off.next
      cases hl : lastA p.block.nodes with
      | none => simp
      | some a => simp [Attrs.shift]
    · rw [lastA_append _ _ hn]
      cases hl : lastA (nodesSpec (o.next p.block) ps) with
      | none => exact absurd ((lastA_none_iff _).1 hl) hn
      | some a => simp

end C01
