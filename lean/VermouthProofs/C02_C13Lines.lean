import VermouthProofs.C02_C13Handlers
/-!
C02 ∘ C13 — one step of the fused walk on each kind of written line (directive, `[ moleculetype ]`
line, atom row, interaction line).  Core Lean only.
-/
namespace C02.Repo
open C13

variable {tab : List Entry} {idxTab : List (String × List Idx)} {tbl : List (String × Arity)}

/-! ### lines that are their own stripped form -/

theorem stripComment_id (x : List Char) (a b : Char) (hs : ∀ c ∈ x, c ≠ ';')
    (ha : x.head? = some a) (hpa : C02.isWs a = false) (hb : x.getLast? = some b) (hpb : C02.isWs b = false) :
    C13.stripComment x = x := by
  rw [stripComment_eq, C02.stripComment_noSemi _ hs]
  exact stripChars_id _ _ a b ha hpa hb hpb

theorem tok_head (d : String) (h : C02.tokS d) : ∃ a r, d.toList = a :: r ∧ C02.isWs a = false ∧ a ≠ ';' := by
  cases hd : d.toList with
  | nil => exact absurd hd h.1
  | cons a r => exact ⟨a, r, rfl, (h.2 a (by rw [hd]; simp)).1, (h.2 a (by rw [hd]; simp)).2⟩

theorem tok_last (pre : List Char) (d : String) (h : C02.tokS d) :
    ∃ b, (pre ++ d.toList).getLast? = some b ∧ C02.isWs b = false := by
  have hne : d.toList ≠ [] := h.1
  refine ⟨d.toList.getLast hne, ?_, (h.2 _ (List.getLast_mem hne)).1⟩
  rw [List.getLast?_append, List.getLast?_eq_some_getLast hne]
  rfl

theorem cls_content (l : C02.Line) (hnot : ∀ n, l ≠ .sect n) (c0 : Char) (r : List Char)
    (hs : C13.stripComment (renderLineChars l) = c0 :: r) :
    cls l = [.content (String.ofList (c0 :: r))] := by
  rw [cls_eq_contentOf l hnot]
  simp [contentOf, hs]

theorem walk_content_line (P : IParams RCtx) (l : C02.Line) (hnot : ∀ n, l ≠ .sect n) (c0 : Char) (r : List Char)
    (hs : C13.stripComment (renderLineChars l) = c0 :: r) (h0 : c0 ≠ '#') (pm : PMeta) (s : ISt RCtx) (i : Nat) :
    walkX P ⟨pm, s, i⟩ (cls l)
      = (itpContent P s (encodeMeta pm (String.ofList (c0 :: r)))).map fun s' => ⟨pm, s', i + 1⟩ := by
  rw [cls_content l hnot c0 r hs, walkX_one]
  have : startsWithS (String.ofList (c0 :: r)) "#" = false := by
    rw [startsWith_hash]; simp [h0]
  simp only [stepX, this, Bool.false_eq_true, if_false]

theorem walk_pragma_line (P : IParams RCtx) (l : C02.Line) (hnot : ∀ n, l ≠ .sect n) (r : List Char)
    (hs : C13.stripComment (renderLineChars l) = '#' :: r) (pm : PMeta) (s : ISt RCtx) (i : Nat) :
    walkX P ⟨pm, s, i⟩ (cls l)
      = (pragmaStep pm (String.ofList ('#' :: r))).map fun m' => ⟨m', s, i⟩ := by
  rw [cls_content l hnot '#' r hs, walkX_one]
  have : startsWithS (String.ofList ('#' :: r)) "#" = true := by
    rw [startsWith_hash]; simp
  simp only [stepX, this, if_true]

theorem walk_sect (P : IParams RCtx) (n : String) (pm : PMeta) (s : ISt RCtx) (i : Nat) :
    walkX P ⟨pm, s, i⟩ (cls (.sect n)) = some ⟨pm, itpHeader P s i (hdrName n), i + 1⟩ := by
  simp [cls, walkX_one, stepX]

/-! ### directives -/

theorem semi_lit (lit : List Char) (hl : ∀ c ∈ lit, c ≠ ';') (toks : List String) (ht : ∀ t ∈ toks, C02.tokS t) :
    ∀ c ∈ joinSp (lit :: toks.map String.toList), c ≠ ';' := by
  apply C02.joinSp_noSemi
  intro l hlm
  simp only [List.mem_cons, List.mem_map] at hlm
  rcases hlm with rfl | ⟨t, htm, rfl⟩
  · exact hl
  · exact fun c hc => ((ht t htm).2 c hc).2

/-- `#ifdef X` / `#ifndef X` outside any conditional -/
theorem walk_guard_open (P : IParams RCtx) (flag : Bool) (d : String) (hd : C02.tokS d) (s : ISt RCtx) (i : Nat) :
    walkX P ⟨none, s, i⟩ (cls (.directive (if flag then "#ifdef" else "#ifndef") [d]))
      = some ⟨some (if flag then "ifdef" else "ifndef", d), s, i⟩ := by
  obtain ⟨b, hb, hbw⟩ := tok_last ((if flag then "#ifdef" else "#ifndef" : String).toList ++ [' ']) d hd
  have e1 : "#ifdef".toList = ['#', 'i', 'f', 'd', 'e', 'f'] := by decide
  have e2 : "#ifndef".toList = ['#', 'i', 'f', 'n', 'd', 'e', 'f'] := by decide
  have e3 : "#else".toList = ['#', 'e', 'l', 's', 'e'] := by decide
  have e4 : "#endif".toList = ['#', 'e', 'n', 'd', 'i', 'f'] := by decide
  have hsplit : ∀ kw : String, C02.tokS kw →
      C13.splitWs (String.ofList (kw.toList ++ ' ' :: d.toList)) = [kw, d] := by
    intro kw hkw
    rw [splitWs13_eq, String.toList_ofList]
    have := C02.tokenize_renderLine (.directive kw [d]) ⟨hkw, by simpa using hd⟩
    have hr : renderLineChars (.directive kw [d]) = kw.toList ++ ' ' :: d.toList := by
      simp [renderLineChars, joinSp]
    rw [hr] at this
    unfold C02.tokenizeChars at this
    rw [C02.stripComment_noSemi] at this
    · exact this
    · have := semi_lit kw.toList (fun c hc => (hkw.2 c hc).2) [d] (by simpa using hd)
      simpa [joinSp] using this
  cases flag with
  | true =>
    have hk : C02.tokS "#ifdef" := C02.tokS_of_tokOk _ C02.tokOk_ifdef
    have hr : renderLineChars (.directive "#ifdef" [d]) = '#' :: ('i' :: 'f' :: 'd' :: 'e' :: 'f' :: ' ' :: d.toList) := by
      simp [renderLineChars, joinSp, e1]
    have hstrip : C13.stripComment (renderLineChars (.directive "#ifdef" [d]))
        = '#' :: ('i' :: 'f' :: 'd' :: 'e' :: 'f' :: ' ' :: d.toList) := by
      rw [hr]
      refine stripComment_id _ '#' b ?_ rfl (by decide) ?_ hbw
      · intro c hc
        have := semi_lit "#ifdef".toList (by rw [e1]; decide) [d] (by simpa using hd) c
        apply this
        simpa [joinSp, e1] using hc
      · simpa [e1] using hb
    simp only [if_true]
    rw [walk_pragma_line P _ (by intro n h; cases h) _ hstrip]
    have hs := hsplit "#ifdef" hk
    rw [e1] at hs
    simp only [List.cons_append, List.nil_append] at hs
    have hne : String.ofList ('#' :: 'i' :: 'f' :: 'd' :: 'e' :: 'f' :: ' ' :: d.toList) ≠ "#endif" := by
      intro e
      have := congrArg String.toList e
      rw [String.toList_ofList, e4] at this
      simp at this
    have hf : String.ofList (List.filter (fun x => !decide (x = '#')) "#ifdef".toList) = "ifdef" := by decide
    generalize hL : String.ofList ('#' :: 'i' :: 'f' :: 'd' :: 'e' :: 'f' :: ' ' :: d.toList) = L at hs hne ⊢
    have hLl : L.toList = '#' :: 'i' :: 'f' :: 'd' :: 'e' :: 'f' :: ' ' :: d.toList := by rw [← hL, String.toList_ofList]
    simp [pragmaStep, hne, startsWithS, hLl, e1, e2, e3, List.isPrefixOf, hs, hf]
  | false =>
    have hk : C02.tokS "#ifndef" := C02.tokS_of_tokOk _ C02.tokOk_ifndef
    have hr : renderLineChars (.directive "#ifndef" [d]) = '#' :: ('i' :: 'f' :: 'n' :: 'd' :: 'e' :: 'f' :: ' ' :: d.toList) := by
      simp [renderLineChars, joinSp, e2]
    have hstrip : C13.stripComment (renderLineChars (.directive "#ifndef" [d]))
        = '#' :: ('i' :: 'f' :: 'n' :: 'd' :: 'e' :: 'f' :: ' ' :: d.toList) := by
      rw [hr]
      refine stripComment_id _ '#' b ?_ rfl (by decide) ?_ hbw
      · intro c hc
        have := semi_lit "#ifndef".toList (by rw [e2]; decide) [d] (by simpa using hd) c
        apply this
        simpa [joinSp, e2] using hc
      · simpa [e2] using hb
    simp only [Bool.false_eq_true, if_false]
    rw [walk_pragma_line P _ (by intro n h; cases h) _ hstrip]
    have hs := hsplit "#ifndef" hk
    rw [e2] at hs
    simp only [List.cons_append, List.nil_append] at hs
    have hne : String.ofList ('#' :: 'i' :: 'f' :: 'n' :: 'd' :: 'e' :: 'f' :: ' ' :: d.toList) ≠ "#endif" := by
      intro e
      have := congrArg String.toList e
      rw [String.toList_ofList, e4] at this
      simp at this
    have hf : String.ofList (List.filter (fun x => !decide (x = '#')) "#ifndef".toList) = "ifndef" := by decide
    generalize hL : String.ofList ('#' :: 'i' :: 'f' :: 'n' :: 'd' :: 'e' :: 'f' :: ' ' :: d.toList) = L at hs hne ⊢
    have hLl : L.toList = '#' :: 'i' :: 'f' :: 'n' :: 'd' :: 'e' :: 'f' :: ' ' :: d.toList := by rw [← hL, String.toList_ofList]
    simp [pragmaStep, hne, startsWithS, hLl, e1, e2, e3, List.isPrefixOf, hs, hf]

theorem walk_endif (P : IParams RCtx) (g : String × String) (s : ISt RCtx) (i : Nat) :
    walkX P ⟨some g, s, i⟩ (cls (.directive "#endif" [])) = some ⟨none, s, i⟩ := by
  have e4 : "#endif".toList = ['#', 'e', 'n', 'd', 'i', 'f'] := by decide
  have hr : renderLineChars (.directive "#endif" []) = ['#', 'e', 'n', 'd', 'i', 'f'] := by
    simp [renderLineChars, joinSp, e4]
  have hstrip : C13.stripComment (renderLineChars (.directive "#endif" [])) = ['#', 'e', 'n', 'd', 'i', 'f'] := by
    rw [hr]
    exact stripComment_id _ '#' 'f' (by decide) rfl (by decide) rfl (by decide)
  rw [walk_pragma_line P _ (by intro n h; cases h) _ hstrip]
  have : String.ofList ['#', 'e', 'n', 'd', 'i', 'f'] = "#endif" := by decide
  rw [this]
  simp [pragmaStep]

/-- the `#define NAME VALUE` line of the `define` prelude -/
theorem walk_define (P : IParams RCtx) (a b : String) (ha : C02.tokS a) (hb : C02.tokS b) (pm : PMeta)
    (s : ISt RCtx) (i : Nat) :
    walkX P ⟨pm, s, i⟩ (cls (.directive "#define" [a, b])) = some ⟨pm, s, i⟩ := by
  have e5 : "#define".toList = ['#', 'd', 'e', 'f', 'i', 'n', 'e'] := by decide
  obtain ⟨z, hz, hzw⟩ := tok_last ("#define".toList ++ ' ' :: a.toList ++ [' ']) b hb
  have hr : renderLineChars (.directive "#define" [a, b])
      = '#' :: ('d' :: 'e' :: 'f' :: 'i' :: 'n' :: 'e' :: ' ' :: (a.toList ++ ' ' :: b.toList)) := by
    simp [renderLineChars, joinSp, e5]
  have hstrip : C13.stripComment (renderLineChars (.directive "#define" [a, b]))
      = '#' :: ('d' :: 'e' :: 'f' :: 'i' :: 'n' :: 'e' :: ' ' :: (a.toList ++ ' ' :: b.toList)) := by
    rw [hr]
    refine stripComment_id _ '#' z ?_ rfl (by decide) ?_ hzw
    · intro c hc
      have := semi_lit "#define".toList (by rw [e5]; decide) [a, b] (by
        intro t ht
        simp only [List.mem_cons, List.not_mem_nil, or_false] at ht
        rcases ht with rfl | rfl
        · exact ha
        · exact hb) c
      apply this
      simpa [joinSp, e5] using hc
    · simpa [e5] using hz
  rw [walk_pragma_line P _ (by intro n h; cases h) _ hstrip]
  have hsw : startsWithS (String.ofList ('#' :: 'd' :: 'e' :: 'f' :: 'i' :: 'n' :: 'e' :: ' ' :: (a.toList ++ ' ' :: b.toList))) "#define" = true := by
    simp [startsWithS, e5, List.isPrefixOf]
  rw [(startsWith_define _ hsw pm).2]
  rfl

/-! ### `encodeMeta` under the guards the writer produces -/

def MetaOk : PMeta → Prop
  | none => True
  | some (c, g) => (c = "ifdef" ∨ c = "ifndef") ∧ ∀ x ∈ g.toList, x ≠ '\x03'

theorem decode_encode (pm : PMeta) (t : String) (h : MetaOk pm) (ht : t.toList.head? ≠ some '\x01') :
    decodeMeta (encodeMeta pm t) = (pm, t) := by
  cases pm with
  | none => exact decode_encode_none t ht
  | some p =>
    obtain ⟨c, g⟩ := p
    obtain ⟨hc, hg⟩ := h
    apply decode_encode_some c g t _ hg
    rcases hc with rfl | rfl <;> decide

/-- the first character of a written row number / atom reference -/
theorem digit_head (n : Nat) (c : Char) (h : (toString n).toList.head? = some c) :
    c ≠ '#' ∧ c ≠ '[' ∧ c ≠ '\x01' := by
  have hd : c.isDigit = true := by
    apply (toString_digits n).2
    cases hl : (toString n).toList with
    | nil => rw [hl] at h; simp at h
    | cons a r => rw [hl] at h; simp at h; subst h; simp
  refine ⟨?_, ?_, ?_⟩ <;> (intro e; subst e; revert hd; decide)

/-! ### the `[ moleculetype ]` line -/

theorem walk_moltype (F : TabFacts tab idxTab tbl) (a b : String) (ha : C02.tokS a) (hb : C02.tokS b)
    (hh : ∀ c, a.toList.head? = some c → c ≠ '#' ∧ c ≠ '\x01')
    (hint : (pyInt? b).isSome = true) (i i0 : Nat) (c : RCtx) (bl : List (Option String × (Nat × RCtx))) :
    walkX (paramsX idxTab tab) ⟨none, { sec := ["moleculetype"], blk := some (i0, c), blocks := bl }, i⟩
        (cls (.moltype a b))
      = some ⟨none, { sec := ["moleculetype"],
                      blk := some (i0, { c with base := { c.base with name := some a }, nrexcl := some b }),
                      blocks := bl }, i + 1⟩ := by
  obtain ⟨a0, ar, hae, ha0w, ha0s⟩ := tok_head a ha
  obtain ⟨z, hz, hzw⟩ := tok_last (a.toList ++ [' ']) b hb
  have hr : renderLineChars (.moltype a b) = a0 :: (ar ++ ' ' :: b.toList) := by
    simp [renderLineChars, joinSp, hae]
  have hsemi : ∀ x ∈ a0 :: (ar ++ ' ' :: b.toList), x ≠ ';' := by
    intro x hx
    have : x ∈ a.toList ∨ x = ' ' ∨ x ∈ b.toList := by
      rw [hae]; simp only [List.mem_cons, List.mem_append] at hx ⊢
      rcases hx with h | h | h | h
      · exact Or.inl (Or.inl h)
      · exact Or.inl (Or.inr h)
      · exact Or.inr (Or.inl h)
      · exact Or.inr (Or.inr h)
    rcases this with h | rfl | h
    · exact (ha.2 x h).2
    · decide
    · exact (hb.2 x h).2
  have hstrip : C13.stripComment (renderLineChars (.moltype a b)) = a0 :: (ar ++ ' ' :: b.toList) := by
    rw [hr]
    refine stripComment_id _ a0 z hsemi rfl ha0w ?_ hzw
    have : a0 :: (ar ++ ' ' :: b.toList) = (a.toList ++ [' ']) ++ b.toList := by rw [hae]; simp
    rw [this]; exact hz
  have h0 := hh a0 (by rw [hae]; rfl)
  rw [walk_content_line _ _ (by intro n h; cases h) a0 _ hstrip h0.1]
  have hsplit : C13.splitWs (String.ofList (a0 :: (ar ++ ' ' :: b.toList))) = [a, b] := by
    rw [splitWs13_eq, String.toList_ofList]
    have := C02.tokenize_renderLine (.moltype a b) ⟨ha, hb⟩
    rw [hr] at this
    unfold C02.tokenizeChars at this
    rw [C02.stripComment_noSemi _ hsemi] at this
    exact this
  have hdec : (decodeMeta (encodeMeta none (String.ofList (a0 :: (ar ++ ' ' :: b.toList))))).2
      = String.ofList (a0 :: (ar ++ ' ' :: b.toList)) := by
    rw [decode_encode_none _ (by simp [h0.2])]
  obtain ⟨e, he, _⟩ := F.mol
  have hh2 : (paramsX idxTab tab).handle ["moleculetype"]
      (encodeMeta none (String.ofList (a0 :: (ar ++ ' ' :: b.toList)))) c = _ :=
    handleX_mol F c _ _ a b hdec hsplit hint
  rw [itpContent_ok (paramsX idxTab tab) { sec := ["moleculetype"], blk := some (i0, c), blocks := bl }
    _ i0 c _ (findEntry_mem he) rfl hh2]
  rfl

end C02.Repo
