import VermouthProps.C04
import VermouthProps.C09
import VermouthProps.C11
import Mathlib.Tactic.Ring
import Mathlib.Tactic.Push
/-!
# C11 — helper lemmas for the stage-level presentation theorems (`VermouthProps/C11_Stages.lean`)

* C04 (`repair_graph` model): what the repaired residue looks like when the input residue is the
  block under any renaming / atom order - expressed through NAMES only, so that two presentations
  can be compared.
* C09 → C15: the integer rigid motions of `VermouthModel/C11.lean` seen over `ℚ` (the field of the
  bead-placement model) and the bridge between the two coordinate types on lattice points.
-/
namespace C11

/-! ## C04: the repaired residue, seen through names -/
section c04
open C04 Iso

/-- `(canonical name, element)` of the atoms of the residue `found` in the molecule `o` -/
def atomTable (o : C04.Mol) (found : List Int) : List (String × Int) :=
  (o.nodes.filter fun a => found.contains a.key).map fun a => (a.name, a.elem)

/-- `(name, element)` of the atoms of a reference block -/
def blockTable (b : C04.Block) : List (String × Int) := b.nodes.map fun a => (a.name, a.elem)

/-- atoms named `n` and `n'` of the residue `found` are bonded in `o` -/
def NamedBond (o : C04.Mol) (found : List Int) (n n' : String) : Prop :=
  ∃ a ∈ o.nodes, ∃ b ∈ o.nodes, a.key ∈ found ∧ b.key ∈ found ∧ a.name = n ∧ b.name = n'
    ∧ hasEdge o.edges a.key b.key = true

/-- block atoms named `n` and `n'` are bonded in the block -/
def BlockBond (b : C04.Block) (n n' : String) : Prop :=
  ∃ r ∈ b.nodes, ∃ r' ∈ b.nodes, r.name = n ∧ r'.name = n' ∧ hasEdge b.edges r.key r'.key = true

/-- the hypotheses of `C04.scramble_invariant` for one presentation: `m`'s residue `R.found` IS the
block `R.block` under some element- and bond-preserving bijection (any names, any atom order, any
keys), and `R.mtch` is what a matcher meeting its specification returns -/
structure ScrambleOf (m : C04.Mol) (R : C04.Residue) : Prop where
  blockKeys : R.block.keys.Nodup
  molKeys : m.keys.Nodup
  found : ∀ k ∈ R.found, k ∈ m.keys
  iso : ∃ f : Int → Int, IsIndIso (resGraph m R.found) (blockGraph R.block) f
  size : R.block.keys.length = (resGraph m R.found).keys.length
  mcis : R.mtch ∈ allMCIS (resGraph m R.found) (blockGraph R.block)

theorem ScrambleOf.wf {m : C04.Mol} {R : C04.Residue} (h : ScrambleOf m R) : WF m R :=
  wf_of_mcis m R h.blockKeys h.molKeys h.found h.mcis

/-- every atom of the residue is, after the repair, the image of a matched block atom and carries its
name and element; conversely every block atom is played by an atom of the residue -/
theorem scramble_atoms {m : C04.Mol} {R : C04.Residue} (h : ScrambleOf m R) :
    (∀ a ∈ (repairResidue m R).mol.nodes, a.key ∈ R.found →
        ∃ p ∈ R.mtch, p.2 = a.key ∧ ∃ r ∈ R.block.nodes, r.key = p.1 ∧ a.name = r.name ∧ a.elem = r.elem)
    ∧ (∀ r ∈ R.block.nodes, ∃ p ∈ R.mtch, p.1 = r.key ∧
        ∃ a ∈ (repairResidue m R).mol.nodes, a.key = p.2 ∧ a.key ∈ R.found ∧ a.name = r.name ∧ a.elem = r.elem) := by
  obtain ⟨f, hf⟩ := h.iso
  have hwf := h.wf
  obtain ⟨hdom, hcov, _, _, _, _, _, _, hnames⟩ :=
    scramble_invariant m R h.blockKeys h.molKeys h.found f hf h.size h.mcis
  have hnd := out_keys_nodup m R hwf
  constructor
  · intro a ha hk
    obtain ⟨p, hp, hp2⟩ := List.mem_map.1 (hcov a.key hk)
    obtain ⟨a', ha', hk', hn', he'⟩ := hnames p hp
    have e : a' = a := inj_of_nodup_map hnd ha' ha (by rw [hk']; exact hp2)
    subst e
    have hpd : p.1 ∈ R.block.keys := by rw [← hdom]; exact mem_dom_of_mem hp
    obtain ⟨r, _, hrk, hrm⟩ := find_of_mem_keys hpd
    obtain ⟨e1, e2⟩ := nameOf_of_mem h.blockKeys hrm
    rw [hrk] at e1 e2
    exact ⟨p, hp, hp2, r, hrm, hrk, by rw [hn', e1], by rw [he', e2]⟩
  · intro r hr
    have hrd : r.key ∈ dom R.mtch := by rw [hdom]; exact List.mem_map.2 ⟨r, hr, rfl⟩
    obtain ⟨p, hp, hp1⟩ := List.mem_map.1 hrd
    obtain ⟨a, ha, hk, hn, he⟩ := hnames p hp
    obtain ⟨e1, e2⟩ := nameOf_of_mem h.blockKeys hr
    refine ⟨p, hp, hp1, a, ha, hk, ?_, ?_, ?_⟩
    · rw [hk]; exact hwf.2.2.2.2.2.1 _ (mem_ran_of_mem hp)
    · rw [hn, hp1, e1]
    · rw [he, hp1, e2]

theorem scramble_atomTable {m : C04.Mol} {R : C04.Residue} (h : ScrambleOf m R) (x : String × Int) :
    x ∈ atomTable (repairResidue m R).mol R.found ↔ x ∈ blockTable R.block := by
  obtain ⟨h1, h2⟩ := scramble_atoms h
  unfold atomTable blockTable
  simp only [List.mem_map, List.mem_filter, List.contains_eq_mem, decide_eq_true_eq]
  constructor
  · rintro ⟨a, ⟨ha, hk⟩, rfl⟩
    obtain ⟨_, _, _, r, hr, _, hn, he⟩ := h1 a ha hk
    exact ⟨r, hr, by rw [hn, he]⟩
  · rintro ⟨r, hr, rfl⟩
    obtain ⟨_, _, _, a, ha, _, hkf, hn, he⟩ := h2 r hr
    exact ⟨a, ⟨ha, hkf⟩, by rw [hn, he]⟩

theorem scramble_bonds {m : C04.Mol} {R : C04.Residue} (h : ScrambleOf m R) (n n' : String) (hne : n ≠ n') :
    NamedBond (repairResidue m R).mol R.found n n' ↔ BlockBond R.block n n' := by
  obtain ⟨h1, h2⟩ := scramble_atoms h
  have hemb := embedding_after_repair m R h.blockKeys h.molKeys h.found h.mcis
  constructor
  · rintro ⟨a, ha, b, hb, hka, hkb, hna, hnb, he⟩
    obtain ⟨p, hp, hp2, r, hr, hrk, hrn, _⟩ := h1 a ha hka
    obtain ⟨q, hq, hq2, r', hr', hrk', hrn', _⟩ := h1 b hb hkb
    have hpq : p.1 ≠ q.1 := by
      intro e
      have : r = r' := inj_of_nodup_map (f := fun a : C04.Atom => a.key) h.blockKeys hr hr' (by rw [hrk, hrk', e])
      apply hne
      rw [← hna, ← hnb, hrn, hrn', this]
    refine ⟨r, hr, r', hr', by rw [← hrn, hna], by rw [← hrn', hnb], ?_⟩
    rw [hrk, hrk', ← (hemb p hp q hq hpq).2.2, hp2, hq2]
    exact he
  · rintro ⟨r, hr, r', hr', hn, hn', he⟩
    obtain ⟨p, hp, hp1, a, ha, hka, hkf, hna, _⟩ := h2 r hr
    obtain ⟨q, hq, hq1, b, hb, hkb, hkf', hnb, _⟩ := h2 r' hr'
    have hpq : p.1 ≠ q.1 := by
      intro e
      have : r = r' := inj_of_nodup_map (f := fun a : C04.Atom => a.key) h.blockKeys hr hr' (by rw [← hp1, ← hq1, e])
      apply hne
      rw [← hn, ← hn', this]
    refine ⟨a, ha, b, hb, hkf, hkf', by rw [hna, hn], by rw [hnb, hn'], ?_⟩
    rw [hka, hkb, (hemb p hp q hq hpq).2.2, hp1, hq1]
    exact he

end c04

/-! ## C09 → C15: the integer motions over `ℚ` -/
section c09

/-- a lattice point as a rational point -/
def castV (p : V3) : C09.V3 ℚ := ⟨(p.1 : ℚ), (p.2.1 : ℚ), (p.2.2 : ℚ)⟩

def castM (A : Mat3) : C09.Mat3 ℚ := ⟨castV A.r1, castV A.r2, castV A.r3⟩

/-- the motion `p ↦ A p + t` of `VermouthModel/C11.lean`, acting on rational points -/
def moveQ (A : Mat3) (t : V3) (p : C09.V3 ℚ) : C09.V3 ℚ := ((castM A).apply p).add (castV t)

theorem castV_injective {p q : V3} (h : castV p = castV q) : p = q := by
  obtain ⟨p1, p2, p3⟩ := p
  obtain ⟨q1, q2, q3⟩ := q
  simp only [castV, C09.V3.mk.injEq, Int.cast_inj] at h
  obtain ⟨h1, h2, h3⟩ := h
  rw [h1, h2, h3]

/-- **bridge**: on lattice points the rational motion is the integer motion -/
theorem moveQ_castV (A : Mat3) (t p : V3) : moveQ A t (castV p) = castV (move A t p) := by
  obtain ⟨⟨a11, a12, a13⟩, ⟨a21, a22, a23⟩, ⟨a31, a32, a33⟩⟩ := A
  obtain ⟨t1, t2, t3⟩ := t
  obtain ⟨p1, p2, p3⟩ := p
  simp only [moveQ, castM, castV, move, Mat3.apply, V3.add, V3.dot, C09.Mat3.apply, C09.V3.add, C09.V3.dot,
    C09.V3.mk.injEq]
  push_cast
  exact ⟨rfl, rfl, rfl⟩

end c09

end C11
