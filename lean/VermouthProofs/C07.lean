import VermouthModel.C07
/-! Helper lemmas for the C07 property theorems (core Lean only). -/
namespace C07

/-! ## the abstract file system -/

theorem get_erase_eq (fs : FS) (p : Path) : get (erase fs p) p = none := by
  induction fs with
  | nil => rfl
  | cons kv t ih =>
    obtain ⟨k, v⟩ := kv
    by_cases h : k = p
    · simpa [erase, List.filter_cons, h] using ih
    · simp only [erase, List.filter_cons, ne_eq, h, not_false_eq_true, decide_true, if_true, get]
      simpa [erase] using ih

theorem get_erase_ne (fs : FS) {p q : Path} (h : q ≠ p) : get (erase fs p) q = get fs q := by
  induction fs with
  | nil => rfl
  | cons kv t ih =>
    obtain ⟨k, v⟩ := kv
    by_cases hk : k = p
    · subst hk
      have : k ≠ q := fun e => h e.symm
      simpa [erase, List.filter_cons, get, this] using ih
    · simp only [erase, List.filter_cons, ne_eq, hk, not_false_eq_true, decide_true, if_true, get]
      by_cases hq : k = q
      · simp [hq]
      · simpa [hq, erase] using ih

theorem get_set_eq (fs : FS) (p : Path) (c : Bytes) : get (set fs p c) p = some c := by
  simp [set, get]

theorem get_set_ne (fs : FS) {p q : Path} (c : Bytes) (h : q ≠ p) : get (set fs p c) q = get fs q := by
  have : p ≠ q := fun e => h e.symm
  simp [set, get, this, get_erase_ne fs h]

theorem get_set (fs : FS) (p q : Path) (c : Bytes) :
    get (set fs p c) q = if q = p then some c else get fs q := by
  by_cases h : q = p
  · subst h; simp [get_set_eq]
  · simp [h, get_set_ne fs c h]

theorem get_erase (fs : FS) (p q : Path) :
    get (erase fs p) q = if q = p then none else get fs q := by
  by_cases h : q = p
  · subst h; simp [get_erase_eq]
  · simp [h, get_erase_ne fs h]

theorem ne_tmp_of_user {q : Path} (hq : q.isTmp = false) (k : Nat) : q ≠ .tmp k := by
  intro h; subst h; simp [Path.isTmp] at hq

theorem get_set_tmp {q : Path} (hq : q.isTmp = false) (fs : FS) (k : Nat) (c : Bytes) :
    get (set fs (.tmp k) c) q = get fs q := get_set_ne fs c (ne_tmp_of_user hq k)

theorem get_erase_tmp {q : Path} (hq : q.isTmp = false) (fs : FS) (k : Nat) :
    get (erase fs (.tmp k)) q = get fs q := get_erase_ne fs (ne_tmp_of_user hq k)

/-! ## deferred opens -/

/-- A deferred open never changes a file that is not a temporary file. -/
theorem openOp_user (st : State) (p : Path) (m : Mode) (d : Bytes) {q : Path} (hq : q.isTmp = false) :
    get (openOp st p m d).1.fs q = get st.fs q := by
  unfold openOp
  repeat' split
  all_goals simp [get_set_tmp hq]

theorem runOpens_user (ops : List OpenReq) (st : State) {q : Path} (hq : q.isTmp = false) :
    get (runOpens st ops).fs q = get st.fs q := by
  induction ops generalizing st with
  | nil => rfl
  | cons o t ih =>
    simp only [runOpens, List.foldl_cons] at ih ⊢
    rw [ih, openOp_user _ _ _ _ hq]

theorem closeFs_user (l : List Entry) (fs : FS) {q : Path} (hq : q.isTmp = false) :
    get (closeFs fs l) q = get fs q := by
  induction l generalizing fs with
  | nil => rfl
  | cons e t ih => simp only [closeFs]; rw [ih, get_erase_tmp hq]

theorem closeFs_tmp (l : List Entry) (fs : FS) (k : Nat) :
    get (closeFs fs l) (.tmp k) = if k ∈ l.map Entry.tmp then none else get fs (.tmp k) := by
  induction l generalizing fs with
  | nil => simp [closeFs]
  | cons e t ih =>
    simp only [closeFs, ih, List.map_cons, List.mem_cons]
    by_cases h1 : k ∈ t.map Entry.tmp
    · simp [h1]
    · by_cases h2 : k = e.tmp
      · subst h2; simp [get_erase_eq]
      · have : Path.tmp k ≠ Path.tmp e.tmp := by intro h; injection h; contradiction
        simp [h1, h2, get_erase_ne _ this]

/-! ## the pending table -/

theorem findEntry_some {l : List Entry} {p : Path} {e : Entry} (h : findEntry l p = some e) :
    e ∈ l ∧ e.dest = p := by
  induction l with
  | nil => simp [findEntry] at h
  | cons a t ih =>
    simp only [findEntry] at h
    split at h
    · cases h; simp [*]
    · have := ih h; simp [this]

theorem findEntry_none {l : List Entry} {p : Path} : findEntry l p = none ↔ p ∉ l.map Entry.dest := by
  induction l with
  | nil => simp [findEntry]
  | cons a t ih =>
    simp only [findEntry, List.map_cons, List.mem_cons, not_or]
    split
    · rename_i h; simp [h]
    · rename_i h; rw [ih]; constructor
      · intro h2; exact ⟨fun e => h e.symm, h2⟩
      · intro h2; exact h2.2

theorem setModeFirst_dest (l : List Entry) (p : Path) (m : Mode) :
    (setModeFirst l p m).map Entry.dest = l.map Entry.dest := by
  induction l with
  | nil => rfl
  | cons a t ih => simp only [setModeFirst]; split <;> simp [ih]

theorem setModeFirst_tmp (l : List Entry) (p : Path) (m : Mode) :
    (setModeFirst l p m).map Entry.tmp = l.map Entry.tmp := by
  induction l with
  | nil => rfl
  | cons a t ih => simp only [setModeFirst]; split <;> simp [ih]

theorem mem_setModeFirst {l : List Entry} {p : Path} {m : Mode} {e : Entry} (h : e ∈ setModeFirst l p m) :
    e ∈ l ∨ (e.mode = m ∧ e.dest = p ∧ ∃ e0 ∈ l, e0.tmp = e.tmp ∧ e0.dest = p) := by
  induction l with
  | nil => simp [setModeFirst] at h
  | cons a t ih =>
    simp only [setModeFirst] at h
    split at h
    · rename_i hd
      rcases List.mem_cons.1 h with h | h
      · subst h; right; exact ⟨rfl, hd, a, by simp, rfl, hd⟩
      · left; simp [h]
    · rcases List.mem_cons.1 h with h | h
      · left; simp [h]
      · rcases ih h with h | ⟨h1, h2, e0, h3, h4⟩
        · left; simp [h]
        · right; exact ⟨h1, h2, e0, by simp [h3], h4⟩

/-- What a deferred open does to the state, by cases. -/
theorem openOp_shape (st : State) (p : Path) (m : Mode) (d : Bytes) :
    (∃ e, findEntry st.pending p = some e ∧ (openOp st p m d).1.next = st.next
        ∧ ((openOp st p m d).1.pending = st.pending
            ∨ ((openOp st p m d).1.pending = setModeFirst st.pending p m ∧ m.hasW = true))
        ∧ ((openOp st p m d).1.fs = st.fs ∨ ∃ c, (openOp st p m d).1.fs = set st.fs (.tmp e.tmp) c))
    ∨ (findEntry st.pending p = none ∧ (openOp st p m d).1 = st)
    ∨ (findEntry st.pending p = none ∧ (m.hasPlus || m.hasA || m.hasW) = true
        ∧ ∃ c, (openOp st p m d).1 =
            { fs := set st.fs (.tmp st.next) c, pending := st.pending ++ [{ tmp := st.next, dest := p, mode := m }],
              next := st.next + 1 }) := by
  unfold openOp
  cases hf : findEntry st.pending p with
  | some e =>
    left
    refine ⟨e, rfl, ?_⟩
    cases m <;> cases hm : e.mode <;> simp [hm, Mode.hasW, Mode.hasA] <;> (try exact Or.inr ⟨_, rfl⟩)
  | none =>
    right
    by_cases hm : (m.hasPlus || m.hasA || m.hasW) = true
    · simp only [if_pos hm]
      split
      · split
        · left; exact ⟨trivial, rfl⟩
        · right; exact ⟨trivial, hm, _, rfl⟩
      · right; exact ⟨trivial, hm, _, rfl⟩
    · left
      refine ⟨rfl, ?_⟩
      have hm' : (m.hasPlus || m.hasA || m.hasW) = false := by simpa using hm
      simp only [hm', Bool.false_eq_true, if_false]
      split
      · split <;> rfl
      · rfl

/-! ## well-formed writer states -/

/-- no temporary file in the file system -/
def NoTmp (fs : FS) : Prop := ∀ k, get fs (.tmp k) = none

/-- Invariant of the states reachable from an empty writer by deferred opens. -/
structure WF (st : State) : Prop where
  tmp_lt : ∀ k ∈ st.pending.map Entry.tmp, k < st.next
  tmp_nodup : (st.pending.map Entry.tmp).Nodup
  dest_nodup : (st.pending.map Entry.dest).Nodup
  dest_user : ∀ q ∈ st.pending.map Entry.dest, q.isTmp = false
  mode_ok : ∀ e ∈ st.pending, (e.mode.hasPlus || e.mode.hasA || e.mode.hasW) = true
  tmp_exists : ∀ k ∈ st.pending.map Entry.tmp, get st.fs (.tmp k) ≠ none
  owned : ∀ k, get st.fs (.tmp k) ≠ none → k ∈ st.pending.map Entry.tmp

theorem init_wf {fs : FS} (h : NoTmp fs) : WF (init fs) := by
  constructor <;> simp [init]
  intro k; exact h k

theorem tmp_inj {a b : Nat} : Path.tmp a = Path.tmp b ↔ a = b := by
  constructor
  · intro h; injection h
  · intro h; rw [h]

theorem openOp_wf {st : State} (h : WF st) {p : Path} (hp : p.isTmp = false) (m : Mode) (d : Bytes) :
    WF (openOp st p m d).1 := by
  rcases openOp_shape st p m d with ⟨e, hf, hn, hpend, hfs⟩ | ⟨_, heq⟩ | ⟨hf, hm, c, heq⟩
  · have he := findEntry_some hf
    have hmapt : (openOp st p m d).1.pending.map Entry.tmp = st.pending.map Entry.tmp := by
      rcases hpend with h1 | ⟨h1, _⟩ <;> rw [h1]; exact setModeFirst_tmp _ _ _
    have hmapd : (openOp st p m d).1.pending.map Entry.dest = st.pending.map Entry.dest := by
      rcases hpend with h1 | ⟨h1, _⟩ <;> rw [h1]; exact setModeFirst_dest _ _ _
    have hget : ∀ k, get (openOp st p m d).1.fs (.tmp k) ≠ none ↔ (k = e.tmp ∨ get st.fs (.tmp k) ≠ none) := by
      intro k
      have hex := h.tmp_exists e.tmp (List.mem_map_of_mem he.1)
      rcases hfs with h1 | ⟨c, h1⟩ <;> rw [h1]
      · constructor
        · intro h2; exact Or.inr h2
        · rintro (h2 | h2)
          · rw [h2]; exact hex
          · exact h2
      · rw [get_set]
        by_cases hk : k = e.tmp
        · simp [hk]
        · simp [hk]
    constructor
    · rw [hmapt, hn]; exact h.tmp_lt
    · rw [hmapt]; exact h.tmp_nodup
    · rw [hmapd]; exact h.dest_nodup
    · rw [hmapd]; exact h.dest_user
    · intro e' he'
      rcases hpend with h1 | ⟨h1, hw⟩
      · rw [h1] at he'; exact h.mode_ok e' he'
      · rw [h1] at he'
        rcases mem_setModeFirst he' with h2 | ⟨h2, _⟩
        · exact h.mode_ok e' h2
        · rw [h2, hw]; simp
    · intro k hk
      rw [hmapt] at hk
      exact (hget k).2 (Or.inr (h.tmp_exists k hk))
    · intro k hk
      rw [hmapt]
      rcases (hget k).1 hk with h2 | h2
      · rw [h2]; exact List.mem_map_of_mem he.1
      · exact h.owned k h2
  · rw [heq]; exact h
  · rw [heq]
    have hfresh : st.next ∉ st.pending.map Entry.tmp := fun hh => Nat.lt_irrefl _ (h.tmp_lt _ hh)
    constructor
    · intro k hk
      simp only [List.map_append, List.mem_append, List.map_cons, List.map_nil, List.mem_singleton] at hk
      rcases hk with hk | hk
      · exact Nat.lt_succ_of_lt (h.tmp_lt k hk)
      · rw [hk]; exact Nat.lt_succ_self _
    · simp only [List.map_append, List.map_cons, List.map_nil]
      rw [List.nodup_append]
      refine ⟨h.tmp_nodup, by simp, ?_⟩
      intro a ha b hb
      simp only [List.mem_singleton] at hb
      rw [hb]; intro hab; rw [hab] at ha; exact hfresh ha
    · simp only [List.map_append, List.map_cons, List.map_nil]
      rw [List.nodup_append]
      refine ⟨h.dest_nodup, by simp, ?_⟩
      intro a ha b hb
      simp only [List.mem_singleton] at hb
      rw [hb]; intro hab; rw [hab] at ha; exact (findEntry_none.1 hf) ha
    · intro q hq
      simp only [List.map_append, List.mem_append, List.map_cons, List.map_nil, List.mem_singleton] at hq
      rcases hq with hq | hq
      · exact h.dest_user q hq
      · rw [hq]; exact hp
    · intro e' he'
      simp only [List.mem_append, List.mem_singleton] at he'
      rcases he' with he' | he'
      · exact h.mode_ok e' he'
      · rw [he']; exact hm
    · intro k hk
      simp only [List.map_append, List.mem_append, List.map_cons, List.map_nil, List.mem_singleton] at hk
      simp only [get_set, tmp_inj]
      split
      · simp
      · rcases hk with hk | hk
        · exact h.tmp_exists k hk
        · contradiction
    · intro k hk
      simp only [get_set, tmp_inj] at hk
      simp only [List.map_append, List.mem_append, List.map_cons, List.map_nil, List.mem_singleton]
      split at hk
      · right; assumption
      · left; exact h.owned k hk

theorem runOpens_wf (ops : List OpenReq) {st : State} (h : WF st) (hu : ∀ o ∈ ops, o.1.isTmp = false) :
    WF (runOpens st ops) := by
  induction ops generalizing st with
  | nil => exact h
  | cons o t ih =>
    simp only [runOpens, List.foldl_cons] at ih ⊢
    exact ih (openOp_wf h (hu o (by simp)) _ _) (fun o' ho' => hu o' (by simp [ho']))

/-! ## first free backup name -/

theorem firstFreeGo_spec (fs : FS) (p : Path) : ∀ fuel n,
    n ≤ firstFreeGo fs p fuel n ∧ firstFreeGo fs p fuel n ≤ n + fuel
    ∧ (∀ m, n ≤ m → m < firstFreeGo fs p fuel n → get fs (.bak p m) ≠ none)
    ∧ (firstFreeGo fs p fuel n < n + fuel → get fs (.bak p (firstFreeGo fs p fuel n)) = none) := by
  intro fuel
  induction fuel with
  | zero => intro n; simp [firstFreeGo]; intro m h1 h2; omega
  | succ f ih =>
    intro n
    simp only [firstFreeGo]
    split
    · rename_i h
      refine ⟨Nat.le_refl _, by omega, ?_, fun _ => h⟩
      intro m h1 h2; omega
    · rename_i h
      obtain ⟨a, b, c, d⟩ := ih (n + 1)
      refine ⟨by omega, by omega, ?_, ?_⟩
      · intro m h1 h2
        by_cases hm : m = n
        · rw [hm]; exact h
        · exact c m (by omega) h2
      · intro h3; exact d (by omega)

/-- pigeonhole: distinct existing names are at most as many as the entries of the table -/
theorem length_le_of_all_present : ∀ (fs : FS) (S : List Path), S.Nodup → (∀ q ∈ S, get fs q ≠ none) →
    S.length ≤ fs.length := by
  intro fs
  induction fs with
  | nil =>
    intro S _ h
    cases S with
    | nil => simp
    | cons a t => exact absurd rfl (h a (by simp))
  | cons kv t ih =>
    intro S hn h
    obtain ⟨k, v⟩ := kv
    have h1 : (S.erase k).Nodup := hn.erase k
    have h2 : ∀ q ∈ S.erase k, get t q ≠ none := by
      intro q hq
      have := (List.Nodup.mem_erase_iff hn).1 hq
      have hg := h q this.2
      simp only [get] at hg
      have hne : ¬ k = q := fun e => this.1 e.symm
      simpa [hne] using hg
    have h3 := ih (S.erase k) h1 h2
    have h4 : S.length ≤ (S.erase k).length + 1 := by
      rw [List.length_erase]; split <;> omega
    simp only [List.length_cons]
    omega

theorem firstFreeIdx_spec (fs : FS) (p : Path) :
    1 ≤ firstFreeIdx fs p ∧ get fs (.bak p (firstFreeIdx fs p)) = none
    ∧ ∀ m, 1 ≤ m → m < firstFreeIdx fs p → get fs (.bak p m) ≠ none := by
  obtain ⟨a, b, c, d⟩ := firstFreeGo_spec fs p (fs.length + 1) 1
  refine ⟨a, ?_, c⟩
  by_cases hlt : firstFreeGo fs p (fs.length + 1) 1 < 1 + (fs.length + 1)
  · exact d hlt
  · exfalso
    have heq : firstFreeGo fs p (fs.length + 1) 1 = fs.length + 2 := by omega
    let S := (List.range' 1 (fs.length + 1)).map (fun n => Path.bak p n)
    have hS : S.Nodup := by
      have hr : (List.range' 1 (fs.length + 1)).Nodup := List.nodup_range'
      exact List.Pairwise.map (fun n => Path.bak p n) (fun {a b} hab h => hab (by injection h)) hr
    have hall : ∀ q ∈ S, get fs q ≠ none := by
      intro q hq
      simp only [S, List.mem_map, List.mem_range'_1] at hq
      obtain ⟨n, ⟨h1, h2⟩, rfl⟩ := hq
      exact c n h1 (by omega)
    have := length_le_of_all_present fs S hS hall
    simp [S] at this
    omega

theorem firstFreeIdx_unique {fs : FS} {p : Path} {n : Nat} (h1 : 1 ≤ n) (h2 : get fs (.bak p n) = none)
    (h3 : ∀ m, 1 ≤ m → m < n → get fs (.bak p m) ≠ none) : firstFreeIdx fs p = n := by
  obtain ⟨a, b, c⟩ := firstFreeIdx_spec fs p
  rcases Nat.lt_trichotomy (firstFreeIdx fs p) n with h | h | h
  · exact absurd b (h3 _ a h)
  · exact h
  · exact absurd h2 (c n h1 h)

/-! ## atomic steps -/

theorem get_move {fs : FS} {src dst : Path} {c : Bytes} (h : get fs src = some c) (q : Path) :
    get (applyStep fs (.move src dst)) q
      = if q = dst then some c else if q = src then none else get fs q := by
  simp only [applyStep, h, get_set, get_erase]

theorem get_move_missing {fs : FS} {src dst : Path} (h : get fs src = none) :
    applyStep fs (.move src dst) = fs := by
  simp only [applyStep, h]

theorem get_touch (fs : FS) (p q : Path) :
    get (applyStep fs (.touch p)) q = if q = p then some ((get fs p).getD []) else get fs q := by
  simp only [applyStep]
  split
  · rename_i h; simp [get_set, h]
  · rename_i h
    by_cases hq : q = p
    · subst hq
      cases hg : get fs q with
      | none => exact absurd hg h
      | some x => simp
    · simp [hq]

theorem get_append (fs : FS) (dst src q : Path) :
    get (applyStep fs (.append dst src)) q
      = if q = dst then some ((get fs dst).getD [] ++ (get fs src).getD []) else get fs q := by
  simp only [applyStep, get_set]

theorem get_remove (fs : FS) (p q : Path) :
    get (applyStep fs (.remove p)) q = if q = p then none else get fs q := by
  simp only [applyStep, get_erase]

/-! ## one entry of the pending table -/

theorem bak_ne_self (p : Path) (n : Nat) : Path.bak p n ≠ p := by
  intro h
  have := congrArg sizeOf h
  simp at this
  omega

/-- the file system after `write()` has processed one popped entry completely -/
def entryFs (fs : FS) (e : Entry) : FS :=
  match entrySteps fs e with
  | some s => applySteps fs s
  | none => fs

theorem user_ne_tmp {p : Path} (h : p.isTmp = false) (k : Nat) : Path.tmp k ≠ p := by
  intro e; subst e; simp [Path.isTmp] at h

theorem writeish_iff {m : Mode} : m.writeish = true ↔ m.hasA = false ∧ (m.hasW || m.hasPlus) = true := by
  cases m <;> simp [Mode.writeish, Mode.hasA, Mode.hasW, Mode.hasPlus]

theorem entry_write_get {fs : FS} {e : Entry} (hw : e.mode.writeish = true) (hu : e.dest.isTmp = false)
    {t : Bytes} (ht : get fs (.tmp e.tmp) = some t) (q : Path) :
    get (entryFs fs e) q =
      if q = e.dest then some t
      else if q = .tmp e.tmp then none
      else if q = .bak e.dest (firstFreeIdx fs e.dest) ∧ get fs e.dest ≠ none then get fs e.dest
      else get fs q := by
  have htd : Path.tmp e.tmp ≠ e.dest := user_ne_tmp hu _
  obtain ⟨hA, hWP⟩ := writeish_iff.1 hw
  unfold entryFs entrySteps firstFree
  simp only [hA, hWP, Bool.false_eq_true, if_false, if_true]
  by_cases hd : get fs e.dest = none
  · simp only [hd, if_true, ne_eq, not_true_eq_false, if_false, List.nil_append, applySteps, List.foldl_cons,
      List.foldl_nil]
    rw [get_move ht]
    simp
  · obtain ⟨c, hc⟩ := Option.ne_none_iff_exists'.1 hd
    have hne : Path.bak e.dest (firstFreeIdx fs e.dest) ≠ e.dest := bak_ne_self _ _
    simp only [hd, if_false, ne_eq, hne, not_false_eq_true, if_true, List.cons_append, List.nil_append, applySteps,
      List.foldl_cons, List.foldl_nil]
    have ht' : get (applyStep fs (.move e.dest (.bak e.dest (firstFreeIdx fs e.dest)))) (.tmp e.tmp) = some t := by
      rw [get_move hc]
      have h1 : Path.tmp e.tmp ≠ Path.bak e.dest (firstFreeIdx fs e.dest) := by intro h; cases h
      simp [h1, htd, ht]
    rw [get_move ht', get_move hc]
    by_cases h1 : q = e.dest
    · simp [h1]
    · by_cases h2 : q = .tmp e.tmp
      · simp [h2, htd]
      · simp [h1, h2, hc]

theorem entry_append_get {fs : FS} {e : Entry} (hm : e.mode.hasA = true) (hu : e.dest.isTmp = false) (q : Path) :
    get (entryFs fs e) q =
      if q = .tmp e.tmp then none
      else if q = e.dest then some ((get fs e.dest).getD [] ++ (get fs (.tmp e.tmp)).getD [])
      else get fs q := by
  have htd : Path.tmp e.tmp ≠ e.dest := user_ne_tmp hu _
  unfold entryFs entrySteps
  simp only [hm, if_true, applySteps, List.foldl_cons, List.foldl_nil]
  simp only [get_remove, get_append, get_touch]
  by_cases h1 : q = .tmp e.tmp
  · simp [h1]
  · by_cases h2 : q = e.dest
    · simp [h1, h2, htd]
    · simp [h1, h2]

theorem entrySteps_none_fs {fs : FS} {e : Entry} (h : entrySteps fs e = none) : entryFs fs e = fs := by
  simp [entryFs, h]

/-- the stored modes that `open` can produce are `w`-like (`w`, `w+`, `r+`) or append-like (`a`, `a+`) -/
theorem mode_cases {m : Mode} (h : (m.hasPlus || m.hasA || m.hasW) = true) :
    m.writeish = true ∨ m.hasA = true := by
  cases m <;> simp [Mode.hasPlus, Mode.hasA, Mode.hasW, Mode.writeish] at h ⊢

theorem finalizeAll_cons (fs : FS) (e : Entry) (rest : List Entry)
    (h : (e.mode.hasPlus || e.mode.hasA || e.mode.hasW) = true) :
    finalizeAll fs (e :: rest) = finalizeAll (entryFs fs e) rest := by
  have : ∃ s, entrySteps fs e = some s := by
    rcases mode_cases h with h1 | h1
    · obtain ⟨hA, hWP⟩ := writeish_iff.1 h1
      simp [entrySteps, hA, hWP]
    · simp [entrySteps, h1]
  obtain ⟨s, hs⟩ := this
  simp [finalizeAll, entryFs, hs]

/-! ## complete finalisation -/

/-- what `write()` needs to know about the pending table and the file system -/
structure FinOK (fs : FS) (l : List Entry) : Prop where
  tmp_nodup : (l.map Entry.tmp).Nodup
  dest_nodup : (l.map Entry.dest).Nodup
  dest_user : ∀ q ∈ l.map Entry.dest, q.isTmp = false
  mode_ok : ∀ e ∈ l, (e.mode.hasPlus || e.mode.hasA || e.mode.hasW) = true
  tmp_exists : ∀ k ∈ l.map Entry.tmp, get fs (.tmp k) ≠ none

theorem WF.finOK {st : State} (h : WF st) : FinOK st.fs st.pending :=
  ⟨h.tmp_nodup, h.dest_nodup, h.dest_user, h.mode_ok, h.tmp_exists⟩

theorem entry_frame {fs : FS} {e : Entry} (hm : (e.mode.hasPlus || e.mode.hasA || e.mode.hasW) = true)
    (hu : e.dest.isTmp = false) (hex : get fs (.tmp e.tmp) ≠ none) {q : Path}
    (h1 : q ≠ e.dest) (h2 : q ≠ .tmp e.tmp) (h3 : get fs q ≠ none ∨ ∀ n, q ≠ .bak e.dest n) :
    get (entryFs fs e) q = get fs q := by
  rcases mode_cases hm with hw | ha
  · obtain ⟨t, ht⟩ := Option.ne_none_iff_exists'.1 hex
    rw [entry_write_get hw hu ht]
    simp only [h1, h2, if_false]
    split
    · rename_i h
      exfalso
      rcases h3 with h3 | h3
      · rw [h.1] at h3; exact h3 (firstFreeIdx_spec fs e.dest).2.1
      · exact h3 _ h.1
    · rfl
  · rw [entry_append_get ha hu]
    simp [h1, h2]

theorem FinOK.tail {fs : FS} {e : Entry} {rest : List Entry} (h : FinOK fs (e :: rest)) :
    FinOK (entryFs fs e) rest := by
  have hn := h.tmp_nodup
  simp only [List.map_cons, List.nodup_cons] at hn
  have hd := h.dest_nodup
  simp only [List.map_cons, List.nodup_cons] at hd
  refine ⟨hn.2, hd.2, fun q hq => h.dest_user q (by simp [hq]), fun e' he' => h.mode_ok e' (by simp [he']), ?_⟩
  intro k hk
  have hne : k ≠ e.tmp := fun hh => hn.1 (hh ▸ hk)
  rw [entry_frame (h.mode_ok e (by simp)) (h.dest_user e.dest (by simp)) (h.tmp_exists e.tmp (by simp))]
  · exact h.tmp_exists k (by simp [hk])
  · exact user_ne_tmp (h.dest_user e.dest (by simp)) k
  · simpa [tmp_inj] using hne
  · right; intro n hh; cases hh

/-- Files that are neither a destination nor a temporary file of the pending table, and that exist or are
not a backup name of a destination, are not touched by `write()`. -/
theorem finalizeAll_frame : ∀ (l : List Entry) (fs : FS), FinOK fs l → ∀ q : Path,
    (∀ e ∈ l, q ≠ e.dest ∧ q ≠ .tmp e.tmp) →
    (get fs q ≠ none ∨ ∀ e ∈ l, ∀ n, q ≠ .bak e.dest n) →
    get (finalizeAll fs l) q = get fs q := by
  intro l
  induction l with
  | nil => intro fs _ q _ _; rfl
  | cons e rest ih =>
    intro fs hok q h1 h2
    rw [finalizeAll_cons _ _ _ (hok.mode_ok e (by simp))]
    have hfr : get (entryFs fs e) q = get fs q :=
      entry_frame (hok.mode_ok e (by simp)) (hok.dest_user e.dest (by simp)) (hok.tmp_exists e.tmp (by simp))
        (h1 e (by simp)).1 (h1 e (by simp)).2
        (h2.elim Or.inl (fun h => Or.inr (h e (by simp))))
    rw [ih (entryFs fs e) hok.tail q (fun e' he' => h1 e' (by simp [he']))]
    · exact hfr
    · rcases h2 with h2 | h2
      · left; rw [hfr]; exact h2
      · right; intro e' he'; exact h2 e' (by simp [he'])

theorem mem_map_dest {l : List Entry} {e : Entry} (h : e ∈ l) : e.dest ∈ l.map Entry.dest :=
  List.mem_map_of_mem h
theorem mem_map_tmp {l : List Entry} {e : Entry} (h : e ∈ l) : e.tmp ∈ l.map Entry.tmp :=
  List.mem_map_of_mem h

/-- a destination finalised first is not touched by the rest of `write()` -/
theorem finalizeAll_keeps_done {fs : FS} {e : Entry} {rest : List Entry} (hok : FinOK fs (e :: rest))
    {fs1 : FS} (hok1 : FinOK fs1 rest) {q : Path} (hq : q.isTmp = false)
    (hnd : q ∉ rest.map Entry.dest) (hex : get fs1 q ≠ none) :
    get (finalizeAll fs1 rest) q = get fs1 q := by
  apply finalizeAll_frame rest fs1 hok1 q
  · intro e' he'
    refine ⟨fun hh => hnd (hh ▸ mem_map_dest he'), fun hh => ?_⟩
    rw [hh] at hq; simp [Path.isTmp] at hq
  · exact Or.inl hex

theorem finalizeAll_content_w : ∀ (l : List Entry) (fs : FS), FinOK fs l → ∀ e ∈ l, e.mode.writeish = true →
    ∀ t, get fs (.tmp e.tmp) = some t → get (finalizeAll fs l) e.dest = some t := by
  intro l
  induction l with
  | nil => intro fs _ e he; cases he
  | cons e0 rest ih =>
    intro fs hok e he hw t ht
    rw [finalizeAll_cons _ _ _ (hok.mode_ok e0 (by simp))]
    have hn := hok.tmp_nodup
    simp only [List.map_cons, List.nodup_cons] at hn
    have hd := hok.dest_nodup
    simp only [List.map_cons, List.nodup_cons] at hd
    rcases List.mem_cons.1 he with rfl | he'
    · have hv : get (entryFs fs e) e.dest = some t := by
        rw [entry_write_get hw (hok.dest_user e.dest (by simp)) ht]; simp
      rw [finalizeAll_keeps_done hok hok.tail (hok.dest_user e.dest (by simp)) hd.1 (by rw [hv]; simp)]
      exact hv
    · apply ih (entryFs fs e0) hok.tail e he' hw t
      rw [entry_frame (hok.mode_ok e0 (by simp)) (hok.dest_user e0.dest (by simp)) (hok.tmp_exists e0.tmp (by simp))]
      · exact ht
      · exact user_ne_tmp (hok.dest_user e0.dest (by simp)) _
      · have : e.tmp ≠ e0.tmp := fun hh => hn.1 (hh ▸ mem_map_tmp he')
        simpa [tmp_inj] using this
      · left; rw [ht]; simp

theorem finalizeAll_content_a : ∀ (l : List Entry) (fs : FS), FinOK fs l → ∀ e ∈ l, e.mode.hasA = true →
    ∀ t, get fs (.tmp e.tmp) = some t →
    (get fs e.dest ≠ none ∨ ∀ e' ∈ l, ∀ n, e.dest ≠ .bak e'.dest n) →
    get (finalizeAll fs l) e.dest = some ((get fs e.dest).getD [] ++ t) := by
  intro l
  induction l with
  | nil => intro fs _ e he; cases he
  | cons e0 rest ih =>
    intro fs hok e he ha t ht hfree
    rw [finalizeAll_cons _ _ _ (hok.mode_ok e0 (by simp))]
    have hn := hok.tmp_nodup
    simp only [List.map_cons, List.nodup_cons] at hn
    have hd := hok.dest_nodup
    simp only [List.map_cons, List.nodup_cons] at hd
    rcases List.mem_cons.1 he with rfl | he'
    · have hu := hok.dest_user e.dest (by simp)
      have hv : get (entryFs fs e) e.dest = some ((get fs e.dest).getD [] ++ t) := by
        rw [entry_append_get ha hu]
        have : e.dest ≠ Path.tmp e.tmp := fun hh => user_ne_tmp hu _ hh.symm
        simp [this, ht]
      rw [finalizeAll_keeps_done hok hok.tail hu hd.1 (by rw [hv]; simp)]
      exact hv
    · have hu0 := hok.dest_user e0.dest (by simp)
      have hne : e.dest ≠ e0.dest := fun hh => hd.1 (hh ▸ mem_map_dest he')
      have hu := hok.dest_user e.dest (by simp [mem_map_dest he'])
      have hsame : get (entryFs fs e0) e.dest = get fs e.dest := by
        apply entry_frame (hok.mode_ok e0 (by simp)) hu0 (hok.tmp_exists e0.tmp (by simp)) hne
        · intro hh; rw [hh] at hu; simp [Path.isTmp] at hu
        · exact hfree.elim Or.inl (fun h => Or.inr (h e0 (by simp)))
      have := ih (entryFs fs e0) hok.tail e he' ha t (by
        rw [entry_frame (hok.mode_ok e0 (by simp)) hu0 (hok.tmp_exists e0.tmp (by simp))]
        · exact ht
        · exact user_ne_tmp hu0 _
        · have : e.tmp ≠ e0.tmp := fun hh => hn.1 (hh ▸ mem_map_tmp he')
          simpa [tmp_inj] using this
        · left; rw [ht]; simp) (by
        rcases hfree with h | h
        · left; rw [hsame]; exact h
        · right; intro e' he''; exact h e' (by simp [he'']))
      rw [this, hsame]

/-- no temporary file of the pending table survives a complete `write()` -/
theorem finalizeAll_tmp_gone : ∀ (l : List Entry) (fs : FS), FinOK fs l → ∀ e ∈ l,
    get (finalizeAll fs l) (.tmp e.tmp) = none := by
  intro l
  induction l with
  | nil => intro fs _ e he; cases he
  | cons e0 rest ih =>
    intro fs hok e he
    rw [finalizeAll_cons _ _ _ (hok.mode_ok e0 (by simp))]
    have hn := hok.tmp_nodup
    simp only [List.map_cons, List.nodup_cons] at hn
    rcases List.mem_cons.1 he with rfl | he'
    · have hu := hok.dest_user e.dest (by simp)
      have hv : get (entryFs fs e) (.tmp e.tmp) = none := by
        rcases mode_cases (hok.mode_ok e (by simp)) with hw | ha
        · obtain ⟨t, ht⟩ := Option.ne_none_iff_exists'.1 (hok.tmp_exists e.tmp (by simp))
          rw [entry_write_get hw hu ht]
          simp [user_ne_tmp hu]
        · rw [entry_append_get ha hu]; simp
      rw [finalizeAll_frame rest _ hok.tail]
      · exact hv
      · intro e' he''
        refine ⟨user_ne_tmp (hok.dest_user e'.dest (by simp [mem_map_dest he''])) _, ?_⟩
        have : e.tmp ≠ e'.tmp := fun hh => hn.1 (hh ▸ mem_map_tmp he'')
        simpa [tmp_inj] using this
      · right; intro e' _ n hh; cases hh
    · exact ih (entryFs fs e0) hok.tail e he'

/-! ## interrupted finalisation -/

/-- `q'` is `q` or an (iterated) backup name `#…#q.n#…#` of `q` -/
inductive BackupOf : Path → Path → Prop where
  | refl (q : Path) : BackupOf q q
  | step {q q' : Path} (n : Nat) : BackupOf q q' → BackupOf q (.bak q' n)

theorem BackupOf.trans {a b c : Path} (h1 : BackupOf a b) (h2 : BackupOf b c) : BackupOf a c := by
  induction h2 with
  | refl => exact h1
  | step n _ ih => exact BackupOf.step n ih

theorem BackupOf.user {a b : Path} (h : BackupOf a b) (ha : a.isTmp = false) : b.isTmp = false := by
  cases h with
  | refl => exact ha
  | step n _ => rfl

/-- Every file of `fs` that is not a temporary file is still present in `fs'` under its own name or a backup
name; files that are destinations of append-mode entries (`A`) keep their name and may have grown; files that
are no destination at all (`¬ D`) are unchanged. -/
def Safe (A D : Path → Prop) (fs fs' : FS) : Prop :=
  ∀ q c, q.isTmp = false → get fs q = some c →
    ∃ q' c', BackupOf q q' ∧ get fs' q' = some c' ∧ (A q → q' = q) ∧ (¬ D q → q' = q ∧ c' = c)
      ∧ (c' = c ∨ (A q' ∧ c <+: c'))

theorem Safe.refl (A D : Path → Prop) (fs : FS) : Safe A D fs fs :=
  fun q c _ h => ⟨q, c, BackupOf.refl q, h, fun _ => rfl, fun _ => ⟨rfl, rfl⟩, Or.inl rfl⟩

theorem Safe.trans {A D : Path → Prop} {f1 f2 f3 : FS} (h12 : Safe A D f1 f2) (h23 : Safe A D f2 f3) :
    Safe A D f1 f3 := by
  intro q c hq hc
  obtain ⟨q1, c1, b1, g1, a1, d1, e1⟩ := h12 q c hq hc
  obtain ⟨q2, c2, b2, g2, a2, d2, e2⟩ := h23 q1 c1 (b1.user hq) g1
  refine ⟨q2, c2, b1.trans b2, g2, ?_, ?_, ?_⟩
  · intro hA
    have := a1 hA; subst this
    exact a2 hA
  · intro hD
    obtain ⟨r1, r2⟩ := d1 hD
    subst r1; subst r2
    exact d2 hD
  · rcases e1 with e1 | ⟨hA1, hp1⟩
    · subst e1; exact e2
    · have := a2 hA1; subst this
      right
      refine ⟨hA1, ?_⟩
      rcases e2 with e2 | ⟨_, hp2⟩
      · subst e2; exact hp1
      · exact hp1.trans hp2

theorem safe_of_user_eq {A D : Path → Prop} {fs fs' : FS}
    (h : ∀ q c, q.isTmp = false → get fs q = some c → get fs' q = some c) : Safe A D fs fs' :=
  fun q c hq hc => ⟨q, c, BackupOf.refl q, h q c hq hc, fun _ => rfl, fun _ => ⟨rfl, rfl⟩, Or.inl rfl⟩

theorem safe_move_tmp {A D : Path → Prop} {fs : FS} (k : Nat) {dst : Path} (hfree : get fs dst = none) :
    Safe A D fs (applyStep fs (.move (.tmp k) dst)) := by
  cases ht : get fs (.tmp k) with
  | none => rw [get_move_missing ht]; exact Safe.refl A D fs
  | some t =>
    apply safe_of_user_eq
    intro q c hq hc
    rw [get_move ht]
    have h1 : q ≠ dst := by intro hh; rw [hh, hfree] at hc; cases hc
    have h2 : q ≠ .tmp k := ne_tmp_of_user hq k
    simp [h1, h2, hc]

theorem safe_backup {A D : Path → Prop} {fs : FS} {src : Path} {n : Nat} {c0 : Bytes}
    (hsrc : get fs src = some c0) (hfree : get fs (.bak src n) = none) (hA : ¬ A src) (hD : D src) :
    Safe A D fs (applyStep fs (.move src (.bak src n))) := by
  intro q c hq hc
  by_cases hqs : q = src
  · subst hqs
    refine ⟨.bak q n, c0, BackupOf.step n (BackupOf.refl q), ?_, fun h => absurd h hA, fun h => absurd hD h, ?_⟩
    · rw [get_move hsrc]; simp
    · left; rw [hsrc] at hc; cases hc; rfl
  · refine ⟨q, c, BackupOf.refl q, ?_, fun _ => rfl, fun _ => ⟨rfl, rfl⟩, Or.inl rfl⟩
    rw [get_move hsrc]
    have h1 : q ≠ .bak src n := by intro hh; rw [hh, hfree] at hc; cases hc
    simp [h1, hqs, hc]

theorem safe_touch {A D : Path → Prop} (fs : FS) (p : Path) : Safe A D fs (applyStep fs (.touch p)) := by
  apply safe_of_user_eq
  intro q c _ hc
  rw [get_touch]
  split
  · rename_i h; subst h; simp [hc]
  · exact hc

theorem safe_append {A D : Path → Prop} (fs : FS) {dst : Path} (src : Path) (hA : A dst) (hD : D dst) :
    Safe A D fs (applyStep fs (.append dst src)) := by
  intro q c hq hc
  by_cases hqd : q = dst
  · subst hqd
    refine ⟨q, c ++ (get fs src).getD [], BackupOf.refl q, ?_, fun _ => rfl, fun h => absurd hD h, ?_⟩
    · rw [get_append]; simp [hc]
    · right; exact ⟨hA, List.prefix_append _ _⟩
  · refine ⟨q, c, BackupOf.refl q, ?_, fun _ => rfl, fun _ => ⟨rfl, rfl⟩, Or.inl rfl⟩
    rw [get_append]; simp [hqd, hc]

theorem safe_remove_tmp {A D : Path → Prop} (fs : FS) (k : Nat) : Safe A D fs (applyStep fs (.remove (.tmp k))) := by
  apply safe_of_user_eq
  intro q c hq hc
  rw [get_remove]
  simp [ne_tmp_of_user hq k, hc]

/-- every prefix of the system calls made for one entry keeps all pre-existing files -/
theorem entry_prefix_safe {A D : Path → Prop} {fs : FS} {e : Entry} (hu : e.dest.isTmp = false)
    (hD : D e.dest) (hAw : e.mode.writeish = true → ¬ A e.dest) (hAa : e.mode.writeish = false → A e.dest)
    {steps : List Step} (hs : entrySteps fs e = some steps) (j : Nat) :
    Safe A D fs (applySteps fs (steps.take j)) := by
  unfold entrySteps at hs
  by_cases hA' : e.mode.hasA = true
  · have hw' : e.mode.writeish = false := by simp [Mode.writeish, hA']
    simp only [hA', if_true, Option.some.injEq] at hs
    subst hs
    have hA := hAa hw'
    match j with
    | 0 => exact Safe.refl A D fs
    | 1 =>
      simp only [List.take_succ_cons, List.take_zero, applySteps, List.foldl_cons, List.foldl_nil]
      exact safe_touch fs _
    | 2 =>
      simp only [List.take_succ_cons, List.take_zero, applySteps, List.foldl_cons, List.foldl_nil]
      exact (safe_touch fs _).trans (safe_append _ _ hA hD)
    | j + 3 =>
      simp only [List.take_succ_cons, List.take_nil, applySteps, List.foldl_cons, List.foldl_nil]
      exact ((safe_touch fs _).trans (safe_append _ _ hA hD)).trans (safe_remove_tmp _ _)
  · have hA'' : e.mode.hasA = false := by simpa using hA'
    by_cases hWP : (e.mode.hasW || e.mode.hasPlus) = true
    · have hw : e.mode.writeish = true := writeish_iff.2 ⟨hA'', hWP⟩
      simp only [hA'', hWP, Bool.false_eq_true, if_false, if_true, Option.some.injEq] at hs
      subst hs
      unfold firstFree
      by_cases hd : get fs e.dest = none
      · simp only [hd, if_true, ne_eq, not_true_eq_false, if_false, List.nil_append]
        match j with
        | 0 => exact Safe.refl A D fs
        | j + 1 =>
          simp only [List.take_succ_cons, List.take_nil, applySteps, List.foldl_cons, List.foldl_nil]
          exact safe_move_tmp _ hd
      · obtain ⟨c0, hc0⟩ := Option.ne_none_iff_exists'.1 hd
        have hne : Path.bak e.dest (firstFreeIdx fs e.dest) ≠ e.dest := bak_ne_self _ _
        simp only [hd, if_false, ne_eq, hne, not_false_eq_true, if_true, List.cons_append, List.nil_append]
        have hfree := (firstFreeIdx_spec fs e.dest).2.1
        have s1 := safe_backup (A := A) (D := D) hc0 hfree (hAw hw) hD
        match j with
        | 0 => exact Safe.refl A D fs
        | 1 =>
          simp only [List.take_succ_cons, List.take_zero, applySteps, List.foldl_cons, List.foldl_nil]
          exact s1
        | j + 2 =>
          simp only [List.take_succ_cons, List.take_nil, applySteps, List.foldl_cons, List.foldl_nil]
          refine s1.trans (safe_move_tmp _ ?_)
          rw [get_move hc0]
          simp [hne.symm]
    · have hWP' : (e.mode.hasW || e.mode.hasPlus) = false := by simpa using hWP
      simp only [hA'', hWP', Bool.false_eq_true, if_false] at hs
      cases hs

theorem finalizeFuel_safe {A D : Path → Prop} : ∀ (l : List Entry) (fuel : Nat) (fs : FS),
    (∀ e ∈ l, e.dest.isTmp = false) → (∀ e ∈ l, D e.dest) →
    (∀ e ∈ l, e.mode.writeish = true → ¬ A e.dest) → (∀ e ∈ l, e.mode.writeish = false → A e.dest) →
    Safe A D fs (finalizeFuel fuel fs l).1 := by
  intro l
  induction l with
  | nil => intro fuel fs _ _ _ _; exact Safe.refl A D fs
  | cons e rest ih =>
    intro fuel fs hu hD hAw hAa
    simp only [finalizeFuel]
    cases hs : entrySteps fs e with
    | none => exact Safe.refl A D fs
    | some steps =>
      have hp := fun j => entry_prefix_safe (A := A) (D := D) (hu e (by simp)) (hD e (by simp)) (hAw e (by simp))
        (hAa e (by simp)) hs j
      simp only []
      split
      · have h1 := hp steps.length
        rw [List.take_length] at h1
        exact h1.trans (ih _ _ (fun e' he' => hu e' (by simp [he'])) (fun e' he' => hD e' (by simp [he']))
          (fun e' he' => hAw e' (by simp [he'])) (fun e' he' => hAa e' (by simp [he'])))
      · exact hp fuel

/-! ## the backup copy -/

theorem finalizeAll_backup : ∀ (l : List Entry) (fs : FS), FinOK fs l →
    (∀ e1 ∈ l, ∀ e2 ∈ l, ∀ n, e1.dest ≠ .bak e2.dest n) →
    ∀ e ∈ l, e.mode.writeish = true → ∀ c, get fs e.dest = some c →
    get (finalizeAll fs l) (.bak e.dest (firstFreeIdx fs e.dest)) = some c := by
  intro l
  induction l with
  | nil => intro fs _ _ e he; cases he
  | cons e0 rest ih =>
    intro fs hok hH e he hw c hc
    rw [finalizeAll_cons _ _ _ (hok.mode_ok e0 (by simp))]
    have hd := hok.dest_nodup
    simp only [List.map_cons, List.nodup_cons] at hd
    rcases List.mem_cons.1 he with rfl | he'
    · have hu := hok.dest_user e.dest (by simp)
      obtain ⟨t, ht⟩ := Option.ne_none_iff_exists'.1 (hok.tmp_exists e.tmp (by simp))
      have hv : get (entryFs fs e) (.bak e.dest (firstFreeIdx fs e.dest)) = some c := by
        rw [entry_write_get hw hu ht]
        have h1 : Path.bak e.dest (firstFreeIdx fs e.dest) ≠ e.dest := bak_ne_self _ _
        have h2 : Path.bak e.dest (firstFreeIdx fs e.dest) ≠ Path.tmp e.tmp := by intro hh; cases hh
        simp [h1, h2, hc]
      rw [finalizeAll_frame rest _ hok.tail]
      · exact hv
      · intro e' he''
        refine ⟨fun hh => hH e' (by simp [he'']) e (by simp) _ hh.symm, fun hh => by cases hh⟩
      · left; rw [hv]; simp
    · have hu0 := hok.dest_user e0.dest (by simp)
      have hne : e.dest ≠ e0.dest := fun hh => hd.1 (hh ▸ mem_map_dest he')
      have hu := hok.dest_user e.dest (by simp [mem_map_dest he'])
      have hfr : ∀ q, q ≠ e0.dest → q ≠ .tmp e0.tmp → (get fs q ≠ none ∨ ∀ n, q ≠ .bak e0.dest n) →
          get (entryFs fs e0) q = get fs q := fun q =>
        entry_frame (hok.mode_ok e0 (by simp)) hu0 (hok.tmp_exists e0.tmp (by simp))
      have hsame : get (entryFs fs e0) e.dest = some c := by
        rw [hfr e.dest hne (fun hh => by rw [hh] at hu; simp [Path.isTmp] at hu) (Or.inl (by rw [hc]; simp))]
        exact hc
      have hbak : ∀ m, get (entryFs fs e0) (.bak e.dest m) = get fs (.bak e.dest m) := by
        intro m
        apply hfr
        · exact fun hh => hH e0 (by simp) e (by simp [he']) m hh.symm
        · intro hh; cases hh
        · right; intro n hh; injection hh with h1 _; exact hne h1
      have hidx : firstFreeIdx (entryFs fs e0) e.dest = firstFreeIdx fs e.dest := by
        obtain ⟨a, b, c'⟩ := firstFreeIdx_spec fs e.dest
        apply firstFreeIdx_unique a
        · rw [hbak]; exact b
        · intro m h1 h2; rw [hbak]; exact c' m h1 h2
      have := ih (entryFs fs e0) hok.tail
        (fun e1 h1 e2 h2 => hH e1 (by simp [h1]) e2 (by simp [h2])) e he' hw c hsame
      rw [hidx] at this
      exact this

/-! ## misc -/

theorem eq_of_dest_eq : ∀ {l : List Entry}, (l.map Entry.dest).Nodup → ∀ {e1 e2 : Entry}, e1 ∈ l → e2 ∈ l →
    e1.dest = e2.dest → e1 = e2 := by
  intro l
  induction l with
  | nil => intro _ e1 _ h; cases h
  | cons a t ih =>
    intro hn e1 e2 h1 h2 hd
    simp only [List.map_cons, List.nodup_cons] at hn
    rcases List.mem_cons.1 h1 with rfl | h1' <;> rcases List.mem_cons.1 h2 with rfl | h2'
    · rfl
    · exact absurd (hd ▸ mem_map_dest h2') hn.1
    · exact absurd (hd ▸ mem_map_dest h1') hn.1
    · exact ih hn.2 h1' h2' hd

theorem entrySteps_length_le {fs : FS} {e : Entry} {s : List Step} (h : entrySteps fs e = some s) : s.length ≤ 3 := by
  unfold entrySteps at h
  split at h
  · cases h; simp
  · split at h
    · cases h; simp only [List.length_append, List.length_cons, List.length_nil]; split <;> simp
    · cases h

/-- with enough fuel nothing is interrupted -/
theorem finalizeFuel_enough : ∀ (l : List Entry) (fuel : Nat) (fs : FS),
    (∀ e ∈ l, (e.mode.hasPlus || e.mode.hasA || e.mode.hasW) = true) → 3 * l.length ≤ fuel →
    finalizeFuel fuel fs l = (finalizeAll fs l, []) := by
  intro l
  induction l with
  | nil => intro fuel fs _ _; rfl
  | cons e rest ih =>
    intro fuel fs hm hf
    simp only [finalizeFuel, finalizeAll]
    cases hs : entrySteps fs e with
    | none =>
      exfalso
      rcases mode_cases (hm e (by simp)) with h1 | h1
      · obtain ⟨hA, hWP⟩ := writeish_iff.1 h1
        simp [entrySteps, hA, hWP] at hs
      · simp [entrySteps, h1] at hs
    | some steps =>
      have hl := entrySteps_length_le hs
      simp only [List.length_cons] at hf
      have : steps.length ≤ fuel := by omega
      simp only [this, if_true]
      exact ih _ _ (fun e' he' => hm e' (by simp [he'])) (by omega)

/-! ## deferred writing versus writing directly -/

/-- every mode but `r+` (in-place update) and `x`: `r`, `w`, `a`, `w+`, `a+` -/
def Mode.plain : Mode → Bool
  | .r | .w | .a | .wp | .ap => true
  | _ => false

theorem findEntry_append (l l' : List Entry) (q : Path) :
    findEntry (l ++ l') q = match findEntry l q with
      | some e => some e
      | none => findEntry l' q := by
  induction l with
  | nil => simp [findEntry]
  | cons a t ih =>
    simp only [List.cons_append, findEntry]
    split
    · rfl
    · exact ih

theorem findEntry_setModeFirst_ne (l : List Entry) {p q : Path} (m : Mode) (h : q ≠ p) :
    findEntry (setModeFirst l p m) q = findEntry l q := by
  induction l with
  | nil => rfl
  | cons a t ih =>
    simp only [setModeFirst]
    split
    · rename_i hd
      have : ¬ a.dest = q := fun hh => h (hh ▸ hd)
      simp [findEntry, hd, this, h.symm]
    · simp only [findEntry]; split
      · rfl
      · exact ih

theorem findEntry_setModeFirst_eq {l : List Entry} {p : Path} {e : Entry} (m : Mode) (h : findEntry l p = some e) :
    findEntry (setModeFirst l p m) p = some { e with mode := m } := by
  induction l with
  | nil => simp [findEntry] at h
  | cons a t ih =>
    simp only [findEntry] at h
    simp only [setModeFirst]
    split
    · rename_i hd
      simp only [hd, if_true, Option.some.injEq] at h
      subst h
      simp [findEntry, hd]
    · rename_i hd
      simp only [hd, if_false] at h
      simp only [findEntry, hd, if_false]
      exact ih h

/-- The direct-write file system `dfs` is tracked by the writer state: a name without pending entry is as
in the initial file system; a name with a `w`-like entry holds what its temporary holds; a name with an
append entry holds its initial contents followed by what its temporary holds. -/
def Tracks (fs0 : FS) (st : State) (dfs : FS) : Prop :=
  ∀ p, p.isTmp = false →
    match findEntry st.pending p with
    | none => get dfs p = get fs0 p
    | some e =>
        if e.mode.writeish = true then get dfs p = get st.fs (.tmp e.tmp)
        else get dfs p = some ((get fs0 p).getD [] ++ (get st.fs (.tmp e.tmp)).getD [])

theorem tracks_init (fs0 : FS) : Tracks fs0 (init fs0) fs0 := by
  intro p _; simp [init, findEntry]

theorem directOp_ne (dfs : FS) {p q : Path} (m : Mode) (d : Bytes) (h : q ≠ p) :
    get (directOp dfs (p, m, d)) q = get dfs q := by
  unfold directOp
  cases m <;> simp only [] <;> (try rw [get_set_ne _ _ h])
  split
  · rfl
  · rw [get_set_ne _ _ h]


theorem eq_of_tmp_eq : ∀ {l : List Entry}, (l.map Entry.tmp).Nodup → ∀ {e1 e2 : Entry}, e1 ∈ l → e2 ∈ l →
    e1.tmp = e2.tmp → e1 = e2 := by
  intro l
  induction l with
  | nil => intro _ e1 _ h; cases h
  | cons a t ih =>
    intro hn e1 e2 h1 h2 hd
    simp only [List.map_cons, List.nodup_cons] at hn
    rcases List.mem_cons.1 h1 with rfl | h1' <;> rcases List.mem_cons.1 h2 with rfl | h2'
    · rfl
    · exact absurd (hd ▸ mem_map_tmp h2') hn.1
    · exact absurd (hd ▸ mem_map_tmp h1') hn.1
    · exact ih hn.2 h1' h2' hd

theorem openOp_reopen_w {st : State} {p : Path} {e : Entry} (hf : findEntry st.pending p = some e)
    {m : Mode} (hm : m = .w ∨ m = .wp) (d : Bytes) :
    (openOp st p m d).1 = { fs := set st.fs (.tmp e.tmp) d,
                            pending := if e.mode.hasA = true then setModeFirst st.pending p m
                                       else st.pending,
                            next := st.next } := by
  rcases hm with rfl | rfl <;> (simp only [openOp, hf]; rfl)

theorem directOp_w (dfs : FS) (p : Path) {m : Mode} (hm : m = .w ∨ m = .wp) (d : Bytes) :
    directOp dfs (p, m, d) = set dfs p d := by
  rcases hm with rfl | rfl <;> rfl

theorem writeish_of_not {m : Mode} (hok : (m.hasPlus || m.hasA || m.hasW) = true) (hc : ¬ m.hasA = true) :
    m.writeish = true := by
  rcases mode_cases hok with h | h
  · exact h
  · exact absurd h hc

theorem tracks_reopen_w {fs0 : FS} {st : State} {dfs : FS} {q : Path} {e : Entry}
    (hf : findEntry st.pending q = some e) (hok : (e.mode.hasPlus || e.mode.hasA || e.mode.hasW) = true)
    {m : Mode} (hm : m = .w ∨ m = .wp) (d : Bytes) :
    match findEntry (openOp st q m d).1.pending q with
    | none => get (directOp dfs (q, m, d)) q = get fs0 q
    | some e =>
        if e.mode.writeish = true then get (directOp dfs (q, m, d)) q = get (openOp st q m d).1.fs (.tmp e.tmp)
        else get (directOp dfs (q, m, d)) q
              = some ((get fs0 q).getD [] ++ (get (openOp st q m d).1.fs (.tmp e.tmp)).getD []) := by
  rw [openOp_reopen_w hf hm, directOp_w dfs q hm]
  simp only []
  by_cases hc : e.mode.hasA = true
  · rw [if_pos hc, findEntry_setModeFirst_eq _ hf]
    simp only []
    have : m.writeish = true := by rcases hm with rfl | rfl <;> rfl
    rw [if_pos this, get_set_eq, get_set_eq]
  · rw [if_neg hc, hf]
    simp only []
    rw [if_pos (writeish_of_not hok hc), get_set_eq, get_set_eq]

theorem tracks_step {fs0 : FS} {st : State} {dfs : FS} (hwf : WF st) (ht : Tracks fs0 st dfs)
    {p : Path} (hp : p.isTmp = false) {m : Mode} (hm : m.plain = true) (d : Bytes) :
    Tracks fs0 (openOp st p m d).1 (directOp dfs (p, m, d)) := by
  intro q hq
  have htq := ht q hq
  by_cases hqp : q = p
  · -- the path that is opened
    subst hqp
    cases hf : findEntry st.pending q with
    | none =>
      rw [hf] at htq
      simp only [] at htq
      cases m <;> simp [Mode.plain] at hm
      · -- r
        have : (openOp st q .r d).1 = st := by
          unfold openOp; simp only [hf, Mode.hasPlus, Mode.hasA, Mode.hasW, Mode.hasR]
          simp; split <;> rfl
        rw [this, hf]; simpa [directOp] using htq
      all_goals
        unfold openOp directOp
        simp only [hf, Mode.hasPlus, Mode.hasA, Mode.hasW, Mode.hasR]
        simp [findEntry_append, hf, findEntry, Mode.writeish, Mode.hasW, Mode.hasPlus, Mode.hasA, get_set_eq, htq]
    | some e =>
      rw [hf] at htq
      simp only [] at htq
      have he := findEntry_some hf
      obtain ⟨told, htold⟩ := Option.ne_none_iff_exists'.1 (hwf.tmp_exists e.tmp (mem_map_tmp he.1))
      cases m <;> simp [Mode.plain] at hm
      · -- r
        have : (openOp st q .r d).1 = st := by
          unfold openOp; simp [hf, Mode.hasW]
        rw [this, hf]; simpa [directOp] using htq
      · -- w
        exact tracks_reopen_w hf (hwf.mode_ok e he.1) (Or.inl rfl) d
      · -- a
        unfold openOp directOp
        simp only [hf, Mode.hasW]
        simp [hf, get_set_eq, writeVia, htold]
        split at htq
        · rename_i hw; simp [hw, htq, htold]
        · rename_i hw; simp [hw, htq, htold]
      · -- w+
        exact tracks_reopen_w hf (hwf.mode_ok e he.1) (Or.inr rfl) d
      · -- a+
        unfold openOp directOp
        simp only [hf, Mode.hasW]
        simp [hf, get_set_eq, writeVia, htold]
        split at htq
        · rename_i hw; simp [hw, htq, htold]
        · rename_i hw; simp [hw, htq, htold]
  · -- another path: its entry, its temporary and its direct contents are unchanged
    rw [directOp_ne dfs m d hqp]
    rcases openOp_shape st p m d with ⟨e, hf, _, hpend, hfs⟩ | ⟨_, heq⟩ | ⟨hf, _, c, heq⟩
    · have he := findEntry_some hf
      have hfe : findEntry (openOp st p m d).1.pending q = findEntry st.pending q := by
        rcases hpend with h1 | ⟨h1, _⟩ <;> rw [h1]
        exact findEntry_setModeFirst_ne _ _ hqp
      rw [hfe]
      cases hfq : findEntry st.pending q with
      | none => rw [hfq] at htq; exact htq
      | some e' =>
        rw [hfq] at htq
        have he' := findEntry_some hfq
        have hne : e'.tmp ≠ e.tmp := by
          intro hh
          have : e' = e := eq_of_tmp_eq hwf.tmp_nodup he'.1 he.1 hh
          rw [this] at he'; exact hqp (he'.2.symm.trans he.2)
        have hg : get (openOp st p m d).1.fs (.tmp e'.tmp) = get st.fs (.tmp e'.tmp) := by
          rcases hfs with h1 | ⟨c, h1⟩ <;> rw [h1]
          exact get_set_ne _ _ (by simpa [tmp_inj] using hne)
        simp only [] at htq ⊢
        rw [hg]; exact htq
    · rw [heq]; exact htq
    · rw [heq]
      simp only [findEntry_append]
      cases hfq : findEntry st.pending q with
      | none =>
        rw [hfq] at htq
        have : ¬ p = q := fun hh => hqp hh.symm
        simpa [findEntry, this] using htq
      | some e' =>
        rw [hfq] at htq
        have he' := findEntry_some hfq
        have hne : e'.tmp ≠ st.next := Nat.ne_of_lt (hwf.tmp_lt _ (mem_map_tmp he'.1))
        simp only [] at htq ⊢
        rw [get_set_ne _ _ (by simpa [tmp_inj] using hne)]
        exact htq

theorem tracks_run {fs0 : FS} : ∀ (ops : List OpenReq) {st : State} {dfs : FS}, WF st → Tracks fs0 st dfs →
    (∀ o ∈ ops, o.1.isTmp = false ∧ o.2.1.plain = true) →
    Tracks fs0 (runOpens st ops) (directRun dfs ops) := by
  intro ops
  induction ops with
  | nil => intro st dfs _ h _; exact h
  | cons o t ih =>
    intro st dfs hwf h hu
    simp only [runOpens, directRun, List.foldl_cons] at ih ⊢
    obtain ⟨p, m, d⟩ := o
    exact ih (openOp_wf hwf (hu _ (by simp)).1 _ _) (tracks_step hwf h (hu _ (by simp)).1 (hu _ (by simp)).2 d)
      (fun o' ho' => hu o' (by simp [ho']))

end C07
