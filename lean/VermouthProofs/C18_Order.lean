import VermouthModel.C18_Order
import VermouthProofs.C18_NoAbort
/-! Helper lemmas for C18, part 14: the iteration order of a residue's members is irrelevant when the
residue has at most one backbone bead and at most one prefix-matching type. -/
namespace C18

theorem old_eq_some_iff (r : Residue) (x : Int) :
    r.old = some x ↔ r.members ≠ [] ∧ ∀ b ∈ r.members, b.oldResid = x := by
  unfold Residue.old
  cases hm : r.members with
  | nil => simp
  | cons a rest =>
    simp only [ne_eq, reduceCtorEq, not_false_eq_true, true_and, List.mem_cons, forall_eq_or_imp]
    constructor
    · intro h
      split at h
      · rename_i hall
        simp only [Option.some.injEq] at h
        subst h
        refine ⟨rfl, ?_⟩
        intro b hb
        simpa using (List.all_eq_true.mp hall) b hb
      · cases h
    · rintro ⟨ha, hall⟩
      subst ha
      have : rest.all (fun b => b.oldResid == a.oldResid) = true := by
        rw [List.all_eq_true]; intro b hb; simpa using hall b hb
      rw [if_pos this]

theorem old_perm {r r' : Residue} (h : r'.members.Perm r.members) : r'.old = r.old := by
  cases ho : r.old with
  | some x =>
    rw [old_eq_some_iff] at ho ⊢
    refine ⟨fun e => ho.1 (by rw [e] at h; exact h.symm.eq_nil), fun b hb => ho.2 b (h.mem_iff.mp hb)⟩
  | none =>
    cases ho' : r'.old with
    | none => rfl
    | some x =>
      rw [old_eq_some_iff] at ho'
      have : r.old = some x := (old_eq_some_iff r x).mpr
        ⟨fun e => ho'.1 (by rw [e] at h; exact h.eq_nil), fun b hb => ho'.2 b (h.mem_iff.mpr hb)⟩
      rw [this] at ho; cases ho

theorem find?_perm_unique {α : Type} (p : α → Bool) {l l' : List α} (h : l'.Perm l)
    (hu : (l.filter p).length ≤ 1) : l'.find? p = l.find? p := by
  rw [← List.head?_filter, ← List.head?_filter]
  have hp : (l'.filter p).Perm (l.filter p) := h.filter p
  have hl := hp.length_eq
  cases h1 : l.filter p with
  | nil => rw [h1] at hp; rw [hp.eq_nil]
  | cons a t =>
    rw [h1] at hu hp
    have : t = [] := by cases t with
      | nil => rfl
      | cons _ _ => simp at hu
    subst this
    rw [List.perm_singleton.mp hp]

/-- the per-residue condition: at most one backbone bead, at most one type starting with the prefix -/
def Single (P : Params) (r : Residue) : Prop :=
  (r.members.filter (fun a => a.atomname == P.backbone)).length ≤ 1
  ∧ (r.members.filter (fun a => startsWith a.atype P.pre)).length ≤ 1
instance (P : Params) (r : Residue) : Decidable (Single P r) := by unfold Single; exact inferInstance

theorem firstBB_perm {P : Params} {r r' : Residue} (h : r'.members.Perm r.members) (hs : Single P r) :
    firstBB r' P.backbone = firstBB r P.backbone := by
  unfold firstBB
  exact find?_perm_unique _ h hs.1

theorem firstType_perm {P : Params} {r r' : Residue} (h : r'.members.Perm r.members) (hs : Single P r)
    (ch : String) (x : Int) : firstType r' P.pre ch x = firstType r P.pre ch x := by
  unfold firstType
  congr 1
  apply find?_perm_unique _ h
  refine Nat.le_trans ?_ hs.2
  have : r.members.filter (fun a => a.oldResid == x && a.chain == ch && startsWith a.atype P.pre)
      = (r.members.filter (fun a => startsWith a.atype P.pre)).filter (fun a => a.oldResid == x && a.chain == ch) := by
    rw [List.filter_filter]
  rw [this]
  exact List.length_filter_le _ _

/-- two residue lists that agree on chain and common input resid position by position -/
theorem findRes_congr_aux (l l' : List Residue) (k : Nat) (acc : Option Nat) (ch : String) (x : Int)
    (h : l'.map (fun r => (r.chain, r.old)) = l.map (fun r => (r.chain, r.old))) :
    (l'.zipIdx k).foldl (fun acc ri => if ri.1.chain == ch && ri.1.old == some x then some ri.2 else acc) acc
      = (l.zipIdx k).foldl (fun acc ri => if ri.1.chain == ch && ri.1.old == some x then some ri.2 else acc) acc := by
  induction l generalizing l' k acc with
  | nil =>
    cases l' with
    | nil => rfl
    | cons _ _ => simp at h
  | cons r rest ih =>
    cases l' with
    | nil => simp at h
    | cons r' rest' =>
      simp only [List.map_cons, List.cons.injEq, Prod.mk.injEq] at h
      obtain ⟨⟨hc, ho⟩, hrest⟩ := h
      simp only [List.zipIdx_cons, List.foldl_cons, hc, ho]
      exact ih rest' (k + 1) _ hrest

theorem findRes_congr (l l' : List Residue) (ch : String) (x : Int)
    (h : l'.map (fun r => (r.chain, r.old)) = l.map (fun r => (r.chain, r.old))) :
    findRes l' ch x = findRes l ch x := by
  unfold findRes
  exact findRes_congr_aux l l' 0 none ch x h

/-- the orders handed to the model are rearrangements of the members of the residues they name -/
def OrdersArePerms (orders : List (List Int)) (rs : List Residue) : Prop :=
  ∀ r ∈ rs, ∀ o, orders.find? r.named = some o → (r.reorder o).members.Perm r.members

theorem applyOrders_getElem? (orders : List (List Int)) (rs : List Residue) (i : Nat) :
    (applyOrders orders rs)[i]? = rs[i]?.map (Residue.ordered orders) := by
  unfold applyOrders
  rw [List.getElem?_map]

theorem applyOrders_members (orders : List (List Int)) (rs : List Residue) (h : OrdersArePerms orders rs)
    (r : Residue) (hr : r ∈ rs) :
    (r.ordered orders).members.Perm r.members ∧ (r.ordered orders).chain = r.chain := by
  unfold Residue.ordered
  cases ho : orders.find? r.named with
  | none => exact ⟨List.Perm.refl _, rfl⟩
  | some o => exact ⟨h r hr o ho, rfl⟩

theorem applyOrders_keys (orders : List (List Int)) (rs : List Residue) (h : OrdersArePerms orders rs) :
    (applyOrders orders rs).map (fun r => (r.chain, r.old)) = rs.map (fun r => (r.chain, r.old)) := by
  unfold applyOrders
  rw [List.map_map]
  apply List.map_congr_left
  intro r hr
  obtain ⟨hp, hc⟩ := applyOrders_members orders rs h r hr
  simp only [Function.comp_def]
  exact Prod.ext hc (old_perm hp)

/-- one line of the contact map is judged the same way, whatever the iteration orders -/
theorem classify_orders (P : Params) (rs : List Residue) (E : List (Nat × Nat)) (orders : List (List Int))
    (hperm : OrdersArePerms orders rs) (hs : ∀ r ∈ rs, Single P r) (c : Contact) :
    classify P (applyOrders orders rs) E c = classify P rs E c := by
  unfold classify
  rw [findRes_congr rs _ c.chainA c.residA (applyOrders_keys orders rs hperm),
    findRes_congr rs _ c.chainB c.residB (applyOrders_keys orders rs hperm)]
  cases findRes rs c.chainA c.residA with
  | none => rfl
  | some ia =>
    cases findRes rs c.chainB c.residB with
    | none => rfl
    | some ib =>
      simp only
      split
      · rfl
      · rw [applyOrders_getElem?, applyOrders_getElem?]
        cases hra : rs[ia]? with
        | none => rfl
        | some ra =>
          cases hrb : rs[ib]? with
          | none => rfl
          | some rb =>
            have hma : ra ∈ rs := List.mem_of_getElem? hra
            have hmb : rb ∈ rs := List.mem_of_getElem? hrb
            obtain ⟨hpa, _⟩ := applyOrders_members orders rs hperm ra hma
            obtain ⟨hpb, _⟩ := applyOrders_members orders rs hperm rb hmb
            simp only [Option.map_some]
            rw [firstBB_perm hpa (hs ra hma), firstBB_perm hpb (hs rb hmb),
              firstType_perm hpa (hs ra hma), firstType_perm hpb (hs rb hmb)]

end C18
