import VermouthProofs.C17_Phases
/-!
C17 helper lemmas, part 4: composition of the nine loops over the documented pattern table and
the comparison with the run-based specification.
-/
namespace C17

structure PhaseOK (f : List Char → List Char) (pat rep : List Char) : Prop where
  ne : pat ≠ []
  lt : countH rep < countH pat
  mask : dotMask pat = dotMask rep
  step : ∀ a b, mapBlocks f (a ++ pat ++ b) = mapBlocks f (a ++ rep ++ b)
  nf : ∀ t, Flanked t → occurs pat t = false → ∀ b ∈ splitDot t, f b = b
  pres : ∀ b, DotFree b → DotFree (f b)

abbrev PhaseEntry := (List Char × List Char) × (List Char → List Char)

theorem applyPatterns_phases (l : List PhaseEntry) (h : ∀ x ∈ l, PhaseOK x.2 x.1.1 x.1.2) :
    ∀ s, Flanked s →
      applyPatterns (l.map (·.1)) s = l.foldl (fun w x => mapBlocks x.2 w) s := by
  induction l with
  | nil => intro s _; rfl
  | cons x l ih =>
    intro s hs
    have hx := h x (by simp)
    have hp := phase x.2 x.1.1 x.1.2 hx.ne hx.lt hx.mask hx.step hx.nf s hs
    simp only [applyPatterns, List.map_cons, List.foldl_cons]
    have ih' := ih (fun y hy => h y (by simp [hy])) _ hp.2
    simp only [applyPatterns] at ih'
    rw [ih', hp.1]

theorem foldl_mapBlocks (l : List PhaseEntry) (h : ∀ x ∈ l, ∀ b, DotFree b → DotFree (x.2 b)) :
    ∀ s, l.foldl (fun w x => mapBlocks x.2 w) s
      = joinDot ((splitDot s).map fun b => l.foldl (fun b x => x.2 b) b) := by
  induction l with
  | nil => intro s; simp [joinDot_splitDot]
  | cons x l ih =>
    intro s
    simp only [List.foldl_cons]
    rw [ih (fun y hy => h y (by simp [hy]))]
    unfold mapBlocks
    rw [splitDot_joinDot _ (by simp [splitDot_ne_nil])]
    · simp [List.map_map, Function.comp_def]
    · intro b hb
      simp only [List.mem_map] at hb
      obtain ⟨b0, hb0, rfl⟩ := hb
      exact h x (by simp) b0 (splitDot_blocks_dotFree s b0 hb0)

/-! ### the documented table as phases -/

def h4 : List Char := hRun 4
def o4 : List Char := List.replicate 4 '1'
def t4 : List Char := List.replicate 4 '2'

def midEntry (i : Nat) : PhaseEntry :=
  (('.' :: hRun i ++ ['.'], '.' :: specRun i ++ ['.']), fEq (hRun i) (specRun i))

def phasesDoc : List PhaseEntry :=
  [midEntry 1, midEntry 2, midEntry 3, midEntry 4, midEntry 5, midEntry 6, midEntry 7,
   (('.' :: h4, '.' :: o4), fPre h4 o4), ((h4 ++ ['.'], t4 ++ ['.']), fSuf h4 t4)]

theorem documentedPatterns_eq : documentedPatterns = phasesDoc.map (·.1) := by decide

theorem dotFree_of_sublist {a b : List Char} (h : a.Sublist b) (hb : DotFree b) : DotFree a :=
  fun e => hb (h.subset e)

theorem phaseOK_mid (m r : List Char) (hm : DotFree m) (hr : DotFree r) (hne : m ≠ [])
    (hH : countH r < countH m) (hmask : dotMask m = dotMask r) :
    PhaseOK (fEq m r) ('.' :: m ++ ['.']) ('.' :: r ++ ['.']) where
  ne := by simp
  lt := by simp [countH, List.count_append] at *; exact hH
  mask := by simp [dotMask] at *; exact hmask
  step := step_mid m r hm hr
  nf := nf_mid m r hm hne
  pres := by
    intro b hb; unfold fEq; split
    · exact hr
    · exact hb

theorem phaseOK_pre : PhaseOK (fPre h4 o4) ('.' :: h4) ('.' :: o4) where
  ne := by simp
  lt := by decide
  mask := by decide
  step := step_pre h4 o4 (by decide) (by decide)
    (by rintro x ⟨t, ht⟩; simp [h4, o4, hRun, List.replicate] at ht)
  nf := nf_pre h4 o4 (by decide) (by decide)
  pres := by
    intro b hb; unfold fPre; split
    · exact dotFree_append (by decide) (dotFree_of_sublist (List.drop_sublist _ _) hb)
    · exact hb

theorem not_suffix_h4_t4 (x : List Char) : ¬ h4 <:+ x ++ t4 := by
  rintro ⟨t, ht⟩
  have := List.append_inj_right' ht (by decide)
  exact absurd this (by decide)

theorem phaseOK_suf : PhaseOK (fSuf h4 t4) (h4 ++ ['.']) (t4 ++ ['.']) where
  ne := by decide
  lt := by decide
  mask := by decide
  step := step_suf h4 t4 (by decide) (by decide) not_suffix_h4_t4
  nf := nf_suf h4 t4 (by decide) (by decide)
  pres := by
    intro b hb; unfold fSuf; split
    · exact dotFree_append (dotFree_of_sublist (List.take_sublist _ _) hb) (by decide)
    · exact hb

theorem phasesDoc_ok : ∀ x ∈ phasesDoc, PhaseOK x.2 x.1.1 x.1.2 := by
  intro x hx
  simp only [phasesDoc, List.mem_cons, List.mem_nil_iff, or_false] at hx
  rcases hx with rfl | rfl | rfl | rfl | rfl | rfl | rfl | rfl | rfl
  · exact phaseOK_mid _ _ (by decide) (by decide) (by decide) (by decide) (by decide)
  · exact phaseOK_mid _ _ (by decide) (by decide) (by decide) (by decide) (by decide)
  · exact phaseOK_mid _ _ (by decide) (by decide) (by decide) (by decide) (by decide)
  · exact phaseOK_mid _ _ (by decide) (by decide) (by decide) (by decide) (by decide)
  · exact phaseOK_mid _ _ (by decide) (by decide) (by decide) (by decide) (by decide)
  · exact phaseOK_mid _ _ (by decide) (by decide) (by decide) (by decide) (by decide)
  · exact phaseOK_mid _ _ (by decide) (by decide) (by decide) (by decide) (by decide)
  · exact phaseOK_pre
  · exact phaseOK_suf

/-- what the nine loops do to one block -/
def fAll (b : List Char) : List Char := phasesDoc.foldl (fun b x => x.2 b) b

theorem applyPatterns_doc (s : List Char) (hs : Flanked s) :
    applyPatterns documentedPatterns s = joinDot ((splitDot s).map fAll) := by
  rw [documentedPatterns_eq, applyPatterns_phases _ phasesDoc_ok s hs,
    foldl_mapBlocks _ (fun x hx => (phasesDoc_ok x hx).pres)]
  rfl

/-! ### one block: a run of `n` H -/

theorem hRun_ne {n i : Nat} (h : n ≠ i) : hRun n ≠ hRun i := by
  intro e
  have := congrArg List.length e
  simp [hRun] at this
  exact h this

theorem fEq_ne {m r b : List Char} (h : b ≠ m) : fEq m r b = b := by
  unfold fEq; simp [h]

theorem hRun_add (a b : Nat) : hRun (a + b) = hRun a ++ hRun b := by
  simp [hRun, List.replicate_append_replicate]

theorem fAll_hRun_long (k : Nat) : fAll (hRun (k + 8)) = specRun (k + 8) := by
  unfold fAll phasesDoc midEntry
  simp only [List.foldl_cons, List.foldl_nil]
  rw [fEq_ne (hRun_ne (by omega)), fEq_ne (hRun_ne (by omega)), fEq_ne (hRun_ne (by omega)),
    fEq_ne (hRun_ne (by omega)), fEq_ne (hRun_ne (by omega)), fEq_ne (hRun_ne (by omega)),
    fEq_ne (hRun_ne (by omega))]
  have e1 : hRun (k + 8) = h4 ++ (hRun k ++ h4) := by
    rw [show k + 8 = 4 + (k + 4) by omega, hRun_add, hRun_add]; rfl
  have e2 : fPre h4 o4 (h4 ++ (hRun k ++ h4)) = o4 ++ (hRun k ++ h4) := by
    unfold fPre
    rw [if_pos (List.prefix_append _ _)]
    simp
  have e3 : fSuf h4 t4 (o4 ++ (hRun k ++ h4)) = o4 ++ hRun k ++ t4 := by
    unfold fSuf
    have hs : h4 <:+ o4 ++ (hRun k ++ h4) := ⟨o4 ++ hRun k, by simp⟩
    rw [if_pos hs]
    have : (o4 ++ (hRun k ++ h4)).length - h4.length = (o4 ++ hRun k).length := by
      simp only [List.length_append]; omega
    rw [this, ← List.append_assoc, List.take_left']
    rfl
  rw [e1, e2, e3]
  unfold specRun
  simp only [show ¬ (k + 8 ≤ 4) by omega, show ¬ (k + 8 = 5) by omega, show ¬ (k + 8 = 6) by omega,
    show ¬ (k + 8 = 7) by omega, if_false, Nat.add_sub_cancel]
  rfl

theorem fAll_hRun (n : Nat) : fAll (hRun n) = specRun n := by
  match n with
  | 0 => decide
  | 1 => decide
  | 2 => decide
  | 3 => decide
  | 4 => decide
  | 5 => decide
  | 6 => decide
  | 7 => decide
  | k + 8 => exact fAll_hRun_long k

/-! ### merging -/

theorem specRun_length (n : Nat) : (specRun n).length = n := by
  unfold specRun
  split
  · simp
  · split
    · simp; omega
    · split
      · simp; omega
      · split
        · simp; omega
        · simp; omega

theorem specRun_dotFree (n : Nat) : DotFree (specRun n) := by
  unfold specRun DotFree
  split
  · simp [List.mem_replicate]
  · split
    · decide
    · split
      · decide
      · split
        · decide
        · simp [List.mem_replicate]

theorem mergeWild_dotFree (x : List Char) (hx : DotFree x) : ∀ y : List Char, x.length ≤ y.length →
    mergeWild x y = x := by
  induction x with
  | nil => intro y _; simp [mergeWild]
  | cons c x ih =>
    intro y hy
    cases y with
    | nil => simp at hy
    | cons d y =>
      have hc : c ≠ '.' := by intro e; apply hx; simp [e]
      have hx' : DotFree x := by intro e; apply hx; simp [e]
      have := ih hx' y (by simpa using hy)
      unfold mergeWild at this
      simp only [mergeWild, List.zipWith_cons_cons]
      rw [if_pos hc, this]

theorem mergeWild_append (x1 x2 y1 y2 : List Char) (h : x1.length = y1.length) :
    mergeWild (x1 ++ x2) (y1 ++ y2) = mergeWild x1 y1 ++ mergeWild x2 y2 := by
  unfold mergeWild
  exact List.zipWith_append h

/-- the blocks of a wildcard string that starts with a pending run of `n` H, mapped by the nine
loops and merged with the class string, are the run-based rewriting -/
theorem merge_blocks (cg : List Char) : ∀ n : Nat,
    mergeWild (joinDot ((splitDot (hRun n ++ wildOf cg)).map fAll)) (hRun n ++ cg) = rewriteRuns n cg := by
  induction cg with
  | nil =>
    intro n
    have hd : DotFree (hRun n) := by simp [DotFree, hRun, List.mem_replicate]
    simp only [wildOf, List.map_nil, List.append_nil, rewriteRuns]
    rw [splitDot_dotFree _ hd]
    simp only [List.map_cons, List.map_nil, joinDot, fAll_hRun]
    exact mergeWild_dotFree _ (specRun_dotFree n) _ (by simp [specRun_length, hRun])
  | cons c cs ih =>
    intro n
    have hd : DotFree (hRun n) := by simp [DotFree, hRun, List.mem_replicate]
    by_cases hc : c = 'H'
    · subst hc
      have e1 : hRun n ++ wildOf ('H' :: cs) = hRun (n + 1) ++ wildOf cs := by
        simp [wildOf, hRun, List.replicate_succ']
      have e2 : hRun n ++ 'H' :: cs = hRun (n + 1) ++ cs := by
        simp [hRun, List.replicate_succ']
      rw [e1, e2, ih (n + 1)]
      simp [rewriteRuns]
    · have e1 : hRun n ++ wildOf (c :: cs) = hRun n ++ '.' :: wildOf cs := by
        simp [wildOf, hc]
      rw [e1, splitDot_block_dot _ _ hd]
      simp only [List.map_cons]
      rw [joinDot_cons _ _ (by simp [splitDot_ne_nil]), fAll_hRun]
      rw [mergeWild_append _ _ _ _ (by simp [specRun_length, hRun])]
      rw [mergeWild_dotFree _ (specRun_dotFree n) _ (by simp [specRun_length, hRun])]
      have ih0 := ih 0
      simp only [hRun, List.replicate_zero, List.nil_append] at ih0
      simp only [rewriteRuns, hc, if_false]
      congr 1
      show mergeWild ('.' :: _) (c :: cs) = _
      simp only [mergeWild, List.zipWith_cons_cons]
      simp only [mergeWild] at ih0
      rw [ih0]
      simp

theorem flanked_flank (w : List Char) : Flanked ('.' :: w ++ ['.']) := by
  constructor
  · rfl
  · rw [show '.' :: w ++ ['.'] = ('.' :: w) ++ ['.'] from rfl, List.getLast?_append]; rfl

theorem splitDot_flank (w : List Char) : splitDot ('.' :: w ++ ['.']) = [] :: (splitDot w ++ [[]]) := by
  have h1 : splitDot (w ++ ['.']) = splitDot w ++ [[]] := by
    have := decomp_mid
    induction w with
    | nil => rfl
    | cons c w ih =>
      simp only [List.cons_append, splitDot]
      split
      · rw [ih]; rfl
      · rw [ih]
        have hne := splitDot_ne_nil w
        cases hl : splitDot w with
        | nil => exact absurd hl hne
        | cons a l => simp
  simp only [List.cons_append, splitDot, if_true, h1]

/-- **The replace-based code computes the run-based rule** (documented pattern table). -/
theorem convertImpl_doc_eq_spec (tbl : List (Char × Char)) (s : List Char) :
    convertImpl tbl documentedPatterns s = convertSpec tbl s := by
  unfold convertImpl convertSpec
  cases hcg : s.mapM (lookup tbl) with
  | none => rfl
  | some cg =>
    simp only []
    rw [applyPatterns_doc _ (flanked_flank _), splitDot_flank]
    have hfe : fAll [] = [] := by decide
    simp only [List.map_cons, List.map_append, List.map_nil, hfe]
    have hne : (splitDot (wildOf cg)).map fAll ≠ [] := by simp [splitDot_ne_nil]
    rw [joinDot_cons _ _ (by simp), joinDot_append _ _ hne (by simp)]
    simp only [joinDot, List.nil_append, List.drop_one, List.tail_cons]
    have hdl : (joinDot ((splitDot (wildOf cg)).map fAll) ++ ['.']).dropLast
        = joinDot ((splitDot (wildOf cg)).map fAll) := by simp
    rw [hdl]
    have := merge_blocks cg 0
    simp only [hRun, List.replicate_zero, List.nil_append] at this
    rw [this]

end C17
