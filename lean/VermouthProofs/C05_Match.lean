import VermouthModel.C05
import VermouthProofs.Iso
import VermouthProofs.C05_Symm
/-!
# C05 — `match_link` yields exactly the placements on which the link fits

`matchLink_exact`: a placement is produced by the model of `match_link` iff it satisfies the
declarative statement `LinkFits` (hypotheses: distinct link node keys; every pattern atom is a
link atom).  `matchLink_nodup`: no placement is produced twice.
-/
namespace C05
open Iso

/-- every atom mentioned by a pattern is an atom of the link -/
def PatternsClosed (l : Link) : Prop := ∀ p ∈ l.patterns, ∀ kt ∈ p, kt.1 ∈ l.keys

/-- The declarative statement "the placement `mp` of the link's atoms on the molecule satisfies all
the link's conditions". -/
structure LinkFits (m : Mol) (l : Link) (mp : Map) : Prop where
  /-- molecule-level conditions -/
  molmeta : ∀ kv ∈ l.molmeta, valMatch m.md kv.1 kv.2 = true
  /-- it places exactly the link's atoms -/
  dom : mp.map Prod.fst = l.keys
  /-- on molecule atoms, injectively, every atom satisfies the link node's attribute conditions
  (`linkPred` = `_atoms_match`), required bonds are present and absent bonds are absent (induced) -/
  iso : IsIndIsoP m.graph l.graph (linkPred m l) (Map.toFun mp)
  /-- non-edges: no neighbour of the anchor has a residue number in the order relation
  `match_order(anchor order, anchor resid, partner order, neighbour resid)` and matches the partner's attributes -/
  nonEdges : ∀ ne ∈ l.nonEdges, ne.1 ∈ l.keys → ∀ nb ∈ m.neighbors (Map.toFun mp ne.1),
      (interpretOrder (anchorOrder l ne.1)).isSome = true ∧ (interpretOrder (partnerOrder ne.2)).isSome = true ∧
        ¬ (matchOrder (anchorOrder l ne.1) (m.resid (Map.toFun mp ne.1)) (partnerOrder ne.2) (m.resid nb) = some true
            ∧ ∃ n, m.node? nb = some n ∧ atomsMatch n ne.2 = true)
  /-- patterns: none given, or at least one of them holds -/
  patterns : l.patterns = [] ∨
      ∃ p ∈ l.patterns, ∀ kt ∈ p, ∃ n, m.node? (Map.toFun mp kt.1) = some n ∧ atomsMatch n kt.2 = true
  /-- atoms with the same order are in the same residue -/
  sameResid : ∀ a ∈ l.nodes, ∀ b ∈ l.nodes, ∀ o, a.order = some o → b.order = some o →
      m.resid (Map.toFun mp a.key) = m.resid (Map.toFun mp b.key)
  /-- atoms with different orders: the residue numbers satisfy the order relation -/
  orders : ∀ a ∈ l.nodes, ∀ b ∈ l.nodes, ∀ oa ob, a.order = some oa → b.order = some ob → oa ≠ ob →
      matchOrder oa (m.resid (Map.toFun mp a.key)) ob (m.resid (Map.toFun mp b.key)) = some true

/-! ## basic facts -/

theorem link_graph_keys (l : Link) : l.graph.keys = l.keys := by
  simp [Link.graph, Graph.keys, Link.keys, List.map_map, Function.comp_def]

theorem mol_graph_keys (m : Mol) : m.graph.keys = m.keys := by
  simp [Mol.graph, Graph.keys, Mol.keys, List.map_map, Function.comp_def]

theorem attributesMatch_nil_iff (a : Attrs) (t : TAttrs) :
    attributesMatch a t [] = true ↔ ∀ kv ∈ t, valMatch a kv.1 kv.2 = true := by
  simp [attributesMatch, List.all_eq_true]

theorem node?_of_mem (m : Mol) (k : Int) (h : k ∈ m.keys) : ∃ n, m.node? k = some n := by
  unfold Mol.keys at h
  obtain ⟨n, hn, hk⟩ := List.mem_map.1 h
  unfold Mol.node?
  cases hf : m.nodes.find? (fun n => n.key == k) with
  | some n' => exact ⟨n', rfl⟩
  | none =>
    rw [List.find?_eq_none] at hf
    have := hf n hn
    simp [hk] at this

/-! ## non-edges -/

theorem nonEdgeOk_iff (m : Mol) (l : Link) (mp : Map) (ne : Int × TAttrs) :
    nonEdgeOk m l mp ne = some true ↔
      (ne.1 ∈ l.keys → ∀ nb ∈ m.neighbors (Map.toFun mp ne.1),
        (interpretOrder (anchorOrder l ne.1)).isSome = true ∧ (interpretOrder (partnerOrder ne.2)).isSome = true ∧
          ¬ (matchOrder (anchorOrder l ne.1) (m.resid (Map.toFun mp ne.1)) (partnerOrder ne.2) (m.resid nb) = some true
              ∧ ∃ n, m.node? nb = some n ∧ atomsMatch n ne.2 = true)) := by
  unfold nonEdgeOk
  by_cases hk : ne.1 ∈ l.keys
  · have hc : (!(l.keys.contains ne.1)) = false := by simp [hk]
    simp only [hc, Bool.false_eq_true, if_false, hk, forall_const]
    by_cases hn : m.neighbors (Map.toFun mp ne.1) = []
    · simp [hn]
    · have hc2 : (m.neighbors (Map.toFun mp ne.1)).isEmpty = false := by simpa using hn
      simp only [hc2, Bool.false_eq_true, if_false]
      obtain ⟨nb0, hnb0⟩ := List.exists_mem_of_ne_nil _ hn
      cases ha : interpretOrder (anchorOrder l ne.1) with
      | none =>
        simp only [reduceCtorEq, false_iff]
        intro h
        have := (h nb0 hnb0).1
        simp at this
      | some a =>
        cases hb : interpretOrder (partnerOrder ne.2) with
        | none =>
          simp only [reduceCtorEq, false_iff]
          intro h
          have := (h nb0 hnb0).2.1
          simp at this
        | some b =>
          simp only [Option.some.injEq, Bool.not_eq_true', List.any_eq_false, Bool.and_eq_true, beq_iff_eq,
            Option.isSome_some, true_and]
          constructor
          · intro h nb hnb hc
            apply h nb hnb
            obtain ⟨h1, n, h2, h3⟩ := hc
            exact ⟨h1, by simp [h2, h3]⟩
          · intro h nb hnb hc
            apply h nb hnb
            obtain ⟨h1, h2⟩ := hc
            refine ⟨h1, ?_⟩
            cases hnode : m.node? nb with
            | none => simp [hnode] at h2
            | some n => exact ⟨n, rfl, by simpa [hnode] using h2⟩
  · simp [hk]

theorem validNonEdges_iff (m : Mol) (l : Link) (mp : Map) (nes : List (Int × TAttrs)) :
    validNonEdges m l mp nes = some true ↔ ∀ ne ∈ nes, nonEdgeOk m l mp ne = some true := by
  induction nes with
  | nil => simp [validNonEdges]
  | cons ne rest ih =>
    simp only [validNonEdges, List.mem_cons, forall_eq_or_imp]
    cases h : nonEdgeOk m l mp ne with
    | none => simp
    | some b => cases b <;> simp [ih]

/-! ## patterns -/

/-- the placement has the key `k` and its image is a molecule node -/
def Placed (m : Mol) (mp : Map) (k : Int) : Prop := ∃ t n, mp.lookup k = some t ∧ m.node? t = some n

theorem patternMatch_spec (m : Mol) (mp : Map) (p : List (Int × TAttrs))
    (hp : ∀ kt ∈ p, Placed m mp kt.1) :
    ∃ b, patternMatch m mp p = some b ∧
      (b = true ↔ ∀ kt ∈ p, ∃ n, m.node? (Map.toFun mp kt.1) = some n ∧ atomsMatch n kt.2 = true) := by
  induction p with
  | nil => exact ⟨true, rfl, by simp⟩
  | cons kt rest ih =>
    obtain ⟨k, t⟩ := kt
    obtain ⟨tk, n, h1, h2⟩ := hp (k, t) (List.mem_cons_self ..)
    obtain ⟨b, hb, hiff⟩ := ih (fun kt h => hp kt (List.mem_cons_of_mem _ h))
    have htf : Map.toFun mp k = tk := by simp [Map.toFun, h1]
    simp only [patternMatch, h1, h2, List.mem_cons, forall_eq_or_imp, htf, Option.some.injEq, exists_eq_left']
    by_cases ha : atomsMatch n t = true
    · simp only [ha, if_true, true_and]
      exact ⟨b, hb, hiff⟩
    · simp [ha]

theorem anyPattern_spec (m : Mol) (mp : Map) (ps : List (List (Int × TAttrs)))
    (hp : ∀ p ∈ ps, ∀ kt ∈ p, Placed m mp kt.1) :
    ∃ b, anyPattern m mp ps = some b ∧
      (b = true ↔ ∃ p ∈ ps, ∀ kt ∈ p,
        ∃ n, m.node? (Map.toFun mp kt.1) = some n ∧ atomsMatch n kt.2 = true) := by
  induction ps with
  | nil => exact ⟨false, rfl, by simp⟩
  | cons p rest ih =>
    obtain ⟨b, hb, hiff⟩ := patternMatch_spec m mp p (hp p (List.mem_cons_self ..))
    obtain ⟨b', hb', hiff'⟩ := ih (fun q h => hp q (List.mem_cons_of_mem _ h))
    simp only [anyPattern, hb, List.mem_cons, exists_eq_or_imp]
    cases b with
    | true => exact ⟨true, rfl, iff_of_true rfl (Or.inl (hiff.1 rfl))⟩
    | false =>
      refine ⟨b', hb', ?_⟩
      rw [hiff']
      constructor
      · exact Or.inr
      · rintro (h | h)
        · exact absurd (hiff.2 h) (by simp)
        · exact h

/-! ## the order table -/

abbrev OTbl := List (Order × Int)

theorem lookup_none_iff (tbl : OTbl) (o : Order) : tbl.lookup o = none ↔ o ∉ tbl.map Prod.fst := by
  induction tbl with
  | nil => simp
  | cons x rest ih =>
    obtain ⟨o', r'⟩ := x
    simp only [List.lookup_cons, List.map_cons, List.mem_cons, not_or]
    by_cases h : o = o'
    · subst h; simp
    · have : (o == o') = false := by simpa using h
      simp [this, ih, h]

theorem mem_of_lookup_some (tbl : OTbl) (o : Order) (r : Int) (h : tbl.lookup o = some r) :
    (o, r) ∈ tbl := by
  induction tbl with
  | nil => simp at h
  | cons x rest ih =>
    obtain ⟨o', r'⟩ := x
    simp only [List.lookup_cons] at h
    by_cases ho : o = o'
    · subst ho; simp at h; simp [h]
    · have : (o == o') = false := by simpa using ho
      simp only [this] at h
      exact List.mem_cons_of_mem _ (ih h)

/-- two entries with the same order have the same residue -/
def Functional (xs : OTbl) : Prop := ∀ x ∈ xs, ∀ y ∈ xs, x.1 = y.1 → x.2 = y.2

theorem functional_of_nodup {tbl : OTbl} (h : (tbl.map Prod.fst).Nodup) : Functional tbl := by
  intro x hx y hy hxy
  induction tbl with
  | nil => simp at hx
  | cons z rest ih =>
    simp only [List.map_cons, List.nodup_cons] at h
    rcases List.mem_cons.1 hx with rfl | hx' <;> rcases List.mem_cons.1 hy with rfl | hy'
    · rfl
    · exact absurd (hxy ▸ List.mem_map_of_mem (f := Prod.fst) hy') h.1
    · exact absurd (hxy ▸ List.mem_map_of_mem (f := Prod.fst) hx') h.1
    · exact ih h.2 hx' hy'

theorem insertOrder_some {tbl tbl' : OTbl} {x : Order × Int} (h : insertOrder tbl x = some tbl')
    (hn : (tbl.map Prod.fst).Nodup) :
    (tbl'.map Prod.fst).Nodup ∧ ∀ y, y ∈ tbl' ↔ y ∈ tbl ∨ y = x := by
  unfold insertOrder at h
  cases hl : tbl.lookup x.1 with
  | none =>
    simp only [hl, Option.some.injEq] at h
    subst h
    rw [lookup_none_iff] at hl
    refine ⟨?_, by simp⟩
    rw [List.map_append, List.nodup_append]
    refine ⟨hn, by simp, ?_⟩
    intro a ha b hb
    simp at hb
    subst hb
    intro hab; exact hl (hab ▸ ha)
  | some r =>
    simp only [hl] at h
    by_cases hr : r = x.2
    · simp only [hr, beq_self_eq_true, if_true, Option.some.injEq] at h
      subst h
      refine ⟨hn, fun y => ⟨Or.inl, ?_⟩⟩
      rintro (hy | rfl)
      · exact hy
      · have := mem_of_lookup_some _ _ _ hl
        rw [hr] at this
        exact this
    · have : (r == x.2) = false := by simpa using hr
      simp [this] at h

theorem insertOrder_exists {tbl : OTbl} {x : Order × Int}
    (hf : ∀ y ∈ tbl, y.1 = x.1 → y.2 = x.2) : ∃ tbl', insertOrder tbl x = some tbl' := by
  unfold insertOrder
  cases hl : tbl.lookup x.1 with
  | none => exact ⟨_, rfl⟩
  | some r =>
    have := hf _ (mem_of_lookup_some _ _ _ hl) rfl
    simp only at this
    subst this
    exact ⟨tbl, by simp⟩

theorem orderTableFrom_some {tbl xs tbl' : OTbl} (h : orderTableFrom tbl xs = some tbl')
    (hn : (tbl.map Prod.fst).Nodup) :
    (tbl'.map Prod.fst).Nodup ∧ ∀ y, y ∈ tbl' ↔ y ∈ tbl ∨ y ∈ xs := by
  induction xs generalizing tbl with
  | nil =>
    simp only [orderTableFrom, Option.some.injEq] at h
    subst h
    exact ⟨hn, by simp⟩
  | cons x rest ih =>
    simp only [orderTableFrom] at h
    cases hi : insertOrder tbl x with
    | none => simp [hi] at h
    | some t1 =>
      simp only [hi] at h
      obtain ⟨hn1, hm1⟩ := insertOrder_some hi hn
      obtain ⟨hn2, hm2⟩ := ih h hn1
      refine ⟨hn2, fun y => ?_⟩
      rw [hm2, hm1, List.mem_cons, or_assoc]

theorem orderTableFrom_exists {tbl xs : OTbl} (hn : (tbl.map Prod.fst).Nodup)
    (hf : Functional (tbl ++ xs)) : ∃ tbl', orderTableFrom tbl xs = some tbl' := by
  induction xs generalizing tbl with
  | nil => exact ⟨tbl, rfl⟩
  | cons x rest ih =>
    obtain ⟨t1, hi⟩ := insertOrder_exists (tbl := tbl) (x := x)
      (fun y hy hxy => hf y (by simp [hy]) x (by simp) hxy)
    obtain ⟨hn1, hm1⟩ := insertOrder_some hi hn
    have hf1 : Functional (t1 ++ rest) := by
      intro a ha b hb
      apply hf
      · rcases List.mem_append.1 ha with ha | ha
        · rcases (hm1 a).1 ha with ha | rfl <;> simp [*]
        · simp [ha]
      · rcases List.mem_append.1 hb with hb | hb
        · rcases (hm1 b).1 hb with hb | rfl <;> simp [*]
        · simp [hb]
    obtain ⟨t2, h2⟩ := ih hn1 hf1
    exact ⟨t2, by simp only [orderTableFrom, hi, h2]⟩

/-- the table exists iff the list is functional, and then it has the same entries, once each -/
theorem orderTableFrom_nil_iff (xs : OTbl) :
    (∃ tbl, orderTableFrom [] xs = some tbl) ↔ Functional xs := by
  constructor
  · rintro ⟨tbl, h⟩
    obtain ⟨hn, hm⟩ := orderTableFrom_some h (by simp)
    intro x hx y hy
    exact functional_of_nodup hn x ((hm x).2 (Or.inr hx)) y ((hm y).2 (Or.inr hy))
  · intro hf
    exact orderTableFrom_exists (by simp) (by simpa using hf)

/-! ## pairs -/

theorem forall_pairs2_iff {α} (R : α → α → Prop) (l : List α) :
    (∀ p ∈ pairs2 l, R p.1 p.2) ↔ l.Pairwise R := by
  induction l with
  | nil => simp [pairs2]
  | cons a rest ih =>
    rw [List.pairwise_cons, ← ih]
    simp only [pairs2, List.mem_append, List.mem_map]
    constructor
    · intro h
      exact ⟨fun b hb => h (a, b) (Or.inl ⟨b, hb, rfl⟩), fun p hp => h p (Or.inr hp)⟩
    · rintro ⟨h1, h2⟩ p (⟨b, hb, rfl⟩ | hp)
      · exact h1 b hb
      · exact h2 p hp

theorem pairwiseOrders_iff (tbl : OTbl) :
    pairwiseOrders tbl = some true ↔
      tbl.Pairwise (fun x y => matchOrder x.1 x.2 y.1 y.2 = some true) := by
  rw [← forall_pairs2_iff]
  unfold pairwiseOrders
  simp only
  constructor
  · intro h
    split at h
    · simp at h
    · simp only [Option.some.injEq, List.all_eq_true, List.mem_map, beq_iff_eq] at h
      intro p hp
      exact h _ ⟨p, hp, rfl⟩
  · intro h
    have hall : ∀ r ∈ (pairs2 tbl).map (fun p => matchOrder p.1.1 p.1.2 p.2.1 p.2.2), r = some true := by
      intro r hr
      obtain ⟨p, hp, rfl⟩ := List.mem_map.1 hr
      exact h p hp
    have h1 : ((pairs2 tbl).map (fun p => matchOrder p.1.1 p.1.2 p.2.1 p.2.2)).any (·.isNone) = false := by
      rw [List.any_eq_false]
      intro r hr
      simp [hall r hr]
    rw [h1]
    simp only [Bool.false_eq_true, if_false, Option.some.injEq, List.all_eq_true, beq_iff_eq]
    exact hall

theorem orderTable_pairwise_iff (xs : OTbl) :
    (∃ tbl, orderTableFrom [] xs = some tbl ∧ pairwiseOrders tbl = some true) ↔
      Functional xs ∧
        ∀ x ∈ xs, ∀ y ∈ xs, x.1 ≠ y.1 → matchOrder x.1 x.2 y.1 y.2 = some true := by
  constructor
  · rintro ⟨tbl, h, hpw⟩
    refine ⟨(orderTableFrom_nil_iff xs).1 ⟨tbl, h⟩, ?_⟩
    obtain ⟨_, hm⟩ := orderTableFrom_some h (by simp)
    rw [pairwiseOrders_iff] at hpw
    intro x hx y hy hxy
    have hx' := (hm x).2 (Or.inr hx)
    have hy' := (hm y).2 (Or.inr hy)
    rcases pairwise_or hpw hx' hy' (fun e => hxy (e ▸ rfl)) with h | h
    · exact h
    · rw [matchOrder_symm]; exact h
  · rintro ⟨hf, hord⟩
    obtain ⟨tbl, h⟩ := (orderTableFrom_nil_iff xs).2 hf
    refine ⟨tbl, h, ?_⟩
    obtain ⟨hn, hm⟩ := orderTableFrom_some h (by simp)
    rw [pairwiseOrders_iff]
    rw [List.nodup_iff_pairwise_ne, List.pairwise_map] at hn
    refine hn.imp_of_mem ?_
    intro x y hx hy hxy
    have hx' : x ∈ xs := by simpa using (hm x).1 hx
    have hy' : y ∈ xs := by simpa using (hm y).1 hy
    exact hord x hx' y hy' hxy

theorem mem_orderedNodes (m : Mol) (l : Link) (mp : Map) (x : Order × Int) :
    x ∈ orderedNodes m l mp ↔
      ∃ a ∈ l.nodes, a.order = some x.1 ∧ x.2 = m.resid (Map.toFun mp a.key) := by
  obtain ⟨o, r⟩ := x
  simp only [orderedNodes, List.mem_filterMap, Option.map_eq_some_iff, Prod.mk.injEq]
  constructor
  · rintro ⟨a, ha, o', ho, rfl, rfl⟩
    exact ⟨a, ha, ho, rfl⟩
  · rintro ⟨a, ha, ho, hr⟩
    exact ⟨a, ha, o, ho, rfl, hr.symm⟩

/-- the two order clauses of `LinkFits` against the order table of the code -/
theorem orders_iff (m : Mol) (l : Link) (mp : Map) :
    (∃ tbl, orderTable m l mp = some tbl ∧ pairwiseOrders tbl = some true) ↔
      (∀ a ∈ l.nodes, ∀ b ∈ l.nodes, ∀ o, a.order = some o → b.order = some o →
        m.resid (Map.toFun mp a.key) = m.resid (Map.toFun mp b.key)) ∧
      (∀ a ∈ l.nodes, ∀ b ∈ l.nodes, ∀ oa ob, a.order = some oa → b.order = some ob → oa ≠ ob →
        matchOrder oa (m.resid (Map.toFun mp a.key)) ob (m.resid (Map.toFun mp b.key)) = some true) := by
  unfold orderTable
  rw [orderTable_pairwise_iff]
  constructor
  · rintro ⟨hf, hord⟩
    constructor
    · intro a ha b hb o hoa hob
      exact hf (o, _) ((mem_orderedNodes ..).2 ⟨a, ha, hoa, rfl⟩)
        (o, _) ((mem_orderedNodes ..).2 ⟨b, hb, hob, rfl⟩) rfl
    · intro a ha b hb oa ob hoa hob hne
      exact hord (oa, _) ((mem_orderedNodes ..).2 ⟨a, ha, hoa, rfl⟩)
        (ob, _) ((mem_orderedNodes ..).2 ⟨b, hb, hob, rfl⟩) hne
  · rintro ⟨hs, ho⟩
    constructor
    · intro x hx y hy hxy
      obtain ⟨a, ha, hoa, hra⟩ := (mem_orderedNodes ..).1 hx
      obtain ⟨b, hb, hob, hrb⟩ := (mem_orderedNodes ..).1 hy
      rw [hra, hrb]
      exact hs a ha b hb x.1 hoa (hxy ▸ hob)
    · intro x hx y hy hxy
      obtain ⟨a, ha, hoa, hra⟩ := (mem_orderedNodes ..).1 hx
      obtain ⟨b, hb, hob, hrb⟩ := (mem_orderedNodes ..).1 hy
      rw [hra, hrb]
      exact ho a ha b hb x.1 y.1 hoa hob hxy

/-! ## the loop body -/

theorem placementOk_iff (m : Mol) (l : Link) (mp : Map) :
    placementOk m l mp = some true ↔
      validNonEdges m l mp l.nonEdges = some true ∧
      (∃ ap, anyPattern m mp l.patterns = some ap ∧ (l.patterns = [] ∨ ap = true)) ∧
      ∃ tbl, orderTable m l mp = some tbl ∧ pairwiseOrders tbl = some true := by
  unfold placementOk
  cases hv : validNonEdges m l mp l.nonEdges with
  | none => simp
  | some bv =>
    cases bv with
    | false => simp
    | true =>
      simp only [true_and]
      cases hap : anyPattern m mp l.patterns with
      | none => simp
      | some ap =>
        simp only [Option.some.injEq, exists_eq_left']
        by_cases hc : l.patterns = [] ∨ ap = true
        · have hc' : (!l.patterns.isEmpty && !ap) = false := by
            rcases hc with h | h <;> simp [h]
          simp only [hc', Bool.false_eq_true, if_false, hc, true_and]
          cases ht : orderTable m l mp with
          | none => simp
          | some tbl => simp
        · have hc' : (!l.patterns.isEmpty && !ap) = true := by
            simp only [not_or] at hc
            simp [hc.1, hc.2]
          simp [hc', hc]

/-! ## main theorems -/

theorem mem_rawMatches_iff (m : Mol) (l : Link) (hk : l.keys.Nodup) (mp : Map) :
    mp ∈ rawMatches m l ↔
      mp.map Prod.fst = l.keys ∧ IsIndIsoP m.graph l.graph (linkPred m l) (Map.toFun mp) := by
  unfold rawMatches
  rw [mem_allIsosP_iff _ _ _ (by rw [link_graph_keys]; exact hk), link_graph_keys]

theorem placed_of_raw (m : Mol) (l : Link) (hk : l.keys.Nodup) (mp : Map)
    (hdom : mp.map Prod.fst = l.keys)
    (hiso : IsIndIsoP m.graph l.graph (linkPred m l) (Map.toFun mp)) (k : Int) (h : k ∈ l.keys) :
    Placed m mp k := by
  have hn : (mp.map Prod.fst).Nodup := hdom ▸ hk
  have hmem : k ∈ mp.map Prod.fst := hdom ▸ h
  obtain ⟨⟨k', t⟩, hkt, rfl⟩ := List.mem_map.1 hmem
  have hl := lookup_of_mem hn hkt
  have htf := toFun_of_mem hn hkt
  have hnode := (hiso.node k' (by rw [link_graph_keys]; exact h)).1
  rw [mol_graph_keys, htf] at hnode
  obtain ⟨n, hn'⟩ := node?_of_mem m t hnode
  exact ⟨t, n, hl, hn'⟩

/-- `match_link` yields exactly the placements on which the link fits. -/
theorem matchLink_exact (m : Mol) (l : Link) (hk : l.keys.Nodup) (hp : PatternsClosed l) (mp : Map) :
    mp ∈ matchLink m l ↔ LinkFits m l mp := by
  unfold matchLink
  constructor
  · intro h
    split at h
    · rename_i hmeta
      rw [List.mem_filter, mem_rawMatches_iff m l hk, beq_iff_eq, placementOk_iff] at h
      obtain ⟨⟨hdom, hiso⟩, hne, ⟨ap, hap, hpat⟩, hord⟩ := h
      obtain ⟨hs, ho⟩ := (orders_iff m l mp).1 hord
      obtain ⟨b, hb, hiff⟩ := anyPattern_spec m mp l.patterns
        (fun p hpp kt hkt => placed_of_raw m l hk mp hdom hiso kt.1 (hp p hpp kt hkt))
      refine ⟨(attributesMatch_nil_iff ..).1 hmeta, hdom, hiso, ?_, ?_, hs, ho⟩
      · intro ne hne'
        exact (nonEdgeOk_iff ..).1 ((validNonEdges_iff ..).1 hne ne hne')
      · rcases hpat with h | h
        · exact Or.inl h
        · right
          rw [hb] at hap
          cases hap
          exact hiff.1 h
    · simp at h
  · intro h
    have hmeta := (attributesMatch_nil_iff ..).2 h.molmeta
    rw [if_pos hmeta, List.mem_filter, mem_rawMatches_iff m l hk, beq_iff_eq, placementOk_iff]
    obtain ⟨b, hb, hiff⟩ := anyPattern_spec m mp l.patterns
      (fun p hpp kt hkt => placed_of_raw m l hk mp h.dom h.iso kt.1 (hp p hpp kt hkt))
    refine ⟨⟨h.dom, h.iso⟩, ?_, ⟨b, hb, ?_⟩, (orders_iff m l mp).2 ⟨h.sameResid, h.orders⟩⟩
    · rw [validNonEdges_iff]
      intro ne hne
      exact (nonEdgeOk_iff ..).2 (h.nonEdges ne hne)
    · rcases h.patterns with h' | h'
      · exact Or.inl h'
      · exact Or.inr (hiff.2 h')

/-- no placement is produced twice -/
theorem matchLink_nodup (m : Mol) (l : Link) (hm : m.keys.Nodup) : (matchLink m l).Nodup := by
  unfold matchLink
  split
  · refine List.Nodup.sublist List.filter_sublist ?_
    unfold rawMatches
    exact allIsosP_nodup _ _ _ (by rw [mol_graph_keys]; exact hm)
  · exact List.nodup_nil

/-- every function that fits is found (as the placement listing the link atoms in link order) -/
theorem matchLink_complete (m : Mol) (l : Link) (hk : l.keys.Nodup) (hp : PatternsClosed l) (f : Int → Int)
    (h : LinkFits m l (l.keys.map fun u => (u, f u))) :
    (l.keys.map fun u => (u, f u)) ∈ matchLink m l :=
  (matchLink_exact m l hk hp _).2 h

/-! ## non-vacuity: a two-atom link with orders 0 and +1 on a three-residue chain -/

/-- a path of three atoms in the residues 1, 2, 3 -/
def exMol : Mol :=
  { nodes := [⟨10, [("resid", .int 1)], []⟩, ⟨11, [("resid", .int 2)], []⟩, ⟨12, [("resid", .int 3)], []⟩],
    edges := [(10, 11), (11, 12)] }

/-- one bond between an atom of order 0 and an atom of order +1 -/
def exLink : Link :=
  { nodes := [⟨0, [("order", .plain (.int 0))], none⟩, ⟨1, [("order", .plain (.int 1))], none⟩],
    edges := [(0, 1)] }

/-- the subgraph search finds four placements, the order filter keeps the two that go forward -/
example : rawMatches exMol exLink =
    [[(0, 10), (1, 11)], [(0, 11), (1, 10)], [(0, 11), (1, 12)], [(0, 12), (1, 11)]] := by decide

example : matchLink exMol exLink = [[(0, 10), (1, 11)], [(0, 11), (1, 12)]] := by decide

example : LinkFits exMol exLink [(0, 10), (1, 11)] :=
  (matchLink_exact exMol exLink (by decide) (by intro p hp; cases hp) _).1 (by decide)


end C05
