import VermouthProofs.C01_Merge
/-! C01 — what one `merge_molecule` does to a molecule built by merges only. -/
namespace C01
open C12

theorem corrOf_range (keys : List Int) (off k x : Int) (h : corrOf keys off k = some x) :
    ∃ i, i < keys.length ∧ x = off + 1 + (i : Int) ∧ keys[i]? = some k := by
  unfold corrOf at h
  split at h
  · rename_i i hi
    cases h
    rw [List.findIdx?_eq_some_iff_getElem] at hi
    obtain ⟨hlt, hp, _⟩ := hi
    refine ⟨i, hlt, rfl, ?_⟩
    have : keys[i] = k := by simpa using hp
    rw [List.getElem?_eq_getElem hlt, this]
  · cases h

theorem renameEdges_mem (keys : List Int) (off : Int) (es re : List (Int × Int))
    (h : renameEdges keys off es = some re) :
    ∀ e ∈ re, ∃ e0 ∈ es, corrOf keys off e0.1 = some e.1 ∧ corrOf keys off e0.2 = some e.2 ∧ e.1 ≠ e.2 := by
  induction es generalizing re with
  | nil =>
    simp [renameEdges] at h; subst h; simp
  | cons x r ih =>
    obtain ⟨u, v⟩ := x
    unfold renameEdges at h
    cases hu : corrOf keys off u with
    | none => simp [hu] at h
    | some u' =>
      cases hv : corrOf keys off v with
      | none => simp [hu, hv] at h
      | some v' =>
        cases hr : renameEdges keys off r with
        | none => simp [hu, hv, hr] at h
        | some r' =>
          simp only [hu, hv, hr, Option.bind_eq_bind, Option.bind_some, Option.pure_def, Option.some.injEq] at h
          have ih' := ih r' hr
          subst h
          intro e he
          by_cases huv : u' = v'
          · rw [if_pos huv] at he
            obtain ⟨e0, he0, h1⟩ := ih' e he
            exact ⟨e0, List.mem_cons_of_mem _ he0, h1⟩
          · rw [if_neg huv] at he
            rcases List.mem_cons.1 he with rfl | he
            · exact ⟨(u, v), List.mem_cons_self, hu, hv, huv⟩
            · obtain ⟨e0, he0, h1⟩ := ih' e he
              exact ⟨e0, List.mem_cons_of_mem _ he0, h1⟩

/-- … and conversely every block edge that is not a self loop is renamed -/
theorem renameEdges_complete (keys : List Int) (off : Int) (es re : List (Int × Int))
    (h : renameEdges keys off es = some re) :
    ∀ e0 ∈ es, ∃ u' v', corrOf keys off e0.1 = some u' ∧ corrOf keys off e0.2 = some v'
      ∧ (u' ≠ v' → (u', v') ∈ re) := by
  induction es generalizing re with
  | nil => simp
  | cons x r ih =>
    obtain ⟨u, v⟩ := x
    unfold renameEdges at h
    cases hu : corrOf keys off u with
    | none => simp [hu] at h
    | some u' =>
      cases hv : corrOf keys off v with
      | none => simp [hu, hv] at h
      | some v' =>
        cases hr : renameEdges keys off r with
        | none => simp [hu, hv, hr] at h
        | some r' =>
          simp only [hu, hv, hr, Option.bind_eq_bind, Option.bind_some, Option.pure_def, Option.some.injEq] at h
          have ih' := ih r' hr
          subst h
          intro e0 he0
          rcases List.mem_cons.1 he0 with rfl | he0
          · refine ⟨u', v', hu, hv, ?_⟩
            intro hne
            rw [if_neg hne]; exact List.mem_cons_self
          · obtain ⟨a, b, h1, h2, h3⟩ := ih' e0 he0
            refine ⟨a, b, h1, h2, ?_⟩
            intro hne
            by_cases huv : u' = v'
            · rw [if_pos huv]; exact h3 hne
            · rw [if_neg huv]; exact List.mem_cons_of_mem _ (h3 hne)

theorem lastA_none_iff (l : List (Int × Attrs)) : lastA l = none ↔ l = [] := by
  induction l with
  | nil => simp [lastA]
  | cons x r ih =>
    cases r with
    | nil => simp [lastA]
    | cons y r' => simp only [lastA]; simpa using ih

theorem next_n (o : Off) (b : Mol) : (o.next b).n = o.n + b.nodes.length := by
  unfold Off.next
  cases h : lastA b.nodes with
  | none => simp [(lastA_none_iff _).1 h]
  | some a => rfl

theorem shiftNodes_keys (o : Off) (b : Mol) :
    (shiftNodes o b).map Prod.fst = (List.range b.nodes.length).map (fun (i : Nat) => ((o.n : Int) + 1) + (i : Int)) := by
  unfold shiftNodes
  rw [enumFrom_keys]; simp

theorem mem_shiftNodes_keys (o : Off) (b : Mol) (x : Int) :
    x ∈ (shiftNodes o b).map Prod.fst ↔ ∃ i, i < b.nodes.length ∧ x = (o.n : Int) + 1 + (i : Int) := by
  rw [shiftNodes_keys]
  simp only [List.mem_map, List.mem_range]
  constructor
  · rintro ⟨i, hi, rfl⟩; exact ⟨i, hi, rfl⟩
  · rintro ⟨i, hi, rfl⟩; exact ⟨i, hi, rfl⟩

/-- one merge: nodes appended under the next keys with shifted resid / charge group; interactions
appended under the key shift; edges = old edges + renamed block edges; invariant kept -/
theorem merge_spec (m b m' : Mol) (o : Off) (hinv : Inv m o) (h : m.merge b = (m', .ok)) :
    m'.nodes = m.nodes ++ shiftNodes o b
    ∧ Inv m' (o.next b)
    ∧ (∃ ri, renameInters b.keys (o.n : Int) b.inters = some ri ∧ m'.inters = m.inters ++ ri)
    ∧ (∃ re, renameEdges b.keys (o.n : Int) b.edges = some re ∧
        ∀ x y, m'.hasEdge x y = true ↔ m.hasEdge x y = true ∨ (x, y) ∈ re ∨ (y, x) ∈ re)
    ∧ m'.nrexcl = mergeNrexcl m b := by
  rw [merge_eq] at h
  split at h
  · cases h
  split at h
  · cases h
  · rw [offsOf_inv m o hinv] at h
    simp only [mergeCore] at h
    split at h
    · rename_i ri re hri hre
      -- the node table
      have hfresh : ∀ p ∈ m.nodes, p.1 < (o.n : Int) + 1 := by
        intro p hp
        have : p.1 ∈ m.keys := List.mem_map.2 ⟨p, hp, rfl⟩
        rw [hinv.1, mem_iota1] at this
        omega
      have hnodes := foldl_upsert_enumFrom (b.nodes.map (fun p => (p.1, p.2.shift o.roff o.coff))) m.nodes
        ((o.n : Int) + 1) hfresh
      -- end points of the renamed edges are new nodes
      have hmem := renameEdges_mem b.keys (o.n : Int) b.edges re hre
      have hblen : b.keys.length = b.nodes.length := by simp [Mol.keys]
      have hin : ∀ x, (∃ k, corrOf b.keys (o.n : Int) k = some x) → x ∈ (m.nodes ++ shiftNodes o b).map Prod.fst := by
        rintro x ⟨k, hk⟩
        obtain ⟨i, hi, hx, _⟩ := corrOf_range _ _ _ _ hk
        rw [List.map_append, List.mem_append]
        right
        rw [mem_shiftNodes_keys]
        exact ⟨i, by omega, hx⟩
      have hfold := foldl_addEdge re
        { m with nrexcl := mergeNrexcl m b,
                 nodes := m.nodes ++ shiftNodes o b,
                 inters := m.inters ++ ri }
        (by
          intro e he
          obtain ⟨e0, _, h1, h2, _⟩ := hmem e he
          exact ⟨hin _ ⟨_, h1⟩, hin _ ⟨_, h2⟩⟩)
      simp only [Prod.mk.injEq] at h
      replace h := h.1
      unfold shiftNodes at hfold
      rw [hnodes] at h
      obtain ⟨f1, f2, f3, f4, f5, f6⟩ := hfold
      subst h
      have hN : m.nodes ++ shiftNodes o b = m.nodes ++ shiftNodes o b := rfl
      refine ⟨f1, ?_, ⟨ri, hri, f2⟩, ⟨re, hre, ?_⟩, f3⟩
      · -- invariant
        constructor
        · show List.map Prod.fst _ = _
          simp only at f1
          rw [f1, List.map_append, next_n, iota1_add]
          have := shiftNodes_keys o b
          unfold shiftNodes at this
          rw [this]
          exact congrArg (· ++ _) hinv.1
        · simp only at f1
          simp only [f1]
          by_cases hb : b.nodes = []
          · -- nothing was added
            have hnext : o.next b = o := by
              unfold Off.next; rw [(lastA_none_iff _).2 hb]
            rw [hnext]
            have hsn : enumFrom ((o.n : Int) + 1) (b.nodes.map (fun p => (p.1, p.2.shift o.roff o.coff))) = [] := by
              rw [hb]; rfl
            rw [hsn, List.append_nil]
            by_cases hm : m.nodes = []
            · rw [if_pos hm]
              have := hinv.2; rw [if_pos hm] at this; exact this
            · rw [if_neg hm]
              have := hinv.2; rw [if_neg hm] at this
              refine ⟨?_, this.2⟩
              left
              simp [hb]
          · have hne : m.nodes ++ enumFrom ((o.n : Int) + 1) (b.nodes.map (fun p => (p.1, p.2.shift o.roff o.coff))) ≠ [] := by
              intro hcontra
              have := congrArg List.length hcontra
              simp only [List.length_append, enumFrom_length, List.length_map, List.length_nil] at this
              have : b.nodes.length = 0 := by omega
              exact hb (List.length_eq_zero_iff.1 this)
            rw [if_neg hne]
            obtain ⟨a, ha⟩ : ∃ a, lastA b.nodes = some a := by
              cases hl : lastA b.nodes with
              | none => exact absurd ((lastA_none_iff _).1 hl) hb
              | some a => exact ⟨a, rfl⟩
            have hnext : o.next b = { n := o.n + b.nodes.length, roff := a.resid.getD 1 + o.roff,
                                      coff := a.cg.getD 1 + o.coff } := by
              unfold Off.next; rw [ha]
            rw [hnext]
            refine ⟨Or.inl (by simp only [Int.natCast_add]), a.shift o.roff o.coff, ?_, ?_, ?_⟩
            · rw [lookupAttrs_append_right]
              · rw [lookup_enumFrom_last]
                · rw [lastA_map_shift, ha]; rfl
                · simpa using hb
                · simp only [List.length_map, Int.natCast_add]; omega
              · intro p hp
                have := hfresh p hp
                have hl : 0 < b.nodes.length := List.length_pos_iff.2 hb
                simp only [Int.natCast_add]
                omega
            · simp [Attrs.shift]
            · simp [Attrs.shift]
      · intro x y
        exact f6 x y
    · cases h

end C01
