import VermouthProofs.C01_Inter
/-! C01 — matches and weight tables that are dictionaries never assign two weights to one
atom/particle pair. -/
namespace C01
open C12

theorem nodup_fst_unique {β} (l : List (Int × β)) (h : (l.map Prod.fst).Nodup) (a : Int) (x y : β)
    (hx : (a, x) ∈ l) (hy : (a, y) ∈ l) : x = y := by
  induction l with
  | nil => cases hx
  | cons p r ih =>
    simp only [List.map_cons, List.nodup_cons] at h
    have hmem : ∀ z, (a, z) ∈ r → a ∈ r.map Prod.fst := fun z hz => List.mem_map.2 ⟨(a, z), hz, rfl⟩
    rcases List.mem_cons.1 hx with hx1 | hx2
    · rcases List.mem_cons.1 hy with hy1 | hy2
      · rw [← hx1] at hy1; cases hy1; rfl
      · rw [← hx1] at h; exact absurd (hmem y hy2) h.1
    · rcases List.mem_cons.1 hy with hy1 | hy2
      · rw [← hy1] at h; exact absurd (hmem x hx2) h.1
      · exact ih h.2 hx2 hy2

/-- the match and every weight table of the placement have distinct keys (they are Python dicts) -/
def PlacementWF (p : Placement) : Prop :=
  (p.molToBlock.map Prod.fst).Nodup ∧ ∀ aw ∈ p.molToBlock, (aw.2.map Prod.fst).Nodup

theorem corrOf_inj (keys : List Int) (off k1 k2 x : Int) (h1 : corrOf keys off k1 = some x)
    (h2 : corrOf keys off k2 = some x) : k1 = k2 := by
  obtain ⟨i, _, hx1, hk1⟩ := corrOf_range _ _ _ _ h1
  obtain ⟨j, _, hx2, hk2⟩ := corrOf_range _ _ _ _ h2
  have : i = j := by omega
  subst this
  rw [hk1] at hk2
  exact Option.some.inj hk2

theorem split_eq {α} (l pre1 post1 pre2 post2 : List α) (p1 p2 : α)
    (h1 : l = pre1 ++ p1 :: post1) (h2 : l = pre2 ++ p2 :: post2) (hlen : pre1.length = pre2.length) :
    pre1 = pre2 ∧ p1 = p2 ∧ post1 = post2 := by
  rw [h1] at h2
  obtain ⟨ha, hb⟩ := List.append_inj h2 hlen
  simp only [List.cons.injEq] at hb
  exact ⟨ha, hb.1, hb.2⟩

theorem stepEntries_functional (o : Off) (p : Placement) (hwf : PlacementWF p)
    (hs : (weightEntries p.block.keys (o.n : Int) p.molToBlock).isSome = true) :
    Functional (stepEntries o p) := by
  intro e he e' he' h1 h2
  obtain ⟨a, k, w⟩ := e
  obtain ⟨a', k', w'⟩ := e'
  simp only at h1 h2
  subst h1; subst h2
  show w = w'
  rcases (mem_stepEntries o p a k w hs).1 he with ⟨ws, blk, m1, m2, m3⟩ | ⟨z1, z2, z3⟩
  · rcases (mem_stepEntries o p a k w' hs).1 he' with ⟨ws', blk', n1, n2, n3⟩ | ⟨y1, y2, y3⟩
    · have hws : ws = ws' := nodup_fst_unique _ hwf.1 a ws ws' m1 n1
      subst hws
      have hb : blk = blk' := corrOf_inj _ _ _ _ _ m3 n3
      subst hb
      exact nodup_fst_unique _ (hwf.2 _ m1) blk w w' m2 n2
    · -- `k` is both mapped to and spawned: impossible
      exfalso
      unfold stepSpawned spawnedOut at y1
      obtain ⟨s, hs1, hs2⟩ := List.mem_filterMap.1 y1
      have hsb : s = blk := corrOf_inj _ _ _ _ _ hs2 m3
      subst hsb
      unfold spawnedBlock at hs1
      simp only [List.mem_filter, Bool.not_eq_true', List.any_eq_false, List.any_eq_true, not_exists, not_and] at hs1
      have := hs1.2 (a, ws) m1 (s, w) m2; simp at this
  · rcases (mem_stepEntries o p a k w' hs).1 he' with ⟨ws', blk', n1, n2, n3⟩ | ⟨y1, y2, y3⟩
    · exfalso
      unfold stepSpawned spawnedOut at z1
      obtain ⟨s, hs1, hs2⟩ := List.mem_filterMap.1 z1
      have hsb : s = blk' := corrOf_inj _ _ _ _ _ hs2 n3
      subst hsb
      unfold spawnedBlock at hs1
      simp only [List.mem_filter, Bool.not_eq_true', List.any_eq_false, List.any_eq_true, not_exists, not_and] at hs1
      have := hs1.2 (a, ws') n1 (s, w') n2; simp at this
    · rw [z3, y3]

/-- the hypothesis of `weights_exact` holds whenever the loop succeeded on well-formed placements -/
theorem functional_of_wf (ps : List Placement) (hok : (placeAll (order ps)).err = none)
    (hwf : ∀ p ∈ ps, PlacementWF p) : Functional (logSpec Off.zero (order ps)) := by
  intro e he e' he' h1 h2
  obtain ⟨pre1, p1, post1, hs1, hm1⟩ := (mem_logSpec _ _ _).1 he
  obtain ⟨pre2, p2, post2, hs2, hm2⟩ := (mem_logSpec _ _ _).1 he'
  have hr1 := (stepEntries_bead_mem _ p1 e hm1).1
  have hr2 := (stepEntries_bead_mem _ p2 e' hm2).1
  rw [← h2] at hr2
  have hlen : pre1.length = pre2.length :=
    inPlacement_unique (order ps) _ _ e.2.1 ⟨pre1, p1, post1, hs1, rfl, hr1⟩ ⟨pre2, p2, post2, hs2, rfl, hr2⟩
  obtain ⟨rfl, rfl, rfl⟩ := split_eq _ _ _ _ _ _ _ hs1 hs2 hlen
  have hp : p1 ∈ ps := (order_perm' ps).subset (by rw [hs1]; simp)
  exact stepEntries_functional _ p1 (hwf p1 hp) (weightEntries_isSome ps pre1 p1 post1 hs1 hok) e hm1 e' hm2 h1 h2

end C01
