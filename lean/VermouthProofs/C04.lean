import VermouthModel.C04
import VermouthProofs.Iso
/-!
# C04 — lemmas about the model of `repair_graph` (core Lean only)

1. lists, edges, neighbours, `maxKey`;
2. the rebuild loop: an induction principle over the passes (`pass_induct`, `rebuild_induct`), what a
   pass without progress means (`pass_false`), progress shrinks `missing` (`pass_true_lt`), the loop
   ends in "nothing missing" or "every missing atom has only missing neighbours" (`rebuild_end`),
   more fuel changes nothing (`rebuild_fuel`);
3. the invariant of the loop (`Inv`) and what it gives at the end;
4. step 1 as a map over the atoms (`canonicalise_eq_map`, `canonFn_*`).
-/
namespace C04
open Iso

/-! ## 1. basics -/

theorem le_maxKey {ks : List Int} {k : Int} (h : k ∈ ks) : k ≤ maxKey ks := by
  induction ks with
  | nil => cases h
  | cons a l ih =>
    unfold maxKey
    by_cases hl : l.isEmpty
    · simp only [hl, if_true]
      have : l = [] := by simpa using hl
      subst this
      simp at h; omega
    · simp only [hl]
      rcases List.mem_cons.1 h with rfl | h'
      · simp; omega
      · have := ih h'; simp; omega

theorem maxKey_succ_not_mem (ks : List Int) : maxKey ks + 1 ∉ ks := by
  intro h; have := le_maxKey h; omega

theorem hasEdge_comm (es : List (Int × Int)) (u v : Int) : hasEdge es u v = hasEdge es v u := by
  unfold hasEdge
  congr 1; funext e
  rw [Bool.or_comm]

theorem hasEdge_iff (es : List (Int × Int)) (u v : Int) :
    hasEdge es u v = true ↔ ∃ e ∈ es, (e.1 = u ∧ e.2 = v) ∨ (e.1 = v ∧ e.2 = u) := by
  unfold hasEdge
  simp only [List.any_eq_true, Bool.or_eq_true, Bool.and_eq_true, beq_iff_eq]

theorem hasEdge_addEdge_mono {es : List (Int × Int)} {u v : Int} (e : Int × Int)
    (h : hasEdge es u v = true) : hasEdge (addEdge es e) u v = true := by
  unfold addEdge
  split
  · exact h
  · rw [hasEdge_iff] at h ⊢
    obtain ⟨x, hx, hh⟩ := h
    exact ⟨x, List.mem_append_left _ hx, hh⟩

theorem hasEdge_addEdge_self (es : List (Int × Int)) (e : Int × Int) :
    hasEdge (addEdge es e) e.1 e.2 = true := by
  unfold addEdge
  split
  · assumption
  · rw [hasEdge_iff]
    exact ⟨e, by simp, Or.inl ⟨rfl, rfl⟩⟩

theorem hasEdge_foldl_mono {es : List (Int × Int)} {u v : Int} (l : List (Int × Int))
    (h : hasEdge es u v = true) : hasEdge (l.foldl addEdge es) u v = true := by
  induction l generalizing es with
  | nil => exact h
  | cons e l ih => exact ih (hasEdge_addEdge_mono e h)

theorem hasEdge_foldl_mem {es : List (Int × Int)} (l : List (Int × Int)) {e : Int × Int} (he : e ∈ l) :
    hasEdge (l.foldl addEdge es) e.1 e.2 = true := by
  induction l generalizing es with
  | nil => cases he
  | cons x l ih =>
    rcases List.mem_cons.1 he with rfl | h'
    · exact hasEdge_foldl_mono l (hasEdge_addEdge_self es e)
    · exact ih h'

/-- an edge of the result of adding edges is an old edge or one of the added ones -/
theorem mem_foldl_addEdge {es : List (Int × Int)} (l : List (Int × Int)) {e : Int × Int}
    (h : e ∈ l.foldl addEdge es) : e ∈ es ∨ e ∈ l := by
  induction l generalizing es with
  | nil => exact Or.inl h
  | cons x l ih =>
    rcases ih h with h1 | h1
    · unfold addEdge at h1
      split at h1
      · exact Or.inl h1
      · rcases List.mem_append.1 h1 with h2 | h2
        · exact Or.inl h2
        · simp at h2; subst h2; exact Or.inr (by simp)
    · exact Or.inr (List.mem_cons_of_mem _ h1)

theorem subset_foldl_addEdge {es : List (Int × Int)} (l : List (Int × Int)) {e : Int × Int}
    (h : e ∈ es) : e ∈ l.foldl addEdge es := by
  induction l generalizing es with
  | nil => exact h
  | cons x l ih =>
    apply ih
    unfold addEdge
    split
    · exact h
    · exact List.mem_append_left _ h

theorem mem_nbrs_iff (es : List (Int × Int)) (r q : Int) :
    q ∈ nbrs es r ↔ ∃ e ∈ es, (e.1 = r ∧ e.2 = q) ∨ (e.1 ≠ r ∧ e.2 = r ∧ e.1 = q) := by
  unfold nbrs
  simp only [List.mem_filterMap]
  constructor
  · rintro ⟨e, he, h⟩
    refine ⟨e, he, ?_⟩
    by_cases h1 : e.1 = r
    · simp only [h1, if_true, Option.some.injEq] at h; exact Or.inl ⟨h1, h⟩
    · simp only [h1, if_false] at h
      by_cases h2 : e.2 = r
      · simp only [h2, if_true, Option.some.injEq] at h; exact Or.inr ⟨h1, h2, h⟩
      · simp [h2] at h
  · rintro ⟨e, he, h⟩
    refine ⟨e, he, ?_⟩
    rcases h with ⟨h1, h2⟩ | ⟨h1, h2, h3⟩
    · simp [h1, h2]
    · rw [if_neg h1, if_pos h2, h3]

theorem mem_nbrs_of_edge {es : List (Int × Int)} {e : Int × Int} (he : e ∈ es) :
    e.2 ∈ nbrs es e.1 ∧ e.1 ∈ nbrs es e.2 := by
  constructor
  · exact (mem_nbrs_iff es e.1 e.2).2 ⟨e, he, Or.inl ⟨rfl, rfl⟩⟩
  · by_cases h : e.1 = e.2
    · exact (mem_nbrs_iff es e.2 e.1).2 ⟨e, he, Or.inl ⟨h, h.symm⟩⟩
    · exact (mem_nbrs_iff es e.2 e.1).2 ⟨e, he, Or.inr ⟨h, rfl, rfl⟩⟩

/-- neighbourhood is symmetric -/
theorem nbrs_symm {es : List (Int × Int)} {r q : Int} (h : q ∈ nbrs es r) : r ∈ nbrs es q := by
  obtain ⟨e, he, h⟩ := (mem_nbrs_iff es r q).1 h
  rcases h with ⟨h1, h2⟩ | ⟨_, h2, h3⟩
  · have := (mem_nbrs_of_edge he).2; rw [h1, h2] at this; exact this
  · have := (mem_nbrs_of_edge he).1; rw [h2, h3] at this; exact this

theorem mem_of_lookup {M : Map} {r k : Int} (h : M.lookup r = some k) : (r, k) ∈ M := by
  induction M with
  | nil => simp [List.lookup] at h
  | cons p M ih =>
    obtain ⟨a, b⟩ := p
    by_cases hr : r = a
    · subst hr; simp [List.lookup] at h; subst h; simp
    · have : (r == a) = false := by simpa using hr
      simp only [List.lookup, this] at h
      exact List.mem_cons_of_mem _ (ih h)

theorem lookup_isSome_iff (M : Map) (r : Int) : (M.lookup r).isSome = true ↔ r ∈ dom M := by
  unfold dom
  induction M with
  | nil => simp [List.lookup]
  | cons p M ih =>
    obtain ⟨a, b⟩ := p
    by_cases hr : r = a
    · subst hr; simp [List.lookup]
    · have : (r == a) = false := by simpa using hr
      simp only [List.lookup, this, List.map_cons, List.mem_cons, hr, false_or]
      exact ih

theorem lookup_none_iff (M : Map) (r : Int) : M.lookup r = none ↔ r ∉ dom M := by
  rw [← lookup_isSome_iff]; cases M.lookup r <;> simp

/-! ## 2. the rebuild loop -/

section loop
variable (R : Residue)

/-- Induction over one pass: a property of `(missing, state)` that survives "rebuild one missing
atom that has a non-missing neighbour" survives the pass. -/
theorem pass_induct (P : List Int → RState → Prop)
    (hstep : ∀ cur st r, P cur st → r ∈ cur → stuck R.block.edges cur r = false →
      P (cur.erase r) (addAtom R st r)) :
    ∀ (todo cur : List Int) (st : RState) (added : Bool), todo.Nodup → (∀ r ∈ todo, r ∈ cur) → P cur st →
      P (pass R todo cur st added).1 (pass R todo cur st added).2.1 := by
  intro todo cur st added
  fun_induction pass R todo cur st added with
  | case1 cur st added => intro _ _ h; exact h
  | case2 r rest cur st added hst ih =>
    intro hn hsub h
    exact ih (List.nodup_cons.1 hn).2 (fun x hx => hsub x (List.mem_cons_of_mem _ hx)) h
  | case3 r cur st added hst =>
    intro _ hsub h
    exact hstep cur st r h (hsub r (by simp)) (by simpa using hst)
  | case4 r cur st added hst s rest' ih =>
    intro hn hsub h
    have hn' := List.nodup_cons.1 hn
    have hn'' := List.nodup_cons.1 hn'.2
    apply ih hn''.2
    · intro x hx
      have hxr : x ≠ r := by
        intro e; subst e; exact hn'.1 (List.mem_cons_of_mem _ hx)
      exact (List.mem_erase_of_ne hxr).2 (hsub x (by simp [hx]))
    · exact hstep cur st r h (hsub r (by simp)) (by simpa using hst)


/-- what a pass returns: either nothing happened (and every visited atom was stuck), or something
was rebuilt and `missing` is shorter -/
theorem pass_len (todo cur : List Int) (st : RState) (added : Bool) (hn : todo.Nodup)
    (hsub : ∀ r ∈ todo, r ∈ cur) :
    ((pass R todo cur st added) = (cur, st, added) ∧ ∀ r ∈ todo, stuck R.block.edges cur r = true)
    ∨ ((pass R todo cur st added).2.2 = true ∧ (pass R todo cur st added).1.length < cur.length) := by
  fun_induction pass R todo cur st added with
  | case1 cur st added => left; exact ⟨rfl, by simp⟩
  | case2 r rest cur st added hst ih =>
    have hn' := List.nodup_cons.1 hn
    rcases ih hn'.2 (fun x hx => hsub x (List.mem_cons_of_mem _ hx)) with ⟨h1, h2⟩ | h
    · left
      refine ⟨h1, ?_⟩
      intro x hx
      rcases List.mem_cons.1 hx with rfl | hx
      · exact hst
      · exact h2 x hx
    · right; exact h
  | case3 r cur st added hst =>
    right
    refine ⟨rfl, ?_⟩
    have hr : r ∈ cur := hsub r (by simp)
    rw [List.length_erase_of_mem hr]
    have : 0 < cur.length := List.length_pos_of_mem hr
    show cur.length - 1 < cur.length
    omega
  | case4 r cur st added hst s rest' ih =>
    right
    have hn' := List.nodup_cons.1 hn
    have hn'' := List.nodup_cons.1 hn'.2
    have hr : r ∈ cur := hsub r (by simp)
    have hlen : (cur.erase r).length < cur.length := by
      rw [List.length_erase_of_mem hr]
      have : 0 < cur.length := List.length_pos_of_mem hr
      omega
    have hsub' : ∀ x ∈ rest', x ∈ cur.erase r := by
      intro x hx
      have hxr : x ≠ r := by
        intro e; subst e; exact hn'.1 (List.mem_cons_of_mem _ hx)
      exact (List.mem_erase_of_ne hxr).2 (hsub x (by simp [hx]))
    rcases ih hn''.2 hsub' with ⟨h1, _⟩ | ⟨h1, h2⟩
    · rw [h1]; exact ⟨rfl, hlen⟩
    · exact ⟨h1, by omega⟩

theorem pass_nodup (cur : List Int) (st : RState) (hn : cur.Nodup) :
    (pass R cur cur st false).1.Nodup :=
  pass_induct R (fun c _ => c.Nodup) (fun _ _ r h _ _ => h.erase r) cur cur st false hn (fun _ h => h) hn

/-- Induction over the whole loop. -/
theorem rebuild_induct (P : List Int → RState → Prop)
    (hnd : ∀ cur st, P cur st → cur.Nodup)
    (hstep : ∀ cur st r, P cur st → r ∈ cur → stuck R.block.edges cur r = false →
      P (cur.erase r) (addAtom R st r)) :
    ∀ (fuel : Nat) (cur : List Int) (st : RState), P cur st →
      P (rebuild R fuel cur st).1 (rebuild R fuel cur st).2 := by
  intro fuel
  induction fuel with
  | zero => intro cur st h; exact h
  | succ n ih =>
    intro cur st h
    unfold rebuild
    split
    · exact h
    · have hp := pass_induct R P hstep cur cur st false (hnd _ _ h) (fun _ hx => hx) h
      rcases hpass : pass R cur cur st false with ⟨cur', st', b⟩
      rw [hpass] at hp
      cases b
      · exact hp
      · exact ih cur' st' hp

/-- When the loop ends with enough fuel, every atom still missing has only missing neighbours. -/
theorem rebuild_end : ∀ (fuel : Nat) (cur : List Int) (st : RState), cur.Nodup → cur.length < fuel →
    ∀ r ∈ (rebuild R fuel cur st).1, stuck R.block.edges (rebuild R fuel cur st).1 r = true := by
  intro fuel
  induction fuel with
  | zero => intro cur st _ h; omega
  | succ n ih =>
    intro cur st hn hlen
    unfold rebuild
    split
    · next he =>
      have : cur = [] := by simpa using he
      subst this; intro r hr; cases hr
    · have hl := pass_len R cur cur st false hn (fun _ hx => hx)
      have hnd := pass_nodup R cur st hn
      rcases hpass : pass R cur cur st false with ⟨cur', st', b⟩
      rw [hpass] at hl hnd
      cases b
      · rcases hl with ⟨h1, h2⟩ | ⟨h1, _⟩
        · have : cur' = cur := by simpa using congrArg Prod.fst h1
          subst this
          exact h2
        · cases h1
      · rcases hl with ⟨h1, _⟩ | ⟨_, h2⟩
        · have : true = false := by simpa using congrArg (fun x => x.2.2) h1
          cases this
        · exact ih cur' st' hnd (by simp at h2; omega)

/-- **Termination**: `missing.length + 1` passes suffice; more fuel changes nothing. -/
theorem rebuild_fuel : ∀ (f1 f2 : Nat) (cur : List Int) (st : RState), cur.Nodup →
    cur.length < f1 → cur.length < f2 → rebuild R f1 cur st = rebuild R f2 cur st := by
  intro f1
  induction f1 with
  | zero => intro f2 cur st _ h; omega
  | succ n ih =>
    intro f2 cur st hn h1 h2
    cases f2 with
    | zero => omega
    | succ m =>
      unfold rebuild
      split
      · rfl
      · have hl := pass_len R cur cur st false hn (fun _ hx => hx)
        have hnd := pass_nodup R cur st hn
        rcases hpass : pass R cur cur st false with ⟨cur', st', b⟩
        rw [hpass] at hl hnd
        cases b
        · rfl
        · rcases hl with ⟨h, _⟩ | ⟨_, h⟩
          · have : true = false := by simpa using congrArg (fun x => x.2.2) h
            cases this
          · simp at h
            exact ih m cur' st' hnd (by omega) (by omega)

end loop

/-! ## 3. the invariant of the loop -/

def elemOf (b : Block) (r : Int) : Int := ((b.nodes.find? fun a => a.key = r).map (·.elem)).getD 0

theorem find_of_mem_keys {b : Block} {r : Int} (h : r ∈ b.keys) :
    ∃ ref, b.nodes.find? (fun a => a.key = r) = some ref ∧ ref.key = r ∧ ref ∈ b.nodes := by
  unfold Block.keys at h
  obtain ⟨a, ha, hk⟩ := List.mem_map.1 h
  cases hf : b.nodes.find? (fun a => decide (a.key = r)) with
  | none =>
    have := List.find?_eq_none.1 hf a ha
    simp [hk] at this
  | some ref =>
    have h1 := List.find?_some hf
    have h2 := List.mem_of_find?_eq_some hf
    exact ⟨ref, rfl, by simpa using h1, h2⟩

theorem dom_append (M N : Map) : dom (M ++ N) = dom M ++ dom N := by simp [dom]
theorem ran_append (M N : Map) : ran (M ++ N) = ran M ++ ran N := by simp [ran]

theorem mem_dom_of_mem {M : Map} {p : Int × Int} (h : p ∈ M) : p.1 ∈ dom M := List.mem_map.2 ⟨p, h, rfl⟩
theorem mem_ran_of_mem {M : Map} {p : Int × Int} (h : p ∈ M) : p.2 ∈ ran M := List.mem_map.2 ⟨p, h, rfl⟩

/-- what holds of `(missing, state)` throughout the rebuild loop of residue `R`; `nodes1`, `edges0`
are the atoms (after step 1) and the edges the loop started from -/
structure Inv (R : Residue) (nodes1 : List Atom) (edges0 : List (Int × Int)) (cur : List Int) (st : RState) : Prop where
  nd : cur.Nodup
  curSub : ∀ r ∈ cur, r ∈ R.block.keys
  cover : ∀ r ∈ R.block.keys, r ∈ cur ∨ r ∈ dom st.mtch
  disj : ∀ r ∈ cur, r ∉ dom st.mtch
  domNd : (dom st.mtch).Nodup
  domSub : ∀ r ∈ dom st.mtch, r ∈ R.block.keys
  keysNd : (st.nodes.map (·.key)).Nodup
  ranKeys : ∀ k ∈ ran st.mtch, k ∈ st.nodes.map (·.key)
  ranNd : (ran st.mtch).Nodup
  mext : ∃ ext, st.mtch = R.mtch ++ ext ∧ ∀ p ∈ ext, p.2 ∉ nodes1.map (·.key)
  next : ∃ new, st.nodes = nodes1 ++ new
  named : ∀ p ∈ st.mtch, ∃ a ∈ st.nodes, a.key = p.2 ∧ a.name = nameOf R.block p.1 ∧ a.elem = elemOf R.block p.1
  edgesNew : ∀ e ∈ R.block.edges, ∀ k1 k2, (e.1, k1) ∈ st.mtch → (e.2, k2) ∈ st.mtch →
    ((e.1, k1) ∉ R.mtch ∨ (e.2, k2) ∉ R.mtch) → hasEdge st.edges k1 k2 = true
  edgesOld : ∀ e ∈ st.edges, e ∈ edges0 ∨ e.1 ∉ nodes1.map (·.key) ∨ e.2 ∉ nodes1.map (·.key)
  edgesMono : ∀ e ∈ edges0, e ∈ st.edges

theorem inv_step (R : Residue) (nodes1 : List Atom) (edges0 : List (Int × Int)) (cur : List Int) (st : RState)
    (r : Int) (h : Inv R nodes1 edges0 cur st) (hr : r ∈ cur) :
    Inv R nodes1 edges0 (cur.erase r) (addAtom R st r) := by
  obtain ⟨ref, hfind, hkey, hmem⟩ := find_of_mem_keys (h.curSub r hr)
  have hk := maxKey_succ_not_mem (st.nodes.map (·.key))
  generalize hkdef : maxKey (st.nodes.map (·.key)) + 1 = k at hk
  have hadd : addAtom R st r =
      { nodes := st.nodes ++ [newAtom R.common ref k],
        edges := (newEdges R.block.edges (st.mtch ++ [(r, k)]) r k).foldl addEdge st.edges,
        mtch := st.mtch ++ [(r, k)],
        log := st.log ++ [Event.adding k ref.name (ref.elem == elemH)] } := by
    unfold addAtom; rw [hfind]; simp only [hkdef]
  rw [hadd]
  have hrdom : r ∉ dom st.mtch := h.disj r hr
  have hkran : k ∉ ran st.mtch := fun hc => hk (h.ranKeys k hc)
  have hdomNd : (dom (st.mtch ++ [(r, k)])).Nodup := by
    rw [dom_append]
    refine List.nodup_append.2 ⟨h.domNd, by simp [dom], ?_⟩
    intro a ha b hb
    simp [dom] at hb; subst hb
    intro e; subst e; exact hrdom ha
  obtain ⟨new, hnew⟩ := h.next
  have hk1 : k ∉ nodes1.map (·.key) := by
    intro hc; apply hk; rw [hnew]; simp only [List.map_append, List.mem_append]; exact Or.inl hc
  refine
    { nd := h.nd.erase r
      curSub := fun x hx => h.curSub x (List.mem_of_mem_erase hx)
      cover := ?_, disj := ?_, domNd := hdomNd, domSub := ?_, keysNd := ?_, ranKeys := ?_, ranNd := ?_, mext := ?_,
      next := ⟨new ++ [newAtom R.common ref k], by simp [hnew]⟩
      named := ?_, edgesNew := ?_, edgesOld := ?_
      edgesMono := fun e he => subset_foldl_addEdge _ (h.edgesMono e he) }
  · -- cover
    intro x hx
    rcases h.cover x hx with hc | hc
    · by_cases hxr : x = r
      · right; rw [dom_append]; subst hxr; simp [dom]
      · left; exact (List.mem_erase_of_ne hxr).2 hc
    · right; rw [dom_append]; exact List.mem_append_left _ hc
  · -- disj
    intro x hx
    have hx' := (List.Nodup.mem_erase_iff h.nd).1 hx
    rw [dom_append]
    simp only [List.mem_append, not_or]
    exact ⟨h.disj x hx'.2, by simp [dom]; exact hx'.1⟩
  · -- domSub
    intro x hx
    rw [dom_append] at hx
    rcases List.mem_append.1 hx with hx | hx
    · exact h.domSub x hx
    · simp [dom] at hx; subst hx; exact h.curSub x hr
  · -- keysNd
    simp only [List.map_append, List.map_cons, List.map_nil]
    refine List.nodup_append.2 ⟨h.keysNd, by simp, ?_⟩
    intro a ha b hb
    simp [newAtom] at hb; subst hb
    intro e; subst e; exact hk ha
  · -- ranKeys
    intro x hx
    rw [ran_append] at hx
    simp only [List.map_append, List.mem_append]
    rcases List.mem_append.1 hx with hx | hx
    · exact Or.inl (h.ranKeys x hx)
    · right; simp [ran] at hx; subst hx; simp [newAtom]
  · -- ranNd
    rw [ran_append]
    refine List.nodup_append.2 ⟨h.ranNd, by simp [ran], ?_⟩
    intro a ha b hb
    simp [ran] at hb; subst hb
    intro e; subst e; exact hkran ha
  · -- mext
    obtain ⟨ext, he, hfresh⟩ := h.mext
    refine ⟨ext ++ [(r, k)], by simp only [he, List.append_assoc], ?_⟩
    intro p hp
    rcases List.mem_append.1 hp with hp | hp
    · exact hfresh p hp
    · simp at hp; subst hp; exact hk1
  · -- named
    intro p hp
    rcases List.mem_append.1 hp with hp | hp
    · obtain ⟨a, ha, h1⟩ := h.named p hp
      exact ⟨a, List.mem_append_left _ ha, h1⟩
    · simp at hp; subst hp
      refine ⟨newAtom R.common ref k, by simp, rfl, ?_, ?_⟩
      · simp only [newAtom, nameOf]; rw [hfind]; rfl
      · simp only [newAtom, elemOf]; rw [hfind]; rfl
  · -- edgesNew
    intro e he k1 k2 h1 h2 hnot
    have hlk : ∀ q kq, (q, kq) ∈ st.mtch ++ [(r, k)] → (st.mtch ++ [(r, k)]).lookup q = some kq :=
      fun q kq hq => Iso.lookup_of_mem hdomNd hq
    have hnb := mem_nbrs_of_edge he
    rcases List.mem_append.1 h1 with h1o | h1n
    · rcases List.mem_append.1 h2 with h2o | h2n
      · exact hasEdge_foldl_mono _ (h.edgesNew e he k1 k2 h1o h2o hnot)
      · simp at h2n
        obtain ⟨e2, hk2⟩ := h2n
        -- e.2 = r is new: e.1 is a neighbour of r with a match
        have : (k1, k) ∈ newEdges R.block.edges (st.mtch ++ [(r, k)]) r k := by
          unfold newEdges
          refine List.mem_filterMap.2 ⟨e.1, ?_, ?_⟩
          · rw [← e2]; exact hnb.2
          · rw [hlk e.1 k1 h1]; rfl
        have := hasEdge_foldl_mem (es := st.edges) _ this
        rw [hk2]; exact this
    · simp at h1n
      obtain ⟨e1, hk1'⟩ := h1n
      have : (k2, k) ∈ newEdges R.block.edges (st.mtch ++ [(r, k)]) r k := by
        unfold newEdges
        refine List.mem_filterMap.2 ⟨e.2, ?_, ?_⟩
        · rw [← e1]; exact hnb.1
        · rw [hlk e.2 k2 h2]; rfl
      have := hasEdge_foldl_mem (es := st.edges) _ this
      rw [hk1', hasEdge_comm]; exact this
  · -- edgesOld
    intro e he
    rcases mem_foldl_addEdge _ he with he | he
    · exact h.edgesOld e he
    · right; right
      unfold newEdges at he
      obtain ⟨q, _, hq⟩ := List.mem_filterMap.1 he
      cases hl : (st.mtch ++ [(r, k)]).lookup q with
      | none => simp [hl] at hq
      | some kq => simp [hl] at hq; subst hq; exact hk1


/-! ## 4. step 1 as a map over the atoms -/

/-- what step 1 does to one atom: the updates of all block atoms matched on it, in block order -/
def canonFn (M : Map) : List Atom → Atom → Atom
  | [], a => a
  | r :: rs, a =>
    canonFn M rs (match M.lookup r.key with
                  | some k => if a.key = k then canonAtom a r else a
                  | none => a)

theorem canonicalise_eq_map (b : Block) (M : Map) (nodes : List Atom) :
    canonicalise b M nodes = nodes.map (canonFn M b.nodes) := by
  unfold canonicalise
  generalize b.nodes = rs
  induction rs generalizing nodes with
  | nil => simp [canonFn]
  | cons r rs ih =>
    simp only [List.foldl_cons]
    rw [ih]
    cases hl : M.lookup r.key with
    | none => simp [canonFn, hl]
    | some k =>
      simp only [updateNode, List.map_map]
      apply List.map_congr_left
      intro a _
      simp [canonFn, hl]

theorem canonFn_key (M : Map) (rs : List Atom) (a : Atom) : (canonFn M rs a).key = a.key := by
  induction rs generalizing a with
  | nil => rfl
  | cons r rs ih =>
    simp only [canonFn]
    rw [ih]
    cases M.lookup r.key with
    | none => rfl
    | some k => simp only []; split <;> rfl

theorem canonicalise_keys (b : Block) (M : Map) (nodes : List Atom) :
    (canonicalise b M nodes).map (·.key) = nodes.map (·.key) := by
  rw [canonicalise_eq_map, List.map_map]
  apply List.map_congr_left
  intro a _
  exact canonFn_key M b.nodes a

/-- an atom on which no block atom is matched is left alone -/
theorem canonFn_untouched (M : Map) (rs : List Atom) (a : Atom)
    (h : ∀ r ∈ rs, M.lookup r.key ≠ some a.key) : canonFn M rs a = a := by
  induction rs generalizing a with
  | nil => rfl
  | cons r rs ih =>
    simp only [canonFn]
    have h0 := h r (by simp)
    have : (match M.lookup r.key with
            | some k => if a.key = k then canonAtom a r else a
            | none => a) = a := by
      cases hl : M.lookup r.key with
      | none => rfl
      | some k =>
        simp only []
        rw [if_neg]
        intro e; apply h0; rw [hl, e]
    rw [this]
    exact ih a (fun r' hr' => h r' (List.mem_cons_of_mem _ hr'))

theorem canonFn_not_ran (M : Map) (rs : List Atom) (a : Atom) (h : a.key ∉ ran M) : canonFn M rs a = a := by
  apply canonFn_untouched
  intro r _ hl
  exact h (mem_ran_of_mem (mem_of_lookup hl))

/-- the atom matched by exactly one block atom `r0` gets `r0`'s name and element -/
theorem canonFn_named (M : Map) (rs : List Atom) (a : Atom) (r0 : Atom) (h0 : r0 ∈ rs)
    (hnd : (rs.map (·.key)).Nodup) (hl0 : M.lookup r0.key = some a.key)
    (hinj : ∀ r ∈ rs, M.lookup r.key = some a.key → r.key = r0.key) :
    (canonFn M rs a).name = r0.name ∧ (canonFn M rs a).elem = r0.elem ∧ (canonFn M rs a).ptm = r0.ptm.orElse fun _ => a.ptm := by
  induction rs generalizing a with
  | nil => cases h0
  | cons r rs ih =>
    simp only [canonFn]
    have hnd' : r.key ∉ rs.map (·.key) ∧ (rs.map (·.key)).Nodup := List.nodup_cons.1 hnd
    by_cases hr : r.key = r0.key
    · -- this is r0 (keys are distinct)
      have hrr : r = r0 := by
        rcases List.mem_cons.1 h0 with e | h0'
        · exact e.symm
        · exfalso; apply hnd'.1; rw [hr]; exact List.mem_map.2 ⟨r0, h0', rfl⟩
      subst hrr
      rw [hl0]
      simp only [if_true]
      rw [canonFn_untouched]
      · exact ⟨rfl, rfl, rfl⟩
      · intro r' hr' hl'
        have hk : (canonAtom a r).key = a.key := rfl
        rw [hk] at hl'
        have := hinj r' (List.mem_cons_of_mem _ hr') hl'
        apply hnd'.1; rw [← this]; exact List.mem_map.2 ⟨r', hr', rfl⟩
    · have h0' : r0 ∈ rs := by
        rcases List.mem_cons.1 h0 with e | h0'
        · exact absurd (by rw [e]) hr
        · exact h0'
      have hstay : (match M.lookup r.key with
            | some k => if a.key = k then canonAtom a r else a
            | none => a) = a := by
        cases hl : M.lookup r.key with
        | none => rfl
        | some k =>
          simp only []
          rw [if_neg]
          intro e; apply hr; apply hinj r (by simp); rw [hl, e]
      rw [hstay]
      exact ih a h0' hnd'.2 hl0 (fun r' hr' => hinj r' (List.mem_cons_of_mem _ hr'))

theorem fst_eq_of_snd_nodup {M : Map} (h : (ran M).Nodup) {r r' k : Int} (h1 : (r, k) ∈ M) (h2 : (r', k) ∈ M) :
    r = r' := by
  unfold ran at h
  induction M with
  | nil => cases h1
  | cons p M ih =>
    have hn : p.2 ∉ M.map Prod.snd ∧ (M.map Prod.snd).Nodup := List.nodup_cons.1 h
    rcases List.mem_cons.1 h1 with e1 | h1'
    · rcases List.mem_cons.1 h2 with e2 | h2'
      · have := e1.trans e2.symm; exact congrArg Prod.fst this
      · exfalso; apply hn.1; rw [← e1]; exact List.mem_map.2 ⟨(r', k), h2', rfl⟩
    · rcases List.mem_cons.1 h2 with e2 | h2'
      · exfalso; apply hn.1; rw [← e2]; exact List.mem_map.2 ⟨(r, k), h1', rfl⟩
      · exact ih hn.2 h1' h2'


/-! ## 5. the invariant holds at the start and at the end -/

/-- what `make_reference` guarantees about the reference graph (all decidable) -/
def WF (m : Mol) (R : Residue) : Prop :=
  R.block.keys.Nodup ∧ m.keys.Nodup ∧ (dom R.mtch).Nodup ∧ (ran R.mtch).Nodup
  ∧ (∀ r ∈ dom R.mtch, r ∈ R.block.keys) ∧ (∀ k ∈ ran R.mtch, k ∈ R.found) ∧ (∀ k ∈ R.found, k ∈ m.keys)

instance (m : Mol) (R : Residue) : Decidable (WF m R) := by unfold WF; infer_instance

theorem mem_missing0 (b : Block) (M : Map) (r : Int) :
    r ∈ missing0 b M ↔ ∃ a ∈ b.nodes, a.key = r ∧ M.lookup a.key = none := by
  unfold missing0 missingAtoms
  simp only [List.mem_map, List.mem_filter, Option.isNone_iff_eq_none]
  constructor
  · rintro ⟨a, ⟨ha, hl⟩, hk⟩; exact ⟨a, ha, hk, hl⟩
  · rintro ⟨a, ha, hk, hl⟩; exact ⟨a, ⟨ha, hl⟩, hk⟩

theorem inj_of_nodup_map {α β} {f : α → β} {l : List α} (h : (l.map f).Nodup) {a b : α}
    (ha : a ∈ l) (hb : b ∈ l) (e : f a = f b) : a = b := by
  induction l with
  | nil => cases ha
  | cons x l ih =>
    have hn : f x ∉ l.map f ∧ (l.map f).Nodup := List.nodup_cons.1 h
    rcases List.mem_cons.1 ha with e1 | ha'
    · rcases List.mem_cons.1 hb with e2 | hb'
      · rw [e1, e2]
      · exfalso; apply hn.1; rw [← e1, e]; exact List.mem_map.2 ⟨b, hb', rfl⟩
    · rcases List.mem_cons.1 hb with e2 | hb'
      · exfalso; apply hn.1; rw [← e2, ← e]; exact List.mem_map.2 ⟨a, ha', rfl⟩
      · exact ih hn.2 ha' hb'

theorem nameOf_of_mem {b : Block} (hb : b.keys.Nodup) {ref : Atom} (h : ref ∈ b.nodes) :
    nameOf b ref.key = ref.name ∧ elemOf b ref.key = ref.elem := by
  obtain ⟨ref', hfind, hkey, hmem⟩ := find_of_mem_keys (b := b) (r := ref.key) (List.mem_map.2 ⟨ref, h, rfl⟩)
  have : ref' = ref := by
    unfold Block.keys at hb
    exact inj_of_nodup_map hb hmem h hkey
  subst this
  simp only [nameOf, elemOf]; rw [hfind]; exact ⟨rfl, rfl⟩

theorem inv_start (m : Mol) (R : Residue) (h : WF m R) :
    Inv R (canonicalise R.block R.mtch m.nodes) m.edges (missing0 R.block R.mtch) (startState m R) := by
  obtain ⟨hb, hm, hdn, hrn, hds, hrs, hfs⟩ := h
  have hkeys := canonicalise_keys R.block R.mtch m.nodes
  refine
    { nd := ?_, curSub := ?_, cover := ?_, disj := ?_, domNd := hdn, domSub := hds, keysNd := ?_, ranKeys := ?_,
      ranNd := hrn, mext := ⟨[], by simp [startState], by simp⟩, next := ⟨[], by simp [startState]⟩,
      named := ?_, edgesNew := ?_, edgesOld := fun e he => Or.inl he, edgesMono := fun e he => he }
  · unfold missing0 missingAtoms
    exact List.Nodup.sublist (List.Sublist.map _ List.filter_sublist) hb
  · intro r hr
    obtain ⟨a, ha, hk, _⟩ := (mem_missing0 _ _ _).1 hr
    exact List.mem_map.2 ⟨a, ha, hk⟩
  · intro r hr
    obtain ⟨a, ha, hk⟩ := List.mem_map.1 hr
    cases hl : R.mtch.lookup a.key with
    | none => left; exact (mem_missing0 _ _ _).2 ⟨a, ha, hk, hl⟩
    | some k =>
      right; show r ∈ dom R.mtch
      rw [← hk]; exact mem_dom_of_mem (mem_of_lookup hl)
  · intro r hr
    obtain ⟨a, ha, hk, hl⟩ := (mem_missing0 _ _ _).1 hr
    show r ∉ dom R.mtch
    rw [← hk]; exact (lookup_none_iff _ _).1 hl
  · show ((canonicalise R.block R.mtch m.nodes).map (·.key)).Nodup
    rw [hkeys]; exact hm
  · intro k hk
    show k ∈ (canonicalise R.block R.mtch m.nodes).map (·.key)
    rw [hkeys]; exact hfs k (hrs k hk)
  · intro p hp
    have hp' : p ∈ R.mtch := hp
    obtain ⟨ref, _, hkey, hmem⟩ := find_of_mem_keys (hds p.1 (mem_dom_of_mem hp'))
    have hk : p.2 ∈ m.keys := hfs _ (hrs _ (mem_ran_of_mem hp'))
    obtain ⟨a0, ha0, hka0⟩ := List.mem_map.1 hk
    have hl0 : R.mtch.lookup ref.key = some a0.key := by
      rw [hkey, hka0]; exact Iso.lookup_of_mem hdn hp'
    have hnamed := canonFn_named R.mtch R.block.nodes a0 ref hmem hb hl0 (by
      intro r' _ hl'
      have h1 := mem_of_lookup hl'
      have h2 := mem_of_lookup hl0
      exact fst_eq_of_snd_nodup hrn h1 h2)
    refine ⟨canonFn R.mtch R.block.nodes a0, ?_, ?_, ?_, ?_⟩
    · show _ ∈ canonicalise R.block R.mtch m.nodes
      rw [canonicalise_eq_map]; exact List.mem_map.2 ⟨a0, ha0, rfl⟩
    · rw [canonFn_key]; exact hka0
    · rw [hnamed.1, ← hkey]; exact (nameOf_of_mem hb hmem).1.symm
    · rw [hnamed.2.1, ← hkey]; exact (nameOf_of_mem hb hmem).2.symm
  · intro e _ k1 k2 h1 h2 hnot
    rcases hnot with hn | hn
    · exact absurd h1 hn
    · exact absurd h2 hn

theorem inv_final (m : Mol) (R : Residue) (h : WF m R) :
    Inv R (canonicalise R.block R.mtch m.nodes) m.edges (rebuilt m R).1 (rebuilt m R).2 := by
  unfold rebuilt
  exact rebuild_induct R (Inv R _ _) (fun _ _ hi => hi.nd) (fun cur st r hi hr _ => inv_step R _ _ cur st r hi hr)
    _ _ _ (inv_start m R h)

/-- at the end every atom still missing has only missing neighbours -/
theorem final_stuck (m : Mol) (R : Residue) (h : WF m R) :
    ∀ r ∈ (rebuilt m R).1, stuck R.block.edges (rebuilt m R).1 r = true := by
  unfold rebuilt
  exact rebuild_end R _ _ _ (inv_start m R h).nd (Nat.lt_succ_self _)

end C04
