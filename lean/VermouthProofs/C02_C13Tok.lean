import VermouthModel.C02_Repo
import VermouthProofs.C02_Good
/-!
C02 ∘ C13 — token level facts about the handlers of `C13.itpHandle` on the tokens the C02 writer
model writes: row numbers (`int()`), atom references (`isdigit`, 1-based), the `atom_idxs`
splitter (`idxPositions`) against `C02.splitAtoms`, `encodeMeta`/`decodeMeta`, pragmas.
Core Lean only.
-/
namespace C02.Repo
open C13

/-! ### numbers -/

theorem isDigit_eq (c : Char) : C13.isDigit c = c.isDigit := by
  simp [C13.isDigit, Char.isDigit, Char.le_def]

theorem toString_digits (n : Nat) : (toString n).toList ≠ [] ∧ ∀ c ∈ (toString n).toList, c.isDigit = true := by
  show (Nat.repr n).toList ≠ [] ∧ ∀ c ∈ (Nat.repr n).toList, c.isDigit = true
  rw [Nat.toList_repr]
  exact ⟨Nat.toDigits_ne_nil, fun c hc => Nat.isDigit_of_mem_toDigits (by omega) (by omega) hc⟩

theorem allDigits_toString (n : Nat) : allDigits (toString n) = true := by
  obtain ⟨h1, h2⟩ := toString_digits n
  simp only [allDigits, Bool.and_eq_true, Bool.not_eq_true', List.all_eq_true]
  refine ⟨?_, fun c hc => by rw [isDigit_eq]; exact h2 c hc⟩
  cases h : (toString n).isEmpty with
  | false => rfl
  | true =>
    have : toString n = "" := C02.isEmpty_iff_eq _ h
    rw [this] at h1
    exact absurd rfl h1

theorem pyInt_toString (n : Nat) : pyInt? (toString n) = some (n : Int) := by
  obtain ⟨h1, h2⟩ := toString_digits n
  unfold pyInt?
  cases hl : (toString n).toList with
  | nil => exact absurd hl h1
  | cons c r =>
    have hc : c.isDigit = true := h2 c (by rw [hl]; simp)
    have hm : c ≠ '-' := by intro e; subst e; revert hc; decide
    have hp : c ≠ '+' := by intro e; subst e; revert hc; decide
    have hall : (c :: r).all isDigit = true := by
      rw [List.all_eq_true]; intro x hx; rw [isDigit_eq]; exact h2 x (by rw [hl]; exact hx)
    split
    · next ds heq => simp only [List.cons.injEq] at heq; exact absurd heq.1 hm
    · next ds heq => simp only [List.cons.injEq] at heq; exact absurd heq.1 hp
    · next ds _ _ =>
      simp only [List.isEmpty_cons, Bool.not_false, Bool.true_and, hall, if_true]
      rw [← hl, String.ofList_toList, C02.toNat?_toString]
      rfl

theorem toNat_inj (a b : Nat) (h : toString a = toString b) : a = b := by
  have h1 := C02.toNat?_toString a
  rw [h, C02.toNat?_toString] at h1
  exact (Option.some.inj h1).symm

/-- the node keys of a block after `k` rows -/
def keysUpTo (k : Nat) : List String := (List.range k).map (fun (j : Nat) => toString j)

theorem keysUpTo_get (N n : Nat) (h1 : 1 ≤ n) (h2 : n ≤ N) : (keysUpTo N)[n - 1]? = some (toString (n - 1)) := by
  simp only [keysUpTo, List.getElem?_map]
  rw [List.getElem?_range (by omega)]
  rfl

theorem keysUpTo_not_mem (k : Nat) : toString k ∉ keysUpTo k := by
  intro h
  simp only [keysUpTo, List.mem_map, List.mem_range] at h
  obtain ⟨j, hj, he⟩ := h
  have := toNat_inj _ _ he
  omega

theorem keysUpTo_succ (k : Nat) : keysUpTo (k + 1) = keysUpTo k ++ [toString k] := by
  simp [keysUpTo, List.range_succ]

/-- `_treat_block_interaction_atoms` on a written reference -/
theorem itpRef_toString (c : Ctx) (N n : Nat) (hs : c.snapshot = keysUpTo N) (h1 : 1 ≤ n) (h2 : n ≤ N) :
    itpRef c (toString n) = some (toString (n - 1)) := by
  unfold itpRef
  rw [allDigits_toString, if_pos rfl, C02.toNat?_toString]
  simp only
  rw [if_neg (by omega), hs, keysUpTo_get N n h1 h2]

theorem keyIdx_toString (n : Nat) (h : 1 ≤ n) : keyIdx (toString (n - 1)) = some n := by
  unfold keyIdx
  rw [C02.toNat?_toString]
  simp; omega

theorem mapM_itpRef (c : Ctx) (N : Nat) (hs : c.snapshot = keysUpTo N) (idxs : List Nat)
    (h : ∀ n ∈ idxs, 1 ≤ n ∧ n ≤ N) :
    (idxs.map (fun (i : Nat) => toString i)).mapM (itpRef c)
      = some (idxs.map (fun (n : Nat) => toString (n - 1))) := by
  induction idxs with
  | nil => rfl
  | cons a t ih =>
    have ha := h a (by simp)
    rw [List.map_cons, List.mapM_cons, itpRef_toString c N a hs ha.1 ha.2,
      ih (fun n hn => h n (by simp [hn]))]
    rfl

theorem mapM_keyIdx (idxs : List Nat) (h : ∀ n ∈ idxs, 1 ≤ n) :
    (idxs.map (fun (n : Nat) => toString (n - 1))).mapM keyIdx = some idxs := by
  induction idxs with
  | nil => rfl
  | cons a t ih =>
    rw [List.map_cons, List.mapM_cons, keyIdx_toString a (h a (by simp)), ih (fun n hn => h n (by simp [hn]))]
    rfl

/-! ### the `atom_idxs` splitter -/

/-- `_split_atoms_and_parameters` as one function of the index list and the tokens -/
def splitIdx (idxs : List Idx) (toks : List String) : Option (List String × List String) :=
  (idxPositions toks.length idxs).map fun pos =>
    (pos.filterMap fun i => toks[i]?,
     (List.range toks.length).filterMap fun i => if pos.contains i then none else toks[i]?)

deriving instance DecidableEq for C13.Idx

def posAll (k : Nat) (l : List Idx) : Bool :=
  ((List.range k).zip l).all fun p => match p.2 with | .pos n => n == p.1 | _ => false

/-- the shapes of `atom_idxs` entries and the arity kind C02's reader derives from them -/
def idxMatch (ar : Arity) (idxs : List Idx) : Bool :=
  match ar with
  | .fixed k => idxs == [.slice 0 (some k)] || (idxs.length == k && posAll k idxs)
  | .all => idxs == [.slice 0 none]
  | .firstSkip => idxs == [.pos 0, .slice 2 none]

theorem filterMap_range_take (toks : List String) (k : Nat) :
    (List.range k).filterMap (fun i => toks[i]?) = toks.take k := by
  induction k with
  | zero => rfl
  | succ n ih =>
    rw [List.range_succ, List.filterMap_append, ih, List.take_succ]
    cases h : toks[n]? <;> simp [h]

theorem filterMap_range_drop (toks : List String) (k n : Nat) :
    (List.range n).filterMap (fun i => if (List.range k).contains i then none else toks[i]?)
      = (toks.take n).drop k := by
  induction n with
  | zero => simp
  | succ n ih =>
    rw [List.range_succ, List.filterMap_append, ih, List.take_succ]
    by_cases hk : n < k
    · have h1 : (List.range k).contains n = true := by simp [hk]
      simp only [List.filterMap_cons, h1, if_true, List.filterMap_nil, List.append_nil]
      rw [List.drop_eq_nil_of_le (by simp; omega), List.drop_eq_nil_of_le]
      simp only [List.length_append, List.length_take]
      have : (toks[n]?).toList.length ≤ 1 := by cases toks[n]? <;> simp
      omega
    · have h1 : (List.range k).contains n = false := by simp [hk]
      simp only [List.filterMap_cons, h1, Bool.false_eq_true, if_false, List.filterMap_nil]
      by_cases hn : n < toks.length
      · rw [List.drop_append_of_le_length (by simp; omega)]
        cases toks[n]? <;> simp
      · have : toks[n]? = none := by simp; omega
        simp [this]

theorem idxPositions_pos (len k : Nat) (l : List Idx) (hl : l.length = k) (off : Nat)
    (h : ((List.range' off k).zip l).all (fun p => match p.2 with | .pos n => n == p.1 | _ => false) = true)
    (hk : off + k ≤ len) : idxPositions len l = some (List.range' off k) := by
  induction l generalizing k off with
  | nil => subst hl; rfl
  | cons a t ih =>
    subst hl
    simp only [List.length_cons, List.range'_succ, List.zip_cons_cons, List.all_cons, Bool.and_eq_true] at h
    obtain ⟨h1, h2⟩ := h
    cases a with
    | slice a b => simp at h1
    | pos n =>
      simp only [beq_iff_eq] at h1
      subst h1
      simp only [idxPositions]
      simp only [List.length_cons] at hk
      rw [if_pos (by omega), ih t.length rfl (n + 1) h2 (by omega)]
      simp [List.range'_succ]

theorem splitIdx_match (ar : Arity) (idxs : List Idx) (toks : List String) (h : idxMatch ar idxs = true)
    (r : List String × List String) (hs : C02.splitAtoms ar toks = some r) :
    splitIdx idxs toks = some r := by
  cases ar with
  | fixed k =>
    simp only [C02.splitAtoms] at hs
    split at hs
    · cases hs
    · next hlen =>
      cases hs
      have hpos : idxPositions toks.length idxs = some (List.range k) := by
        simp only [idxMatch, Bool.or_eq_true, beq_iff_eq, Bool.and_eq_true] at h
        rcases h with h | h
        · subst h
          have hmin : min k toks.length = k := by omega
          simp [idxPositions, hmin]
        · have := idxPositions_pos toks.length k idxs h.1 0
            (by simpa [posAll, List.range_eq_range'] using h.2) (by omega)
          simpa [List.range_eq_range'] using this
      unfold splitIdx
      rw [hpos]
      simp only [Option.map_some, filterMap_range_take, filterMap_range_drop, List.take_length]
  | all =>
    simp only [C02.splitAtoms] at hs
    cases hs
    have hi : idxs = [.slice 0 none] := by simpa [idxMatch] using h
    subst hi
    have hpos : idxPositions toks.length [.slice 0 none] = some (List.range toks.length) := by
      simp [idxPositions]
    unfold splitIdx
    rw [hpos]
    simp only [Option.map_some, filterMap_range_take, List.take_length]
    congr 1
    congr 1
    rw [List.filterMap_eq_nil_iff]
    intro i hi
    simp only [List.mem_range] at hi
    simp [hi]
  | firstSkip =>
    have hi : idxs = [.pos 0, .slice 2 none] := by simpa [idxMatch] using h
    subst hi
    unfold splitIdx
    cases toks with
    | nil => simp [C02.splitAtoms] at hs
    | cons a t =>
      cases t with
      | nil =>
        simp only [C02.splitAtoms] at hs
        cases hs
        simp [idxPositions]
      | cons p rest =>
        simp only [C02.splitAtoms] at hs
        cases hs
        simp only [idxPositions, List.length_cons, Option.getD_none, Nat.min_self]
        rw [if_pos (by omega)]
        simp only [Bool.false_eq_true, if_false, Option.map_some, List.append_nil]
        have hr : List.range (rest.length + 1 + 1) = 0 :: 1 :: List.range' 2 rest.length := by
          rw [List.range_eq_range']
          simp [List.range'_succ]
        have hget : ∀ (pre : List String) (rest : List String),
            (List.range' pre.length rest.length).filterMap (fun i => (pre ++ rest)[i]?) = rest := by
          intro pre rest
          induction rest generalizing pre with
          | nil => simp
          | cons x xs ih =>
            simp only [List.length_cons, List.range'_succ, List.filterMap_cons]
            have h0 : (pre ++ x :: xs)[pre.length]? = some x := by simp
            rw [h0]
            have := ih (pre ++ [x])
            simp only [List.length_append, List.length_singleton, List.append_assoc, List.singleton_append] at this
            rw [this]
        have h2 := hget [a, p] rest
        simp only [List.length_cons, List.length_nil, List.cons_append, List.nil_append] at h2
        rw [hr]
        simp only [List.drop_succ_cons, List.drop_zero, List.filterMap_cons, List.getElem?_cons_zero,
          List.map_cons, Option.map_some]
        rw [h2]
        congr 1
        congr 1
        simp only [List.contains_cons, beq_self_eq_true, Bool.true_or, if_true]
        have h1c : ((1 : Nat) == 0 || (List.range' 2 rest.length).contains 1) = false := by
          rw [Bool.or_eq_false_iff]
          refine ⟨by decide, ?_⟩
          rw [Bool.eq_false_iff]
          intro hm
          rw [List.contains_iff_mem, List.mem_range'_1] at hm
          omega
        simp only [h1c, Bool.false_eq_true, if_false, List.getElem?_cons_succ, List.getElem?_cons_zero]
        congr 1
        rw [List.filterMap_eq_nil_iff]
        intro i hi
        simp [hi]

/-! ### `encodeMeta` / `decodeMeta` -/

theorem decode_plain (t : String) (h : t.toList.head? ≠ some '\x01') : decodeMeta t = (none, t) := by
  unfold decodeMeta
  split
  · next rest heq => rw [heq] at h; simp at h
  · rfl

theorem decode_encode_none (t : String) (h : t.toList.head? ≠ some '\x01') :
    decodeMeta (encodeMeta none t) = (none, t) := decode_plain t h

theorem takeWhile_until (a : List Char) (x : Char) (b : List Char) (h : ∀ c ∈ a, c ≠ x) :
    (a ++ x :: b).takeWhile (· ≠ x) = a ∧ (a ++ x :: b).dropWhile (· ≠ x) = x :: b := by
  induction a with
  | nil => simp
  | cons c r ih =>
    have hc : c ≠ x := h c (by simp)
    have hp : decide (c ≠ x) = true := by simpa using hc
    have := ih (fun y hy => h y (by simp [hy]))
    simp only [List.cons_append, List.takeWhile_cons, List.dropWhile_cons, hp, if_true, this.1, this.2]
    trivial

theorem decode_encode_some (c g t : String) (hc : ∀ x ∈ c.toList, x ≠ '\x02') (hg : ∀ x ∈ g.toList, x ≠ '\x03') :
    decodeMeta (encodeMeta (some (c, g)) t) = (some (c, g), t) := by
  show decodeMeta (String.ofList ('\x01' :: c.toList ++ '\x02' :: g.toList ++ '\x03' :: t.toList)) = _
  unfold decodeMeta
  simp only [String.toList_ofList, List.cons_append, List.append_assoc]
  have h1 := takeWhile_until c.toList '\x02' (g.toList ++ '\x03' :: t.toList) hc
  have h2 := takeWhile_until g.toList '\x03' t.toList hg
  simp only [h1.1, h1.2, List.drop_succ_cons, List.drop_zero, h2.1, h2.2, String.ofList_toList]

/-! ### pragmas -/

theorem startsWith_define (s : String) (h : startsWithS s "#define" = true) (m : PMeta) :
    startsWithS s "#" = true ∧ pragmaStep m s = some m := by
  unfold startsWithS at h
  have hl : ∃ r, s.toList = '#' :: 'd' :: 'e' :: 'f' :: 'i' :: 'n' :: 'e' :: r := by
    have : "#define".toList = ['#', 'd', 'e', 'f', 'i', 'n', 'e'] := by decide
    rw [this] at h
    rw [List.isPrefixOf_iff_prefix] at h
    obtain ⟨r, hr⟩ := h
    exact ⟨r, by rw [← hr]; rfl⟩
  obtain ⟨r, hr⟩ := hl
  have hne : s ≠ "#endif" := by
    intro e
    rw [e] at hr
    have : "#endif".toList = ['#', 'e', 'n', 'd', 'i', 'f'] := by decide
    rw [this] at hr
    simp at hr
  have e1 : "#".toList = ['#'] := by decide
  have e2 : "#else".toList = ['#', 'e', 'l', 's', 'e'] := by decide
  have e3 : "#ifdef".toList = ['#', 'i', 'f', 'd', 'e', 'f'] := by decide
  have e4 : "#ifndef".toList = ['#', 'i', 'f', 'n', 'd', 'e', 'f'] := by decide
  have e5 : "#define".toList = ['#', 'd', 'e', 'f', 'i', 'n', 'e'] := by decide
  refine ⟨by simp [startsWithS, hr, e1, List.isPrefixOf], ?_⟩
  unfold pragmaStep
  simp [hne, startsWithS, hr, e2, e3, e4, e5, List.isPrefixOf]

end C02.Repo
