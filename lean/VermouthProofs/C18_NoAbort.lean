import VermouthProofs.C18_Pipeline
import VermouthProofs.C18_Select
/-! Helper lemmas for C18, part 7: the composed pipeline never takes the KeyError path. -/
namespace C18

theorem old_members {r : Residue} {x : Int} (h : r.old = some x) : ∀ b ∈ r.members, b.oldResid = x := by
  unfold Residue.old at h
  cases hm : r.members with
  | nil => rw [hm] at h; cases h
  | cons a rest =>
    rw [hm] at h
    simp only [] at h
    split at h
    · rename_i hall
      simp only [Option.some.injEq] at h
      subst h
      intro b hb
      rcases List.mem_cons.mp hb with e | e
      · rw [e]
      · have := List.all_eq_true.mp hall b e
        simpa using this
    · cases h

theorem startsWith_goType (pre : String) (r : Int) : startsWith (goType pre r) pre = true := by
  unfold startsWith goType
  simp only [String.toList_append, List.append_assoc]
  rw [List.isPrefixOf_iff_prefix]
  exact List.prefix_append _ _

theorem site_of_backbone (pre bb vsn : String) (atoms : List Atom) (a : Atom) (ha : a ∈ atoms)
    (hbb : a.atomname = bb) :
    ∃ v ∈ addVirtualSites pre bb vsn atoms, v.chain = a.chain ∧ v.resid = a.resid ∧ v.resname = a.resname
      ∧ v.oldResid = a.oldResid ∧ v.atype = goType pre a.resid := by
  have hm : a ∈ atoms.filter (fun a => a.atomname = bb) := by
    rw [List.mem_filter]; exact ⟨ha, by simpa using hbb⟩
  obtain ⟨i, hi, hia⟩ := List.mem_iff_getElem.mp hm
  have hs := sites_getElem? pre vsn (atoms.filter (fun a => a.atomname = bb))
    (maxInts (atoms.map (·.key))) (startCg atoms) i
  rw [List.getElem?_eq_getElem hi, hia] at hs
  simp only [Option.map_some] at hs
  refine ⟨mkVS pre vsn a (maxInts (atoms.map (·.key)) + 1 + i) (startCg atoms + 1 + i), ?_, rfl, rfl, rfl, rfl, rfl⟩
  unfold addVirtualSites
  rw [vsLoop_eq_sites]
  exact List.mem_of_getElem? hs

theorem member_of_key3 {rs : List Residue} (hinv : ResInv rs) {r r' : Residue} (hr : r ∈ rs) (hr' : r' ∈ rs)
    (hk : r.key3 = r'.key3) : r = r' := by
  obtain ⟨i, hi, hri⟩ := List.mem_iff_getElem.mp hr
  obtain ⟨j, hj, hrj⟩ := List.mem_iff_getElem.mp hr'
  have hlt : i < (rs.map Residue.key3).length := by simpa using hi
  have : i = j := by
    apply (List.getElem?_inj hlt hinv.keys_nodup).mp
    simp only [List.getElem?_map, List.getElem?_eq_getElem hi, List.getElem?_eq_getElem hj, Option.map_some,
      hri, hrj, hk]
  subst this
  rw [← hri, ← hrj]

/-- In the molecule produced by `addVirtualSites`, a residue found under the key (chain, resid) that
has a backbone particle also has a Go type. -/
theorem pipeline_firstType_some (pre bb vsn : String) (atoms : List Atom) (ch : String) (x : Int) (i : Nat)
    (ra : Residue) (a : Atom)
    (hf : findRes (residuesOf (withSites atoms (addVirtualSites pre bb vsn atoms))) ch x = some i)
    (hra : (residuesOf (withSites atoms (addVirtualSites pre bb vsn atoms)))[i]? = some ra)
    (hbb : firstBB ra bb = some a) :
    ∃ t, firstType ra pre ch x = some t := by
  have hinv := residuesOf_inv (withSites atoms (addVirtualSites pre bb vsn atoms))
  obtain ⟨r1, hr1, hc, ho⟩ := findRes_sound _ ch x i hf
  rw [hra] at hr1
  have : ra = r1 := Option.some.inj hr1
  subst this
  have hram := List.mem_of_getElem? hra
  obtain ⟨hamem, haname⟩ := firstBB_some hbb
  have hold := old_members ho
  -- a witness in `ra.members` that satisfies the search predicate
  have hw : ∃ w ∈ ra.members, (w.oldResid == x && w.chain == ch && startsWith w.atype pre) = true := by
    have ha' : a ∈ withSites atoms (addVirtualSites pre bb vsn atoms) := (mem_residuesOf _ a).mp ⟨ra, hram, hamem⟩
    unfold withSites at ha'
    rcases List.mem_append.mp ha' with h1 | h1
    · obtain ⟨v, hv, hvc, hvr, hvn, _, hvt⟩ := site_of_backbone pre bb vsn atoms a h1 haname
      have hvm : v.toAtom ∈ withSites atoms (addVirtualSites pre bb vsn atoms) := by
        unfold withSites
        exact List.mem_append_right _ (List.mem_map.mpr ⟨v, hv, rfl⟩)
      obtain ⟨r', hr', hvr'⟩ := (mem_residuesOf _ v.toAtom).mpr hvm
      have k1 := hinv.members_has r' hr' _ hvr'
      have k2 := hinv.members_has ra hram a hamem
      have hk : r'.key3 = ra.key3 := by
        rw [k1, k2]
        simp [Atom.key3, VSite.toAtom, hvc, hvr, hvn]
      have := member_of_key3 hinv hr' hram hk
      subst this
      refine ⟨v.toAtom, hvr', ?_⟩
      have h1 := hold _ hvr'
      have h2 : v.toAtom.chain = ch := by
        have := congrArg Prod.fst k1
        simp only [Residue.key3, Atom.key3] at this
        rw [← this, hc]
      have h3 : startsWith v.toAtom.atype pre = true := by
        show startsWith v.atype pre = true
        rw [hvt]; exact startsWith_goType pre _
      simp [h1, h2, h3]
    · obtain ⟨w, hw, rfl⟩ := List.mem_map.mp h1
      refine ⟨w.toAtom, hamem, ?_⟩
      have h1' := hold _ hamem
      have k2 := hinv.members_has ra hram _ hamem
      have h2 : w.toAtom.chain = ch := by
        have := congrArg Prod.fst k2
        simp only [Residue.key3, Atom.key3] at this
        rw [← this, hc]
      have h3 : startsWith w.toAtom.atype pre = true := by
        obtain ⟨b, _, _, _, _, _, _, _, _, _, _, _, _, hat⟩ :
            ∃ b ∈ atoms, b.atomname = bb ∧ w.bb = b.key ∧ w.resid = b.resid ∧ w.oldResid = b.oldResid
              ∧ w.resname = b.resname ∧ w.chain = b.chain ∧ w.pos = b.pos ∧ w.ss = b.ss
              ∧ w.mass = 0 ∧ w.charge = 0 ∧ w.atomname = vsn ∧ w.atype = goType pre b.resid := by
          unfold addVirtualSites at hw
          rw [vsLoop_eq_sites] at hw
          obtain ⟨i, b, hi, rfl⟩ := mem_sites _ _ _ _ _ _ hw
          have hm : b ∈ atoms.filter (fun a => a.atomname = bb) := List.mem_of_getElem? hi
          rw [List.mem_filter] at hm
          exact ⟨b, hm.1, by simpa using hm.2, rfl, rfl, rfl, rfl, rfl, rfl, rfl, rfl, rfl, rfl, rfl⟩
        show startsWith w.atype pre = true
        rw [hat]; exact startsWith_goType pre _
      simp [h1', h2, h3]
  obtain ⟨w, hwm, hwp⟩ := hw
  unfold firstType
  cases hfind : ra.members.find? (fun a => a.oldResid == x && a.chain == ch && startsWith a.atype pre) with
  | none =>
    have := List.find?_eq_none.mp hfind w hwm
    exact absurd hwp this
  | some t => exact ⟨t.atype, rfl⟩

theorem classify_keyerror {P : Params} {rs : List Residue} {E : List (Nat × Nat)} {c : Contact}
    (h : classify P rs E c = .keyerror) :
    ∃ (ia ib : Nat) (ra rb : Residue) (a b : Atom),
      findRes rs c.chainA c.residA = some ia ∧ findRes rs c.chainB c.residB = some ib ∧
      rs[ia]? = some ra ∧ rs[ib]? = some rb ∧
      firstBB ra P.backbone = some a ∧ firstBB rb P.backbone = some b ∧
      (firstType ra P.pre c.chainA c.residA = none ∨ firstType rb P.pre c.chainB c.residB = none) := by
  unfold classify at h
  split at h
  · rename_i ia ib hia hib
    split at h
    · cases h
    · split at h
      · rename_i ra rb hra hrb
        split at h
        · rename_i a b ha hb
          simp only [] at h
          split at h
          · split at h
            · cases h
            · rename_i hno
              refine ⟨ia, ib, ra, rb, a, b, hia, hib, hra, hrb, ha, hb, ?_⟩
              cases h1 : firstType ra P.pre c.chainA c.residA with
              | none => exact Or.inl rfl
              | some ta =>
                cases h2 : firstType rb P.pre c.chainB c.residB with
                | none => exact Or.inr rfl
                | some tb => exact absurd h2 (fun h2 => hno ta tb h1 h2)
          · cases h
        · cases h
      · cases h
  · cases h

theorem runLoop_keyerror (vs : List Verdict) (s : LoopState) (h : runLoop vs s = .keyerror) :
    Verdict.keyerror ∈ vs := by
  induction vs generalizing s with
  | nil => simp [runLoop] at h
  | cons v r ih =>
    cases v with
    | skip => exact List.mem_cons_of_mem _ (ih s (by simpa [runLoop] using h))
    | exit => simp [runLoop] at h
    | keyerror => simp
    | cand c => exact List.mem_cons_of_mem _ (ih (step s c) (by simpa [runLoop] using h))

theorem runLoop_exit (vs : List Verdict) (s : LoopState) (h : runLoop vs s = .exit) :
    Verdict.exit ∈ vs := by
  induction vs generalizing s with
  | nil => simp [runLoop] at h
  | cons v r ih =>
    cases v with
    | skip => exact List.mem_cons_of_mem _ (ih s (by simpa [runLoop] using h))
    | exit => simp
    | keyerror => simp [runLoop] at h
    | cand c => exact List.mem_cons_of_mem _ (ih (step s c) (by simpa [runLoop] using h))

theorem classify_exit {P : Params} {rs : List Residue} {E : List (Nat × Nat)} {c : Contact}
    (h : classify P rs E c = .exit) :
    ∃ (ia ib : Nat) (ra rb : Residue),
      findRes rs c.chainA c.residA = some ia ∧ findRes rs c.chainB c.residB = some ib ∧
      rs[ia]? = some ra ∧ rs[ib]? = some rb ∧
      (firstBB ra P.backbone = none ∨ firstBB rb P.backbone = none) := by
  unfold classify at h
  split at h
  · rename_i ia ib hia hib
    split at h
    · cases h
    · split at h
      · rename_i ra rb hra hrb
        split at h
        · simp only [] at h
          split at h
          · split at h
            · cases h
            · cases h
          · cases h
        · rename_i hno
          refine ⟨ia, ib, ra, rb, hia, hib, hra, hrb, ?_⟩
          cases h1 : firstBB ra P.backbone with
          | none => exact Or.inl rfl
          | some a =>
            cases h2 : firstBB rb P.backbone with
            | none => exact Or.inr rfl
            | some b => exact absurd h2 (fun h2 => hno a b h1 h2)
      · cases h
  · cases h

end C18
