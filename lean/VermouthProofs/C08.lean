import VermouthModel.C08
/-! Helper lemmas for C08. Core Lean only. -/
namespace C08

def cnt (e : Entry) : Int := (e.count : Int)

def sumCounts (l : List Entry) : Int := (l.map cnt).sum

/-- Is the entry's type given a numeric limit / waived by name / neither. -/
def isNumeric (limits : List (Option String × Int)) (e : Entry) : Bool :=
  (getLimit limits (some e.type)).isSome
def isNamed (limits : List (Option String × Int)) (named : List (Option String)) (e : Entry) : Bool :=
  !(isNumeric limits e) && named.contains (some e.type)
def isUnspec (limits : List (Option String × Int)) (named : List (Option String)) (e : Entry) : Bool :=
  !(isNumeric limits e) && !(named.contains (some e.type))

/-- what the loop deducts for an entry with a numeric limit -/
def numericDeduct (limits : List (Option String × Int)) (e : Entry) : Int :=
  match getLimit limits (some e.type) with
  | some l => max 0 (min (cnt e) l)
  | none => 0

def namedDeduct (limits : List (Option String × Int)) (named : List (Option String)) (e : Entry) : Int :=
  if isNamed limits named e then cnt e else 0

def unspecCount (limits : List (Option String × Int)) (named : List (Option String)) (e : Entry) : Int :=
  if isUnspec limits named e then cnt e else 0

theorem cnt_nonneg (e : Entry) : 0 ≤ cnt e := by unfold cnt; omega

theorem sum_map_nonneg {α} (f : α → Int) (l : List α) (h : ∀ a, 0 ≤ f a) : 0 ≤ (l.map f).sum := by
  induction l with
  | nil => simp
  | cons a t ih => simp only [List.map_cons, List.sum_cons]; have := h a; omega

theorem unspecCount_nonneg (limits named) (e : Entry) : 0 ≤ unspecCount limits named e := by
  unfold unspecCount; split
  · exact cnt_nonneg e
  · omega

theorem deductStep_numeric (limits named) (T B : Int) (e : Entry) (lim : Int)
    (h : getLimit limits (some e.type) = some lim) :
    deductStep limits named (T, B) e = (T - max 0 (min (e.count : Int) lim), B) := by
  unfold deductStep; rw [h]

theorem deductStep_named (limits) (named : List (Option String)) (T B : Int) (e : Entry)
    (h : getLimit limits (some e.type) = none) (hn : named.contains (some e.type) = true) :
    deductStep limits named (T, B) e = (T - (e.count : Int), B) := by
  unfold deductStep; rw [h]; simp only []; rw [if_pos hn]

theorem deductStep_unspec (limits) (named : List (Option String)) (T B : Int) (e : Entry)
    (h : getLimit limits (some e.type) = none) (hn : ¬ named.contains (some e.type) = true) :
    deductStep limits named (T, B) e = (T - min (e.count : Int) B, max 0 (B - (e.count : Int))) := by
  unfold deductStep; rw [h]; simp only []; rw [if_neg hn]

/-- The deduction loop in closed form. -/
theorem fold_deduct (limits : List (Option String × Int)) (named : List (Option String))
    (l : List Entry) (T B : Int) (hB : 0 ≤ B) :
    l.foldl (deductStep limits named) (T, B) =
      (T - (l.map (numericDeduct limits)).sum - (l.map (namedDeduct limits named)).sum
          - min ((l.map (unspecCount limits named)).sum) B,
       max 0 (B - (l.map (unspecCount limits named)).sum)) := by
  induction l generalizing T B with
  | nil =>
    simp only [List.foldl_nil, List.map_nil, List.sum_nil]
    congr 1 <;> omega
  | cons e t ih =>
    have hU := sum_map_nonneg (unspecCount limits named) t (unspecCount_nonneg limits named)
    have hc := cnt_nonneg e
    simp only [List.foldl_cons, List.map_cons, List.sum_cons]
    cases hlim : getLimit limits (some e.type) with
    | some lim =>
      rw [deductStep_numeric _ _ _ _ _ _ hlim, ih _ _ hB]
      have h1 : numericDeduct limits e = max 0 (min (cnt e) lim) := by
        unfold numericDeduct; rw [hlim]
      have h2 : namedDeduct limits named e = 0 := by
        unfold namedDeduct isNamed isNumeric; rw [hlim]; simp
      have h3 : unspecCount limits named e = 0 := by
        unfold unspecCount isUnspec isNumeric; rw [hlim]; simp
      rw [h1, h2, h3]
      unfold cnt
      congr 1 <;> omega
    | none =>
      by_cases hn : named.contains (some e.type) = true
      · rw [deductStep_named _ _ _ _ _ hlim hn, ih _ _ hB]
        have hn' : some e.type ∈ named := by simpa using hn
        have h1 : numericDeduct limits e = 0 := by
          unfold numericDeduct; rw [hlim]
        have h2 : namedDeduct limits named e = cnt e := by
          unfold namedDeduct isNamed isNumeric; rw [hlim]; simp [hn']
        have h3 : unspecCount limits named e = 0 := by
          unfold unspecCount isUnspec isNumeric; rw [hlim]; simp [hn']
        rw [h1, h2, h3]
        unfold cnt
        congr 1 <;> omega
      · have hB' : (0:Int) ≤ max 0 (B - (e.count : Int)) := by omega
        rw [deductStep_unspec _ _ _ _ _ hlim hn, ih _ _ hB']
        have hn' : ¬ some e.type ∈ named := by simpa using hn
        have h1 : numericDeduct limits e = 0 := by
          unfold numericDeduct; rw [hlim]
        have h2 : namedDeduct limits named e = 0 := by
          unfold namedDeduct isNamed isNumeric; rw [hlim]; simp [hn']
        have h3 : unspecCount limits named e = cnt e := by
          unfold unspecCount isUnspec isNumeric; rw [hlim]; simp [hn']
        rw [h1, h2, h3]
        unfold cnt at *
        congr 1 <;> omega

end C08

namespace C08

/-! ### The limit table in closed form -/

theorem getLimit_updLimit (specs : List (Option String × Int)) (t t' : Option String) (c : Int) :
    getLimit (updLimit specs t c) t' =
      if t' = t then some (max ((getLimit specs t).getD 0) c) else getLimit specs t' := by
  induction specs with
  | nil =>
    simp only [updLimit, getLimit]
    by_cases h : t' = t
    · subst h; simp
    · simp [h, Ne.symm h]
  | cons hd tl ih =>
    obtain ⟨k, v⟩ := hd
    simp only [updLimit]
    by_cases hk : k = t
    · subst hk
      simp only [if_true, getLimit]
      by_cases h : t' = k
      · subst h; simp
      · simp [h, Ne.symm h]
    · simp only [if_neg hk, getLimit]
      by_cases hk' : k = t'
      · subst hk'
        have : ¬ k = t := hk
        simp [this]
      · simp only [if_neg hk', ih]

/-- numeric counts given for type `t`, in order -/
def numericCounts (l : List Spec) (t : Option String) : List Int :=
  l.filterMap (fun sp => if sp.1 = t then sp.2 else none)

def stepOpt (o : Option Int) (c : Int) : Option Int := some (max (o.getD 0) c)

def foldTables (acc : List (Option String × Int) × List (Option String)) (l : List Spec) :=
  l.foldl
    (fun (acc : List (Option String × Int) × List (Option String)) (sp : Spec) =>
      match sp.2 with
      | none => (acc.1, sp.1 :: acc.2)
      | some c => (updLimit acc.1 sp.1 c, acc.2)) acc

theorem buildTables_eq (s : List (List Spec)) : buildTables s = foldTables ([], []) s.flatten := rfl

theorem getLimit_foldTables (acc) (l : List Spec) (t : Option String) :
    getLimit (foldTables acc l).1 t = (numericCounts l t).foldl stepOpt (getLimit acc.1 t) := by
  induction l generalizing acc with
  | nil => rfl
  | cons sp tl ih =>
    obtain ⟨ty, c⟩ := sp
    unfold foldTables at *
    simp only [List.foldl_cons]
    rw [ih]
    cases c with
    | none =>
      simp only [numericCounts, List.filterMap_cons]
      by_cases h : ty = t
      · simp [h]
      · simp [h]
    | some c =>
      simp only [numericCounts, List.filterMap_cons, getLimit_updLimit]
      by_cases h : ty = t
      · subst h; simp [stepOpt]
      · have h' : ¬ t = ty := fun e => h e.symm
        simp [h, h']

theorem foldl_stepOpt_some (cs : List Int) (v : Int) :
    cs.foldl stepOpt (some v) = some (cs.foldl max v) := by
  induction cs generalizing v with
  | nil => rfl
  | cons c tl ih => simp only [List.foldl_cons, stepOpt, Option.getD_some, ih]

theorem foldl_stepOpt_none (cs : List Int) :
    cs.foldl stepOpt none = if cs = [] then none else some (cs.foldl max 0) := by
  cases cs with
  | nil => rfl
  | cons c tl =>
    simp only [List.foldl_cons, stepOpt, Option.getD_none, foldl_stepOpt_some]
    simp

theorem foldl_max_ge (cs : List Int) (v : Int) : v ≤ cs.foldl max v := by
  induction cs generalizing v with
  | nil => simp
  | cons c tl ih => simp only [List.foldl_cons]; have := ih (max v c); omega

theorem mem_named_foldTables (acc) (l : List Spec) (t : Option String) :
    t ∈ (foldTables acc l).2 ↔ t ∈ acc.2 ∨ (t, none) ∈ l := by
  induction l generalizing acc with
  | nil => simp [foldTables]
  | cons sp tl ih =>
    obtain ⟨ty, c⟩ := sp
    unfold foldTables at *
    simp only [List.foldl_cons]
    rw [ih]
    cases c with
    | none =>
      simp only [List.mem_cons, Prod.mk.injEq, and_true]
      constructor
      · rintro ((h | h) | h)
        · exact Or.inr (Or.inl h)
        · exact Or.inl h
        · exact Or.inr (Or.inr h)
      · rintro (h | h | h)
        · exact Or.inl (Or.inr h)
        · exact Or.inl (Or.inl h)
        · exact Or.inr h
    | some c =>
      simp only [List.mem_cons, Prod.mk.injEq]
      constructor
      · rintro (h | h)
        · exact Or.inl h
        · exact Or.inr (Or.inr h)
      · rintro (h | h | h)
        · exact Or.inl h
        · exact absurd h.2 (by simp)
        · exact Or.inr h

/-! ### sums -/

theorem sum_perm {l l' : List Int} (h : l.Perm l') : l.sum = l'.sum := by
  induction h with
  | nil => rfl
  | cons x _ ih => simp [ih]
  | swap x y l => simp only [List.sum_cons]; omega
  | trans _ _ ih1 ih2 => exact ih1.trans ih2

theorem sum_filter_split (l : List Entry) (level : Nat) :
    sumCounts (l.filter (fun e => level ≤ e.level)) =
      sumCounts (l.filter (fun e => level < e.level)) + sumCounts (l.filter (fun e => e.level = level)) := by
  induction l with
  | nil => rfl
  | cons e t ih =>
    unfold sumCounts at *
    by_cases h1 : level < e.level
    · have h2 : level ≤ e.level := Nat.le_of_lt h1
      have h3 : ¬ e.level = level := by omega
      simp [List.filter_cons, h1, h2, h3]
      omega
    · by_cases h3 : e.level = level
      · have h2 : level ≤ e.level := by omega
        simp [List.filter_cons, h1, h2, h3]
        omega
      · have h2 : ¬ level ≤ e.level := by omega
        simp [List.filter_cons, h1, h2, h3]
        omega

end C08

namespace C08

/-! ### `maxwarn` parser lemmas -/

theorem splitColon_ne_nil (cs : List Char) : splitColon cs ≠ [] := by
  cases cs with
  | nil => simp [splitColon]
  | cons c t =>
    unfold splitColon
    by_cases h : c = ':'
    · simp [h]
    · simp only [h, if_false]
      split <;> simp

theorem splitColon_no_colon (cs : List Char) (h : ':' ∉ cs) : splitColon cs = [cs] := by
  induction cs with
  | nil => rfl
  | cons c t ih =>
    have hc1 : c ≠ ':' := fun e => h (by simp [e])
    have hc2 : ':' ∉ t := fun e => h (by simp [e])
    unfold splitColon
    simp only [hc1, if_false, ih hc2]

theorem splitColon_append (a b : List Char) (h : ':' ∉ a) :
    splitColon (a ++ ':' :: b) = a :: splitColon b := by
  induction a with
  | nil => simp [splitColon]
  | cons c t ih =>
    have hc1 : c ≠ ':' := fun e => h (by simp [e])
    have hc2 : ':' ∉ t := fun e => h (by simp [e])
    simp [splitColon, hc1, ih hc2]

def allDigits (cs : List Char) : Bool := cs.all isDigitChar

theorem digit_not_underscore (c : Char) (h : isDigitChar c = true) : c ≠ '_' := by
  intro e; subst e; revert h; decide

theorem validDigits_of_allDigits (cs : List Char) (hne : cs ≠ []) (h : allDigits cs = true) :
    validDigits cs = true := by
  induction cs with
  | nil => exact absurd rfl hne
  | cons c t ih =>
    simp only [allDigits, List.all_cons, Bool.and_eq_true] at h
    cases t with
    | nil => simp [validDigits, h.1]
    | cons d r =>
      have hd : isDigitChar d = true := by
        have := h.2; simp only [List.all_cons, Bool.and_eq_true] at this; exact this.1
      have hnu : d ≠ '_' := digit_not_underscore d hd
      have ht : validDigits (d :: r) = true := ih (by simp) (by simpa [allDigits] using h.2)
      unfold validDigits
      split
      · simp_all
      · simp_all
      · simp_all
      · simp_all

theorem dropWhile_not_head {α} (p : α → Bool) (c : α) (t : List α) (h : p c = false) :
    (c :: t).dropWhile p = c :: t := by simp [List.dropWhile, h]

theorem digit_not_ws (c : Char) (h : isDigitChar c = true) : isWsChar c = false := by
  cases hw : isWsChar c with
  | false => rfl
  | true =>
    simp only [isWsChar, Bool.or_eq_true, decide_eq_true_eq] at hw
    rcases hw with ((((( e | e) | e) | e) | e) | e) <;> (subst e; revert h; decide)

theorem stripWs_allDigits (cs : List Char) (h : allDigits cs = true) : stripWs cs = cs := by
  unfold stripWs
  cases cs with
  | nil => rfl
  | cons c t =>
    have hc : isDigitChar c = true := by
      simp only [allDigits, List.all_cons, Bool.and_eq_true] at h; exact h.1
    rw [dropWhile_not_head _ c t (digit_not_ws c hc)]
    have hall : ∀ x ∈ (c :: t).reverse, isDigitChar x = true := by
      intro x hx
      have hx' : x ∈ c :: t := List.mem_reverse.mp hx
      simp only [allDigits, List.all_eq_true] at h
      exact h x hx'
    cases hr : (c :: t).reverse with
    | nil => simp at hr
    | cons d r =>
      have hd : isDigitChar d = true := hall d (by rw [hr]; simp)
      rw [dropWhile_not_head _ d r (digit_not_ws d hd)]
      rw [← hr]; simp

/-- Python's `int` on a non-empty string of ASCII digits. -/
theorem pyInt_digits (cs : List Char) (hne : cs ≠ []) (h : allDigits cs = true) :
    pyInt cs = some (digitsVal cs : Int) := by
  unfold pyInt
  rw [stripWs_allDigits cs h]
  have hv := validDigits_of_allDigits cs hne h
  cases cs with
  | nil => exact absurd rfl hne
  | cons c r =>
    have hc : isDigitChar c = true := by
      simp only [allDigits, List.all_cons, Bool.and_eq_true] at h; exact h.1
    have h1 : c ≠ '-' := by intro e; subst e; revert hc; decide
    have h2 : c ≠ '+' := by intro e; subst e; revert hc; decide
    split
    · rename_i heq; injection heq with e _; exact absurd e h1
    · rename_i heq; injection heq with e _; exact absurd e h2
    · simp [hv]

end C08
