import VermouthModel.C04_Ref
import VermouthProofs.C04
/-!
# C04 — lemmas about the model of `make_reference` (core Lean only)

1. `enumerate(sorted(...))`: the relabelling dictionaries are bijections (`labels_*`, `Bij`);
2. graph isomorphisms given by a function on the keys (`GIso`), relabelled graphs are isomorphic
   (`relabel_giso`), induced matches are transported along isomorphisms (`indIso_transport`);
3. the order-free specification of a matcher answer (`IsMCIS`) and its transport (`isMCIS_transport`);
4. `unsort` as a map (`unsort_eq_map`).
-/
namespace C04.Ref
open Iso C04

/-! ## 1. the relabelling dictionaries -/

/-- `{old: new for new, old in enumerate(keys, start=n)}` -/
def enumFrom : Nat → List Int → Map
  | _, [] => []
  | n, k :: ks => (k, (n : Int)) :: enumFrom (n + 1) ks

theorem zipIdx_labels (S : List RAtom) (n : Nat) :
    (S.zipIdx n).map (fun p => (p.1.key, (p.2 : Int))) = enumFrom n (S.map (·.key)) := by
  induction S generalizing n with
  | nil => rfl
  | cons a S ih => simp only [List.zipIdx_cons, List.map_cons, enumFrom]; rw [ih]

theorem newLabels_eq (atoms : List RAtom) (other : List String) :
    newLabels atoms other = enumFrom 0 ((sortAtoms atoms other).map (·.key)) := zipIdx_labels _ 0

theorem enumFrom_dom (n : Nat) (ks : List Int) : dom (enumFrom n ks) = ks := by
  induction ks generalizing n with
  | nil => rfl
  | cons k ks ih => simp only [enumFrom, dom, List.map_cons]; exact congrArg _ (ih (n + 1))

theorem enumFrom_ran (n : Nat) (ks : List Int) : ran (enumFrom n ks) = (List.range' n ks.length).map Int.ofNat := by
  induction ks generalizing n with
  | nil => rfl
  | cons k ks ih =>
    simp only [enumFrom, ran, List.map_cons, List.length_cons, List.range'_succ]
    exact congrArg _ (ih (n + 1))

theorem insertBy_perm {α} (le : α → α → Bool) (x : α) (l : List α) : (insertBy le x l).Perm (x :: l) := by
  induction l with
  | nil => exact List.Perm.refl _
  | cons y ys ih =>
    unfold insertBy
    split
    · exact List.Perm.refl _
    · exact ((List.Perm.cons y ih).trans (List.Perm.swap x y ys))

theorem stableSort_perm {α} (le : α → α → Bool) (l : List α) : (stableSort le l).Perm l := by
  induction l with
  | nil => exact List.Perm.refl _
  | cons x xs ih => exact (insertBy_perm le x _).trans (List.Perm.cons x ih)

theorem sortAtoms_perm (atoms : List RAtom) (other : List String) : (sortAtoms atoms other).Perm atoms :=
  stableSort_perm _ _

theorem newLabels_dom_perm (atoms : List RAtom) (other : List String) :
    (dom (newLabels atoms other)).Perm (atoms.map (·.key)) := by
  rw [newLabels_eq, enumFrom_dom]; exact (sortAtoms_perm atoms other).map _

theorem newLabels_ran (atoms : List RAtom) (other : List String) :
    ran (newLabels atoms other) = (List.range atoms.length).map Int.ofNat := by
  rw [newLabels_eq, enumFrom_ran, List.length_map, (sortAtoms_perm atoms other).length_eq, List.range_eq_range']

theorem nodup_map_on' {α β} {φ : α → β} {l : List α} (hl : l.Nodup) (h : ∀ u ∈ l, ∀ v ∈ l, φ u = φ v → u = v) :
    (l.map φ).Nodup := by
  induction l with
  | nil => simp
  | cons a l ih =>
    have hn : a ∉ l ∧ l.Nodup := List.nodup_cons.1 hl
    simp only [List.map_cons]
    refine List.nodup_cons.2 ⟨?_, ih hn.2 (fun u hu v hv => h u (List.mem_cons_of_mem _ hu) v (List.mem_cons_of_mem _ hv))⟩
    intro hc
    obtain ⟨b, hb, e⟩ := List.mem_map.1 hc
    have := h b (List.mem_cons_of_mem _ hb) a (by simp) e
    exact hn.1 (this ▸ hb)

theorem range_ofNat_nodup (n : Nat) : ((List.range n).map Int.ofNat).Nodup :=
  nodup_map_on' List.nodup_range (fun _ _ _ _ e => Int.ofNat.inj e)

/-- a dictionary that is a bijection between its keys and its values -/
def Bij (mp : Map) : Prop := (dom mp).Nodup ∧ (ran mp).Nodup

theorem newLabels_bij (atoms : List RAtom) (other : List String) (hk : (atoms.map (·.key)).Nodup) :
    Bij (newLabels atoms other) :=
  ⟨(newLabels_dom_perm atoms other).nodup_iff.2 hk, by rw [newLabels_ran]; exact range_ofNat_nodup _⟩

theorem invert_dom (mp : Map) : dom (invert mp) = ran mp := by simp [invert, dom, ran, List.map_map, Function.comp_def]
theorem invert_ran (mp : Map) : ran (invert mp) = dom mp := by simp [invert, dom, ran, List.map_map, Function.comp_def]

theorem mem_invert {mp : Map} {u t : Int} : (t, u) ∈ invert mp ↔ (u, t) ∈ mp := by
  simp only [invert, List.mem_map, Prod.mk.injEq]
  constructor
  · rintro ⟨⟨a, b⟩, h, e1, e2⟩; simp only at e1 e2; subst e1; subst e2; exact h
  · intro h; exact ⟨(u, t), h, rfl, rfl⟩

theorem invert_bij {mp : Map} (h : Bij mp) : Bij (invert mp) := by
  unfold Bij; rw [invert_dom, invert_ran]; exact ⟨h.2, h.1⟩

theorem mem_toFun_of_dom {mp : Map} {u : Int} (hu : u ∈ dom mp) : (u, Map.toFun mp u) ∈ mp := by
  have := (lookup_isSome_iff mp u).2 hu
  cases hl : mp.lookup u with
  | none => rw [hl] at this; cases this
  | some t =>
    have hm := mem_of_lookup hl
    simp only [Map.toFun, hl, Option.getD_some]; exact hm

theorem toFun_mem_ran {mp : Map} {u : Int} (hu : u ∈ dom mp) : Map.toFun mp u ∈ ran mp :=
  mem_ran_of_mem (mem_toFun_of_dom hu)

/-- `old_names[new_names[k]] = k` -/
theorem invert_toFun {mp : Map} (h : Bij mp) {u : Int} (hu : u ∈ dom mp) :
    Map.toFun (invert mp) (Map.toFun mp u) = u := by
  have h1 := mem_toFun_of_dom hu
  have h2 : (Map.toFun mp u, u) ∈ invert mp := mem_invert.2 h1
  have hd : ((invert mp).map Prod.fst).Nodup := by
    have := (invert_bij h).1; unfold dom at this; exact this
  exact Iso.toFun_of_mem hd h2

theorem toFun_inj {mp : Map} (h : Bij mp) {u v : Int} (hu : u ∈ dom mp) (hv : v ∈ dom mp)
    (e : Map.toFun mp u = Map.toFun mp v) : u = v := by
  rw [← invert_toFun h hu, ← invert_toFun h hv, e]

/-! ## 2. graph isomorphisms -/

/-- `φ` is an isomorphism of coloured graphs from `g` onto `g'` -/
structure GIso (φ : Int → Int) (g g' : Graph) : Prop where
  keys : ∀ t, t ∈ g'.keys ↔ ∃ u ∈ g.keys, φ u = t
  inj : ∀ u ∈ g.keys, ∀ v ∈ g.keys, φ u = φ v → u = v
  ncol : ∀ u ∈ g.keys, g'.ncol (φ u) = g.ncol u
  ecol : ∀ u ∈ g.keys, ∀ v ∈ g.keys, g'.ecol (φ u) (φ v) = g.ecol u v

theorem GIso.refl (g : Graph) : GIso id g g :=
  ⟨fun t => ⟨fun h => ⟨t, h, rfl⟩, fun ⟨_, h, e⟩ => e ▸ h⟩, fun _ _ _ _ e => e, fun _ _ => rfl, fun _ _ _ _ => rfl⟩

theorem GIso.symm {φ φi : Int → Int} {g g' : Graph} (h : GIso φ g g') (hi : ∀ u ∈ g.keys, φi (φ u) = u) :
    GIso φi g' g := by
  refine ⟨?_, ?_, ?_, ?_⟩
  · intro t
    constructor
    · intro ht; exact ⟨φ t, (h.keys _).2 ⟨t, ht, rfl⟩, hi t ht⟩
    · rintro ⟨u', hu', e⟩
      obtain ⟨u, hu, rfl⟩ := (h.keys _).1 hu'
      rw [hi u hu] at e; exact e ▸ hu
  · intro u' hu' v' hv' e
    obtain ⟨u, hu, rfl⟩ := (h.keys _).1 hu'
    obtain ⟨v, hv, rfl⟩ := (h.keys _).1 hv'
    rw [hi u hu, hi v hv] at e; rw [e]
  · intro u' hu'
    obtain ⟨u, hu, rfl⟩ := (h.keys _).1 hu'
    rw [hi u hu, h.ncol u hu]
  · intro u' hu' v' hv'
    obtain ⟨u, hu, rfl⟩ := (h.keys _).1 hu'
    obtain ⟨v, hv, rfl⟩ := (h.keys _).1 hv'
    rw [hi u hu, hi v hv, h.ecol u hu v hv]

/-- a right inverse on the image follows from a left inverse -/
theorem GIso.right_inv {φ φi : Int → Int} {g g' : Graph} (h : GIso φ g g') (hi : ∀ u ∈ g.keys, φi (φ u) = u)
    {t : Int} (ht : t ∈ g'.keys) : φ (φi t) = t := by
  obtain ⟨u, hu, rfl⟩ := (h.keys _).1 ht
  rw [hi u hu]

theorem relabel_keys (mp : Map) (g : Graph) : (relabel mp g).keys = g.keys.map (Map.toFun mp) := by
  simp [relabel, Graph.keys, List.map_map, Function.comp_def]

theorem lookup_map_inj {φ : Int → Int} {K : List Int} (hinj : ∀ u ∈ K, ∀ v ∈ K, φ u = φ v → u = v)
    (l : List (Int × Int)) (hl : ∀ p ∈ l, p.1 ∈ K) {u : Int} (hu : u ∈ K) :
    (l.map fun p => (φ p.1, p.2)).lookup (φ u) = l.lookup u := by
  induction l with
  | nil => rfl
  | cons p l ih =>
    obtain ⟨a, b⟩ := p
    have hp : a ∈ K := hl (a, b) (by simp)
    simp only [List.map_cons, List.lookup_cons]
    by_cases e : u = a
    · subst e; simp
    · have e' : φ u ≠ φ a := fun h => e (hinj u hu a hp h)
      have b1 : (φ u == φ a) = false := by simpa using e'
      have b2 : (u == a) = false := by simpa using e
      rw [b1, b2]
      exact ih (fun q hq => hl q (List.mem_cons_of_mem _ hq))

theorem joins_map_inj {φ : Int → Int} {K : List Int} (hinj : ∀ u ∈ K, ∀ v ∈ K, φ u = φ v → u = v)
    {u v a b : Int} (hu : u ∈ K) (hv : v ∈ K) (ha : a ∈ K) (hb : b ∈ K) (c : Int) :
    joins (φ u) (φ v) (φ a, φ b, c) = joins u v (a, b, c) := by
  have key : ∀ x ∈ K, ∀ y ∈ K, (φ x == φ y) = (x == y) := by
    intro x hx y hy
    by_cases e : x = y
    · subst e; simp
    · have hne : φ x ≠ φ y := fun h => e (hinj x hx y hy h)
      have h1 : (φ x == φ y) = false := by simpa using hne
      have h2 : (x == y) = false := by simpa using e
      rw [h1, h2]
  simp only [joins]
  rw [key a ha u hu, key b hb v hv, key a ha v hv, key b hb u hu]

theorem find_map_inj {φ : Int → Int} {K : List Int} (hinj : ∀ u ∈ K, ∀ v ∈ K, φ u = φ v → u = v)
    (es : List (Int × Int × Int)) (hes : ∀ e ∈ es, e.1 ∈ K ∧ e.2.1 ∈ K) {u v : Int} (hu : u ∈ K) (hv : v ∈ K) :
    ((es.map fun e => (φ e.1, φ e.2.1, e.2.2)).find? (joins (φ u) (φ v))).map (fun e => e.2.2)
      = (es.find? (joins u v)).map (fun e => e.2.2) := by
  induction es with
  | nil => rfl
  | cons e es ih =>
    obtain ⟨a, b, c⟩ := e
    have hab := hes (a, b, c) (by simp)
    simp only [List.map_cons, List.find?_cons]
    rw [joins_map_inj hinj hu hv hab.1 hab.2 c]
    cases joins u v (a, b, c) with
    | true => rfl
    | false => exact ih (fun q hq => hes q (List.mem_cons_of_mem _ hq))

/-- every edge joins two nodes of the graph -/
def EdgesClosed (g : Graph) : Prop := ∀ e ∈ g.edges, e.1 ∈ g.keys ∧ e.2.1 ∈ g.keys
instance (g : Graph) : Decidable (EdgesClosed g) := by unfold EdgesClosed; infer_instance

/-- **`nx.relabel_nodes` with a bijective dictionary gives an isomorphic graph** -/
theorem relabel_giso {mp : Map} (hb : Bij mp) {g : Graph} (hk : ∀ u ∈ g.keys, u ∈ dom mp) (hc : EdgesClosed g) :
    GIso (Map.toFun mp) g (relabel mp g) := by
  have hinj : ∀ u ∈ g.keys, ∀ v ∈ g.keys, Map.toFun mp u = Map.toFun mp v → u = v :=
    fun u hu v hv e => toFun_inj hb (hk u hu) (hk v hv) e
  refine ⟨?_, hinj, ?_, ?_⟩
  · intro t; rw [relabel_keys]; simp [List.mem_map]
  · intro u hu
    show ((g.nodes.map fun p => (Map.toFun mp p.1, p.2)).lookup (Map.toFun mp u)) = g.nodes.lookup u
    exact lookup_map_inj hinj g.nodes (fun p hp => List.mem_map.2 ⟨p, hp, rfl⟩) hu
  · intro u hu v hv
    exact find_map_inj hinj g.edges hc hu hv

/-- induced matches are transported along isomorphisms of both graphs -/
theorem indIso_transport {g g' sg sg' : Graph} {φ ψ : Int → Int} (hφ : GIso φ g g') (hψ : GIso ψ sg sg')
    {S : List Int} (hS : ∀ u ∈ S, u ∈ sg.keys) {f f' : Int → Int}
    (hf : IsIndIsoOn g sg (colourPred g sg) S f) (hff : ∀ u ∈ S, f' (ψ u) = φ (f u)) :
    IsIndIsoOn g' sg' (colourPred g' sg') (S.map ψ) f' := by
  refine ⟨?_, ?_, ?_⟩
  · intro u' hu'
    obtain ⟨u, hu, rfl⟩ := List.mem_map.1 hu'
    obtain ⟨hk, hp⟩ := hf.node u hu
    rw [hff u hu]
    refine ⟨(hφ.keys _).2 ⟨f u, hk, rfl⟩, ?_⟩
    unfold colourPred at hp ⊢
    rw [hφ.ncol _ hk, hψ.ncol _ (hS u hu)]; exact hp
  · intro u' hu' v' hv' hne
    obtain ⟨u, hu, rfl⟩ := List.mem_map.1 hu'
    obtain ⟨v, hv, rfl⟩ := List.mem_map.1 hv'
    have huv : u ≠ v := fun e => hne (e ▸ rfl)
    rw [hff u hu, hff v hv]
    intro e
    exact hf.inj u hu v hv huv (hφ.inj _ (hf.node u hu).1 _ (hf.node v hv).1 e)
  · intro u' hu' v' hv' hne
    obtain ⟨u, hu, rfl⟩ := List.mem_map.1 hu'
    obtain ⟨v, hv, rfl⟩ := List.mem_map.1 hv'
    have huv : u ≠ v := fun e => hne (e ▸ rfl)
    rw [hff u hu, hff v hv, hφ.ecol _ (hf.node u hu).1 _ (hf.node v hv).1, hψ.ecol _ (hS u hu) _ (hS v hv)]
    exact hf.edge u hu v hv huv

/-! ## 3. the order-free specification of a matcher answer -/

/-- `M` (pattern node ↦ target node, in ANY order) is a maximum common induced subgraph of target `g`
and pattern `sg` on node colours: it is an induced, colour-preserving embedding of the pattern
restricted to `dom M`, and no such embedding of any set of pattern nodes is larger. -/
structure IsMCIS (g sg : Graph) (M : Map) : Prop where
  domNd : (dom M).Nodup
  domSub : ∀ r ∈ dom M, r ∈ sg.keys
  iso : IsIndIsoOn g sg (colourPred g sg) (dom M) (Map.toFun M)
  max : ∀ (S : List Int) (f : Int → Int), S.Nodup → (∀ r ∈ S, r ∈ sg.keys) →
          IsIndIsoOn g sg (colourPred g sg) S f → S.length ≤ M.length

/-- `M` with both sides renamed -/
def mapPairs (ψ φ : Int → Int) (M : Map) : Map := M.map fun p => (ψ p.1, φ p.2)

theorem mapPairs_dom (ψ φ : Int → Int) (M : Map) : dom (mapPairs ψ φ M) = (dom M).map ψ := by
  simp [mapPairs, dom, List.map_map, Function.comp_def]

theorem nodup_map_on {φ : Int → Int} {l : List Int} (hl : l.Nodup) (h : ∀ u ∈ l, ∀ v ∈ l, φ u = φ v → u = v) :
    (l.map φ).Nodup := nodup_map_on' hl h

theorem isMCIS_transport {g g' sg sg' : Graph} {φ φi ψ ψi : Int → Int} (hφ : GIso φ g g') (hψ : GIso ψ sg sg')
    (hφi : ∀ u ∈ g.keys, φi (φ u) = u) (hψi : ∀ u ∈ sg.keys, ψi (ψ u) = u) {M : Map} (h : IsMCIS g sg M) :
    IsMCIS g' sg' (mapPairs ψ φ M) := by
  have hd : dom (mapPairs ψ φ M) = (dom M).map ψ := mapPairs_dom ψ φ M
  have hnd : (dom (mapPairs ψ φ M)).Nodup := by
    rw [hd]; exact nodup_map_on h.domNd (fun u hu v hv e => hψ.inj u (h.domSub u hu) v (h.domSub v hv) e)
  refine ⟨hnd, ?_, ?_, ?_⟩
  · intro r hr
    rw [hd] at hr
    obtain ⟨u, hu, rfl⟩ := List.mem_map.1 hr
    exact (hψ.keys _).2 ⟨u, h.domSub u hu, rfl⟩
  · rw [hd]
    apply indIso_transport hφ hψ h.domSub h.iso
    intro u hu
    have hm : (u, Map.toFun M u) ∈ M := mem_toFun_of_dom hu
    have hm' : (ψ u, φ (Map.toFun M u)) ∈ mapPairs ψ φ M := List.mem_map.2 ⟨_, hm, rfl⟩
    have hnd' : ((mapPairs ψ φ M).map Prod.fst).Nodup := by unfold dom at hnd; exact hnd
    exact Iso.toFun_of_mem hnd' hm'
  · intro S' f' hS'n hS's hf'
    have hψ' := hψ.symm hψi
    have hφ' := hφ.symm hφi
    have hback := indIso_transport (f' := fun u => φi (f' (ψ u))) hφ' hψ' hS's hf' (by
      intro u' hu'
      show φi (f' (ψ (ψi u'))) = φi (f' u')
      rw [hψ.right_inv hψi (hS's u' hu')])
    have hn : (S'.map ψi).Nodup :=
      nodup_map_on hS'n (fun u hu v hv e => hψ'.inj u (hS's u hu) v (hS's v hv) e)
    have hsub : ∀ r ∈ S'.map ψi, r ∈ sg.keys := by
      intro r hr
      obtain ⟨u', hu', rfl⟩ := List.mem_map.1 hr
      exact (hψ'.keys _).2 ⟨u', hS's u' hu', rfl⟩
    have := h.max _ _ hn hsub hback
    simpa [mapPairs] using this

/-! ## 4. `unsort` -/

theorem unsort_eq_map {oldRef oldRes : Map} {A M : Map} (h : unsort oldRef oldRes A = some M) :
    M = mapPairs (Map.toFun oldRef) (Map.toFun oldRes) A := by
  induction A generalizing M with
  | nil => simp only [unsort, Option.some.injEq] at h; subst h; rfl
  | cons p A ih =>
    unfold unsort at h
    cases h1 : oldRef.lookup p.1 with
    | none => simp [h1] at h
    | some r =>
      cases h2 : oldRes.lookup p.2 with
      | none => simp [h1, h2] at h
      | some s =>
        cases h3 : unsort oldRef oldRes A with
        | none => simp [h1, h2, h3] at h
        | some rest =>
          simp only [h1, h2, h3, Option.some.injEq] at h
          subst h
          simp only [mapPairs, List.map_cons, Map.toFun, h1, h2, Option.getD_some]
          rw [ih h3]; rfl

end C04.Ref
