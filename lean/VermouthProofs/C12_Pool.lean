import VermouthProofs.C12_Block
/-! Helper lemmas for C12, part 4: the pool state machine (invariant of a step, frame, errors). -/
namespace C12

theorem poolInv_set {p : Pool} (h : PoolInv p) (i : Nat) (m : Mol) (hm : m.Inv) : PoolInv (setAt p i m) := by
  intro x hx
  rcases List.mem_or_eq_of_mem_set hx with hx | rfl
  · exact h x hx
  · exact hm

theorem poolInv_append {p : Pool} (h : PoolInv p) (m : Mol) (hm : m.Inv) : PoolInv (p ++ [m]) := by
  intro x hx
  rcases List.mem_append.mp hx with hx | hx
  · exact h x hx
  · rw [List.mem_singleton.mp hx]; exact hm

theorem poolInv_get {p : Pool} (h : PoolInv p) (i : Nat) (m : Mol) (hm : p[i]? = some m) : m.Inv :=
  h m (List.mem_of_getElem? hm)

theorem onMol_inv {p : Pool} (h : PoolInv p) (i : Nat) (f : Mol → Mol × Outcome)
    (hf : ∀ m, m.Inv → (f m).1.Inv) : PoolInv (onMol p i f).1 := by
  unfold onMol
  cases hm : p[i]? with
  | none => exact h
  | some m => exact poolInv_set h i _ (hf m (poolInv_get h i m hm))

/-- `Molecule.clear()` on a molecule that has an interaction with an atom is the one operation
that leaves the reachable states of the invariant (finding F-C12-4); every other operation, and a
`clear` of a molecule whose interactions have no atom, is safe -/
def Op.safe (p : Pool) : Op → Bool
  | .clear i => (p[i]?).all (fun m => decide (∀ ti ∈ m.inters, ti.2.atoms = []))
  | _ => true

theorem fromBlockStep_inv {p : Pool} (h : PoolInv p) (b : Block) (ao ro co : Int) :
    PoolInv (fromBlockStep p b ao ro co).1 := by
  unfold fromBlockStep
  cases hm : b.toMolecule ao ro co with
  | none => exact h
  | some m => exact poolInv_append h _ (toMolecule_inv' b ao ro co m hm)

theorem step_inv {p : Pool} (h : PoolInv p) (op : Op) (hs : op.safe p = true) : PoolInv (step p op).1 := by
  cases op with
  | addNode i k a => exact onMol_inv h i _ (fun m hm => addNode_inv hm k a)
  | addNodes i l => exact onMol_inv h i _ (fun m hm => addNodes_inv hm l)
  | addNodesC i l c => exact onMol_inv h i _ (fun m hm => addNodes_inv hm _)
  | removeNode i k =>
    apply onMol_inv h i
    intro m hm
    split
    · exact dropNodes_inv hm _
    · exact hm
  | removeNodes i ks => exact onMol_inv h i _ (fun m hm => dropNodes_inv hm ks)
  | addEdge i u v => exact onMol_inv h i _ (fun m hm => addEdge_inv hm u v)
  | addEdgeA i u v a => exact onMol_inv h i _ (fun m hm => addEdgeA_inv hm u v a)
  | addEdgesA i l => exact onMol_inv h i _ (fun m hm => addEdgesA_inv hm l)
  | removeEdge i u v =>
    apply onMol_inv h i
    intro m hm
    split
    · exact dropEdges_inv hm _
    · exact hm
  | removeEdges i l => exact onMol_inv h i _ (fun m hm => dropEdges_inv hm l)
  | makeEdgesType i ty => exact onMol_inv h i _ (fun m hm => makeEdgesType_inv hm ty)
  | makeEdgesAll i => exact onMol_inv h i _ (fun m hm => makeEdgesAll_inv hm)
  | clear i =>
    simp only [step, onMol]
    cases hm : p[i]? with
    | none => exact h
    | some m =>
      simp only [Op.safe, hm, Option.all_some, decide_eq_true_eq] at hs
      exact poolInv_set h i _ ((clear_inv_iff m).mpr hs)
  | addInter i ty atoms params version edge =>
    exact onMol_inv h i _ (fun m hm => addInter_inv hm ty atoms params version edge)
  | addOrReplace i ty atoms params version cites edge =>
    exact onMol_inv h i _ (fun m hm => addOrReplace_inv hm ty atoms params version cites edge)
  | removeInter i ty atoms version =>
    exact onMol_inv h i _ (fun m hm => removeInter_inv hm ty atoms version)
  | removeMatching i ty t => exact onMol_inv h i _ (fun m hm => removeMatching_inv hm ty t)
  | pruneEdges i a b => exact onMol_inv h i _ (fun m hm => pruneEdges_inv hm a b)
  | pruneByName i na nb => exact onMol_inv h i _ (fun m hm => pruneByName_inv hm na nb)
  | addLog i lvl entry args => exact onMol_inv h i _ (fun m hm => addLog_inv hm lvl entry args)
  | copy i =>
    simp only [step]
    cases hm : p[i]? with
    | none => exact h
    | some m => exact poolInv_append h _ (copy_inv (poolInv_get h i m hm))
  | subgraph i ks =>
    simp only [step]
    cases hm : p[i]? with
    | none => exact h
    | some m =>
      dsimp only
      cases hs : m.subgraph ks with
      | none => exact h
      | some s => exact poolInv_append h _ (subgraph_inv ks s hs)
  | merge i j =>
    simp only [step]
    split
    · exact onMol_inv h i _ (fun m hm => selfMerge_inv hm)
    · cases ha : p[i]? with
      | none => exact h
      | some a =>
        cases hb : p[j]? with
        | none => exact h
        | some b => exact poolInv_set h i _ (merge_inv (poolInv_get h i a ha) (poolInv_get h j b hb))
  | newMol n ff =>
    apply poolInv_append h
    apply Mol.inv_of_wf_none _ rfl
    refine ⟨List.nodup_nil, ?_, ?_⟩
    · intro e he; cases he
    · intro ti hti; cases hti
  | fromBlock b ao ro co => exact fromBlockStep_inv h b ao ro co
  | buildBlock b0 steps ao ro co =>
    simp only [step]
    cases hb : b0.build steps with
    | error e => exact h
    | ok b => exact fromBlockStep_inv h b ao ro co

/-- a history in which every step is safe where it is applied -/
def SafeRun (p : Pool) : List Op → Bool
  | [] => true
  | o :: t => o.safe p && SafeRun (step p o).1 t

def Op.isClear : Op → Bool
  | .clear _ => true
  | _ => false

theorem safe_of_not_clear (p : Pool) (op : Op) (h : op.isClear = false) : op.safe p = true := by
  cases op <;> first | rfl | (simp [Op.isClear] at h)

theorem safeRun_of_no_clear (p : Pool) (ops : List Op) (h : ∀ op ∈ ops, op.isClear = false) :
    SafeRun p ops = true := by
  induction ops generalizing p with
  | nil => rfl
  | cons o t ih =>
    simp only [SafeRun, Bool.and_eq_true]
    exact ⟨safe_of_not_clear p o (h o List.mem_cons_self), ih _ (fun op hop => h op (List.mem_cons_of_mem _ hop))⟩

theorem run_inv {p : Pool} (h : PoolInv p) (ops : List Op) (hs : SafeRun p ops = true) : PoolInv (run p ops) := by
  induction ops generalizing p with
  | nil => exact h
  | cons o t ih =>
    simp only [SafeRun, Bool.and_eq_true] at hs
    exact ih (step_inv h o hs.1) hs.2

/-! ### frame -/

/-- the pool index an operation edits in place; `none` for the operations that only append -/
def Op.target : Op → Option Nat
  | .addNode i .. => some i | .addNodes i .. => some i | .addNodesC i .. => some i | .removeNode i .. => some i
  | .removeNodes i .. => some i | .addEdge i .. => some i | .addEdgeA i .. => some i | .addEdgesA i .. => some i
  | .removeEdge i .. => some i | .removeEdges i .. => some i | .makeEdgesType i .. => some i
  | .makeEdgesAll i => some i | .clear i => some i | .addInter i .. => some i
  | .addOrReplace i .. => some i | .removeInter i .. => some i | .merge i _ => some i
  | .removeMatching i .. => some i | .pruneEdges i .. => some i | .pruneByName i .. => some i
  | .addLog i .. => some i
  | .copy _ => none | .subgraph .. => none | .newMol .. => none | .fromBlock .. => none | .buildBlock .. => none

theorem onMol_frame (p : Pool) (i : Nat) (f : Mol → Mol × Outcome) :
    (onMol p i f).1.length = p.length ∧ ∀ j, j ≠ i → (onMol p i f).1[j]? = p[j]? := by
  unfold onMol
  cases p[i]? with
  | none => exact ⟨rfl, fun _ _ => rfl⟩
  | some m =>
    refine ⟨by simp [setAt], ?_⟩
    intro j hj
    exact List.getElem?_set_ne (fun e => hj e.symm)

theorem step_frame_target (p : Pool) (op : Op) (i : Nat) (h : op.target = some i) :
    (step p op).1.length = p.length ∧ ∀ j, j ≠ i → (step p op).1[j]? = p[j]? := by
  cases op <;> simp only [Op.target, Option.some.injEq, reduceCtorEq] at h <;> subst h <;>
    try (exact onMol_frame p _ _)
  rename_i j
  simp only [step]
  split
  · exact onMol_frame p _ _
  · split
    · refine ⟨by simp [setAt], ?_⟩
      intro k hk
      exact List.getElem?_set_ne (fun e => hk e.symm)
    · exact ⟨rfl, fun _ _ => rfl⟩

theorem fromBlockStep_append (p : Pool) (b : Block) (ao ro co : Int) :
    (fromBlockStep p b ao ro co).1 = p ∨ ∃ m, (fromBlockStep p b ao ro co).1 = p ++ [m] := by
  unfold fromBlockStep
  split
  · exact Or.inr ⟨_, rfl⟩
  · exact Or.inl rfl

theorem step_frame_append (p : Pool) (op : Op) (h : op.target = none) :
    (step p op).1 = p ∨ ∃ m, (step p op).1 = p ++ [m] := by
  cases op <;> simp only [Op.target, reduceCtorEq] at h
  · simp only [step]; split
    · exact Or.inl rfl
    · exact Or.inr ⟨_, rfl⟩
  · simp only [step]; split
    · exact Or.inl rfl
    · split
      · exact Or.inr ⟨_, rfl⟩
      · exact Or.inl rfl
  · exact Or.inr ⟨_, rfl⟩
  · exact fromBlockStep_append p _ _ _ _
  · simp only [step]; split
    · exact fromBlockStep_append p _ _ _ _
    · exact Or.inl rfl

/-! ### error outcomes -/

theorem set_self (p : Pool) (i : Nat) (m : Mol) (h : p[i]? = some m) : p.set i m = p := by
  apply List.ext_getElem?
  intro j
  rw [List.getElem?_set]
  split
  · rename_i e; subst e
    have : i < p.length := by
      apply Classical.byContradiction; intro hlt
      rw [List.getElem?_eq_none (by omega)] at h; cases h
    rw [if_pos this, h]
  · rfl

theorem onMol_err (p : Pool) (i : Nat) (f : Mol → Mol × Outcome)
    (hf : ∀ m, (f m).2 ≠ .ok → (f m).1 = m) (h : (onMol p i f).2 ≠ .ok) : (onMol p i f).1 = p := by
  unfold onMol at h ⊢
  cases hm : p[i]? with
  | none => rfl
  | some m =>
    rw [hm] at h
    simp only [setAt]
    rw [hf m h]; exact set_self p i m hm

/-- once the newcomer's log entries mention only its own atoms, `mergeCore` is all-or-nothing -/
theorem mergeCore_err (self other : Mol) (nrexcl : Option Int) (offset roff coff : Int) (hl : other.LogOk)
    (h : (self.mergeCore other nrexcl offset roff coff).2 ≠ .ok) :
    (self.mergeCore other nrexcl offset roff coff).1 = self := by
  unfold Mol.mergeCore at h ⊢
  dsimp only at h ⊢
  split
  · rename_i h1 h2
    rw [h1, h2] at h
    dsimp only at h
    rw [mergeLogs_ok _ _ _ _ hl] at h
    exact absurd rfl h
  · rfl

theorem merge_fst_of_err (self other : Mol) (hl : other.LogOk) (h : (self.merge other).2 ≠ .ok) :
    (self.merge other).1 = self := by
  unfold Mol.merge at h ⊢
  dsimp only at h ⊢
  split
  · rfl
  · rename_i hf
    rw [if_neg hf] at h
    split
    · rfl
    · rename_i hn
      rw [if_neg hn] at h
      split
      · rfl
      · rename_i o r c ho
        rw [ho] at h
        exact mergeCore_err _ _ _ _ _ _ hl h

theorem addOrReplace_err (m : Mol) (ty : String) (atoms : List Int) (params : String) (version : Option Int)
    (cites : List String) (edge : Bool) (h : (m.addOrReplace ty atoms params version cites edge).2 ≠ .ok) :
    (m.addOrReplace ty atoms params version cites edge).1 = m := by
  unfold Mol.addOrReplace at h ⊢
  dsimp only at h ⊢
  cases hl : replaceFirst m.inters ty { atoms := atoms, params := params, version := version, edge := edge } with
  | some l => rw [hl] at h; exact absurd rfl h
  | none =>
    rw [hl] at h
    dsimp only at h ⊢
    by_cases ha : atoms.all m.hasNode = true
    · have e : m.addInter ty atoms params version edge =
          ({ m with inters := m.inters ++ [(ty, { atoms := atoms, params := params, version := version, edge := edge })] }, .ok) := by
        unfold Mol.addInter; rw [if_pos ha]
      rw [e] at h; exact absurd rfl h
    · have e : m.addInter ty atoms params version edge = (m, .keyerror) := by
        unfold Mol.addInter; rw [if_neg ha]
      rw [e]

/-- the two ways a failing operation can still have changed the state (findings F-C12-5 / F-C12-6):
a molecule merged into itself, and a merge whose newcomer has a log entry that mentions an atom
the newcomer does not have.  Everything else is all-or-nothing. -/
def Op.failSafe (p : Pool) : Op → Bool
  | .merge i j => decide (i ≠ j) && (p[j]?).all (fun o => decide o.LogOk)
  | _ => true

theorem fromBlockStep_err (p : Pool) (b : Block) (ao ro co : Int) (h : (fromBlockStep p b ao ro co).2 ≠ .ok) :
    (fromBlockStep p b ao ro co).1 = p := by
  unfold fromBlockStep at h ⊢
  split
  · rename_i m hm; rw [hm] at h; exact absurd rfl h
  · rfl

theorem step_err (p : Pool) (op : Op) (hfs : op.failSafe p = true) (h : (step p op).2 ≠ .ok) : (step p op).1 = p := by
  cases op with
  | addNode i k a => exact onMol_err p i _ (fun m hm => absurd rfl hm) h
  | addNodes i l => exact onMol_err p i _ (fun m hm => absurd rfl hm) h
  | addNodesC i l c => exact onMol_err p i _ (fun m hm => absurd rfl hm) h
  | removeNode i k =>
    apply onMol_err p i _ _ h
    intro m hm
    split
    · rename_i hk; rw [if_pos hk] at hm; exact absurd rfl hm
    · rfl
  | removeNodes i ks => exact onMol_err p i _ (fun m hm => absurd rfl hm) h
  | addEdge i u v => exact onMol_err p i _ (fun m hm => absurd rfl hm) h
  | addEdgeA i u v a => exact onMol_err p i _ (fun m hm => absurd rfl hm) h
  | addEdgesA i l => exact onMol_err p i _ (fun m hm => absurd rfl hm) h
  | removeEdge i u v =>
    apply onMol_err p i _ _ h
    intro m hm
    split
    · rename_i hk; rw [if_pos hk] at hm; exact absurd rfl hm
    · rfl
  | removeEdges i l => exact onMol_err p i _ (fun m hm => absurd rfl hm) h
  | makeEdgesType i ty => exact onMol_err p i _ (fun m hm => absurd rfl hm) h
  | makeEdgesAll i => exact onMol_err p i _ (fun m hm => absurd rfl hm) h
  | clear i => exact onMol_err p i _ (fun m hm => absurd rfl hm) h
  | addInter i ty atoms params version edge =>
    apply onMol_err p i _ _ h
    intro m hm
    unfold Mol.addInter at hm ⊢
    split
    · rename_i ha; rw [if_pos ha] at hm; exact absurd rfl hm
    · rfl
  | addOrReplace i ty atoms params version cites edge =>
    exact onMol_err p i _ (fun m hm => addOrReplace_err m ty atoms params version cites edge hm) h
  | removeInter i ty atoms version =>
    apply onMol_err p i _ _ h
    intro m hm
    unfold Mol.removeInter at hm ⊢
    split
    · rename_i l hl; rw [hl] at hm; exact absurd rfl hm
    · rfl
  | removeMatching i ty t =>
    apply onMol_err p i _ _ h
    intro m hm
    unfold Mol.removeMatching at hm ⊢
    split
    · rename_i l hl; rw [hl] at hm; exact absurd rfl hm
    · rfl
  | pruneEdges i a b => exact onMol_err p i _ (fun m hm => absurd rfl hm) h
  | pruneByName i na nb => exact onMol_err p i _ (fun m hm => absurd rfl hm) h
  | addLog i lvl entry args => exact onMol_err p i _ (fun m hm => absurd rfl hm) h
  | copy i =>
    simp only [step] at h ⊢
    split
    · rfl
    · rename_i m hm; rw [hm] at h; exact absurd rfl h
  | subgraph i ks =>
    simp only [step] at h ⊢
    split
    · rfl
    · rename_i m hm
      rw [hm] at h
      dsimp only at h
      split
      · rename_i s hs; rw [hs] at h; exact absurd rfl h
      · rfl
  | merge i j =>
    simp only [Op.failSafe, Bool.and_eq_true, decide_eq_true_eq] at hfs
    obtain ⟨hij, hlog⟩ := hfs
    simp only [step, if_neg hij] at h ⊢
    split
    · rename_i a b ha hb
      rw [ha, hb] at h
      simp only [hb, Option.all_some, decide_eq_true_eq] at hlog
      simp only [setAt]
      rw [merge_fst_of_err a b hlog h]; exact set_self p i a ha
    · rfl
  | newMol n ff => exact absurd rfl h
  | fromBlock b ao ro co => exact fromBlockStep_err p b ao ro co h
  | buildBlock b0 steps ao ro co =>
    simp only [step] at h ⊢
    split
    · rename_i b hb; rw [hb] at h; exact fromBlockStep_err p b ao ro co h
    · rfl

end C12

namespace C12

/-! ### frame over a whole history -/

theorem step_frame_other (p : Pool) (op : Op) (i : Nat) (ht : op.target ≠ some i) (hi : i < p.length) :
    (step p op).1[i]? = p[i]? ∧ p.length ≤ (step p op).1.length := by
  cases hto : op.target with
  | some j =>
    obtain ⟨h1, h2⟩ := step_frame_target p op j hto
    refine ⟨h2 i ?_, by omega⟩
    intro e; subst e; exact ht hto
  | none =>
    rcases step_frame_append p op hto with h | ⟨m, h⟩
    · rw [h]; exact ⟨rfl, Nat.le_refl _⟩
    · rw [h]; exact ⟨List.getElem?_append_left hi, by simp⟩

theorem run_frame (p : Pool) (ops : List Op) (i : Nat) (ht : ∀ op ∈ ops, op.target ≠ some i)
    (hi : i < p.length) : (run p ops)[i]? = p[i]? := by
  induction ops generalizing p with
  | nil => rfl
  | cons o t ih =>
    obtain ⟨h1, h2⟩ := step_frame_other p o i (ht o List.mem_cons_self) hi
    show (run (step p o).1 t)[i]? = p[i]?
    rw [ih (step p o).1 (fun op hop => ht op (List.mem_cons_of_mem _ hop)) (by omega), h1]

/-! ### subgraph content -/

theorem dedupKeys_filter (p : Int → Bool) (l : List Int) :
    dedupKeys (l.filter p) = (dedupKeys l).filter p := by
  induction l with
  | nil => rfl
  | cons k t ih =>
    by_cases hp : p k = true
    · simp only [List.filter_cons, hp, ↓reduceIte, dedupKeys, ih, List.cons.injEq, true_and]
      rw [List.filter_filter, List.filter_filter]
      apply List.filter_congr; intro x _; exact Bool.and_comm _ _
    · simp only [List.filter_cons, hp, Bool.false_eq_true, ↓reduceIte, dedupKeys, ih]
      rw [List.filter_filter]
      apply List.filter_congr; intro x _
      by_cases e : x = k
      · subst e; simp [hp]
      · simp [e]

theorem dedupKeys_eq_eraseDups (ks : List Int) : dedupKeys ks = ks.eraseDups := by
  suffices H : ∀ n (l : List Int), l.length ≤ n → dedupKeys l = l.eraseDups from H _ ks (Nat.le_refl _)
  intro n
  induction n with
  | zero =>
    intro l hl
    have : l = [] := List.length_eq_zero_iff.mp (by omega)
    subst this; simp [dedupKeys]
  | succ n ih =>
    intro l hl
    cases l with
    | nil => simp [dedupKeys]
    | cons k t =>
      rw [List.eraseDups_cons, dedupKeys, ← dedupKeys_filter]
      have hlen : (t.filter (fun b => !b == k)).length ≤ n := by
        have := List.length_filter_le (fun b => !b == k) t
        simp only [List.length_cons] at hl; omega
      have e : (fun x => x != k) = (fun b : Int => !b == k) := rfl
      rw [e, ih _ hlen]

theorem subgraph_nodes_mem (m : Mol) (ks : List Int) (s : Mol) (h : m.subgraph ks = some s) (k : Int) (a : Attrs) :
    (k, a) ∈ s.nodes ↔ k ∈ ks ∧ lookupAttrs m.nodes k = some a := by
  unfold Mol.subgraph at h
  split at h
  · cases h
    simp only [List.mem_filterMap, dedupKeys_mem]
    constructor
    · rintro ⟨k', hk', he⟩
      cases hl : lookupAttrs m.nodes k' with
      | none => rw [hl] at he; cases he
      | some a' => rw [hl] at he; cases he; exact ⟨hk', hl⟩
    · rintro ⟨hk, hl⟩
      exact ⟨k, hk, by rw [hl]; rfl⟩
  · cases h

end C12
