import VermouthModel.C18
/-! Helper lemmas for C18. -/
namespace C18
end C18
