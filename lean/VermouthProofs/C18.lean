import VermouthModel.C18
import Std.Data.String.ToInt
/-! Helper lemmas for C18, part 1: virtual-site creation. Core Lean + Std only. -/
namespace C18

theorem le_maxInts : ∀ (l : List Int) (x : Int), x ∈ l → x ≤ maxInts l
  | [], _, h => by cases h
  | [a], x, h => by
      simp only [List.mem_singleton] at h
      subst h
      simp [maxInts]
  | a :: b :: rest, x, h => by
      have ih := le_maxInts (b :: rest)
      simp only [maxInts]
      rcases List.mem_cons.mp h with h | h
      · subst h; omega
      · have := ih x h; omega

/-- the plain recursion on a list of backbone atoms only -/
def sites (pre vsname : String) : List Atom → Int → Int → List VSite
  | [], _, _ => []
  | a :: rest, k, g => mkVS pre vsname a (k + 1) (g + 1) :: sites pre vsname rest (k + 1) (g + 1)

theorem vsLoop_eq_sites (pre bb vsn : String) (atoms : List Atom) (k g : Int) :
    vsLoop pre bb vsn atoms k g = sites pre vsn (atoms.filter (fun a => a.atomname = bb)) k g := by
  induction atoms generalizing k g with
  | nil => simp [vsLoop, sites]
  | cons a rest ih =>
    by_cases h : a.atomname = bb
    · simp [vsLoop, sites, h, ih]
    · simp [vsLoop, h, ih]

theorem sites_getElem? (pre vsn : String) (l : List Atom) (k g : Int) (i : Nat) :
    (sites pre vsn l k g)[i]? = l[i]?.map (fun a => mkVS pre vsn a (k + 1 + i) (g + 1 + i)) := by
  induction l generalizing k g i with
  | nil => simp [sites]
  | cons a rest ih =>
    cases i with
    | zero => simp [sites]
    | succ j =>
      simp only [sites, List.getElem?_cons_succ, ih]
      congr 1
      funext a
      have e1 : k + 1 + 1 + (j : Int) = k + 1 + ((j + 1 : Nat) : Int) := by omega
      have e2 : g + 1 + 1 + (j : Int) = g + 1 + ((j + 1 : Nat) : Int) := by omega
      rw [e1, e2]

theorem sites_length (pre vsn : String) (l : List Atom) (k g : Int) :
    (sites pre vsn l k g).length = l.length := by
  induction l generalizing k g with
  | nil => simp [sites]
  | cons a rest ih => simp [sites, ih]

theorem sites_map_bb (pre vsn : String) (l : List Atom) (k g : Int) :
    (sites pre vsn l k g).map (·.bb) = l.map (·.key) := by
  induction l generalizing k g with
  | nil => simp [sites]
  | cons a rest ih => simp [sites, ih, mkVS]

theorem sites_map_atype (pre vsn : String) (l : List Atom) (k g : Int) :
    (sites pre vsn l k g).map (·.atype) = l.map (fun a => goType pre a.resid) := by
  induction l generalizing k g with
  | nil => simp [sites]
  | cons a rest ih => simp [sites, ih, mkVS]

theorem mem_sites (pre vsn : String) (l : List Atom) (k g : Int) (v : VSite)
    (h : v ∈ sites pre vsn l k g) :
    ∃ (i : Nat) (a : Atom), l[i]? = some a ∧ v = mkVS pre vsn a (k + 1 + i) (g + 1 + i) := by
  obtain ⟨i, hi, hv⟩ := List.mem_iff_getElem.mp h
  have := sites_getElem? pre vsn l k g i
  rw [List.getElem?_eq_getElem hi] at this
  cases hl : l[i]? with
  | none => rw [hl] at this; simp at this
  | some a =>
    rw [hl] at this
    simp only [Option.map_some, Option.some.injEq] at this
    exact ⟨i, a, hl, by rw [← hv, this]⟩

/-! ### type names -/

theorem goType_inj (pre : String) (r s : Int) (h : goType pre r = goType pre s) : r = s := by
  unfold goType at h
  have h1 : (pre ++ "_" ++ Int.repr r).toList = (pre ++ "_" ++ Int.repr s).toList := by rw [h]
  simp only [String.toList_append] at h1
  have h2 := List.append_cancel_left h1
  have h3 : Int.repr r = Int.repr s := String.toList_inj.mp h2
  exact Int.repr_inj.mp h3

theorem nodup_map_goType (pre : String) (l : List Int) (h : l.Nodup) : (l.map (goType pre)).Nodup := by
  induction l with
  | nil => simp
  | cons a rest ih =>
    rw [List.nodup_cons] at h
    rw [List.map_cons, List.nodup_cons]
    refine ⟨?_, ih h.2⟩
    intro hm
    obtain ⟨b, hb, he⟩ := List.mem_map.mp hm
    have := goType_inj pre b a he
    subst this
    exact h.1 hb

end C18
