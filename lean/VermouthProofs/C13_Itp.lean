import VermouthProofs.C13_Disp
/-!
C13 — specification of the `ITPDirector` section dispatcher (`itpRun`) and the proof that it meets it.
Core Lean only.

`ITPDirector.finalize_section` runs at every header (when a section is open): it applies the hook
`atomsEnded` to the current block when `atoms` is among the ended sections, and registers the
current block under its name.  The specification `itpSpec` is declarative: one entry per header that
opens `[ moleculetype ]`, holding every line up to the next such header (or the end of the file),
with the hook applied exactly where the code applies it; registrations at intermediate headers do
not appear in it.
-/
namespace C13
variable {C : Type}

/-! ## Specification -/

/-- the sections ended by header `n` under the open path `sec`, as `ITPDirector.parse_header`
computes them (a known top-level name ends nothing by popping: the path is restarted) -/
def itpEnded (P : IParams C) (sec : Path) (n : String) : List String :=
  if P.T.contains [n] then [] else endedRev P.T n sec.reverse

/-- apply the `atoms`-ended hook to the open block -/
def itpHook (P : IParams C) (cur : Option (Nat × C)) : Option (Nat × C) :=
  cur.map (fun b => (b.1, P.atomsEnded b.2))

/-- the open block after `finalize_section` at header `n` -/
def itpCur1 (P : IParams C) (sec : Path) (n : String) (cur : Option (Nat × C)) : Option (Nat × C) :=
  if sec ≠ [] ∧ (itpEnded P sec n).contains "atoms" = true then itpHook P cur else cur

/-- SPEC for ITP blocks: one entry per header that opens `[ moleculetype ]`, holding every line up to
the next such header, with the hook applied exactly where the code applies it. -/
def itpSpec (P : IParams C) : Path → Option (Nat × C) → Nat → List Line → List (Nat × C)
  | sec, cur, _, [] => (if sec.contains "atoms" = true then itpHook P cur else cur).toList
  | sec, cur, i, .header n :: r =>
    if nextSec P.T sec n = ["moleculetype"] then
      (itpCur1 P sec n cur).toList ++ itpSpec P ["moleculetype"] (some (i, P.fresh)) (i+1) r
    else itpSpec P (nextSec P.T sec n) (itpCur1 P sec n cur) (i+1) r
  | sec, cur, i, .content t :: r =>
    itpSpec P sec (cur.map (fun b => (b.1, (P.handle sec t b.2).getD b.2))) (i+1) r

/-- registration step of the dict -/
def iregStep (P : IParams C) (d : List (Option String × (Nat × C))) (b : Nat × C) :
    List (Option String × (Nat × C)) := dictSet d (P.nameOf b.2) b

/-! ## Header indices -/

theorem itpHook_fst (P : IParams C) (cur : Option (Nat × C)) :
    (itpHook P cur).toList.map (·.1) = cur.toList.map (·.1) := by
  cases cur <;> simp [itpHook]

theorem itpCur1_fst (P : IParams C) (sec : Path) (n : String) (cur : Option (Nat × C)) :
    (itpCur1 P sec n cur).toList.map (·.1) = cur.toList.map (·.1) := by
  unfold itpCur1
  split
  · exact itpHook_fst P cur
  · rfl

theorem nextSec_top {T : List Path} {x : String} (hT : T.contains [x] = true) (sec : Path) :
    nextSec T sec x = [x] := by
  simp only [nextSec, hT, if_true]

theorem itpSpec_hdrs_gen (P : IParams C) (hT : P.T.contains ["moleculetype"] = true)
    (lines : List Line) :
    ∀ (sec : Path) (cur : Option (Nat × C)) (i : Nat),
      (itpSpec P sec cur i lines).map (·.1) =
        cur.toList.map (·.1) ++ hdrIdxs "moleculetype" i lines := by
  induction lines with
  | nil =>
    intro sec cur i
    simp only [itpSpec, hdrIdxs, List.append_nil]
    split
    · exact itpHook_fst P cur
    · rfl
  | cons l r ih =>
    intro sec cur i
    cases l with
    | header n =>
      simp only [itpSpec, hdrIdxs]
      by_cases hn : n = "moleculetype"
      · subst hn
        simp only [nextSec_top hT, if_true, List.map_append, ih, itpCur1_fst]
        simp
      · have hne : nextSec P.T sec n ≠ ["moleculetype"] := fun h => hn (nextSec_eq_singleton h)
        simp only [hne, hn, if_false, ih, itpCur1_fst]
    | content t =>
      simp only [itpSpec, hdrIdxs, ih]
      cases cur <;> simp

/-- every `[ moleculetype ]` header yields exactly one entry, in file order -/
theorem itpSpec_hdrs (P : IParams C) (hT : P.T.contains ["moleculetype"] = true) (sec : Path)
    (i : Nat) (lines : List Line) :
    (itpSpec P sec none i lines).map (·.1) = hdrIdxs "moleculetype" i lines := by
  simpa using itpSpec_hdrs_gen P hT lines sec none i

/-! ## One-step lemmas -/

theorem itpFinalize_spec (P : IParams C) (s : ISt C) (ended : List String) :
    (itpFinalize P s ended).sec = s.sec ∧
    (itpFinalize P s ended).blk = (if ended.contains "atoms" = true then itpHook P s.blk else s.blk) ∧
    (itpFinalize P s ended).blocks =
      (if ended.contains "atoms" = true then itpHook P s.blk else s.blk).toList.foldl (iregStep P)
        s.blocks := by
  unfold itpFinalize itpHook
  refine ⟨rfl, rfl, ?_⟩
  simp only
  cases (if ended.contains "atoms" = true then
      Option.map (fun b => (b.1, P.atomsEnded b.2)) s.blk else s.blk) <;> simp [iregStep]

theorem itpHeader_sec (P : IParams C) (s : ISt C) (i : Nat) (n : String) :
    (itpHeader P s i n).sec = nextSec P.T s.sec n := by
  unfold itpHeader
  simp only
  split <;> rfl

theorem itpHeader_spec (P : IParams C) (s : ISt C) (i : Nat) (n : String)
    (hinv : s.sec = [] → s.blk = none) :
    (itpHeader P s i n).blocks = (itpCur1 P s.sec n s.blk).toList.foldl (iregStep P) s.blocks ∧
    (itpHeader P s i n).blk =
      if nextSec P.T s.sec n = ["moleculetype"] then some (i, P.fresh) else itpCur1 P s.sec n s.blk := by
  obtain ⟨_, h2, h3⟩ := itpFinalize_spec P s (itpEnded P s.sec n)
  unfold itpHeader
  simp only
  by_cases h0 : s.sec = []
  · have hb := hinv h0
    simp only [h0, if_true, itpCur1, ne_eq, not_true_eq_false, false_and, if_false, hb,
      Option.toList_none, List.foldl_nil]
    split <;> exact ⟨rfl, rfl⟩
  · have hc : itpCur1 P s.sec n s.blk =
        if (itpEnded P s.sec n).contains "atoms" = true then itpHook P s.blk else s.blk := by
      simp only [itpCur1, ne_eq, h0, not_false_eq_true, true_and]
    simp only [h0, if_false, hc]
    split
    · exact ⟨h3, rfl⟩
    · exact ⟨h3, h2⟩

theorem itpContent_spec (P : IParams C) (s s' : ISt C) (t : String) (h : itpContent P s t = some s') :
    s'.sec = s.sec ∧ s'.blocks = s.blocks ∧
    s'.blk = s.blk.map (fun b => (b.1, (P.handle s.sec t b.2).getD b.2)) := by
  unfold itpContent at h
  split at h
  · cases h
  · split at h
    · cases h
    next i c hb =>
      simp only [Option.map_eq_some_iff] at h
      obtain ⟨c', hc, rfl⟩ := h
      simp [hb, hc]

/-! ## The open block keeps its name outside `[ moleculetype ]` -/

theorem itpHook_some_name (P : IParams C) (hA : ∀ c, P.nameOf (P.atomsEnded c) = P.nameOf c)
    (b : Nat × C) : ∃ b', itpHook P (some b) = some b' ∧ P.nameOf b'.2 = P.nameOf b.2 :=
  ⟨(b.1, P.atomsEnded b.2), rfl, hA b.2⟩

theorem itpCur1_some_name (P : IParams C) (hA : ∀ c, P.nameOf (P.atomsEnded c) = P.nameOf c)
    (sec : Path) (n : String) (b : Nat × C) :
    ∃ b', itpCur1 P sec n (some b) = some b' ∧ P.nameOf b'.2 = P.nameOf b.2 := by
  unfold itpCur1
  split
  · exact itpHook_some_name P hA b
  · exact ⟨b, rfl, rfl⟩

theorem itpSpec_head (P : IParams C)
    (hS : ∀ sec t c c', sec ≠ ["moleculetype"] → P.handle sec t c = some c' → P.nameOf c' = P.nameOf c)
    (hA : ∀ c, P.nameOf (P.atomsEnded c) = P.nameOf c) (lines : List Line) :
    ∀ (sec : Path) (b : Nat × C) (i : Nat), sec ≠ ["moleculetype"] →
      ∃ b' tail, itpSpec P sec (some b) i lines = b' :: tail ∧ P.nameOf b'.2 = P.nameOf b.2 := by
  induction lines with
  | nil =>
    intro sec b i _
    simp only [itpSpec]
    split
    · obtain ⟨b', h1, h2⟩ := itpHook_some_name P hA b
      exact ⟨b', [], by rw [h1]; rfl, h2⟩
    · exact ⟨b, [], rfl, rfl⟩
  | cons l r ih =>
    intro sec b i hsec
    cases l with
    | header n =>
      simp only [itpSpec]
      obtain ⟨b1, h1, h2⟩ := itpCur1_some_name P hA sec n b
      rw [h1]
      split
      · exact ⟨b1, _, rfl, h2⟩
      next hne =>
        obtain ⟨b', tail, h3, h4⟩ := ih (nextSec P.T sec n) b1 (i+1) hne
        exact ⟨b', tail, h3, h4.trans h2⟩
    | content t =>
      simp only [itpSpec, Option.map_some]
      obtain ⟨b', tail, h3, h4⟩ := ih sec (b.1, (P.handle sec t b.2).getD b.2) (i+1) hsec
      refine ⟨b', tail, h3, h4.trans ?_⟩
      cases hc : P.handle sec t b.2 with
      | none => rfl
      | some c' => exact hS sec t b.2 c' hsec hc

/-- an early registration of the open block is overwritten in place by its final one -/
theorem itpSpec_absorb (P : IParams C)
    (hS : ∀ sec t c c', sec ≠ ["moleculetype"] → P.handle sec t c = some c' → P.nameOf c' = P.nameOf c)
    (hA : ∀ c, P.nameOf (P.atomsEnded c) = P.nameOf c) (lines : List Line) (sec : Path)
    (cur : Option (Nat × C)) (i : Nat) (hsec : sec ≠ ["moleculetype"])
    (d : List (Option String × (Nat × C))) :
    (itpSpec P sec cur i lines).foldl (iregStep P) (cur.toList.foldl (iregStep P) d) =
      (itpSpec P sec cur i lines).foldl (iregStep P) d := by
  cases cur with
  | none => rfl
  | some b =>
    obtain ⟨b', tail, h1, h2⟩ := itpSpec_head P hS hA lines sec b i hsec
    rw [h1]
    simp only [Option.toList_some, List.foldl_cons, List.foldl_nil, iregStep, h2, dictSet_dictSet]

/-! ## Main theorem -/

theorem itp_blocks_from (P : IParams C)
    (hS : ∀ sec t c c', sec ≠ ["moleculetype"] → P.handle sec t c = some c' → P.nameOf c' = P.nameOf c)
    (hA : ∀ c, P.nameOf (P.atomsEnded c) = P.nameOf c) (rest : List Line) :
    ∀ (s s' : ISt C) (i : Nat), (s.sec = [] → s.blk = none) →
      itpRunFrom P s i rest = some s' →
      s'.blocks = (itpSpec P s.sec s.blk i rest).foldl (iregStep P) s.blocks := by
  induction rest with
  | nil =>
    intro s s' i _ h
    simp only [itpRunFrom, Option.some.injEq] at h
    subst h
    simp only [itpSpec, (itpFinalize_spec P s s.sec).2.2]
  | cons l r ih =>
    intro s s' i hinv h
    cases l with
    | header n =>
      simp only [itpRunFrom] at h
      have hsec := itpHeader_sec P s i n
      have hinv' : (itpHeader P s i n).sec = [] → (itpHeader P s i n).blk = none := by
        intro h0; rw [hsec] at h0; exact absurd h0 (nextSec_ne_nil _ _ _)
      obtain ⟨h1, h2⟩ := itpHeader_spec P s i n hinv
      rw [ih _ _ _ hinv' h, hsec, h1, h2]
      simp only [itpSpec]
      by_cases hm : nextSec P.T s.sec n = ["moleculetype"]
      · simp only [hm, if_true, List.foldl_append]
      · simp only [hm, if_false]
        exact itpSpec_absorb P hS hA r _ _ _ hm _
    | content t =>
      simp only [itpRunFrom] at h
      cases hc : itpContent P s t with
      | none => rw [hc] at h; cases h
      | some s1 =>
        rw [hc] at h
        obtain ⟨h1, h2, h3⟩ := itpContent_spec P s s1 t hc
        have := ih s1 s' (i+1) (by
          intro h0; rw [h1] at h0; rw [h3, hinv h0]; rfl) h
        rw [this, h1, h2, h3]
        simp only [itpSpec]

theorem dictOfList_map_eq_itp (P : IParams C) (l : List (Nat × C)) :
    dictOfList (l.map (fun b => (P.nameOf b.2, b))) = l.foldl (iregStep P) [] := by
  unfold dictOfList
  rw [List.foldl_map]
  rfl

/-- **ITP blocks specification**: the `blocks` dict of a successful run is the dict built from the
entries of `itpSpec`, in order (a later block with the same name replaces the earlier one in place).
The hypothesis `_hT` is not used by the proof (the dispatcher tests the resulting path against
`["moleculetype"]` directly); it is what makes `itpSpec_hdrs` apply to the same `itpSpec`. -/
theorem itp_blocks_spec (P : IParams C) (lines : List Line) (s : ISt C)
    (_hT : P.T.contains ["moleculetype"] = true)
    (hS : ∀ sec t c c', sec ≠ ["moleculetype"] → P.handle sec t c = some c' → P.nameOf c' = P.nameOf c)
    (hA : ∀ c, P.nameOf (P.atomsEnded c) = P.nameOf c)
    (h : itpRun P lines = some s) :
    s.blocks = dictOfList ((itpSpec P [] none 0 lines).map (fun b => (P.nameOf b.2, b))) := by
  rw [dictOfList_map_eq_itp]
  exact itp_blocks_from P hS hA lines {} s 0 (fun _ => rfl) h

end C13
