import VermouthProps.C10
import VermouthProps.C11
/-!
# C11 / C10 — bond guessing does not depend on the order of the atom list, nor on the frame

Statements about `C10.run`, the model of `make_bonds` (`VermouthModel/C10.lean`).

* **atom order.**  The identity of an atom is its position `i` in `S.atoms`; in another presentation
  `S'` of the same system the atom sits at position `σ i` (`Reorder σ τ S S'`, `τ` the inverse).  The
  name bonds, the collected non-bonds, the distance bonds and hence all bonds of the final graph are
  the same SETS of unordered pairs of identities (`c10_bonds_reorder_invariant`).  The LISTS differ
  (they are oriented and ordered by node key), which is why the statement is about `has`.
  `reorderSys π S` is the system listed in the order `π`; it is a `Reorder` for every permutation
  `π` of `0 .. n-1` (`reorderSys_reorder`), so the statement covers every permutation of the atom list.
* **frame.**  Moving all atoms by an exact rigid motion leaves the complete result unchanged
  (`c10_run_rigid_invariant`): coordinates are read through `C10.dist2` only.
-/
namespace C11
open C10

/-! ## atom order -/

/-- `S'` is `S` with the atoms listed in another order: atom `i` of `S` is atom `σ i` of `S'`;
`τ` is the inverse of `σ` on `0 .. n-1`; the pre-existing bonds are the same pairs of atoms;
force field, radii and options are the same. -/
structure Reorder (σ τ : Nat → Nat) (S S' : Sys) : Prop where
  len : S'.atoms.length = S.atoms.length
  lt : ∀ i, i < S.atoms.length → σ i < S.atoms.length
  ltInv : ∀ j, j < S.atoms.length → τ j < S.atoms.length
  left : ∀ i, i < S.atoms.length → τ (σ i) = i
  right : ∀ j, j < S.atoms.length → σ (τ j) = j
  atom : ∀ i, i < S.atoms.length → atomAt S'.atoms (σ i) = atomAt S.atoms i
  pre : ∀ u v, u < S.atoms.length → v < S.atoms.length → has S'.pre (σ u) (σ v) = has S.pre u v
  ff : S'.ff = S.ff
  radii : S'.radii = S.radii
  allowName : S'.allowName = S.allowName
  allowDist : S'.allowDist = S.allowDist
  p : S'.p = S.p
  q : S'.q = S.q

namespace Reorder
variable {σ τ : Nat → Nat} {S S' : Sys} (R : Reorder σ τ S S')
include R

theorem lt' {i : Nat} (hi : i < S.atoms.length) : σ i < S'.atoms.length := by
  rw [R.len]; exact R.lt i hi

theorem inj {i j : Nat} (hi : i < S.atoms.length) (hj : j < S.atoms.length) (h : σ i = σ j) : i = j := by
  rw [← R.left i hi, ← R.left j hj, h]

theorem key {i : Nat} (hi : i < S.atoms.length) : keyAt S'.atoms (σ i) = keyAt S.atoms i := by
  unfold keyAt; rw [R.atom i hi]

theorem mem_members_fwd {k : ResKey} {i : Nat} (h : i ∈ members S.atoms k) : σ i ∈ members S'.atoms k := by
  obtain ⟨h1, h2⟩ := mem_members.mp h
  exact mem_members.mpr ⟨R.lt' h1, by rw [R.key h1]; exact h2⟩

theorem mem_members_bwd {k : ResKey} {j : Nat} (h : j ∈ members S'.atoms k) :
    τ j ∈ members S.atoms k ∧ σ (τ j) = j := by
  obtain ⟨h1, h2⟩ := mem_members.mp h
  rw [R.len] at h1
  have hr := R.right j h1
  refine ⟨mem_members.mpr ⟨R.ltInv j h1, ?_⟩, hr⟩
  rw [← R.key (R.ltInv j h1), hr]; exact h2

theorem dupName (k : ResKey) :
    hasDupName S'.atoms (members S'.atoms k) = hasDupName S.atoms (members S.atoms k) := by
  apply Bool.eq_iff_iff.mpr
  unfold hasDupName
  simp only [List.any_eq_true, Bool.and_eq_true, bne_iff_ne, ne_eq, beq_iff_eq]
  constructor
  · rintro ⟨i, hi, j, hj, ⟨hne, hs⟩, he⟩
    obtain ⟨hi', ri⟩ := R.mem_members_bwd hi
    obtain ⟨hj', rj⟩ := R.mem_members_bwd hj
    have li := (mem_members.mp hi').1
    have lj := (mem_members.mp hj').1
    refine ⟨τ i, hi', τ j, hj', ⟨?_, ?_⟩, ?_⟩
    · intro e; apply hne; rw [← ri, ← rj, e]
    · rw [← R.atom _ li, ri]; exact hs
    · rw [← R.atom _ li, ← R.atom _ lj, ri, rj]; exact he
  · rintro ⟨i, hi, j, hj, ⟨hne, hs⟩, he⟩
    have li := (mem_members.mp hi).1
    have lj := (mem_members.mp hj).1
    refine ⟨σ i, R.mem_members_fwd hi, σ j, R.mem_members_fwd hj, ⟨?_, ?_⟩, ?_⟩
    · intro e; exact hne (R.inj li lj e)
    · rw [R.atom _ li]; exact hs
    · rw [R.atom _ li, R.atom _ lj]; exact he

theorem sameRes {u v : Nat} (hu : u < S.atoms.length) (hv : v < S.atoms.length) :
    SameRes S' (σ u) (σ v) ↔ SameRes S u v := by
  unfold SameRes
  rw [R.key hu, R.key hv]
  constructor
  · rintro ⟨_, _, h⟩; exact ⟨hu, hv, h⟩
  · rintro ⟨_, _, h⟩; exact ⟨R.lt' hu, R.lt' hv, h⟩

theorem named {u v : Nat} (hu : u < S.atoms.length) (hv : v < S.atoms.length) (b : Block) (e : Edge) :
    Named S'.atoms b e (σ u) (σ v) ↔ Named S.atoms b e u v := by
  unfold Named
  rw [R.atom u hu, R.atom v hv]

theorem nameBond {u v : Nat} (hu : u < S.atoms.length) (hv : v < S.atoms.length) :
    NameBond S' (σ u) (σ v) ↔ NameBond S u v := by
  unfold NameBond
  rw [R.sameRes hu hv, R.key hu, R.ff, R.dupName]
  simp only [R.named hu hv]

theorem nonBond {u v : Nat} (hu : u < S.atoms.length) (hv : v < S.atoms.length) :
    NonBond S' (σ u) (σ v) ↔ NonBond S u v := by
  unfold NonBond
  rw [R.sameRes hu hv, R.key hu, R.ff, R.dupName]
  simp only [R.named hu hv]

theorem nameE_mem {u v : Nat} (hu : u < S.atoms.length) (hv : v < S.atoms.length) :
    (σ u, σ v) ∈ (run S').nameE ↔ (u, v) ∈ (run S).nameE := by
  rw [name_bonds_exact, name_bonds_exact, R.allowName, R.nameBond hu hv]

theorem NE_mem {u v : Nat} (hu : u < S.atoms.length) (hv : v < S.atoms.length) :
    (σ u, σ v) ∈ (run S').NE ↔ (u, v) ∈ (run S).NE := by
  rw [nonbonds_exact, nonbonds_exact, R.allowName, R.nonBond hu hv]

end Reorder

theorem has_eq_of_mem_iff {E E' : List Edge} {u v u' v' : Nat}
    (h1 : (u', v') ∈ E' ↔ (u, v) ∈ E) (h2 : (v', u') ∈ E' ↔ (v, u) ∈ E) : has E' u' v' = has E u v := by
  apply Bool.eq_iff_iff.mpr
  rw [has_iff, has_iff, h1, h2]

/-- **name bonds**: the same unordered pairs of atoms -/
theorem c10_name_bonds_reorder {σ τ : Nat → Nat} {S S' : Sys} (R : Reorder σ τ S S') (u v : Nat)
    (hu : u < S.atoms.length) (hv : v < S.atoms.length) :
    has (run S').nameE (σ u) (σ v) = has (run S).nameE u v :=
  has_eq_of_mem_iff (R.nameE_mem hu hv) (R.nameE_mem hv hu)

/-- **collected non-bonds**: the same unordered pairs of atoms -/
theorem c10_nonbonds_reorder {σ τ : Nat → Nat} {S S' : Sys} (R : Reorder σ τ S S') (u v : Nat)
    (hu : u < S.atoms.length) (hv : v < S.atoms.length) :
    has (run S').NE (σ u) (σ v) = has (run S).NE u v :=
  has_eq_of_mem_iff (R.NE_mem hu hv) (R.NE_mem hv hu)

theorem has_comm (E : List Edge) (u v : Nat) : has E u v = has E v u := by
  unfold has; rw [Bool.or_comm]

theorem dist2_comm (a b : C10.Atom) : C10.dist2 a b = C10.dist2 b a := by
  have h : ∀ x y : Int, C10.sq (x - y) = C10.sq (y - x) := by
    intro x y
    unfold C10.sq
    have : (x - y).natAbs = (y - x).natAbs := by omega
    rw [this]
  unfold C10.dist2
  rw [h a.x b.x, h a.y b.y, h a.z b.z]

/-- the distance criteria are symmetric in the two atoms -/
theorem distCrit_symm (S : Sys) (NE : List Edge) (u v : Nat) : DistCrit S NE u v → DistCrit S NE v u := by
  rintro ⟨ra, rb, c1, c2, c3, c4, c5, c6⟩
  refine ⟨rb, ra, c2, c1, by rw [has_comm]; exact c3, fun h => c4 ⟨h.2, h.1⟩,
    fun h => c5 ⟨fun e => h.1 e.symm, h.2.symm⟩, ?_⟩
  rw [dist2_comm, Nat.add_comm rb ra]
  exact c6

/-- **orientation-free form of `C10.dist_bond_iff`**: `u - v` is a distance bond iff the two atoms are
different atoms of the system, meet the criteria, and are not bonded already. -/
theorem has_distE_iff (S : Sys) (had : S.allowDist = true) (u v : Nat) :
    has (run S).distE u v = true ↔
      u ≠ v ∧ u < S.atoms.length ∧ v < S.atoms.length ∧ DistCrit S (run S).NE u v
        ∧ has S.pre u v = false ∧ has (run S).nameE u v = false := by
  rw [has_iff, dist_bond_iff S had, dist_bond_iff S had]
  constructor
  · rintro (⟨h1, h2, h3, h4, h5⟩ | ⟨h1, h2, h3, h4, h5⟩)
    · exact ⟨by omega, by omega, h2, h3, h4, h5⟩
    · exact ⟨by omega, h2, by omega, distCrit_symm _ _ _ _ h3, by rw [has_comm]; exact h4,
        by rw [has_comm]; exact h5⟩
  · rintro ⟨h1, h2, h3, h4, h5, h6⟩
    rcases Nat.lt_or_gt_of_ne h1 with h | h
    · exact Or.inl ⟨h, h3, h4, h5, h6⟩
    · exact Or.inr ⟨h, h2, distCrit_symm _ _ _ _ h4, by rw [has_comm]; exact h5, by rw [has_comm]; exact h6⟩

theorem Reorder.distCrit {σ τ : Nat → Nat} {S S' : Sys} (R : Reorder σ τ S S') {u v : Nat}
    (hu : u < S.atoms.length) (hv : v < S.atoms.length) :
    DistCrit S' (run S').NE (σ u) (σ v) ↔ DistCrit S (run S).NE u v := by
  have hs : serial S'.atoms (σ u) ≠ serial S'.atoms (σ v) ↔ serial S.atoms u ≠ serial S.atoms v := by
    rw [ne_eq, ne_eq, serial_eq_iff S' (σ u) (σ v) (R.lt' hu) (R.lt' hv), serial_eq_iff S u v hu hv,
      R.key hu, R.key hv]
  unfold DistCrit
  rw [R.atom u hu, R.atom v hv, R.radii, R.p, R.q, c10_nonbonds_reorder R u v hu hv, hs]

/-- **distance bonds**: the same unordered pairs of atoms -/
theorem c10_dist_bonds_reorder {σ τ : Nat → Nat} {S S' : Sys} (R : Reorder σ τ S S') (u v : Nat)
    (hu : u < S.atoms.length) (hv : v < S.atoms.length) :
    has (run S').distE (σ u) (σ v) = has (run S).distE u v := by
  cases had : S.allowDist with
  | false =>
    rw [no_dist_when_off S had, no_dist_when_off S' (by rw [R.allowDist]; exact had)]
    rfl
  | true =>
    have had' : S'.allowDist = true := by rw [R.allowDist]; exact had
    apply Bool.eq_iff_iff.mpr
    rw [has_distE_iff S' had', has_distE_iff S had, R.distCrit hu hv, R.pre u v hu hv,
      c10_name_bonds_reorder R u v hu hv, R.len]
    constructor
    · rintro ⟨h1, _, _, h⟩; exact ⟨fun e => h1 (by rw [e]), hu, hv, h⟩
    · rintro ⟨h1, _, _, h⟩; exact ⟨fun e => h1 (R.inj hu hv e), R.lt u hu, R.lt v hv, h⟩

/-- **c10_bonds_reorder_invariant.**  The bonds of the final graph are the same set of unordered pairs
of atoms whatever the order in which the atoms are listed. -/
theorem c10_bonds_reorder_invariant {σ τ : Nat → Nat} {S S' : Sys} (R : Reorder σ τ S S') (u v : Nat)
    (hu : u < S.atoms.length) (hv : v < S.atoms.length) :
    (run S').bonded S' (σ u) (σ v) = (run S).bonded S u v := by
  unfold Result.bonded
  rw [R.pre u v hu hv, c10_name_bonds_reorder R u v hu hv, c10_dist_bonds_reorder R u v hu hv]

/-- ... and which bonds carry a `distance` attribute -/
theorem c10_distance_attr_reorder_invariant {σ τ : Nat → Nat} {S S' : Sys} (R : Reorder σ τ S S') (u v : Nat)
    (hu : u < S.atoms.length) (hv : v < S.atoms.length) :
    (run S').hasDistance (σ u) (σ v) = (run S).hasDistance u v := by
  unfold Result.hasDistance
  rw [c10_name_bonds_reorder R u v hu hv, c10_dist_bonds_reorder R u v hu hv]

/-! ### every permutation of the atom list is a `Reorder` -/

/-- the system with its atoms listed in the order `π` (position `j` holds the old atom `π[j]`),
pre-existing bonds renumbered accordingly -/
def reorderSys (π : List Nat) (S : Sys) : Sys :=
  { S with atoms := π.map (atomAt S.atoms)
           pre := S.pre.map fun e => (π.idxOf e.1, π.idxOf e.2) }

theorem reorderSys_reorder (π : List Nat) (S : Sys) (hπ : π.Perm (List.range S.atoms.length)) (hwf : WF S) :
    Reorder (fun i => π.idxOf i) (fun j => π.getD j 0) S (reorderSys π S) := by
  have hlen : π.length = S.atoms.length := by rw [hπ.length_eq, List.length_range]
  have hmem : ∀ i, i ∈ π ↔ i < S.atoms.length := fun i => by rw [hπ.mem_iff, List.mem_range]
  have hnd : π.Nodup := hπ.symm.nodup List.nodup_range
  have hleft : ∀ i, i < S.atoms.length → π.getD (π.idxOf i) 0 = i := by
    intro i hi
    have hlt : π.idxOf i < π.length := List.idxOf_lt_length_iff.mpr ((hmem i).mpr hi)
    rw [List.getD_eq_getElem?_getD, List.getElem?_eq_getElem hlt, Option.getD_some, List.getElem_idxOf]
  have hright : ∀ j, j < S.atoms.length → π.idxOf (π.getD j 0) = j := by
    intro j hj
    have hlt : j < π.length := by rw [hlen]; exact hj
    rw [List.getD_eq_getElem?_getD, List.getElem?_eq_getElem hlt, Option.getD_some]
    exact hnd.idxOf_getElem j hlt
  have hσlt : ∀ i, i < S.atoms.length → π.idxOf i < S.atoms.length := by
    intro i hi
    rw [← hlen]; exact List.idxOf_lt_length_iff.mpr ((hmem i).mpr hi)
  have hinj : ∀ i j, i < S.atoms.length → j < S.atoms.length → π.idxOf i = π.idxOf j → i = j := by
    intro i j hi hj e
    rw [← hleft i hi, ← hleft j hj, e]
  refine { len := ?_, lt := hσlt, ltInv := ?_, left := hleft, right := hright, atom := ?_, pre := ?_,
           ff := rfl, radii := rfl, allowName := rfl, allowDist := rfl, p := rfl, q := rfl }
  · simp [reorderSys, hlen]
  · intro j hj
    have hlt : j < π.length := by rw [hlen]; exact hj
    rw [List.getD_eq_getElem?_getD, List.getElem?_eq_getElem hlt, Option.getD_some]
    exact (hmem _).mp (List.getElem_mem hlt)
  · intro i hi
    have hlt : π.idxOf i < π.length := by rw [hlen]; exact hσlt i hi
    show atomAt (π.map (atomAt S.atoms)) (π.idxOf i) = atomAt S.atoms i
    unfold atomAt
    rw [List.getD_eq_getElem?_getD, List.getElem?_map, List.getElem?_eq_getElem hlt]
    simp only [Option.map_some, Option.getD_some, List.getElem_idxOf]
  · intro u v hu hv
    have key : ∀ a b, a < S.atoms.length → b < S.atoms.length →
        ((π.idxOf a, π.idxOf b) ∈ S.pre.map (fun e => (π.idxOf e.1, π.idxOf e.2)) ↔ (a, b) ∈ S.pre) := by
      intro a b ha hb
      rw [List.mem_map]
      constructor
      · rintro ⟨e, he, heq⟩
        obtain ⟨e1, e2⟩ := hwf e he
        simp only [Prod.mk.injEq] at heq
        have h1 := hinj _ _ e1 ha heq.1
        have h2 := hinj _ _ e2 hb heq.2
        rw [← h1, ← h2]; exact he
      · intro h; exact ⟨(a, b), h, rfl⟩
    exact has_eq_of_mem_iff (key u v hu hv) (key v u hv hu)

/-- **every permutation of the atom list** gives the same bonds -/
theorem c10_bonds_any_permutation (π : List Nat) (S : Sys) (hπ : π.Perm (List.range S.atoms.length)) (hwf : WF S)
    (u v : Nat) (hu : u < S.atoms.length) (hv : v < S.atoms.length) :
    (run (reorderSys π S)).bonded (reorderSys π S) (π.idxOf u) (π.idxOf v) = (run S).bonded S u v :=
  c10_bonds_reorder_invariant (reorderSys_reorder π S hπ hwf) u v hu hv

/-! ## frame -/

/-- all atoms moved by the rigid motion `x ↦ A x + t` -/
def moveSys (A : Mat3) (t : V3) (S : Sys) : Sys := { S with atoms := S.atoms.map (moveAtom10 A t) }

section rigid
variable (A : Mat3) (t : V3)

theorem atomAt_move_cases (l : List C10.Atom) (i : Nat) :
    (i < l.length ∧ atomAt (l.map (moveAtom10 A t)) i = moveAtom10 A t (atomAt l i))
    ∨ (l.length ≤ i ∧ atomAt (l.map (moveAtom10 A t)) i = default ∧ atomAt l i = default) := by
  unfold atomAt
  by_cases h : i < l.length
  · left
    refine ⟨h, ?_⟩
    rw [List.getD_eq_getElem?_getD, List.getD_eq_getElem?_getD, List.getElem?_map, List.getElem?_eq_getElem h]
    rfl
  · right
    have h' : l.length ≤ i := Nat.le_of_not_lt h
    refine ⟨h', ?_, ?_⟩
    · rw [List.getD_eq_getElem?_getD, List.getElem?_eq_none (by simpa using h')]; rfl
    · rw [List.getD_eq_getElem?_getD, List.getElem?_eq_none h']; rfl

/-- anything that does not read the coordinates sees the same atom -/
theorem atomAt_move_proj {β : Type} (g : C10.Atom → β) (hg : ∀ a, g (moveAtom10 A t a) = g a)
    (l : List C10.Atom) (i : Nat) : g (atomAt (l.map (moveAtom10 A t)) i) = g (atomAt l i) := by
  rcases atomAt_move_cases A t l i with ⟨_, h⟩ | ⟨_, h1, h2⟩
  · rw [h, hg]
  · rw [h1, h2]

theorem keyAt_move (l : List C10.Atom) (i : Nat) : keyAt (l.map (moveAtom10 A t)) i = keyAt l i := by
  unfold keyAt
  exact atomAt_move_proj A t (β := ResKey) C10.Atom.key (fun _ => rfl) l i

theorem name_move (l : List C10.Atom) (i : Nat) :
    (atomAt (l.map (moveAtom10 A t)) i).name = (atomAt l i).name :=
  atomAt_move_proj A t (β := Option String) (fun a => a.name) (fun _ => rfl) l i

theorem element_move (l : List C10.Atom) (i : Nat) :
    (atomAt (l.map (moveAtom10 A t)) i).element = (atomAt l i).element :=
  atomAt_move_proj A t (β := Option String) (fun a => a.element) (fun _ => rfl) l i

theorem isH_move (l : List C10.Atom) (i : Nat) :
    isH (atomAt (l.map (moveAtom10 A t)) i) = isH (atomAt l i) :=
  atomAt_move_proj A t (β := Bool) isH (fun _ => rfl) l i

theorem resKeys_move (l : List C10.Atom) : resKeys (l.map (moveAtom10 A t)) = resKeys l := by
  unfold resKeys
  rw [List.map_map]
  rfl

theorem members_move (l : List C10.Atom) (k : ResKey) : members (l.map (moveAtom10 A t)) k = members l k := by
  unfold members
  rw [List.length_map]
  simp only [keyAt_move]

theorem serial_move (l : List C10.Atom) (i : Nat) : serial (l.map (moveAtom10 A t)) i = serial l i := by
  unfold serial
  rw [resKeys_move, keyAt_move]

theorem namePass_move (l : List C10.Atom) (ff : FF) (k : ResKey) :
    namePass (l.map (moveAtom10 A t)) ff k = namePass l ff k := by
  unfold namePass
  rw [members_move]
  have hd : hasDupName (l.map (moveAtom10 A t)) (members l k) = hasDupName l (members l k) := by
    unfold hasDupName
    simp only [name_move]
  have hm : ∀ b, mapPair (l.map (moveAtom10 A t)) (members l k) b = mapPair l (members l k) b := by
    intro b
    funext e
    unfold mapPair lookupName
    simp only [name_move]
  rw [hd]
  simp only [hm]

theorem dist2_move (hA : A.IsOrtho) (l : List C10.Atom) (u v : Nat) (hu : u < l.length) (hv : v < l.length) :
    C10.dist2 (atomAt (l.map (moveAtom10 A t)) u) (atomAt (l.map (moveAtom10 A t)) v)
      = C10.dist2 (atomAt l u) (atomAt l v) := by
  rcases atomAt_move_cases A t l u with ⟨_, h1⟩ | ⟨h, _⟩
  · rcases atomAt_move_cases A t l v with ⟨_, h2⟩ | ⟨h, _⟩
    · rw [h1, h2, bond_distance_rigid_invariant A hA]
    · omega
  · omega

theorem eligible_move (S : Sys) (inN : Nat → Bool) (i : Nat) :
    eligible (moveSys A t S) inN i = eligible S inN i := by
  unfold eligible moveSys
  simp only [element_move]

theorem maxRadius_move (S : Sys) (inN : Nat → Bool) : maxRadius (moveSys A t S) inN = maxRadius S inN := by
  unfold maxRadius
  have : (moveSys A t S).atoms.length = S.atoms.length := by simp [moveSys]
  rw [this]
  have he : eligible (moveSys A t S) inN = eligible S inN := funext (eligible_move A t S inN)
  rw [he]
  unfold moveSys
  simp only [element_move]

theorem distPass_move (hA : A.IsOrtho) (S : Sys) (inN : Nat → Bool) (NE : List Edge) (bonded : Nat → Nat → Bool) :
    distPass (moveSys A t S) inN NE bonded = distPass S inN NE bonded := by
  unfold distPass
  have hl : (moveSys A t S).atoms.length = S.atoms.length := by simp [moveSys]
  rw [hl]
  apply List.filter_congr
  intro e he
  obtain ⟨h1, h2⟩ := mem_allPairs.mp he
  have hd := dist2_move A t hA S.atoms e.1 e.2 (by omega) h2
  have hcut : inCut (moveSys A t S) inN e.1 e.2 = inCut S inN e.1 e.2 := by
    unfold inCut
    rw [maxRadius_move]
    show within S.p S.q _ _ (C10.dist2 (atomAt (S.atoms.map (moveAtom10 A t)) e.1)
      (atomAt (S.atoms.map (moveAtom10 A t)) e.2)) = _
    rw [hd]
  have hcrit : crit (moveSys A t S) NE e.1 e.2 = crit S NE e.1 e.2 := by
    unfold crit
    show (match radiusOf S.radii (atomAt (S.atoms.map (moveAtom10 A t)) e.1).element,
        radiusOf S.radii (atomAt (S.atoms.map (moveAtom10 A t)) e.2).element with
      | some ra, some rb =>
        !(has NE e.1 e.2)
        && !(isH (atomAt (S.atoms.map (moveAtom10 A t)) e.1) && isH (atomAt (S.atoms.map (moveAtom10 A t)) e.2))
        && !(serial (S.atoms.map (moveAtom10 A t)) e.1 != serial (S.atoms.map (moveAtom10 A t)) e.2
              && (isH (atomAt (S.atoms.map (moveAtom10 A t)) e.1) || isH (atomAt (S.atoms.map (moveAtom10 A t)) e.2)))
        && within S.p S.q ra rb (C10.dist2 (atomAt (S.atoms.map (moveAtom10 A t)) e.1)
              (atomAt (S.atoms.map (moveAtom10 A t)) e.2))
      | _, _ => false) = _
    rw [hd]
    simp only [element_move, isH_move, serial_move]
    rfl
  rw [eligible_move, eligible_move, hcut, hcrit]

theorem bondedIn_move (S : Sys) (st : St) : bondedIn (moveSys A t S) st = bondedIn S st := rfl

theorem stepRes_move (hA : A.IsOrtho) (S : Sys) (st : St) (k : ResKey) :
    stepRes (moveSys A t S) st k = stepRes S st k := by
  unfold stepRes
  rw [distPass_move A t hA, bondedIn_move]
  have h1 : (moveSys A t S).allowName = S.allowName := rfl
  have h2 : (moveSys A t S).allowDist = S.allowDist := rfl
  have h3 : namePass (moveSys A t S).atoms (moveSys A t S).ff k = namePass S.atoms S.ff k :=
    namePass_move A t S.atoms S.ff k
  have h4 : (fun i => keyAt (moveSys A t S).atoms i == k) = (fun i => keyAt S.atoms i == k) := by
    funext i
    show (keyAt (S.atoms.map (moveAtom10 A t)) i == k) = _
    rw [keyAt_move]
  rw [h1, h2, h3, h4]

theorem loopRes_move (hA : A.IsOrtho) (S : Sys) : loopRes (moveSys A t S) = loopRes S := by
  unfold loopRes
  have h : stepRes (moveSys A t S) = stepRes S := by
    funext st k; exact stepRes_move A t hA S st k
  rw [h]
  show List.foldl (stepRes S) _ (resKeys (S.atoms.map (moveAtom10 A t))) = _
  rw [resKeys_move]

/-- **c10_run_rigid_invariant.**  An exact rigid motion of all atoms leaves the complete result of bond
guessing unchanged: the same name bonds, distance bonds, non-bonds and molecules. -/
theorem c10_run_rigid_invariant (hA : A.IsOrtho) (S : Sys) : run (moveSys A t S) = run S := by
  unfold run
  simp only []
  rw [loopRes_move A t hA]
  have hf : finalPass (moveSys A t S) (loopRes S) = finalPass S (loopRes S) := by
    unfold finalPass
    rw [distPass_move A t hA, bondedIn_move]
    rfl
  have hk : resKeys (moveSys A t S).atoms = resKeys S.atoms := resKeys_move A t S.atoms
  have hm : members (moveSys A t S).atoms = members S.atoms := by
    funext k; exact members_move A t S.atoms k
  rw [hf, hk, hm]
  rfl

end rigid

/-! ## non-vacuity -/

/-- `C10.exS` listed in the order 4, 2, 0, 5, 1, 3 -/
example : (reorderSys [4, 2, 0, 5, 1, 3] C10.exS).atoms =
      [C10.exAtom 1 "HX" "H" 700 3300, C10.exAtom 0 "C" "C" 700 1200, C10.exAtom 0 "N" "N" 0 0,
       C10.exAtom 1 "CX" "C" 9000 9000, C10.exAtom 0 "CA" "C" 1400 0, C10.exAtom 0 "OXT" "O" 700 2400]
    ∧ (reorderSys [4, 2, 0, 5, 1, 3] C10.exS).pre = [(2, 5)] := by decide

example : [4, 2, 0, 5, 1, 3].Perm (List.range C10.exS.atoms.length) ∧ WF C10.exS := by decide

-- the bonds of the re-ordered system: N-CA, CA-C by name, C-OXT by distance, N-OXT from the input
example : (run (reorderSys [4, 2, 0, 5, 1, 3] C10.exS)).nameE = [(2, 4), (4, 1)]
    ∧ (run (reorderSys [4, 2, 0, 5, 1, 3] C10.exS)).distE = [(1, 5)] := by decide

example : Mat3.IsOrtho ⟨(0, -1, 0), (1, 0, 0), (0, 0, 1)⟩ := by decide

example : (run (moveSys ⟨(0, -1, 0), (1, 0, 0), (0, 0, 1)⟩ (5000, -7000, 11000) C10.exS)).distE = [(2, 3)] := by
  decide

end C11
