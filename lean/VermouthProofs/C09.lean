import VermouthModel.C09
import Mathlib.Tactic.Ring
import Mathlib.Tactic.Linarith
import Mathlib.Tactic.FieldSimp
import Mathlib.Algebra.Order.Field.Basic
/-!
Helper definitions and lemmas for C09.  Everything is about the polymorphic
model functions of `VermouthModel/C09.lean` taken at an arbitrary linear
ordered field `K`.
-/
set_option linter.unusedSectionVars false

namespace C09

/-! ### specification vocabulary (not executed by the driver) -/

section vocab
variable {K : Type}

def V3.add [Add K] (p v : V3 K) : V3 K := ⟨p.x + v.x, p.y + v.y, p.z + v.z⟩

/-- `n · p` -/
def V3.dot [Add K] [Mul K] (n p : V3 K) : K := n.x * p.x + n.y * p.y + n.z * p.z

/-- a 3×3 matrix given by its rows -/
structure Mat3 (K : Type) where
  r1 : V3 K
  r2 : V3 K
  r3 : V3 K

def Mat3.apply [Add K] [Mul K] (m : Mat3 K) (p : V3 K) : V3 K := ⟨m.r1.dot p, m.r2.dot p, m.r3.dot p⟩

/-- move the position of an atom (if it has one), leave everything else -/
def Atom.move (f : V3 K → V3 K) (a : Atom K) : Atom K :=
  match a.pos with
  | some p => { a with coords := some ⟨some (f p).x, some (f p).y, some (f p).z⟩ }
  | none => a

theorem Atom.pos_move (f : V3 K → V3 K) (a : Atom K) : (a.move f).pos = a.pos.map f := by
  unfold Atom.move
  cases h : a.pos with
  | none => simp [h]
  | some p => simp [Atom.pos]

theorem Atom.key_move (f : V3 K → V3 K) (a : Atom K) : (a.move f).key = a.key := by
  unfold Atom.move; cases a.pos <;> rfl

theorem Atom.attrs_move (f : V3 K → V3 K) (a : Atom K) : (a.move f).attrs = a.attrs := by
  unfold Atom.move; cases a.pos <;> rfl

theorem Atom.move_of_none (f : V3 K → V3 K) (a : Atom K) (h : a.pos = none) : a.move f = a := by
  unfold Atom.move; simp [h]

theorem Atom.move_of_some (f : V3 K → V3 K) (a : Atom K) (p : V3 K) (h : a.pos = some p) :
    a.move f = ⟨a.key, some ⟨some (f p).x, some (f p).y, some (f p).z⟩, a.attrs⟩ := by
  unfold Atom.move; simp [h]

theorem Atom.move_move (f g : V3 K → V3 K) (a : Atom K) :
    (a.move f).move g = a.move (fun p => g (f p)) := by
  cases hp : a.pos with
  | none => rw [Atom.move_of_none f a hp, Atom.move_of_none g a hp, Atom.move_of_none _ a hp]
  | some p =>
    rw [Atom.move_of_some f a p hp, Atom.move_of_some _ a p hp]
    exact Atom.move_of_some g _ (f p) rfl

/-- the position is defined iff the attribute is there and every coordinate is finite -/
theorem Atom.pos_eq_some_iff (a : Atom K) (p : V3 K) :
    a.pos = some p ↔ a.coords = some ⟨some p.x, some p.y, some p.z⟩ := by
  unfold Atom.pos
  cases a.coords with
  | none => simp
  | some c =>
    obtain ⟨x, y, z⟩ := c
    cases x <;> cases y <;> cases z <;> simp
    · constructor
      · intro h; subst h; exact ⟨rfl, rfl, rfl⟩
      · rintro ⟨rfl, rfl, rfl⟩; rfl

/-- a missing attribute or a single non-finite coordinate: no position -/
theorem Atom.pos_eq_none_iff (a : Atom K) :
    a.pos = none ↔ (a.coords = none ∨ ∃ c, a.coords = some c ∧ (c.x = none ∨ c.y = none ∨ c.z = none)) := by
  unfold Atom.pos
  cases a.coords with
  | none => simp
  | some c =>
    obtain ⟨x, y, z⟩ := c
    cases x <;> cases y <;> cases z <;> simp

def positioned (a : Atom K) : Bool := a.pos.isSome

/-- keys of a dictionary are distinct -/
def keysNodup (tbl : List (Int × K)) : Prop := (tbl.map Prod.fst).Nodup

instance (tbl : List (Int × K)) : Decidable (keysNodup tbl) := by unfold keysNodup; infer_instance

end vocab

/-! ### association lists -/

section assoc
variable {α β : Type} [DecidableEq α]

theorem assoc_eq_none_iff (l : List (α × β)) (k : α) : assoc l k = none ↔ k ∉ l.map Prod.fst := by
  induction l with
  | nil => simp [assoc]
  | cons e r ih =>
    obtain ⟨k', v⟩ := e
    by_cases h : k' = k
    · simp [assoc, h]
    · simp only [assoc, if_neg h, ih, List.map_cons, List.mem_cons, not_or]
      constructor
      · intro hr; exact ⟨fun e => h e.symm, hr⟩
      · intro hr; exact hr.2

theorem assoc_eq_some_iff (l : List (α × β)) (hn : (l.map Prod.fst).Nodup) (k : α) (v : β) :
    assoc l k = some v ↔ (k, v) ∈ l := by
  induction l with
  | nil => simp [assoc]
  | cons e r ih =>
    obtain ⟨k', v'⟩ := e
    simp only [List.map_cons, List.nodup_cons] at hn
    by_cases h : k' = k
    · subst h
      simp only [assoc, if_true, Option.some.injEq, List.mem_cons, Prod.mk.injEq, true_and]
      constructor
      · intro e; exact Or.inl e.symm
      · rintro (e | hm)
        · exact e.symm
        · exact absurd (List.mem_map_of_mem (f := Prod.fst) hm) hn.1
    · simp only [assoc, if_neg h, ih hn.2, List.mem_cons, Prod.mk.injEq]
      constructor
      · intro hm; exact Or.inr hm
      · rintro (⟨e, _⟩ | hm)
        · exact absurd e.symm h
        · exact hm

/-- a dictionary lookup does not depend on the insertion order -/
theorem assoc_perm {l l' : List (α × β)} (hn : (l.map Prod.fst).Nodup) (hp : l.Perm l') (k : α) :
    assoc l k = assoc l' k := by
  have hn' : (l'.map Prod.fst).Nodup := (hp.map Prod.fst).nodup_iff.mp hn
  cases h : assoc l k with
  | none =>
    rw [assoc_eq_none_iff] at h
    have : k ∉ l'.map Prod.fst := fun hm => h ((hp.map Prod.fst).mem_iff.mpr hm)
    exact ((assoc_eq_none_iff l' k).mpr this).symm
  | some v =>
    rw [assoc_eq_some_iff l hn] at h
    exact ((assoc_eq_some_iff l' hn' k v).mpr (hp.mem_iff.mp h)).symm

end assoc

/-! ### sums -/

section field
variable {K : Type} [Field K] [LinearOrder K] [IsStrictOrderedRing K]

theorem wsum_perm {l l' : List (K × V3 K)} (h : l.Perm l') : wsum l = wsum l' := by
  induction h with
  | nil => rfl
  | cons a _ ih => simp only [wsum, ih]
  | swap a b l => simp only [wsum]; ring
  | trans _ _ ih1 ih2 => rw [ih1, ih2]

theorem wcsum_perm (c : V3 K → K) {l l' : List (K × V3 K)} (h : l.Perm l') : wcsum c l = wcsum c l' := by
  induction h with
  | nil => rfl
  | cons a _ ih => simp only [wcsum, ih]
  | swap a b l => simp only [wcsum]; ring
  | trans _ _ ih1 ih2 => rw [ih1, ih2]

theorem wsum_map_pos (f : V3 K → V3 K) (l : List (K × V3 K)) :
    wsum (l.map fun t => (t.1, f t.2)) = wsum l := by
  induction l with
  | nil => rfl
  | cons t r ih => simp only [List.map_cons, wsum, ih]

theorem wcsum_map_pos (c : V3 K → K) (f : V3 K → V3 K) (l : List (K × V3 K)) :
    wcsum c (l.map fun t => (t.1, f t.2)) = wcsum (fun p => c (f p)) l := by
  induction l with
  | nil => rfl
  | cons t r ih => simp only [List.map_cons, wcsum, ih]

/-- linearity of the weighted sum in the coordinate functional -/
theorem wcsum_affine (a b c d : K) (l : List (K × V3 K)) :
    wcsum (fun p => a * p.x + b * p.y + c * p.z + d) l
      = a * wcsum V3.x l + b * wcsum V3.y l + c * wcsum V3.z l + d * wsum l := by
  induction l with
  | nil => simp only [wcsum, wsum]; ring
  | cons t r ih => simp only [wcsum, wsum, ih]; ring

theorem wcsum_dot (n : V3 K) (l : List (K × V3 K)) :
    wcsum (fun p => n.dot p) l = n.x * wcsum V3.x l + n.y * wcsum V3.y l + n.z * wcsum V3.z l := by
  have := wcsum_affine n.x n.y n.z 0 l
  simp only [add_zero, zero_mul] at this
  exact this

theorem wsum_nonneg {l : List (K × V3 K)} (hw : ∀ t ∈ l, 0 ≤ t.1) : 0 ≤ wsum l := by
  induction l with
  | nil => simp [wsum]
  | cons t r ih =>
    simp only [wsum]
    have h1 := hw t (List.mem_cons_self)
    have h2 := ih (fun u hu => hw u (List.mem_cons_of_mem _ hu))
    linarith

theorem wcsum_le (c : V3 K → K) (hi : K) {l : List (K × V3 K)} (hw : ∀ t ∈ l, 0 ≤ t.1)
    (hc : ∀ t ∈ l, c t.2 ≤ hi) : wcsum c l ≤ hi * wsum l := by
  induction l with
  | nil => simp [wcsum, wsum]
  | cons t r ih =>
    simp only [wcsum, wsum]
    have h1 := hw t (List.mem_cons_self)
    have h2 := hc t (List.mem_cons_self)
    have h3 := ih (fun u hu => hw u (List.mem_cons_of_mem _ hu)) (fun u hu => hc u (List.mem_cons_of_mem _ hu))
    have h4 := mul_le_mul_of_nonneg_left h2 h1
    linarith

theorem le_wcsum (c : V3 K → K) (lo : K) {l : List (K × V3 K)} (hw : ∀ t ∈ l, 0 ≤ t.1)
    (hc : ∀ t ∈ l, lo ≤ c t.2) : lo * wsum l ≤ wcsum c l := by
  induction l with
  | nil => simp [wcsum, wsum]
  | cons t r ih =>
    simp only [wcsum, wsum]
    have h1 := hw t (List.mem_cons_self)
    have h2 := hc t (List.mem_cons_self)
    have h3 := ih (fun u hu => hw u (List.mem_cons_of_mem _ hu)) (fun u hu => hc u (List.mem_cons_of_mem _ hu))
    have h4 := mul_le_mul_of_nonneg_left h2 h1
    linarith

/-! ### `small`, `mean` -/

theorem small_iff (eps s : K) : small eps s = true ↔ |s| < eps := by
  simp only [small, Bool.and_eq_true, decide_eq_true_eq, abs_lt]

theorem mean_eq_none_iff (eps : K) (l : List (K × V3 K)) : mean eps l = none ↔ |wsum l| < eps := by
  unfold mean
  rw [← small_iff]
  split <;> simp_all

theorem mean_eq_some_iff (eps : K) (l : List (K × V3 K)) (p : V3 K) :
    mean eps l = some p ↔
      eps ≤ |wsum l| ∧ p = ⟨wcsum V3.x l / wsum l, wcsum V3.y l / wsum l, wcsum V3.z l / wsum l⟩ := by
  unfold mean
  by_cases h : small eps (wsum l) = true
  · have h' := (small_iff _ _).mp h
    simp only [h, if_true, reduceCtorEq, false_iff, not_and]
    intro h''; exact absurd h' (not_lt.mpr h'')
  · have h' : ¬ |wsum l| < eps := fun hh => h ((small_iff _ _).mpr hh)
    simp only [h, Bool.false_eq_true, if_false, Option.some.injEq]
    constructor
    · intro e; exact ⟨not_lt.mp h', e.symm⟩
    · intro e; exact e.2.symm

theorem wsum_ne_zero_of_mean {eps : K} (heps : 0 < eps) {l : List (K × V3 K)} {p : V3 K}
    (h : mean eps l = some p) : wsum l ≠ 0 := by
  intro h0
  have := ((mean_eq_some_iff eps l p).mp h).1
  rw [h0, abs_zero] at this
  exact absurd heps (not_lt.mpr this)

/-- any affine functional of the mean is the weighted mean of the functional (needs `Σ w ≠ 0`) -/
theorem affine_of_mean {eps : K} {l : List (K × V3 K)} {p : V3 K} (h : mean eps l = some p)
    (hs : wsum l ≠ 0) (a b c d : K) :
    a * p.x + b * p.y + c * p.z + d = wcsum (fun q => a * q.x + b * q.y + c * q.z + d) l / wsum l := by
  obtain ⟨_, rfl⟩ := (mean_eq_some_iff eps l p).mp h
  rw [wcsum_affine]
  field_simp

/-- a linear functional of the mean is the weighted mean of the functional (also for `Σ w = 0`) -/
theorem linear_of_mean {eps : K} {l : List (K × V3 K)} {p : V3 K} (h : mean eps l = some p) (n : V3 K) :
    n.dot p = wcsum (fun q => n.dot q) l / wsum l := by
  obtain ⟨_, rfl⟩ := (mean_eq_some_iff eps l p).mp h
  rw [wcsum_dot]
  simp only [V3.dot]
  ring

theorem mean_perm (eps : K) {l l' : List (K × V3 K)} (h : l.Perm l') : mean eps l = mean eps l' := by
  unfold mean
  rw [wsum_perm h, wcsum_perm _ h, wcsum_perm _ h, wcsum_perm _ h]

theorem mean_translate {eps : K} (heps : 0 < eps) (v : V3 K) (l : List (K × V3 K)) :
    mean eps (l.map fun t => (t.1, t.2.add v)) = (mean eps l).map (fun p => p.add v) := by
  cases h : mean eps l with
  | none =>
    have h1 := (mean_eq_none_iff _ _).mp h
    simp only [Option.map_none]
    rw [mean_eq_none_iff, wsum_map_pos (fun p => p.add v)]
    exact h1
  | some p =>
    have hs := wsum_ne_zero_of_mean heps h
    obtain ⟨h1, rfl⟩ := (mean_eq_some_iff _ _ _).mp h
    simp only [Option.map_some]
    rw [mean_eq_some_iff, wsum_map_pos (fun p => p.add v)]
    refine ⟨h1, ?_⟩
    rw [wcsum_map_pos _ (fun p => p.add v), wcsum_map_pos _ (fun p => p.add v),
      wcsum_map_pos _ (fun p => p.add v)]
    have e1 := wcsum_affine 1 0 0 v.x l
    have e2 := wcsum_affine 0 1 0 v.y l
    have e3 := wcsum_affine 0 0 1 v.z l
    simp only [one_mul, zero_mul, add_zero, zero_add] at e1 e2 e3
    simp only [V3.add, e1, e2, e3, V3.mk.injEq]
    refine ⟨?_, ?_, ?_⟩ <;> field_simp

theorem mean_linear (eps : K) (m : Mat3 K) (l : List (K × V3 K)) :
    mean eps (l.map fun t => (t.1, m.apply t.2)) = (mean eps l).map m.apply := by
  cases h : mean eps l with
  | none =>
    have h1 := (mean_eq_none_iff _ _).mp h
    simp only [Option.map_none]
    rw [mean_eq_none_iff, wsum_map_pos m.apply]
    exact h1
  | some p =>
    have hx := linear_of_mean h m.r1
    have hy := linear_of_mean h m.r2
    have hz := linear_of_mean h m.r3
    obtain ⟨h1, _⟩ := (mean_eq_some_iff _ _ _).mp h
    simp only [Option.map_some]
    rw [mean_eq_some_iff, wsum_map_pos m.apply]
    refine ⟨h1, ?_⟩
    rw [wcsum_map_pos _ m.apply, wcsum_map_pos _ m.apply, wcsum_map_pos _ m.apply]
    simp only [Mat3.apply, V3.mk.injEq]
    exact ⟨hx, hy, hz⟩

/-! ### `terms` -/

theorem terms_nil (w : Option String) (tbl : List (Int × K)) : terms w tbl ([] : List (Atom K)) = [] := rfl

theorem terms_cons_none (w : Option String) (tbl : List (Int × K)) (a : Atom K) (g : List (Atom K))
    (h : a.pos = none) : terms w tbl (a :: g) = terms w tbl g := by
  simp [terms, h]

theorem terms_cons_some (w : Option String) (tbl : List (Int × K)) (a : Atom K) (g : List (Atom K))
    (p : V3 K) (h : a.pos = some p) :
    terms w tbl (a :: g) = (atomWeight w tbl a, p) :: terms w tbl g := by
  simp [terms, h]

theorem terms_append (w : Option String) (tbl : List (Int × K)) (g1 g2 : List (Atom K)) :
    terms w tbl (g1 ++ g2) = terms w tbl g1 ++ terms w tbl g2 := by
  simp [terms, List.filterMap_append]

theorem terms_perm (w : Option String) (tbl : List (Int × K)) {g g' : List (Atom K)} (h : g.Perm g') :
    (terms w tbl g).Perm (terms w tbl g') := h.filterMap _

theorem terms_filter (w : Option String) (tbl : List (Int × K)) (g : List (Atom K)) :
    terms w tbl (g.filter positioned) = terms w tbl g := by
  induction g with
  | nil => rfl
  | cons a r ih =>
    cases h : a.pos with
    | none =>
      have : positioned a = false := by simp [positioned, h]
      rw [List.filter_cons_of_neg (by simp [this]), terms_cons_none _ _ _ _ h, ih]
    | some p =>
      have : positioned a = true := by simp [positioned, h]
      rw [List.filter_cons_of_pos this, terms_cons_some _ _ _ _ p h, terms_cons_some _ _ _ _ p h, ih]

theorem mem_terms {w : Option String} {tbl : List (Int × K)} {g : List (Atom K)} {t : K × V3 K}
    (h : t ∈ terms w tbl g) : ∃ a ∈ g, a.pos = some t.2 ∧ t.1 = atomWeight w tbl a := by
  simp only [terms, List.mem_filterMap, Option.map_eq_some_iff] at h
  obtain ⟨a, ha, p, hp, rfl⟩ := h
  exact ⟨a, ha, hp, rfl⟩

theorem terms_congr (w w' : Option String) (tbl tbl' : List (Int × K)) (g : List (Atom K))
    (h : ∀ a ∈ g, positioned a = true → atomWeight w tbl a = atomWeight w' tbl' a) :
    terms w tbl g = terms w' tbl' g := by
  induction g with
  | nil => rfl
  | cons a r ih =>
    have ihr := ih (fun b hb => h b (List.mem_cons_of_mem _ hb))
    cases hp : a.pos with
    | none => rw [terms_cons_none _ _ _ _ hp, terms_cons_none _ _ _ _ hp, ihr]
    | some p =>
      rw [terms_cons_some _ _ _ _ p hp, terms_cons_some _ _ _ _ p hp, ihr,
        h a (List.mem_cons_self) (by simp [positioned, hp])]

theorem atomWeight_move (w : Option String) (tbl : List (Int × K)) (f : V3 K → V3 K) (a : Atom K) :
    atomWeight w tbl (a.move f) = atomWeight w tbl a := by
  unfold atomWeight centerFactor
  rw [Atom.key_move, Atom.attrs_move]

theorem terms_move (w : Option String) (tbl : List (Int × K)) (f : V3 K → V3 K) (g : List (Atom K)) :
    terms w tbl (g.map (Atom.move f)) = (terms w tbl g).map (fun t => (t.1, f t.2)) := by
  induction g with
  | nil => rfl
  | cons a r ih =>
    cases hp : a.pos with
    | none =>
      have hp' : (a.move f).pos = none := by rw [Atom.pos_move, hp]; rfl
      rw [List.map_cons, terms_cons_none _ _ _ _ hp', terms_cons_none _ _ _ _ hp, ih]
    | some p =>
      have hp' : (a.move f).pos = some (f p) := by rw [Atom.pos_move, hp]; rfl
      rw [List.map_cons, terms_cons_some _ _ _ _ _ hp', terms_cons_some _ _ _ _ _ hp, ih,
        atomWeight_move, List.map_cons]

theorem atomWeight_perm (w : Option String) {tbl tbl' : List (Int × K)} (hn : keysNodup tbl)
    (hp : tbl.Perm tbl') (a : Atom K) : atomWeight w tbl a = atomWeight w tbl' a := by
  unfold atomWeight
  rw [assoc_perm hn hp]

end field
end C09
