import VermouthModel.C18_Write
/-! Helper lemmas for C18, part 10: layout of the written parameter files. -/
namespace C18

/-! ### keys -/

theorem keyed_nil {α : Type} (mt : α → Meta) : keyed mt ([] : List α) = .ok [] := rfl

theorem keyed_cons {α : Type} (mt : α → Meta) (e : α) (es : List α) :
    keyed mt (e :: es) =
      match gkeyOf (mt e) with
      | .error x => .error x
      | .ok k => match keyed mt es with
        | .error x => .error x
        | .ok r => .ok ((k, e) :: r) := rfl

/-- a successful keying lists the entries themselves, in order, each with its own key -/
theorem keyed_ok {α : Type} (mt : α → Meta) (es : List α) (r : List (GKey × α)) (h : keyed mt es = .ok r) :
    r.map (·.2) = es ∧ ∀ p ∈ r, gkeyOf (mt p.2) = .ok p.1 := by
  induction es generalizing r with
  | nil =>
    rw [keyed_nil] at h
    cases h
    exact ⟨rfl, by simp⟩
  | cons e es ih =>
    rw [keyed_cons] at h
    cases hk : gkeyOf (mt e) with
    | error x => rw [hk] at h; cases h
    | ok k =>
      rw [hk] at h
      cases hr : keyed mt es with
      | error x => rw [hr] at h; cases h
      | ok r' =>
        rw [hr] at h
        cases h
        obtain ⟨h1, h2⟩ := ih r' hr
        refine ⟨by simp [h1], ?_⟩
        intro p hp
        rcases List.mem_cons.mp hp with e' | e'
        · subst e'; exact hk
        · exact h2 p e'

/-- keying fails exactly when some entry carries both `ifdef` and `ifndef` -/
theorem gkeyOf_error_iff (m : Meta) : (∃ e, gkeyOf m = .error e) ↔ (m.ifdef.isSome ∧ m.ifndef.isSome) := by
  unfold gkeyOf
  cases m.ifdef <;> cases m.ifndef <;> simp

theorem gkeyOf_error_value (m : Meta) (e : WErr) (h : gkeyOf m = .error e) : e = .valueError := by
  unfold gkeyOf at h
  cases hd : m.ifdef <;> cases hn : m.ifndef <;> rw [hd, hn] at h <;> simp at h
  exact h.symm

theorem keyed_error {α : Type} (mt : α → Meta) (es : List α) (x : WErr) (h : keyed mt es = .error x) :
    x = .valueError ∧ ∃ e ∈ es, (mt e).ifdef.isSome ∧ (mt e).ifndef.isSome := by
  induction es with
  | nil => rw [keyed_nil] at h; cases h
  | cons e es ih =>
    rw [keyed_cons] at h
    cases hk : gkeyOf (mt e) with
    | error y =>
      rw [hk] at h
      cases h
      exact ⟨gkeyOf_error_value _ _ hk, e, by simp, (gkeyOf_error_iff _).mp ⟨_, hk⟩⟩
    | ok k =>
      rw [hk] at h
      cases hr : keyed mt es with
      | error y =>
        rw [hr] at h
        cases h
        obtain ⟨h1, e', he', h2⟩ := ih hr
        exact ⟨h1, e', List.mem_cons_of_mem _ he', h2⟩
      | ok r' => rw [hr] at h; cases h

theorem keyed_ok_of_plain {α : Type} (mt : α → Meta) (es : List α)
    (h : ∀ e ∈ es, ¬ ((mt e).ifdef.isSome ∧ (mt e).ifndef.isSome)) : ∃ r, keyed mt es = .ok r := by
  cases hr : keyed mt es with
  | ok r => exact ⟨r, rfl⟩
  | error x =>
    obtain ⟨_, e, he, h2⟩ := keyed_error mt es x hr
    exact absurd h2 (h e he)

/-! ### groupby -/

theorem groupRuns_flatten {α : Type} (l : List (GKey × α)) :
    (groupRuns l).flatMap (fun b => b.2.map (fun a => (b.1, a))) = l := by
  induction l with
  | nil => rfl
  | cons p rest ih =>
    obtain ⟨k, a⟩ := p
    simp only [groupRuns]
    cases hg : groupRuns rest with
    | nil =>
      rw [hg] at ih
      simp only [List.flatMap_nil] at ih
      simp [← ih]
    | cons b more =>
      obtain ⟨k', as⟩ := b
      rw [hg] at ih
      simp only
      split
      · rename_i hk
        subst hk
        simp only [List.flatMap_cons, List.map_cons] at ih ⊢
        rw [← ih]; rfl
      · simp only [List.flatMap_cons, List.map_cons, List.map_nil] at ih ⊢
        rw [← ih]; rfl

theorem entries_blockItems {α : Type} (b : GKey × List α) : (blockItems b).filterMap Item.entry? = b.2 := by
  obtain ⟨k, as⟩ := b
  unfold blockItems
  simp only [List.filterMap_append]
  have h3 : (as.map Item.entry).filterMap Item.entry? = as := by
    simp [List.filterMap_map, Item.entry?, Function.comp_def]
  rw [h3]
  have h2 : (if k.group = "" then [] else [Item.group (α := α) k.group]).filterMap Item.entry? = [] := by
    split <;> rfl
  rw [h2]
  cases k.cond with
  | none => rfl
  | some p => rfl

theorem entries_blocks {α : Type} (l : List (GKey × α)) :
    ((groupRuns l).flatMap blockItems).filterMap Item.entry? = l.map (·.2) := by
  have := congrArg (List.map (·.2)) (groupRuns_flatten l)
  rw [← this, List.filterMap_flatMap]
  simp only [List.map_flatMap, List.map_map, Function.comp_def]
  congr 1
  funext b
  rw [entries_blockItems]
  simp

theorem insertByKey_perm {α : Type} (x : GKey × α) (l : List (GKey × α)) : (insertByKey x l).Perm (x :: l) := by
  induction l with
  | nil => exact List.Perm.refl _
  | cons y ys ih =>
    unfold insertByKey
    split
    · exact List.Perm.refl _
    · exact ((List.Perm.cons y ih).trans (List.Perm.swap x y ys))

theorem sortByKey_perm {α : Type} (l : List (GKey × α)) : (sortByKey l).Perm l := by
  induction l with
  | nil => exact List.Perm.refl _
  | cons x xs ih => exact (insertByKey_perm x _).trans (List.Perm.cons x ih)

/-- the entries written to a parameter file are a rearrangement of the table: each once -/
theorem layout_perm {α : Type} (d : String) (mt : α → Meta) (es : List α) (items : List (Item α))
    (h : layout d mt es = .ok items) : (items.filterMap Item.entry?).Perm es := by
  unfold layout at h
  split at h
  · cases h
  · rename_i r hr
    cases h
    have hk := (keyed_ok mt es r hr).1
    simp only [List.filterMap_cons, Item.entry?]
    rw [entries_blocks, ← hk]
    exact (sortByKey_perm r).map _

/-- exact order: the stable sort by `(conditional, group)` -/
theorem layout_entries {α : Type} (d : String) (mt : α → Meta) (es : List α) (items : List (Item α))
    (h : layout d mt es = .ok items) :
    ∃ r, keyed mt es = .ok r ∧ items.filterMap Item.entry? = (sortByKey r).map (·.2) := by
  unfold layout at h
  split at h
  · cases h
  · rename_i r hr
    cases h
    refine ⟨r, hr, ?_⟩
    simp only [List.filterMap_cons, Item.entry?]
    exact entries_blocks _

/-! ### tables without conditionals and groups (what the Go pipeline emits) -/

def Meta.plain (m : Meta) : Prop := m.ifdef = none ∧ m.ifndef = none ∧ m.group = none
instance (m : Meta) : Decidable m.plain := by unfold Meta.plain; exact inferInstance

theorem gkeyOf_plain (m : Meta) (h : m.plain) : gkeyOf m = .ok ⟨none, ""⟩ := by
  obtain ⟨h1, h2, h3⟩ := h
  simp [gkeyOf, h1, h2, h3]

theorem keyed_plain {α : Type} (mt : α → Meta) (es : List α) (h : ∀ e ∈ es, (mt e).plain) :
    keyed mt es = .ok (es.map fun e => (⟨none, ""⟩, e)) := by
  induction es with
  | nil => rfl
  | cons e es ih =>
    rw [keyed_cons, gkeyOf_plain _ (h e (by simp)), ih (fun x hx => h x (List.mem_cons_of_mem _ hx))]
    rfl

theorem groupRuns_const {α : Type} (k : GKey) (es : List α) (hne : es ≠ []) :
    groupRuns (es.map fun e => (k, e)) = [(k, es)] := by
  induction es with
  | nil => exact absurd rfl hne
  | cons e es ih =>
    cases es with
    | nil => rfl
    | cons e' es' =>
      have := ih (by simp)
      simp only [List.map_cons] at this ⊢
      simp only [groupRuns] at this ⊢
      rw [this]
      simp

theorem GKey.le_refl (k : GKey) : k.le k = true := by
  unfold GKey.le
  simp only [if_true]
  unfold strLe
  generalize k.group.toList = g
  induction g with
  | nil => rfl
  | cons c g ih => simp [lexLe, ih]

theorem sortByKey_const {α : Type} (k : GKey) (es : List α) :
    sortByKey (es.map fun e => (k, e)) = es.map fun e => (k, e) := by
  induction es with
  | nil => rfl
  | cons e es ih =>
    simp only [List.map_cons, sortByKey]
    rw [ih]
    cases es with
    | nil => rfl
    | cons e' es' => simp [insertByKey, GKey.le_refl]

/-- a table without conditionals and groups is written in table order, directive first, nothing else -/
theorem layout_plain {α : Type} (d : String) (mt : α → Meta) (es : List α) (h : ∀ e ∈ es, (mt e).plain) :
    layout d mt es = .ok (Item.directive d :: es.map Item.entry) := by
  unfold layout
  rw [keyed_plain mt es h]
  simp only
  rw [sortByKey_const]
  cases es with
  | nil => rfl
  | cons e es' =>
    rw [groupRuns_const _ _ (by simp)]
    simp [blockItems]

end C18
