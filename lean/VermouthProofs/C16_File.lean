import VermouthProofs.C16_Ter
/-! Assembling the file-level round trip from its parts (any layout). -/
namespace C16

/-- `P serial atom` for the atoms of one molecule, serials counted from `start` -/
def AllSerial (P : Nat → Atom → Prop) (start : Nat) : List Atom → Prop
  | [] => True
  | a :: r => P start a ∧ AllSerial P (start + 1) r

/-- `P serial atom` for every atom of a system as `write_pdb_string` numbers it (one serial per
atom in `sorted_nodes` order, one more per TER record); every molecule has at least one atom -/
def AllSys (P : Nat → Atom → Prop) (start : Nat) : List Mol → Prop
  | [] => True
  | m :: ms => sortedNodes m ≠ [] ∧ AllSerial P start (sortedNodes m) ∧
      AllSys P (start + (sortedNodes m).length + 1) ms

def allSerialB (p : Nat → Atom → Bool) (start : Nat) : List Atom → Bool
  | [] => true
  | a :: r => p start a && allSerialB p (start + 1) r

def allSysB (p : Nat → Atom → Bool) (start : Nat) : List Mol → Bool
  | [] => true
  | m :: ms => !(sortedNodes m).isEmpty && allSerialB p start (sortedNodes m) &&
      allSysB p (start + (sortedNodes m).length + 1) ms

theorem allSerialB_iff (p : Nat → Atom → Bool) : ∀ (l : List Atom) (start : Nat),
    allSerialB p start l = true → AllSerial (fun s a => p s a = true) start l
  | [], _, _ => trivial
  | a :: r, start, h => by
      simp only [allSerialB, Bool.and_eq_true] at h
      exact ⟨h.1, allSerialB_iff p r (start + 1) h.2⟩

theorem allSysB_iff (p : Nat → Atom → Bool) : ∀ (sys : List Mol) (start : Nat),
    allSysB p start sys = true → AllSys (fun s a => p s a = true) start sys
  | [], _, _ => trivial
  | m :: ms, start, h => by
      simp only [allSysB, Bool.and_eq_true, Bool.not_eq_true', List.isEmpty_eq_false_iff] at h
      exact ⟨h.1.1, allSerialB_iff p _ _ h.1.2, allSysB_iff p ms _ h.2⟩

theorem AllSerial_mono {P Q : Nat → Atom → Prop} (h : ∀ s a, P s a → Q s a) :
    ∀ (l : List Atom) (start : Nat), AllSerial P start l → AllSerial Q start l
  | [], _, _ => trivial
  | _ :: r, start, hp => ⟨h _ _ hp.1, AllSerial_mono h r (start + 1) hp.2⟩

theorem AllSys_mono {P Q : Nat → Atom → Prop} (h : ∀ s a, P s a → Q s a) :
    ∀ (sys : List Mol) (start : Nat), AllSys P start sys → AllSys Q start sys
  | [], _, _ => trivial
  | _ :: ms, _, hp => ⟨hp.1, AllSerial_mono h _ _ hp.2.1, AllSys_mono h ms _ hp.2.2⟩

/-- the atoms a reader must return for one molecule -/
def molPAtoms (f : Nat → Atom → PAtom) (start : Nat) : List Atom → List PAtom
  | [] => []
  | a :: r => f start a :: molPAtoms f (start + 1) r

/-- the molecules a reader must return for a system -/
def expectedMols (f : Nat → Atom → PAtom) (start : Nat) : List Mol → List (List PAtom)
  | [] => []
  | m :: ms => molPAtoms f start (sortedNodes m) :: expectedMols f (start + (sortedNodes m).length + 1) ms

def molPairs (L : PdbLayout) (f : Nat → Atom → PAtom) (start : Nat) : List Atom → List (List Char × PAtom)
  | [] => []
  | a :: r => (atomLine L start a, f start a) :: molPairs L f (start + 1) r

theorem molPairs_fst (L : PdbLayout) (f : Nat → Atom → PAtom) : ∀ (l : List Atom) (start : Nat),
    (molPairs L f start l).map Prod.fst = molAtomLines L start l
  | [], _ => rfl
  | a :: r, start => by simp [molPairs, molAtomLines, molPairs_fst L f r (start + 1)]

theorem molPairs_snd (L : PdbLayout) (f : Nat → Atom → PAtom) : ∀ (l : List Atom) (start : Nat),
    (molPairs L f start l).map Prod.snd = molPAtoms f start l
  | [], _ => rfl
  | a :: r, start => by simp [molPairs, molPAtoms, molPairs_snd L f r (start + 1)]

theorem molPairs_ne_nil (L : PdbLayout) (f : Nat → Atom → PAtom) (l : List Atom) (start : Nat) (h : l ≠ []) :
    molPairs L f start l ≠ [] := by
  cases l with
  | nil => exact absurd rfl h
  | cons a r => simp [molPairs]

theorem molPairs_reads (L : PdbLayout) (excl : List (List Char)) (ignh : Bool) (f : Nat → Atom → PAtom) :
    ∀ (l : List Atom) (start : Nat),
      AllSerial (fun s a => ReadsAsAtom L excl ignh (atomLine L s a) (f s a)) start l →
      ∀ p ∈ molPairs L f start l, ReadsAsAtom L excl ignh p.1 p.2
  | [], _, _, p, hp => by cases hp
  | a :: r, start, h, p, hp => by
      simp only [molPairs, List.mem_cons] at hp
      rcases hp with hp | hp
      · subst hp; exact h.1
      · exact molPairs_reads L excl ignh f r (start + 1) h.2 p hp

/-- the groups (atom lines with the atoms they stand for, TER line) of a system of non-empty molecules -/
def groupsOf (L : PdbLayout) (f : Nat → Atom → PAtom) (start : Nat) : List Mol → List (List (List Char × PAtom) × List Char)
  | [] => []
  | m :: ms =>
    let sn := sortedNodes m
    match sn.getLast? with
    | some la => (molPairs L f start sn, terLine L (start + sn.length) la) :: groupsOf L f (start + sn.length + 1) ms
    | none => groupsOf L f (start + sn.length + 1) ms

theorem writeMols_eq_groups (L : PdbLayout) (f : Nat → Atom → PAtom) : ∀ (sys : List Mol) (start : Nat) (prev : Option Atom),
    (∀ m ∈ sys, sortedNodes m ≠ []) →
    writeMols L start prev sys = .ok (groupLines (groupsOf L f start sys))
  | [], _, _, _ => rfl
  | m :: ms, start, prev, hne => by
      have hm := hne m (by simp)
      obtain ⟨la, hla⟩ : ∃ la, (sortedNodes m).getLast? = some la := by
        cases h : (sortedNodes m).getLast? with
        | some la => exact ⟨la, rfl⟩
        | none => exact absurd (List.getLast?_eq_none_iff.mp h) hm
      have ih := writeMols_eq_groups L f ms (start + (sortedNodes m).length + 1) (some la)
        (fun m' hm' => hne m' (by simp [hm']))
      simp only [writeMols, groupsOf, hla, ih, bind, Except.bind, pure, Except.pure, groupLines,
        List.flatMap_cons, molPairs_fst]

theorem groupsOf_mols (L : PdbLayout) (f : Nat → Atom → PAtom) : ∀ (sys : List Mol) (start : Nat),
    (∀ m ∈ sys, sortedNodes m ≠ []) →
    (groupsOf L f start sys).map (fun g => g.1.map Prod.snd) = expectedMols f start sys
  | [], _, _ => rfl
  | m :: ms, start, hne => by
      have hm := hne m (by simp)
      obtain ⟨la, hla⟩ : ∃ la, (sortedNodes m).getLast? = some la := by
        cases h : (sortedNodes m).getLast? with
        | some la => exact ⟨la, rfl⟩
        | none => exact absurd (List.getLast?_eq_none_iff.mp h) hm
      simp only [groupsOf, hla, expectedMols, List.map_cons, molPairs_snd,
        groupsOf_mols L f ms _ (fun m' hm' => hne m' (by simp [hm']))]

theorem AllSys_nonempty {P : Nat → Atom → Prop} : ∀ (sys : List Mol) (start : Nat), AllSys P start sys →
    ∀ m ∈ sys, sortedNodes m ≠ []
  | [], _, _, m, hm => by cases hm
  | m0 :: ms, start, h, m, hm => by
      rcases List.mem_cons.mp hm with rfl | hm
      · exact h.1
      · exact AllSys_nonempty ms _ h.2.2 m hm

theorem groupsOf_ok (L : PdbLayout) (excl : List (List Char)) (ignh : Bool) (f : Nat → Atom → PAtom)
    (hter : ∀ s a, ReadsAsFinish L excl ignh (terLine L s a)) :
    ∀ (sys : List Mol) (start : Nat),
      AllSys (fun s a => ReadsAsAtom L excl ignh (atomLine L s a) (f s a)) start sys →
      ∀ g ∈ groupsOf L f start sys, g.1 ≠ [] ∧ (∀ p ∈ g.1, ReadsAsAtom L excl ignh p.1 p.2) ∧
        ReadsAsFinish L excl ignh g.2
  | [], _, _, g, hg => by cases hg
  | m :: ms, start, h, g, hg => by
      obtain ⟨la, hla⟩ : ∃ la, (sortedNodes m).getLast? = some la := by
        cases h' : (sortedNodes m).getLast? with
        | some la => exact ⟨la, rfl⟩
        | none => exact absurd (List.getLast?_eq_none_iff.mp h') h.1
      simp only [groupsOf, hla, List.mem_cons] at hg
      rcases hg with hg | hg
      · subst hg
        exact ⟨molPairs_ne_nil L f _ _ h.1, molPairs_reads L excl ignh f _ _ h.2.1, hter _ _⟩
      · exact groupsOf_ok L excl ignh f hter ms _ h.2.2 g hg

/-- the reader stores `line` for `do_conect` -/
def ReadsAsConect (L : PdbLayout) (excl : List (List Char)) (ignh : Bool) (line : List Char) : Prop :=
  ∀ st, pdbStep L excl ignh st line = .ok { st with conects := line :: st.conects }

theorem pdbFold_conects (L : PdbLayout) (excl : List (List Char)) (ignh : Bool) :
    ∀ (cons : List (List Char)) (st : PState), (∀ l ∈ cons, ReadsAsConect L excl ignh l) →
      pdbFold L excl ignh st cons = .ok { st with conects := cons.reverse ++ st.conects }
  | [], st, _ => rfl
  | l :: cons, st, h => by
      simp only [pdbFold]
      rw [h l (by simp) st]
      show pdbFold L excl ignh _ cons = _
      rw [pdbFold_conects L excl ignh cons _ (fun l' hl' => h l' (by simp [hl']))]
      simp

/-- the reader on: molecules (atom lines + TER), then CONECT lines, then END -/
theorem readPdb_groups_conects (L : PdbLayout) (excl : List (List Char)) (ignh : Bool)
    (groups : List (List (List Char × PAtom) × List Char)) (cons : List (List Char)) (endl : List Char)
    (h : ∀ g ∈ groups, g.1 ≠ [] ∧ (∀ p ∈ g.1, ReadsAsAtom L excl ignh p.1 p.2) ∧ ReadsAsFinish L excl ignh g.2)
    (hcon : ∀ l ∈ cons, ReadsAsConect L excl ignh l) (hend : ReadsAsFinish L excl ignh endl) :
    readPdb L excl ignh (groupLines groups ++ cons ++ [endl]) =
      match doConect L ((groups.map fun g => g.1.map Prod.snd).map idTable) cons with
      | .ok b => .ok ⟨groups.map fun g => g.1.map Prod.snd, b⟩
      | .error e => .error e := by
  have hfin : ∀ st : PState, st.active = [] → st.finish = st := by
    intro st h; unfold PState.finish; simp [h]
  unfold readPdb
  rw [List.append_assoc, pdbFold_append, pdbFold_groups L excl ignh groups ⟨[], [], []⟩ rfl h]
  simp only []
  rw [pdbFold_append, pdbFold_conects L excl ignh cons _ hcon]
  simp only [pdbFold]
  rw [hend, hfin _ rfl]
  simp only [bind, Except.bind, pure, Except.pure]
  rw [hfin _ rfl]
  simp only [List.append_nil, List.reverse_reverse]
  cases doConect L (List.map idTable (List.map (fun g => List.map Prod.snd g.fst) groups)) cons <;> rfl

/-- what `PDBParser._atom` copies from the columns into the atom it keeps -/
theorem pdbAtomOfProps_keep (excl : List (List Char)) (ignh : Bool) (p : Props) (pa : PAtom)
    (h : pdbAtomOfProps excl ignh p = .ok (.keep pa)) :
    pa.atomid = p.int .atomid ∧ pa.atomname = p.str .atomname ∧ pa.altloc = p.str .altloc ∧
    pa.resname = p.str .resname ∧ pa.chain = p.str .chain ∧ pa.resid = p.int .resid ∧
    pa.icode = p.str .insertion_code ∧ pa.x = p.dec .x ∧ pa.y = p.dec .y ∧ pa.z = p.dec .z ∧
    pa.occ = p.dec .occupancy ∧ pa.temp = p.dec .temp_factor := by
  unfold pdbAtomOfProps at h
  by_cases hc : p.str .charge ≠ []
  · simp [hc, bind, Except.bind, throw, throwThe, MonadExceptOf.throw] at h
  · by_cases hn : p.isNan .x = true ∨ p.isNan .y = true ∨ p.isNan .z = true ∨ p.isNan .occupancy = true ∨
        p.isNan .temp_factor = true
    · simp [hc, hn, bind, Except.bind, throw, throwThe, MonadExceptOf.throw] at h
    · by_cases h1 : p.str .altloc ≠ [] ∧ p.str .altloc ≠ ['A']
      · by_cases he : p.str .element = []
        · cases hf : firstAlpha (p.str .atomname) <;>
            simp [hc, hn, he, hf, h1, bind, Except.bind, pure, Except.pure] at h
        · simp [hc, hn, he, h1, bind, Except.bind, pure, Except.pure] at h
      · by_cases he : p.str .element = []
        · cases hf : firstAlpha (p.str .atomname) with
          | error e => simp [hc, hn, he, hf, bind, Except.bind, pure, Except.pure] at h
          | ok c =>
            simp [hc, hn, he, hf, h1, bind, Except.bind, pure, Except.pure] at h
            split at h
            · simp at h
            · simp only [Except.ok.injEq, AtomResult.keep.injEq] at h
              subst h; simp
        · simp [hc, hn, he, h1, bind, Except.bind, pure, Except.pure] at h
          split at h
          · simp at h
          · simp only [Except.ok.injEq, AtomResult.keep.injEq] at h
            subst h; simp

theorem Props.get_of_mem (p : Props) (n : FName) (v : RVal) (hm : (n, v) ∈ p) (hnd : (p.map Prod.fst).Nodup) :
    p.get n = some v := by
  induction p with
  | nil => cases hm
  | cons e p ih =>
    simp only [List.map_cons, List.nodup_cons] at hnd
    unfold Props.get
    rcases List.mem_cons.mp hm with h | h
    · subst h; simp [List.find?]
    · have hne : e.1 ≠ n := by
        intro he
        apply hnd.1
        rw [he]
        exact List.mem_map_of_mem (f := Prod.fst) h
      have := ih h hnd.2
      unfold Props.get at this
      simp [List.find?, hne, this]

end C16
