import VermouthProofs.C01_AttrProofs
import VermouthProofs.C01_AttrRun
/-! C01 — `modifications` lists, `replace` on overlaid particles, removal of particles. -/
namespace C01
open C12

def mlookup (t : List (Int × List Nat)) (k : Int) : List Nat :=
  match t with
  | [] => []
  | (k', l) :: r => if k' = k then l else mlookup r k

theorem mlookup_modsAdd_same (t : List (Int × List Nat)) (k : Int) (id : Nat) :
    mlookup (modsAdd t k id) k = if (mlookup t k).contains id then mlookup t k else mlookup t k ++ [id] := by
  induction t with
  | nil => simp [modsAdd, mlookup]
  | cons x r ih =>
    obtain ⟨k0, l⟩ := x
    unfold modsAdd
    by_cases h : k0 = k
    · subst h; simp [mlookup]
    · simp [h, mlookup, ih]

theorem mlookup_modsAdd_ne (t : List (Int × List Nat)) (k k' : Int) (id : Nat) (h : k' ≠ k) :
    mlookup (modsAdd t k id) k' = mlookup t k' := by
  induction t with
  | nil => simp [modsAdd, mlookup, Ne.symm h]
  | cons x r ih =>
    obtain ⟨k0, l⟩ := x
    unfold modsAdd
    by_cases h0 : k0 = k
    · subst h0
      simp only [if_true, mlookup, Ne.symm h, if_false]
    · simp only [h0, if_false, mlookup, ih]

theorem mem_mlookup_modsAdd (t : List (Int × List Nat)) (k k' : Int) (id id' : Nat)
    (h : id' ∈ mlookup t k') : id' ∈ mlookup (modsAdd t k id) k' := by
  by_cases hk : k' = k
  · subst hk
    rw [mlookup_modsAdd_same]
    split
    · exact h
    · exact List.mem_append_left _ h
  · rw [mlookup_modsAdd_ne _ _ _ _ hk]; exact h

theorem self_mem_modsAdd (t : List (Int × List Nat)) (k : Int) (id : Nat) : id ∈ mlookup (modsAdd t k id) k := by
  rw [mlookup_modsAdd_same]
  split
  · rename_i h; simpa using h
  · simp

theorem nodup_mlookup_modsAdd (t : List (Int × List Nat)) (k k' : Int) (id : Nat)
    (h : (mlookup t k').Nodup) : (mlookup (modsAdd t k id) k').Nodup := by
  by_cases hk : k' = k
  · subst hk
    rw [mlookup_modsAdd_same]
    split
    · exact h
    · rename_i hc
      refine List.nodup_append.2 ⟨h, by simp, ?_⟩
      intro a ha b hb
      simp only [List.mem_singleton] at hb
      subst hb
      rintro rfl
      exact hc (by simpa using ha)
  · rw [mlookup_modsAdd_ne _ _ _ _ hk]; exact h

/-- the `modifications` lists after the node loop -/
theorem modNodes_mods (m2o : List (Int × Int)) (id : Nat) (nodes : List ModNodeX) (xm : XT × List (Int × List Nat)) :
    (∀ n ∈ nodes, ∀ k, m2o.lookup n.key = some k → id ∈ mlookup (nodes.foldl (modNodeStep m2o id) xm).2 k)
    ∧ (∀ k id', id' ∈ mlookup xm.2 k → id' ∈ mlookup (nodes.foldl (modNodeStep m2o id) xm).2 k)
    ∧ (∀ k, (mlookup xm.2 k).Nodup → (mlookup (nodes.foldl (modNodeStep m2o id) xm).2 k).Nodup)
    ∧ (∀ k, (∀ n ∈ nodes, m2o.lookup n.key ≠ some k) →
        mlookup (nodes.foldl (modNodeStep m2o id) xm).2 k = mlookup xm.2 k
        ∧ xget (nodes.foldl (modNodeStep m2o id) xm).1 k = xget xm.1 k) := by
  induction nodes generalizing xm with
  | nil => simp
  | cons n r ih =>
    simp only [List.foldl_cons]
    obtain ⟨i1, i2, i3, i4⟩ := ih (modNodeStep m2o id xm n)
    have hmono : ∀ k id', id' ∈ mlookup xm.2 k → id' ∈ mlookup (modNodeStep m2o id xm n).2 k := by
      intro k id' h
      unfold modNodeStep
      split
      · exact h
      · exact mem_mlookup_modsAdd _ _ _ _ _ h
    refine ⟨?_, ?_, ?_, ?_⟩
    · intro n' hn' k hk
      rcases List.mem_cons.1 hn' with rfl | hn'
      · apply i2
        unfold modNodeStep
        rw [hk]
        exact self_mem_modsAdd _ _ _
      · exact i1 n' hn' k hk
    · intro k id' h
      exact i2 k id' (hmono k id' h)
    · intro k h
      apply i3
      unfold modNodeStep
      split
      · exact h
      · exact nodup_mlookup_modsAdd _ _ _ _ h
    · intro k hk
      obtain ⟨j1, j2⟩ := i4 k (fun n' hn' => hk n' (List.mem_cons_of_mem _ hn'))
      have hn := hk n List.mem_cons_self
      rw [j1, j2]
      unfold modNodeStep
      split
      · exact ⟨rfl, rfl⟩
      · rename_i k0 hk0
        have hne : k ≠ k0 := by
          rintro rfl
          exact hn hk0
        refine ⟨mlookup_modsAdd_ne _ _ _ _ hne, ?_⟩
        simp only
        split <;> exact xget_xset_ne _ _ _ _ hne

/-! ### `dict.update` -/

theorem dget_dupdate (d r : AttrD) (A : String) (hnd : (r.map Prod.fst).Nodup) :
    dget (dupdate d r) A = (dget r A).orElse (fun _ => dget d A) := by
  unfold dupdate
  induction r generalizing d with
  | nil => simp [dget]
  | cons x rest ih =>
    obtain ⟨k0, v0⟩ := x
    simp only [List.map_cons, List.nodup_cons] at hnd
    simp only [List.foldl_cons]
    rw [ih _ hnd.2]
    have hcons : dget ((k0, v0) :: rest) A = if k0 = A then some v0 else dget rest A := rfl
    rw [hcons]
    by_cases h0 : k0 = A
    · subst h0
      have : dget rest k0 = none := (dget_none_iff _ _).2 hnd.1
      simp [this, dget_dsetA_same]
    · simp only [h0, if_false]
      rw [dget_dsetA_ne _ _ _ _ (Ne.symm h0)]

/-- the last node of the modification that is laid over / created as particle `k` decides its dictionary -/
theorem modNodes_last (m2o : List (Int × Int)) (id : Nat) (pre post : List ModNodeX) (n : ModNodeX) (k : Int)
    (xm : XT × List (Int × List Nat)) (hn : m2o.lookup n.key = some k)
    (hpost : ∀ n' ∈ post, m2o.lookup n'.key ≠ some k) :
    xget ((pre ++ n :: post).foldl (modNodeStep m2o id) xm).1 k
      = some (if n.isNew then n.attrs
              else dupdate ((xget (pre.foldl (modNodeStep m2o id) xm).1 k).getD []) n.replace) := by
  rw [List.foldl_append, List.foldl_cons]
  rw [((modNodes_mods m2o id post _).2.2.2 k hpost).2]
  unfold modNodeStep
  rw [hn]
  simp only
  split <;> exact xget_xset_same _ _ _

/-! ### `remove_nodes_from` -/

theorem dropNodes_spec (g : Mol) (ks : List Int) :
    (g.dropNodes ks).nodes = g.nodes.filter (fun p => !ks.contains p.1)
    ∧ (g.dropNodes ks).edges = g.edges.filter (fun e => !ks.contains e.1 && !ks.contains e.2)
    ∧ (g.dropNodes ks).inters = g.inters.filter (fun ti => !(ti.2.atoms.any (fun a => ks.contains a))) :=
  ⟨rfl, rfl, rfl⟩

end C01
