import VermouthProofs.C02_C13Steps
import VermouthProofs.C02_C13Cells
/-!
C02 ∘ C13 — the handlers of the repo reader (`_block`, `_parse_block_atom`, `_interactions`,
`parse_header`/`finalize_section`, `parse_pragma`) on the lines of the writer model.
Core Lean only.
-/
namespace C02.Repo
open C13

/-- what the proofs need to know about the extracted `METH_DICT` / `atom_idxs` (checked by `decide`
on the generated tables) -/
structure TabFacts (tab : List Entry) (idxTab : List (String × List Idx)) (tbl : List (String × Arity)) :
    Prop where
  mol : ∃ e, findEntry tab ["moleculetype"] = some e ∧ e.method = "_block"
  atoms : ∃ e, findEntry tab ["moleculetype", "atoms"] = some e ∧ e.method = "_block_atoms"
  inter : ∀ s ar, (s, ar) ∈ tbl → ∃ e, findEntry tab ["moleculetype", s] = some e ∧ e.method = "_interactions"
      ∧ ∃ idxs, idxTab.find? (fun e => e.1 = s) = some (s, idxs) ∧ idxMatch ar idxs = true
  depth : ∀ p ∈ tab.map (·.path), p.length ≤ 2
  atomsNotTop : ["atoms"] ∉ tab.map (·.path)
  interNotTop : ∀ s ar, (s, ar) ∈ tbl → [s] ∉ tab.map (·.path)

theorem findEntry_mem {tab : List Entry} {p : Path} {e : Entry} (h : findEntry tab p = some e) :
    p ∈ tab.map (·.path) := by
  unfold findEntry at h
  have h1 := List.mem_of_find?_eq_some h
  have h2 := List.find?_some h
  simp only [decide_eq_true_eq] at h2
  exact List.mem_map.mpr ⟨e, h1, h2⟩

/-! ### handlers -/

theorem dictSet_new {V : Type} (d : List (String × V)) (k : String) (v : V) (h : k ∉ d.map (·.1)) :
    dictSet d k v = d ++ [(k, v)] := by
  induction d with
  | nil => rfl
  | cons a t ih =>
    obtain ⟨k', v'⟩ := a
    simp only [List.map_cons, List.mem_cons, not_or] at h
    simp only [dictSet, List.cons_append]
    rw [if_neg (fun e => h.1 e.symm), ih h.2]

theorem hasNode_false (c : Ctx) (k : String) (h : k ∉ c.nodes.map (·.1)) : c.hasNode k = false := by
  unfold Ctx.hasNode
  rw [List.any_eq_false]
  intro n hn
  simp only [decide_eq_true_eq]
  intro e
  exact h (List.mem_map.mpr ⟨n, hn, e⟩)

variable {tab : List Entry} {idxTab : List (String × List Idx)} {tbl : List (String × Arity)}

/-- `_block`: the `[ moleculetype ]` line -/
theorem handleX_mol (F : TabFacts tab idxTab tbl) (c : RCtx) (line t a b : String)
    (hdec : (decodeMeta line).2 = t) (hsplit : C13.splitWs t = [a, b]) (hint : (pyInt? b).isSome = true) :
    handleX idxTab tab ["moleculetype"] line c
      = some { c with base := { c.base with name := some a }, nrexcl := some b } := by
  obtain ⟨e, he, hm⟩ := F.mol
  obtain ⟨v, hv⟩ := Option.isSome_iff_exists.mp hint
  have h1 : itpHandle idxTab tab ["moleculetype"] line c.base = some { c.base with name := some a } := by
    unfold itpHandle
    rw [he]
    simp only [hm, if_true, hdec, nameLine2, hsplit, hv, Option.map_some]
  unfold handleX
  rw [h1]
  simp only [he, hm, if_true, hdec, hsplit]
  rfl

/-- `_parse_block_atom`: row `k+1` of the `[ atoms ]` section -/
theorem handleX_atom (F : TabFacts tab idxTab tbl) (c : RCtx) (line t : String) (k : Nat)
    (ty ri rn an cg : String) (extra : List String)
    (hdec : (decodeMeta line).2 = t)
    (htok : tokenizeS t = some (toString (k + 1) :: ty :: ri :: rn :: an :: cg :: extra))
    (hk : c.base.nodes.map (·.1) = keysUpTo k)
    (hri : (pyInt? ri).isSome = true) (hcg : (pyInt? cg).isSome = true)
    (hextra : (extra.take 2).all pyFloatOk = true) :
    handleX idxTab tab ["moleculetype", "atoms"] line c
      = some { c with
          base := { c.base with nodes := c.base.nodes ++ [(toString k, [("atomname", JVal.str an)])] },
          rows := c.rows ++ [toString (k + 1) :: ty :: ri :: rn :: an :: cg :: extra] } := by
  obtain ⟨e, he, hm⟩ := F.atoms
  obtain ⟨v1, hv1⟩ := Option.isSome_iff_exists.mp hri
  obtain ⟨v2, hv2⟩ := Option.isSome_iff_exists.mp hcg
  have hne : ¬ ("_block_atoms" = "_block") := by decide
  have hkey : toString (((k + 1 : Nat) : Int) - 1) = toString k := by
    have : (((k + 1 : Nat) : Int) - 1) = (k : Int) := by omega
    rw [this]; rfl
  have hnode : c.base.hasNode (toString k) = false :=
    hasNode_false _ _ (by rw [hk]; exact keysUpTo_not_mem k)
  have hlt : ¬ (((k + 1 : Nat) : Int) < 1) := by omega
  have h1 : itpHandle idxTab tab ["moleculetype", "atoms"] line c.base
      = some { c.base with nodes := c.base.nodes ++ [(toString k, [("atomname", JVal.str an)])] } := by
    unfold itpHandle
    rw [he]
    simp only [hm, hne, if_false, if_true, hdec]
    unfold itpAtomLine
    simp only [htok, Option.bind_eq_bind, Option.bind_some, pyInt_toString, hlt, if_false, hkey, hnode,
      Bool.false_eq_true, hv1, hv2, hextra, Bool.not_true, Option.pure_def]
    unfold Ctx.setNode
    rw [dictSet_new _ _ _ (by rw [hk]; exact keysUpTo_not_mem k)]
  unfold handleX
  rw [h1]
  simp only [he, hm, hne, if_false, if_true, hdec, htok, Option.getD_some]

/-- `_interactions` / `_base_parser` -/
theorem handleX_inter (F : TabFacts tab idxTab tbl) (c : RCtx) (s : String) (ar : Arity)
    (hs : (s, ar) ∈ tbl) (line t : String) (pm : PMeta) (hdec : decodeMeta line = (pm, t))
    (toks : List String) (htok : tokenizeS t = some toks) (as ps : List String)
    (hsplit : C02.splitAtoms ar toks = some (as, ps)) (refs : List String)
    (href : as.mapM (itpRef c.base) = some refs) :
    handleX idxTab tab ["moleculetype", s] line c
      = some { c with base := { c.base with
          inters := c.base.inters ++ [{ sect := s, atoms := refs, params := ps, pmeta := pm }] } } := by
  obtain ⟨e, he, hm, idxs, hidx, hmatch⟩ := F.inter s ar hs
  have hn1 : ¬ ("_interactions" = "_block") := by decide
  have hn2 : ¬ ("_interactions" = "_block_atoms") := by decide
  have hsp := splitIdx_match ar idxs toks hmatch (as, ps) hsplit
  unfold splitIdx at hsp
  cases hpos : idxPositions toks.length idxs with
  | none => rw [hpos] at hsp; cases hsp
  | some pos =>
    rw [hpos] at hsp
    simp only [Option.map_some, Option.some.injEq, Prod.mk.injEq] at hsp
    have h1 : itpHandle idxTab tab ["moleculetype", s] line c.base
        = some { c.base with
            inters := c.base.inters ++ [{ sect := s, atoms := refs, params := ps, pmeta := pm }] } := by
      unfold itpHandle
      rw [he]
      simp only [hm, hn1, hn2, if_false, if_true]
      have hlast : (["moleculetype", s] : Path).getLast?.getD "" = s := by simp
      rw [hlast]
      unfold itpInteraction
      simp only [hdec, htok, Option.bind_eq_bind, Option.bind_some, hidx, Option.map_some, hpos,
        hsp.1, hsp.2, href, Option.pure_def]
    unfold handleX
    rw [h1]
    simp only [he, hm, hn1, hn2, if_false]

/-! ### the dispatcher -/

theorem itpContent_ok (P : IParams RCtx) (s : ISt RCtx) (line : String) (i0 : Nat) (c c' : RCtx)
    (hT : s.sec ∈ P.T) (hb : s.blk = some (i0, c)) (hh : P.handle s.sec line c = some c') :
    itpContent P s line = some { s with blk := some (i0, c') } := by
  unfold itpContent
  have : P.T.contains s.sec = true := by simpa using hT
  simp only [this, Bool.not_true, Bool.false_eq_true, if_false, hb, hh, Option.map_some]

/-- `[ moleculetype ]` as the first header of the file -/
theorem header_mol (P : IParams RCtx) (hT : ["moleculetype"] ∈ P.T) (i : Nat) :
    itpHeader P {} i "moleculetype" = { sec := ["moleculetype"], blk := some (i, P.fresh), blocks := [] } := by
  simp [itpHeader, nextSec, hT]

/-- `[ atoms ]` right after the `[ moleculetype ]` line -/
theorem header_atoms (P : IParams RCtx) (hT : ["moleculetype", "atoms"] ∈ P.T) (hn : ["atoms"] ∉ P.T)
    (i i0 : Nat) (c : RCtx) (bl : List (Option String × (Nat × RCtx))) :
    itpHeader P { sec := ["moleculetype"], blk := some (i0, c), blocks := bl } i "atoms"
      = { sec := ["moleculetype", "atoms"], blk := some (i0, c), blocks := dictSet bl (P.nameOf c) (i0, c) } := by
  simp [itpHeader, nextSec, reducePath, reduceRev, endedRev, itpFinalize, hT, hn]

/-- a known interaction section after `[ atoms ]` or after another interaction section -/
theorem header_inter (P : IParams RCtx) (x s : String) (hT : ["moleculetype", s] ∈ P.T) (hn : [s] ∉ P.T)
    (hd : ["moleculetype", x, s] ∉ P.T)
    (i i0 : Nat) (c : RCtx) (bl : List (Option String × (Nat × RCtx))) :
    itpHeader P { sec := ["moleculetype", x], blk := some (i0, c), blocks := bl } i s
      = (let c' := if x = "atoms" then P.atomsEnded c else c
         { sec := ["moleculetype", s], blk := some (i0, c'), blocks := dictSet bl (P.nameOf c') (i0, c') }) := by
  by_cases hx : x = "atoms"
  · subst hx
    simp [itpHeader, nextSec, reducePath, reduceRev, endedRev, itpFinalize, hT, hn, hd]
  · have hx' : ¬ ("atoms" = x) := fun e => hx e.symm
    simp [itpHeader, nextSec, reducePath, reduceRev, endedRev, itpFinalize, hT, hn, hd, hx, hx']

/-- any header that is not a top-level section: the open block survives (possibly with the
`atoms`-ended hook applied) and is registered -/
theorem header_other (P : IParams RCtx) (n : String) (hn : [n] ∉ P.T) (hm : ["moleculetype"] ∈ P.T)
    (s : ISt RCtx) (hs : s.sec ≠ []) (i i0 : Nat) (c : RCtx) (hb : s.blk = some (i0, c)) :
    ∃ c' sec', (c' = c ∨ c' = P.atomsEnded c) ∧
      itpHeader P s i n = { sec := sec', blk := some (i0, c'), blocks := dictSet s.blocks (P.nameOf c') (i0, c') } := by
  have h1 : P.T.contains [n] = false := by simpa using hn
  have hne : nextSec P.T s.sec n ≠ ["moleculetype"] := by
    intro e
    have := nextSec_eq_singleton e
    subst this
    exact hn hm
  unfold itpHeader
  simp only [h1, Bool.false_eq_true, if_false, hs, hne]
  unfold itpFinalize
  by_cases he : "atoms" ∈ endedRev P.T n s.sec.reverse
  · exact ⟨P.atomsEnded c, nextSec P.T s.sec n, Or.inr rfl, by simp [he, hb]⟩
  · exact ⟨c, nextSec P.T s.sec n, Or.inl rfl, by simp [he, hb]⟩

end C02.Repo
