import VermouthProofs.C14
import VermouthProofs.C14_Fix
/-!
Helper lemmas for C14: the whole loop of `fix_ptm` (the iterations are a rearrangement of the
groups, an iteration touches only its own groups, immutable fields).
-/
namespace C14

/-- the nodes of the residues of a key (`n_idxs`) -/
def nIdxsOf (orig : List Atom) (key : List Int) : List Int :=
  (orig.filter fun a => key.contains a.resid).map (·.key)

/-- the `annotated` snapshot: the `modifications` an atom carried in the input -/
def annotOf (orig : List Atom) : Int → List Nat :=
  fun k => ((orig.find? fun a => a.key == k).map (·.mods)).getD []

/-! ### upper bounds for what `identify_ptms` collects -/

/-- atoms and anchors of a list of groups -/
def allOf (gs : List Group) : List Int := gs.flatMap fun g => g.atoms ++ g.anchors
def atomsOf (gs : List Group) : List Int := gs.flatMap (·.atoms)

theorem atomsOf_sub_allOf {gs : List Group} {x : Int} (h : x ∈ atomsOf gs) : x ∈ allOf gs := by
  unfold atomsOf at h; unfold allOf
  obtain ⟨g, hg, hx⟩ := List.mem_flatMap.1 h
  exact List.mem_flatMap.2 ⟨g, hg, List.mem_append_left _ hx⟩

theorem usedBranch_inr {res : List Atom} {edges : List (Int × Int)} {mods : List Modif} {g : Group} :
    ∀ (us : List Nat) (cov : Cover) (known left : List Int),
      usedBranch res edges mods g us cov known = .inr left → ∀ x ∈ left, x ∈ g.atoms := by
  intro us
  induction us with
  | nil =>
    intro cov known left h x hx
    simp only [usedBranch] at h
    split at h
    · cases h
    · cases h
      exact (List.mem_filter.1 hx).1
  | cons i rest ih =>
    intro cov known left h x hx
    simp only [usedBranch] at h
    split at h
    · exact ih _ _ _ h x hx
    · cases h; exact hx

theorem identifyLoop_inl_bound {res : List Atom} {edges : List (Int × Int)} {mods : List Modif}
    {annot : Int → List Nat} :
    ∀ (gs : List Group) (cov : Cover) (tc pending : List Int) (cov' : Cover) (tc' pending' : List Int),
      identifyLoop res edges mods annot gs cov tc pending = .inl (cov', tc', pending') →
      (∀ x ∈ tc', x ∈ tc ∨ x ∈ allOf gs) ∧ (∀ x ∈ pending', x ∈ pending ∨ x ∈ atomsOf gs) := by
  intro gs
  induction gs with
  | nil =>
    intro cov tc pending cov' tc' pending' h
    simp only [identifyLoop, Sum.inl.injEq, Prod.mk.injEq] at h
    obtain ⟨_, rfl, rfl⟩ := h
    exact ⟨fun x h => Or.inl h, fun x h => Or.inl h⟩
  | cons g gs ih =>
    intro cov tc pending cov' tc' pending' h
    simp only [identifyLoop] at h
    have hall : ∀ x, x ∈ allOf gs → x ∈ allOf (g :: gs) := by
      intro x hx; unfold allOf at hx ⊢; rw [List.flatMap_cons]; exact List.mem_append_right _ hx
    have hat : ∀ x, x ∈ atomsOf gs → x ∈ atomsOf (g :: gs) := by
      intro x hx; unfold atomsOf at hx ⊢; rw [List.flatMap_cons]; exact List.mem_append_right _ hx
    split at h
    · obtain ⟨i1, i2⟩ := ih _ _ _ _ _ _ h
      constructor
      · intro x hx
        rcases i1 x hx with h1 | h1
        · rcases mem_addNew.1 h1 with h2 | h2
          · rcases mem_addNew.1 h2 with h3 | h3
            · exact Or.inl h3
            · right; unfold allOf; rw [List.flatMap_cons]
              exact List.mem_append_left _ (List.mem_append_left _ h3)
          · right; unfold allOf; rw [List.flatMap_cons]
            exact List.mem_append_left _ (List.mem_append_right _ h2)
        · exact Or.inr (hall x h1)
      · intro x hx
        rcases i2 x hx with h1 | h1
        · rcases List.mem_append.1 h1 with h2 | h2
          · exact Or.inl h2
          · right; unfold atomsOf; rw [List.flatMap_cons]; exact List.mem_append_left _ h2
        · exact Or.inr (hat x h1)
    · split at h
      · cases h
      · split at h
        · obtain ⟨i1, i2⟩ := ih _ _ _ _ _ _ h
          exact ⟨fun x hx => (i1 x hx).imp id (hall x), fun x hx => (i2 x hx).imp id (hat x)⟩
        · cases h

theorem identifyLoop_inr_bound {res : List Atom} {edges : List (Int × Int)} {mods : List Modif}
    {annot : Int → List Nat} :
    ∀ (gs : List Group) (cov : Cover) (tc pending : List Int) (rm : List Int),
      identifyLoop res edges mods annot gs cov tc pending = .inr (.keyError rm) →
      ∀ x ∈ rm, x ∈ pending ∨ x ∈ atomsOf gs := by
  intro gs
  induction gs with
  | nil => intro cov tc pending rm h; simp [identifyLoop] at h
  | cons g gs ih =>
    intro cov tc pending rm h x hx
    simp only [identifyLoop] at h
    have hat : ∀ x, x ∈ atomsOf gs → x ∈ atomsOf (g :: gs) := by
      intro x hx; unfold atomsOf at hx ⊢; rw [List.flatMap_cons]; exact List.mem_append_right _ hx
    have hg : ∀ x, x ∈ g.atoms → x ∈ atomsOf (g :: gs) := by
      intro x hx; unfold atomsOf; rw [List.flatMap_cons]; exact List.mem_append_left _ hx
    split at h
    · rcases ih _ _ _ _ h x hx with h1 | h1
      · rcases List.mem_append.1 h1 with h2 | h2
        · exact Or.inl h2
        · exact Or.inr (hg x h2)
      · exact Or.inr (hat x h1)
    · split at h
      · simp only [Sum.inr.injEq, IdRes.keyError.injEq] at h
        subst h
        rcases List.mem_append.1 hx with h1 | h1
        · rcases List.mem_append.1 h1 with h2 | h2
          · exact Or.inl h2
          · exact Or.inr (hg x h2)
        · exact Or.inr (hat x h1)
      · split at h
        · exact (ih _ _ _ _ h x hx).imp id (hat x)
        · next left hub =>
          simp only [Sum.inr.injEq, IdRes.keyError.injEq] at h
          subst h
          rcases List.mem_append.1 hx with h1 | h1
          · rcases List.mem_append.1 h1 with h2 | h2
            · exact Or.inl h2
            · exact Or.inr (hg x (usedBranch_inr _ _ _ _ hub x h2))
          · exact Or.inr (hat x h1)

/-- `identify_ptms` removes only atoms of its own groups, and its cover uses only non-PTM atoms of
the residue and atoms / anchors of its own groups -/
theorem identify_bounds (res : List Atom) (edges : List (Int × Int)) (mods : List Modif)
    (annot : Int → List Nat) (groups : List Group) (frags : List Frag) :
    match identify res edges mods annot groups frags with
    | .ok _ cov => ∀ e ∈ cov, ∀ x ∈ patoms e.2, x ∈ nonPtm res ∨ x ∈ allOf groups
    | .keyError rm => ∀ x ∈ rm, x ∈ atomsOf groups
    | .outOfFuel => True := by
  unfold identify
  cases hl : identifyLoop res edges mods annot groups [] [] [] with
  | inr r =>
    cases r with
    | keyError rm =>
      intro x hx
      rcases identifyLoop_inr_bound _ _ _ _ _ hl x hx with h | h
      · simp at h
      · exact h
    | ok u c => simp only []; exact absurd hl (by
        intro h
        obtain ⟨rm, hr, _⟩ := identifyLoop_inr _ _ _ _ _ h
        cases hr)
    | outOfFuel => trivial
  | inl x =>
    obtain ⟨cov, tc, pending⟩ := x
    obtain ⟨b1, b2⟩ := identifyLoop_inl_bound _ _ _ _ _ _ _ hl
    simp only []
    cases hc : coverGraph (nonPtm res) tc.length tc frags with
    | outOfFuel => trivial
    | keyError =>
      intro x hx
      rcases b2 x hx with h | h
      · simp at h
      · exact h
    | ok c =>
      intro e he x hx
      rcases (coverWith_exact usable_inside _ _ _ _ _ hc).inside e he x hx with h | h
      · exact Or.inl h
      · rcases b1 x h with h' | h'
        · simp at h'
        · exact Or.inr h'

/-! ### immutable fields -/

/-- key, resid and the `PTM_atom` flag never change -/
def imm (a : Atom) : Int × Int × Bool := (a.key, a.resid, a.ptm)

theorem applyPair_imm (ma : MAtom) (a : Atom) : imm (applyPair ma a) = imm a := rfl

theorem updAtom_imm (atoms : List Atom) (k : Int) (f : Atom → Atom) (hf : ∀ a, imm (f a) = imm a) :
    (updAtom atoms k f).map imm = atoms.map imm := by
  unfold updAtom
  rw [List.map_map]
  apply List.map_congr_left
  intro a _
  simp only [Function.comp]
  split
  · exact hf a
  · rfl

theorem applyPlacement_imm (md : Modif) (p : Placement) (atoms : List Atom) :
    (applyPlacement md p atoms).map imm = atoms.map imm := by
  unfold applyPlacement
  induction p generalizing atoms with
  | nil => rfl
  | cons q p ih =>
    simp only [List.foldl_cons]
    rw [ih]
    split
    · exact updAtom_imm _ _ _ (applyPair_imm _)
    · rfl

theorem labelAtom_imm (i : Nat) (a : Atom) : imm (labelAtom i a) = imm a := by
  unfold labelAtom; split <;> rfl

theorem applyOne_imm (mods : List Modif) (nIdxs : List Int) (atoms : List Atom) (c : Nat × Placement) :
    (applyOne mods nIdxs atoms c).map imm = atoms.map imm := by
  unfold applyOne
  rw [List.map_map, ← applyPlacement_imm (modAt mods c.1) c.2 atoms]
  apply List.map_congr_left
  intro a _
  simp only [Function.comp]
  split
  · exact labelAtom_imm _ _
  · rfl

theorem foldl_applyOne_imm (mods : List Modif) (nIdxs : List Int) (cs : Cover) (atoms : List Atom) :
    (cs.foldl (applyOne mods nIdxs) atoms).map imm = atoms.map imm := by
  induction cs generalizing atoms with
  | nil => rfl
  | cons c cs ih =>
    simp only [List.foldl_cons]
    rw [ih, applyOne_imm]

/-! ### groupby and the sorted list of groups -/

theorem groupRuns_flatten (l : List (List Int × Group)) :
    (groupRuns l).flatMap (·.2) = l.map (·.2) := by
  induction l with
  | nil => rfl
  | cons x rest ih =>
    obtain ⟨k, g⟩ := x
    simp only [groupRuns]
    split
    · next k' gs more heq =>
      rw [heq] at ih
      simp only [List.flatMap_cons] at ih
      split
      · simp only [List.flatMap_cons, List.map_cons, List.cons_append]
        rw [← ih]
      · simp only [List.flatMap_cons, List.map_cons, List.cons_append, List.nil_append]
        rw [← ih]
    · next heq =>
      rw [heq] at ih
      simp only [List.flatMap_nil] at ih
      simp [← ih]

def groupsOf (m : Mol) : List Group :=
  (findPtmGroups m).map fun g => ({ atoms := g.1, anchors := g.2 } : Group)

/-- every group is handled in exactly one iteration: the groups of all iterations, concatenated, are
a rearrangement of the groups -/
theorem iterations_perm (m : Mol) : ((iterations m).flatMap (·.2)).Perm (groupsOf m) := by
  unfold iterations
  simp only []
  rw [groupRuns_flatten]
  refine (List.Perm.map _ (List.mergeSort_perm _ _)).trans ?_
  rw [List.map_map]
  unfold groupsOf
  have : ((fun x : List Int × Group => x.2) ∘ fun g => (groupKey m g, g)) = id := rfl
  rw [this, List.map_id]

/-! ### the loop state -/

def coverOf (l : IterLog) : Cover :=
  match l.result with
  | some (_, c) => c
  | none => []

/-- in how many placements chosen by the cover search, over the whole run, is atom `a`? -/
def countIn (log : List IterLog) (a : Int) : Nat :=
  (log.flatMap coverOf).countP fun e => (patoms e.2).contains a

/-- key, resid and PTM flag of the atoms still present are those of the input -/
def Inv (orig : List Atom) (s : St) : Prop := (s.mol.atoms.map imm).Sublist (orig.map imm)

/-- `s'` is a later state than `s`: atoms only disappear, `modifications` only grow, warnings and
log entries are only appended -/
structure Later (s s' : St) : Prop where
  atoms : ∀ b ∈ s'.mol.atoms, ∃ b0 ∈ s.mol.atoms, b0.key = b.key ∧ ∀ i ∈ b0.mods, i ∈ b.mods
  warns : ∀ w ∈ s.warnings, w ∈ s'.warnings
  log : ∃ ext, s'.log = s.log ++ ext

theorem Later.refl (s : St) : Later s s :=
  ⟨fun b hb => ⟨b, hb, rfl, fun i h => h⟩, fun w h => h, ⟨[], by simp⟩⟩

theorem Later.trans {s1 s2 s3 : St} (h1 : Later s1 s2) (h2 : Later s2 s3) : Later s1 s3 := by
  refine ⟨?_, fun w h => h2.warns w (h1.warns w h), ?_⟩
  · intro b hb
    obtain ⟨b2, hb2, hk2, hm2⟩ := h2.atoms b hb
    obtain ⟨b1, hb1, hk1, hm1⟩ := h1.atoms b2 hb2
    exact ⟨b1, hb1, hk1.trans hk2, fun i hi => hm2 i (hm1 i hi)⟩
  · obtain ⟨e1, he1⟩ := h1.log
    obtain ⟨e2, he2⟩ := h2.log
    exact ⟨e1 ++ e2, by rw [he2, he1, List.append_assoc]⟩

theorem eq_of_key_eq {l : List Atom} (h : (l.map (·.key)).Nodup) {x y : Atom} (hx : x ∈ l) (hy : y ∈ l)
    (hk : x.key = y.key) : x = y := by
  induction l with
  | nil => simp at hx
  | cons z l ih =>
    rw [List.map_cons, List.nodup_cons] at h
    rcases List.mem_cons.1 hx with rfl | hx' <;> rcases List.mem_cons.1 hy with rfl | hy'
    · rfl
    · exact absurd (List.mem_map.2 ⟨y, hy', hk.symm⟩) h.1
    · exact absurd (List.mem_map.2 ⟨x, hx', hk⟩) h.1
    · exact ih h.2 hx' hy'

/-- a flagged atom of the input is never among the non-PTM atoms of a residue -/
theorem flagged_not_nonPtm {orig : List Atom} (horig : (orig.map (·.key)).Nodup) {s : St} (hinv : Inv orig s)
    {a0 : Atom} (ha0 : a0 ∈ orig) (hp : a0.ptm = true) (q : Atom → Bool) :
    a0.key ∉ nonPtm (s.mol.atoms.filter q) := by
  intro h
  unfold nonPtm at h
  obtain ⟨b, hb, hkb⟩ := List.mem_map.1 h
  obtain ⟨hb1, hb2⟩ := List.mem_filter.1 hb
  have hb3 : b ∈ s.mol.atoms := (List.mem_filter.1 hb1).1
  have : imm b ∈ orig.map imm := hinv.subset (List.mem_map.2 ⟨b, hb3, rfl⟩)
  obtain ⟨b0, hb0, hib⟩ := List.mem_map.1 this
  have hk : b0.key = a0.key := (congrArg Prod.fst hib).trans hkb
  have : b0 = a0 := eq_of_key_eq horig hb0 ha0 hk
  subst this
  have hpt : b0.ptm = b.ptm := congrArg (fun x => x.2.2) hib
  rw [hp] at hpt
  simp [← hpt] at hb2

theorem identify_fuel (res : List Atom) (edges : List (Int × Int)) (mods : List Modif)
    (annot : Int → List Nat) (groups : List Group) (frags : List Frag) :
    identify res edges mods annot groups frags ≠ .outOfFuel := by
  intro h
  unfold identify at h
  cases hl : identifyLoop res edges mods annot groups [] [] [] with
  | inr r =>
    rw [hl] at h
    simp only [] at h
    subst h
    obtain ⟨rm, hr, _⟩ := identifyLoop_inr _ _ _ _ _ hl
    cases hr
  | inl x =>
    obtain ⟨cov, tc, pending⟩ := x
    rw [hl] at h
    simp only [] at h
    cases hc : coverGraph (nonPtm res) tc.length tc frags with
    | outOfFuel => exact coverWith_fuel usable_progress _ _ _ _ (Nat.le_refl _) hc
    | keyError => rw [hc] at h; cases h
    | ok c => rw [hc] at h; cases h

/-- the `PTM_atom` flag read from a later state is the one of the input -/
theorem isFlagged_eq {orig : List Atom} (horig : (orig.map (·.key)).Nodup) {s : St} (hinv : Inv orig s)
    {a0 : Atom} (ha0 : a0 ∈ orig) (hin : a0.key ∈ s.mol.keys) : isFlagged s.mol a0.key = a0.ptm := by
  unfold isFlagged Mol.atom?
  cases hf : s.mol.atoms.find? (fun a => a.key == a0.key) with
  | none =>
    exfalso
    obtain ⟨b, hb, hkb⟩ := List.mem_map.1 hin
    have := List.find?_eq_none.1 hf b hb
    simp [hkb] at this
  | some b =>
    have hb : b ∈ s.mol.atoms := List.mem_of_find?_eq_some hf
    have hkb : b.key = a0.key := by simpa using List.find?_some hf
    have : imm b ∈ orig.map imm := hinv.subset (List.mem_map.2 ⟨b, hb, rfl⟩)
    obtain ⟨b0, hb0, hib⟩ := List.mem_map.1 this
    have hk : b0.key = a0.key := (congrArg Prod.fst hib).trans hkb
    have : b0 = a0 := eq_of_key_eq horig hb0 ha0 hk
    subst this
    exact (congrArg (fun x => x.2.2) hib).symm

/-- one iteration: frame facts -/
theorem step_frame (mods : List Modif) (orig : List Atom) (s : St) (key : List Int)
    (groups : List Group) (given : List (List Placement)) (hinv : Inv orig s) :
    let nIdxs := (orig.filter fun a => key.contains a.resid).map (·.key)
    let res := s.mol.atoms.filter fun a => nIdxs.contains a.key
    ∃ s' : St, step mods orig s key groups given = .done s' ∧ Inv orig s' ∧ Later s s' ∧
      ((∃ (rm : List Int) (l : IterLog), s'.log = s.log ++ [l] ∧ l.result = none ∧ l.key = key
          ∧ (∀ a, a ∈ s'.mol.keys ↔ a ∈ s.mol.keys ∧ a ∉ rm)
          ∧ ∀ x ∈ rm, x ∈ atomsOf groups)
      ∨ (∃ used cov l, s'.log = s.log ++ [l] ∧ l.result = some (used, cov) ∧ l.key = key
          ∧ s'.mol.keys = s.mol.keys
          ∧ ∀ e ∈ cov, ∀ x ∈ patoms e.2, x ∈ nonPtm res ∨ x ∈ allOf groups)) := by
  intro nIdxs res
  let annot : Int → List Nat := fun k => ((orig.find? fun a => a.key == k).map (·.mods)).getD []
  have hb := identify_bounds res (induced (res.map (·.key)) s.mol.edges) mods annot groups
    ((allowed res (induced (res.map (·.key)) s.mol.edges) mods).zip given)
  have hfuel := identify_fuel res (induced (res.map (·.key)) s.mol.edges) mods annot groups
    ((allowed res (induced (res.map (·.key)) s.mol.edges) mods).zip given)
  unfold step
  simp only []
  cases hid : identify res (induced (res.map (·.key)) s.mol.edges) mods annot groups
      ((allowed res (induced (res.map (·.key)) s.mol.edges) mods).zip given) with
  | outOfFuel => exact absurd hid hfuel
  | keyError rm =>
    rw [hid] at hb
    refine ⟨_, rfl, ?_, ?_, Or.inl ⟨rm.filter (isFlagged s.mol), _, rfl, rfl, rfl,
      mem_removeAtoms_keys s.mol _, fun x hx => hb x (List.mem_filter.1 hx).1⟩⟩
    · unfold Inv removeAtoms
      exact ((List.filter_sublist).map imm).trans hinv
    · refine ⟨?_, fun w h => List.mem_append_left _ h, ⟨_, rfl⟩⟩
      intro b hb'
      exact ⟨b, (List.mem_filter.1 hb').1, rfl, fun i h => h⟩
  | ok used cov =>
    rw [hid] at hb
    refine ⟨_, rfl, ?_, ?_, Or.inr ⟨used, cov, _, rfl, rfl, rfl, ?_, hb⟩⟩
    · unfold Inv
      simp only []
      rw [foldl_applyOne_imm]
      exact hinv
    · refine ⟨?_, fun w h => h, ⟨_, rfl⟩⟩
      intro b hb'
      obtain ⟨b0, h0, hk, hm, _⟩ := foldl_applyOne_spec mods nIdxs (used ++ cov) s.mol.atoms hb'
      exact ⟨b0, h0, hk, hm⟩
    · exact foldl_applyOne_keys mods nIdxs (used ++ cov) s.mol.atoms

theorem countIn_append (log ext : List IterLog) (a : Int) :
    countIn (log ++ ext) a = countIn log a + countIn ext a := by
  unfold countIn
  rw [List.flatMap_append, List.countP_append]

theorem countIn_single (l : IterLog) (a : Int) :
    countIn [l] a = (coverOf l).countP fun e => (patoms e.2).contains a := by
  unfold countIn
  simp

theorem coverOf_none {l : IterLog} (h : l.result = none) : coverOf l = [] := by
  unfold coverOf; rw [h]

theorem coverOf_some {l : IterLog} {u c : Cover} (h : l.result = some (u, c)) : coverOf l = c := by
  unfold coverOf; rw [h]

/-- iterations whose groups do not mention the flagged atom `a0` (neither as atom nor as anchor)
leave it alone: it is neither removed nor placed -/
theorem runIters_other (mods : List Modif) (orig : List Atom) (horig : (orig.map (·.key)).Nodup)
    {a0 : Atom} (ha0 : a0 ∈ orig) (hp : a0.ptm = true) :
    ∀ (its : List (List Int × List Group)) (s : St) (given : List (List (List Placement))),
      Inv orig s → (∀ it ∈ its, a0.key ∉ allOf it.2) →
      ∃ s' : St, runIters mods orig s its given = .done s' ∧ Inv orig s' ∧ Later s s'
        ∧ (a0.key ∈ s'.mol.keys ↔ a0.key ∈ s.mol.keys) ∧ countIn s'.log a0.key = countIn s.log a0.key := by
  intro its
  induction its with
  | nil =>
    intro s given hinv _
    exact ⟨s, rfl, hinv, Later.refl s, Iff.rfl, rfl⟩
  | cons it its ih =>
    intro s given hinv hnot
    obtain ⟨key, groups⟩ := it
    have hn0 : a0.key ∉ allOf groups := hnot (key, groups) (by simp)
    obtain ⟨s1, hs1, hinv1, hl1, hcase⟩ := step_frame mods orig s key groups (given.headD []) hinv
    obtain ⟨s2, hs2, hinv2, hl2, hk2, hc2⟩ := ih s1 given.tail hinv1 (fun it hit => hnot it (by simp [hit]))
    refine ⟨s2, by simp only [runIters, hs1, hs2], hinv2, hl1.trans hl2, ?_, ?_⟩
    · rw [hk2]
      rcases hcase with ⟨rm, l, _, _, _, h4, h5⟩ | ⟨u, c, l, _, _, _, h4, _⟩
      · rw [h4]
        constructor
        · exact fun h => h.1
        · exact fun h => ⟨h, fun hr => hn0 (atomsOf_sub_allOf (h5 _ hr))⟩
      · rw [h4]
    · rw [hc2]
      rcases hcase with ⟨rm, l, h1, h2, _, _, _⟩ | ⟨u, c, l, h1, h2, _, _, h5⟩
      · rw [h1, countIn_append, countIn_single, coverOf_none h2]
        simp
      · rw [h1, countIn_append, countIn_single, coverOf_some h2]
        have : c.countP (fun e => (patoms e.2).contains a0.key) = 0 := by
          rw [List.countP_eq_zero]
          intro e he hcon
          have hmem : a0.key ∈ patoms e.2 := by simpa using hcon
          rcases h5 e he _ hmem with h | h
          · exact flagged_not_nonPtm horig hinv ha0 hp _ h
          · exact hn0 h
        omega

/-! ### `identify_ptms` (restated as `identify_spec` in the property file) -/

theorem countP_le_one_of_pairwise {α} {l : List α} {q : α → Bool}
    (h : l.Pairwise fun x y => ¬ (q x = true ∧ q y = true)) : l.countP q ≤ 1 := by
  induction l with
  | nil => simp
  | cons x l ih =>
    rw [List.pairwise_cons] at h
    rw [List.countP_cons]
    by_cases hx : q x = true
    · have : l.countP q = 0 := by
        rw [List.countP_eq_zero]
        intro y hy hqy
        exact h.1 y hy ⟨hx, hqy⟩
      simp [hx, this]
    · have := ih h.2
      simp [hx]; omega

theorem cover_exact_count_aux (np : List Int) (n : Nat) (tc : List Int) (frs : List Frag) (c : Cover)
    (h : coverGraph np n tc frs = .ok c) (a : Int) (ha : a ∈ tc) (hp : a ∉ np) :
    c.countP (fun e => (patoms e.2).contains a) = 1 := by
  have x := coverWith_exact usable_inside np n tc frs c h
  have h1 := x.covers
  have h2 := x.disjoint
  have hle : c.countP (fun e => (patoms e.2).contains a) ≤ 1 := by
    apply countP_le_one_of_pairwise
    refine h2.imp ?_
    intro e e' hee ⟨he, he'⟩
    exact hp (hee a (by simpa using he) (by simpa using he'))
  have hpos : 0 < c.countP (fun e => (patoms e.2).contains a) := by
    rw [List.countP_pos_iff]
    obtain ⟨e, he, hae⟩ := h1 a ha
    exact ⟨e, he, by simpa using hae⟩
  omega

theorem identify_spec_aux (res : List Atom) (edges : List (Int × Int)) (mods : List Modif) (annot : Int → List Nat)
    (groups : List Group) (frags : List Frag) :
    match identify res edges mods annot groups frags with
    | .ok used cov =>
        (∀ g ∈ groups, ∀ a ∈ g.atoms, ∃ e ∈ used ++ cov, a ∈ patoms e.2)
        ∧ (∀ g ∈ groups, usedOf annot g = [] → ∀ a ∈ g.atoms, a ∉ nonPtm res →
            cov.countP (fun e => (patoms e.2).contains a) = 1)
        ∧ (∀ e ∈ cov, ∃ f ∈ frags, f.1 = e.1 ∧ e.2 ∈ f.2)
    | .keyError rm => ∀ g ∈ groups, usedOf annot g = [] → ∀ a ∈ g.atoms, a ∈ rm
    | .outOfFuel => False := by
  unfold identify
  cases hl : identifyLoop res edges mods annot groups [] [] [] with
  | inr r =>
    obtain ⟨rm, rfl, _, h2⟩ := identifyLoop_inr _ _ _ _ _ hl
    exact h2
  | inl x =>
    obtain ⟨cov, tc, pending⟩ := x
    obtain ⟨_, _, _, i4⟩ := identifyLoop_inl _ _ _ _ _ _ _ hl
    simp only []
    cases hc : coverGraph (nonPtm res) tc.length tc frags with
    | outOfFuel => exact absurd hc (coverWith_fuel usable_progress _ _ _ _ (Nat.le_refl _))
    | keyError =>
      intro g hg hu a ha
      exact ((i4 g hg).1 hu a ha).2
    | ok c =>
      refine ⟨?_, ?_, (coverWith_exact usable_inside _ _ _ _ _ hc).cand⟩
      · intro g hg a ha
        by_cases hu : usedOf annot g = []
        · obtain ⟨e, he, hae⟩ := (coverWith_exact usable_inside _ _ _ _ _ hc).covers a ((i4 g hg).1 hu a ha).1
          exact ⟨e, List.mem_append_right _ he, hae⟩
        · obtain ⟨e, he, hae⟩ := (i4 g hg).2 hu a ha
          exact ⟨e, List.mem_append_left _ he, hae⟩
      · intro g hg hu a ha hnp
        exact cover_exact_count_aux _ _ _ _ _ hc a ((i4 g hg).1 hu a ha).1 hnp

end C14
