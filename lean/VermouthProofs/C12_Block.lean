import VermouthProofs.C12_Merge
/-! Helper lemmas for C12, part 3: `Block.to_molecule`. -/
namespace C12

theorem mapM_option_mem {α β : Type} (f : α → Option β) (l : List α) (r : List β)
    (h : l.mapM f = some r) : ∀ y ∈ r, ∃ x ∈ l, f x = some y := by
  obtain ⟨h1, h2⟩ := mapM_option_some f l r h
  intro y hy
  obtain ⟨i, hi, rfl⟩ := List.getElem_of_mem hy
  have hi' : i < l.length := by omega
  refine ⟨l[i], List.getElem_mem hi', ?_⟩
  rw [h2 i hi']; simp

theorem nameIdx_range (names : List String) (off : Int) (n : String) (r : Int)
    (h : nameIdx names off n = some r) : off ≤ r ∧ r < off + (names.length : Int) := by
  unfold nameIdx at h
  cases hf : List.findIdx? (fun x => x == n) names with
  | none => rw [hf] at h; cases h
  | some i =>
    rw [hf] at h; cases h
    obtain ⟨hi, _, _⟩ := List.findIdx?_eq_some_iff_getElem.mp hf
    omega

def Block.baseNodes (b : Block) (atomOff residOff cgOff : Int) : List (Int × Attrs) :=
  enumFrom atomOff (b.nodes.map (fun p => ((0 : Int), p.2.shift residOff cgOff)))

/-- the molecule before the edges are added -/
def Block.base (b : Block) (atomOff residOff cgOff : Int) (inters : List (String × Inter)) : Mol :=
  { nodes := b.baseNodes atomOff residOff cgOff, inters := inters, cites := b.cites, nrexcl := b.nrexcl,
    eattr := blockEAttr b.names atomOff b.eattr, ff := b.ff,
    logs := b.logs.foldl (fun acc le => extendLog acc le.1 le.2 []) [] }

theorem toMolecule_eq (b : Block) (ao ro co : Int) (m : Mol) (h : b.toMolecule ao ro co = some m) :
    ∃ inters edges, b.inters.mapM (blockInter b.names ao) = some inters ∧
      b.edges.mapM (blockEdge b.names ao) = some edges ∧
      m = (b.base ao ro co inters).addEdges edges := by
  unfold Block.toMolecule at h
  dsimp only at h
  cases hi : b.inters.mapM (blockInter (b.nodes.map Prod.fst) ao) with
  | none => rw [hi] at h; cases h
  | some inters =>
    cases he : b.edges.mapM (blockEdge (b.nodes.map Prod.fst) ao) with
    | none => rw [hi, he] at h; cases h
    | some edges =>
      rw [hi, he] at h
      cases h
      exact ⟨inters, edges, hi, he, rfl⟩

theorem base_keys_mem (b : Block) (ao ro co : Int) (inters : List (String × Inter)) (x : Int) :
    x ∈ (b.base ao ro co inters).keys ↔ ao ≤ x ∧ x < ao + (b.names.length : Int) := by
  unfold Block.base Mol.keys Block.baseNodes Block.names
  rw [enumFrom_keys_mem]; simp

theorem base_inv (b : Block) (ao ro co : Int) (inters : List (String × Inter))
    (hi : b.inters.mapM (blockInter b.names ao) = some inters) : (b.base ao ro co inters).Inv := by
  apply Mol.inv_of_wf_none _ rfl
  refine ⟨enumFrom_nodup _ _, ?_, ?_⟩
  · intro e he; cases he
  · intro ti hti a ha
    obtain ⟨x, _, hx⟩ := mapM_option_mem _ _ _ hi ti hti
    unfold blockInter at hx
    cases hm : x.atoms.mapM (nameIdx b.names ao) with
    | none => rw [hm] at hx; cases hx
    | some at' =>
      rw [hm] at hx; cases hx
      obtain ⟨n, _, hn⟩ := mapM_option_mem _ _ _ hm a ha
      exact (base_keys_mem b ao ro co inters a).mpr (nameIdx_range _ _ _ _ hn)

theorem base_edges_in (b : Block) (ao ro co : Int) (inters : List (String × Inter)) (edges : List (Int × Int))
    (he : b.edges.mapM (blockEdge b.names ao) = some edges) :
    ∀ e ∈ edges, e.1 ∈ (b.base ao ro co inters).keys ∧ e.2 ∈ (b.base ao ro co inters).keys := by
  intro e hmem
  obtain ⟨x, _, hx⟩ := mapM_option_mem _ _ _ he e hmem
  unfold blockEdge at hx
  cases h1 : nameIdx b.names ao x.1 with
  | none => rw [h1] at hx; cases hx
  | some u =>
    cases h2 : nameIdx b.names ao x.2 with
    | none => rw [h1, h2] at hx; cases hx
    | some v =>
      rw [h1, h2] at hx; cases hx
      exact ⟨(base_keys_mem b ao ro co inters u).mpr (nameIdx_range _ _ _ _ h1),
             (base_keys_mem b ao ro co inters v).mpr (nameIdx_range _ _ _ _ h2)⟩

theorem toMolecule_inv' (b : Block) (ao ro co : Int) (m : Mol) (h : b.toMolecule ao ro co = some m) :
    m.Inv := by
  obtain ⟨inters, edges, hi, _, rfl⟩ := toMolecule_eq b ao ro co m h
  exact addEdges_inv (base_inv b ao ro co inters hi) edges

theorem toMolecule_nodes (b : Block) (ao ro co : Int) (m : Mol) (h : b.toMolecule ao ro co = some m) :
    m.nodes = b.baseNodes ao ro co := by
  obtain ⟨inters, edges, _, he, rfl⟩ := toMolecule_eq b ao ro co m h
  exact (addEdges_nodes _ _ (base_edges_in b ao ro co inters edges he)).1

theorem baseNodes_getElem? (b : Block) (ao ro co : Int) (i : Nat) :
    (b.baseNodes ao ro co)[i]? = (b.nodes[i]?).map (fun p => (ao + (i : Int), p.2.shift ro co)) := by
  unfold Block.baseNodes
  rw [enumFrom_getElem?, List.getElem?_map]
  cases b.nodes[i]? <;> rfl

end C12
