import VermouthModel.C18_Map
/-! Helper lemmas for C18, part 9: reading the contact-map file. -/
namespace C18

/-- a token: non-empty and free of separators -/
def WsFree (t : List Char) : Prop := t ≠ [] ∧ ∀ c ∈ t, isWs c = false
def AllWs (w : List Char) : Prop := ∀ c ∈ w, isWs c = true
instance (t : List Char) : Decidable (WsFree t) := by unfold WsFree; exact inferInstance
instance (t : List Char) : Decidable (AllWs t) := by unfold AllWs; exact inferInstance

theorem splitWsAux_token (t rest cur : List Char) (h : ∀ c ∈ t, isWs c = false) :
    splitWsAux (t ++ rest) cur = splitWsAux rest (t.reverse ++ cur) := by
  induction t generalizing cur with
  | nil => rfl
  | cons c t ih =>
    have hc : isWs c = false := h c (by simp)
    simp only [List.cons_append, splitWsAux, hc, Bool.false_eq_true, if_false]
    rw [ih (c :: cur) (fun x hx => h x (List.mem_cons_of_mem _ hx))]
    simp

theorem splitWsAux_ws_nil (w rest : List Char) (h : AllWs w) : splitWsAux (w ++ rest) [] = splitWsAux rest [] := by
  induction w with
  | nil => rfl
  | cons c w ih =>
    have hc : isWs c = true := h c (by simp)
    simp only [List.cons_append, splitWsAux, hc, if_true, List.isEmpty_nil]
    exact ih (fun x hx => h x (List.mem_cons_of_mem _ hx))

theorem splitWsAux_sep (c : Char) (rest cur : List Char) (hc : isWs c = true) (hcur : cur ≠ []) :
    splitWsAux (c :: rest) cur = cur.reverse :: splitWsAux rest [] := by
  have : cur.isEmpty = false := by cases cur with
    | nil => exact absurd rfl hcur
    | cons _ _ => rfl
  simp [splitWsAux, hc, this]

theorem splitWsAux_trail (w cur : List Char) (h : AllWs w) (hcur : cur ≠ []) :
    splitWsAux w cur = [cur.reverse] := by
  cases w with
  | nil =>
    have : cur.isEmpty = false := by cases cur with
      | nil => exact absurd rfl hcur
      | cons _ _ => rfl
    simp [splitWsAux, this]
  | cons c w =>
    rw [splitWsAux_sep c w cur (h c (by simp)) hcur]
    have := splitWsAux_ws_nil w [] (fun x hx => h x (List.mem_cons_of_mem _ hx))
    simp only [List.append_nil] at this
    rw [this]; rfl

/-- tokens joined by single blanks -/
def render : List (List Char) → List Char
  | [] => []
  | [t] => t
  | t :: more => t ++ ' ' :: render more

theorem splitWs_render_aux (toks : List (List Char)) (trail : List Char) (h : ∀ t ∈ toks, WsFree t)
    (ht : AllWs trail) : splitWsAux (render toks ++ trail) [] = toks := by
  induction toks with
  | nil =>
    have := splitWsAux_ws_nil trail [] ht
    simp only [List.append_nil] at this
    simpa [render, splitWsAux] using this
  | cons t more ih =>
    have hwt := h t (by simp)
    cases more with
    | nil =>
      simp only [render]
      rw [splitWsAux_token t trail [] hwt.2, splitWsAux_trail trail _ ht (by simpa using hwt.1)]
      simp
    | cons t' more' =>
      simp only [render, List.append_assoc, List.cons_append]
      rw [splitWsAux_token t _ [] hwt.2, splitWsAux_sep ' ' _ _ (by decide) (by simpa using hwt.1)]
      have := ih (fun x hx => h x (List.mem_cons_of_mem _ hx))
      simp only [List.append_nil, List.reverse_reverse]
      rw [this]

/-- `line.strip().split()` recovers the tokens of a rendered line, whatever blanks surround it -/
theorem splitWs_render (lead trail : List Char) (toks : List (List Char)) (h : ∀ t ∈ toks, WsFree t)
    (hl : AllWs lead) (ht : AllWs trail) : splitWs (lead ++ render toks ++ trail) = toks := by
  unfold splitWs
  rw [List.append_assoc, splitWsAux_ws_nil lead _ hl]
  exact splitWs_render_aux toks trail h ht

/-- the 18 columns of a selected rCSU line -/
def WellFormed (t : List (List Char)) (a : Int) (ca : List Char) (b : Int) (cb : List Char) : Prop :=
  ∃ x1 x2 x3 ra x6 x7 rb x10 f11 x12 x13 f14 x15 x16 x17,
    t = [['R'], x1, x2, x3, ca, ra, x6, x7, cb, rb, x10, f11, x12, x13, f14, x15, x16, x17]
    ∧ flagsOk f11 f14 = true ∧ C08.pyInt ra = some a ∧ C08.pyInt rb = some b

theorem parseTokens_wellformed {t : List (List Char)} {a b : Int} {ca cb : List Char}
    (h : WellFormed t a ca b cb) :
    parseTokens t = .contact { residA := a, chainA := String.ofList ca, residB := b, chainB := String.ofList cb } := by
  obtain ⟨x1, x2, x3, ra, x6, x7, rb, x10, f11, x12, x13, f14, x15, x16, x17, rfl, hf, hra, hrb⟩ := h
  simp [parseTokens, hf, hra, hrb]

/-- conversely, only such lines yield a contact, and the contact is the declared one -/
theorem parseTokens_contact {t : List (List Char)} {c : Contact} (h : parseTokens t = .contact c) :
    ∃ ca cb, WellFormed t c.residA ca c.residB cb ∧ c.chainA = String.ofList ca ∧ c.chainB = String.ofList cb := by
  unfold parseTokens at h
  split at h
  · rename_i r x1 x2 x3 ca ra x6 x7 cb rb x10 f11 x12 x13 f14 x15 x16 x17
    split at h
    · rename_i hr
      split at h
      · rename_i hf
        split at h
        · cases h
        · rename_i a ha
          split at h
          · cases h
          · rename_i b hb
            simp only [LineResult.contact.injEq] at h
            subst h
            subst hr
            exact ⟨ca, cb, ⟨x1, x2, x3, ra, x6, x7, rb, x10, f11, x12, x13, f14, x15, x16, x17, rfl, hf, ha, hb⟩, rfl, rfl⟩
      · cases h
    · cases h
  · cases h

theorem parseTokens_short {t : List (List Char)} (h : t.length ≠ 18) : parseTokens t = .ignored := by
  unfold parseTokens
  split
  · simp at h
  · rfl

def contactOf : LineResult → Option Contact
  | .contact c => some c
  | _ => none

theorem collect_eq (rs : List LineResult) (acc : List Contact) (h : LineResult.valueError ∉ rs) :
    collect rs acc =
      if (acc.reverse ++ rs.filterMap contactOf).isEmpty then .ioError
      else .ok (acc.reverse ++ rs.filterMap contactOf) := by
  induction rs generalizing acc with
  | nil => simp [collect]
  | cons r rest ih =>
    have hrest : LineResult.valueError ∉ rest := fun hm => h (List.mem_cons_of_mem _ hm)
    cases r with
    | ignored =>
      have e : (LineResult.ignored :: rest).filterMap contactOf = rest.filterMap contactOf := by
        simp [List.filterMap_cons, contactOf]
      rw [e]
      simpa [collect] using ih acc hrest
    | contact c =>
      have e : (LineResult.contact c :: rest).filterMap contactOf = c :: rest.filterMap contactOf := by
        simp [List.filterMap_cons, contactOf]
      rw [e]
      have := ih (c :: acc) hrest
      simp only [collect]
      rw [this]
      simp
    | valueError => exact absurd (by simp) h

theorem collect_valueError (rs : List LineResult) (acc : List Contact) (h : LineResult.valueError ∈ rs) :
    collect rs acc = .valueError := by
  induction rs generalizing acc with
  | nil => cases h
  | cons r rest ih =>
    cases r with
    | ignored => exact ih acc (by simpa using h)
    | contact c => exact ih (c :: acc) (by simpa using h)
    | valueError => rfl

end C18
