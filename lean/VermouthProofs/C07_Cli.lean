import VermouthProofs.C07
import VermouthModel.C07_Cli
/-! Helper lemmas for `VermouthProps/C07_Cli.lean`: histories of `'w'` opens, the backup names that a complete
`write()` does NOT create, direct writes. -/
namespace C07

/-! ## direct writes -/

theorem get_directWrites (cont : List (Path × Bytes)) (ps : List Path) (fs : FS) (q : Path) :
    get (directWrites cont fs ps) q = if q ∈ ps then some (contentOf cont q) else get fs q := by
  induction ps generalizing fs with
  | nil => simp [directWrites]
  | cons p t ih =>
    simp only [directWrites, List.foldl_cons] at ih ⊢
    rw [ih]
    by_cases h1 : q ∈ t
    · simp [h1]
    · simp only [h1, if_false, List.mem_cons, or_false]
      by_cases h2 : q = p
      · subst h2; simp [directWrite, get_set_eq]
      · simp [h2, directWrite, get_set_ne _ _ h2]

theorem noTmp_directWrites {cont : List (Path × Bytes)} {ps : List Path} {fs : FS} (h0 : NoTmp fs)
    (hu : ∀ p ∈ ps, p.isTmp = false) : NoTmp (directWrites cont fs ps) := by
  intro k
  rw [get_directWrites]
  split
  · rename_i h; have := hu _ h; simp [Path.isTmp] at this
  · exact h0 k

/-- writing the same names directly, as the deferred writer's reference semantics `directRun` does -/
theorem get_directRun_w (cont : List (Path × Bytes)) (ps : List Path) (fs : FS) (q : Path) :
    get (directRun fs (deferredOpens cont ps)) q = if q ∈ ps then some (contentOf cont q) else get fs q := by
  induction ps generalizing fs with
  | nil => simp [directRun, deferredOpens]
  | cons p t ih =>
    simp only [directRun, deferredOpens, List.map_cons, List.foldl_cons] at ih ⊢
    rw [ih]
    by_cases h1 : q ∈ t
    · simp [h1]
    · simp only [h1, if_false, List.mem_cons, or_false]
      by_cases h2 : q = p
      · subst h2; simp [directOp, get_set_eq]
      · simp [h2, directOp, get_set_ne _ _ h2]

/-! ## histories of `'w'` opens -/

theorem openOp_w_dests (st : State) (p : Path) (d : Bytes) :
    (openOp st p .w d).1.pending.map Entry.dest
      = if p ∈ st.pending.map Entry.dest then st.pending.map Entry.dest else st.pending.map Entry.dest ++ [p] := by
  unfold openOp
  cases hf : findEntry st.pending p with
  | some e =>
    have hm : p ∈ st.pending.map Entry.dest := by
      obtain ⟨h1, h2⟩ := findEntry_some hf
      exact h2 ▸ mem_map_dest h1
    simp only [hm, if_true]
    by_cases ha : e.mode.hasA = true
    · simp [Mode.hasW, ha, setModeFirst_dest]
    · simp [Mode.hasW, ha]
  | none =>
    have hm : p ∉ st.pending.map Entry.dest := findEntry_none.1 hf
    simp [hm, Mode.hasPlus, Mode.hasA, Mode.hasW, Mode.hasR]

theorem openOp_w_writeish (st : State) (p : Path) (d : Bytes)
    (h : ∀ e ∈ st.pending, e.mode.writeish = true) :
    ∀ e ∈ (openOp st p .w d).1.pending, e.mode.writeish = true := by
  rcases openOp_shape st p .w d with ⟨e, _, _, hpend, _⟩ | ⟨_, heq⟩ | ⟨_, _, c, heq⟩
  · rcases hpend with h1 | ⟨h1, _⟩
    · rw [h1]; exact h
    · rw [h1]
      intro e' he'
      rcases mem_setModeFirst he' with h2 | ⟨h2, _⟩
      · exact h e' h2
      · rw [h2]; rfl
  · rw [heq]; exact h
  · rw [heq]
    intro e' he'
    simp only [List.mem_append, List.mem_singleton] at he'
    rcases he' with he' | he'
    · exact h e' he'
    · rw [he']; rfl

theorem runOpens_w_dests (cont : List (Path × Bytes)) (ps : List Path) (st : State) (q : Path) :
    q ∈ (runOpens st (deferredOpens cont ps)).pending.map Entry.dest ↔ q ∈ st.pending.map Entry.dest ∨ q ∈ ps := by
  induction ps generalizing st with
  | nil => simp [runOpens, deferredOpens]
  | cons p t ih =>
    simp only [runOpens, deferredOpens, List.map_cons, List.foldl_cons] at ih ⊢
    rw [ih, openOp_w_dests]
    by_cases hp : p ∈ st.pending.map Entry.dest
    · simp only [hp, if_true, List.mem_cons]
      constructor
      · rintro (h | h)
        · exact Or.inl h
        · exact Or.inr (Or.inr h)
      · rintro (h | h | h)
        · exact Or.inl h
        · subst h; exact Or.inl hp
        · exact Or.inr h
    · simp only [hp, if_false, List.mem_append, List.mem_cons, List.mem_nil_iff, or_false]
      constructor
      · rintro ((h | h) | h)
        · exact Or.inl h
        · exact Or.inr (Or.inl h)
        · exact Or.inr (Or.inr h)
      · rintro (h | h | h)
        · exact Or.inl (Or.inl h)
        · exact Or.inl (Or.inr h)
        · exact Or.inr h

theorem runOpens_w_writeish (cont : List (Path × Bytes)) (ps : List Path) (st : State)
    (h : ∀ e ∈ st.pending, e.mode.writeish = true) :
    ∀ e ∈ (runOpens st (deferredOpens cont ps)).pending, e.mode.writeish = true := by
  induction ps generalizing st with
  | nil => simpa [runOpens, deferredOpens] using h
  | cons p t ih =>
    simp only [runOpens, deferredOpens, List.map_cons, List.foldl_cons] at ih ⊢
    exact ih _ (openOp_w_writeish st p _ h)

theorem deferredOpens_user {cont : List (Path × Bytes)} {ps : List Path} (hu : ∀ p ∈ ps, p.isTmp = false) :
    ∀ o ∈ deferredOpens cont ps, o.1.isTmp = false ∧ o.2.1.plain = true := by
  intro o ho
  simp only [deferredOpens, List.mem_map] at ho
  obtain ⟨p, hp, rfl⟩ := ho
  exact ⟨hu p hp, rfl⟩

/-! ## the backup names `write()` does not create -/

/-- A backup name `#p.n#` of a pending `w`-like destination `p` that does not exist before `write()`: afterwards
it holds the old contents of `p` if `n` is the first free number (nothing if `p` did not exist), and it still
does not exist for every other `n`. -/
theorem finalizeAll_bak_fresh : ∀ (l : List Entry) (fs : FS), FinOK fs l →
    (∀ e1 ∈ l, ∀ e2 ∈ l, ∀ n, e1.dest ≠ .bak e2.dest n) →
    ∀ e ∈ l, e.mode.writeish = true → ∀ n, get fs (.bak e.dest n) = none →
    get (finalizeAll fs l) (.bak e.dest n) = if n = firstFreeIdx fs e.dest then get fs e.dest else none := by
  intro l
  induction l with
  | nil => intro fs _ _ e he; cases he
  | cons e0 rest ih =>
    intro fs hok hH e he hw n hq
    rw [finalizeAll_cons _ _ _ (hok.mode_ok e0 (by simp))]
    have hd := hok.dest_nodup
    simp only [List.map_cons, List.nodup_cons] at hd
    rcases List.mem_cons.1 he with rfl | he'
    · have hu := hok.dest_user e.dest (by simp)
      obtain ⟨t, ht⟩ := Option.ne_none_iff_exists'.1 (hok.tmp_exists e.tmp (by simp))
      have h1 : Path.bak e.dest n ≠ e.dest := bak_ne_self _ _
      have h2 : Path.bak e.dest n ≠ Path.tmp e.tmp := by intro hh; cases hh
      have hv : get (entryFs fs e) (.bak e.dest n)
          = if n = firstFreeIdx fs e.dest then get fs e.dest else none := by
        rw [entry_write_get hw hu ht]
        simp only [h1, h2, if_false]
        by_cases hn : n = firstFreeIdx fs e.dest
        · subst hn
          by_cases hc : get fs e.dest = none
          · simp [hc, hq]
          · simp [hc]
        · have : ¬ (Path.bak e.dest n = Path.bak e.dest (firstFreeIdx fs e.dest) ∧ get fs e.dest ≠ none) := by
            rintro ⟨hh, _⟩; injection hh with _ hh; exact hn hh
          simp [hn, hq]
      rw [finalizeAll_frame rest _ hok.tail]
      · exact hv
      · intro e' he''
        refine ⟨fun hh => hH e' (by simp [he'']) e (by simp) _ hh.symm, fun hh => by cases hh⟩
      · right
        intro e' he'' n' hh
        injection hh with hh _
        exact hd.1 (hh ▸ mem_map_dest he'')
    · have hu0 := hok.dest_user e0.dest (by simp)
      have hne : e.dest ≠ e0.dest := fun hh => hd.1 (hh ▸ mem_map_dest he')
      have hu := hok.dest_user e.dest (by simp [mem_map_dest he'])
      have hfr : ∀ q, q ≠ e0.dest → q ≠ .tmp e0.tmp → (get fs q ≠ none ∨ ∀ n, q ≠ .bak e0.dest n) →
          get (entryFs fs e0) q = get fs q := fun q =>
        entry_frame (hok.mode_ok e0 (by simp)) hu0 (hok.tmp_exists e0.tmp (by simp))
      have hsame : get (entryFs fs e0) e.dest = get fs e.dest := by
        apply hfr e.dest hne (fun hh => by rw [hh] at hu; simp [Path.isTmp] at hu)
        right; intro m hh
        exact hH e (by simp [he']) e0 (by simp) m hh
      have hbak : ∀ m, get (entryFs fs e0) (.bak e.dest m) = get fs (.bak e.dest m) := by
        intro m
        apply hfr
        · exact fun hh => hH e0 (by simp) e (by simp [he']) m hh.symm
        · intro hh; cases hh
        · right; intro n hh; injection hh with h1 _; exact hne h1
      have hidx : firstFreeIdx (entryFs fs e0) e.dest = firstFreeIdx fs e.dest := by
        obtain ⟨a, b, c'⟩ := firstFreeIdx_spec fs e.dest
        apply firstFreeIdx_unique a
        · rw [hbak]; exact b
        · intro m h1 h2; rw [hbak]; exact c' m h1 h2
      have := ih (entryFs fs e0) hok.tail
        (fun e1 h1 e2 h2 => hH e1 (by simp [h1]) e2 (by simp [h2])) e he' hw n (by rw [hbak]; exact hq)
      rw [hidx, hsame] at this
      exact this

/-- the error branches of `write()` (`AssertionError` for a stored mode `r`, `KeyError` otherwise) are never
taken for a pending table built by `open()` -/
theorem entrySteps_some_of_mode_ok {fs : FS} {e : Entry}
    (h : (e.mode.hasPlus || e.mode.hasA || e.mode.hasW) = true) : entrySteps fs e ≠ none := by
  rcases mode_cases h with h1 | h1
  · obtain ⟨hA, hWP⟩ := writeish_iff.1 h1
    simp [entrySteps, hA, hWP]
  · simp [entrySteps, h1]

end C07
