import VermouthModel.C02_Repo
import VermouthProofs.C13_Disp
/-!
C02 ∘ C13 — the multi-pass reader (`classify`, `pragmaPass`, `expandMacros`, `itpRun`) as ONE
left-to-right walk over the classified lines, on macro-free input.  Core Lean only.
-/
namespace C02.Repo
open C13

/-- state of the one-pass walk: `current_meta`, the dispatcher state, the index of the next
non-pragma line -/
structure XS where
  pm : PMeta
  s : ISt RCtx
  i : Nat

def encLine (l : C13.Line) (m : PMeta) : C13.Line :=
  match l with
  | .content t => .content (encodeMeta m t)
  | h => h

def stepX (P : IParams RCtx) (x : XS) : C13.Line → Option XS
  | .header n => some { x with s := itpHeader P x.s x.i n, i := x.i + 1 }
  | .content t =>
    if startsWithS t "#" then (pragmaStep x.pm t).map fun m' => { x with pm := m' }
    else (itpContent P x.s (encodeMeta x.pm t)).map fun s' => { x with s := s', i := x.i + 1 }

def walkX (P : IParams RCtx) : XS → List C13.Line → Option XS
  | x, [] => some x
  | x, l :: r => (stepX P x l).bind fun x' => walkX P x' r

/-- end of file: an open `#ifdef` is an error; `finalize_section(section, section)` -/
def finishX (P : IParams RCtx) (x : XS) : Option (ISt RCtx) :=
  if x.pm.isSome then none else some (itpFinalize P x.s x.s.sec)

theorem walkX_append (P : IParams RCtx) (x : XS) (a b : List C13.Line) :
    walkX P x (a ++ b) = (walkX P x a).bind fun x' => walkX P x' b := by
  induction a generalizing x with
  | nil => rfl
  | cons l r ih =>
    simp only [List.cons_append, walkX]
    cases stepX P x l with
    | none => rfl
    | some x' => simp only [Option.bind_some, ih]

/-! ### `pragmaPass` followed by `itpRunFrom` is the walk -/

theorem pragma_run_fused (P : IParams RCtx) (lines : List C13.Line) : ∀ (m : PMeta) (s : ISt RCtx) (i : Nat),
    ((pragmaPass m lines).bind fun tg => itpRunFrom P s i (tg.map fun p => encLine p.1 p.2))
      = (walkX P ⟨m, s, i⟩ lines).bind (finishX P) := by
  induction lines with
  | nil =>
    intro m s i
    simp only [pragmaPass, walkX, Option.bind_some, finishX]
    cases m <;> simp [itpRunFrom]
  | cons l r ih =>
    intro m s i
    cases l with
    | header n =>
      simp only [pragmaPass, walkX, stepX, Option.bind_some]
      rw [← ih m (itpHeader P s i n) (i + 1)]
      cases pragmaPass m r with
      | none => rfl
      | some tg => simp [itpRunFrom, encLine]
    | content t =>
      simp only [pragmaPass, walkX, stepX]
      by_cases hp : startsWithS t "#" = true
      · simp only [hp, if_true]
        cases pragmaStep m t with
        | none => rfl
        | some m' => simp only [Option.map_some, Option.bind_some]; exact ih m' s i
      · simp only [hp, Bool.false_eq_true, if_false]
        cases hc : itpContent P s (encodeMeta m t) with
        | none =>
          simp only [Option.map_none, Option.bind_none]
          cases pragmaPass m r with
          | none => rfl
          | some tg => simp [itpRunFrom, encLine, hc]
        | some s' =>
          simp only [Option.map_some, Option.bind_some]
          rw [← ih m s' (i + 1)]
          cases pragmaPass m r with
          | none => rfl
          | some tg => simp [itpRunFrom, encLine, hc]

/-! ### `expandMacros` is the identity on macro-free lines -/

theorem substMacrosAux_plain (ms : List (String × String)) (fuel : Nat) (cs : List Char)
    (h : ∀ c ∈ cs, c ≠ '$') : substMacrosAux ms fuel cs = some cs := by
  induction fuel generalizing cs with
  | zero => rfl
  | succ f ih =>
    cases cs with
    | nil => rfl
    | cons c r =>
      have hc : c ≠ '$' := h c (by simp)
      simp only [substMacrosAux, hc, if_false]
      rw [ih r (fun x hx => h x (by simp [hx]))]
      rfl

theorem substMacros_plain (ms : List (String × String)) (t : String)
    (h : t.toList.all (fun c => c != '$') = true) : substMacros ms t = some t := by
  unfold substMacros
  rw [substMacrosAux_plain ms _ _ (by simpa using h)]
  simp

/-- a line that neither opens `[ macros ]` nor (if it is not a pragma) refers to a macro -/
def lineNoMacro : C13.Line → Bool
  | .header n => n != "macros"
  | .content t => startsWithS t "#" || t.toList.all (fun c => c != '$')

theorem expandMacros_plain (T : List Path) (lines : List C13.Line) :
    ∀ (sec : Path), sec ≠ ["macros"] →
      (∀ l ∈ lines, match l with
        | .header n => n ≠ "macros"
        | .content t => t.toList.all (fun c => c != '$') = true) →
      expandMacros T sec [] lines = some lines := by
  induction lines with
  | nil => intros; rfl
  | cons l r ih =>
    intro sec hsec hl
    cases l with
    | header n =>
      have hn : n ≠ "macros" := hl (.header n) (by simp)
      simp only [expandMacros]
      rw [ih (nextSec T sec n) (fun e => hn (nextSec_eq_singleton e)) (fun x hx => hl x (by simp [hx]))]
      rfl
    | content t =>
      have ht := hl (.content t) (by simp)
      simp only at ht
      simp only [expandMacros, substMacros_plain [] t ht, hsec, if_false]
      rw [ih sec hsec (fun x hx => hl x (by simp [hx]))]
      rfl

theorem pragmaPass_noMacro (lines : List C13.Line) : ∀ (m : PMeta) (tg : List (C13.Line × PMeta)),
    pragmaPass m lines = some tg → (∀ l ∈ lines, lineNoMacro l = true) →
    ∀ l ∈ tg.map (·.1), match l with
        | .header n => n ≠ "macros"
        | .content t => t.toList.all (fun c => c != '$') = true := by
  induction lines with
  | nil =>
    intro m tg h _
    simp only [pragmaPass] at h
    split at h
    · cases h
    · cases h; simp
  | cons l r ih =>
    intro m tg h hl
    cases l with
    | header n =>
      simp only [pragmaPass] at h
      cases hr : pragmaPass m r with
      | none => rw [hr] at h; cases h
      | some tg' =>
        rw [hr] at h
        simp only [Option.map_some, Option.some.injEq] at h
        subst h
        intro x hx
        simp only [List.map_cons, List.mem_cons] at hx
        rcases hx with rfl | hx
        · have := hl (.header n) (by simp)
          simpa [lineNoMacro] using this
        · exact ih m tg' hr (fun y hy => hl y (by simp [hy])) x hx
    | content t =>
      simp only [pragmaPass] at h
      by_cases hp : startsWithS t "#" = true
      · simp only [hp, if_true] at h
        cases hs : pragmaStep m t with
        | none => rw [hs] at h; cases h
        | some m' =>
          rw [hs] at h
          exact ih m' tg h (fun y hy => hl y (by simp [hy]))
      · simp only [hp, Bool.false_eq_true, if_false] at h
        cases hr : pragmaPass m r with
        | none => rw [hr] at h; cases h
        | some tg' =>
          rw [hr] at h
          simp only [Option.map_some, Option.some.injEq] at h
          subst h
          intro x hx
          simp only [List.map_cons, List.mem_cons] at hx
          rcases hx with rfl | hx
          · have := hl (.content t) (by simp)
            simp only [lineNoMacro, Bool.or_eq_true] at this
            rcases this with h1 | h1
            · exact absurd h1 hp
            · exact h1
          · exact ih m tg' hr (fun y hy => hl y (by simp [hy])) x hx

theorem zip_fst_snd {α β} (l : List (α × β)) : (l.map (·.1)).zip (l.map (·.2)) = l := by
  induction l with
  | nil => rfl
  | cons a t ih => simp [ih]

/-- **Fusion**: on raw lines that classify to macro-free lines, the reader is the one-pass walk. -/
theorem readITPx_fused (idxTab : List (String × List Idx)) (tab : List Entry) (raw : List String)
    (lines : List C13.Line) (hc : classify raw = some lines) (hm : ∀ l ∈ lines, lineNoMacro l = true) :
    readITPx idxTab tab raw
      = ((walkX (paramsX idxTab tab) ⟨none, {}, 0⟩ lines).bind (finishX (paramsX idxTab tab))).map (·.blocks) := by
  unfold readITPx
  rw [hc]
  simp only [Option.bind_eq_bind, Option.bind_some, Option.pure_def]
  rw [← pragma_run_fused]
  cases hp : pragmaPass none lines with
  | none => rfl
  | some tg =>
    simp only [Option.bind_some]
    rw [expandMacros_plain _ _ [] (by decide) (pragmaPass_noMacro lines none tg hp hm)]
    simp only [Option.bind_some, zip_fst_snd]
    unfold itpRun
    have : ∀ (f : C13.Line × PMeta → C13.Line), (∀ p, f p = encLine p.1 p.2) →
        List.map f tg = tg.map fun p => encLine p.1 p.2 := by
      intro f hf
      exact List.map_congr_left (fun p _ => hf p)
    rw [this _ (by intro p; obtain ⟨l, m⟩ := p; cases l <;> rfl)]
    cases itpRunFrom (paramsX idxTab tab) {} 0 (tg.map fun p => encLine p.1 p.2) <;> rfl

end C02.Repo
