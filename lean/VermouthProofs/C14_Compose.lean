import VermouthProofs.C14
import VermouthProofs.C14_Fix
import VermouthProofs.C14_Loop
import VermouthProofs.C14_Name
import VermouthProofs.Iso
/-!
Helper lemmas for C14: the composition of the renaming over the whole loop of `fix_ptm`
(what a reference placement is made of, frame lemmas for the attributes of one atom, the fold over the
placements of one iteration, the `replace` dictionary, bounds for the placements of the `used_mods` branch).
-/
namespace C14
open Iso

/-! ### reference placements: injective, inside the residue, node predicate holds -/

theorem insertPair_perm (x : Int × Int) (l : Placement) : (insertPair x l).Perm (x :: l) := by
  induction l with
  | nil => exact List.Perm.refl _
  | cons y l ih =>
    simp only [insertPair]
    split
    · exact List.Perm.refl _
    · exact ((List.Perm.cons y ih).trans (List.Perm.swap x y l))

theorem toPlacement_perm (m : Iso.Map) : (toPlacement m).Perm (m.map fun q => (q.2, q.1)) := by
  unfold toPlacement
  induction m with
  | nil => exact List.Perm.refl _
  | cons q m ih =>
    simp only [List.foldr_cons, List.map_cons]
    exact (insertPair_perm _ _).trans (List.Perm.cons _ ih)

theorem toGraph_keys (keys : List Int) (edges : List (Int × Int)) : (toGraph keys edges).keys = keys := by
  unfold toGraph Graph.keys
  simp [List.map_map, Function.comp_def]

/-- every reference placement mentions a residue atom at most once, uses atoms of the residue only,
satisfies the node predicate on every pair, and maps exactly the nodes of the modification -/
theorem refPlacements_mem {res : List Atom} {edges : List (Int × Int)} {md : Modif}
    {pred : List Atom → Modif → NodePred} {p : Placement} (h : p ∈ refPlacements res edges md pred) :
    (patoms p).Nodup ∧ (∀ tq ∈ p, tq.1 ∈ res.map (·.key) ∧ pred res md tq.2 tq.1 = true)
      ∧ (p.map Prod.snd).Perm (md.atoms.map (·.key)) := by
  unfold refPlacements at h
  obtain ⟨f, hf, rfl⟩ := List.mem_map.1 h
  have hm := (mem_allMaps_iff _ f).1 hf
  have hperm := toPlacement_perm f
  refine ⟨?_, ?_, ?_⟩
  · unfold patoms
    rw [(hperm.map Prod.fst).nodup_iff, List.map_map]
    have : (Prod.fst ∘ fun q : Int × Int => (q.2, q.1)) = Prod.snd := rfl
    rw [this]
    unfold List.Nodup
    rw [List.pairwise_map]
    exact hm.pair.imp (fun h => h.1)
  · intro tq htq
    have := hperm.subset htq
    obtain ⟨x, hx, rfl⟩ := List.mem_map.1 this
    have hn := hm.node x hx
    simp only [graphProblem, toGraph_keys] at hn
    exact hn
  · have h1 := (hperm.map Prod.snd)
    rw [List.map_map] at h1
    have : (Prod.snd ∘ fun q : Int × Int => (q.2, q.1)) = Prod.fst := rfl
    rw [this, hm.dom] at h1
    simp only [graphProblem, modGraph, toGraph_keys] at h1
    exact h1

/-! ### the attributes of one atom: frame lemmas (no hypothesis on the placements) -/

def attrsAt (atoms : List Atom) (k : Int) : Option Attrs := (atomAt atoms k).map (·.attrs)

theorem atomAt_applyPlacement_frame (md : Modif) (p : Placement) (a : Int) (ha : a ∉ patoms p) :
    ∀ (atoms : List Atom), atomAt (applyPlacement md p atoms) a = atomAt atoms a := by
  unfold applyPlacement
  induction p with
  | nil => intro atoms; rfl
  | cons x p ih =>
    intro atoms
    unfold patoms at ha
    rw [List.map_cons, List.mem_cons, not_or] at ha
    simp only [List.foldl_cons]
    rw [ih (by unfold patoms; exact ha.2)]
    split
    · exact atomAt_updAtom_other atoms _ a _ (applyPair_key _) ha.1
    · rfl

theorem attrsAt_applyOne_frame (mods : List Modif) (nIdxs : List Int) (atoms : List Atom) (c : Nat × Placement)
    (a : Int) (ha : a ∉ patoms c.2) : attrsAt (applyOne mods nIdxs atoms c) a = attrsAt atoms a := by
  unfold attrsAt applyOne
  rw [atomAt_map_label _ _ (by intro b; split; exact labelAtom_key' _ _; rfl), Option.map_map,
    atomAt_applyPlacement_frame _ _ _ ha]
  congr 1
  funext b
  simp only [Function.comp]
  split
  · exact labelAtom_attrs _ _
  · rfl

theorem attrsAt_foldl_frame (mods : List Modif) (nIdxs : List Int) (a : Int) :
    ∀ (cs : Cover) (atoms : List Atom), (∀ c ∈ cs, a ∉ patoms c.2) →
      attrsAt (cs.foldl (applyOne mods nIdxs) atoms) a = attrsAt atoms a := by
  intro cs
  induction cs with
  | nil => intro atoms _; rfl
  | cons c cs ih =>
    intro atoms h
    simp only [List.foldl_cons]
    rw [ih _ (fun c' hc' => h c' (List.mem_cons_of_mem _ hc')),
      attrsAt_applyOne_frame _ _ _ _ _ (h c (by simp))]

theorem atomAt_filter_keep (atoms : List Atom) (q : Atom → Bool) (a : Int)
    (h : ∀ b ∈ atoms, b.key = a → q b = true) :
    atomAt (atoms.filter q) a = atomAt atoms a := by
  unfold atomAt
  induction atoms with
  | nil => rfl
  | cons b atoms ih =>
    have ih' := ih (fun b' hb' => h b' (List.mem_cons_of_mem _ hb'))
    by_cases hb : b.key = a
    · have hq : q b = true := h b (by simp) hb
      have hb' : (b.key == a) = true := by simpa using hb
      simp [hq, hb']
    · have hb' : (b.key == a) = false := by simpa using hb
      by_cases hq : q b = true
      · simp only [List.filter_cons, hq, if_true, List.find?_cons, hb']
        exact ih'
      · simp only [List.filter_cons, hq, Bool.false_eq_true, if_false, List.find?_cons, hb']
        exact ih'

theorem attrsAt_removeAtoms (m : Mol) (rm : List Int) (a : Int) (ha : a ∉ rm) :
    attrsAt (removeAtoms m rm).atoms a = attrsAt m.atoms a := by
  unfold attrsAt removeAtoms
  simp only []
  rw [atomAt_filter_keep]
  intro b _ hb
  simpa [hb] using ha

theorem atomAt_mem {atoms : List Atom} {a : Int} {b : Atom} (h : atomAt atoms a = some b) :
    b ∈ atoms ∧ b.key = a := by
  unfold atomAt at h
  exact ⟨List.mem_of_find?_eq_some h, by simpa using List.find?_some h⟩

theorem atomAt_of_mem_keys {atoms : List Atom} {a : Int} (h : a ∈ atoms.map (·.key)) :
    ∃ b, atomAt atoms a = some b := by
  unfold atomAt
  cases hf : atoms.find? (fun x => x.key == a) with
  | some b => exact ⟨b, rfl⟩
  | none =>
    exfalso
    obtain ⟨b, hb, hkb⟩ := List.mem_map.1 h
    have := List.find?_eq_none.1 hf b hb
    simp [hkb] at this

/-! ### the `replace` dictionary -/

def setIfNe (acc : Attrs) (k : String) (v : Option String) : Attrs :=
  if (aget acc k).getD none != v then aset acc k v else acc

def oldName (acc : Attrs) (k : String) : Attrs :=
  if k == "atomname" then aset acc "_old_atomname" ((aget acc "atomname").getD none) else acc

theorem replStep_eq (acc : Attrs) (kv : String × Option String) :
    replStep acc kv = setIfNe (oldName acc kv.1) kv.1 kv.2 := rfl

theorem setIfNe_same (acc : Attrs) (k : String) (v : Option String) :
    (aget (setIfNe acc k v) k).getD none = v := by
  unfold setIfNe
  split
  · rw [aget_aset_same]; rfl
  · next hne => simpa using hne

theorem setIfNe_other (acc : Attrs) (k k' : String) (v : Option String) (h : k' ≠ k) :
    aget (setIfNe acc k v) k' = aget acc k' := by
  unfold setIfNe
  split
  · exact aget_aset_other _ _ _ _ h
  · rfl

theorem oldName_other (acc : Attrs) (k k' : String) (h : k' ≠ "_old_atomname") :
    aget (oldName acc k) k' = aget acc k' := by
  unfold oldName
  split
  · exact aget_aset_other _ _ _ _ h
  · rfl

theorem replStep_get_same (acc : Attrs) (kv : String × Option String) :
    (aget (replStep acc kv) kv.1).getD none = kv.2 := by
  rw [replStep_eq]; exact setIfNe_same _ _ _

theorem replStep_get_other (acc : Attrs) (kv : String × Option String) (k : String)
    (h1 : k ≠ kv.1) (h2 : k ≠ "_old_atomname") : aget (replStep acc kv) k = aget acc k := by
  rw [replStep_eq, setIfNe_other _ _ _ _ h1, oldName_other _ _ _ h2]

theorem foldl_replStep_other (rep : Attrs) (k : String) (h1 : k ∉ rep.map Prod.fst) (h2 : k ≠ "_old_atomname") :
    ∀ (acc : Attrs), aget (rep.foldl replStep acc) k = aget acc k := by
  induction rep with
  | nil => intro acc; rfl
  | cons p rep ih =>
    intro acc
    rw [List.map_cons, List.mem_cons, not_or] at h1
    rw [List.foldl_cons, ih h1.2, replStep_get_other _ _ _ h1.1 h2]

/-- after the loop over `replace`, `node.get(k) == v` for every entry `(k, v)` (except for the key
`_old_atomname`, which the entry for `atomname` overwrites) -/
theorem foldl_replStep_get (rep : Attrs) (hnd : (rep.map Prod.fst).Nodup) (kv : String × Option String)
    (hkv : kv ∈ rep) (h2 : kv.1 ≠ "_old_atomname") :
    ∀ (acc : Attrs), (aget (rep.foldl replStep acc) kv.1).getD none = kv.2 := by
  induction rep with
  | nil => simp at hkv
  | cons p rep ih =>
    intro acc
    rw [List.map_cons, List.nodup_cons] at hnd
    rw [List.foldl_cons]
    rcases List.mem_cons.1 hkv with rfl | hin
    · rw [foldl_replStep_other rep _ hnd.1 h2]
      exact replStep_get_same acc _
    · exact ih hnd.2 hin _

theorem applyPair_replace (ma : MAtom) (a : Atom) (rep : Attrs) (hr : ma.replace = some rep)
    (hnd : (rep.map Prod.fst).Nodup) (kv : String × Option String) (hkv : kv ∈ rep)
    (h2 : kv.1 ≠ "_old_atomname") : (aget (applyPair ma a).attrs kv.1).getD none = kv.2 := by
  unfold applyPair
  simp only [hr]
  exact foldl_replStep_get rep hnd kv hkv h2 _

/-! ### the fold over the placements of one iteration -/

theorem split_unique {cs : Cover} {a : Int} {e : Nat × Placement} (he : e ∈ cs) (hae : a ∈ patoms e.2)
    (hcnt : cs.countP (fun c => (patoms c.2).contains a) = 1) :
    ∃ pre post, cs = pre ++ e :: post ∧ (∀ c ∈ pre, a ∉ patoms c.2) ∧ (∀ c ∈ post, a ∉ patoms c.2) := by
  obtain ⟨pre, post, rfl⟩ := List.append_of_mem he
  have hce : (patoms e.2).contains a = true := by simpa using hae
  rw [List.countP_append, List.countP_cons, if_pos hce] at hcnt
  have h1 : pre.countP (fun c => (patoms c.2).contains a) = 0 := by omega
  have h2 : post.countP (fun c => (patoms c.2).contains a) = 0 := by omega
  rw [List.countP_eq_zero] at h1 h2
  refine ⟨pre, post, rfl, ?_, ?_⟩
  · intro c hc hin; exact h1 c hc (by simpa using hin)
  · intro c hc hin; exact h2 c hc (by simpa using hin)

/-- the attributes of atom `a` after the placements of one iteration have been applied, when exactly
one of them (`e`, injective) contains `a`, matched on the pattern node `ma`: those of `applyPair ma` on
the atom as it was -/
theorem attrsAt_foldl_own (mods : List Modif) (nIdxs : List Int) (cs : Cover) (atoms : List Atom) (a : Int)
    (e : Nat × Placement) (he : e ∈ cs) (hcnt : cs.countP (fun c => (patoms c.2).contains a) = 1)
    (hp : (patoms e.2).Nodup) (q : Int) (hq : (a, q) ∈ e.2) (ma : MAtom)
    (hma : (modAt mods e.1).atom? q = some ma) (b : Atom) (hb : atomAt atoms a = some b) :
    ∃ b0 : Atom, b0.attrs = b.attrs ∧
      attrsAt (cs.foldl (applyOne mods nIdxs) atoms) a = some (applyPair ma b0).attrs := by
  have hae : a ∈ patoms e.2 := List.mem_map.2 ⟨(a, q), hq, rfl⟩
  obtain ⟨pre, post, rfl, hpre, hpost⟩ := split_unique he hae hcnt
  rw [List.foldl_append, List.foldl_cons, attrsAt_foldl_frame _ _ _ _ _ hpost]
  have h0 := attrsAt_foldl_frame mods nIdxs a pre atoms hpre
  unfold attrsAt at h0
  rw [hb] at h0
  cases hb1 : atomAt (pre.foldl (applyOne mods nIdxs) atoms) a with
  | none => rw [hb1] at h0; cases h0
  | some b1 =>
    rw [hb1] at h0
    simp only [Option.map_some, Option.some.injEq] at h0
    have hl : e.2.lookup a = some q := Iso.lookup_of_mem (by unfold patoms at hp; exact hp) hq
    have h := attrs_applyOne mods nIdxs (pre.foldl (applyOne mods nIdxs) atoms) e hp a
    rw [hl] at h
    simp only [hma, hb1, Option.map_some] at h
    exact ⟨b1, h0, h⟩

/-! ### placements of the `used_mods` branch lie inside their group -/

theorem usedBranch_inl_atoms {res : List Atom} {edges : List (Int × Int)} {mods : List Modif} {g : Group} :
    ∀ (us : List Nat) (cov : Cover) (known : List Int) (cov' : Cover),
      usedBranch res edges mods g us cov known = .inl cov' →
      ∀ e ∈ cov', e ∈ cov ∨ ∀ x ∈ patoms e.2, x ∈ g.atoms := by
  intro us
  induction us with
  | nil =>
    intro cov known cov' h e he
    simp only [usedBranch] at h
    split at h
    · cases h; exact Or.inl he
    · cases h
  | cons i rest ih =>
    intro cov known cov' h e he
    simp only [usedBranch] at h
    split at h
    · next m hm =>
      rcases ih _ _ _ h e he with h1 | h1
      · rcases List.mem_append.1 h1 with h2 | h2
        · exact Or.inl h2
        · right
          simp only [List.mem_singleton] at h2
          subst h2
          have hmem : m ∈ refPlacements (res.filter fun a => g.atoms.contains a.key) (induced g.atoms edges)
              (modAt mods i) namePred := by rw [hm]; simp
          intro x hx
          obtain ⟨tq, htq, rfl⟩ := List.mem_map.1 hx
          have := ((refPlacements_mem hmem).2.1 tq htq).1
          obtain ⟨b, hb, hkb⟩ := List.mem_map.1 this
          have := (List.mem_filter.1 hb).2
          rw [hkb] at this
          simpa using this
      · exact Or.inr h1
    · cases h

theorem identifyLoop_inl_used {res : List Atom} {edges : List (Int × Int)} {mods : List Modif}
    {annot : Int → List Nat} :
    ∀ (gs : List Group) (cov : Cover) (tc pending : List Int) (cov' : Cover) (tc' pending' : List Int),
      identifyLoop res edges mods annot gs cov tc pending = .inl (cov', tc', pending') →
      ∀ e ∈ cov', e ∈ cov ∨ ∃ g ∈ gs, usedOf annot g ≠ [] ∧ ∀ x ∈ patoms e.2, x ∈ g.atoms := by
  intro gs
  induction gs with
  | nil =>
    intro cov tc pending cov' tc' pending' h e he
    simp only [identifyLoop, Sum.inl.injEq, Prod.mk.injEq] at h
    obtain ⟨rfl, _, _⟩ := h
    exact Or.inl he
  | cons g gs ih =>
    intro cov tc pending cov' tc' pending' h e he
    simp only [identifyLoop] at h
    split at h
    · rcases ih _ _ _ _ _ _ h e he with h1 | ⟨g', hg', h2⟩
      · exact Or.inl h1
      · exact Or.inr ⟨g', List.mem_cons_of_mem _ hg', h2⟩
    · next hu =>
      have hu' : usedOf annot g ≠ [] := by simpa [usedOf] using hu
      split at h
      · cases h
      · split at h
        · next cov1 hub =>
          rcases ih _ _ _ _ _ _ h e he with h1 | ⟨g', hg', h2⟩
          · rcases usedBranch_inl_atoms _ _ _ _ hub e h1 with h3 | h3
            · exact Or.inl h3
            · exact Or.inr ⟨g, by simp, hu', h3⟩
          · exact Or.inr ⟨g', List.mem_cons_of_mem _ hg', h2⟩
        · cases h

/-- the placements `identify_ptms` takes from the annotations of the input lie inside the atoms of one
annotated group -/
theorem identify_used_bound (res : List Atom) (edges : List (Int × Int)) (mods : List Modif)
    (annot : Int → List Nat) (groups : List Group) (frags : List Frag) (used cov : Cover)
    (h : identify res edges mods annot groups frags = .ok used cov) :
    ∀ e ∈ used, ∃ g ∈ groups, usedOf annot g ≠ [] ∧ ∀ x ∈ patoms e.2, x ∈ g.atoms := by
  unfold identify at h
  cases hl : identifyLoop res edges mods annot groups [] [] [] with
  | inr r =>
    rw [hl] at h
    simp only [] at h
    subst h
    obtain ⟨rm, hr, _⟩ := identifyLoop_inr _ _ _ _ _ hl
    cases hr
  | inl x =>
    obtain ⟨cov0, tc, pending⟩ := x
    rw [hl] at h
    simp only [] at h
    cases hc : coverGraph (nonPtm res) tc.length tc frags with
    | outOfFuel => rw [hc] at h; cases h
    | keyError => rw [hc] at h; cases h
    | ok c =>
      rw [hc] at h
      simp only [IdRes.ok.injEq] at h
      obtain ⟨rfl, rfl⟩ := h
      intro e he
      rcases identifyLoop_inl_used _ _ _ _ _ _ _ hl e he with h1 | h1
      · simp at h1
      · exact h1

/-- the atoms of the groups are pairwise disjoint: an atom belongs to one group -/
theorem atomsOf_unique {gs : List Group} (hnd : (atomsOf gs).Nodup) {g g' : Group} (hg : g ∈ gs) (hg' : g' ∈ gs)
    {x : Int} (hx : x ∈ g.atoms) (hx' : x ∈ g'.atoms) : g = g' := by
  induction gs with
  | nil => simp at hg
  | cons h t ih =>
    have hsplit : atomsOf (h :: t) = h.atoms ++ atomsOf t := by unfold atomsOf; rw [List.flatMap_cons]
    rw [hsplit, List.nodup_append] at hnd
    obtain ⟨_, hnt, hdisj⟩ := hnd
    have mem_t : ∀ {k : Group}, k ∈ t → x ∈ k.atoms → x ∈ atomsOf t :=
      fun hk hxk => List.mem_flatMap.2 ⟨_, hk, hxk⟩
    rcases List.mem_cons.1 hg with rfl | hgt <;> rcases List.mem_cons.1 hg' with rfl | hgt'
    · rfl
    · exact absurd rfl (hdisj _ hx _ (mem_t hgt' hx'))
    · exact absurd rfl (hdisj _ hx' _ (mem_t hgt hx))
    · exact ih hnt hgt hgt'

end C14
