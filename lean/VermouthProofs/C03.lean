import VermouthModel.C03
/-! Helper lemmas for C03 (core Lean only). -/
namespace C03

/-! ### stable sort by atom id -/

theorem keyLe_refl (a : Option Int) : keyLe a a = true := by
  cases a <;> simp [keyLe]

theorem keyLe_total {a b : Option Int} (h : keyLe a b = false) : keyLe b a = true := by
  cases a <;> cases b <;> simp_all [keyLe] <;> omega

theorem keyLe_trans {a b c : Option Int} (h1 : keyLe a b = true) (h2 : keyLe b c = true) :
    keyLe a c = true := by
  cases a <;> cases b <;> cases c <;> simp_all [keyLe] <;> omega

theorem keyLe_false_ne {a b : Option Int} (h : keyLe a b = false) : a ≠ b := by
  intro e; subst e; rw [keyLe_refl] at h; cases h

theorem insertAtom_perm (x : Atom) (l : List Atom) : (insertAtom x l).Perm (x :: l) := by
  induction l with
  | nil => exact List.Perm.refl _
  | cons y ys ih =>
    simp only [insertAtom]
    split
    · exact List.Perm.refl _
    · exact (List.Perm.cons y ih).trans (List.Perm.swap x y ys)

theorem mem_insertAtom {x a : Atom} {l : List Atom} : a ∈ insertAtom x l ↔ a = x ∨ a ∈ l := by
  rw [(insertAtom_perm x l).mem_iff]; simp

/-- sortedness predicate: atom ids never decrease (missing id = +infinity) -/
def SortedByAtomid (l : List Atom) : Prop :=
  l.Pairwise (fun a b => keyLe (atomidOf a) (atomidOf b) = true)

theorem insertAtom_sorted (x : Atom) (l : List Atom) (h : SortedByAtomid l) :
    SortedByAtomid (insertAtom x l) := by
  unfold SortedByAtomid at *
  induction l with
  | nil => simp [insertAtom]
  | cons y ys ih =>
    simp only [insertAtom]
    rw [List.pairwise_cons] at h
    split
    next hle =>
      rw [List.pairwise_cons]
      refine ⟨?_, List.pairwise_cons.mpr h⟩
      intro z hz
      rcases List.mem_cons.mp hz with rfl | hz
      · exact hle
      · exact keyLe_trans hle (h.1 z hz)
    next hnle =>
      rw [List.pairwise_cons]
      refine ⟨?_, ih h.2⟩
      intro z hz
      rcases mem_insertAtom.mp hz with rfl | hz
      · exact keyLe_total (by simpa using hnle)
      · exact h.1 z hz

theorem insertAtom_filter (x : Atom) (l : List Atom) (k : Option Int) :
    (insertAtom x l).filter (fun a => atomidOf a == k) = (x :: l).filter (fun a => atomidOf a == k) := by
  induction l with
  | nil => rfl
  | cons y ys ih =>
    simp only [insertAtom]
    split
    · rfl
    next hnle =>
      have hne : atomidOf x ≠ atomidOf y := keyLe_false_ne (by simpa using hnle)
      rw [List.filter_cons, ih]
      by_cases hx : atomidOf x = k
      · have hy : ¬ atomidOf y = k := fun e => hne (hx.trans e.symm)
        simp [hx, hy]
      · simp [List.filter_cons, hx]

/-! ### run-length groups -/

theorem takeWhile_eq_replicate {α} [DecidableEq α] (n : α) (l : List α) :
    l.takeWhile (· == n) = List.replicate (l.takeWhile (· == n)).length n := by
  induction l with
  | nil => rfl
  | cons a t ih =>
    simp only [List.takeWhile_cons]
    split
    next h =>
      have : a = n := by simpa using h
      subst this
      simp only [List.length_cons, List.replicate_succ]
      rw [← ih]
    · rfl

theorem mem_takeWhile_eq {α} [DecidableEq α] {n x : α} {l : List α} (h : x ∈ l.takeWhile (· == n)) : x = n := by
  rw [takeWhile_eq_replicate] at h
  exact (List.mem_replicate.mp h).2

theorem dropWhile_head_false {α} (p : α → Bool) (l : List α) {m : α} {l' : List α}
    (h : l.dropWhile p = m :: l') : p m = false := by
  induction l with
  | nil => simp at h
  | cons a t ih =>
    simp only [List.dropWhile_cons] at h
    split at h
    · exact ih h
    next hp =>
      cases h
      simpa using hp

theorem groups_cons {α} [DecidableEq α] (n : α) (rest : List α) :
    groups (n :: rest) = (n, 1 + (rest.takeWhile (· == n)).length) :: groups (rest.dropWhile (· == n)) := by
  rw [groups]

theorem split_run {α} [DecidableEq α] (n : α) (rest : List α) :
    n :: rest = List.replicate (1 + (rest.takeWhile (· == n)).length) n ++ rest.dropWhile (· == n) := by
  have h1 : 1 + (rest.takeWhile (· == n)).length = (rest.takeWhile (· == n)).length + 1 := by omega
  rw [h1, List.replicate_succ, List.cons_append, ← takeWhile_eq_replicate, List.takeWhile_append_dropWhile]

/-- no two neighbouring groups carry the same name -/
def NoAdjEq {α β} : List (α × β) → Prop
  | a :: b :: r => a.1 ≠ b.1 ∧ NoAdjEq (b :: r)
  | _ => True

/-! ### `dict.fromkeys` -/

def ins {α} [DecidableEq α] (acc : List α) (k : α) : List α := if acc.contains k then acc else acc ++ [k]

theorem dictFromKeys_eq {α} [DecidableEq α] (l : List α) : dictFromKeys l = l.foldl ins [] := rfl

theorem foldl_ins_nodup {α} [DecidableEq α] (l acc : List α) (h : acc.Nodup) : (l.foldl ins acc).Nodup := by
  induction l generalizing acc with
  | nil => exact h
  | cons a t ih =>
    simp only [List.foldl_cons]
    apply ih
    unfold ins
    split
    · exact h
    next hc =>
      have : a ∉ acc := by simpa using hc
      rw [List.nodup_append]
      refine ⟨h, by simp, ?_⟩
      intro x hx y hy
      simp at hy; subst hy
      intro e; subst e; exact this hx

theorem mem_foldl_ins {α} [DecidableEq α] (l acc : List α) (x : α) :
    x ∈ l.foldl ins acc ↔ x ∈ acc ∨ x ∈ l := by
  induction l generalizing acc with
  | nil => simp
  | cons a t ih =>
    simp only [List.foldl_cons, ih, List.mem_cons]
    unfold ins
    split
    next hc =>
      have : a ∈ acc := by simpa using hc
      constructor
      · rintro (h | h)
        · exact Or.inl h
        · exact Or.inr (Or.inr h)
      · rintro (h | h | h)
        · exact Or.inl h
        · subst h; exact Or.inl this
        · exact Or.inr h
    · simp only [List.mem_append, List.mem_singleton]
      constructor
      · rintro ((h | h) | h)
        · exact Or.inl h
        · exact Or.inr (Or.inl h)
        · exact Or.inr (Or.inr h)
      · rintro (h | h | h)
        · exact Or.inl (Or.inl h)
        · exact Or.inl (Or.inr h)
        · exact Or.inr h

theorem foldl_ins_absorb {α} [DecidableEq α] (l acc : List α) (h : ∀ x ∈ l, x ∈ acc) : l.foldl ins acc = acc := by
  induction l generalizing acc with
  | nil => rfl
  | cons a t ih =>
    simp only [List.foldl_cons]
    have ha : a ∈ acc := h a (by simp)
    have : ins acc a = acc := by unfold ins; simp [ha]
    rw [this]
    exact ih acc (fun x hx => h x (by simp [hx]))

/-- the names of the groups, deduplicated, are the names themselves, deduplicated -/
theorem foldl_ins_groups {α} [DecidableEq α] (names acc : List α) :
    ((groups names).map (·.1)).foldl ins acc = names.foldl ins acc := by
  fun_induction groups names generalizing acc with
  | case1 => rfl
  | case2 n rest ih =>
    simp only [List.map_cons, List.foldl_cons]
    rw [ih]
    conv => rhs; rw [← List.takeWhile_append_dropWhile (p := (· == n)) (l := rest)]
    rw [List.foldl_append]
    congr 1
    symm
    apply foldl_ins_absorb
    intro x hx
    have := mem_takeWhile_eq hx
    subst this
    unfold ins
    split
    next hc => simpa using hc
    · simp

/-! ### the ITP-writing loop -/

theorem idxOf_cons_ne {α} [DecidableEq α] {a n : α} (l : List α) (h : a ≠ n) :
    List.idxOf n (a :: l) = List.idxOf n l + 1 := by
  have : (a == n) = false := by simpa using h
  rw [List.idxOf_cons, this]; rfl

theorem idxOf_cons_eq {α} [DecidableEq α] (a : α) (l : List α) : List.idxOf a (a :: l) = 0 := by
  rw [List.idxOf_cons]; simp

/-- the same loop, molecule by molecule instead of group by group -/
def firstsLoop {α} [DecidableEq α] : List α → Nat → List α → List (α × Nat)
  | [], _, _ => []
  | n :: rest, off, w =>
    if w.contains n then firstsLoop rest (off + 1) w else (n, off) :: firstsLoop rest (off + 1) (n :: w)

theorem firstsLoop_skip {α} [DecidableEq α] (l r : List α) (off : Nat) (w : List α) (h : ∀ x ∈ l, x ∈ w) :
    firstsLoop (l ++ r) off w = firstsLoop r (off + l.length) w := by
  induction l generalizing off with
  | nil => rfl
  | cons a t ih =>
    have ha : a ∈ w := h a (by simp)
    simp only [List.cons_append, firstsLoop, List.contains_iff_mem, ha, if_true, List.length_cons]
    rw [ih (off + 1) (fun x hx => h x (by simp [hx]))]
    congr 1
    omega

theorem itpLoop_groups {α} [DecidableEq α] (names : List α) (off : Nat) (w : List α) :
    itpLoop (groups names) off w = firstsLoop names off w := by
  fun_induction groups names generalizing off w with
  | case1 => rfl
  | case2 n rest ih =>
    have hsplit : rest = rest.takeWhile (· == n) ++ rest.dropWhile (· == n) :=
      (List.takeWhile_append_dropWhile).symm
    simp only [itpLoop, firstsLoop]
    split
    next hw =>
      have hw' : n ∈ w := by simpa using hw
      rw [ih]
      conv => rhs; rw [hsplit]
      rw [firstsLoop_skip _ _ _ _ (fun x hx => by rw [mem_takeWhile_eq hx]; exact hw')]
      congr 1
      omega
    next hw =>
      rw [ih]
      conv => rhs; rw [hsplit]
      rw [firstsLoop_skip _ _ _ _ (fun x hx => by rw [mem_takeWhile_eq hx]; simp)]
      congr 2
      omega

theorem firstsLoop_keys {α} [DecidableEq α] (names : List α) (off : Nat) (w acc : List α)
    (h : ∀ x, x ∈ w ↔ x ∈ acc) :
    names.foldl ins acc = acc ++ (firstsLoop names off w).map (·.1) := by
  induction names generalizing off w acc with
  | nil => simp [firstsLoop]
  | cons a t ih =>
    simp only [List.foldl_cons, firstsLoop]
    by_cases ha : a ∈ w
    · have ha' : a ∈ acc := (h a).mp ha
      have : ins acc a = acc := by unfold ins; simp [ha']
      simp only [List.contains_iff_mem, ha, if_true, this]
      exact ih (off + 1) w acc h
    · have ha' : a ∉ acc := fun e => ha ((h a).mpr e)
      have : ins acc a = acc ++ [a] := by unfold ins; simp [ha']
      simp only [List.contains_iff_mem, ha, if_false, this, List.map_cons]
      rw [ih (off + 1) (a :: w) (acc ++ [a]) (by intro x; simp [h x, or_comm])]
      simp

theorem mem_firstsLoop {α} [DecidableEq α] (names : List α) (off : Nat) (w : List α) (n : α) (i : Nat) :
    (n, i) ∈ firstsLoop names off w ↔ n ∉ w ∧ n ∈ names ∧ i = off + names.idxOf n := by
  induction names generalizing off w with
  | nil => simp [firstsLoop]
  | cons a t ih =>
    simp only [firstsLoop]
    by_cases ha : a ∈ w
    · simp only [List.contains_iff_mem, ha, if_true, ih]
      constructor
      · rintro ⟨h1, h2, h3⟩
        have hne : a ≠ n := fun e => h1 (e ▸ ha)
        refine ⟨h1, by simp [h2], ?_⟩
        rw [idxOf_cons_ne _ hne]; omega
      · rintro ⟨h1, h2, h3⟩
        have hne : a ≠ n := fun e => h1 (e ▸ ha)
        rw [idxOf_cons_ne _ hne] at h3
        refine ⟨h1, ?_, by omega⟩
        rcases List.mem_cons.mp h2 with h | h
        · exact absurd h.symm hne
        · exact h
    · simp only [List.contains_iff_mem, ha, if_false, List.mem_cons, Prod.mk.injEq, ih]
      constructor
      · rintro (⟨h1, h2⟩ | ⟨h1, h2, h3⟩)
        · subst h1 h2
          refine ⟨ha, by simp, by simp⟩
        · have hne : a ≠ n := fun e => h1 (by simp [e])
          refine ⟨fun e => h1 (by simp [e]), by simp [h2], ?_⟩
          rw [idxOf_cons_ne _ hne]; omega
      · rintro ⟨h1, h2, h3⟩
        by_cases hna : n = a
        · subst hna
          left
          simpa using h3
        · right
          have hne : a ≠ n := fun e => hna e.symm
          rw [idxOf_cons_ne _ hne] at h3
          refine ⟨by simp [hna, h1], ?_, by omega⟩
          rcases h2 with h | h
          · exact absurd h hna
          · exact h

/-! ### greedy naming -/

theorem findRep_some {shares : Mol → Mol → Bool} {reps : List Mol} {m : Mol} {i : Nat}
    (h : findRep shares reps m = some i) : ∃ t, reps[i]? = some t ∧ shares m t = true := by
  induction reps generalizing i with
  | nil => simp [findRep] at h
  | cons t ts ih =>
    simp only [findRep] at h
    split at h
    next hs =>
      cases h
      exact ⟨t, by simp, hs⟩
    next hs =>
      cases hf : findRep shares ts m with
      | none => rw [hf] at h; simp at h
      | some j =>
        rw [hf] at h
        simp only [Option.map_some, Option.some.injEq] at h
        subst h
        obtain ⟨t', h1, h2⟩ := ih hf
        exact ⟨t', by simpa using h1, h2⟩

theorem findRep_some_lt {shares : Mol → Mol → Bool} {reps : List Mol} {m : Mol} {i : Nat}
    (h : findRep shares reps m = some i) : i < reps.length := by
  obtain ⟨t, h1, _⟩ := findRep_some h
  exact (List.getElem?_eq_some_iff.mp h1).1

/-- a molecule that shares with no earlier representative founds a new molecule type -/
theorem findRep_none {shares : Mol → Mol → Bool} {reps : List Mol} {m : Mol}
    (h : findRep shares reps m = none) : ∀ t ∈ reps, shares m t = false := by
  induction reps with
  | nil => simp
  | cons t ts ih =>
    simp only [findRep] at h
    split at h
    · cases h
    next hs =>
      intro t' ht'
      rcases List.mem_cons.mp ht' with rfl | ht'
      · simpa using hs
      · apply ih _ t' ht'
        cases hf : findRep shares ts m with
        | none => rfl
        | some j => rw [hf] at h; simp at h

theorem nameLoop_length (shares : Mol → Mol → Bool) (reps ms : List Mol) :
    (nameLoop shares reps ms).length = ms.length := by
  induction ms generalizing reps with
  | nil => rfl
  | cons a t ih =>
    simp only [nameLoop]
    split <;> simp [ih]

theorem nameLoop_spec (shares : Mol → Mol → Bool) (ms reps : List Mol) (i : Nat) (m : Mol) (g : Nat)
    (hm : ms[i]? = some m) (hg : (nameLoop shares reps ms)[i]? = some g) :
    (g < reps.length → ∃ t, reps[g]? = some t ∧ shares m t = true) ∧
    (reps.length ≤ g → ∃ r, ms[(nameLoop shares reps ms).idxOf g]? = some r ∧ (m = r ∨ shares m r = true)) := by
  induction ms generalizing reps i with
  | nil => simp at hm
  | cons a t ih =>
    simp only [nameLoop] at hg ⊢
    cases hfr : findRep shares reps a with
    | some j =>
      rw [hfr] at hg
      simp only [] at hg ⊢
      have hj := findRep_some_lt hfr
      cases i with
      | zero =>
        simp only [List.getElem?_cons_zero, Option.some.injEq] at hm hg
        subst hm hg
        exact ⟨fun _ => findRep_some hfr, fun h => absurd hj (by omega)⟩
      | succ i' =>
        simp only [List.getElem?_cons_succ] at hm hg
        obtain ⟨h1, h2⟩ := ih reps i' hm hg
        refine ⟨h1, fun hge => ?_⟩
        have hne : j ≠ g := by omega
        rw [idxOf_cons_ne _ hne, List.getElem?_cons_succ]
        exact h2 hge
    | none =>
      rw [hfr] at hg
      simp only [] at hg ⊢
      cases i with
      | zero =>
        simp only [List.getElem?_cons_zero, Option.some.injEq] at hm hg
        subst hm hg
        refine ⟨fun h => absurd h (by omega), fun _ => ⟨a, ?_, Or.inl rfl⟩⟩
        rw [idxOf_cons_eq]; rfl
      | succ i' =>
        simp only [List.getElem?_cons_succ] at hm hg
        obtain ⟨h1, h2⟩ := ih (reps ++ [a]) i' hm hg
        simp only [List.length_append, List.length_singleton] at h1 h2
        constructor
        · intro hlt
          obtain ⟨t', ht', hs⟩ := h1 (by omega)
          rw [List.getElem?_append_left hlt] at ht'
          exact ⟨t', ht', hs⟩
        · intro hge
          by_cases heq : g = reps.length
          · obtain ⟨t', ht', hs⟩ := h1 (by omega)
            rw [heq, List.getElem?_append_right (Nat.le_refl _)] at ht'
            simp only [Nat.sub_self, List.getElem?_cons_zero, Option.some.injEq] at ht'
            subst ht'
            refine ⟨a, ?_, Or.inr hs⟩
            rw [heq, idxOf_cons_eq]; rfl
          · have hne : reps.length ≠ g := fun e => heq e.symm
            rw [idxOf_cons_ne _ hne, List.getElem?_cons_succ]
            exact h2 (by omega)

theorem idxOf_range' (s n i : Nat) (h : i < n) : List.idxOf (s + i) (List.range' s n) = i := by
  induction n generalizing s i with
  | zero => omega
  | succ n ih =>
    rw [List.range'_succ]
    cases i with
    | zero => simp
    | succ i' =>
      have hne : s ≠ s + (i' + 1) := by omega
      rw [idxOf_cons_ne _ hne]
      have := ih (s + 1) i' (by omega)
      have e : s + 1 + i' = s + (i' + 1) := by omega
      rw [e] at this
      omega

/-! ### `share_moltype_with` under exact attributes -/

def isNumeric : Val → Bool
  | Val.int _ => true
  | Val.num _ => true
  | _ => false

/-- the numeric attribute values of the atoms that take part in the comparison -/
def numVals (l : List Atom) : List Val :=
  (l.flatMap (fun a => (keptAttrs a).map (·.2))).filter isNumeric

theorem valDiff_false_eq {close : Val → Val → Bool} {v v' : Val}
    (hex : isNumeric v = true → isNumeric v' = true → close v v' = true → v = v')
    (h : valDiff close v v' = false) : v = v' := by
  cases v <;> cases v' <;> simp_all [valDiff, isNumeric]

/-- the atom as `share_moltype_with` and the writers see it: ignored attributes removed -/
def strip (a : Atom) : Atom := { key := a.key, attrs := keptAttrs a }

theorem attrsSame_eq {close : Val → Val → Bool} (l l' : List (String × Val))
    (hex : ∀ x ∈ l.map (·.2), ∀ y ∈ l'.map (·.2), isNumeric x = true → isNumeric y = true → close x y = true → x = y)
    (h : attrsSame close l l' = true) : l = l' := by
  induction l generalizing l' with
  | nil => cases l' <;> simp_all [attrsSame]
  | cons p r ih =>
    cases l' with
    | nil => simp [attrsSame] at h
    | cons p' r' =>
      obtain ⟨k, v⟩ := p
      obtain ⟨k', v'⟩ := p'
      simp only [attrsSame, Bool.and_eq_true, beq_iff_eq, Bool.not_eq_true'] at h
      obtain ⟨⟨hk, hv⟩, hr⟩ := h
      have hvv : v = v' := valDiff_false_eq (hex v (by simp) v' (by simp)) hv
      have hrr : r = r' := ih r' (fun x hx y hy => hex x (by simp at hx ⊢; exact Or.inr hx) y (by simp at hy ⊢; exact Or.inr hy)) hr
      rw [hk, hvv, hrr]

theorem mem_numVals {l : List Atom} {a : Atom} {x : Val} (ha : a ∈ l) (hx : x ∈ (keptAttrs a).map (·.2))
    (hn : isNumeric x = true) : x ∈ numVals l := by
  unfold numVals
  rw [List.mem_filter]
  exact ⟨List.mem_flatMap.mpr ⟨a, ha, hx⟩, hn⟩

theorem nodesSame_eq {close : Val → Val → Bool} (l l' : List Atom)
    (hex : ∀ x ∈ numVals l, ∀ y ∈ numVals l', close x y = true → x = y)
    (h : nodesSame close l l' = true) : l.map strip = l'.map strip := by
  induction l generalizing l' with
  | nil => cases l' <;> simp_all [nodesSame]
  | cons a r ih =>
    cases l' with
    | nil => simp [nodesSame] at h
    | cons b r' =>
      simp only [nodesSame, Bool.and_eq_true, beq_iff_eq] at h
      obtain ⟨⟨hk, ha⟩, hr⟩ := h
      have h1 : keptAttrs a = keptAttrs b := by
        apply attrsSame_eq _ _ _ ha
        intro x hx y hy nx ny
        exact hex x (mem_numVals (List.mem_cons_self) hx nx) y (mem_numVals (List.mem_cons_self) hy ny)
      have h2 : r.map strip = r'.map strip := by
        apply ih r' _ hr
        intro x hx y hy
        unfold numVals at hx hy
        rw [List.mem_filter] at hx hy
        obtain ⟨a', ha', hxa⟩ := List.mem_flatMap.mp hx.1
        obtain ⟨b', hb', hyb⟩ := List.mem_flatMap.mp hy.1
        exact hex x (mem_numVals (List.mem_cons_of_mem _ ha') hxa hx.2) y (mem_numVals (List.mem_cons_of_mem _ hb') hyb hy.2)
      simp only [List.map_cons, h2, strip, hk, h1]

/-! the writers look only at attributes that are not ignored -/

theorem find_kept (attrs : List (String × Val)) (k : String) (hk : ignoreAttrs.contains k = false) :
    (attrs.filter (fun p => !ignoreAttrs.contains p.1)).find? (fun p => p.1 == k) = attrs.find? (fun p => p.1 == k) := by
  induction attrs with
  | nil => rfl
  | cons p r ih =>
    by_cases hp : p.1 = k
    · have : (!ignoreAttrs.contains p.1) = true := by rw [hp, hk]; rfl
      rw [List.filter_cons, this]
      simp [hp]
    · have hpk : (p.1 == k) = false := by simpa using hp
      by_cases hi : (!ignoreAttrs.contains p.1) = true
      · rw [List.filter_cons, hi]
        simp only [if_true, List.find?_cons, hpk]
        exact ih
      · have hi' : (!ignoreAttrs.contains p.1) = false := by simpa using hi
        rw [List.filter_cons, hi']
        simp only [Bool.false_eq_true, if_false, List.find?_cons, hpk]
        exact ih

theorem getAttr_strip (a : Atom) (k : String) (hk : ignoreAttrs.contains k = false) :
    getAttr (strip a) k = getAttr a k := by
  unfold getAttr strip keptAttrs
  simp only []
  rw [find_kept _ _ hk]

theorem atomidOf_strip (a : Atom) : atomidOf (strip a) = atomidOf a := by
  unfold atomidOf; rw [getAttr_strip _ _ (by decide)]

theorem recOf_strip (a : Atom) : recOf (strip a) = recOf a := by
  unfold recOf
  rw [getAttr_strip _ _ (by decide), getAttr_strip _ _ (by decide), getAttr_strip _ _ (by decide)]

theorem insertAtom_map_strip (x : Atom) (l : List Atom) :
    (insertAtom x l).map strip = insertAtom (strip x) (l.map strip) := by
  induction l with
  | nil => rfl
  | cons y ys ih =>
    simp only [insertAtom, List.map_cons, atomidOf_strip]
    split
    · rfl
    · simp only [List.map_cons, ih]

theorem sortedNodes_map_strip (l : List Atom) : (sortedNodes l).map strip = sortedNodes (l.map strip) := by
  induction l with
  | nil => rfl
  | cons x xs ih => simp only [sortedNodes, List.map_cons, insertAtom_map_strip, ih]

theorem writeAtoms_strip (m : Mol) : writeAtoms m = (sortedNodes (m.nodes.map strip)).map recOf := by
  unfold writeAtoms
  rw [← sortedNodes_map_strip, List.map_map]
  apply List.map_congr_left
  intro a _
  simp [recOf_strip]

/-! ### reading a coordinate file against the expanded `[ molecules ]` section -/

theorem flatMap_replicate {α β} (F : α → List β) (c : Nat) (g : α) :
    (List.replicate c g).flatMap F = (List.replicate c (F g)).flatten := by
  induction c with
  | zero => rfl
  | succ c ih => simp [List.replicate_succ, ih]

theorem flatMap_expand {α β} (F : α → List β) (gs : List (α × Nat)) :
    gs.flatMap (fun gc => (List.replicate gc.2 (F gc.1)).flatten)
      = (gs.flatMap (fun gc => List.replicate gc.2 gc.1)).flatMap F := by
  induction gs with
  | nil => rfl
  | cons gc r ih =>
    rw [List.flatMap_cons, List.flatMap_cons, List.flatMap_append, ih, flatMap_replicate]

theorem flatMap_pointwise {α β γ} (f : α → List γ) (g : β → List γ) (l1 : List α) (l2 : List β)
    (hlen : l1.length = l2.length)
    (h : ∀ (i : Nat) a b, l1[i]? = some a → l2[i]? = some b → f a = g b) :
    l1.flatMap f = l2.flatMap g := by
  induction l1 generalizing l2 with
  | nil => cases l2 with
    | nil => rfl
    | cons b r => simp at hlen
  | cons a r ih =>
    cases l2 with
    | nil => simp at hlen
    | cons b r' =>
      rw [List.flatMap_cons, List.flatMap_cons, h 0 a b rfl rfl]
      congr 1
      apply ih r' (by simpa using hlen)
      intro i a' b' ha hb
      exact h (i + 1) a' b' (by simpa using ha) (by simpa using hb)

end C03
