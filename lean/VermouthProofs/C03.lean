import VermouthModel.C03
namespace C03
end C03
