import VermouthProofs.C16
/-! TER records: the reader's fold over a file splits the atoms where the writer put TER. -/
namespace C16

/-- the reader takes `line` as an atom record and keeps atom `pa` -/
def ReadsAsAtom (L : PdbLayout) (excl : List (List Char)) (ignh : Bool) (line : List Char) (pa : PAtom) : Prop :=
  ∀ st, pdbStep L excl ignh st line = .ok { st with active := pa :: st.active }

/-- the reader takes `line` as the end of a molecule (TER / END / ENDMDL) -/
def ReadsAsFinish (L : PdbLayout) (excl : List (List Char)) (ignh : Bool) (line : List Char) : Prop :=
  ∀ st, pdbStep L excl ignh st line = .ok st.finish

theorem pdbFold_append (L : PdbLayout) (excl : List (List Char)) (ignh : Bool) :
    ∀ (a b : List (List Char)) (st : PState),
      pdbFold L excl ignh st (a ++ b) =
        (match pdbFold L excl ignh st a with
         | .ok st' => pdbFold L excl ignh st' b
         | .error e => .error e)
  | [], b, st => rfl
  | l :: a, b, st => by
      simp only [List.cons_append, pdbFold]
      cases h : pdbStep L excl ignh st l with
      | error e => rfl
      | ok st' => exact pdbFold_append L excl ignh a b st'

theorem pdbFold_atoms (L : PdbLayout) (excl : List (List Char)) (ignh : Bool) :
    ∀ (g : List (List Char × PAtom)) (st : PState),
      (∀ p ∈ g, ReadsAsAtom L excl ignh p.1 p.2) →
      pdbFold L excl ignh st (g.map Prod.fst) =
        .ok { st with active := (g.map Prod.snd).reverse ++ st.active }
  | [], st, _ => rfl
  | p :: g, st, h => by
      simp only [List.map_cons, pdbFold]
      rw [h p (by simp) st]
      show pdbFold L excl ignh _ (g.map Prod.fst) = _
      rw [pdbFold_atoms L excl ignh g _ (fun q hq => h q (by simp [hq]))]
      simp

/-- lines of a file: for every molecule its atom lines, then its TER line -/
def groupLines (groups : List (List (List Char × PAtom) × List Char)) : List (List Char) :=
  groups.flatMap fun g => g.1.map Prod.fst ++ [g.2]

theorem pdbFold_groups (L : PdbLayout) (excl : List (List Char)) (ignh : Bool) :
    ∀ (groups : List (List (List Char × PAtom) × List Char)) (st : PState), st.active = [] →
      (∀ g ∈ groups, g.1 ≠ [] ∧ (∀ p ∈ g.1, ReadsAsAtom L excl ignh p.1 p.2) ∧ ReadsAsFinish L excl ignh g.2) →
      pdbFold L excl ignh st (groupLines groups) =
        .ok { st with active := [], mols := (groups.map fun g => g.1.map Prod.snd).reverse ++ st.mols }
  | [], st, hact, _ => by
      cases st; simp only at hact; subst hact; rfl
  | g :: groups, st, hact, h => by
      obtain ⟨hne, hatoms, hfin⟩ := h g (by simp)
      unfold groupLines
      rw [List.flatMap_cons, pdbFold_append, pdbFold_append, pdbFold_atoms L excl ignh g.1 st hatoms]
      simp only [pdbFold]
      rw [hfin]
      have hactive : ((g.1.map Prod.snd).reverse ++ st.active) ≠ [] := by
        intro h0
        have := congrArg List.length h0
        simp at this
        exact hne this.1
      simp only [PState.finish, hactive, if_false, bind, Except.bind, pure, Except.pure]
      have ih := pdbFold_groups L excl ignh groups
        { active := [], mols := ((g.1.map Prod.snd).reverse ++ st.active).reverse :: st.mols, conects := st.conects }
        rfl (fun g' hg' => h g' (by simp [hg']))
      unfold groupLines at ih
      rw [ih, hact]
      simp

/-! ### which record a written line is taken for -/

theorem dropWhile_ws_append_of_all (p s : List Char) (hp : p.all isWs = true) :
    (p ++ s).dropWhile isWs = s.dropWhile isWs := by
  induction p with
  | nil => rfl
  | cons c p ih =>
    simp only [List.all_cons, Bool.and_eq_true] at hp
    simp only [List.cons_append, List.dropWhile_cons, hp.1, if_true]
    exact ih hp.2

theorem dropWhile_ws_append_of_exists (s t : List Char) (h : ∃ c ∈ s, isWs c = false) :
    (s ++ t).dropWhile isWs = s.dropWhile isWs ++ t := by
  induction s with
  | nil => obtain ⟨c, hc, _⟩ := h; cases hc
  | cons a s ih =>
    simp only [List.cons_append, List.dropWhile_cons]
    by_cases ha : isWs a = true
    · simp only [ha, if_true]
      apply ih
      obtain ⟨c, hc, hcw⟩ := h
      rcases List.mem_cons.mp hc with h1 | h1
      · subst h1; rw [ha] at hcw; cases hcw
      · exact ⟨c, h1, hcw⟩
    · simp [ha]

theorem stripR_append_allws (A X : List Char) (h : X.all isWs = true) : stripR (A ++ X) = stripR A := by
  unfold stripR
  rw [List.reverse_append, dropWhile_ws_append_of_all _ _ (by simpa using h)]

theorem stripR_append_nonws (A X : List Char) (h : ∃ c ∈ X, isWs c = false) :
    stripR (A ++ X) = A ++ stripR X := by
  unfold stripR
  rw [List.reverse_append, dropWhile_ws_append_of_exists _ _ (by simpa using h)]
  simp

theorem takeWhile_append_of_all {p : Char → Bool} (a b : List Char) (h : a.all p = true) :
    (a ++ b).takeWhile p = a ++ b.takeWhile p := by
  induction a with
  | nil => rfl
  | cons c a ih =>
    simp only [List.all_cons, Bool.and_eq_true] at h
    simp only [List.cons_append, List.takeWhile_cons, h.1, if_true, ih h.2]

theorem all_or_exists_nonws (X : List Char) : X.all isWs = true ∨ ∃ c ∈ X, isWs c = false := by
  induction X with
  | nil => left; rfl
  | cons c X ih =>
    by_cases hc : isWs c = true
    · rcases ih with h | ⟨d, hd, hdw⟩
      · left; simp [hc, h]
      · right; exact ⟨d, by simp [hd], hdw⟩
    · right; exact ⟨c, by simp, by simpa using hc⟩

/-- A line that starts with a six-column record name `q ++ b` (`q` without white space at its
ends, `b` blank, no '#') is recognised by that name whatever follows. -/
theorem record_name (q b X : List Char) (hlen : (q ++ b).length = 6)
    (hq : strip q = q) (hqL : stripL q = q) (hqne : q ≠ []) (hb : b.all isWs = true)
    (hhash : (q ++ b).all (· ≠ '#') = true) :
    decomment (q ++ b ++ X) ≠ [] ∧ strip ((decomment (q ++ b ++ X)).take 6) = q := by
  have hqR : stripR q = q := by unfold strip at hq; rw [hqL] at hq; exact hq
  unfold decomment
  rw [takeWhile_append_of_all (q ++ b) X (by simpa using hhash)]
  generalize X.takeWhile (fun c => decide (c ≠ '#')) = X'
  -- stripL does nothing: q starts with a non-blank
  have hL : ∀ Y : List Char, stripL (q ++ Y) = q ++ Y := by
    intro Y
    cases q with
    | nil => exact absurd rfl hqne
    | cons c q =>
      unfold stripL at hqL ⊢
      simp only [List.cons_append, List.dropWhile_cons] at hqL ⊢
      by_cases hc : isWs c = true
      · simp only [hc, if_true] at hqL
        have := congrArg List.length hqL
        have hle := (List.dropWhile_sublist (l := q) isWs).length_le
        simp at this; omega
      · simp [hc]
  have hlenq : q.length ≤ 6 := by simp at hlen; omega
  unfold strip
  rw [List.append_assoc, hL]
  rcases all_or_exists_nonws X' with hX | hX
  · have hbX : (b ++ X').all isWs = true := by simp [hb, hX]
    rw [stripR_append_allws _ _ hbX, hqR]
    refine ⟨hqne, ?_⟩
    rw [List.take_of_length_le hlenq, hqL, hqR]
  · rw [← List.append_assoc, stripR_append_nonws _ _ hX]
    refine ⟨by intro h0; have := congrArg List.length h0; simp at this; exact hqne this.1, ?_⟩
    rw [List.take_append, List.take_of_length_le (by omega), hlen]
    simp only [Nat.sub_self, List.take_zero, List.append_nil]
    rw [hL, stripR_append_allws _ _ hb, hqR]

/-! ### the comment-stripped, right-stripped line has the same columns as the line -/

theorem stripR_decomp (line : List Char) : ∃ t, line = stripR line ++ t ∧ t.all isWs = true := by
  refine ⟨(line.reverse.takeWhile isWs).reverse, ?_, ?_⟩
  · unfold stripR
    rw [← List.reverse_append, List.takeWhile_append_dropWhile, List.reverse_reverse]
  · have := all_takeWhile isWs line.reverse
    simpa using this

theorem stripL_append_ws (s q : List Char) (hq : q.all isWs = true) :
    stripL (s ++ q) = if stripL s = [] then [] else stripL s ++ q := by
  induction s with
  | nil =>
    have := dropWhile_ws_append_of_all q [] hq
    simp [stripL] at this ⊢
    exact this
  | cons c s ih =>
    unfold stripL at *
    simp only [List.cons_append, List.dropWhile_cons]
    by_cases hc : isWs c = true
    · simp only [hc, if_true]; exact ih
    · simp [hc]

theorem strip_append_ws (s q : List Char) (hq : q.all isWs = true) : strip (s ++ q) = strip s := by
  unfold strip
  rw [stripL_append_ws _ _ hq]
  split
  · rename_i h; rw [h]
  · exact stripR_append_allws _ _ hq

theorem strip_slice_append_ws (Y t : List Char) (a b : Nat) (ht : t.all isWs = true) :
    strip (slice (Y ++ t) a b) = strip (slice Y a b) := by
  unfold slice
  rw [List.drop_append, List.take_append]
  apply strip_append_ws
  rw [List.all_eq_true]
  intro c hc
  exact List.all_eq_true.mp ht c (List.mem_of_mem_drop (List.mem_of_mem_take hc))

theorem strip_slice_stripR (line : List Char) (a b : Nat) :
    strip (slice (stripR line) a b) = strip (slice line a b) := by
  obtain ⟨t, hl, ht⟩ := stripR_decomp line
  conv => rhs; rw [hl]
  exact (strip_slice_append_ws _ t a b ht).symm

theorem readFields_congr (rd : List Char → RSlice → Except Err RVal) (l l' : List Char)
    (slices : List RSlice) (h : ∀ sl ∈ slices, rd l sl = rd l' sl) :
    readFields rd l slices = readFields rd l' slices := by
  induction slices with
  | nil => rfl
  | cons sl rest ih =>
    simp only [readFields, h sl (by simp), ih (fun s hs => h s (by simp [hs]))]

/-- for a line without '#' that does not start with white space, parsing the line as the
dispatcher hands it over (comment-stripped, stripped) is parsing the line itself -/
theorem parseAtomLine_decomment (L : PdbLayout) (excl : List (List Char)) (ignh : Bool) (line : List Char)
    (hhash : line.all (· ≠ '#') = true) (hL : stripL line = line) :
    parseAtomLine L excl ignh (decomment line) = parseAtomLine L excl ignh line := by
  have hd : decomment line = stripR line := by
    unfold decomment
    have := takeWhile_append_of_all (p := fun c => decide (c ≠ '#')) line [] (by simpa using hhash)
    simp only [List.append_nil, List.takeWhile_nil] at this
    rw [this]
    unfold strip
    rw [hL]
  unfold parseAtomLine
  rw [hd, readFields_congr readFieldPdb (stripR line) line]
  intro sl _
  unfold readFieldPdb
  simp only [strip_slice_stripR]

theorem stripL_append_of (q Y : List Char) (hqL : stripL q = q) (hqne : q ≠ []) : stripL (q ++ Y) = q ++ Y := by
  cases q with
  | nil => exact absurd rfl hqne
  | cons c q =>
    unfold stripL at hqL ⊢
    simp only [List.cons_append, List.dropWhile_cons] at hqL ⊢
    by_cases hc : isWs c = true
    · simp only [hc, if_true] at hqL
      have := congrArg List.length hqL
      have hle := (List.dropWhile_sublist (l := q) isWs).length_le
      simp at this; omega
    · simp [hc]

end C16
