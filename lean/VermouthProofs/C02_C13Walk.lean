import VermouthProofs.C02_C13Lines
/-!
C02 ∘ C13 — the fused walk of the repo reader over the pieces the writer model produces:
atom rows, interaction lines, guard/group blocks, sections, left-over sections, the whole file.
Mirrors `VermouthProofs/C02_Run.lean` / `C02_Whole.lean` for the second reader.  Core Lean only.
-/
namespace C02.Repo
open C13

variable {tab : List Entry} {idxTab : List (String × List Idx)} {tbl : List (String × Arity)}

def addAtom (c : RCtx) (w : Widths) (k : Nat) (a : Atom) : RCtx :=
  { c with base := { c.base with nodes := c.base.nodes ++ [(toString k, [("atomname", JVal.str a.atomname)])] },
           rows := c.rows ++ [lineTokens (.atom w (k + 1) a)] }

def addInters (c : RCtx) (l : List C13.Inter) : RCtx :=
  { c with base := { c.base with inters := c.base.inters ++ l } }

theorem plain_toString (n : Nat) : plainTok (toString n) = true := by
  simp only [plainTok, List.all_eq_true, Bool.and_eq_true, bne_iff_ne, ne_eq]
  intro c hc
  have hd := (toString_digits n).2 c hc
  refine ⟨⟨?_, ?_⟩, ?_⟩ <;> (intro e; subst e; revert hd; decide)

/-! ### an atom row -/

theorem walk_atom (F : TabFacts tab idxTab tbl) (w : Widths) (k : Nat) (a : Atom)
    (hgood : lineGood (.atom w (k + 1) a) = true) (hrepo : atomRepoOk a = true) (haok : atomOk a = true)
    (i i0 : Nat) (c : RCtx) (bl : List (Option String × (Nat × RCtx)))
    (hk : c.base.nodes.map (·.1) = keysUpTo k) :
    walkX (paramsX idxTab tab) ⟨none, { sec := ["moleculetype", "atoms"], blk := some (i0, c), blocks := bl }, i⟩
        (cls (.atom w (k + 1) a))
      = some ⟨none, { sec := ["moleculetype", "atoms"], blk := some (i0, addAtom c w k a), blocks := bl }, i + 1⟩ := by
  have hok := lineOk_of_good _ hgood
  simp only [atomRepoOk, Bool.and_eq_true, Bool.or_eq_true] at hrepo
  obtain ⟨⟨⟨⟨⟨⟨⟨⟨⟨⟨p1, p2⟩, p3⟩, p4⟩, p5⟩, p6⟩, p7⟩, hri⟩, hcg⟩, hch⟩, hms⟩ := hrepo
  let extra := (if a.charge = "" then [] else [a.charge]) ++ (if a.mass = "" then [] else [a.mass])
  have htoks : lineTokens (.atom w (k + 1) a)
      = toString (k + 1) :: a.atype :: a.resid :: a.resname :: a.atomname :: a.cgnr :: extra := by
    simp [lineTokens, extra]
  have hplain : ∀ t ∈ lineTokens (.atom w (k + 1) a), plainTok t = true := by
    intro t ht
    rw [htoks] at ht
    simp only [List.mem_cons, extra, List.mem_append] at ht
    rcases ht with rfl | rfl | rfl | rfl | rfl | rfl | h | h
    · exact plain_toString _
    · exact p1
    · exact p4
    · exact p2
    · exact p3
    · exact p5
    · split at h <;> simp at h; subst h; exact p6
    · split at h <;> simp at h; subst h; exact p7
  have hextra : (extra.take 2).all pyFloatOk = true := by
    have e1 : ∀ s : String, s.isEmpty = true → s = "" := C02.isEmpty_iff_eq
    by_cases h1 : a.charge = "" <;> by_cases h2 : a.mass = ""
    · simp [extra, h1, h2]
    · simp [atomOk, h1, h2] at haok
    · rcases hch with h | h
      · exact absurd (e1 _ h) h1
      · simp [extra, h1, h2, h]
    · rcases hch with h | h
      · exact absurd (e1 _ h) h1
      · rcases hms with h' | h'
        · exact absurd (e1 _ h') h2
        · simp [extra, h1, h2, h, h']
  obtain ⟨c0, r, hstrip, hhead, htok, _⟩ := written_tokens _ hok (Or.inl ⟨w, k + 1, a, rfl⟩) hplain _ _ htoks
  obtain ⟨d1, _, d3⟩ := digit_head (k + 1) c0 hhead
  rw [walk_content_line _ _ (by intro n h; cases h) c0 r hstrip d1]
  rw [htoks] at htok
  have hdec : (decodeMeta (encodeMeta none (String.ofList (c0 :: r)))).2 = String.ofList (c0 :: r) := by
    rw [decode_encode_none _ (by simp [d3])]
  obtain ⟨e, he, _⟩ := F.atoms
  have hh2 : (paramsX idxTab tab).handle ["moleculetype", "atoms"]
      (encodeMeta none (String.ofList (c0 :: r))) c = _ :=
    handleX_atom F c _ _ k _ _ _ _ _ extra hdec htok hk hri hcg hextra
  rw [itpContent_ok (paramsX idxTab tab) { sec := ["moleculetype", "atoms"], blk := some (i0, c), blocks := bl }
    _ i0 c _ (findEntry_mem he) rfl hh2]
  simp only [Option.map_some, addAtom, htoks]

/-! ### an interaction line -/

theorem splitAtoms_written (ar : Arity) (w : Nat) (vsn : Bool) (idxs : List Nat) (params : List String)
    (cm : Option String) (har : C02.arityFits ar idxs.length params) (hv : (ar = .firstSkip) ↔ (vsn = true)) :
    C02.splitAtoms ar (lineTokens (.inter w vsn idxs params cm))
        = some (idxs.map (fun (i : Nat) => toString i), params)
    ∧ ∃ a rest, idxs = a :: rest ∧ ∃ tl, lineTokens (.inter w vsn idxs params cm) = toString a :: tl := by
  cases ar with
  | fixed k =>
    have hb : vsn = false := by
      cases vsn with
      | false => rfl
      | true => have := hv.mpr rfl; cases this
    subst hb
    obtain ⟨hk, hk1⟩ := har
    cases idxs with
    | nil => simp at hk; omega
    | cons a rest =>
      refine ⟨?_, a, rest, rfl, rest.map (fun (i : Nat) => toString i) ++ params, by simp [lineTokens]⟩
      simp only [lineTokens, Bool.false_eq_true, if_false, C02.splitAtoms]
      have hlen : ¬ (((a :: rest).map (fun (i : Nat) => toString i) ++ params).length < k) := by
        simp only [List.length_append, List.length_map, List.length_cons] at hk ⊢; omega
      rw [if_neg hlen, List.take_left' (by simpa using hk), List.drop_left' (by simpa using hk)]
  | all =>
    have hb : vsn = false := by
      cases vsn with
      | false => rfl
      | true => have := hv.mpr rfl; cases this
    subst hb
    obtain ⟨hp, hk⟩ := har
    subst hp
    cases idxs with
    | nil => simp at hk
    | cons a rest =>
      refine ⟨?_, a, rest, rfl, rest.map (fun (i : Nat) => toString i), by simp [lineTokens]⟩
      simp [lineTokens, C02.splitAtoms]
  | firstSkip =>
    have hb : vsn = true := hv.mp rfl
    subst hb
    obtain ⟨hp, hk⟩ := har
    cases idxs with
    | nil => simp at hk
    | cons a rest =>
      match params, hp with
      | [p], _ =>
        refine ⟨?_, a, rest, rfl, p :: rest.map (fun (i : Nat) => toString i), by simp [lineTokens]⟩
        simp [lineTokens, C02.splitAtoms]

theorem mem_interTokens (w : Nat) (vsn : Bool) (idxs : List Nat) (params : List String) (cm : Option String)
    (t : String) (h : t ∈ lineTokens (.inter w vsn idxs params cm)) :
    t ∈ idxs.map (fun (i : Nat) => toString i) ∨ t ∈ params := by
  cases vsn with
  | false => simpa [lineTokens] using h
  | true =>
    cases idxs with
    | nil => right; simpa [lineTokens] using h
    | cons a rest =>
      simp [lineTokens] at h ⊢
      rcases h with h | h | h
      · exact Or.inl (Or.inl h)
      · exact Or.inr h
      · exact Or.inl (Or.inr h)

/-- the record `_base_parser` appends for an in-memory interaction -/
def interRec (corr : List (Int × Nat)) (s : String) (pm : PMeta) (it : Inter) : C13.Inter :=
  { sect := s, atoms := (C02.idxsOf corr it).map (fun (n : Nat) => toString (n - 1)), params := it.params,
    pmeta := pm }

theorem walk_inter (F : TabFacts tab idxTab tbl) (corr : List (Int × Nat)) (w : Nat) (sname : String) (ar : Arity)
    (hs : (sname, ar) ∈ tbl) (hv : (ar = .firstSkip) ↔ (sname = "virtual_sitesn")) (it : Inter) (N : Nat)
    (hr : C02.InterReady corr N ar it) (hpl : it.params.all plainTok = true) (hch : C02.interChars it = true)
    (pm : PMeta) (hpm : MetaOk pm) (i i0 : Nat) (c : RCtx) (bl : List (Option String × (Nat × RCtx)))
    (hsnap : c.base.snapshot = keysUpTo N) :
    walkX (paramsX idxTab tab) ⟨pm, { sec := ["moleculetype", sname], blk := some (i0, c), blocks := bl }, i⟩
        (cls (C02.interLine corr w (sname == "virtual_sitesn") it))
      = some ⟨pm, { sec := ["moleculetype", sname], blk := some (i0, addInters c [interRec corr sname pm it]),
                    blocks := bl }, i + 1⟩ := by
  have hne' : (C02.idxsOf corr it).isEmpty = false := by
    have hl := C02.idxsOf_length hr
    have hn := hr.nonempty
    cases hf : C02.idxsOf corr it with
    | nil => rw [hf] at hl; exact absurd (List.eq_nil_of_length_eq_zero hl.symm) hn
    | cons _ _ => rfl
  simp only [C02.interChars, Bool.and_eq_true] at hch
  obtain ⟨⟨⟨⟨hp, _⟩, _⟩, _⟩, hcm⟩ := hch
  have hgood : lineGood (C02.interLine corr w (sname == "virtual_sitesn") it) = true := by
    simp [C02.interLine, lineGood, hp, hcm, hne']
  have hok := lineOk_of_good _ hgood
  have hv' : (ar = .firstSkip) ↔ ((sname == "virtual_sitesn") = true) := by
    rw [hv]; simp
  obtain ⟨hsplit, a, rest, hidx, tl, htl⟩ := splitAtoms_written ar w (sname == "virtual_sitesn")
    (C02.idxsOf corr it) it.params it.comment (by rw [C02.idxsOf_length hr]; exact hr.fits) hv'
  have hplain : ∀ t ∈ lineTokens (C02.interLine corr w (sname == "virtual_sitesn") it), plainTok t = true := by
    intro t ht
    have : t ∈ (C02.idxsOf corr it).map (fun (i : Nat) => toString i) ∨ t ∈ it.params :=
      mem_interTokens _ _ _ _ _ t ht
    rcases this with h | h
    · simp only [List.mem_map] at h
      obtain ⟨n, _, rfl⟩ := h
      exact plain_toString n
    · exact (List.all_eq_true.mp hpl) t h
  obtain ⟨c0, r, hstrip, hhead, htok, _⟩ := written_tokens _ hok
    (Or.inr ⟨w, _, _, _, _, rfl⟩) hplain (toString a) tl htl
  obtain ⟨d1, _, d3⟩ := digit_head a c0 hhead
  rw [walk_content_line _ _ (by intro n h; simp [C02.interLine] at h) c0 r hstrip d1]
  have hdec := decode_encode pm (String.ofList (c0 :: r)) hpm (by simp [d3])
  have hrefs := mapM_itpRef c.base N hsnap (C02.idxsOf corr it) (C02.idxsOf_range hr)
  obtain ⟨e, he, _⟩ := F.inter sname ar hs
  have hh2 : (paramsX idxTab tab).handle ["moleculetype", sname]
      (encodeMeta pm (String.ofList (c0 :: r))) c = _ :=
    handleX_inter F c sname ar hs _ _ pm hdec _ htok _ _ hsplit _ hrefs
  rw [itpContent_ok (paramsX idxTab tab) { sec := ["moleculetype", sname], blk := some (i0, c), blocks := bl }
    _ i0 c _ (findEntry_mem he) rfl hh2]
  rfl

end C02.Repo
