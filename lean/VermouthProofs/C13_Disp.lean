import VermouthModel.C13
/-!
C13 — specification of the `FFDirector` section dispatcher and the proofs that the repaired
dispatcher (`ffRun`) meets it.  Core Lean only.

* `linkSpec`, `blockSpec`, `modSpec`: what a reader of a `.ff` file expects the dispatcher to
  produce (declarative, by one pass over the lines, no `pending` flag, no registration at
  intermediate headers);
* `ff_links_spec`, `ff_blocks_spec`, `ff_mods_spec`: a successful run produces exactly that;
* `decl_links_once_in_order`: every `[ link ]` header yields exactly one link, in file order;
* negation witnesses for the two earlier dispatchers.
-/
namespace C13
variable {C G : Type}

/-! ## Specification functions -/

/-- handler application that ignores failure (under a successful run every call succeeded) -/
def applyH (P : Params C G) (k : Kind) (sec : Path) (t : String) (c : C) : C :=
  (P.handle k sec t c).getD c

/-- SPEC for links: each `[ link ]` header (a header whose name is "link"; it is top-level because
`["link"] ∈ T`) opens a link that receives the lines routed to `.link` until the next top-level
header (name `n` with `[n] ∈ T`) or the end of the file, and is emitted exactly then.
`cur` = the link whose section is still open. -/
def linkSpec (P : Params C G) : Path → Option (Nat × C) → Nat → List Line → List (Nat × C)
  | _, cur, _, [] => cur.toList
  | sec, cur, i, .header n :: r =>
    if P.T.contains [n] then
      cur.toList ++ linkSpec P [n] (if n = "link" then some (i, P.fresh .link) else none) (i+1) r
    else linkSpec P (reducePath P.T sec n) cur (i+1) r
  | sec, cur, i, .content t :: r =>
    linkSpec P sec
      (if P.route sec = .link then cur.map (fun b => (b.1, applyH P .link sec t b.2)) else cur) (i+1) r

/-- SPEC for blocks: each `[ moleculetype ]` header opens a block that receives the lines routed to
`.block` until the next `[ moleculetype ]` header or the end of file (the object stays the parser's
current block until replaced). -/
def blockSpec (P : Params C G) : Path → Option (Nat × C) → Nat → List Line → List (Nat × C)
  | _, cur, _, [] => cur.toList
  | sec, cur, i, .header n :: r =>
    if n = "moleculetype" then
      cur.toList ++ blockSpec P ["moleculetype"] (some (i, P.fresh .block)) (i+1) r
    else blockSpec P (nextSec P.T sec n) cur (i+1) r
  | sec, cur, i, .content t :: r =>
    blockSpec P sec
      (if P.route sec = .block then cur.map (fun b => (b.1, applyH P .block sec t b.2)) else cur) (i+1) r

/-- SPEC for modifications: each `[ modification ]` header opens a modification that receives the
lines routed to `.modification` until the next `[ modification ]` header or the end of file. -/
def modSpec (P : Params C G) : Path → Option (Nat × C) → Nat → List Line → List (Nat × C)
  | _, cur, _, [] => cur.toList
  | sec, cur, i, .header n :: r =>
    if n = "modification" then
      cur.toList ++ modSpec P ["modification"] (some (i, P.fresh .modification)) (i+1) r
    else modSpec P (nextSec P.T sec n) cur (i+1) r
  | sec, cur, i, .content t :: r =>
    modSpec P sec
      (if P.route sec = .modification then
        cur.map (fun b => (b.1, applyH P .modification sec t b.2)) else cur) (i+1) r

/-- indices (starting at `i`) of the headers named `name` -/
def hdrIdxs (name : String) : Nat → List Line → List Nat
  | _, [] => []
  | i, .header n :: r => if n = name then i :: hdrIdxs name (i+1) r else hdrIdxs name (i+1) r
  | i, .content _ :: r => hdrIdxs name (i+1) r

/-- the three top-level declaration headers are in the dispatch table -/
def TopOk (T : List Path) : Prop :=
  T.contains ["moleculetype"] = true ∧ T.contains ["link"] = true ∧ T.contains ["modification"] = true

/-- a handler never changes the registered name of a context outside the top-level section `[top]`
itself -/
def NameStable (P : Params C G) (k : Kind) (top : String) : Prop :=
  ∀ sec t c c', sec ≠ [top] → P.handle k sec t c = some c' → P.nameOf c' = P.nameOf c

/-! ## `hdrIdxs` -/

theorem hdrIdxs_ge (name : String) (i : Nat) (lines : List Line) :
    ∀ j ∈ hdrIdxs name i lines, i ≤ j := by
  induction lines generalizing i with
  | nil => intro j hj; simp [hdrIdxs] at hj
  | cons l r ih =>
    intro j hj
    cases l with
    | header n =>
      simp only [hdrIdxs] at hj
      split at hj
      · rcases List.mem_cons.mp hj with h | h
        · omega
        · have := ih (i+1) j h; omega
      · have := ih (i+1) j hj; omega
    | content t =>
      simp only [hdrIdxs] at hj
      have := ih (i+1) j hj; omega

theorem hdrIdxs_strict (name : String) (i : Nat) (lines : List Line) :
    (hdrIdxs name i lines).Pairwise (· < ·) := by
  induction lines generalizing i with
  | nil => simp [hdrIdxs]
  | cons l r ih =>
    cases l with
    | header n =>
      simp only [hdrIdxs]
      split
      · refine List.pairwise_cons.mpr ⟨?_, ih (i+1)⟩
        intro j hj
        have := hdrIdxs_ge name (i+1) r j hj; omega
      · exact ih (i+1)
    | content t => simp only [hdrIdxs]; exact ih (i+1)

/-! ## `reducePath` -/

theorem reduceRev_head (T : List Path) (last : String) (l : List String) :
    ∃ m, reduceRev T last l = last :: m := by
  induction l with
  | nil => exact ⟨[], rfl⟩
  | cons r rest ih =>
    simp only [reduceRev]
    split
    · exact ⟨_, rfl⟩
    · exact ih

theorem reducePath_getLast? (T : List Path) (sec : Path) (n : String) :
    (reducePath T sec n).getLast? = some n := by
  obtain ⟨m, hm⟩ := reduceRev_head T n sec.reverse
  simp [reducePath, hm]

theorem reducePath_eq_singleton {T : List Path} {sec : Path} {n x : String}
    (h : reducePath T sec n = [x]) : n = x := by
  have := reducePath_getLast? T sec n
  rw [h] at this
  simpa using this.symm

theorem reducePath_ne_nil (T : List Path) (sec : Path) (n : String) : reducePath T sec n ≠ [] := by
  intro h
  have := reducePath_getLast? T sec n
  rw [h] at this
  simp at this

theorem nextSec_ne_nil (T : List Path) (sec : Path) (n : String) : nextSec T sec n ≠ [] := by
  unfold nextSec
  split
  · simp
  · exact reducePath_ne_nil T sec n

theorem nextSec_eq_singleton {T : List Path} {sec : Path} {n x : String}
    (h : nextSec T sec n = [x]) : n = x := by
  unfold nextSec at h
  split at h
  · simpa using h
  · exact reducePath_eq_singleton h

/-! ## One-step lemmas on the dispatcher -/

theorem ffRunFromWith_nil (fin : Params C G → St C G → Path → St C G) (P : Params C G) (s : St C G)
    (i : Nat) : ffRunFromWith fin P s i [] = some (fin P s s.sec) := rfl

theorem ffRunFromWith_header (fin : Params C G → St C G → Path → St C G) (P : Params C G)
    (s : St C G) (i : Nat) (n : String) (r : List Line) :
    ffRunFromWith fin P s i (.header n :: r) = ffRunFromWith fin P (ffHeaderWith fin P s i n) (i+1) r :=
  rfl

theorem ffRunFromWith_content (fin : Params C G → St C G → Path → St C G) (P : Params C G)
    (s : St C G) (i : Nat) (t : String) (r : List Line) :
    ffRunFromWith fin P s i (.content t :: r) =
      (ffContent P s t).bind fun s' => ffRunFromWith fin P s' (i+1) r := by
  simp only [ffRunFromWith, ffStepWith]
  cases ffContent P s t <;> rfl

/-- the link that is open and not yet registered -/
def curL (s : St C G) : Option (Nat × C) := if s.pending then s.lnk else none

theorem ffFinalize_sec (P : Params C G) (s : St C G) (p : Path) : (ffFinalize P s p).sec = s.sec := rfl
theorem ffFinalize_blk (P : Params C G) (s : St C G) (p : Path) : (ffFinalize P s p).blk = s.blk := rfl
theorem ffFinalize_mod (P : Params C G) (s : St C G) (p : Path) : (ffFinalize P s p).mod = s.mod := rfl

theorem ffFinalize_links (P : Params C G) (s : St C G) (p : Path) :
    (ffFinalize P s p).links = s.links ++ (curL s).toList := by
  unfold ffFinalize curL
  cases h : s.lnk <;> cases hp : s.pending <;> simp

theorem ffFinalize_curL (P : Params C G) (s : St C G) (p : Path) :
    curL (ffFinalize P s p) = none := by
  unfold ffFinalize curL
  cases h : s.lnk <;> cases hp : s.pending <;> simp

theorem ffFinalize_blocks (P : Params C G) (s : St C G) (p : Path) :
    (ffFinalize P s p).blocks = s.blk.toList.foldl (fun d b => dictSet d (P.nameOf b.2) b) s.blocks := by
  unfold ffFinalize
  cases h : s.blk <;> simp

theorem ffFinalize_mods (P : Params C G) (s : St C G) (p : Path) :
    (ffFinalize P s p).mods = s.mod.toList.foldl (fun d b => dictSet d (P.nameOf b.2) b) s.mods := by
  unfold ffFinalize
  cases h : s.mod <;> simp

theorem ffAction_sec (P : Params C G) (s : St C G) (i : Nat) : (ffAction P s i).sec = s.sec := by
  unfold ffAction; (repeat' split) <;> rfl

theorem ffAction_links (P : Params C G) (s : St C G) (i : Nat) : (ffAction P s i).links = s.links := by
  unfold ffAction; (repeat' split) <;> rfl

theorem ffAction_blocks (P : Params C G) (s : St C G) (i : Nat) : (ffAction P s i).blocks = s.blocks := by
  unfold ffAction; (repeat' split) <;> rfl

theorem ffAction_mods (P : Params C G) (s : St C G) (i : Nat) : (ffAction P s i).mods = s.mods := by
  unfold ffAction; (repeat' split) <;> rfl

theorem ffAction_curL (P : Params C G) (s : St C G) (i : Nat) :
    curL (ffAction P s i) = if s.sec = ["link"] then some (i, P.fresh .link) else curL s := by
  unfold ffAction curL
  by_cases h1 : s.sec = ["moleculetype"]
  · simp [h1]
  · by_cases h2 : s.sec = ["link"]
    · simp [h2]
    · by_cases h3 : s.sec = ["modification"] <;> simp [h1, h2, h3]

theorem ffAction_blk (P : Params C G) (s : St C G) (i : Nat) :
    (ffAction P s i).blk = if s.sec = ["moleculetype"] then some (i, P.fresh .block) else s.blk := by
  unfold ffAction
  by_cases h1 : s.sec = ["moleculetype"]
  · simp [h1]
  · by_cases h2 : s.sec = ["link"]
    · simp [h2]
    · by_cases h3 : s.sec = ["modification"] <;> simp [h1, h2, h3]

theorem ffAction_mod (P : Params C G) (s : St C G) (i : Nat) :
    (ffAction P s i).mod =
      if s.sec = ["modification"] then some (i, P.fresh .modification) else s.mod := by
  unfold ffAction
  by_cases h1 : s.sec = ["moleculetype"]
  · simp [h1]
  · by_cases h2 : s.sec = ["link"]
    · simp [h2]
    · by_cases h3 : s.sec = ["modification"] <;> simp [h1, h2, h3]

theorem ffHeader_sec (P : Params C G) (s : St C G) (i : Nat) (n : String) :
    (ffHeaderWith ffFinalize P s i n).sec = nextSec P.T s.sec n := by
  unfold ffHeaderWith nextSec
  split <;> simp [ffAction_sec]

/-! ## Links -/

theorem ffHeader_links_top (P : Params C G) (s : St C G) (i : Nat) (n : String)
    (hn : P.T.contains [n] = true) (hinv : s.sec = [] → s.pending = false) :
    (ffHeaderWith ffFinalize P s i n).links = s.links ++ (curL s).toList ∧
    curL (ffHeaderWith ffFinalize P s i n) = if n = "link" then some (i, P.fresh .link) else none := by
  unfold ffHeaderWith
  simp only [hn, if_true, ffAction_links, ffAction_curL]
  by_cases h0 : s.sec = []
  · have hp := hinv h0
    simp [h0, curL, hp]
  · simp only [h0, if_false]
    refine ⟨ffFinalize_links P s _, ?_⟩
    have : curL { ffFinalize P s s.sec with sec := [n] } = none := ffFinalize_curL P s s.sec
    rw [this]
    simp

theorem ffHeader_links_sub (P : Params C G) (s : St C G) (i : Nat) (n : String) (hT : TopOk P.T)
    (hn : P.T.contains [n] = false) :
    (ffHeaderWith ffFinalize P s i n).links = s.links ∧
    curL (ffHeaderWith ffFinalize P s i n) = curL s := by
  unfold ffHeaderWith
  simp only [hn, Bool.false_eq_true, if_false, ffAction_links, ffAction_curL]
  refine ⟨trivial, ?_⟩
  have hne : reducePath P.T s.sec n ≠ ["link"] := by
    intro h
    have := reducePath_eq_singleton h
    subst this
    rw [hT.2.1] at hn
    cases hn
  simp [hne, curL]

theorem ffContent_links (P : Params C G) (s s' : St C G) (t : String) (h : ffContent P s t = some s') :
    s'.sec = s.sec ∧ s'.links = s.links ∧ s'.pending = s.pending ∧
    curL s' = if P.route s.sec = .link then
        (curL s).map (fun b => (b.1, applyH P .link s.sec t b.2)) else curL s := by
  unfold ffContent at h
  split at h
  · cases h
  · split at h
    next hr =>
      simp only [Option.map_eq_some_iff] at h
      obtain ⟨g', _, rfl⟩ := h
      simp [hr, curL]
    next hr =>
      split at h
      · cases h
      · simp only [Option.map_eq_some_iff] at h
        obtain ⟨c', _, rfl⟩ := h
        simp [hr, curL]
    next hr =>
      split at h
      · cases h
      next i c hl =>
        simp only [Option.map_eq_some_iff] at h
        obtain ⟨c', hc, rfl⟩ := h
        simp [hr, curL, hl, applyH, hc]
    next hr =>
      split at h
      · cases h
      · simp only [Option.map_eq_some_iff] at h
        obtain ⟨c', _, rfl⟩ := h
        simp [hr, curL]

theorem ff_links_from (P : Params C G) (hT : TopOk P.T) (rest : List Line) :
    ∀ (s s' : St C G) (i : Nat), (s.sec = [] → s.pending = false) →
      ffRunFromWith ffFinalize P s i rest = some s' →
      s'.links = s.links ++ linkSpec P s.sec (curL s) i rest := by
  induction rest with
  | nil =>
    intro s s' i _ h
    rw [ffRunFromWith_nil] at h
    cases h
    simp [linkSpec, ffFinalize_links]
  | cons l r ih =>
    intro s s' i hinv h
    cases l with
    | header n =>
      rw [ffRunFromWith_header] at h
      have hsec := ffHeader_sec P s i n
      have hinv' : (ffHeaderWith ffFinalize P s i n).sec = [] →
          (ffHeaderWith ffFinalize P s i n).pending = false := by
        intro h0; rw [hsec] at h0; exact absurd h0 (nextSec_ne_nil _ _ _)
      have := ih _ _ _ hinv' h
      rw [this, hsec]
      by_cases hn : P.T.contains [n] = true
      · obtain ⟨h1, h2⟩ := ffHeader_links_top P s i n hn hinv
        rw [h1, h2]
        simp only [linkSpec, nextSec, hn, if_true, List.append_assoc]
      · have hn' : P.T.contains [n] = false := by simpa using hn
        obtain ⟨h1, h2⟩ := ffHeader_links_sub P s i n hT hn'
        rw [h1, h2]
        simp only [linkSpec, nextSec, hn', Bool.false_eq_true, if_false]
    | content t =>
      rw [ffRunFromWith_content] at h
      cases hc : ffContent P s t with
      | none => rw [hc] at h; cases h
      | some s1 =>
        rw [hc] at h
        simp only [Option.bind_some] at h
        obtain ⟨h1, h2, h3, h4⟩ := ffContent_links P s s1 t hc
        have := ih s1 s' (i+1) (by rw [h1, h3]; exact hinv) h
        rw [this, h1, h2, h4]
        simp [linkSpec]

/-- **Links specification**: a successful run of the repaired dispatcher emits exactly the links of
`linkSpec`. -/
theorem ff_links_spec (P : Params C G) (g0 : G) (lines : List Line) (s : St C G)
    (hT : TopOk P.T) (h : ffRun P g0 lines = some s) : s.links = linkSpec P [] none 0 lines := by
  have := ff_links_from P hT lines { g := g0 } s 0 (fun _ => rfl) h
  simpa [curL] using this

theorem linkSpec_hdrs_gen (P : Params C G) (hT : TopOk P.T) (lines : List Line) :
    ∀ (sec : Path) (cur : Option (Nat × C)) (i : Nat),
      (linkSpec P sec cur i lines).map (·.1) = cur.toList.map (·.1) ++ hdrIdxs "link" i lines := by
  induction lines with
  | nil => intro sec cur i; simp [linkSpec, hdrIdxs]
  | cons l r ih =>
    intro sec cur i
    cases l with
    | header n =>
      simp only [linkSpec, hdrIdxs]
      by_cases hn : P.T.contains [n] = true
      · simp only [hn, if_true, List.map_append, ih]
        by_cases hl : n = "link" <;> simp [hl]
      · have hl : n ≠ "link" := by
          intro hl; subst hl; exact hn hT.2.1
        have hn' : P.T.contains [n] = false := by simpa using hn
        simp only [hn', Bool.false_eq_true, if_false, hl, ih]
    | content t =>
      simp only [linkSpec, hdrIdxs, ih]
      split
      · cases cur <;> simp
      · rfl

theorem linkSpec_hdrs (P : Params C G) (hT : TopOk P.T) (sec : Path) (i : Nat) (lines : List Line) :
    (linkSpec P sec none i lines).map (·.1) = hdrIdxs "link" i lines := by
  simpa using linkSpec_hdrs_gen P hT lines sec none i

/-- every `[ link ]` header yields exactly one link, in file order -/
theorem decl_links_once_in_order (P : Params C G) (g0 : G) (lines : List Line) (s : St C G)
    (hT : TopOk P.T) (h : ffRun P g0 lines = some s) :
    s.links.map (·.1) = hdrIdxs "link" 0 lines := by
  rw [ff_links_spec P g0 lines s hT h, linkSpec_hdrs P hT]

/-! ## Blocks and modifications

Both follow the same pattern (a "current" object replaced by its own top-level header and registered
in a dict at every top-level header and at the end of the file), so the argument is done once for
a generic declaration kind `k` opened by the header `top`, seen through the accessors `cur`
(current object) and `reg` (the dict). -/

/-- generic form of `blockSpec` / `modSpec` -/
def declSpec (P : Params C G) (k : Kind) (top : String) :
    Path → Option (Nat × C) → Nat → List Line → List (Nat × C)
  | _, cur, _, [] => cur.toList
  | sec, cur, i, .header n :: r =>
    if n = top then cur.toList ++ declSpec P k top [top] (some (i, P.fresh k)) (i+1) r
    else declSpec P k top (nextSec P.T sec n) cur (i+1) r
  | sec, cur, i, .content t :: r =>
    declSpec P k top sec
      (if P.route sec = k then cur.map (fun b => (b.1, applyH P k sec t b.2)) else cur) (i+1) r

theorem blockSpec_eq_declSpec (P : Params C G) (lines : List Line) :
    ∀ sec cur i, blockSpec P sec cur i lines = declSpec P .block "moleculetype" sec cur i lines := by
  induction lines with
  | nil => intros; rfl
  | cons l r ih => intro sec cur i; cases l <;> simp only [blockSpec, declSpec, ih]

theorem modSpec_eq_declSpec (P : Params C G) (lines : List Line) :
    ∀ sec cur i, modSpec P sec cur i lines = declSpec P .modification "modification" sec cur i lines := by
  induction lines with
  | nil => intros; rfl
  | cons l r ih => intro sec cur i; cases l <;> simp only [modSpec, declSpec, ih]

theorem declSpec_hdrs_gen (P : Params C G) (k : Kind) (top : String) (lines : List Line) :
    ∀ (sec : Path) (cur : Option (Nat × C)) (i : Nat),
      (declSpec P k top sec cur i lines).map (·.1) = cur.toList.map (·.1) ++ hdrIdxs top i lines := by
  induction lines with
  | nil => intro sec cur i; simp [declSpec, hdrIdxs]
  | cons l r ih =>
    intro sec cur i
    cases l with
    | header n =>
      simp only [declSpec, hdrIdxs]
      by_cases hl : n = top <;> simp [hl, ih]
    | content t =>
      simp only [declSpec, hdrIdxs, ih]
      split
      · cases cur <;> simp
      · rfl

theorem blockSpec_hdrs (P : Params C G) (sec : Path) (i : Nat) (lines : List Line) :
    (blockSpec P sec none i lines).map (·.1) = hdrIdxs "moleculetype" i lines := by
  rw [blockSpec_eq_declSpec]; simpa using declSpec_hdrs_gen P .block "moleculetype" lines sec none i

theorem modSpec_hdrs (P : Params C G) (sec : Path) (i : Nat) (lines : List Line) :
    (modSpec P sec none i lines).map (·.1) = hdrIdxs "modification" i lines := by
  rw [modSpec_eq_declSpec]
  simpa using declSpec_hdrs_gen P .modification "modification" lines sec none i

theorem dictSet_dictSet {K V : Type} [DecidableEq K] (d : List (K × V)) (k : K) (v v' : V) :
    dictSet (dictSet d k v) k v' = dictSet d k v' := by
  induction d with
  | nil => simp [dictSet]
  | cons e rest ih =>
    obtain ⟨k', w⟩ := e
    by_cases h : k' = k
    · simp [dictSet, h]
    · simp [dictSet, h, ih]

/-- registration step of the dict -/
def regStep (P : Params C G) (d : List (Option String × (Nat × C))) (b : Nat × C) :
    List (Option String × (Nat × C)) := dictSet d (P.nameOf b.2) b

theorem applyH_name (P : Params C G) (k : Kind) (top : String) (hS : NameStable P k top)
    (sec : Path) (hsec : sec ≠ [top]) (t : String) (c : C) :
    P.nameOf (applyH P k sec t c) = P.nameOf c := by
  unfold applyH
  cases h : P.handle k sec t c with
  | none => rfl
  | some c' => exact hS sec t c c' hsec h

/-- outside its own top-level section the open object keeps its index and name up to its emission,
which is the first emission that follows -/
theorem declSpec_head (P : Params C G) (k : Kind) (top : String) (hS : NameStable P k top)
    (lines : List Line) :
    ∀ (sec : Path) (b : Nat × C) (i : Nat), sec ≠ [top] →
      ∃ b' tail, declSpec P k top sec (some b) i lines = b' :: tail ∧
        P.nameOf b'.2 = P.nameOf b.2 ∧ b'.1 = b.1 := by
  induction lines with
  | nil => intro sec b i _; exact ⟨b, [], rfl, rfl, rfl⟩
  | cons l r ih =>
    intro sec b i hsec
    cases l with
    | header n =>
      simp only [declSpec]
      by_cases hn : n = top
      · simp only [hn, if_true]; exact ⟨b, _, rfl, rfl, rfl⟩
      · simp only [hn, if_false]
        apply ih
        intro h; exact hn (nextSec_eq_singleton h)
    | content t =>
      simp only [declSpec]
      by_cases hr : P.route sec = k
      · simp only [hr, if_true, Option.map_some]
        obtain ⟨b', tail, h1, h2, h3⟩ := ih sec (b.1, applyH P k sec t b.2) (i+1) hsec
        exact ⟨b', tail, h1, by rw [h2]; exact applyH_name P k top hS sec hsec t b.2, h3⟩
      · simp only [hr, if_false]; exact ih sec b (i+1) hsec

/-- an early registration of the open object is overwritten in place by its final one -/
theorem declSpec_absorb (P : Params C G) (k : Kind) (top : String) (hS : NameStable P k top)
    (lines : List Line) (sec : Path) (cur : Option (Nat × C)) (i : Nat) (hsec : sec ≠ [top])
    (d : List (Option String × (Nat × C))) :
    (declSpec P k top sec cur i lines).foldl (regStep P) (cur.toList.foldl (regStep P) d) =
      (declSpec P k top sec cur i lines).foldl (regStep P) d := by
  cases cur with
  | none => rfl
  | some b =>
    obtain ⟨b', tail, h1, h2, _⟩ := declSpec_head P k top hS lines sec b i hsec
    rw [h1]
    simp only [Option.toList_some, List.foldl_cons, List.foldl_nil, regStep, h2, dictSet_dictSet]

/-- what the generic argument needs to know about the accessors -/
structure DeclView (P : Params C G) (k : Kind) (top : String)
    (cur : St C G → Option (Nat × C)) (reg : St C G → List (Option String × (Nat × C))) : Prop where
  fin : ∀ s p, reg (ffFinalize P s p) = (cur s).toList.foldl (regStep P) (reg s)
  hdr_top : ∀ s i n, P.T.contains [n] = true → (s.sec = [] → cur s = none) →
    reg (ffHeaderWith ffFinalize P s i n) = (cur s).toList.foldl (regStep P) (reg s) ∧
    cur (ffHeaderWith ffFinalize P s i n) = if n = top then some (i, P.fresh k) else cur s
  hdr_sub : ∀ s i n, P.T.contains [n] = false →
    reg (ffHeaderWith ffFinalize P s i n) = reg s ∧
    cur (ffHeaderWith ffFinalize P s i n) = cur s
  content : ∀ s s' t, ffContent P s t = some s' →
    s'.sec = s.sec ∧ reg s' = reg s ∧
    cur s' = if P.route s.sec = k then (cur s).map (fun b => (b.1, applyH P k s.sec t b.2)) else cur s

theorem decl_from (P : Params C G) (k : Kind) (top : String)
    (cur : St C G → Option (Nat × C)) (reg : St C G → List (Option String × (Nat × C)))
    (hV : DeclView P k top cur reg) (htop : P.T.contains [top] = true) (hS : NameStable P k top)
    (rest : List Line) :
    ∀ (s s' : St C G) (i : Nat), (s.sec = [] → cur s = none) →
      ffRunFromWith ffFinalize P s i rest = some s' →
      reg s' = (declSpec P k top s.sec (cur s) i rest).foldl (regStep P) (reg s) := by
  induction rest with
  | nil =>
    intro s s' i _ h
    rw [ffRunFromWith_nil] at h
    cases h
    simp only [declSpec, hV.fin]
  | cons l r ih =>
    intro s s' i hinv h
    cases l with
    | header n =>
      rw [ffRunFromWith_header] at h
      have hsec := ffHeader_sec P s i n
      have hinv' : (ffHeaderWith ffFinalize P s i n).sec = [] →
          cur (ffHeaderWith ffFinalize P s i n) = none := by
        intro h0; rw [hsec] at h0; exact absurd h0 (nextSec_ne_nil _ _ _)
      have := ih _ _ _ hinv' h
      rw [this, hsec]
      simp only [declSpec]
      by_cases hn : P.T.contains [n] = true
      · obtain ⟨h1, h2⟩ := hV.hdr_top s i n hn hinv
        rw [h1, h2]
        by_cases hnt : n = top
        · subst hnt
          simp only [if_true, nextSec, hn, List.foldl_append]
        · simp only [hnt, if_false]
          apply declSpec_absorb P k top hS
          intro h; exact hnt (nextSec_eq_singleton h)
      · have hn' : P.T.contains [n] = false := by simpa using hn
        obtain ⟨h1, h2⟩ := hV.hdr_sub s i n hn'
        rw [h1, h2]
        have hnt : n ≠ top := by
          intro hnt; subst hnt; exact hn htop
        simp only [hnt, if_false]
    | content t =>
      rw [ffRunFromWith_content] at h
      cases hc : ffContent P s t with
      | none => rw [hc] at h; cases h
      | some s1 =>
        rw [hc] at h
        simp only [Option.bind_some] at h
        obtain ⟨h1, h2, h3⟩ := hV.content s s1 t hc
        have := ih s1 s' (i+1) (by
          intro h0; rw [h1] at h0; rw [h3, hinv h0]; simp) h
        rw [this, h1, h2, h3]
        simp only [declSpec]

theorem ffContent_blk (P : Params C G) (s s' : St C G) (t : String) (h : ffContent P s t = some s') :
    s'.sec = s.sec ∧ s'.blocks = s.blocks ∧
    s'.blk = if P.route s.sec = .block then
        s.blk.map (fun b => (b.1, applyH P .block s.sec t b.2)) else s.blk := by
  unfold ffContent at h
  split at h
  · cases h
  · split at h
    next hr =>
      simp only [Option.map_eq_some_iff] at h
      obtain ⟨g', _, rfl⟩ := h
      simp [hr]
    next hr =>
      split at h
      · cases h
      next i c hl =>
        simp only [Option.map_eq_some_iff] at h
        obtain ⟨c', hc, rfl⟩ := h
        simp [hr, hl, applyH, hc]
    next hr =>
      split at h
      · cases h
      · simp only [Option.map_eq_some_iff] at h
        obtain ⟨c', _, rfl⟩ := h
        simp [hr]
    next hr =>
      split at h
      · cases h
      · simp only [Option.map_eq_some_iff] at h
        obtain ⟨c', _, rfl⟩ := h
        simp [hr]

theorem ffContent_mod (P : Params C G) (s s' : St C G) (t : String) (h : ffContent P s t = some s') :
    s'.sec = s.sec ∧ s'.mods = s.mods ∧
    s'.mod = if P.route s.sec = .modification then
        s.mod.map (fun b => (b.1, applyH P .modification s.sec t b.2)) else s.mod := by
  unfold ffContent at h
  split at h
  · cases h
  · split at h
    next hr =>
      simp only [Option.map_eq_some_iff] at h
      obtain ⟨g', _, rfl⟩ := h
      simp [hr]
    next hr =>
      split at h
      · cases h
      · simp only [Option.map_eq_some_iff] at h
        obtain ⟨c', _, rfl⟩ := h
        simp [hr]
    next hr =>
      split at h
      · cases h
      · simp only [Option.map_eq_some_iff] at h
        obtain ⟨c', _, rfl⟩ := h
        simp [hr]
    next hr =>
      split at h
      · cases h
      next i c hl =>
        simp only [Option.map_eq_some_iff] at h
        obtain ⟨c', hc, rfl⟩ := h
        simp [hr, hl, applyH, hc]

theorem blockView (P : Params C G) (hT : TopOk P.T) :
    DeclView P .block "moleculetype" (·.blk) (·.blocks) where
  fin := fun s p => ffFinalize_blocks P s p
  hdr_top := by
    intro s i n hn hinv
    unfold ffHeaderWith
    simp only [hn, if_true, ffAction_blocks, ffAction_blk]
    by_cases h0 : s.sec = []
    · simp [h0, hinv h0]
    · simp only [h0, if_false]
      refine ⟨ffFinalize_blocks P s _, ?_⟩
      by_cases hnt : n = "moleculetype" <;> simp [hnt, ffFinalize_blk]
  hdr_sub := by
    intro s i n hn
    unfold ffHeaderWith
    simp only [hn, Bool.false_eq_true, if_false, ffAction_blocks, ffAction_blk]
    refine ⟨trivial, ?_⟩
    have hne : reducePath P.T s.sec n ≠ ["moleculetype"] := by
      intro h
      have := reducePath_eq_singleton h
      subst this
      rw [hT.1] at hn
      cases hn
    simp [hne]
  content := fun s s' t h => ffContent_blk P s s' t h

theorem modView (P : Params C G) (hT : TopOk P.T) :
    DeclView P .modification "modification" (·.mod) (·.mods) where
  fin := fun s p => ffFinalize_mods P s p
  hdr_top := by
    intro s i n hn hinv
    unfold ffHeaderWith
    simp only [hn, if_true, ffAction_mods, ffAction_mod]
    by_cases h0 : s.sec = []
    · simp [h0, hinv h0]
    · simp only [h0, if_false]
      refine ⟨ffFinalize_mods P s _, ?_⟩
      by_cases hnt : n = "modification" <;> simp [hnt, ffFinalize_mod]
  hdr_sub := by
    intro s i n hn
    unfold ffHeaderWith
    simp only [hn, Bool.false_eq_true, if_false, ffAction_mods, ffAction_mod]
    refine ⟨trivial, ?_⟩
    have hne : reducePath P.T s.sec n ≠ ["modification"] := by
      intro h
      have := reducePath_eq_singleton h
      subst this
      rw [hT.2.2] at hn
      cases hn
    simp [hne]
  content := fun s s' t h => ffContent_mod P s s' t h

theorem dictOfList_map_eq (P : Params C G) (l : List (Nat × C)) :
    dictOfList (l.map (fun b => (P.nameOf b.2, b))) = l.foldl (regStep P) [] := by
  unfold dictOfList
  rw [List.foldl_map]
  rfl

/-- **Blocks specification**: the `blocks` dict of a successful run is the dict built from the
blocks of `blockSpec`, in order (a later block with the same name replaces the earlier one in
place, as `d[name] = block` does). -/
theorem ff_blocks_spec (P : Params C G) (g0 : G) (lines : List Line) (s : St C G)
    (hT : TopOk P.T) (hS : NameStable P .block "moleculetype") (h : ffRun P g0 lines = some s) :
    s.blocks = dictOfList ((blockSpec P [] none 0 lines).map (fun b => (P.nameOf b.2, b))) := by
  rw [dictOfList_map_eq, blockSpec_eq_declSpec]
  exact decl_from P .block "moleculetype" (·.blk) (·.blocks) (blockView P hT) hT.1 hS lines
    { g := g0 } s 0 (fun _ => rfl) h

/-- **Modifications specification** -/
theorem ff_mods_spec (P : Params C G) (g0 : G) (lines : List Line) (s : St C G)
    (hT : TopOk P.T) (hS : NameStable P .modification "modification")
    (h : ffRun P g0 lines = some s) :
    s.mods = dictOfList ((modSpec P [] none 0 lines).map (fun b => (P.nameOf b.2, b))) := by
  rw [dictOfList_map_eq, modSpec_eq_declSpec]
  exact decl_from P .modification "modification" (·.mod) (·.mods) (modView P hT) hT.2.2 hS lines
    { g := g0 } s 0 (fun _ => rfl) h

/-! ## The `.mapping` dispatcher (`SectionLineParser.parse_header` as used by `MappingDirector`) -/

/-- the path contains a `block` or `modification` section -/
def isDeclPath (p : Path) : Bool := p.any (fun e => e = "block" || e = "modification")

/-- the sections a header `n` ends: the suffix of `sec` that `parse_header` pops -/
def endedOf (T : List Path) (sec : Path) (n : String) : Path :=
  sec.drop ((reducePath T sec n).length - 1)

/-- SPEC for `.mapping` files: the mapping under construction (`cur`, with the index of the line at
which it was started) is emitted when a header ends a `block` or `modification` section, and at the
end of the file when the open section path contains one; a fresh mapping is started at that header. -/
def mapSpec (P : MParams C) : Path → Nat × C → Nat → List Line → List (Nat × C)
  | sec, cur, _, [] => if isDeclPath sec then [cur] else []
  | sec, cur, i, .header n :: r =>
    if isDeclPath (endedOf P.T sec n) then cur :: mapSpec P (reducePath P.T sec n) (i, P.fresh) (i+1) r
    else mapSpec P (reducePath P.T sec n) cur (i+1) r
  | sec, cur, i, .content t :: r =>
    mapSpec P sec (cur.1, (P.handle sec t cur.2).getD cur.2) (i+1) r

theorem endedRev_split (T : List Path) (n : String) (l : List String) :
    ∃ kept, l = endedRev T n l ++ kept ∧ reduceRev T n l = n :: kept := by
  induction l with
  | nil => exact ⟨[], rfl, rfl⟩
  | cons r rest ih =>
    simp only [endedRev, reduceRev]
    split
    · exact ⟨r :: rest, rfl, rfl⟩
    · obtain ⟨kept, h1, h2⟩ := ih
      exact ⟨kept, by rw [List.cons_append, ← h1], h2⟩

/-- the names popped by the loop are exactly the dropped suffix of the path (in reverse order) -/
theorem endedRev_eq (T : List Path) (sec : Path) (n : String) :
    endedRev T n sec.reverse = (endedOf T sec n).reverse := by
  obtain ⟨kept, h1, h2⟩ := endedRev_split T n sec.reverse
  have hsec : sec = kept.reverse ++ (endedRev T n sec.reverse).reverse := by
    have := congrArg List.reverse h1
    simpa using this
  unfold endedOf reducePath
  rw [h2]
  generalize endedRev T n sec.reverse = e at hsec ⊢
  subst hsec
  simp

/-- what is kept of the path is a prefix of it, followed by the new name -/
theorem reducePath_eq (T : List Path) (sec : Path) (n : String) :
    reducePath T sec n = sec.take ((reducePath T sec n).length - 1) ++ [n] := by
  obtain ⟨kept, h1, h2⟩ := endedRev_split T n sec.reverse
  have hsec : sec = kept.reverse ++ (endedRev T n sec.reverse).reverse := by
    have := congrArg List.reverse h1
    simpa using this
  unfold reducePath
  rw [h2]
  generalize endedRev T n sec.reverse = e at hsec ⊢
  subst hsec
  simp

theorem mapFinalize_out (P : MParams C) (s : MSt C) (ended : List String) (i : Nat) :
    (mapFinalize P s ended i).sec = s.sec ∧
    (mapFinalize P s ended i).out = s.out ++ (if isDeclPath ended then [s.cur] else []) ∧
    (mapFinalize P s ended i).cur = if isDeclPath ended then (i, P.fresh) else s.cur := by
  unfold mapFinalize isDeclPath
  split <;> simp [*]

theorem mapHeader_spec (P : MParams C) (s : MSt C) (i : Nat) (n : String) :
    (mapHeader P s i n).sec = reducePath P.T s.sec n ∧
    (mapHeader P s i n).out = s.out ++ (if isDeclPath (endedOf P.T s.sec n) then [s.cur] else []) ∧
    (mapHeader P s i n).cur = if isDeclPath (endedOf P.T s.sec n) then (i, P.fresh) else s.cur := by
  have hrev : isDeclPath (endedRev P.T n s.sec.reverse) = isDeclPath (endedOf P.T s.sec n) := by
    rw [endedRev_eq]; simp [isDeclPath]
  unfold mapHeader
  by_cases h0 : s.sec = []
  · simp [h0, endedOf, isDeclPath]
  · obtain ⟨_, h2, h3⟩ := mapFinalize_out P s (endedRev P.T n s.sec.reverse) i
    simp only [h0, if_false, h2, h3, hrev]
    exact ⟨trivial, trivial, trivial⟩

theorem mapContent_spec (P : MParams C) (s s' : MSt C) (t : String) (h : mapContent P s t = some s') :
    s'.sec = s.sec ∧ s'.out = s.out ∧ s'.cur = (s.cur.1, (P.handle s.sec t s.cur.2).getD s.cur.2) := by
  unfold mapContent at h
  split at h
  · cases h
  · simp only [Option.map_eq_some_iff] at h
    obtain ⟨c', hc, rfl⟩ := h
    simp [hc]

theorem map_out_from (P : MParams C) (rest : List Line) :
    ∀ (s s' : MSt C) (i : Nat), mapRunFrom P s i rest = some s' →
      s'.out = s.out ++ mapSpec P s.sec s.cur i rest := by
  induction rest with
  | nil =>
    intro s s' i h
    simp only [mapRunFrom, Option.some.injEq] at h
    subst h
    simp only [mapSpec, (mapFinalize_out P s s.sec i).2.1]
  | cons l r ih =>
    intro s s' i h
    cases l with
    | header n =>
      simp only [mapRunFrom] at h
      obtain ⟨h1, h2, h3⟩ := mapHeader_spec P s i n
      rw [ih _ _ _ h, h1, h2, h3]
      simp only [mapSpec]
      split <;> simp
    | content t =>
      simp only [mapRunFrom] at h
      cases hc : mapContent P s t with
      | none => rw [hc] at h; cases h
      | some s1 =>
        rw [hc] at h
        obtain ⟨h1, h2, h3⟩ := mapContent_spec P s s1 t hc
        rw [ih _ _ _ h, h1, h2, h3]
        simp only [mapSpec]

/-- **Mapping dispatcher specification** -/
theorem map_out_spec (P : MParams C) (lines : List Line) (s : MSt C)
    (h : mapRun P lines = some s) : s.out = mapSpec P [] (0, P.fresh) 0 lines := by
  have := map_out_from P lines { cur := (0, P.fresh) } s 0 h
  simpa using this

/-! ## Negation witnesses -/

def P0 : Params (List String) Unit where
  T := [["moleculetype"], ["link"], ["modification"], ["macros"], ["link", "bonds"],
        ["moleculetype", "atoms"]]
  route := fun p => match p.head? with
    | some "moleculetype" => .block
    | some "link" => .link
    | some "modification" => .modification
    | _ => .global
  handle := fun _ _ t c => some (c ++ [t])
  handleG := fun _ _ _ g => some g
  fresh := fun _ => []
  nameOf := fun c => c.head?

def W1 : List Line :=
  [.header "link", .content "A", .header "link", .content "B", .header "moleculetype", .content "X",
   .header "link", .content "C"]

def W2 : List Line :=
  [.header "link", .header "bonds", .content "A", .header "foo", .header "link", .header "bonds",
   .content "B"]

theorem old_dispatcher_duplicates_links :
    (ffRunOld P0 () W1).map (fun s => s.links.map (·.1)) = some [0, 2, 2, 6] := by decide

theorem v1_dispatcher_loses_link :
    (ffRunV1 P0 () W2).map (fun s => s.links.map (·.1)) = some [4] := by decide

theorem repaired_dispatcher_W1 :
    (ffRun P0 () W1).map (fun s => s.links.map (·.1)) = some [0, 2, 6] := by decide

theorem repaired_dispatcher_W2 :
    (ffRun P0 () W2).map (fun s => s.links.map (·.1)) = some [0, 4] := by decide

end C13
